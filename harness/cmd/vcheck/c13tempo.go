package main

import (
	"context"
	"database/sql/driver"
	"fmt"
	"net/http/httptest"
	"net/url"
	"os"
	"regexp"
	"strconv"
	"strings"
	"sync"
	"time"

	"github.com/gorilla/mux"
	rmodel "github.com/metrico/qryn/reader/model"
	rrouter "github.com/metrico/qryn/reader/router"
	rservice "github.com/metrico/qryn/reader/service"
	"verif/harness/fakes"
	"verif/harness/h"
)

// The legacy Tempo search (GET /api/search?tags=…): TempoService.Search → dbVersion.GetVersionInfo (settings rows,
// SHOW TABLES: answered by the scripted database according to a generated VERSION STATE) → tempo.SQLIndexQuery +
// tempo.GetTracesQuery → one statement. `model-tempo` ties Tempo.planSearch (the statement as a function of the request
// and the version state, Props/C13 `tempo_search_confined`) to that statement byte for byte; the REAL statement is
// additionally parsed back by the driver (re-rendered byte-equal or rejected), judged structurally and EXECUTED by the
// driver's SQL semantics on a generated span/index database with spans on the first and last UTC day of the window but
// outside of it: a returned span outside the window is a violation with a concrete replay.

type c13tTag struct {
	Key string `json:"key"`
	Op  string `json:"op"`
	Val string `json:"val"`
}

type c13tReq struct {
	HasTags bool      `json:"has_tags"`
	Tags    []c13tTag `json:"tags"`
	Text    string    `json:"tags_param"`
	MinDur  int64     `json:"min_duration_ns"`
	MaxDur  int64     `json:"max_duration_ns"`
	Limit   int       `json:"limit"`
	From    int64     `json:"from_ns"`
	To      int64     `json:"to_ns"`
	Cluster bool      `json:"cluster"`
	DB      string    `json:"db"`
}

// the version state as the database presents it
type c13tVer struct {
	Kind   string      `json:"kind"`
	Rows   [][2]string `json:"settings_update_rows"`
	Tables []string    `json:"show_tables"`
}

var c13tOpName = map[string]string{"=": "eq", "!=": "ne", "=~": "re", "!~": "nre"}
var c13tLiteral = regexp.MustCompile(`^[^ !=~"]+$`)

func c13tWord(s string) string {
	if c13tLiteral.MatchString(s) && !strings.ContainsAny(s, "\t\n\r\f\v") {
		return s
	}
	return strconv.Quote(s)
}

func (q c13tReq) ser() string {
	tags := "NONE"
	if q.HasTags {
		var ps []string
		for _, t := range q.Tags {
			ps = append(ps, hx(t.Key)+":"+c13tOpName[t.Op]+":"+hx(t.Val))
		}
		tags = "-"
		if len(ps) > 0 {
			tags = strings.Join(ps, ";")
		}
	}
	return fmt.Sprintf("%s %d %d %d %d %d %d %s %s %s 0", tags, q.MinDur, q.MaxDur, q.Limit, q.From, q.To, b2i(q.Cluster),
		hx(q.DB), hx("tempo_traces"), hx("tempo_traces_dist"))
}

func (v c13tVer) ser() string {
	rows, tabs := "-", "-"
	var rs, ts []string
	for _, r := range v.Rows {
		rs = append(rs, hx(r[0])+":"+hx(r[1]))
	}
	for _, t := range v.Tables {
		ts = append(ts, hx(t))
	}
	if len(rs) > 0 {
		rows = strings.Join(rs, ";")
	}
	if len(ts) > 0 {
		tabs = strings.Join(ts, ";")
	}
	return rows + " " + tabs
}

type c13tNamed struct {
	*fakes.DB
	name string
}

func (d *c13tNamed) GetName() string { return d.name }

var c13tSeq int
var c13tMtx sync.Mutex

// c13tRun: the real TempoService.Search over a scripted database presenting the version state; returns the statement
// sent for the search itself (the two bookkeeping queries of GetVersionInfo are answered, not returned) and which of
// them were asked. `answer` (optional) supplies the result rows of the search statement.
func c13tRun(q c13tReq, v c13tVer, answer func(sql string) [][]driver.Value) (stmt string, asked int, res []*rmodel.TraceResponse, err error) {
	c20Setup()
	var mtx sync.Mutex
	var sqls []string
	resp := func(s string) ([]string, [][]driver.Value, error) {
		mtx.Lock()
		defer mtx.Unlock()
		switch {
		case strings.HasPrefix(s, "SELECT argMax(name, inserted_at)"):
			asked++
			want := "FROM settings WHERE"
			if q.Cluster {
				want = "FROM settings_dist WHERE"
			}
			if !strings.Contains(s, want) {
				sqls = append(sqls, "UNEXPECTED-SETTINGS-TABLE: "+s)
			}
			var rows [][]driver.Value
			for _, r := range v.Rows {
				rows = append(rows, []driver.Value{r[0], r[1]})
			}
			return []string{"_name", "_value"}, rows, nil
		case strings.TrimSpace(s) == "SHOW TABLES":
			asked++
			var rows [][]driver.Value
			for _, t := range v.Tables {
				rows = append(rows, []driver.Value{t})
			}
			return []string{"name"}, rows, nil
		}
		sqls = append(sqls, s)
		if answer != nil {
			return []string{"trace_id", "root_service_name", "root_trace_name", "start_time_unix_nano", "duration_ms"}, answer(s), nil
		}
		return nil, nil, nil
	}
	reg := fakes.NewDBRegistry(&fakes.CallLog{}, resp)
	c13tMtx.Lock()
	c13tSeq++
	name := fmt.Sprintf("c13t-%d", c13tSeq)
	c13tMtx.Unlock()
	reg.M.Session = &c13tNamed{DB: reg.M.Session.(*fakes.DB), name: name}
	reg.M.Config.Name = q.DB
	if q.Cluster {
		reg.M.Config.ClusterName = "c1"
	}
	svc := rservice.NewTempoService(rmodel.ServiceData{Session: reg})
	tags := ""
	if q.HasTags {
		tags = q.Text
	}
	func() {
		// IsVersionSupported prints "Checking …" for every call: keep it out of the harness output
		saved := os.Stdout
		if dn, e := os.OpenFile(os.DevNull, os.O_WRONLY, 0); e == nil {
			os.Stdout = dn
			defer func() { os.Stdout = saved; dn.Close() }()
		}
		defer func() {
			if p := recover(); p != nil {
				err = fmt.Errorf("panic: %v", p)
			}
		}()
		var ch chan *rmodel.TraceResponse
		ch, err = svc.Search(context.Background(), tags, q.MinDur, q.MaxDur, q.Limit, q.From, q.To)
		if err != nil {
			return
		}
		for t := range ch {
			res = append(res, t)
		}
	}()
	mtx.Lock()
	defer mtx.Unlock()
	if err != nil {
		return "", asked, nil, err
	}
	if len(sqls) != 1 {
		return "", asked, nil, fmt.Errorf("expected one search statement, got %d: %q", len(sqls), sqls)
	}
	return sqls[0], asked, res, nil
}

var c13tKeys = []string{"service.name", "http.status_code", "a", "k'ey", "span kind", "x\\y", "", "näme", "q\"uote"}
var c13tVals = []string{"checkout", "200", "a.*b", "it's", "two words", "", "back\\slash", "tab\there", "ünï", "x\x00y", "1", "^(GET|POST)$"}

func c13tGenReq(rng *h.Rng) c13tReq {
	var q c13tReq
	q.DB = h.Pick(rng, []string{"qryn", "db1", "my-db"})
	q.Cluster = rng.Chance(35)
	switch rng.Intn(10) {
	case 0:
		// no tags parameter: no index request
	case 1:
		q.HasTags, q.Text = true, h.Pick(rng, []string{" ", "  ", "   "})
	default:
		q.HasTags = true
		var ws []string
		for k, n := 0, rng.Range(1, 4); k < n; k++ {
			t := c13tTag{h.Pick(rng, c13tKeys), h.Pick(rng, []string{"=", "!=", "=~", "!~"}), h.Pick(rng, c13tVals)}
			q.Tags = append(q.Tags, t)
			ws = append(ws, c13tWord(t.Key)+t.Op+c13tWord(t.Val))
		}
		q.Text = strings.Join(ws, " ")
	}
	q.Limit = h.Pick(rng, []int{0, 1, 10, 20, 20, 1000, -1})
	q.MinDur = h.Pick(rng, []int64{0, 0, 1, 999999, 1000000, 1500000000, -5})
	q.MaxDur = h.Pick(rng, []int64{0, 0, 1, 2000000, 60000000000, -1})
	day := int64(19000+rng.Intn(1500)) * 86400e9
	switch rng.Intn(8) {
	case 0: // inside one day
		q.From = day + int64(rng.Range(3600, 40000))*1e9
		q.To = q.From + int64(rng.Range(1, 40000))*1e9
	case 1: // across midnight
		q.From, q.To = day-int64(rng.Range(1, 3600))*1e9, day+int64(rng.Range(1, 3600))*1e9
	case 2: // several days ("last 7 days")
		q.From = day + int64(rng.Intn(86400))*1e9
		q.To = q.From + int64(rng.Range(1, 8))*86400e9 + int64(rng.Intn(1000))
	case 3: // sub-second, nanosecond ends
		q.From = day + int64(rng.Intn(86400))*1e9 + int64(rng.Intn(1e9))
		q.To = q.From + int64(rng.Range(1, 2000000000))
	case 4: // ends exactly at midnight / starts exactly at midnight
		if rng.Bool() {
			q.From, q.To = day-int64(rng.Range(1, 7200))*1e9, day
		} else {
			q.From, q.To = day, day+int64(rng.Range(1, 7200))*1e9
		}
	case 5: // the guards `> 0`: absent / negative ends
		q.From = h.Pick(rng, []int64{0, -1, -5e9, day})
		q.To = h.Pick(rng, []int64{0, -1, day + 3600e9})
	case 6: // first second of 1970, far future
		q.From, q.To = h.Pick(rng, []int64{1, 999999999, 1e9}), h.Pick(rng, []int64{2e9, 4102444800e9})
	default:
		q.From = day + int64(rng.Intn(86400))*1e9
		q.To = q.From + int64(rng.Range(1, 6*3600))*1e9
	}
	return q
}

// c13tGenVer: the version states — no row, tempo_v2 installed before / exactly at / inside / after the window, values that
// do not parse, duplicates, other features, with and without a metrics_15s table
func c13tGenVer(rng *h.Rng, q c13tReq) c13tVer {
	var v c13tVer
	fromS, toS := q.From/1e9, q.To/1e9
	other := func() {
		if rng.Bool() {
			v.Rows = append(v.Rows, [2]string{"v3_1", "0"})
		}
		if rng.Bool() {
			v.Rows = append(v.Rows, [2]string{"v5", strconv.FormatInt(fromS+int64(rng.Intn(100))-50, 10)})
		}
	}
	other()
	switch rng.Intn(12) {
	case 0:
		v.Kind = "absent"
	case 1:
		v.Kind = "zero"
		v.Rows = append(v.Rows, [2]string{"tempo_v2", "0"})
	case 2:
		v.Kind = "before-window"
		v.Rows = append(v.Rows, [2]string{"tempo_v2", strconv.FormatInt(fromS-int64(rng.Range(1, 1000000)), 10)})
	case 3:
		v.Kind = "at-window-start-second"
		v.Rows = append(v.Rows, [2]string{"tempo_v2", strconv.FormatInt(fromS, 10)})
	case 4:
		v.Kind = "one-second-after-window-start"
		v.Rows = append(v.Rows, [2]string{"tempo_v2", strconv.FormatInt(fromS+1, 10)})
	case 5:
		v.Kind = "inside-window"
		d := toS - fromS
		if d < 2 {
			d = 2
		}
		v.Rows = append(v.Rows, [2]string{"tempo_v2", strconv.FormatInt(fromS+1+int64(rng.Intn(int(d%1000000+1))), 10)})
	case 6:
		v.Kind = "after-window"
		v.Rows = append(v.Rows, [2]string{"tempo_v2", strconv.FormatInt(toS+int64(rng.Range(1, 1000000)), 10)})
	case 7:
		v.Kind = "unparsable"
		v.Rows = append(v.Rows, [2]string{"tempo_v2", h.Pick(rng, []string{"", "abc", "1.5", "1e9", " 5", "99999999999999999999", "0x10", "1_000"})})
	case 8:
		v.Kind = "signed"
		v.Rows = append(v.Rows, [2]string{"tempo_v2", h.Pick(rng, []string{"+0", "-0", "+" + strconv.FormatInt(fromS, 10), "-5", "-9223372036854775808"})})
	case 9:
		v.Kind = "overflowing-product"
		v.Rows = append(v.Rows, [2]string{"tempo_v2", h.Pick(rng, []string{"9223372036854775807", "18446744074", "9223372037", "36893488148"})})
	case 10:
		v.Kind = "duplicate-rows"
		a, b := strconv.FormatInt(fromS-10, 10), strconv.FormatInt(toS+10, 10)
		if rng.Bool() {
			a, b = b, a
		}
		v.Rows = append(v.Rows, [2]string{"tempo_v2", a}, [2]string{"tempo_v2", b})
		if rng.Bool() {
			v.Rows = append(v.Rows, [2]string{"tempo_v2", "junk"})
		}
	default:
		v.Kind = "other-name"
		v.Rows = append(v.Rows, [2]string{h.Pick(rng, []string{"tempo_v1", "tempo_v2 ", "TEMPO_V2", ""}), "0"})
	}
	if rng.Chance(40) {
		v.Tables = append(v.Tables, h.Pick(rng, []string{"metrics_15s", "metrics_15s_dist", "samples_v3", "tempo_traces"}))
	}
	return v
}

func c13ModelTempo(r *h.Result, rng *h.Rng, n int) error {
	r.Stream("model-tempo: TempoService.Search (GetVersionInfo over the scripted settings / SHOW TABLES answers of a generated version state → SQLIndexQuery + GetTracesQuery → String) vs Tempo.planSearch(request, Tempo.versionInfo(rows, tables)).render (byte-equal), every version state: row absent / before / at / inside / after the window, unparsable, signed, overflowing, duplicated")
	var ops, impl []string
	var cases []any
	for i := 0; i < n; i++ {
		q := c13tGenReq(rng)
		v := c13tGenVer(rng, q)
		stmt, asked, _, err := c13tRun(q, v, nil)
		if err != nil {
			r.Count("model-tempo:impl-error")
			r.Disagree("model-tempo", "c13tsearch "+q.ser()+" "+v.ser(), "error: "+err.Error(), "", map[string]any{"request": q, "version": v})
			continue
		}
		want := 0
		if q.HasTags {
			want = 2
		}
		if asked != want {
			r.Disagree("model-tempo", "version queries asked", strconv.Itoa(asked), strconv.Itoa(want), map[string]any{"request": q, "version": v})
		}
		ops = append(ops, "c13tsearch "+q.ser()+" "+v.ser())
		impl = append(impl, h.Hex([]byte(stmt)))
		cases = append(cases, map[string]any{"stream": "model-tempo", "request": q, "version": v, "sql": stmt})
		r.Case(fmt.Sprintf("model-tempo:%v:%v", q, v), true)
		r.Count("model-tempo:version=" + v.Kind)
		r.Count(fmt.Sprintf("model-tempo:tags=%d", len(q.Tags)))
		if !q.HasTags {
			r.Count("model-tempo:no-index-request")
		}
		if i == 0 {
			r.Sample(map[string]any{"stream": "model-tempo", "request": q, "version": v, "sql": stmt})
		}
	}
	ans, err := h.Model(ops)
	if err != nil {
		return err
	}
	for i, a := range ans {
		f := strings.Fields(a)
		if len(f) != 4 || f[0] != impl[i] {
			got := a
			if len(f) > 0 {
				got = f[0]
			}
			r.Disagree("model-tempo", ops[i], impl[i], got, cases[i])
			continue
		}
		for k, name := range []string{"", "searchConfined(model plan)", "hypotheses of tempo_search_confined under lokiCfg", "text reads back as the plan"} {
			if k > 0 && f[k] != "true" {
				r.Disagree("model-tempo", ops[i]+" ["+name+"]", "true", f[k], cases[i])
			}
		}
	}
	return nil
}

// ---- judge-tempo: the REAL statement read back, judged and executed by the driver on a generated database

type c13tSpan struct {
	Trace string `json:"trace_id_hex"`
	Span  string `json:"span_id_hex"`
	Svc   string `json:"service"`
	Name  string `json:"name"`
	Ts    int64  `json:"timestamp_ns"`
	Dur   int64  `json:"duration_ns"`
	Where string `json:"where"` // position relative to the window
	Match bool   `json:"matches_all_tags"`
}
type c13tAttr struct {
	Date  string `json:"date"`
	Key   string `json:"key"`
	Val   string `json:"val"`
	Trace string `json:"trace_id_hex"`
	Span  string `json:"span_id_hex"`
	Ts    int64  `json:"timestamp_ns"`
	Dur   int64  `json:"duration"`
}

// a value for which the tag's condition holds (want) or fails, under the driver's oracle (match = substring)
func c13tValFor(rng *h.Rng, t c13tTag, want bool) string {
	other := "zz" + strconv.Itoa(rng.Intn(1000))
	switch t.Op {
	case "=":
		if want {
			return t.Val
		}
		return t.Val + other
	case "!=":
		if want {
			return t.Val + other
		}
		return t.Val
	case "=~":
		if want {
			return "p" + t.Val + "s"
		}
		if t.Val == "" {
			return "" // the empty pattern is found everywhere: the condition cannot fail
		}
		return other
	default: // !~
		if want {
			if t.Val == "" {
				return ""
			}
			return other
		}
		return "p" + t.Val + "s"
	}
}

func c13tDate(ns int64) string {
	return time.Unix(0, ns).UTC().Format("2006-01-02")
}

// c13tHolds: the tag's condition on a stored value under the driver's oracle (match(val, pat) = pat occurs in val)
func c13tHolds(t c13tTag, val string) bool {
	switch t.Op {
	case "=":
		return val == t.Val
	case "!=":
		return val != t.Val
	case "=~":
		return strings.Contains(val, t.Val)
	default:
		return !strings.Contains(val, t.Val)
	}
}

// c13tInstalled: the moment (ns) from which index rows carry timestamp_ns / duration — the last parsable tempo_v2 row — and
// whether there is one at all. Rows written before the tempo_v2 update have the columns' default, 0.
func c13tInstalled(v c13tVer) (int64, bool) {
	at, ok := int64(0), false
	for _, r := range v.Rows {
		if r[0] != "tempo_v2" {
			continue
		}
		if t, err := strconv.ParseInt(r[1], 10, 64); err == nil {
			at, ok = t, true
		}
	}
	if !ok {
		return 0, false
	}
	if at > 9000000000 || at < -9000000000 {
		return at, false // the int64 product wraps: such a value is not the record of an installation
	}
	return at * 1e9, true
}

// c13tGenDb: spans inside the window, exactly at its ends, and — the ones that matter — on the first and the last UTC day
// of the window but outside of it, plus the neighbouring days; the attribute index repeats each span's timestamp and
// duration for spans stored since the tempo_v2 update and holds 0 for older ones (and everywhere without the update)
func c13tGenDb(rng *h.Rng, q c13tReq, v c13tVer) ([]c13tSpan, []c13tAttr) {
	var spans []c13tSpan
	var attrs []c13tAttr
	from, to := q.From, q.To
	if from <= 0 {
		from = 1
	}
	if to <= from {
		to = from + 1
	}
	installed, hasV2 := c13tInstalled(v)
	dayFrom, dayTo := from/86400e9*86400e9, to/86400e9*86400e9
	add := func(ts int64, where string) {
		if ts < 0 {
			return
		}
		s := c13tSpan{Trace: fmt.Sprintf("%032x", rng.U64()), Span: fmt.Sprintf("%016x", rng.U64()), Svc: h.Pick(rng, []string{"api", "db", "web"}),
			Name: h.Pick(rng, []string{"GET /", "query", "render"}), Ts: ts, Dur: h.Pick(rng, []int64{1, 999999, 1000000, 2500000, 1500000000, 70000000000}),
			Where: where, Match: true}
		miss := -1
		if rng.Chance(15) && len(q.Tags) > 0 {
			miss = rng.Intn(len(q.Tags))
		}
		its, idur := ts, s.Dur
		if !hasV2 || ts < installed {
			its, idur = 0, 0
		}
		var own []c13tAttr
		for i, t := range q.Tags {
			own = append(own, c13tAttr{c13tDate(ts), t.Key, c13tValFor(rng, t, i != miss), s.Trace, s.Span, its, idur})
		}
		// a tag is satisfied by ANY index row of the span with its key (two tags may share a key)
		for _, t := range q.Tags {
			found := false
			for _, a := range own {
				if a.Key == t.Key && c13tHolds(t, a.Val) {
					found = true
				}
			}
			if !found {
				s.Match = false
			}
		}
		attrs = append(attrs, own...)
		if rng.Chance(30) {
			attrs = append(attrs, c13tAttr{c13tDate(ts), "other.key", "v", s.Trace, s.Span, its, idur})
		}
		spans = append(spans, s)
	}
	between := func(a, b int64) int64 {
		if b <= a {
			return a
		}
		return a + int64(rng.U64()%uint64(b-a))
	}
	for k := 0; k < 3; k++ {
		add(between(from+1, to), "inside")
	}
	add(from, "at-from(excluded)")
	add(from+1, "from+1ns")
	add(to, "at-to(included)")
	add(to+1, "to+1ns")
	if from > dayFrom {
		add(between(dayFrom, from), "first-day-before-window")
		add(dayFrom, "first-day-midnight")
		add(from-1, "from-1ns")
	}
	if to < dayTo+86400e9-1 {
		add(between(to+1, dayTo+86400e9), "last-day-after-window")
		add(dayTo+86400e9-1, "last-day-last-ns")
	}
	add(dayFrom-1-int64(rng.Intn(80000))*1e9, "day-before")
	add(dayTo+86400e9+int64(rng.Intn(80000))*1e9, "day-after")
	return spans, attrs
}

func c13tDbSer(spans []c13tSpan, attrs []c13tAttr) (string, string) {
	var ss, as []string
	for _, s := range spans {
		ss = append(ss, fmt.Sprintf("%s:%s:%s:%s:%d:%d", s.Trace, s.Span, hx(s.Svc), hx(s.Name), s.Ts, s.Dur))
	}
	for _, a := range attrs {
		as = append(as, fmt.Sprintf("%s:%s:%s:%s:%s:%d:%d", hx(a.Date), hx(a.Key), hx(a.Val), a.Trace, a.Span, a.Ts, a.Dur))
	}
	j := func(x []string) string {
		if len(x) == 0 {
			return "-"
		}
		return strings.Join(x, ";")
	}
	return j(ss), j(as)
}

func c13JudgeTempo(r *h.Result, rng *h.Rng, n int) error {
	r.Stream("judge-tempo: the statement the REAL TempoService.Search sent (every version state) is read back by the driver (lexed with the ClickHouse lexer model, parsed, re-rendered byte-equal or rejected), judged by searchConfined for the request window and EXECUTED (Tempo.searchRows over Sql.evalE) on a generated span table + attribute index with matching spans inside the window, at its ends ±1 ns, on its first / last UTC day but outside of it, and on the neighbouring days; oracle (Go): every returned span has from < timestamp_ns ≤ to")
	type jc struct {
		q     c13tReq
		v     c13tVer
		stmt  string
		spans []c13tSpan
		attrs []c13tAttr
	}
	var ops []string
	var cs []jc
	for i := 0; i < n; i++ {
		q := c13tGenReq(rng)
		if q.From <= 0 || q.To <= 0 {
			// no window was asked for (the controller never passes such ends): nothing to judge
			r.Count("judge-tempo:skipped-no-window")
			continue
		}
		if rng.Chance(70) && !q.HasTags {
			continue // mostly tag searches
		}
		if rng.Chance(55) {
			// requests whose result is determined by tags and window alone: completeness can be judged
			q.MinDur, q.MaxDur, q.Limit = 0, 0, h.Pick(rng, []int{0, 1000, -1})
		}
		v := c13tGenVer(rng, q)
		stmt, _, _, err := c13tRun(q, v, nil)
		if err != nil {
			r.Count("judge-tempo:impl-error")
			continue
		}
		spans, attrs := c13tGenDb(rng, q, v)
		ss, as := c13tDbSer(spans, attrs)
		ops = append(ops, fmt.Sprintf("c13tjudge %d %d %s %s %s", q.From, q.To, h.Hex([]byte(stmt)), ss, as))
		cs = append(cs, jc{q, v, stmt, spans, attrs})
	}
	ans, err := h.Model(ops)
	if err != nil {
		return err
	}
	for i, a := range ans {
		c := cs[i]
		boundary := false
		for _, s := range c.spans {
			if s.Match && (s.Where == "first-day-before-window" || s.Where == "last-day-after-window" || s.Where == "first-day-midnight" || s.Where == "last-day-last-ns") {
				boundary = true
			}
		}
		r.Case(fmt.Sprintf("judge-tempo:%v:%v", c.q, c.v), boundary)
		r.Count("judge-tempo:version=" + c.v.Kind)
		f := strings.Fields(a)
		if len(f) != 7 || f[0] != "parsed" {
			r.Disagree("judge-tempo", truncS(ops[i], 300), "a statement of the shape GetTracesQuery / SQLIndexQuery build", a, map[string]any{"request": c.q, "version": c.v, "sql": c.stmt})
			continue
		}
		replay := func(extra map[string]any) map[string]any {
			m := map[string]any{"stream": "judge-tempo", "endpoint": "GET /api/search (TempoService.Search)", "request": c.q, "version_state": c.v,
				"sql": c.stmt, "verdict": strings.Join(f[1:6], " "), "spans": c.spans, "attrs_index": c.attrs}
			for k, x := range extra {
				m[k] = x
			}
			return m
		}
		if f[1] != "true" {
			what := "span-scan-unbounded"
			if f[3] != "dates=true" {
				what = "index-date-bounds"
			} else if f[2] != "table=true" {
				what = "table"
			}
			r.Violate("C13/unconfined/tempo-search/"+what,
				fmt.Sprintf("legacy Tempo search, version state %q: the statement has a scan not confined to the window (%s)", c.v.Kind, strings.Join(f[2:6], " ")), replay(nil))
		}
		returned := 0
		if f[6] != "-" {
			for _, row := range strings.Split(f[6], ",") {
				p := strings.Split(row, ":")
				if len(p) != 3 {
					continue
				}
				returned++
				ts, _ := strconv.ParseInt(p[2], 10, 64)
				if ts > c.q.From && ts <= c.q.To {
					continue
				}
				where := "?"
				for _, s := range c.spans {
					if s.Trace == p[0] && s.Span == p[1] {
						where = s.Where
					}
				}
				// the same rows as the result set of the real handler chain: what the API answers
				var api []string
				_, _, res, _ := c13tRun(c.q, c.v, func(string) [][]driver.Value {
					var rows [][]driver.Value
					for _, rr := range strings.Split(f[6], ",") {
						pp := strings.Split(rr, ":")
						t, _ := strconv.ParseInt(pp[2], 10, 64)
						rows = append(rows, []driver.Value{strings.ToUpper(pp[0]), "svc", "name", t, int64(1)})
					}
					return rows
				})
				for _, t := range res {
					api = append(api, fmt.Sprintf("%s@%d", t.TraceID, t.StartTimeUnixNano))
				}
				r.Violate("C13/tempo-search/span-outside-window",
					fmt.Sprintf("legacy Tempo search, version state %q: the statement returns span %s of trace %s with timestamp_ns %d (%s) for the window (%d, %d]",
						c.v.Kind, p[1], p[0], ts, where, c.q.From, c.q.To),
					replay(map[string]any{"returned_row": row, "where": where, "search_result_over_these_rows": api}))
				break
			}
		}
		if returned > 0 {
			r.Count("judge-tempo:returned-spans")
		}
		// nothing inside the window is missed (no duration bounds, no effective limit, a value recorded for tempo_v2 that is
		// the record of an installation): every span in (from, to] that carries all the tags is returned
		if c.q.MinDur <= 0 && c.q.MaxDur <= 0 && (c.q.Limit <= 0 || c.q.Limit >= len(c.spans)) && !(c.q.HasTags && len(c.q.Tags) == 0) &&
			c.v.Kind != "overflowing-product" && c.v.Kind != "signed" {
			got := map[string]bool{}
			if f[6] != "-" {
				for _, row := range strings.Split(f[6], ",") {
					p := strings.Split(row, ":")
					got[p[0]+":"+p[1]] = true
				}
			}
			for _, s := range c.spans {
				if s.Ts > c.q.From && s.Ts <= c.q.To && (s.Match || !c.q.HasTags) && !got[s.Trace+":"+s.Span] {
					r.Violate("C13/tempo-search/span-inside-window-missed",
						fmt.Sprintf("legacy Tempo search, version state %q: span %s of trace %s (timestamp_ns %d, %s) carries all tags and lies in the window (%d, %d] but the statement does not return it",
							c.v.Kind, s.Span, s.Trace, s.Ts, s.Where, c.q.From, c.q.To), replay(map[string]any{"missed": s}))
					break
				}
			}
			r.Count("judge-tempo:completeness-judged")
		}
		if boundary {
			r.Count("judge-tempo:matching-spans-on-boundary-days-outside-window")
		}
	}
	return nil
}

// ---- model-tempo-legacy: trace by id, legacy tag names / tag values

func c13tCapture(cluster bool, run func(svc rmodel.ITempoService) error) (string, error) {
	c20Setup()
	var mtx sync.Mutex
	var sqls []string
	reg := fakes.NewDBRegistry(&fakes.CallLog{}, func(s string) ([]string, [][]driver.Value, error) {
		mtx.Lock()
		sqls = append(sqls, s)
		mtx.Unlock()
		return nil, nil, nil
	})
	if cluster {
		reg.M.Config.ClusterName = "c1"
	}
	svc := rservice.NewTempoService(rmodel.ServiceData{Session: reg})
	if err := run(svc); err != nil {
		return "", err
	}
	mtx.Lock()
	defer mtx.Unlock()
	if len(sqls) != 1 {
		return "", fmt.Errorf("expected one statement, got %d", len(sqls))
	}
	return sqls[0], nil
}

func c13ModelTempoLegacy(r *h.Result, rng *h.Rng, n int) error {
	r.Stream("model-tempo-legacy: TempoService.Query (trace by id, start/end given or 0) / Tags / Values → statement text vs renderSel of Tempo.queryRequest / tagsRequest / valuesRequest (byte-equal) + confined of the model's trace-by-id plan when both ends are given")
	var ops, impl []string
	var cases []any
	var tight c13Tight
	ctx := context.Background()
	for i := 0; i < n; i++ {
		cluster := rng.Chance(40)
		switch i % 4 {
		case 0, 1:
			day := int64(19000+rng.Intn(1500)) * 86400
			start := h.Pick(rng, []int64{0, day + int64(rng.Intn(86400)), day - 5, -3})
			end := h.Pick(rng, []int64{0, start + int64(rng.Range(1, 100000)), day + 86400})
			tid := h.Pick(rng, []string{"0123456789abcdef0123456789abcdef", "00", "", "zz'q", fmt.Sprintf("%032x", rng.U64())})
			stmt, err := c13tCapture(cluster, func(svc rmodel.ITempoService) error {
				ch, err := svc.Query(ctx, start*1e9, end*1e9, []byte(tid), false)
				if err == nil {
					for range ch {
					}
				}
				return err
			})
			if err != nil {
				r.Count("model-tempo-legacy:impl-error")
				continue
			}
			ops = append(ops, fmt.Sprintf("c13tquery %d %d %s %d %s %s", start*1e9, end*1e9, hx(tid), b2i(cluster), hx("tempo_traces"), hx("tempo_traces_dist")))
			impl = append(impl, h.Hex([]byte(stmt))+" true true")
			cases = append(cases, map[string]any{"stream": "model-tempo-legacy", "kind": "trace-by-id", "start_s": start, "end_s": end, "trace_id": tid, "cluster": cluster, "sql": stmt})
			r.Case(fmt.Sprintf("model-tempo-legacy:query:%d:%d:%s:%v", start, end, tid, cluster), start != 0 && end != 0)
			r.Count(fmt.Sprintf("model-tempo-legacy:trace-by-id:start=%v,end=%v", start != 0, end != 0))
			if start != 0 && end != 0 {
				// the real select object, judged for the window the request names
				if ts, ok := rservice.NewTempoService(rmodel.ServiceData{}).(*rservice.TempoService); ok {
					sel := ts.GetQueryRequest(ctx, start*1e9, end*1e9, []byte(tid), fakeDB(cluster))
					tight.add("tempo-trace-by-id", start*1e9, end*1e9, 0, false, 0, sel, "trace by id", cases[len(cases)-1])
				}
			}
		case 2:
			stmt, err := c13tCapture(cluster, func(svc rmodel.ITempoService) error {
				ch, err := svc.Tags(ctx)
				if err == nil {
					for range ch {
					}
				}
				return err
			})
			if err != nil {
				r.Count("model-tempo-legacy:impl-error")
				continue
			}
			kv := "tempo_traces_kv"
			if cluster {
				kv = "tempo_traces_kv_dist"
			}
			ops = append(ops, "c13ttagsreq "+hx(kv))
			impl = append(impl, h.Hex([]byte(stmt)))
			cases = append(cases, map[string]any{"stream": "model-tempo-legacy", "kind": "tags", "cluster": cluster, "sql": stmt})
			r.Case(fmt.Sprintf("model-tempo-legacy:tags:%v", cluster), true)
			r.Count("model-tempo-legacy:tags")
		default:
			tag := h.Pick(rng, []string{"http.method", "span.http.method", ".x", "resource.service", "resource.s", "span..resource.abcdef", "span.", "it's", "", "resource."})
			stmt, err := c13tCapture(cluster, func(svc rmodel.ITempoService) error {
				ch, err := svc.Values(ctx, tag)
				if err == nil {
					for range ch {
					}
				}
				return err
			})
			if err != nil {
				r.Count("model-tempo-legacy:impl-error")
				continue
			}
			kv := "tempo_traces_kv"
			if cluster {
				kv = "tempo_traces_kv_dist"
			}
			ops = append(ops, "c13tvaluesreq "+hx(kv)+" "+hx(tag))
			impl = append(impl, h.Hex([]byte(stmt)))
			cases = append(cases, map[string]any{"stream": "model-tempo-legacy", "kind": "values", "tag": tag, "cluster": cluster, "sql": stmt})
			r.Case(fmt.Sprintf("model-tempo-legacy:values:%s:%v", tag, cluster), true)
			r.Count("model-tempo-legacy:values")
		}
	}
	if err := r.Compare("model-tempo-legacy", ops, impl, cases); err != nil {
		return err
	}
	return tight.judge(r)
}

// ---- http-tempo: the same tie through the router and the controller (parameter handling included)

func c13HTTPTempo(r *h.Result, rng *h.Rng, n int) error {
	r.Stream("http-tempo: GET /api/search?tags=…&start=…&end=…&limit=…&minDuration=…&maxDuration=… through the real router + TempoController.Search over the scripted database in a generated version state: the statement sent vs Tempo.planSearch for the window [start·10⁹, end·10⁹] (byte-equal): the controller hands the window on unshrunk")
	c20Setup()
	var ops, impl []string
	var cases []any
	for i := 0; i < n; i++ {
		q := c13tGenReq(rng)
		if !q.HasTags {
			q.Text = ""
		}
		// what the URL can say: whole seconds, Go durations
		q.From = q.From / 1e9
		q.To = q.To / 1e9
		if q.From <= 0 {
			q.From = 1700000000 + int64(rng.Intn(1000000))
		}
		if q.To <= 0 {
			q.To = q.From + int64(rng.Range(1, 100000))
		}
		startS, endS := q.From, q.To
		q.From, q.To = startS*1e9, endS*1e9
		if q.MinDur < 0 {
			q.MinDur = 0
		}
		if q.MaxDur < 0 {
			q.MaxDur = 0
		}
		limitParam := strconv.Itoa(q.Limit)
		if rng.Chance(30) {
			limitParam, q.Limit = "", 10
		}
		v := c13tGenVer(rng, q)
		var mtx sync.Mutex
		var sqls []string
		reg := fakes.NewDBRegistry(&fakes.CallLog{}, func(s string) ([]string, [][]driver.Value, error) {
			mtx.Lock()
			defer mtx.Unlock()
			switch {
			case strings.HasPrefix(s, "SELECT argMax(name, inserted_at)"):
				var rows [][]driver.Value
				for _, x := range v.Rows {
					rows = append(rows, []driver.Value{x[0], x[1]})
				}
				return []string{"_name", "_value"}, rows, nil
			case strings.TrimSpace(s) == "SHOW TABLES":
				var rows [][]driver.Value
				for _, t := range v.Tables {
					rows = append(rows, []driver.Value{t})
				}
				return []string{"name"}, rows, nil
			}
			sqls = append(sqls, s)
			return nil, nil, nil
		})
		c13tMtx.Lock()
		c13tSeq++
		name := fmt.Sprintf("c13h-%d", c13tSeq)
		c13tMtx.Unlock()
		reg.M.Session = &c13tNamed{DB: reg.M.Session.(*fakes.DB), name: name}
		reg.M.Config.Name = q.DB
		if q.Cluster {
			reg.M.Config.ClusterName = "c1"
		}
		app := mux.NewRouter()
		var ireg rmodel.IDBRegistry = reg
		rrouter.RouteTempo(app, ireg)
		vals := url.Values{"start": {strconv.FormatInt(startS, 10)}, "end": {strconv.FormatInt(endS, 10)}}
		if q.Text != "" {
			vals.Set("tags", q.Text)
		}
		if limitParam != "" {
			vals.Set("limit", limitParam)
		}
		if q.MinDur > 0 {
			vals.Set("minDuration", time.Duration(q.MinDur).String())
		}
		if q.MaxDur > 0 {
			vals.Set("maxDuration", time.Duration(q.MaxDur).String())
		}
		path := h.Pick(rng, []string{"/api/search", "/tempo/api/search"})
		w := httptest.NewRecorder()
		func() {
			saved := os.Stdout
			if dn, e := os.OpenFile(os.DevNull, os.O_WRONLY, 0); e == nil {
				os.Stdout = dn
				defer func() { os.Stdout = saved; dn.Close() }()
			}
			app.ServeHTTP(w, httptest.NewRequest("GET", path+"?"+vals.Encode(), nil))
		}()
		mtx.Lock()
		got := append([]string{}, sqls...)
		mtx.Unlock()
		r.Count(fmt.Sprintf("http-tempo:status=%d", w.Code))
		if len(got) != 1 {
			r.Disagree("http-tempo", path+"?"+vals.Encode(), fmt.Sprintf("%d statements, status %d", len(got), w.Code), "one statement", map[string]any{"request": q, "version": v})
			continue
		}
		ops = append(ops, "c13tsearch "+q.ser()+" "+v.ser())
		impl = append(impl, h.Hex([]byte(got[0])))
		cases = append(cases, map[string]any{"stream": "http-tempo", "url": path + "?" + vals.Encode(), "request": q, "version": v, "sql": got[0]})
		r.Case("http-tempo:"+vals.Encode()+fmt.Sprint(v), true)
		r.Count("http-tempo:version=" + v.Kind)
	}
	ans, err := h.Model(ops)
	if err != nil {
		return err
	}
	for i, a := range ans {
		f := strings.Fields(a)
		if len(f) != 4 || f[0] != impl[i] {
			got := a
			if len(f) > 0 {
				got = f[0]
			}
			r.Disagree("http-tempo", ops[i], impl[i], got, cases[i])
		}
	}
	return nil
}
