package main

import (
	"fmt"
	"strconv"

	sql "github.com/metrico/qryn/reader/utils/sql_select"
	"strings"
	"time"

	traceql_parser "github.com/metrico/qryn/reader/traceql/parser"
	"verif/harness/h"
)

// ---- small trace databases aimed at a query: keys, strings, numbers and durations of its terms, boundary timestamps

type tqAttrRow struct {
	Date, Key, Val, Trace, Span string
	Ts, Dur                     int64
}

func (a tqAttrRow) ser() string {
	return strings.Join([]string{hx(a.Date), hx(a.Key), hx(a.Val), hx(a.Trace), hx(a.Span), fmt.Sprint(a.Ts), fmt.Sprint(a.Dur)}, ":")
}

type tqVocab struct {
	keys, strs, nums []string
	durs             []int64
	terms            []tqTermInfo
}

// tqTermInfo: what a generated index row needs to witness (or just miss) one condition of the query
type tqTermInfo struct {
	key, op string
	str     *string
	num     *float64
	dur     *int64
}

func fmtNum(f float64) string { return strconv.FormatFloat(f, 'f', -1, 64) }

// witness returns a value (or a duration) that satisfies the condition under the driver's oracles
// (regular expressions match when the pattern text occurs in the value)
func (t tqTermInfo) witness(r *h.Rng) (val string, dur int64, isDur bool) {
	switch {
	case t.dur != nil:
		d := *t.dur
		switch t.op {
		case ">", "!=":
			d++
		case "<":
			d--
		}
		if d < 0 {
			d = 0
		}
		return "", d, true
	case t.num != nil:
		f := *t.num
		switch t.op {
		case ">", "!=":
			f += 1
		case "<":
			f -= 0.5
		}
		return fmtNum(f), 0, false
	case t.str != nil:
		switch t.op {
		case "=", "=~":
			return *t.str, 0, false
		default:
			return "zzz", 0, false
		}
	}
	return "zzz", 0, false
}

func stripAttrPrefix(l string) string {
	for _, p := range []string{"span.", "resource.", "."} {
		if strings.HasPrefix(l, p) {
			return l[len(p):]
		}
	}
	return l
}

func tqCollectVocab(s *traceql_parser.TraceQLScript) tqVocab {
	v := tqVocab{keys: []string{"other"}, strs: []string{"zzz"}, nums: []string{"0", "7", "-3", "2.5"}, durs: []int64{1, 1000, 1500000000}}
	var walk func(e *traceql_parser.AttrSelectorExp)
	walk = func(e *traceql_parser.AttrSelectorExp) {
		if e == nil {
			return
		}
		if e.Head != nil {
			v.keys = append(v.keys, stripAttrPrefix(e.Head.Label))
			ti := tqTermInfo{key: stripAttrPrefix(e.Head.Label), op: e.Head.Op}
			switch {
			case e.Head.Val.StrVal != nil:
				if u, err := e.Head.Val.StrVal.Unquote(); err == nil {
					v.strs = append(v.strs, u, u+"x")
					ti.str = &u
				}
			case e.Head.Val.FVal != "":
				if f, err := strconv.ParseFloat(e.Head.Val.FVal, 64); err == nil {
					v.nums = append(v.nums, e.Head.Val.FVal, strconv.FormatFloat(f+1, 'f', -1, 64), strconv.FormatFloat(f-0.5, 'f', -1, 64))
					ti.num = &f
				}
			case e.Head.Val.TimeVal != "":
				if d, err := time.ParseDuration(e.Head.Val.TimeVal); err == nil {
					v.durs = append(v.durs, d.Nanoseconds(), d.Nanoseconds()+1, d.Nanoseconds()-1)
					ns := d.Nanoseconds()
					ti.dur = &ns
				}
			}
			v.terms = append(v.terms, ti)
		}
		walk(e.ComplexHead)
		walk(e.Tail)
	}
	for cur := s; cur != nil; cur = cur.Tail {
		walk(cur.Head.AttrSelector)
		if a := cur.Head.Aggregator; a != nil {
			if a.Attr != "" && a.Attr != "duration" {
				v.keys = append(v.keys, stripAttrPrefix(a.Attr), stripAttrPrefix(a.Attr))
			}
			if a.Attr == "duration" {
				if d, err := time.ParseDuration(a.Num + a.Measurement); err == nil {
					v.durs = append(v.durs, d.Nanoseconds(), d.Nanoseconds()+1, 2*d.Nanoseconds())
				}
			} else if f, err := strconv.ParseFloat(a.Num, 64); err == nil {
				v.nums = append(v.nums, a.Num, strconv.FormatFloat(f+1, 'f', -1, 64), strconv.FormatFloat(2*f, 'f', -1, 64))
			}
		}
	}
	return v
}

func genTraceDb(r *h.Rng, c tqctx, v tqVocab) []tqAttrRow {
	var rows []tqAttrRow
	nTraces := r.Range(1, 4)
	for t := 0; t < nTraces; t++ {
		nSpans := r.Range(1, 3)
		for s := 0; s < nSpans; s++ {
			ts := c.From + int64(r.Intn(int(min64(c.To-c.From, 1<<40))))
			if r.Chance(20) {
				ts = h.Pick(r, []int64{c.From - 1, c.From, c.To - 1, c.To, c.To + 1, c.From - 86400e9})
			}
			date := time.Unix(0, ts).UTC().Format("2006-01-02") // the writer stores the UTC day
			if r.Chance(5) {
				date = time.Unix(0, ts).UTC().Add(h.Pick(r, []time.Duration{-48 * time.Hour, 96 * time.Hour})).Format("2006-01-02")
			}
			dur := h.Pick(r, v.durs)
			if dur < 0 {
				dur = 0
			}
			// rows that witness some of the query's conditions for this span
			var witnessed []tqAttrRow
			for _, ti := range v.terms {
				if !r.Chance(55) {
					continue
				}
				val, d, isDur := ti.witness(r)
				if isDur {
					dur = d
					continue
				}
				witnessed = append(witnessed, tqAttrRow{Key: ti.key, Val: val})
			}
			for _, w := range witnessed {
				rows = append(rows, tqAttrRow{Date: date, Key: w.Key, Val: w.Val, Trace: fmt.Sprintf("t%d", t), Span: fmt.Sprintf("s%d", s), Ts: ts, Dur: dur})
			}
			nAttrs := r.Range(1, 3)
			for a := 0; a < nAttrs; a++ {
				val := h.Pick(r, v.strs)
				if r.Chance(45) {
					val = h.Pick(r, v.nums)
				}
				rows = append(rows, tqAttrRow{Date: date, Key: h.Pick(r, v.keys), Val: val,
					Trace: fmt.Sprintf("t%d", t), Span: fmt.Sprintf("s%d", s), Ts: ts, Dur: dur})
			}
		}
	}
	// index rows are not stored span by span
	for i := len(rows) - 1; i > 0; i-- {
		j := r.Intn(i + 1)
		rows[i], rows[j] = rows[j], rows[i]
	}
	return rows
}

func min64(a, b int64) int64 {
	if a < b {
		return a
	}
	return b
}

func serDb(rows []tqAttrRow) string {
	if len(rows) == 0 {
		return "-"
	}
	ss := make([]string, len(rows))
	for i, a := range rows {
		ss[i] = a.ser()
	}
	return strings.Join(ss, ";")
}

func scriptFeature(s *traceql_parser.TraceQLScript) string {
	var fs []string
	hasAnd, hasOr, hasAgg := false, false, false
	for cur := s; cur != nil; cur = cur.Tail {
		hasAnd = hasAnd || cur.AndOr == "&&"
		hasOr = hasOr || cur.AndOr == "||"
		hasAgg = hasAgg || cur.Head.Aggregator != nil
	}
	if hasAnd {
		fs = append(fs, "and")
	}
	if hasOr {
		fs = append(fs, "or")
	}
	if hasAgg {
		fs = append(fs, "agg")
	}
	if len(fs) == 0 {
		return "selector"
	}
	return strings.Join(fs, "+")
}

// semClasses: the case in the terms of the theorems (extension c11y): the chain of selectors (`tree_means_script`,
// `planComplex_heap_closed_upto`: number of selectors, operators between them), the unit of an aggregate over `duration`
// (`agg_duration_literal`), and what the aggregated attribute looks like in the database (`aggValue`: spans without the
// attribute or with a non-numeric value contribute nothing)
func semClasses(s *traceql_parser.TraceQLScript, rows []tqAttrRow) []string {
	var out []string
	n, and, or := 0, 0, 0
	for cur := s; cur != nil; cur = cur.Tail {
		n++
		if cur.Tail != nil {
			switch cur.AndOr {
			case "&&":
				and++
			case "||":
				or++
			}
		}
		a := cur.Head.Aggregator
		if a == nil {
			continue
		}
		if a.Attr == "duration" {
			u := a.Measurement
			if u == "" {
				u = "none"
			}
			out = append(out, "agg:duration:unit="+u)
			continue
		}
		if a.Attr == "" {
			continue
		}
		key := stripAttrPrefix(a.Attr)
		has, nonNum, num := false, false, false
		for _, r := range rows {
			if r.Key != key {
				continue
			}
			has = true
			if _, err := strconv.ParseFloat(r.Val, 64); err != nil {
				nonNum = true
			} else {
				num = true
			}
		}
		switch {
		case !has:
			out = append(out, "agg:attr:missing-everywhere")
		case nonNum && num:
			out = append(out, "agg:attr:numeric-and-non-numeric-values")
		case nonNum:
			out = append(out, "agg:attr:only-non-numeric-values")
		default:
			out = append(out, "agg:attr:numeric-values")
		}
	}
	kind := "single"
	switch {
	case and > 0 && or > 0:
		kind = "mixed"
	case and > 0:
		kind = "all-and"
	case or > 0:
		kind = "all-or"
	}
	if n >= 3 {
		out = append(out, fmt.Sprintf("chain:%d-selectors:%s", n, kind))
	} else {
		out = append(out, fmt.Sprintf("chain:%d-selectors", n))
	}
	return out
}

// c11Sem: the semantic oracle — Sql.SemG of the model's statement (byte-equal to the real one: checked here
// again) against TraceQL.Sem on small databases
func c11Sem(r *h.Rng, res *h.Result, n int, maxSel int, replay *tqReplay) error {
	res.Stream("sem: the REAL index_grouped select (Go object tree read by reflection, re-rendered by the model renderer to the real bytes) evaluated by Sql.SemG vs TraceQL.Sem on generated trace databases (driver op c11evalreal); the model plan likewise (c11eval)")
	var ops, realOps, tieOps, tieImpl []string
	var cases, tieCases []any
	var feats []string
	add := func(query string, c tqctx, rows []tqAttrRow) bool {
		sel, text, script, err := implTraceSel(query, c)
		if err != nil || script == nil {
			return false
		}
		texts := []string{text}
		ser, serr := serTraceQL(script)
		if serr != nil {
			return false
		}
		if script.Head.AttrSelector == nil {
			return false // `{}`: outside the semantic fragment
		}
		if rows == nil {
			rows = genTraceDb(r, c, tqCollectVocab(script))
		}
		realOp := ""
		if ig := indexGroupedOf(sel); ig != nil {
			ast, aerr := serRealSelect(ig)
			igText, terr := ig.String(sql.DefaultCtx())
			if aerr == nil && terr == nil {
				realOp = "c11evalreal " + c.ser() + " " + ser + " " + serDb(rows) + " " + ast + " " + h.Hex([]byte(igText))
			} else {
				res.Count("sem:real-ast-unreadable")
			}
		}
		realOps = append(realOps, realOp)
		ops = append(ops, "c11eval "+c.ser()+" "+ser+" "+serDb(rows))
		cases = append(cases, tqReplay{Query: query, Ctx: c, Db: rows})
		feats = append(feats, scriptFeature(script))
		for _, cl := range semClasses(script, rows) {
			res.Count("sem:class:" + cl)
		}
		tieOps = append(tieOps, "c11plan "+c.ser()+" "+ser)
		tieImpl = append(tieImpl, h.Hex([]byte(texts[0])))
		tieCases = append(tieCases, map[string]any{"query": query, "ctx": c})
		return true
	}
	if replay != nil {
		if !add(replay.Query, replay.Ctx, replay.Db) {
			return fmt.Errorf("replay case is not planned by the implementation")
		}
	} else {
		for i := 0; i < n; i++ {
			for try := 0; try < 30; try++ {
				c := genTqCtx(r)
				c.RndMax, c.RndI, c.Cached = 0, 0, nil // the portion filter of complex requests is outside the semantic fragment
				if add(genTraceQL(r, maxSel, 2, 0), c, nil) {
					break
				}
			}
		}
	}
	if replay == nil {
		// more distinct conditions in one selector than the bit set has bits: the planner must refuse the query (the 65th
		// and later conditions could never hold); 64 are planned
		for _, k := range []int{64, 65, 66, 70} {
			var parts []string
			for i := 0; i < k; i++ {
				parts = append(parts, fmt.Sprintf(".k%d = %d", i, i))
			}
			query := "{" + strings.Join(parts, h.Pick(r, []string{" || ", " && "})) + "}"
			_, _, script, err := implTraceSel(query, genTqCtx(r))
			switch {
			case script == nil:
				res.Count("sem:over-64:parse-error")
			case k <= 64 && err != nil:
				res.Violate("C11/64-conditions-refused", fmt.Sprintf("a selector with %d distinct conditions is refused: %v", k, err), map[string]any{"kind": "guard", "query": query})
			case k > 64 && err == nil:
				res.Violate("C11/over-64-conditions-accepted", fmt.Sprintf("a selector with %d distinct conditions is planned although the condition bit set has 64 bits: conditions 65.. can never hold", k), map[string]any{"kind": "guard", "query": query})
			default:
				res.Count(fmt.Sprintf("sem:over-64:%d-conditions-ok", k))
			}
		}
	}
	if err := res.Compare("sem-text", tieOps, tieImpl, tieCases); err != nil {
		return err
	}
	// the real statement
	var rops []string
	var ridx []int
	for i, o := range realOps {
		if o != "" {
			rops = append(rops, o)
			ridx = append(ridx, i)
		}
	}
	rans, err := h.Model(rops)
	if err != nil {
		return err
	}
	for j, a := range rans {
		i := ridx[j]
		c := cases[i].(tqReplay)
		switch {
		case strings.HasPrefix(a, "OK"):
			res.Count("sem:real-agree")
		case strings.HasPrefix(a, "ERR"):
			res.Count("sem:real-model-error")
		case strings.HasPrefix(a, "BADAST"):
			res.Disagree("sem-ast", "c11evalreal "+c.Query, "real text", "the model renderer does not reproduce the real text from the real object tree", c)
		default:
			res.Count("sem:real-differ")
			res.Violate("C11/real-sql-traces-differ/"+feats[i],
				fmt.Sprintf("the statement the planner built for %q selects other traces than the query describes (%s)", c.Query, a),
				map[string]any{"kind": "sem", "case": c, "answer": a})
		}
	}
	ans, err := h.Model(ops)
	if err != nil {
		return err
	}
	for i, a := range ans {
		c := cases[i].(tqReplay)
		res.Case("sem:"+c.Query+fmt.Sprint(c.Ctx, len(c.Db)), !strings.Contains(a, "spec:-") || !strings.Contains(a, "sql:-"))
		switch {
		case strings.HasPrefix(a, "OK"):
			res.Count("sem:agree")
			if strings.Contains(a, "spec:-") {
				res.Count("sem:empty-result")
			}
		case strings.HasPrefix(a, "ERR"):
			res.Count("sem:model-error")
		default:
			res.Count("sem:differ")
			res.Violate("C11/traces-differ/"+feats[i],
				fmt.Sprintf("the statement for %q selects other traces than the query describes (%s)", c.Query, a),
				map[string]any{"kind": "sem", "case": c, "answer": a})
		}
	}
	return nil
}

type tqReplay struct {
	Query string      `json:"query"`
	Ctx   tqctx       `json:"ctx"`
	Db    []tqAttrRow `json:"db"`
}

// ---- syntactic well-formedness of every REAL statement, judged on the token stream of the model lexer
func wellFormed(tokens string) string {
	toks := strings.Fields(tokens)
	depth := 0
	prev := ""
	word := func(t string) string {
		if strings.HasPrefix(t, "W:") {
			return strings.ToLower(string(h.UnHex(t[2:])))
		}
		return ""
	}
	for _, t := range toks {
		switch {
		case t == "E":
			return "lexer-error"
		case t == "P:28":
			depth++
		case t == "P:29":
			depth--
			if depth < 0 {
				return "unbalanced-parentheses"
			}
			if prev == "P:28" {
				return "empty-parentheses"
			}
			if w := word(prev); w == "and" || w == "or" {
				return "dangling-operator"
			}
		}
		if w := word(t); w == "and" || w == "or" {
			if pw := word(prev); pw == "and" || pw == "or" || prev == "P:28" || prev == "" {
				return "dangling-operator"
			}
		}
		prev = t
	}
	if depth != 0 {
		return "unbalanced-parentheses"
	}
	return ""
}

// c11Syntax: every statement the real planner renders is lexed by the model lexer and must be well formed;
// processing the same plan a second time must render the same statement (A23)
func c11Syntax(r *h.Rng, res *h.Result, n int, maxSel int) error {
	res.Stream("syntax: every real statement lexed by the model lexer (driver op lex): balanced, no empty (), no dangling and/or; a second Process of the same plan renders the same text")
	var ops []string
	var qs []string
	for i := 0; i < n; i++ {
		query := genTraceQL(r, maxSel, 3, 0)
		c := genTqCtx(r)
		texts, script, err := implTraceSQL(query, c, 2)
		if script == nil || len(texts) == 0 {
			continue
		}
		_ = err
		res.Case("syntax:"+query, true)
		if len(texts) == 2 && texts[0] != texts[1] {
			res.Violate("C11/second-process-differs", fmt.Sprintf("processing the plan of %q twice renders two different statements", query),
				map[string]any{"kind": "reprocess", "query": query, "ctx": c, "first": texts[0], "second": texts[1]})
		}
		ops = append(ops, "lex "+h.Hex([]byte(texts[0])))
		qs = append(qs, query)
	}
	ans, err := h.Model(ops)
	if err != nil {
		return err
	}
	for i, a := range ans {
		if bad := wellFormed(a); bad != "" {
			res.Count("syntax:" + bad)
			res.Violate("C11/malformed-sql/"+bad, fmt.Sprintf("the statement rendered for %q is not well formed: %s", qs[i], bad),
				map[string]any{"kind": "syntax", "query": qs[i], "sql": string(h.UnHex(strings.TrimPrefix(ops[i], "lex ")))})
		} else {
			res.Count("syntax:ok")
		}
	}
	return nil
}
