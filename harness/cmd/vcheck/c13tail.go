package main

import (
	"context"
	"database/sql/driver"
	"fmt"
	"strconv"
	"strings"
	"sync"
	"time"

	"github.com/metrico/qryn/reader/logql/logql_parser"
	rmodel "github.com/metrico/qryn/reader/model"
	rservice "github.com/metrico/qryn/reader/service"
	"verif/harness/fakes"
	"verif/harness/h"
)

// model-tail: the real QueryRangeService.Tail over a scripted database for a few ticks (one per second). Every tick's
// statement must be the log planner's statement (LogQL.planLog, op c07plan) for the window [from_k, now_k) read from the
// statement itself, and the sequence of `from`s must be Tail.froms(from_0, the entry timestamps the script returned).

type c13TailTick struct {
	SQL      string  `json:"sql"`
	From     int64   `json:"from_ns"`
	To       int64   `json:"to_ns"`
	Returned []int64 `json:"returned_timestamps"`
}

func c13RunTail(query string, ticks int, cluster bool, plan func(k int, from, to int64) []int64) (start time.Time, out []c13TailTick, err error) {
	c20Setup()
	var mtx sync.Mutex
	reg := fakes.NewDBRegistry(&fakes.CallLog{}, func(s string) ([]string, [][]driver.Value, error) {
		if strings.HasPrefix(s, "SELECT argMax(name, inserted_at)") {
			return []string{"_name", "_value"}, nil, nil
		}
		if strings.TrimSpace(s) == "SHOW TABLES" {
			return []string{"name"}, nil, nil
		}
		mtx.Lock()
		defer mtx.Unlock()
		t := c13TailTick{SQL: s}
		if m := tsLower.FindStringSubmatch(s); m != nil {
			t.From, _ = strconv.ParseInt(m[1], 10, 64)
		}
		if m := tsUpper.FindStringSubmatch(s); m != nil {
			t.To, _ = strconv.ParseInt(m[1], 10, 64)
		}
		t.Returned = plan(len(out), t.From, t.To)
		out = append(out, t)
		var rows [][]driver.Value
		for _, ts := range t.Returned {
			rows = append(rows, []driver.Value{uint64(7), map[string]string{"a": "b"}, "line", ts})
		}
		return []string{"fingerprint", "labels", "string", "timestamp_ns"}, rows, nil
	})
	c13tMtx.Lock()
	c13tSeq++
	reg.M.Session = &c13tNamed{DB: reg.M.Session.(*fakes.DB), name: fmt.Sprintf("c13tail-%d", c13tSeq)}
	c13tMtx.Unlock()
	if cluster {
		reg.M.Config.ClusterName = "c1"
	}
	svc := rservice.NewQueryRangeService(&rmodel.ServiceData{Session: reg})
	start = time.Now()
	w, err := svc.Tail(context.Background(), query)
	if err != nil {
		return start, nil, err
	}
	deadline := time.After(time.Duration(ticks+3) * time.Second)
	got := 0
loop:
	for got < ticks {
		select {
		case _, ok := <-w.GetRes():
			if !ok {
				break loop
			}
			got++
		case <-deadline:
			break loop
		}
	}
	w.Close()
	go func() {
		for range w.GetRes() {
		}
	}()
	mtx.Lock()
	defer mtx.Unlock()
	if len(out) > ticks {
		out = out[:ticks]
	}
	return start, append([]c13TailTick{}, out...), nil
}

func c13ModelTail(r *h.Result, rng *h.Rng, tails, ticks int) error {
	r.Stream("model-tail: QueryRangeService.Tail over the scripted database, several ticks, single-node and CLUSTERED (inline-WITH rendering, Sql.renderSelInline): each tick's statement vs LogQL.planLog for the window [from, now) the statement names, Limit 0, descending, Type 0 (byte-equal); the `from` of every tick vs Tail.froms over the entry timestamps returned (newer, equal to and older than `from`, in result order); the first `from` = start − 5 min")
	queries := []string{`{a="b"}`, `{a="b"} |= "x"`, `{job=~"a.*", env!="x"} != "y"`, `{a="b"} |~ "e.+r"`, `{a="b", c="d"}`}
	type res struct {
		query string
		start time.Time
		ticks   []c13TailTick
		err     error
		cluster bool
	}
	out := make([]res, tails)
	var wg sync.WaitGroup
	for i := 0; i < tails; i++ {
		q := queries[i%len(queries)]
		sub := rng.Fork()
		wg.Add(1)
		go func(i int, sub *h.Rng) {
			defer wg.Done()
			cluster := i%2 == 1
			start, ts, err := c13RunTail(q, ticks, cluster, func(k int, from, to int64) []int64 {
				switch sub.Intn(5) {
				case 0:
					return nil
				case 1:
					return []int64{to - 1, (from + to) / 2, from + 1, from}
				case 2:
					return []int64{from, from - 5}
				case 3:
					return []int64{from + 7, from + 8, from + 3}
				default:
					return []int64{to - 1 - int64(sub.Intn(1000))}
				}
			})
			out[i] = res{q, start, ts, err, cluster}
		}(i, sub)
	}
	wg.Wait()
	var ops, impl []string
	var cases []any
	for _, o := range out {
		if o.err != nil || len(o.ticks) == 0 {
			r.Disagree("model-tail", o.query, fmt.Sprintf("tail did not run: %v (%d ticks)", o.err, len(o.ticks)), "statements", nil)
			continue
		}
		script, err := logql_parser.Parse(o.query)
		if err != nil {
			return err
		}
		ser, err := serLogQuery(script)
		if err != nil {
			return err
		}
		var obs, results []string
		for k, t := range o.ticks {
			c := qctx{From: t.From, To: t.To, Limit: 0, Asc: false, Type: 0, Cluster: o.cluster}
			if o.cluster {
				// the cluster layout: tables of PopulateTableNames for the connection ("qryn", cluster "c1"), the statement
				// rendered with STRING_OPT_INLINE_WITH (no WITH clause, every reference written in place)
				ops = append(ops, fmt.Sprintf("c13planinline %d %d 0 0 0 1 %s %s %s %s %s", t.From, t.To, hx("`qryn`.time_series_gin"), hx("`qryn`.samples_v3_dist"),
					hx("`qryn`.time_series"), hx("`qryn`.time_series_dist"), ser))
			} else {
				ops = append(ops, "c07plan "+c.ser()+" "+ser)
			}
			impl = append(impl, h.Hex([]byte(t.SQL)))
			cs := map[string]any{"stream": "model-tail", "query": o.query, "tick": k, "from": t.From, "to": t.To, "cluster": o.cluster, "sql": t.SQL}
			cases = append(cases, cs)
			r.Count(fmt.Sprintf("model-tail:cluster=%v", o.cluster))
			// signal half, on the statement the real tail sends with the context its literal builds: logs only
			c13SignalText(r, "tail", t.SQL, 1, cs)
			r.Case(fmt.Sprintf("model-tail:%s:%d:%v", o.query, k, t.Returned), len(t.Returned) > 0)
			obs = append(obs, strconv.FormatInt(t.From, 10))
			if k < len(o.ticks)-1 {
				var ts []string
				for _, x := range t.Returned {
					ts = append(ts, strconv.FormatInt(x, 10))
				}
				if len(ts) == 0 {
					results = append(results, "-")
				} else {
					results = append(results, strings.Join(ts, ","))
				}
			}
			r.Count(fmt.Sprintf("model-tail:tick=%d", k))
			if k > 0 && t.From < o.ticks[k-1].From {
				r.Violate("C13/tail/window-moves-back", fmt.Sprintf("tail tick %d reads from %d, before the %d of the tick before it", k, t.From, o.ticks[k-1].From),
					map[string]any{"stream": "model-tail", "query": o.query, "ticks": o.ticks})
			}
			if t.To <= t.From || t.To > time.Now().UnixNano() || t.To < o.start.UnixNano() {
				r.Violate("C13/tail/window-end", fmt.Sprintf("tail tick %d reads up to %d, not a moment between the start of the tail and now", k, t.To),
					map[string]any{"stream": "model-tail", "query": o.query, "ticks": o.ticks})
			}
		}
		f0 := o.ticks[0].From
		want := o.start.Add(-5 * time.Minute).UnixNano()
		if f0 < want-int64(2*time.Second) || f0 > want+int64(3*time.Second) {
			r.Violate("C13/tail/first-window", fmt.Sprintf("the first tail tick reads from %d, not from (start of the tail − 5 min) = %d", f0, want),
				map[string]any{"stream": "model-tail", "query": o.query, "ticks": o.ticks})
		}
		if len(results) > 0 {
			ops = append(ops, fmt.Sprintf("c13tail %d %s", f0, strings.Join(results, ";")))
			impl = append(impl, strings.Join(obs, " "))
			cases = append(cases, map[string]any{"stream": "model-tail", "query": o.query, "ticks": o.ticks})
		}
	}
	return r.Compare("model-tail", ops, impl, cases)
}
