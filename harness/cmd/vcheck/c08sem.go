package main

import (
	"fmt"
	"sort"
	"strconv"
	"strings"
	"time"

	"github.com/metrico/qryn/reader/logql/logql_parser"
	"verif/harness/h"
)

// ---- small Loki databases for the semantic search (evaluated by the Lean semantics on both sides)

type semStream struct {
	FP     int64
	Labels [][2]string // in document order
	Type   int
}

type semSample struct {
	FP   int64
	TS   int64
	Str  string
	Type int
}

type semDB struct {
	Gin     []string // date:key:val:type:fp (hex fields)
	TS      []string // date:fp:doc:type
	Samples []string // fp:ts:str:type
	Streams []semStream
	Rows    []semSample
}

var semLabelVals = map[string][]string{
	"a":     {"b", "c"},
	"app":   {"x", "y"},
	"job":   {"j"},
	"x":     {"1", "2.5", "10", "0", "n"},
	"level": {"e", "w"},
}

func semDoc(ls [][2]string) string {
	var parts []string
	for _, kv := range ls {
		parts = append(parts, h.Hex([]byte(kv[0]))+":"+h.Hex([]byte(kv[1])))
	}
	return strings.Join(parts, ",")
}

func genSemStreams(r *h.Rng) []semStream {
	var res []semStream
	nStreams := r.Range(1, 5)
	for i := 0; i < nStreams; i++ {
		st := semStream{FP: int64(i + 1), Type: h.Pick(r, []int{0, 1, 1, 1, 1, 2})}
		keys := []string{"a", "app", "job", "level", "x"}
		for _, k := range keys {
			if k == "a" && r.Chance(85) || k != "a" && r.Chance(55) {
				st.Labels = append(st.Labels, [2]string{k, h.Pick(r, semLabelVals[k])})
			}
		}
		if len(st.Labels) == 0 {
			st.Labels = append(st.Labels, [2]string{"a", "b"})
		}
		// every third database or so: a stream that differs from the previous one ONLY in one label (x or level), so that
		// `| drop x` / `without (x)` make the two one series (seeded C08-5: drop keeping the stored fingerprint under a
		// non-additive aggregation)
		if i > 0 && r.Chance(30) {
			prev := res[i-1]
			k := h.Pick(r, []string{"x", "level"})
			var ls [][2]string
			had := ""
			for _, l := range prev.Labels {
				if l[0] == k {
					had = l[1]
					continue
				}
				ls = append(ls, l)
			}
			nv := h.Pick(r, semLabelVals[k])
			for try := 0; try < 6 && nv == had; try++ {
				nv = h.Pick(r, semLabelVals[k])
			}
			if nv != had {
				st.Labels = append(ls, [2]string{k, nv})
				st.Type = prev.Type
			}
		}
		res = append(res, st)
	}
	return res
}

func genSemDB(r *h.Rng, streams []semStream, c mctx, d int64) semDB {
	var db semDB
	day := func(ns int64, off int) string {
		return time.Unix(0, ns).UTC().Add(-30 * time.Minute).AddDate(0, 0, off).Format("2006-01-02")
	}
	db.Streams = streams
	for _, st := range streams {
		off := 0
		if r.Chance(10) {
			off = h.Pick(r, []int{-1, 1})
		}
		date := day(c.From, off)
		for _, kv := range st.Labels {
			db.Gin = append(db.Gin, fmt.Sprintf("%s:%s:%s:%d:%d", hx(date), hx(kv[0]), hx(kv[1]), st.Type, st.FP))
		}
		// every stream has an admissible series row (the planner joins labels with ANY LEFT JOIN; a stream without
		// series row is an inconsistent database), sometimes preceded by a stale one and followed by another day's
		if r.Chance(10) {
			db.TS = append(db.TS, fmt.Sprintf("%s:%d:%s:%d", hx(day(c.From, -1)), st.FP, hx(semDoc(st.Labels[:1])), st.Type))
		}
		db.TS = append(db.TS, fmt.Sprintf("%s:%d:%s:%d", hx(day(c.From, 0)), st.FP, hx(semDoc(st.Labels)), st.Type))
		if r.Chance(15) {
			db.TS = append(db.TS, fmt.Sprintf("%s:%d:%s:%d", hx(day(c.From, 1)), st.FP, hx(semDoc(st.Labels)), st.Type))
		}
		n := r.Intn(9)
		for j := 0; j < n; j++ {
			span := c.To - c.From + 4*d
			gran := int64(500e6)
			if d < 2e9 {
				gran = d / 2
				if gran <= 0 {
					gran = 1
				}
			}
			ts := c.From - 2*d + int64(r.Intn(int(span/gran+1)))*gran
			if r.Chance(8) {
				ts = h.Pick(r, []int64{c.From, c.From - 1, c.To, c.To - 1})
			}
			if ts < 0 {
				ts = 0
			}
			s := semSample{FP: st.FP, TS: ts, Str: h.Pick(r, []string{"e", "e1", "x", "5", "2.5", "", "error 3", "12", "0"}), Type: st.Type}
			if r.Chance(5) {
				s.Type = h.Pick(r, []int{0, 1, 2})
			}
			db.Rows = append(db.Rows, s)
		}
	}
	// table order of samples: arbitrary (as stored); shuffle deterministically
	// entries sharing a timestamp make first/last_over_time (argMin/argMax) and the order of equal ORDER BY keys
	// unspecified in ClickHouse: timestamps are made pairwise distinct (the window borders keep one entry each)
	seen := map[int64]bool{}
	for i := range db.Rows {
		for seen[db.Rows[i].TS] {
			db.Rows[i].TS++
		}
		seen[db.Rows[i].TS] = true
	}
	for i := len(db.Rows) - 1; i > 0; i-- {
		j := r.Intn(i + 1)
		db.Rows[i], db.Rows[j] = db.Rows[j], db.Rows[i]
	}
	for _, s := range db.Rows {
		db.Samples = append(db.Samples, fmt.Sprintf("%d:%d:%s:%d", s.FP, s.TS, hx(s.Str), s.Type))
	}
	return db
}

func c08JoinOrDash(xs []string) string {
	if len(xs) == 0 {
		return "-"
	}
	return strings.Join(xs, ";")
}

func (d semDB) ser() string {
	return c08JoinOrDash(d.Gin) + " " + c08JoinOrDash(d.TS) + " " + c08JoinOrDash(d.Samples)
}

// ---- simple queries over that universe
func genSemSelector(r *h.Rng, streams []semStream, trivialOnly bool) string {
	var ms []string
	n := 1
	if r.Chance(35) {
		n = 2
	}
	for i := 0; i < n; i++ {
		k := h.Pick(r, []string{"a", "a", "app", "job", "level"})
		v := h.Pick(r, semLabelVals[k])
		op := h.Pick(r, []string{"=", "=", "=", "!=", "=~", "!~"})
		if len(streams) > 0 && r.Chance(75) { // a matcher some stream satisfies
			st := h.Pick(r, streams)
			kv := h.Pick(r, st.Labels)
			k, v = kv[0], kv[1]
			op = h.Pick(r, []string{"=", "=", "=~"})
		}
		ms = append(ms, k+op+q(v))
	}
	s := "{" + strings.Join(ms, ", ") + "}"
	m := h.Pick(r, []int{0, 0, 0, 1, 1, 2})
	for i := 0; i < m; i++ {
		switch {
		case r.Chance(55):
			if trivialOnly {
				s += " " + h.Pick(r, []string{"|=", "|~"}) + ` ""`
			} else {
				s += " " + h.Pick(r, []string{"|=", "!=", "|~", "!~"}) + " " + q(h.Pick(r, []string{"e", "1", "x", "", "5", "r"}))
			}
		case r.Chance(50):
			k := h.Pick(r, []string{"app", "level", "job", "a"})
			s += " | " + k + h.Pick(r, []string{"=", "!=", "=~"}) + q(h.Pick(r, semLabelVals[k]))
		default:
			s += " | x " + h.Pick(r, []string{">", ">=", "<", "<=", "==", "!="}) + " " + h.Pick(r, []string{"1", "2", "2.5", "5"})
		}
	}
	return s
}

// c08Sem: the semantic search — Sql.evalSelA of the model plan (whose text is tied to the real planner by the
// text stream, checked again here for the very same query and context) against the direct reading LogQL.evalMetric
func c08Sem(r *h.Result, rng *h.Rng, n int) error {
	r.Stream("sem: (query, context, small database) → Sql.evalSelA (LogQL.planMetric) vs LogQL.evalMetric in the Lean driver; the SQL text of the same case is compared with the real planner's")
	var ops, textOps, impl []string
	var cases []map[string]any
	var feats [][]string
	for i := 0; i < n; i++ {
		streams := genSemStreams(rng)
		query := genMetricQuery(rng, mgen{simple: true, streams: streams, extraFns: true})
		script, err := logql_parser.Parse(query)
		if err != nil {
			r.Count("sem:parse-error")
			continue
		}
		ser, err := serMetric(script)
		if err != nil {
			r.Count("sem:outside-fragment")
			continue
		}
		d := scriptDuration(script)
		c := genMCtx(rng, d)
		// windows of a few range buckets so that small databases produce several points per series
		c.Limit, c.Cluster = 0, false
		if rng.Chance(92) {
			c.Type = uint8(rng.Intn(2))
		}
		nb := int64(rng.Range(1, 4))
		c.To = c.From + nb*d + int64(rng.Intn(3))*d/2
		if rng.Chance(50) { // the window FixPeriodPlanner hands down: whole range buckets
			c.From = c.From / d * d
			c.To = c.To/d*d + d
		}
		if c.Step > 16*d {
			c.Step = 2 * d
		}
		sqlText, err := implMetricSQL(script, c)
		if err != nil {
			r.Count("sem:impl-error")
			continue
		}
		db := genSemDB(rng, streams, c, d)
		ops = append(ops, "c08sem "+c.ser()+" "+ser+" "+db.ser())
		textOps = append(textOps, "c08plan "+c.ser()+" "+ser)
		impl = append(impl, h.Hex([]byte(sqlText)))
		cases = append(cases, map[string]any{"query": query, "ctx": c, "db": db, "sql": sqlText, "model_op": ops[len(ops)-1], "dur": d,
			"has_cmp": strings.Contains(ser, ":") && hasCmp(script)})
		feats = append(feats, semFeatures(script))
	}
	// the plan evaluated is the real planner's SQL, byte for byte
	if err := r.Compare("sem-text", textOps, impl, nil); err != nil {
		return err
	}
	ans, err := h.Model(ops)
	if err != nil {
		return err
	}
	for i, a := range ans {
		f := feats[i]
		fields := strings.Fields(a)
		// the model's own label of the case: proved:<path>:<shape> when Qryn.C08.plan_metric_correct applies to it
		// (LogQL.supported and, on the metrics_15s path, LogQL.shortcutOkB hold), searched:<why>:<shape> otherwise; + stage count
		if len(fields) < 4 {
			return fmt.Errorf("c08sem: model answered %q for %v", a, ops[i])
		}
		class, stages := fields[len(fields)-2], fields[len(fields)-1]
		r.Count("sem:class:" + class)
		if strings.HasPrefix(class, "proved-in-timestamp-order:") {
			r.Count("sem:proved-in-timestamp-order")
			if ns, _ := strconv.Atoi(stages); ns >= 3 {
				r.Count("sem:proved-in-timestamp-order:stages>=3")
			}
			for _, x := range f {
				r.Count("sem:proved-in-timestamp-order:" + x)
			}
		} else if strings.HasPrefix(class, "proved:") {
			r.Count("sem:proved")
			ns, _ := strconv.Atoi(stages)
			switch {
			case ns >= 5:
				r.Count("sem:proved:stages>=5")
				fallthrough
			case ns >= 3:
				r.Count("sem:proved:stages>=3")
			}
			c := cases[i]["ctx"].(mctx)
			if c.Step > scriptDurationOf(cases[i]) {
				r.Count("sem:proved:step>range")
			}
			for _, x := range f {
				r.Count("sem:proved:" + x)
			}
			if cases[i]["has_cmp"] == true {
				r.Count("sem:proved:comparison")
			}
		} else if !strings.HasPrefix(class, "proved-in-timestamp-order:") {
			r.Count("sem:searched")
		}
		switch {
		case fields[0] == "ok" && len(fields) == 4:
			rows := fields[1]
			r.Case("sem:"+fmt.Sprint(cases[i]["query"], cases[i]["ctx"], i), rows != "0")
			if rows == "0" {
				r.Count("sem:empty-result")
			} else {
				r.Count("sem:non-empty-result")
				if strings.HasPrefix(class, "proved:") {
					r.Count("sem:proved:non-empty-result")
				}
			}
			for _, x := range f {
				r.Count("sem:" + x)
			}
		case fields[0] == "diff" && len(fields) == 5:
			cases[i]["sql_rows"] = string(h.UnHex(fields[1]))
			cases[i]["direct_reading"] = string(h.UnHex(fields[2]))
			cases[i]["class"] = class
			r.Case("sem:"+fmt.Sprint(cases[i]["query"], cases[i]["ctx"], i), true)
			key := "C08/sql-differs-from-direct-reading:" + strings.Join(f, ",")
			if strings.HasPrefix(class, "proved:") || strings.HasPrefix(class, "theorem-rhs-differs:") {
				// cannot happen while the theorem and the driver are built from the same definitions
				key = "C08/proved-class-differs:" + class
			}
			r.Violate(key, "rows of the generated SQL (Sql.evalSelA of the model plan = the real planner's text) differ from the direct reading of "+fmt.Sprint(cases[i]["query"]), cases[i])
			r.Count("sem:mismatch")
		default:
			return fmt.Errorf("c08sem: model answered %q for %v", a, ops[i])
		}
	}
	// the stream has to exercise every class the plan-level theorems cover (fail closed when the generator stops doing so)
	for _, need := range []string{
		"sem:class:proved:samples:range", "sem:class:proved:samples:agg", "sem:class:proved:samples:topk(range)", "sem:class:proved:samples:topk(agg)",
		"sem:class:proved:metrics_15s:range", "sem:class:proved:metrics_15s:agg",
		"sem:proved:stages>=3", "sem:proved:step>range", "sem:proved:comparison", "sem:proved:non-empty-result",
		"sem:class:proved-in-timestamp-order:samples:range", "sem:class:proved-in-timestamp-order:samples:agg",
		"sem:class:proved-in-timestamp-order:samples:topk(agg)", "sem:proved-in-timestamp-order:stages>=3",
	} {
		if r.Distribution[need] == 0 {
			return fmt.Errorf("c08sem: no case of %s among %d (the stream no longer exercises a class plan_metric_correct covers)", need, len(ans))
		}
	}
	return nil
}

func scriptDurationOf(c map[string]any) int64 { return c["dur"].(int64) }

// features of a script that name the failure class of a semantic mismatch
func semFeatures(s *logql_parser.LogQLScript) []string {
	ra := rangeOf(s)
	var f []string
	kind := "lra"
	if n := len(ra.StrSel.Pipelines); n > 0 && ra.StrSel.Pipelines[n-1].Unwrap != nil {
		kind = "unwrap"
	}
	f = append(f, kind+":"+ra.Fn)
	var agg *logql_parser.AggOperator
	if s.AggOperator != nil {
		agg = s.AggOperator
	}
	if s.TopK != nil {
		f = append(f, s.TopK.Fn)
		agg = s.TopK.AggOperator
	}
	if agg != nil {
		f = append(f, "agg:"+agg.Fn)
		if agg.ByOrWithoutPrefix == nil && agg.ByOrWithoutSuffix == nil {
			f = append(f, "agg-without-grouping")
		}
	}
	sort.Strings(f)
	return f
}

// a comparison anywhere in the script
func hasCmp(s *logql_parser.LogQLScript) bool {
	if ra := rangeOf(s); ra != nil && ra.Comparison != nil {
		return true
	}
	if s.AggOperator != nil && s.AggOperator.Comparison != nil {
		return true
	}
	if s.TopK != nil {
		if s.TopK.Comparison != nil {
			return true
		}
		if s.TopK.AggOperator != nil && s.TopK.AggOperator.Comparison != nil {
			return true
		}
	}
	return false
}
