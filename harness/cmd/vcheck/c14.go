package main

import (
	"context"
	"fmt"
	"reflect"
	"regexp"
	"strings"
	"sync"
	"time"
	"unsafe"

	"github.com/metrico/qryn/reader/logql/logql_parser"
	logql_transpiler_v2 "github.com/metrico/qryn/reader/logql/logql_transpiler_v2"
	"github.com/metrico/qryn/reader/logql/logql_transpiler_v2/clickhouse_planner"
	"github.com/metrico/qryn/reader/logql/logql_transpiler_v2/shared"
	profparser "github.com/metrico/qryn/reader/prof/parser"
	proftr "github.com/metrico/qryn/reader/prof/transpiler"
	traceql_parser "github.com/metrico/qryn/reader/traceql/parser"
	"github.com/metrico/qryn/reader/traceql/transpiler/clickhouse_transpiler"
	sql "github.com/metrico/qryn/reader/utils/sql_select"
	"verif/harness/h"
)

func init() { props["C14"] = c14 }

// advancing contexts like Tail: same static parts, From/To move forward by whole seconds
func tailCtxs(r *h.Rng, n int) []qctx {
	c := genCtx(r)
	c.Limit, c.Asc = 0, false
	out := []qctx{c}
	for i := 1; i < n; i++ {
		d := int64(r.Range(1, 5)) * 1e9
		if r.Chance(10) {
			d = 86400e9 // the index day rolls over while tailing
		}
		p := out[i-1]
		p.From += d
		p.To += d
		out = append(out, p)
	}
	return out
}

var timeLit = regexp.MustCompile(`\b\d{16,19}\b|'\d{4}-\d{2}-\d{2}'`)

func maskTime(s string) string { return timeLit.ReplaceAllString(s, "T") }

// c14Model: the same REAL plan object processed several times vs LogQL.runs
func c14Model(r *h.Result, rng *h.Rng, n int) error {
	r.Stream("reexec-model: one real clickhouse_planner plan, Process ×k with advancing contexts (as Tail does) vs LogQL.runs (stateful model: cached fingerprint chain)")
	var ops, impl []string
	var cases []any
	for i := 0; i < n; i++ {
		query := genLogQuery(rng, 3, 3)
		script, err := logql_parser.Parse(query)
		if err != nil {
			continue
		}
		ser, err := serLogQuery(script)
		if err != nil {
			continue
		}
		p, err := clickhouse_planner.Plan(script, true)
		if err != nil {
			continue
		}
		k := rng.Range(2, 5)
		cs := tailCtxs(rng, k)
		var texts, sers []string
		ok := true
		for _, c := range cs {
			sel, err := p.Process(c.planner())
			if err != nil {
				ok = false
				break
			}
			t, err := sel.String(sql.DefaultCtx())
			if err != nil {
				ok = false
				break
			}
			texts = append(texts, hx(t))
			sers = append(sers, c.ser())
		}
		if !ok {
			r.Count("reexec-model:impl-error")
			continue
		}
		ops = append(ops, fmt.Sprintf("c14run %d %s %s", k, strings.Join(sers, " "), ser))
		impl = append(impl, strings.Join(texts, ","))
		cases = append(cases, map[string]any{"query": query, "contexts": cs})
		r.Case("reexec-model:"+query+fmt.Sprint(cs), true)
		r.Count(fmt.Sprintf("reexec-model:executions=%d", k))
		if i%37 == 0 {
			r.Sample(map[string]any{"stream": "reexec-model", "query": query, "contexts": cs})
		}
	}
	return r.Compare("reexec-model", ops, impl, cases)
}

type replanner struct {
	kind  string
	query string
	make  func() (shared.SQLRequestPlanner, error)
}

func c14Planners() []replanner {
	var out []replanner
	for _, q := range c13LogQL {
		q := q
		out = append(out, replanner{"logql", q, func() (shared.SQLRequestPlanner, error) {
			s, err := logql_parser.Parse(q)
			if err != nil {
				return nil, err
			}
			// as the API does: the full transpiler decides which part of the pipeline ClickHouse runs
			chain, err := logql_transpiler_v2.Plan(s)
			if err != nil {
				return nil, err
			}
			if g := findGetter(reflect.ValueOf(chain), 0); g != nil {
				return g.ClickhouseRequestPlanner, nil
			}
			return nil, fmt.Errorf("no ClickHouse planner in the chain")
		}})
	}
	for _, q := range []string{`{.a="b"}`, `{.a="b" && .c>5}`, `{name="x"} | count() > 2`, `{.a="b"} && {.c="d"}`, `{.a=~"b.*"} || {resource.x="y"}`, `{}`, `{.a="b"} | avg(duration) > 1s`} {
		q := q
		out = append(out, replanner{"traceql", q, func() (shared.SQLRequestPlanner, error) {
			s, err := traceql_parser.Parse(q)
			if err != nil {
				return nil, err
			}
			return clickhouse_transpiler.Plan(s)
		}})
	}
	for _, q := range []string{`{}`, `{service_name="x"}`, `{a="b", c=~"d.*"}`} {
		q := q
		out = append(out, replanner{"prof-label-names", q, func() (shared.SQLRequestPlanner, error) {
			s, err := profparser.Parse(q)
			if err != nil {
				return nil, err
			}
			return proftr.PlanLabelNames([]*profparser.Script{s})
		}})
		out = append(out, replanner{"prof-series", q, func() (shared.SQLRequestPlanner, error) {
			s, err := profparser.Parse(q)
			if err != nil {
				return nil, err
			}
			return proftr.PlanSeries([]*profparser.Script{s}, []string{"a"})
		}})
	}
	return out
}

// findGetter: the ClickhouseGetterPlanner inside a request-processor chain (through wrappers, unexported fields too)
func findGetter(v reflect.Value, depth int) *shared.ClickhouseGetterPlanner {
	if depth > 12 || !v.IsValid() {
		return nil
	}
	switch v.Kind() {
	case reflect.Interface, reflect.Ptr:
		if v.IsNil() {
			return nil
		}
		if v.Kind() == reflect.Ptr && v.Type() == reflect.TypeOf(&shared.ClickhouseGetterPlanner{}) {
			return (*shared.ClickhouseGetterPlanner)(v.UnsafePointer())
		}
		return findGetter(v.Elem(), depth+1)
	case reflect.Struct:
		if !v.CanAddr() {
			c := reflect.New(v.Type()).Elem()
			c.Set(v)
			v = c
		}
		for i := 0; i < v.NumField(); i++ {
			f := v.Field(i)
			if f.CanAddr() {
				f = reflect.NewAt(f.Type(), unsafe.Pointer(f.UnsafeAddr())).Elem()
			}
			if g := findGetter(f, depth+1); g != nil {
				return g
			}
		}
	case reflect.Slice:
		for i := 0; i < v.Len(); i++ {
			if g := findGetter(v.Index(i), depth+1); g != nil {
				return g
			}
		}
	}
	return nil
}

func renderWith(p shared.SQLRequestPlanner, from, to int64, cluster bool) (string, error) {
	c := pctx(from, to, cluster, 1, 0)
	c.Ctx = context.Background()
	sel, err := p.Process(c)
	if err != nil {
		return "", err
	}
	return sel.String(sql.DefaultCtx())
}

// c14Shape: for every planner family — (a) re-executing one plan object yields the first statement up to the
// time literals; (b) translating the same query again, with other translations in between, yields the same text.
func c14Shape(r *h.Result, rng *h.Rng, rounds int) error {
	r.Stream("reexec-shape: LogQL (log+metric), TraceQL, Pyroscope plans processed 1–5 times with advancing windows: texts equal after masking time literals; determinism: fresh translations of the same query interleaved with others give identical text")
	pl := c14Planners()
	for round := 0; round < rounds; round++ {
		for _, rp := range pl {
			p, err := rp.make()
			if err != nil {
				r.Count("reexec-shape:plan-error:" + rp.kind)
				continue
			}
			base := int64(1700000000+rng.Intn(1000000)) * 1e9
			span := int64(300e9)
			cluster := rng.Bool()
			var first string
			k := rng.Range(2, 5)
			bad := false
			for i := 0; i < k; i++ {
				from := base + int64(i)*int64(rng.Range(1, 3))*1e9
				t, err := renderWith(p, from, from+span, cluster)
				if err != nil {
					r.Count("reexec-shape:process-error:" + rp.kind)
					bad = true
					break
				}
				if i == 0 {
					first = maskTime(t)
					continue
				}
				if m := maskTime(t); m != first && !bad {
					bad = true
					r.Violate("C14/reexec/"+rp.kind, fmt.Sprintf("%s plan for %s renders a different statement on execution %d than on the first (beyond time bounds)", rp.kind, rp.query, i+1),
						map[string]any{"stream": "reexec-shape", "planner": rp.kind, "query": rp.query, "execution": i + 1, "first": first, "later": m})
				}
			}
			r.Case(fmt.Sprintf("reexec-shape:%s:%s:%d:%d", rp.kind, rp.query, round, k), true)
			r.Count("reexec-shape:planner:" + rp.kind)
			// determinism across fresh translations with interleaving
			p1, _ := rp.make()
			other := pl[rng.Intn(len(pl))]
			if po, err := other.make(); err == nil {
				renderWith(po, base, base+span, cluster)
			}
			p2, _ := rp.make()
			if p1 != nil && p2 != nil {
				t1, e1 := renderWith(p1, base, base+span, cluster)
				t2, e2 := renderWith(p2, base, base+span, cluster)
				if e1 == nil && e2 == nil && t1 != t2 {
					r.Violate("C14/nondeterministic/"+rp.kind, fmt.Sprintf("two translations of %s with the same parameters differ", rp.query),
						map[string]any{"stream": "reexec-shape", "planner": rp.kind, "query": rp.query, "a": t1, "b": t2})
				}
			}
		}
	}
	_ = time.Now
	return nil
}

// c14Concurrent: translations of the same query text for different windows, issued concurrently through the
// production entry point (logql_transpiler_v2.Transpile), must each render exactly what a translation done
// alone renders — translation must not depend on what else the process is translating.
func c14Concurrent(r *h.Result, rng *h.Rng, workers, perWorker int) {
	r.Stream("concurrent: logql_transpiler_v2.Transpile + Process of the same query text for windows on different days from several goroutines at once vs the same translation done alone")
	queries := []string{`{a="b"}`, `{a="b"} |= "x" | c="d"`, `sum by (a) (count_over_time({a="b"} |= "e" [5m]))`, `{a="b"} | json | x="1"`}
	type job struct {
		q        string
		from, to int64
		want     string
	}
	render := func(q string, from, to int64) (string, error) {
		chain, err := logql_transpiler_v2.Transpile(q)
		if err != nil {
			return "", err
		}
		g := findGetter(reflect.ValueOf(chain), 0)
		if g == nil {
			return "", fmt.Errorf("no ClickHouse planner")
		}
		return renderWith(g.ClickhouseRequestPlanner, from, to, false)
	}
	var jobs []job
	base := int64(1700000000+rng.Intn(100000)) * 1e9
	for _, q := range queries {
		for d := 0; d < 3; d++ {
			from := base + int64(d)*2*86400e9
			w, err := render(q, from, from+3600e9)
			if err != nil {
				r.Count("concurrent:plan-error")
				continue
			}
			jobs = append(jobs, job{q, from, from + 3600e9, w})
		}
	}
	if len(jobs) == 0 {
		return
	}
	var mtx sync.Mutex
	var wg sync.WaitGroup
	bad := 0
	var first *job
	var got string
	for w := 0; w < workers; w++ {
		wg.Add(1)
		seed := rng.U64()
		go func() {
			defer wg.Done()
			defer func() {
				if e := recover(); e != nil {
					mtx.Lock()
					bad++
					if first == nil {
						first, got = &job{q: "(any)", want: ""}, fmt.Sprintf("panic in a concurrent translation: %v", e)
					}
					mtx.Unlock()
				}
			}()
			lr := h.NewRng(seed)
			for i := 0; i < perWorker; i++ {
				j := jobs[lr.Intn(len(jobs))]
				t, err := render(j.q, j.from, j.to)
				if err == nil && t != j.want {
					mtx.Lock()
					bad++
					if first == nil {
						jj := j
						first, got = &jj, t
					}
					mtx.Unlock()
				}
			}
		}()
	}
	wg.Wait()
	r.Evaluations += workers * perWorker
	r.Nontrivial[fmt.Sprintf("concurrent:%d-workers", workers)]++
	r.CountN("concurrent:translations", workers*perWorker)
	if first != nil {
		r.CountN("concurrent:mismatches", bad)
		r.Violate("C14/concurrent-translation/logql", fmt.Sprintf("%d of %d concurrent translations of %s rendered a statement different from the one rendered alone for the same window", bad, workers*perWorker, first.q),
			map[string]any{"stream": "concurrent", "query": first.q, "from": first.from, "to": first.to, "alone": first.want, "concurrent": got})
	}
}

func c14(r *h.Result, rng *h.Rng, tier string, replay string) error {
	r.Rule = "history-cross: pools of ≤ 40 jobs over 6 planner families (13 log, 12 metric, 2 series/values, 5 TraceQL, 4 PromQL, 4 Pyroscope) × (pristine child per job + full passes of the pool twice + random sequences of 2–6 jobs), each in its own child process; non-trivial = at least two translations in one process; heap-model: random programs of 3–14 instructions (+ nested branches) over ≤ 2 package-level lists × 1–3 translations, 30 % the seeded shapes; reexec-model: generated log queries (≤3 matchers, ≤3 stages) × 2–5 executions with contexts advancing by 1–5 s (10 %: by a day); reexec-traceql: generated TraceQL scripts (≤3 selectors, nested conditions, aggregators, 8 % with a term rejected at Process time) × contexts of 2–5 portions of a complex search / plain re-execution / mixed, 40 % dirty; reexec-dirty-logql: 22 templates beyond the model fragment + 24 templates covering every stage kind + generated metric and log queries × 2–5 executions, 70 % dirty; retranslate-api: generated texts with stages before an in-process stage × 2–4 translations; portions-real: generated TraceQL scripts × scripted complexity (1–5 portions, 15 % simple) × scripted finds per portion; reexec-model-metric: generated metric queries of the C08 fragment × 2–5 executions; fmt-model: generated templates × 2–4 calls, 50 % dirty; reexec-shape: 24 LogQL templates, 7 TraceQL scripts, 3 Pyroscope selectors × 2 planners, × rounds; every case re-executes or re-translates at least twice (non-trivial); distinct by (query, contexts)"
	if replay != "" {
		return c14Replay(r, replay)
	}
	n, rounds := 300, 2
	hRounds, hPasses, hSeqs := 1, 4, 90
	if tier != "quick" {
		n, rounds = 5000, 40
		hRounds, hPasses, hSeqs = 12, 6, 200
	}
	// a model that cannot answer (the driver is the last good one of an earlier run, or died) must not keep the
	// remaining streams from running: their oracles judge the implementation alone. The failure stays loud: it is
	// recorded as a disagreement of that stream.
	soft := func(stream string, err error) {
		if err != nil {
			r.Disagree(stream, "model-unavailable", "-", trunc(err.Error(), 300), nil)
			r.Notes = append(r.Notes, "stream "+stream+": the model driver could not answer ("+trunc(err.Error(), 200)+"); the stream's oracle ran, its model comparison did not")
		}
	}
	// first: needs no model at all
	if err := c14History(r, rng.Fork(), hRounds, hPasses, hSeqs); err != nil {
		return err
	}
	soft("heap-model", c14HeapModel(r, rng.Fork(), n*2))
	soft("reexec-model", c14Model(r, rng.Fork(), n))
	soft("reexec-traceql", c14TraceQL(r, rng.Fork(), n*2))
	soft("reexec-model-metric", c14MetricModel(r, rng.Fork(), n))
	soft("fmt-model", c14FmtModel(r, rng.Fork(), n))
	c14DirtyLogQL(r, rng.Fork(), n*2)
	c14Retranslate(r, rng.Fork(), n)
	c14Loop(r, rng.Fork(), n)
	soft("reexec-shape", c14Shape(r, rng.Fork(), rounds))
	if tier == "quick" {
		c14Concurrent(r, rng.Fork(), 8, 400)
	} else {
		c14Concurrent(r, rng.Fork(), 16, 5000)
	}
	return nil
}
