package main

// C05 allocation oracle (key C05/alloc-amplification/<route>), applied to EVERY request of every C05 stream.
//
// The child reports, per request, the delta of runtime.MemStats.TotalAlloc over the window "request ready to be
// written to the socket … response read". The rule judged on the implementation alone:
//
//	alloc ≤ 64 MiB + 2048 × len(body)
//
// 2048 × len(body): the densest honest expansion on the ingest side is gzip (DEFLATE's maximum ratio is ≈ 1032:1),
// buffered once by io.ReadAll (amortised growth) — a body that really carries the bytes may cost that much.
// 64 MiB: fixed costs per request (snappy framing buffers, protobuf/pprof object graphs, the 10 MiB snappy block
// limit with its decoded copy and parsed form, column appends of the insert services running in the same process).
// What the rule forbids is allocation driven by a DECLARED size: a length prefix, element count or header field
// that makes the server allocate memory the request did not pay for in bytes (snappy block header, protobuf
// length prefixes, pprof/OTLP repeated-field counts, multipart sizes).
//
// Two failure classes (keys): C05/alloc-amplification/<route> — the allocation is not explained by any bytes in the
// request (a declared size reached an allocation); C05/alloc-amplification/decompressed-stream/<route> — the request
// carries Content-Encoding gzip/snappy and alloc ≤ 64 MiB + 16 × (bytes the decompression stream really yields):
// the chain buffers a decompressed stream of any size (KNOWN FINDING, see KNOWN_FINDINGS.txt and notes/C05.md).
//
// A first measurement above the limit is confirmed in isolation (the child is allowed to go idle, the same request
// is sent again, the smaller of the two deltas counts), so that work of an earlier request flushed by the insert
// loops during the window is not attributed to this one.

import (
	"fmt"
	"strings"
)

const (
	c05AllocBase    = 64 << 20
	c05AllocPerByte = 2048
)

func c05AllocLimit(bodyLen int) uint64 { return c05AllocBase + c05AllocPerByte*uint64(bodyLen) }

const c05AllocRule = "alloc-amplification: per request, TotalAlloc delta of the child process ≤ 64 MiB + 2048 × len(body) (gzip's maximum expansion ≈ 1032:1, buffered with amortised growth; 64 MiB for fixed per-request costs incl. the 10 MiB snappy block limit); a delta above it is confirmed by re-sending the request to the idle child (minimum of both counts)"

func c05AllocBucket(a uint64) string {
	switch {
	case a < 1<<20:
		return "<1MiB"
	case a < 16<<20:
		return "<16MiB"
	case a < 64<<20:
		return "<64MiB"
	case a < 256<<20:
		return "<256MiB"
	}
	return ">=256MiB"
}

// judgeAlloc applies the rule to one answered request (the child is alive). Returns the allocation that counts.
func (c *c05Run) judgeAlloc(stream, routeName, shape string, rq c05Request, sent c05Sent, o c05Outcome, model string) (uint64, error) {
	alloc := o.Alloc
	limit := c05AllocLimit(len(rq.Body))
	if alloc > limit {
		// confirm in isolation
		if _, err := c.p.Census(); err != nil {
			return alloc, fmt.Errorf("child census: %v", err)
		}
		o2, dead := c.p.Do(rq, c.deadline)
		c.r.Count("alloc:confirmations")
		if dead {
			// the re-sent request killed or wedged the child: the first answer said it does not — report what we saw
			c.r.Violate("C05/alloc-amplification/"+routeName,
				fmt.Sprintf("%s %s (%s, %d bytes) made the writer allocate %d bytes (limit %d); re-sent to confirm, the child ended with %s %s", rq.Method, rq.Path, shape, len(rq.Body), alloc, limit, o2.Class, o2.Detail),
				map[string]any{"stream": stream, "route": routeName, "shape": shape, "request": sent.Req, "outcome": "alloc", "alloc": alloc, "limit": limit, "model": model})
			c.batch = nil
			return alloc, c.respawn()
		}
		if o2.Alloc < alloc {
			alloc = o2.Alloc
		}
		if alloc > limit {
			key, why := "C05/alloc-amplification/"+routeName, ""
			if e, ok := c05Decompressed(rq); ok && alloc <= c05AllocBase+16*uint64(e) {
				// the allocation is explained by bytes the decompression stream really yields (buffered twice with
				// amortised growth): nothing in the chain caps the decompressed size — a different failure class
				// from an allocation driven by a declared size
				key = "C05/alloc-amplification/decompressed-stream/" + routeName
				why = fmt.Sprintf("; the %s stream over the body yields %d bytes, which the chain buffers without a cap", rq.Headers["Content-Encoding"], e)
			}
			c.r.Violate(key,
				fmt.Sprintf("%s %s (%s): a body of %d bytes made the writer allocate %d bytes (%.1f MiB; limit 64 MiB + 2048 × len(body) = %d), answered %s %d%s", rq.Method, rq.Path, shape, len(rq.Body), alloc, float64(alloc)/(1<<20), limit, o.Class, o.Status, why),
				map[string]any{"stream": stream, "route": routeName, "shape": shape, "request": sent.Req, "outcome": "alloc", "alloc": alloc, "limit": limit, "status": o.Status, "model": model})
		}
	}
	c.r.Count("alloc:" + stream + ":" + c05AllocBucket(alloc))
	if alloc > c.maxAlloc[stream] {
		if c.maxAlloc == nil {
			c.maxAlloc = map[string]uint64{}
			c.maxAllocWhat = map[string]string{}
		}
		c.maxAlloc[stream] = alloc
		c.maxAllocWhat[stream] = fmt.Sprintf("%s %s: body %d bytes, %d bytes allocated (limit %d)", routeName, shape, len(rq.Body), alloc, limit)
	}
	return alloc, nil
}

// c05Decompressed: the number of bytes the Content-Encoding stream of a request yields (real gzip / snappy framing
// reader, run in the parent), when there is such a stream.
func c05Decompressed(rq c05Request) (int, bool) {
	ce := strings.Trim(rq.Headers["Content-Encoding"], " \t")
	if ce != "gzip" && ce != "snappy" {
		return 0, false
	}
	hdrOk, data, _ := c05Expand(ce, rq.Body)
	return len(data), hdrOk
}

func (c *c05Run) allocNotes() {
	for _, s := range []string{"structured", "prerequest", "probe", "raw"} {
		if w, ok := c.maxAllocWhat[s]; ok {
			c.r.Notes = append(c.r.Notes, "allocation oracle, largest per-request TotalAlloc delta of stream "+s+": "+w)
		}
	}
}
