package main

import (
	"encoding/json"
	"errors"
	"fmt"
	"os"
	"path/filepath"
	"strconv"
	"strings"
	"sync"

	"github.com/metrico/qryn/ctrl/maintenance"
	qmaint "github.com/metrico/qryn/ctrl/qryn/maintenance"
	qsql "github.com/metrico/qryn/ctrl/qryn/sql"

	"verif/harness/ddl"
	"verif/harness/fakes"
	"verif/harness/h"
)

func init() { props["C18"] = c18 }

type nullLogger struct{}

func (nullLogger) Error(args ...any) {}
func (nullLogger) Debug(args ...any) {}
func (nullLogger) Info(args ...any)  {}

// the streams of the pinned tree: key -> file, script variable (the oracle's notion of "file order")
type c18Stream struct {
	k    uint64
	file string
	v    *string
	dist bool
}

var c18Streams = []c18Stream{
	{1, "log.sql", &qsql.LogScript, false}, {3, "log_dist.sql", &qsql.LogDistScript, true},
	{2, "traces.sql", &qsql.TracesScript, false}, {4, "traces_dist.sql", &qsql.TracesDistScript, true},
	{5, "profiles.sql", &qsql.ProfilesScript, false}, {6, "profiles_dist.sql", &qsql.ProfilesDistScript, true},
}

var c18Full = map[string]string{} // file -> full text (the script variables are cut for "older release" states)

func c18ModeArgs(m ddl.Mode) (cluster string, mode int, cloud bool) {
	// exactly what upgradeDB computes from the configuration
	mode = qmaint.CLUST_MODE_SINGLE
	if m.Replicated {
		mode = qmaint.CLUST_MODE_CLOUD
	}
	if m.Cluster != "" {
		mode |= qmaint.CLUST_MODE_DISTRIBUTED
	}
	return m.Cluster, mode, m.Replicated
}

// one start of the real code: InitDBTry (what InitDB does on its connection) then Update, as ctrl.Init orders them
func c18Start(conn *fakes.CHConn, m ddl.Mode, f *fakes.Fault) (status string) {
	conn.Begin(f)
	cluster, mode, cloud := c18ModeArgs(m)
	err := maintenance.InitDBTry(conn, cluster, ddl.DBName, cloud, nullLogger{})
	if err == nil {
		err = qmaint.Update(conn, ddl.DBName, cluster, mode, 30, "", "", false, nullLogger{})
	}
	switch {
	case err == nil:
		return "done"
	case errors.Is(err, fakes.ErrInjected):
		return "died"
	}
	var de *ddl.Err
	if errors.As(err, &de) {
		return "failed:" + de.Canon()
	}
	return "failed:other:" + err.Error()
}

func fnv64(s string) uint64 {
	h := uint64(14695981039346656037)
	for i := 0; i < len(s); i++ {
		h = (h ^ uint64(s[i])) * 1099511628211
	}
	return h
}

type c18Sched struct {
	Mode   string `json:"mode"`
	Prefix []int  `json:"prefix,omitempty"` // script counts of the "older release" the database starts from (c18Streams order)
	Faults []struct {
		N       int  `json:"n"`
		Applied bool `json:"applied"`
	} `json:"faults"`
}

func (s *c18Sched) add(n int, applied bool) {
	s.Faults = append(s.Faults, struct {
		N       int  `json:"n"`
		Applied bool `json:"applied"`
	}{n, applied})
}

func (s c18Sched) op(detail string) string {
	pre := "-"
	if s.Prefix != nil {
		var p []string
		for _, n := range s.Prefix {
			p = append(p, strconv.Itoa(n))
		}
		pre = strings.Join(p, ",")
	}
	var at []string
	for _, f := range s.Faults {
		a := strconv.Itoa(f.N)
		if f.Applied {
			a += "a"
		}
		at = append(at, a)
	}
	at = append(at, "c", "c")
	return fmt.Sprintf("c18sched %s %s %s %s", s.Mode, pre, strings.Join(at, ","), detail)
}

func c18ModeByName(n string) ddl.Mode {
	for _, m := range ddl.Modes {
		if m.Name == n {
			return m
		}
	}
	panic("unknown mode " + n)
}

// scripts of a stream as the oracle expects them: the current file text split by the documented rule,
// instantiated like getDBExec does
var c18ExpCache = map[[2]string][]string{}
var c18Mu sync.Mutex

func c18Expected(st c18Stream, m ddl.Mode) []string {
	ck := [2]string{m.Name, *st.v}
	c18Mu.Lock()
	defer c18Mu.Unlock()
	if p, ok := c18ExpCache[ck]; ok {
		return p
	}
	parts := c18ExpectedSlow(st, m)
	c18ExpCache[ck] = parts
	return parts
}

func c18ExpectedSlow(st c18Stream, m ddl.Mode) []string {
	parts, err := ddl.Split(*st.v, ddl.PinnedRule)
	if err != nil {
		panic(err)
	}
	env := ddl.EnvFor(m)
	for i := range parts {
		q, err := ddl.Render(parts[i], env)
		if err != nil {
			panic(err)
		}
		parts[i] = q
	}
	return parts
}

func c18SetPrefix(prefix []int) {
	for i, st := range c18Streams {
		full := c18Full[st.file]
		if prefix == nil {
			*st.v = full
			continue
		}
		parts, _ := ddl.Split(full, ddl.PinnedRule)
		n := prefix[i]
		if n > len(parts) {
			n = len(parts)
		}
		*st.v = strings.Join(parts[:n], ";\n\n")
	}
}

type c18Run struct {
	answer   string // same format as the model's `c18sched … d|f` answer
	verbose  string
	viol     []h.Violation
	nfaulted int
	finalOK  bool
}

// c18Oracle2 checks one start's call log: a version row only right after the successful execution of exactly
// its own script, and only the next version.
func c18CheckLog(conn *fakes.CHConn, before map[uint64]uint64, m ddl.Mode) (string, bool) {
	cur := map[uint64]uint64{}
	for k, v := range before {
		cur[k] = v
	}
	for j, e := range conn.Log {
		if !strings.HasPrefix(e.Canon, "record:") {
			continue
		}
		if e.Err != "" && e.Err != "injected-applied" {
			continue // the row was not written
		}
		var k, v uint64
		fmt.Sscanf(e.Canon, "record:%d:%d", &k, &v)
		var st *c18Stream
		for i := range c18Streams {
			if c18Streams[i].k == k {
				st = &c18Streams[i]
			}
		}
		if st == nil {
			return fmt.Sprintf("version row for unknown stream %d", k), false
		}
		exp := c18Expected(*st, m)
		if v != cur[k]+1 {
			return fmt.Sprintf("stream %d (%s): version %d recorded while the recorded version was %d (a script was skipped or repeated)", k, st.file, v, cur[k]), false
		}
		if v < 1 || int(v) > len(exp) {
			return fmt.Sprintf("stream %d (%s): version %d recorded but the file has %d scripts", k, st.file, v, len(exp)), false
		}
		if j == 0 || conn.Log[j-1].Kind != "exec" || conn.Log[j-1].Err != "" || conn.Log[j-1].SQL != exp[v-1] {
			prev := "<nothing>"
			if j > 0 {
				prev = fmt.Sprintf("%.70q (err=%q)", conn.Log[j-1].SQL, conn.Log[j-1].Err)
			}
			return fmt.Sprintf("stream %d (%s): version %d recorded, but the call before it is not the successful execution of script #%d: %s", k, st.file, v, v, prev), false
		}
		cur[k] = v
	}
	return "", true
}

func c18Versions(conn *fakes.CHConn) map[uint64]uint64 {
	res := map[uint64]uint64{}
	for _, st := range c18Streams {
		res[st.k] = conn.MaxVer(st.k)
	}
	return res
}

// which script a failing statement is: file#index (1-based = the version it would record)
func c18Locate(sqlText string, m ddl.Mode) string {
	for _, st := range c18Streams {
		for i, q := range c18Expected(st, m) {
			if q == sqlText {
				return fmt.Sprintf("%s#%d", st.file, i+1)
			}
		}
	}
	return "bootstrap"
}

var c18Reference = map[string]string{} // mode+prefix -> state of the uninterrupted start from the same database

// the state an uninterrupted start reaches from the schedule's starting database (an empty server, or the
// database an older release left behind)
func c18RefState(m ddl.Mode, prefix []int) string {
	key := fmt.Sprint(m.Name, prefix)
	c18Mu.Lock()
	s, ok := c18Reference[key]
	c18Mu.Unlock()
	if ok {
		return s
	}
	conn := fakes.NewCHConn(ddl.DBName)
	if prefix != nil {
		c18SetPrefix(prefix)
		c18Start(conn, m, nil)
	}
	c18SetPrefix(nil)
	st := c18Start(conn, m, nil)
	s = st + " " + conn.StateCanon()
	c18Mu.Lock()
	if len(c18Reference) < 5000 {
		c18Reference[key] = s
	}
	c18Mu.Unlock()
	return s
}

// c18Pre: the first `n` starts of a schedule already executed (shared by the schedules that extend it)
type c18Pre struct {
	conn     *fakes.CHConn
	n        int
	ans      []string
	nfaulted int
}

// c18Exec runs a schedule on the real code. pre == nil: from an empty server (after the prefix release, if any).
func c18Exec(s c18Sched, detail string, pre *c18Pre) c18Run {
	m := c18ModeByName(s.Mode)
	var out c18Run
	var ans, verb []string
	rec := func(conn *fakes.CHConn, status string) {
		st := conn.StateCanon()
		verb = append(verb, fmt.Sprintf("%s/%d/%s", status, conn.Calls, st))
		if detail == "d" {
			st = strconv.FormatUint(fnv64(st), 10)
		}
		a := fmt.Sprintf("%s/%d/%s", status, conn.Calls, st)
		if detail == "l" {
			var cs []string
			for _, e := range conn.Log {
				cs = append(cs, e.Canon)
			}
			a += "/" + strings.Join(cs, " ")
		}
		ans = append(ans, a)
	}
	violate := func(key, what string) {
		out.viol = append(out.viol, h.Violation{Key: key, What: what, Replay: s})
	}
	ref := c18RefState(m, s.Prefix)
	var conn *fakes.CHConn
	skip := 0
	if pre != nil {
		conn, skip, out.nfaulted = pre.conn.Clone(), pre.n, pre.nfaulted
		ans = append(ans, pre.ans...)
		verb = append(verb, pre.ans...)
	} else {
		conn = fakes.NewCHConn(ddl.DBName)
		if s.Prefix != nil {
			c18SetPrefix(s.Prefix)
			before := c18Versions(conn)
			st := c18Start(conn, m, nil)
			rec(conn, st)
			if what, ok := c18CheckLog(conn, before, m); !ok {
				violate("C18/version-recorded-without-its-script", what)
			}
			c18SetPrefix(nil)
		}
	}
	for _, f := range s.Faults[skip:] {
		before := c18Versions(conn)
		st := c18Start(conn, m, &fakes.Fault{N: f.N, Applied: f.Applied})
		rec(conn, st)
		if st == "died" {
			out.nfaulted++
		}
		if what, ok := c18CheckLog(conn, before, m); !ok {
			violate("C18/version-recorded-without-its-script", what)
		}
		if strings.HasPrefix(st, "failed") {
			// a start that fails by itself after earlier failures: the database is stuck
			last := conn.Log[len(conn.Log)-1]
			loc := c18Locate(last.SQL, m)
			violate("C18/"+loc, fmt.Sprintf("mode %s: after failed starts %v the next start fails by itself at %s with %q: %.90q", s.Mode, s.Faults, loc, last.Err, last.SQL))
		}
	}
	// a clean start must now complete …
	before := c18Versions(conn)
	st := c18Start(conn, m, nil)
	rec(conn, st)
	if what, ok := c18CheckLog(conn, before, m); !ok {
		violate("C18/version-recorded-without-its-script", what)
	}
	if st != "done" {
		last := conn.Log[len(conn.Log)-1]
		loc := c18Locate(last.SQL, m)
		violate("C18/"+loc, fmt.Sprintf("mode %s: after failed starts %v a clean start does not complete: %s fails with %q: %.90q", s.Mode, s.Faults, loc, last.Err, last.SQL))
	} else {
		out.finalOK = true
		// … in the schema (and version rows) of the uninterrupted start
		got := "done " + conn.StateCanon()
		if got != ref {
			violate("C18/final-schema-differs", fmt.Sprintf("mode %s: after failed starts %v (prefix %v) the completed initialisation differs from an uninterrupted one: %s", s.Mode, s.Faults, s.Prefix, c18Diff(ref, got)))
		}
		for _, sd := range c18Streams {
			if sd.dist && m.Cluster == "" {
				continue
			}
			if n := len(c18Expected(sd, m)); conn.MaxVer(sd.k) != uint64(n) {
				violate("C18/stream-not-at-last-script", fmt.Sprintf("mode %s: stream %d (%s) is at version %d of %d after a completed start", s.Mode, sd.k, sd.file, conn.MaxVer(sd.k), n))
			}
		}
	}
	// … and one more start on the now up-to-date database executes no migration script
	preState := conn.StateCanon()
	st = c18Start(conn, m, nil)
	rec(conn, st)
	if out.finalOK {
		for _, e := range conn.Log {
			boot := strings.HasPrefix(e.Canon, "exec:create/table/ver/1/") || strings.HasPrefix(e.Canon, "exec:create/table/ver_dist/1/") || e.Canon == "exec:createDatabase/1"
			if e.Kind == "exec" && !boot {
				violate("C18/uptodate-runs-migration", fmt.Sprintf("mode %s: a start on an up-to-date database executes %.90q", s.Mode, e.SQL))
				break
			}
		}
		if st != "done" || conn.StateCanon() != preState {
			violate("C18/uptodate-changes-state", fmt.Sprintf("mode %s: a start on an up-to-date database ends %s and changes the database", s.Mode, st))
		}
	}
	out.answer = strings.Join(ans, " ; ")
	out.verbose = strings.Join(verb, " ; ")
	return out
}

func c18Diff(a, b string) string {
	as, bs := strings.Fields(a), strings.Fields(b)
	in := func(l []string, x string) bool {
		for _, y := range l {
			if y == x {
				return true
			}
		}
		return false
	}
	var d []string
	for _, x := range as {
		if !in(bs, x) {
			d = append(d, "-"+x)
		}
	}
	for _, x := range bs {
		if !in(as, x) {
			d = append(d, "+"+x)
		}
	}
	if len(d) > 8 {
		d = d[:8]
	}
	return strings.Join(d, " ")
}

type c18Batch struct {
	stream string
	scheds []c18Sched
	ops    []string
	impl   []string
	cases  []any
}

func (b *c18Batch) flush(r *h.Result) error {
	if len(b.ops) == 0 {
		return nil
	}
	err := r.Compare(b.stream, b.ops, b.impl, b.cases)
	b.ops, b.impl, b.cases, b.scheds = nil, nil, nil, nil
	return err
}

func (b *c18Batch) run(r *h.Result, s c18Sched, detail string, pre *c18Pre) (c18Run, error) {
	return b.record(r, s, detail, c18Exec(s, detail, pre))
}

func (b *c18Batch) record(r *h.Result, s c18Sched, detail string, out c18Run) (c18Run, error) {
	for _, v := range out.viol {
		r.Violate(v.Key, v.What, v.Replay)
	}
	b.ops = append(b.ops, s.op(detail))
	b.impl = append(b.impl, out.answer)
	b.cases = append(b.cases, s)
	key, _ := json.Marshal(s)
	r.Case(b.stream+":"+string(key), out.nfaulted > 0)
	r.Count(b.stream)
	if len(b.ops) >= 2000 {
		return out, b.flush(r)
	}
	return out, nil
}

// number of calls of a start from the given state without failure (the failure points of that start)
func c18CountCalls(conn *fakes.CHConn, m ddl.Mode) int {
	c := conn.Clone()
	c18Start(c, m, nil)
	return c.Calls
}

func c18(r *h.Result, rng *h.Rng, tier string, replay string) error {
	for _, st := range c18Streams {
		c18Full[st.file] = *st.v
	}
	defer c18SetPrefix(nil)
	r.Rule = "a case = one schedule (mode, optional older-release start state, failure points (call number, applied or not)) followed by two clean starts; " +
		"real InitDBTry+Update on the fake connection vs the Lean model, compared per start on (status, calls issued, database state); " +
		"non-trivial = at least one start actually stopped at its failure point; distinct by schedule. " +
		"cluster-* streams: a case = (mode, N nodes, parameter instance, optional older release, starts each with its connection and failure point (call, set of nodes it still took effect on, kill/error)) followed by two uninterrupted starts; real InitDBTry+Update (ctrl-init: the real ctrl.Init through a ConnectV2 build overlay) on the fake cluster vs the Lean cluster model, compared per start on (status, calls that reached a node, per-node catalogue and ver rows)"

	if replay != "" {
		b, err := os.ReadFile(replay)
		if err != nil && !filepath.IsAbs(replay) {
			b, err = os.ReadFile(filepath.Join("..", replay)) // ./check runs the harness from harness/
		}
		if err != nil {
			return err
		}
		var kind struct {
			Replay struct {
				Kind string `json:"kind"`
			} `json:"replay"`
		}
		_ = json.Unmarshal(b, &kind)
		if kind.Replay.Kind == "cluster" {
			var cw struct {
				Replay c18CSched `json:"replay"`
			}
			if err := json.Unmarshal(b, &cw); err != nil {
				return err
			}
			r.Stream("replay of " + replay + " (cluster)")
			cb := &c18CBatch{stream: "replay"}
			if _, err := cb.run(r, cw.Replay, "f"); err != nil {
				return err
			}
			return cb.flush(r)
		}
		var wrap struct {
			Replay c18Sched `json:"replay"`
		}
		if err := json.Unmarshal(b, &wrap); err != nil {
			return err
		}
		r.Stream("replay of " + replay)
		bt := &c18Batch{stream: "replay"}
		if _, err := bt.run(r, wrap.Replay, "f", nil); err != nil {
			return err
		}
		return bt.flush(r)
	}

	// ---- stream 1: the statements the real code sends on a fresh server, call by call
	r.Stream("program: every call of an uninterrupted start on an empty server (statement text the real code sends, parsed) vs the model's call log over Gen.Migrations — ties the splitting rule, the template instantiation and the statement classification")
	bt := &c18Batch{stream: "program"}
	for _, m := range ddl.Modes {
		if _, err := bt.run(r, c18Sched{Mode: m.Name}, "l", nil); err != nil {
			return err
		}
	}
	if err := bt.flush(r); err != nil {
		return err
	}

	// ---- stream 2: every single failure point, all streams, all modes (exhaustive)
	r.Stream("single: ALL failure points of a start on an empty server × {no effect, applied} × 3 modes, then clean starts")
	bt = &c18Batch{stream: "single"}
	total := 0
	for _, m := range ddl.Modes {
		n := c18CountCalls(fakes.NewCHConn(ddl.DBName), m)
		r.CountN("failure-points:"+m.Name, 2*n)
		for i := 0; i < n; i++ {
			for _, ap := range []bool{false, true} {
				s := c18Sched{Mode: m.Name}
				s.add(i, ap)
				out, err := bt.run(r, s, "d", nil)
				if err != nil {
					return err
				}
				if total%211 == 0 {
					r.Sample(map[string]any{"stream": "single", "schedule": s, "impl": truncateStr(out.verbose, 400)})
				}
				total++
			}
		}
	}
	if err := bt.flush(r); err != nil {
		return err
	}
	r.Exhaustive = true

	// ---- stream 3: random multi-failure schedules, also from older-release databases
	nmulti := 200
	if tier != "quick" {
		nmulti = 3000
	}
	r.Stream(fmt.Sprintf("multi: %d random schedules of 2–5 failure points, half of them on a database left by an older release (files cut at random lengths)", nmulti))
	bt = &c18Batch{stream: "multi"}
	lens := make([]int, len(c18Streams))
	for i, st := range c18Streams {
		p, _ := ddl.Split(c18Full[st.file], ddl.PinnedRule)
		lens[i] = len(p)
	}
	for i := 0; i < nmulti; i++ {
		m := h.Pick(rng, ddl.Modes)
		s := c18Sched{Mode: m.Name}
		if rng.Bool() {
			s.Prefix = make([]int, len(lens))
			for j := range lens {
				switch rng.Intn(4) {
				case 0:
					s.Prefix[j] = lens[j]
				case 1:
					s.Prefix[j] = 0
				default:
					s.Prefix[j] = rng.Intn(lens[j] + 1)
				}
			}
		}
		// failure points are drawn among the calls the start at hand really issues (simulated on a scratch
		// connection), with a few beyond the end
		sim := fakes.NewCHConn(ddl.DBName)
		if s.Prefix != nil {
			c18SetPrefix(s.Prefix)
			c18Start(sim, m, nil)
			c18SetPrefix(nil)
		}
		nf := rng.Range(2, 5)
		for j := 0; j < nf; j++ {
			n := c18CountCalls(sim, m)
			fn := rng.Intn(n)
			switch rng.Intn(10) {
			case 0:
				fn = n + rng.Intn(3)
			case 1:
				fn = n - 1
			case 2:
				fn = rng.Intn(8)
			}
			ap := rng.Chance(40)
			s.add(fn, ap)
			c18Start(sim, m, &fakes.Fault{N: fn, Applied: ap})
		}
		out, err := bt.run(r, s, "d", nil)
		if err != nil {
			return err
		}
		if i%67 == 0 {
			r.Sample(map[string]any{"stream": "multi", "schedule": s, "impl": truncateStr(out.verbose, 300)})
		}
		r.Count(fmt.Sprintf("multi:stopped=%d", out.nfaulted))
	}
	if err := bt.flush(r); err != nil {
		return err
	}

	// ---- stream 3b: every single failure point of an upgrade from an older release
	type upg struct {
		mode   string
		prefix []int
	}
	// A: just before the RENAME/ADD COLUMN scripts (log.sql#19, log_dist.sql#10, profiles.sql#12); B: an early release
	upgs := []upg{{"clustered", []int{18, 9, 8, 3, 11, 4}}, {"single", []int{18, 9, 8, 3, 11, 4}}, {"clustered", []int{9, 5, 4, 1, 3, 2}}}
	if tier != "quick" {
		for i := 0; i < 12; i++ {
			p := make([]int, len(lens))
			for j := range lens {
				p[j] = rng.Intn(lens[j] + 1)
			}
			upgs = append(upgs, upg{h.Pick(rng, ddl.Modes).Name, p})
		}
	}
	r.Stream(fmt.Sprintf("upgrade-single: ALL failure points × {no effect, applied} of the start that upgrades a database left by an older release, %d (mode, release) pairs", len(upgs)))
	bt = &c18Batch{stream: "upgrade-single"}
	for _, u := range upgs {
		m := c18ModeByName(u.mode)
		old := fakes.NewCHConn(ddl.DBName)
		c18SetPrefix(u.prefix)
		c18Start(old, m, nil)
		c18SetPrefix(nil)
		n := c18CountCalls(old, m)
		for i := 0; i < n; i++ {
			for _, ap := range []bool{false, true} {
				s := c18Sched{Mode: u.mode, Prefix: u.prefix}
				s.add(i, ap)
				if _, err := bt.run(r, s, "d", nil); err != nil {
					return err
				}
			}
		}
	}
	if err := bt.flush(r); err != nil {
		return err
	}

	// ---- the cluster model (c18cluster.go)
	if err := c18Cluster(r, rng.Fork(), tier); err != nil {
		return err
	}
	if err := c18CtrlInit(r, rng.Fork(), tier); err != nil {
		return err
	}

	// ---- stream 4 (thorough): all pairs of failure points
	if tier != "quick" {
		r.Stream("pairs: ALL pairs (first failure point of the first start, any failure point of the second start) × {no effect, applied}² × 3 modes")
		bt = &c18Batch{stream: "pairs"}
		type job struct {
			m  ddl.Mode
			i  int
			ap bool
		}
		type res struct {
			s   c18Sched
			out c18Run
		}
		var jobs []job
		for _, m := range ddl.Modes {
			c18RefState(m, nil)
			n := c18CountCalls(fakes.NewCHConn(ddl.DBName), m)
			for i := 0; i < n; i++ {
				jobs = append(jobs, job{m, i, false}, job{m, i, true})
			}
		}
		results := make([][]res, len(jobs))
		var wg sync.WaitGroup
		next := make(chan int, len(jobs))
		for i := range jobs {
			next <- i
		}
		close(next)
		for w := 0; w < 6; w++ {
			wg.Add(1)
			go func() {
				defer wg.Done()
				for ji := range next {
					jb := jobs[ji]
					mid := fakes.NewCHConn(ddl.DBName)
					st1 := c18Start(mid, jb.m, &fakes.Fault{N: jb.i, Applied: jb.ap})
					pre := &c18Pre{conn: mid, n: 1, nfaulted: 1,
						ans: []string{fmt.Sprintf("%s/%d/%d", st1, mid.Calls, fnv64(mid.StateCanon()))}}
					n2 := c18CountCalls(mid, jb.m)
					for j := 0; j < n2; j++ {
						for _, ap2 := range []bool{false, true} {
							s := c18Sched{Mode: jb.m.Name}
							s.add(jb.i, jb.ap)
							s.add(j, ap2)
							results[ji] = append(results[ji], res{s, c18Exec(s, "d", pre)})
						}
					}
				}
			}()
		}
		wg.Wait()
		for ji, rs := range results {
			r.CountN("pairs:second-failure-points:"+jobs[ji].m.Name, len(rs))
			for _, x := range rs {
				if _, err := bt.record(r, x.s, "d", x.out); err != nil {
					return err
				}
			}
		}
		if err := bt.flush(r); err != nil {
			return err
		}
	}
	return nil
}

func truncateStr(s string, n int) string {
	if len(s) > n {
		return s[:n] + "…"
	}
	return s
}
