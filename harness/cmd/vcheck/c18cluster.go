package main

import (
	"encoding/json"
	"errors"
	"fmt"
	"strconv"
	"strings"
	"sync"

	"github.com/metrico/qryn/ctrl/maintenance"
	qmaint "github.com/metrico/qryn/ctrl/qryn/maintenance"

	"verif/harness/ddl"
	"verif/harness/fakes"
	"verif/harness/h"
)

// C18 on a CLUSTER: the real InitDBTry + Update over fakes.CHCluster (N catalogues, ON CLUSTER applied node by node,
// scripted partial application, a connection choice per start) vs the Lean model Qryn.Ctrl.MigrateCluster (`c18cluster`),
// under generated template parameters; plus an oracle that does not use the model.

type c18CStart struct {
	Conn  int                 `json:"conn"`
	Fault *fakes.ClusterFault `json:"fault,omitempty"`
}

type c18CSched struct {
	Kind   string      `json:"kind"` // "cluster"
	Mode   string      `json:"mode"`
	N      int         `json:"n"`
	Params ddl.Params  `json:"params"`
	Prefix []int       `json:"prefix,omitempty"`
	Starts []c18CStart `json:"starts"`
	Final  int         `json:"final"` // node the closing uninterrupted starts are connected to
}

func c18cSkip(p ddl.Params) bool { return p.DB == "" || p.DB == "default" }

// one start of the real code on the cluster, connected to node conn.
// InitDB itself dials its connection (maintenance.ConnectV2), so its body is replayed here statement by statement on the
// fake connection (the statements are pinned by the regenerated fact Gen.CtrlFlow.initDB / theorem initdb_shape; the
// stream `ctrl-init` runs the real ctrl.Init through a build overlay): skip for ""/default; InitDBTry, its error
// overwritten; SHOW CREATE DATABASE, its error returned (ctrl.Init panics on it); Next; Scan.
func c18cStartReal(cl *fakes.CHCluster, m ddl.Mode, p ddl.Params, conn int, f *fakes.ClusterFault) (status string, cc *fakes.ClusterConn) {
	cc = cl.Connect(conn, f)
	cluster, mode, cloud := c18ModeArgs(m)
	killed := false
	err := func() (err error) {
		defer func() {
			if r := recover(); r != nil {
				if r == fakes.ErrKilled {
					killed = true
					return
				}
				panic(r)
			}
		}()
		if !c18cSkip(p) {
			err = maintenance.InitDBTry(cc, cluster, p.DB, cloud, nullLogger{})
			rows, err := cc.Query(maintenance.MakeTimeout(), fmt.Sprintf("SHOW CREATE DATABASE `%s`", p.DB))
			if err != nil {
				return err
			}
			rows.Next()
			var create string
			err = rows.Scan(&create)
			if err != nil {
				return err
			}
		}
		return qmaint.Update(cc, p.DB, cluster, mode, p.TTLDays, p.Policy, p.Ordering, p.SkipUnav, nullLogger{})
	}()
	switch {
	case killed:
		return "died", cc
	case err == nil:
		return "done", cc
	case errors.Is(err, fakes.ErrInjected), errors.Is(err, fakes.ErrNoRoute):
		return "died", cc
	}
	var de *ddl.Err
	if errors.As(err, &de) {
		return "failed:" + de.Canon(), cc
	}
	return "failed:other:" + err.Error(), cc
}

func c18cNewCluster(p ddl.Params, n int) *fakes.CHCluster {
	return fakes.NewCHCluster(p.DB, n, c18cSkip(p))
}

// the parameter instance as the model wants it: text identity under the default parameters -> under p.
// Obtained from the statements the real code SENDS on a fresh server under both parameter sets.
var c18cBodyCache = map[string]string{}

func c18cBodies(m ddl.Mode, p ddl.Params) string {
	key := m.Name + fmt.Sprint(p)
	c18Mu.Lock()
	s, ok := c18cBodyCache[key]
	c18Mu.Unlock()
	if ok {
		return s
	}
	sent := func(q ddl.Params) []ddl.Stmt {
		cl := c18cNewCluster(q, 1)
		_, cc := c18cStartReal(cl, m, q, 0, nil)
		var res []ddl.Stmt
		for _, e := range cc.Log {
			if e.Kind != "exec" || strings.HasPrefix(e.Canon, "record:") {
				continue
			}
			st, err := ddl.Parse(e.SQL, q.DB)
			if err != nil {
				panic(fmt.Sprintf("c18cBodies: %v", err))
			}
			if st.Op == "create" {
				res = append(res, st)
			}
		}
		return res
	}
	a, b := sent(ddl.DefaultParams), sent(p)
	if len(a) != len(b) {
		panic(fmt.Sprintf("c18cBodies: %d statements under the default parameters, %d under %+v", len(a), len(b), p))
	}
	seen := map[uint32]uint32{}
	var pairs []string
	for i := range a {
		if a[i].Op != "create" || a[i].Body == b[i].Body {
			continue
		}
		if prev, ok := seen[a[i].Body]; ok {
			if prev != b[i].Body {
				panic("c18cBodies: one default text, two instance texts")
			}
			continue
		}
		seen[a[i].Body] = b[i].Body
		pairs = append(pairs, fmt.Sprintf("%d:%d", a[i].Body, b[i].Body))
	}
	s = "-"
	if len(pairs) > 0 {
		s = strings.Join(pairs, ",")
	}
	c18Mu.Lock()
	c18cBodyCache[key] = s
	c18Mu.Unlock()
	return s
}

func (s c18CSched) op(detail string) string {
	m := c18ModeByName(s.Mode)
	pre := "-"
	if s.Prefix != nil {
		var p []string
		for _, n := range s.Prefix {
			p = append(p, strconv.Itoa(n))
		}
		pre = strings.Join(p, ",")
	}
	var at []string
	for _, st := range s.Starts {
		f := "c"
		if st.Fault != nil {
			var sel []string
			for _, x := range st.Fault.Sel {
				sel = append(sel, strconv.Itoa(x))
			}
			k := "e"
			if st.Fault.Kill {
				k = "k"
			}
			f = fmt.Sprintf("%d%s:%s", st.Fault.N, k, strings.Join(sel, "+"))
		}
		at = append(at, fmt.Sprintf("%d/%s", st.Conn, f))
	}
	at = append(at, fmt.Sprintf("%d/c", s.Final), fmt.Sprintf("%d/c", s.Final))
	skip := "0"
	if c18cSkip(s.Params) {
		skip = "1"
	}
	return fmt.Sprintf("c18cluster %s %s %d %s %s %s %s", s.Mode, skip, s.N, c18cBodies(m, s.Params), pre, strings.Join(at, ","), detail)
}

// scripts of a stream as the oracle expects them under the parameters (own split + own instantiation)
func c18cExpected(st c18Stream, m ddl.Mode, p ddl.Params) []string {
	ck := [2]string{m.Name + fmt.Sprint(p), *st.v}
	c18Mu.Lock()
	defer c18Mu.Unlock()
	if x, ok := c18ExpCache[ck]; ok {
		return x
	}
	parts, err := ddl.Split(*st.v, ddl.PinnedRule)
	if err != nil {
		panic(err)
	}
	env := ddl.EnvForParams(m, p)
	for i := range parts {
		q, err := ddl.Render(parts[i], env)
		if err != nil {
			panic(err)
		}
		parts[i] = q
	}
	c18ExpCache[ck] = parts
	return parts
}

// a version row only right after the successful execution — on every node it was sent to — of exactly its own script
func c18cCheckLog(cc *fakes.ClusterConn, before map[uint64]uint64, m ddl.Mode, p ddl.Params) (string, bool) {
	cur := map[uint64]uint64{}
	for k, v := range before {
		cur[k] = v
	}
	for j, e := range cc.Log {
		if !strings.HasPrefix(e.Canon, "record:") {
			continue
		}
		applied := e.Err == "" || ((e.Err == "injected" || e.Err == "killed") && cc.Fault != nil && func() bool {
			for _, x := range cc.Fault.Sel {
				if x == cc.Node {
					return true
				}
			}
			return false
		}())
		if !applied {
			continue
		}
		var k, v uint64
		fmt.Sscanf(e.Canon, "record:%d:%d", &k, &v)
		var st *c18Stream
		for i := range c18Streams {
			if c18Streams[i].k == k {
				st = &c18Streams[i]
			}
		}
		if st == nil {
			return fmt.Sprintf("version row for unknown stream %d", k), false
		}
		exp := c18cExpected(*st, m, p)
		if v != cur[k]+1 {
			return fmt.Sprintf("stream %d (%s): version %d recorded while the version read was %d", k, st.file, v, cur[k]), false
		}
		if v < 1 || int(v) > len(exp) {
			return fmt.Sprintf("stream %d (%s): version %d recorded but the file has %d scripts", k, st.file, v, len(exp)), false
		}
		if j == 0 || cc.Log[j-1].Kind != "exec" || cc.Log[j-1].Err != "" || cc.Log[j-1].SQL != exp[v-1] {
			prev := "<nothing>"
			if j > 0 {
				prev = fmt.Sprintf("%.70q (err=%q)", cc.Log[j-1].SQL, cc.Log[j-1].Err)
			}
			return fmt.Sprintf("stream %d (%s): version %d recorded, but the call before it is not the successful execution of script #%d: %s", k, st.file, v, v, prev), false
		}
		cur[k] = v
	}
	return "", true
}

func c18cVersions(cl *fakes.CHCluster, m ddl.Mode, node int) map[uint64]uint64 {
	res := map[uint64]uint64{}
	for _, st := range c18Streams {
		if m.Cluster != "" {
			res[st.k] = cl.MaxVer(st.k)
		} else {
			res[st.k] = cl.MaxVerNode(node, st.k)
		}
	}
	return res
}

// the database an older release left: with a cluster one uninterrupted start connected to node 0; without, one per node
func c18cApplyPrefix(cl *fakes.CHCluster, m ddl.Mode, p ddl.Params, prefix []int) (statuses []string, ccs []*fakes.ClusterConn) {
	c18SetPrefix(prefix)
	defer c18SetPrefix(nil)
	st, cc := c18cStartReal(cl, m, p, 0, nil)
	return []string{st}, []*fakes.ClusterConn{cc}
}

type c18CRun struct {
	answer   string
	verbose  string
	viol     []h.Violation
	nstopped int
}

func c18cLocate(sqlText string, m ddl.Mode, p ddl.Params) string {
	for _, st := range c18Streams {
		for i, q := range c18cExpected(st, m, p) {
			if q == sqlText {
				return fmt.Sprintf("%s#%d", st.file, i+1)
			}
		}
	}
	return "bootstrap"
}

var c18cRefCache = map[string][]string{}

// catalogue of every node after ONE uninterrupted start (connected to node conn) from the schedule's starting cluster
func c18cReference(s c18CSched, conn int) []string {
	key := fmt.Sprint(s.Mode, s.N, s.Params, s.Prefix, conn)
	c18Mu.Lock()
	r, ok := c18cRefCache[key]
	c18Mu.Unlock()
	if ok {
		return r
	}
	m := c18ModeByName(s.Mode)
	cl := c18cNewCluster(s.Params, s.N)
	if s.Prefix != nil {
		c18cApplyPrefix(cl, m, s.Params, s.Prefix)
	}
	st, _ := c18cStartReal(cl, m, s.Params, conn, nil)
	r = append([]string{st}, cl.NodeCats()...)
	c18Mu.Lock()
	if len(c18cRefCache) < 20000 {
		c18cRefCache[key] = r
	}
	c18Mu.Unlock()
	return r
}

func c18cExec(s c18CSched, detail string) c18CRun {
	m := c18ModeByName(s.Mode)
	p := s.Params
	var out c18CRun
	var ans, verb []string
	rec := func(cl *fakes.CHCluster, status string, cc *fakes.ClusterConn) {
		st := cl.StateCanon()
		verb = append(verb, fmt.Sprintf("%s/%d/%s", status, cc.Calls, truncateStr(st, 160)))
		if detail == "d" {
			st = strconv.FormatUint(fnv64(st), 10)
		}
		ans = append(ans, fmt.Sprintf("%s/%d/%s", status, cc.Calls, st))
	}
	violate := func(key, what string) { out.viol = append(out.viol, h.Violation{Key: key, What: what, Replay: s}) }
	cl := c18cNewCluster(p, s.N)
	if s.Prefix != nil {
		c18SetPrefix(s.Prefix)
		before := c18cVersions(cl, m, 0)
		st, cc := c18cStartReal(cl, m, p, 0, nil)
		rec(cl, st, cc)
		if what, ok := c18cCheckLog(cc, before, m, p); !ok {
			violate("C18/version-recorded-without-its-script", "cluster: "+what)
		}
		c18SetPrefix(nil)
	}
	dist := m.Cluster != ""
	for _, sx := range s.Starts {
		var others []string
		if !dist {
			others = cl.NodeCats()
		}
		node := sx.Conn
		if node >= s.N {
			node = 0
		}
		before := c18cVersions(cl, m, node)
		st, cc := c18cStartReal(cl, m, p, sx.Conn, sx.Fault)
		rec(cl, st, cc)
		if st == "died" && sx.Fault != nil {
			out.nstopped++
		}
		if what, ok := c18cCheckLog(cc, before, m, p); !ok {
			violate("C18/version-recorded-without-its-script", "cluster: "+what)
		}
		if !dist {
			for i, c := range cl.NodeCats() {
				if i != sx.Conn && c != others[i] {
					violate("C18/local-start-touches-other-node", fmt.Sprintf("mode %s: a start connected to node %d changed node %d", s.Mode, sx.Conn, i))
				}
			}
		}
	}
	// one uninterrupted start, connected to s.Final, must now complete …
	before := c18cVersions(cl, m, s.Final)
	st, cc := c18cStartReal(cl, m, p, s.Final, nil)
	rec(cl, st, cc)
	if what, ok := c18cCheckLog(cc, before, m, p); !ok {
		violate("C18/version-recorded-without-its-script", "cluster: "+what)
	}
	finalOK := false
	if st != "done" {
		last := cc.Log[len(cc.Log)-1]
		loc := c18cLocate(last.SQL, m, p)
		violate("C18/cluster:"+loc, fmt.Sprintf("mode %s, %d nodes: after the starts %s an uninterrupted start connected to node %d does not complete: %s fails with %q: %.90q", s.Mode, s.N, c18cStartsStr(s.Starts), s.Final, loc, last.Err, last.SQL))
	} else {
		finalOK = true
		// … with, on EVERY node of a configured cluster (without one: on the node connected to), the catalogue the
		// connected node has after an uninterrupted start from the same starting cluster
		ref := c18cReference(s, s.Final)
		want := ref[1+s.Final]
		if ref[0] != "done" {
			violate("C18/cluster-uninterrupted-start-fails", fmt.Sprintf("mode %s, %d nodes: an uninterrupted start from the starting cluster ends %s", s.Mode, s.N, ref[0]))
		}
		for i, c := range cl.NodeCats() {
			if !dist && i != s.Final {
				continue
			}
			if c != want {
				key := "C18/cluster-node-differs"
				if len(s.Starts) == 0 {
					key = "C18/cluster-nodes-disagree" // no failure involved: the uninterrupted start itself leaves the nodes unlike
				}
				violate(key, fmt.Sprintf("mode %s, %d nodes, starts %s, then an uninterrupted start connected to node %d: node %d does not have the schema of the uninterrupted start: %s",
					s.Mode, s.N, c18cStartsStr(s.Starts), s.Final, i, c18Diff(want, c)))
				break
			}
		}
		vers := c18cVersions(cl, m, s.Final)
		for _, sd := range c18Streams {
			if sd.dist && !dist {
				continue
			}
			if n := len(c18cExpected(sd, m, p)); vers[sd.k] != uint64(n) {
				violate("C18/stream-not-at-last-script", fmt.Sprintf("cluster, mode %s: stream %d (%s) is at version %d of %d after a completed start", s.Mode, sd.k, sd.file, vers[sd.k], n))
			}
		}
	}
	// … and one more start executes no migration script and changes nothing
	pre := cl.StateCanon()
	st, cc = c18cStartReal(cl, m, p, s.Final, nil)
	rec(cl, st, cc)
	if finalOK {
		for _, e := range cc.Log {
			boot := strings.HasPrefix(e.Canon, "exec:create/table/ver/1/") || strings.HasPrefix(e.Canon, "exec:create/table/ver_dist/1/") || e.Canon == "exec:createDatabase/1"
			if e.Kind == "exec" && !boot {
				violate("C18/uptodate-runs-migration", fmt.Sprintf("cluster, mode %s: a start on an up-to-date cluster executes %.90q", s.Mode, e.SQL))
				break
			}
		}
		if st != "done" || cl.StateCanon() != pre {
			violate("C18/uptodate-changes-state", fmt.Sprintf("cluster, mode %s: a start on an up-to-date cluster ends %s and changes it", s.Mode, st))
		}
	}
	out.answer = strings.Join(ans, " ; ")
	out.verbose = strings.Join(verb, " ; ")
	return out
}

func c18cStartsStr(ss []c18CStart) string {
	var p []string
	for _, s := range ss {
		if s.Fault == nil {
			p = append(p, fmt.Sprintf("{conn %d}", s.Conn))
		} else {
			k := "error"
			if s.Fault.Kill {
				k = "kill"
			}
			p = append(p, fmt.Sprintf("{conn %d, call %d %s after nodes %v}", s.Conn, s.Fault.N, k, s.Fault.Sel))
		}
	}
	return "[" + strings.Join(p, " ") + "]"
}

type c18CBatch struct {
	stream string
	ops    []string
	impl   []string
	cases  []any
}

func (b *c18CBatch) flush(r *h.Result) error {
	if len(b.ops) == 0 {
		return nil
	}
	err := r.Compare(b.stream, b.ops, b.impl, b.cases)
	b.ops, b.impl, b.cases = nil, nil, nil
	return err
}

func (b *c18CBatch) record(r *h.Result, s c18CSched, detail string, out c18CRun) error {
	for _, v := range out.viol {
		r.Violate(v.Key, v.What, v.Replay)
	}
	b.ops = append(b.ops, s.op(detail))
	b.impl = append(b.impl, out.answer)
	b.cases = append(b.cases, s)
	key, _ := json.Marshal(s)
	r.Case(b.stream+":"+string(key), out.nstopped > 0)
	r.Count(b.stream)
	if len(b.ops) >= 1000 {
		return b.flush(r)
	}
	return nil
}

func (b *c18CBatch) run(r *h.Result, s c18CSched, detail string) (c18CRun, error) {
	out := c18cExec(s, detail)
	return out, b.record(r, s, detail, out)
}

func c18cCountCalls(cl *fakes.CHCluster, m ddl.Mode, p ddl.Params, conn int) int {
	c := cl.Clone()
	_, cc := c18cStartReal(c, m, p, conn, nil)
	return cc.Calls
}

func c18cSubsets(n int) [][]int {
	var res [][]int
	for mask := 0; mask < 1<<n; mask++ {
		var s []int
		for i := 0; i < n; i++ {
			if mask&(1<<i) != 0 {
				s = append(s, i)
			}
		}
		res = append(res, s)
	}
	return res
}

func c18cRandParams(rng *h.Rng) ddl.Params {
	p := ddl.Params{DB: ddl.DBName, TTLDays: 30}
	switch rng.Intn(6) {
	case 0:
		p.DB = "default"
	case 1:
		p.DB = "cloki_7"
	}
	p.TTLDays = h.Pick(rng, []int{30, 1, 7, 365, 2147483647, -5, 30})
	p.Policy = h.Pick(rng, []string{"", "", "tiered", "hot cold 2"})
	p.Ordering = h.Pick(rng, []string{"", "", "fingerprint, timestamp_ns", "timestamp_ns, fingerprint"})
	p.SkipUnav = rng.Chance(30)
	return p
}

func c18cRandFault(rng *h.Rng, ncalls, n int) *fakes.ClusterFault {
	fn := rng.Intn(ncalls)
	switch rng.Intn(10) {
	case 0:
		fn = ncalls + rng.Intn(3)
	case 1:
		fn = rng.Intn(6)
	case 2:
		fn = 0
	}
	return &fakes.ClusterFault{N: fn, Sel: h.Pick(rng, c18cSubsets(n)), Kill: rng.Chance(40)}
}

func c18Cluster(r *h.Result, rng *h.Rng, tier string) error {
	distModes := []ddl.Mode{}
	localModes := []ddl.Mode{}
	for _, m := range ddl.Modes {
		if m.Cluster != "" {
			distModes = append(distModes, m)
		} else {
			localModes = append(localModes, m)
		}
	}
	def := ddl.DefaultParams

	// ---- which statements carry ON CLUSTER: the text the real code sends vs the regenerated flags the model uses
	r.Stream("cluster-program: ON CLUSTER flag of every statement an uninterrupted start sends on a fresh cluster (parsed from the real text) vs Gen.Migrations.*_oc (`c18cprog`)")
	{
		var ops, impl []string
		var cases []any
		for _, m := range ddl.Modes {
			cl := c18cNewCluster(def, 2)
			stt, cc := c18cStartReal(cl, m, def, 0, nil)
			if stt != "done" {
				r.Count("cluster-program:start-did-not-complete") // reported by cluster-clean; only a prefix was sent
				continue
			}
			// group like c18cprog prints: createDb, then per updateScripts call boot + scripts
			var sb strings.Builder
			i := 0
			bit := func(b bool) string {
				if b {
					return "1"
				}
				return "0"
			}
			type ex struct {
				canon string
				oc    bool
			}
			var execs []ex
			for _, e := range cc.Log {
				if e.Kind == "exec" && !strings.HasPrefix(e.Canon, "record:") {
					execs = append(execs, ex{e.Canon, false})
				}
			}
			for j := range execs {
				execs[j].oc = cc.OcLog[j]
			}
			sb.WriteString("createDb:" + bit(execs[0].oc))
			i = 1
			for _, st := range c18Streams {
				if st.dist && m.Cluster == "" {
					continue
				}
				sb.WriteString(" boot:")
				for i < len(execs) && (strings.HasPrefix(execs[i].canon, "exec:create/table/ver/") || strings.HasPrefix(execs[i].canon, "exec:create/table/ver_dist/")) {
					sb.WriteString(bit(execs[i].oc))
					i++
				}
				sb.WriteString(fmt.Sprintf(" %d:", st.k))
				for n := len(c18cExpected(st, m, def)); n > 0 && i < len(execs); n-- {
					sb.WriteString(bit(execs[i].oc))
					i++
				}
			}
			ops = append(ops, "c18cprog "+m.Name)
			impl = append(impl, sb.String())
			cases = append(cases, map[string]string{"mode": m.Name})
			r.Case("cluster-program:"+m.Name, true)
			r.Count("cluster-program")
		}
		if err := r.Compare("cluster-program", ops, impl, cases); err != nil {
			return err
		}
	}

	// ---- no failure at all: after ONE uninterrupted start every node of a configured cluster has the same schema
	r.Stream("cluster-clean: uninterrupted starts only (any connection), N = 1..4 — every node of a configured cluster must end with the connected node's schema")
	bt := &c18CBatch{stream: "cluster-clean"}
	for _, m := range ddl.Modes {
		for n := 1; n <= 4; n++ {
			for conn := 0; conn < n; conn += 2 {
				s := c18CSched{Kind: "cluster", Mode: m.Name, N: n, Params: def, Final: conn}
				if _, err := bt.run(r, s, "f"); err != nil {
					return err
				}
			}
		}
	}
	if err := bt.flush(r); err != nil {
		return err
	}

	// ---- every failure point × every set of nodes × kill/error × connection choices
	exhaustive := tier != "quick"
	if exhaustive {
		r.Stream("cluster-single: modes with a cluster, N = 1, 2, 3: ALL failure points of a start on a fresh cluster × ALL sets of nodes the failing call still took effect on × {error; kill at the first calls} × connection of the failed start × connection of the closing start (another node, for N ≤ 2 also the same)")
	} else {
		r.Stream("cluster-single (sampled in quick, exhaustive in thorough): modes with a cluster, N = 1, 2, 3: failure points × sets of nodes × {error, kill} × connections")
	}
	bt = &c18CBatch{stream: "cluster-single"}
	type job struct {
		s c18CSched
	}
	var jobs []c18CSched
	for _, m := range distModes {
		for n := 1; n <= 3; n++ {
			ncalls := c18cCountCalls(c18cNewCluster(def, n), m, def, 0)
			r.CountN(fmt.Sprintf("cluster-failure-points:%s:N=%d", m.Name, n), ncalls*(1<<n))
			conns := []int{0}
			if n >= 2 {
				conns = []int{0, 1}
			}
			for _, c0 := range conns {
				finals := []int{(c0 + 1) % n}
				if n == 2 {
					finals = []int{(c0 + 1) % n, c0}
				}
				for _, fin := range finals {
					for i := 0; i < ncalls; i++ {
						for _, sel := range c18cSubsets(n) {
							kinds := []bool{false}
							if i < 4 {
								kinds = []bool{false, true}
							}
							for _, kill := range kinds {
								jobs = append(jobs, c18CSched{Kind: "cluster", Mode: m.Name, N: n, Params: def, Final: fin,
									Starts: []c18CStart{{Conn: c0, Fault: &fakes.ClusterFault{N: i, Sel: sel, Kill: kill}}}})
							}
						}
					}
				}
			}
		}
	}
	if !exhaustive {
		// every 11th job plus all those at the first 4 calls for N = 2
		var pick []c18CSched
		for i, j := range jobs {
			if i%11 == 0 || (j.N == 2 && j.Starts[0].Fault.N < 4 && j.Starts[0].Conn == 0 && j.Final == 1) {
				pick = append(pick, j)
			}
		}
		jobs = pick
	} else {
		r.Exhaustive = true
	}
	if err := c18cRunJobs(r, bt, jobs, "d"); err != nil {
		return err
	}

	// ---- random schedules, random parameter instances, older releases
	nmulti := 250
	if tier != "quick" {
		nmulti = 4000
	}
	r.Stream(fmt.Sprintf("cluster-multi: %d random schedules: any mode, N = 1..4, 1–5 starts each connected to a random node (sometimes to none) and stopped at a random call after a random set of nodes (or uninterrupted), random parameter instance (ttl days, storage policy, ordering, skip_unavailable_shards, database name incl. `default` = InitDB skipped), a third on a cluster an older release initialised", nmulti))
	bt = &c18CBatch{stream: "cluster-multi"}
	lens := make([]int, len(c18Streams))
	for i, st := range c18Streams {
		pp, _ := ddl.Split(c18Full[st.file], ddl.PinnedRule)
		lens[i] = len(pp)
	}
	jobs = nil
	for i := 0; i < nmulti; i++ {
		m := h.Pick(rng, ddl.Modes)
		n := rng.Range(1, 4)
		p := c18cRandParams(rng)
		s := c18CSched{Kind: "cluster", Mode: m.Name, N: n, Params: p}
		if rng.Intn(3) == 0 {
			s.Prefix = make([]int, len(lens))
			for j := range lens {
				switch rng.Intn(4) {
				case 0:
					s.Prefix[j] = lens[j]
				case 1:
					s.Prefix[j] = 0
				default:
					s.Prefix[j] = rng.Intn(lens[j] + 1)
				}
			}
		}
		sim := c18cNewCluster(p, n)
		if s.Prefix != nil {
			c18cApplyPrefix(sim, m, p, s.Prefix)
		}
		ns := rng.Range(1, 5)
		for j := 0; j < ns; j++ {
			conn := rng.Intn(n)
			if rng.Intn(25) == 0 {
				conn = n + rng.Intn(2) // nothing answers
			}
			var f *fakes.ClusterFault
			if !rng.Chance(15) {
				f = c18cRandFault(rng, c18cCountCalls(sim, m, p, conn%n)+1, n)
			}
			s.Starts = append(s.Starts, c18CStart{Conn: conn, Fault: f})
			c18cStartReal(sim, m, p, conn, f)
		}
		s.Final = rng.Intn(n)
		jobs = append(jobs, s)
		r.Count("cluster-multi:mode=" + m.Name)
		r.Count(fmt.Sprintf("cluster-multi:N=%d", n))
		if c18cSkip(p) {
			r.Count("cluster-multi:initdb-skipped")
		}
	}
	// schedules over older releases must run alone (the script variables are cut while the older release starts)
	if err := c18cRunJobs(r, bt, jobs, "d"); err != nil {
		return err
	}

	// ---- without a cluster: every node is a world of its own
	r.Stream("cluster-local: modes without a cluster, N = 2, 3: starts connected to different nodes; a start may only touch the node it is connected to (oracle), the node the closing start is connected to converges")
	bt = &c18CBatch{stream: "cluster-local"}
	jobs = nil
	nl := 60
	if tier != "quick" {
		nl = 600
	}
	for i := 0; i < nl; i++ {
		m := h.Pick(rng, localModes)
		n := rng.Range(2, 3)
		s := c18CSched{Kind: "cluster", Mode: m.Name, N: n, Params: def}
		sim := c18cNewCluster(def, n)
		for j := rng.Range(1, 4); j > 0; j-- {
			conn := rng.Intn(n)
			f := c18cRandFault(rng, c18cCountCalls(sim, m, def, conn)+1, n)
			s.Starts = append(s.Starts, c18CStart{Conn: conn, Fault: f})
			c18cStartReal(sim, m, def, conn, f)
		}
		s.Final = rng.Intn(n)
		jobs = append(jobs, s)
	}
	return c18cRunJobs(r, bt, jobs, "d")
}

// schedules without an older-release prefix run on 6 workers; the others one by one (they cut the script variables)
func c18cRunJobs(r *h.Result, bt *c18CBatch, jobs []c18CSched, detail string) error {
	results := make([]c18CRun, len(jobs))
	var par []int
	for i, j := range jobs {
		if j.Prefix != nil {
			results[i] = c18cExec(j, detail)
		} else {
			par = append(par, i)
		}
	}
	// warm the caches that are filled under c18Mu from a single goroutine first
	seen := map[string]bool{}
	for _, i := range par {
		k := jobs[i].Mode + fmt.Sprint(jobs[i].Params, jobs[i].N, jobs[i].Final)
		if !seen[k] {
			seen[k] = true
			c18cBodies(c18ModeByName(jobs[i].Mode), jobs[i].Params)
			c18cReference(jobs[i], jobs[i].Final)
		}
	}
	next := make(chan int, len(par))
	for _, i := range par {
		next <- i
	}
	close(next)
	var wg sync.WaitGroup
	for w := 0; w < 6; w++ {
		wg.Add(1)
		go func() {
			defer wg.Done()
			for i := range next {
				results[i] = c18cExec(jobs[i], detail)
			}
		}()
	}
	wg.Wait()
	for i, j := range jobs {
		if err := bt.record(r, j, detail, results[i]); err != nil {
			return err
		}
		if i%97 == 0 {
			r.Sample(map[string]any{"stream": bt.stream, "schedule": j, "impl": truncateStr(results[i].verbose, 400)})
		}
	}
	return bt.flush(r)
}
