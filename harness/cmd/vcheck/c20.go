package main

// C20 — with basic auth configured no route is reachable without the credentials.
//
// Streams (real code from /repo in-process vs the Lean model through the driver):
//   b64     encoding/base64 StdEncoding / Strict decoders and encoder vs Qryn.B64
//   auth    middleware.BasicAuthMiddleware on 14 header classes + near-miss/random headers vs authDecision/authMw
//   mw      AcceptEncodingMiddleware / CorsMiddleware / LoggingMiddleware chains around a handler that makes a
//           random sequence of ResponseWriter calls vs gzipMw/corsMw/loggingMw
//   table   the route table of the assembled router (mux.Walk) vs Gen.Routes.routes
//   router  a router assembled as main.go does (Use order from main.go; common routes, writer routes through
//           plugin.RegisterRoutes with a fake service registry, reader routes with a fake IDBRegistry), every
//           route × method × header class × Accept-Encoding × Origin, vs Router.serve over Gen.Routes.routes
//   binary  the real `main` built from the repository (MODE=reader), raw HTTP to every common+reader route
//   portenv, config   the configuration path (c20config.go): the real portEnv through a build overlay; the real binary
//           started once per configuration (config file × environment), incl. other MODEs and every listener it opens
// Oracle (no model involved): a request whose Authorization header is not "Basic " + a string that Go's
// StdEncoding decodes WITHOUT error to login:pass must get 401/400, must not reach a handler and must leave the
// back-end call log empty; one that is must reach a handler.

import (
	"bufio"
	"bytes"
	"compress/gzip"
	"context"
	"database/sql/driver"
	"encoding/base64"
	"encoding/json"
	"fmt"
	"io"
	"net"
	"net/http"
	"net/http/httptest"
	"os"
	"os/exec"
	gopath "path"
	"path/filepath"
	"regexp"
	"runtime/debug"
	"sort"
	"strings"
	"time"

	"github.com/gorilla/mux"
	clconfig "github.com/metrico/cloki-config"
	rconfig "github.com/metrico/qryn/reader/config"
	rmodel "github.com/metrico/qryn/reader/model"
	rrouter "github.com/metrico/qryn/reader/router"
	rlogger "github.com/metrico/qryn/reader/utils/logger"
	"github.com/metrico/qryn/reader/utils/middleware"
	"github.com/metrico/qryn/shared/commonroutes"
	"github.com/metrico/qryn/view"
	wconfig "github.com/metrico/qryn/writer/config"
	wcontroller "github.com/metrico/qryn/writer/controller"
	wmodel "github.com/metrico/qryn/writer/model"
	"github.com/metrico/qryn/writer/plugin"
	wlogger "github.com/metrico/qryn/writer/utils/logger"
	"github.com/metrico/qryn/writer/utils/numbercache"

	"verif/harness/fakes"
	"verif/harness/h"
)

func init() { props["C20"] = c20 }

func c20hexOpt(s *string) string {
	if s == nil {
		return "none"
	}
	return h.Hex([]byte(*s))
}

// hasCreds: the oracle's notion of "carries exactly those credentials"
func c20HasCreds(login, pass string, hdr *string) bool {
	if hdr == nil || !strings.HasPrefix(*hdr, "Basic ") {
		return false
	}
	dec, err := base64.StdEncoding.DecodeString((*hdr)[len("Basic "):])
	return err == nil && string(dec) == login+":"+pass
}

// ---------------------------------------------------------------- b64
func c20B64(r *h.Result, rng *h.Rng, n int) error {
	r.Stream("b64: encoding/base64 StdEncoding.DecodeString (bytes returned AND error), StdEncoding.Strict(), EncodeToString vs Qryn.B64")
	const alpha = "ABCDEFGHIJKLMNOPQRSTUVWXYZabcdefghijklmnopqrstuvwxyz0123456789+/"
	var ops, impl []string
	gen := func() []byte {
		switch rng.Intn(6) {
		case 0: // valid encoding of random bytes
			return []byte(base64.StdEncoding.EncodeToString(rng.Bytes(14)))
		case 1: // valid encoding, mutated
			b := []byte(base64.StdEncoding.EncodeToString(rng.Bytes(14)))
			for k := rng.Intn(3) + 1; k > 0 && len(b) > 0; k-- {
				i := rng.Intn(len(b))
				switch rng.Intn(5) {
				case 0:
					b[i] = "=\n\r !-_"[rng.Intn(7)]
				case 1:
					b = append(b[:i], b[i+1:]...)
				case 2:
					b = append(b[:i], append([]byte{"=\n\rA/"[rng.Intn(5)]}, b[i:]...)...)
				case 3:
					b[i] = alpha[rng.Intn(64)]
				case 4:
					b = append(b, "=\n\r!A"[rng.Intn(5)])
				}
			}
			return b
		case 2: // alphabet soup with padding and newlines
			m := rng.Intn(14)
			b := make([]byte, m)
			for i := range b {
				switch rng.Intn(10) {
				case 0:
					b[i] = '='
				case 1:
					b[i] = "\n\r"[rng.Intn(2)]
				default:
					b[i] = alpha[rng.Intn(64)]
				}
			}
			return b
		case 3:
			return rng.Bytes(10)
		case 4: // non-canonical trailing bits
			b := []byte(base64.StdEncoding.EncodeToString(rng.Bytes(3*rng.Intn(3) + 1 + rng.Intn(2))))
			for i := len(b) - 1; i >= 0; i-- {
				if b[i] != '=' {
					b[i] = alpha[rng.Intn(64)]
					break
				}
			}
			return b
		default:
			return []byte(base64.StdEncoding.EncodeToString(rng.Bytes(40)))
		}
	}
	fixed := []string{"", "=", "==", "A", "AA", "AAA", "AAAA", "QQ==", "QR==", "QQ=", "QQ=\n=", "QQ==\n", "QQ==x", "QUI=", "QUJ=", "QUI=QUI=", "\n", "\r\nQUJD\r\n", "QUJD!!!!", "QUJD=", "QUJD x", "QQ\n==", "Q\nQ=\r="}
	for i := 0; i < n; i++ {
		var s []byte
		if i < len(fixed) {
			s = []byte(fixed[i])
		} else {
			s = gen()
		}
		out, err := base64.StdEncoding.DecodeString(string(s))
		ops = append(ops, "c20b64 "+h.Hex(s))
		impl = append(impl, fmt.Sprintf("%s %s", h.Hex(out), c20b01(err != nil)))
		outS, errS := base64.StdEncoding.Strict().DecodeString(string(s))
		ops = append(ops, "c20b64s "+h.Hex(s))
		impl = append(impl, fmt.Sprintf("%s %s", h.Hex(outS), c20b01(errS != nil)))
		raw := rng.Bytes(10)
		ops = append(ops, "c20enc "+h.Hex(raw))
		impl = append(impl, h.Hex([]byte(base64.StdEncoding.EncodeToString(raw))))
		r.Case("b64:"+h.Hex(s), err != nil && len(out) > 0)
		switch {
		case err == nil:
			r.Count("b64:ok")
		case len(out) > 0:
			r.Count("b64:error-with-partial-result")
		default:
			r.Count("b64:error-empty")
		}
	}
	return r.Compare("b64", ops, impl, nil)
}

func c20b01(b bool) string {
	if b {
		return "1"
	}
	return "0"
}

// ---------------------------------------------------------------- header classes
type c20Hdr struct {
	class string
	val   *string
}

func sp(s string) *string { return &s }

func c20Classes(login, pass string) []c20Hdr {
	b := func(s string) string { return base64.StdEncoding.EncodeToString([]byte(s)) }
	good := b(login + ":" + pass)
	short := pass
	if len(short) > 0 {
		short = short[:len(short)-1]
	}
	return []c20Hdr{
		{"none", nil},
		{"empty", sp("")},
		{"wrong-scheme", sp("Bearer " + good)},
		{"lowercase-scheme", sp("basic " + good)},
		{"no-space", sp("Basic" + good)},
		{"good", sp("Basic " + good)},
		{"good+garbage", sp("Basic " + good + "!!!!")},
		{"good+padding", sp("Basic " + good + "=")},
		{"wrong-user", sp("Basic " + b(login+"x:"+pass))},
		{"wrong-pass", sp("Basic " + b(login+":"+pass+"x"))},
		{"prefix-of-pass", sp("Basic " + b(login+":"+short))},
		{"extra-colon", sp("Basic " + b(login+":"+pass+":"))},
		{"non-base64", sp("Basic \xff\xfe%%%\x00")},
		{"very-long", sp("Basic " + b(login+":"+pass+strings.Repeat("x", 20000)))},
	}
}

// further classes used by the auth stream only
func c20ExtraClasses(login, pass string) []c20Hdr {
	b := func(s string) string { return base64.StdEncoding.EncodeToString([]byte(s)) }
	good := b(login + ":" + pass)
	return []c20Hdr{
		{"good+space-junk", sp("Basic " + good + " x")},
		{"good+newline", sp("Basic " + good + "\n")},
		{"good-with-inner-crlf", sp("Basic " + good[:2] + "\r\n" + good[2:])},
		{"two-spaces", sp("Basic  " + good)},
		{"tab-separator", sp("Basic\t" + good)},
		{"scheme-only", sp("Basic ")},
		{"scheme-no-space", sp("Basic")},
		{"leading-space", sp(" Basic " + good)},
		{"upper-scheme", sp("BASIC " + good)},
		{"no-colon", sp("Basic " + b(login+pass))},
		{"empty-payload-colon", sp("Basic " + b(":"))},
		{"user-only", sp("Basic " + b(login+":"))},
		{"pass-only", sp("Basic " + b(":"+pass))},
		{"swapped", sp("Basic " + b(pass+":"+login))},
		{"good+valid-quantum", sp("Basic " + good + "QUJD")},
		{"good-truncated", sp("Basic " + good[:len(good)-1])},
		{"good+garbage-long", sp("Basic " + good + strings.Repeat("!", 5000))},
		{"double-encoded", sp("Basic " + b(good))},
		{"url-alphabet", sp("Basic " + base64.URLEncoding.EncodeToString([]byte(login+":"+pass)))},
		{"raw-unpadded", sp("Basic " + base64.RawStdEncoding.EncodeToString([]byte(login+":"+pass)))},
	}
}

func c20Mutate(rng *h.Rng, login, pass string) string {
	const alpha = "ABCDEFGHIJKLMNOPQRSTUVWXYZabcdefghijklmnopqrstuvwxyz0123456789+/"
	b := func(s string) string { return base64.StdEncoding.EncodeToString([]byte(s)) }
	switch rng.Intn(8) {
	case 0, 1: // near-miss credentials, correctly encoded
		u, p := []byte(login), []byte(pass)
		t := &u
		if rng.Bool() {
			t = &p
		}
		switch rng.Intn(5) {
		case 0:
			if len(*t) > 0 {
				*t = (*t)[:len(*t)-1]
			}
		case 1:
			*t = append(*t, byte('a'+rng.Intn(26)))
		case 2:
			if len(*t) > 0 {
				(*t)[rng.Intn(len(*t))] ^= byte(1 << rng.Intn(8))
			}
		case 3:
			*t = append([]byte{':'}, *t...)
		case 4:
			if len(*t) > 0 {
				i := rng.Intn(len(*t))
				*t = append((*t)[:i], (*t)[i+1:]...)
			}
		}
		return "Basic " + b(string(u)+":"+string(p))
	case 2, 3, 4: // the right header with a few byte edits
		s := []byte("Basic " + b(login+":"+pass))
		for k := rng.Intn(3) + 1; k > 0 && len(s) > 0; k-- {
			i := rng.Intn(len(s))
			switch rng.Intn(6) {
			case 0:
				s[i] = alpha[rng.Intn(64)]
			case 1:
				s = append(s[:i], s[i+1:]...)
			case 2:
				s = append(s[:i], append([]byte{"= \n\r!:A"[rng.Intn(7)]}, s[i:]...)...)
			case 3:
				s = append(s, "=!\n x"[rng.Intn(5)])
			case 4:
				s[i] ^= 0x20
			case 5:
				s = s[:i]
			}
		}
		return string(s)
	case 5: // random payload bytes under the right scheme
		return "Basic " + string(rng.Bytes(16))
	case 6: // arbitrary bytes
		return string(rng.Bytes(24))
	default: // valid base64 of random user:pass
		return "Basic " + b(rng.Ident(5)+":"+rng.Ident(5))
	}
}

var c20Configs = [][2]string{{"user", "pass"}, {"admin", "s3cr3t!"}, {"u", "p:q"}, {"a", ""}, {"qryn", "\x00\xffweird pass "}}

func c20RunAuth(login, pass string, hdr *string) (status int, www bool, reached bool, body []byte) {
	hd := middleware.BasicAuthMiddleware(login, pass)(http.HandlerFunc(func(w http.ResponseWriter, r *http.Request) {
		reached = true
		w.WriteHeader(200)
		w.Write([]byte("ok"))
	}))
	rq := httptest.NewRequest("GET", "/", nil)
	if hdr != nil {
		rq.Header["Authorization"] = []string{*hdr}
	}
	rec := httptest.NewRecorder()
	hd.ServeHTTP(rec, rq)
	res := rec.Result()
	return res.StatusCode, res.Header.Get("WWW-Authenticate") != "", reached, rec.Body.Bytes()
}

func c20AuthCase(r *h.Result, login, pass string, hd c20Hdr, ops, impl *[]string, cases *[]any) {
	status, www, reached, body := c20RunAuth(login, pass, hd.val)
	*ops = append(*ops, fmt.Sprintf("c20auth %s %s %s", h.Hex([]byte(login)), h.Hex([]byte(pass)), c20hexOpt(hd.val)))
	*impl = append(*impl, fmt.Sprintf("%d www=%s reached=%s body=%s", status, c20b01(www), c20b01(reached), h.Hex(body)))
	rep := map[string]any{"stream": "auth", "login_hex": h.Hex([]byte(login)), "pass_hex": h.Hex([]byte(pass)), "header_hex": c20hexOpt(hd.val), "class": hd.class,
		"status": status, "handler_reached": reached}
	*cases = append(*cases, rep)
	creds := c20HasCreds(login, pass, hd.val)
	r.Case("auth:"+login+":"+c20hexOpt(hd.val), hd.val != nil && strings.HasPrefix(*hd.val, "Basic "))
	r.Count(fmt.Sprintf("auth:%d", status))
	if !creds && (reached || (status != 401 && status != 400)) {
		r.Violate("C20/auth-accepts-without-credentials", fmt.Sprintf("BasicAuthMiddleware(%q,%q) let Authorization %q through (status %d, handler reached=%v) although it does not decode, error-free, to the credentials",
			login, pass, deref(hd.val), status, reached), rep)
	}
	if creds && !reached {
		r.Violate("C20/auth-rejects-right-credentials", fmt.Sprintf("BasicAuthMiddleware(%q,%q) answered %d to Authorization %q which carries exactly the credentials", login, pass, status, deref(hd.val)), rep)
	}
}

func deref(s *string) string {
	if s == nil {
		return "<absent>"
	}
	if len(*s) > 120 {
		return (*s)[:120] + "…"
	}
	return *s
}

func c20Auth(r *h.Result, rng *h.Rng, nRandom int) error {
	r.Stream("auth: middleware.BasicAuthMiddleware on 14+20 header classes × 5 configurations and near-miss/random headers vs Http.authMw (status, WWW-Authenticate, handler reached, body)")
	var ops, impl []string
	var cases []any
	// the corpus first: witnesses of earlier findings (A34)
	if raw, err := os.ReadFile("../replays/corpus/C20-headers.json"); err == nil {
		var items []map[string]string
		if json.Unmarshal(raw, &items) == nil {
			for _, it := range items {
				hv := string(h.UnHex(it["header_hex"]))
				c20AuthCase(r, string(h.UnHex(it["login_hex"])), string(h.UnHex(it["pass_hex"])), c20Hdr{"corpus", &hv}, &ops, &impl, &cases)
				r.Count("auth-class:corpus")
			}
		}
	}
	for _, cfg := range c20Configs {
		for _, hd := range append(c20Classes(cfg[0], cfg[1]), c20ExtraClasses(cfg[0], cfg[1])...) {
			c20AuthCase(r, cfg[0], cfg[1], hd, &ops, &impl, &cases)
			r.Count("auth-class:" + hd.class)
		}
	}
	for i := 0; i < nRandom; i++ {
		cfg := c20Configs[rng.Intn(len(c20Configs))]
		s := c20Mutate(rng, cfg[0], cfg[1])
		c20AuthCase(r, cfg[0], cfg[1], c20Hdr{"random", &s}, &ops, &impl, &cases)
	}
	for _, c := range cases {
		if m, ok := c.(map[string]any); ok && (m["class"] == "good+garbage" || m["class"] == "good") && len(r.Samples) < 2 {
			r.Sample(c)
		}
	}
	return r.Compare("auth", ops, impl, cases)
}

// ---------------------------------------------------------------- wrappers
type c20Op struct {
	kind byte // h w s d
	code int
	data []byte
}

func (o c20Op) String() string {
	switch o.kind {
	case 'h':
		return fmt.Sprintf("h%d", o.code)
	case 'w':
		return "w" + h.Hex(o.data)
	}
	return string(o.kind)
}

func c20Handler(ops []c20Op, reached *bool) http.Handler {
	return http.HandlerFunc(func(w http.ResponseWriter, r *http.Request) {
		*reached = true
		for _, o := range ops {
			switch o.kind {
			case 'h':
				w.WriteHeader(o.code)
			case 'w':
				w.Write(o.data)
			case 's':
				w.Header().Set("X-Test", "1")
			case 'd':
				w.Header().Del("X-Test")
			}
		}
	})
}

func c20CanonBody(res *http.Response, body []byte) string {
	if res.Header.Get("Content-Encoding") == "gzip" && len(body) >= 2 && body[0] == 0x1f && body[1] == 0x8b {
		zr, err := gzip.NewReader(bytes.NewReader(body))
		if err == nil {
			if dec, err := io.ReadAll(zr); err == nil {
				return h.Hex(append([]byte{0x1f, 0x8b}, dec...))
			}
		}
		return "1f8b" // bare header / truncated stream
	}
	return h.Hex(body)
}

func orDash(s string) string {
	if s == "" {
		return "-"
	}
	return s
}

func c20Mw(r *h.Result, rng *h.Rng, n int) error {
	r.Stream("mw: AcceptEncodingMiddleware / CorsMiddleware / LoggingMiddleware in random order around a handler making random WriteHeader/Write/Header calls vs gzipMw/corsMw/loggingMw (status, Content-Encoding, Content-Length presence, CORS origin, body)")
	codes := []int{200, 200, 201, 204, 301, 400, 401, 404, 500}
	aes := []string{"", "gzip", "gzip, deflate", "deflate", "br;q=1, gzip;q=0.5", "GZIP", "xgzipx"}
	var ops, impl []string
	var cases []any
	for i := 0; i < n; i++ {
		var hops []c20Op
		for k := rng.Intn(6); k > 0; k-- {
			switch rng.Intn(5) {
			case 0, 1:
				hops = append(hops, c20Op{kind: 'h', code: codes[rng.Intn(len(codes))]})
			case 2, 3:
				var d []byte
				if !rng.Chance(20) {
					d = []byte(rng.Ident(6))
				}
				hops = append(hops, c20Op{kind: 'w', data: d})
			default:
				hops = append(hops, c20Op{kind: "sd"[rng.Intn(2)]})
			}
		}
		mws := ""
		for _, c := range []byte("gcl") {
			if rng.Chance(70) {
				if c == 'c' && rng.Bool() {
					c = 'o'
				}
				mws += string(c)
			}
		}
		if rng.Bool() && len(mws) > 1 { // some other order
			b := []byte(mws)
			j := rng.Intn(len(b) - 1)
			b[j], b[j+1] = b[j+1], b[j]
			mws = string(b)
		}
		ae := aes[rng.Intn(len(aes))]
		reached := false
		var hd http.Handler = c20Handler(hops, &reached)
		for j := len(mws) - 1; j >= 0; j-- {
			switch mws[j] {
			case 'g':
				hd = middleware.AcceptEncodingMiddleware(hd)
			case 'c':
				hd = middleware.CorsMiddleware("")(hd)
			case 'o':
				hd = middleware.CorsMiddleware("https://x.example")(hd)
			case 'l':
				hd = middleware.LoggingMiddleware("[{{.status}}] {{.method}} {{.url}} - LAT:{{.latency}}")(hd)
			}
		}
		method := []string{"GET", "POST", "OPTIONS", "HEAD", "PUT"}[rng.Intn(5)]
		rq := httptest.NewRequest(method, "/", nil)
		if ae != "" {
			rq.Header.Set("Accept-Encoding", ae)
		}
		if rng.Bool() {
			rq.Header.Set("Origin", "https://grafana.example")
			if method == "OPTIONS" {
				rq.Header.Set("Access-Control-Request-Method", "POST")
			}
		}
		rec := httptest.NewRecorder()
		hd.ServeHTTP(rec, rq)
		res := rec.Result()
		_, hasCL := res.Header["Content-Length"]
		var strs []string
		for _, o := range hops {
			strs = append(strs, o.String())
		}
		opstr := strings.Join(strs, ",")
		if opstr == "" {
			opstr = "-"
		}
		ops = append(ops, fmt.Sprintf("c20mw %s %s %s", orDash(mws), h.Hex([]byte(ae)), opstr))
		impl = append(impl, fmt.Sprintf("%d ce=%s cl=%s cors=%s x=%s body=%s reached=%s", res.StatusCode, orDash(res.Header.Get("Content-Encoding")), c20b01(hasCL),
			orDash(res.Header.Get("Access-Control-Allow-Origin")), orDash(res.Header.Get("X-Test")), c20CanonBody(res, rec.Body.Bytes()), c20b01(reached)))
		// oracle: the wrappers never change the status the handler chose
		plain := httptest.NewRecorder()
		dummy := false
		c20Handler(hops, &dummy).ServeHTTP(plain, httptest.NewRequest("GET", "/", nil))
		rep := map[string]any{"stream": "mw", "method": method, "origin_set": rq.Header.Get("Origin") != "", "wrappers": mws, "accept_encoding": ae, "handler_calls": opstr, "status": res.StatusCode, "status_without_wrappers": plain.Result().StatusCode}
		cases = append(cases, rep)
		if plain.Result().StatusCode != res.StatusCode || !reached {
			r.Violate("C20/wrapper-changes-status", fmt.Sprintf("wrappers %q (%s, Accept-Encoding %q) turned the handler's status %d into %d or did not run it (handler calls %s)", mws, method, ae, plain.Result().StatusCode, res.StatusCode, opstr), rep)
		}
		gz := strings.Contains(ae, "gzip") && strings.Contains(mws, "g")
		r.Case("mw:"+mws+":"+ae+":"+opstr, gz && len(hops) > 0)
		r.Count(fmt.Sprintf("mw:gzip-active=%v:status-class=%dxx", gz, res.StatusCode/100))
	}
	return r.Compare("mw", ops, impl, cases)
}

// ---------------------------------------------------------------- router
type c20Router struct {
	app    *mux.Router
	log    *fakes.CallLog
	routes []c20Route
}
type c20Route struct {
	tpl     string
	methods []string
	prefix  bool
}

var c20LokiBody = `{"streams":[{"stream":{"a":"b"},"values":[["1700000000000000000","x"]]}]}`

func c20Setup() {
	rlogger.Logger.SetOutput(io.Discard)
	wlogger.Logger.SetOutput(io.Discard)
	if rconfig.Cloki == nil {
		cfg := clconfig.New(clconfig.CLOKI_READER, nil, "", "")
		rconfig.Cloki = cfg
		wconfig.Cloki = clconfig.New(clconfig.CLOKI_WRITER, nil, "", "")
	}
}

var c20VarRe = regexp.MustCompile(`\{[^}]*\}`)

// assemble mirrors main.go's main(): the Use order, then common, writer, reader (and view) registrations on ONE router.
// cfg letters: a = credentials configured, c = CORS enabled, v = add routes of the shape the `view` build adds.
func c20Assemble(cfg string, login, pass string) (*c20Router, error) {
	c20Setup()
	log := &fakes.CallLog{}
	app := mux.NewRouter()
	if strings.Contains(cfg, "a") {
		app.Use(middleware.BasicAuthMiddleware(login, pass))
	}
	app.Use(middleware.AcceptEncodingMiddleware)
	if strings.Contains(cfg, "c") {
		app.Use(middleware.CorsMiddleware(""))
	}
	app.Use(middleware.LoggingMiddleware("[{{.status}}] {{.method}} {{.url}} - LAT:{{.latency}}"))
	commonroutes.RegisterCommonRoutes(app)
	// writer.Init without the ClickHouse connections: the registry is a fake, the routes come from the real
	// plugin.RegisterRoutes → performV1APIRouting → writer/router/*.go
	wcontroller.Registry = &fakes.ServiceRegistry{Log: log}
	wcontroller.FPCache = numbercache.NewCache[uint64](time.Hour, func(v uint64) []byte {
		return []byte(fmt.Sprintf("%016x", v))
	}, map[string]*wmodel.DataDatabasesMap{"fake": {}})
	pro := wcontroller.NewMiddlewareConfig(wcontroller.WithExtraMiddlewareDefault...)
	tempo := wcontroller.NewMiddlewareConfig(wcontroller.WithExtraMiddlewareTempo...)
	if !strings.Contains(cfg, "r") { // 'r' = MODE=reader: main() skips writer.Init
		(&plugin.QrynWriterPlugin{}).RegisterRoutes(*wconfig.Cloki.Setting, pro, tempo, app)
	}
	// reader.Init → performV1APIRouting with a fake registry instead of dbRegistry.Registry (same calls, same order)
	var reg rmodel.IDBRegistry = fakes.NewDBRegistry(log, func(q string) ([]string, [][]driver.Value, error) { return nil, nil, nil })
	rrouter.RouteQueryRangeApis(app, reg)
	rrouter.RouteSelectLabels(app, reg)
	rrouter.RouteSelectPrometheusLabels(app, reg)
	rrouter.RoutePrometheusQueryRange(app, reg, rconfig.Cloki.Setting.SYSTEM_SETTINGS.QueryStats)
	rrouter.RouteTempo(app, reg)
	rrouter.RouteMiscApis(app)
	rrouter.RouteProf(app, reg)
	rrouter.PluggableRoutes(app, reg)
	view.Init(rconfig.Cloki, app) // a no-op unless built with the `view` tag
	if strings.Contains(cfg, "v") {
		for _, p := range []string{"/v/", "/v/plugins", "/v/users", "/v/datasources", "/v/datasources/{ds}"} {
			app.HandleFunc(p, func(w http.ResponseWriter, r *http.Request) { w.Write([]byte("<html>")) })
		}
		app.PathPrefix("/").Handler(http.HandlerFunc(func(w http.ResponseWriter, r *http.Request) { w.Write([]byte("static")) }))
	}
	res := &c20Router{app: app, log: log}
	idx := 0
	err := app.Walk(func(route *mux.Route, router *mux.Router, ancestors []*mux.Route) error {
		if router != app || len(ancestors) != 0 {
			return fmt.Errorf("route on a sub-router")
		}
		tpl, err := route.GetPathTemplate()
		if err != nil {
			return err
		}
		ms, _ := route.GetMethods()
		inner := route.GetHandler()
		if inner == nil {
			return fmt.Errorf("route %s has no handler", tpl)
		}
		i := idx
		route.Handler(http.HandlerFunc(func(w http.ResponseWriter, r *http.Request) {
			log.Add(fmt.Sprintf("handler:%d", i))
			inner.ServeHTTP(w, r)
		}))
		rx, _ := route.GetPathRegexp()
		res.routes = append(res.routes, c20Route{tpl: tpl, methods: ms, prefix: !strings.HasSuffix(rx, "$")})
		idx++
		return nil
	})
	return res, err
}

// registered: some route's path pattern (mux: `{var}` = [^/]+, PathPrefix = prefix) matches and lists the method
func (rt *c20Router) registered(method, path string) bool {
	if cp := gopath.Clean(path); cp != path && !(strings.HasSuffix(path, "/") && cp+"/" == path) {
		return false // mux answers an unclean path with 301 before matching
	}
	for _, y := range rt.routes {
		rx := "^"
		rest := y.tpl
		for rest != "" {
			k := strings.IndexByte(rest, '{')
			if k < 0 {
				rx += regexp.QuoteMeta(rest)
				break
			}
			rx += regexp.QuoteMeta(rest[:k]) + "[^/]+"
			rest = rest[k+strings.IndexByte(rest[k:], '}')+1:]
		}
		if !y.prefix {
			rx += "$"
		}
		if !regexp.MustCompile(rx).MatchString(path) {
			continue
		}
		if len(y.methods) == 0 {
			return true
		}
		for _, m := range y.methods {
			if m == method {
				return true
			}
		}
	}
	return false
}

type c20Req struct {
	Cfg     string   `json:"cfg"`
	Login   string   `json:"login"`
	Pass    string   `json:"pass"`
	Method  string   `json:"method"`
	Path    string   `json:"path"`
	Hdr     *string  `json:"authorization"`
	Class   string   `json:"class"`
	AE      string   `json:"accept_encoding"`
	Origin  *string  `json:"origin"`
	Stream  string   `json:"stream"`
	Status  int      `json:"status"`
	Reached int      `json:"handler_reached"`
	Log     []string `json:"call_log"`
}

// serve runs one request; returns status, marker index (-1), call log, response headers
func (rt *c20Router) serve(q *c20Req) (int, int, []string, http.Header, string) {
	var body io.Reader
	if q.Method == "POST" || q.Method == "PUT" {
		body = strings.NewReader(c20LokiBody)
	}
	rq := httptest.NewRequest(q.Method, q.Path, body)
	if body != nil {
		rq.Header.Set("Content-Type", "application/json")
	}
	if q.Hdr != nil {
		rq.Header["Authorization"] = []string{*q.Hdr}
	}
	if q.AE != "" {
		rq.Header.Set("Accept-Encoding", q.AE)
	}
	if q.Origin != nil {
		rq.Header.Set("Origin", *q.Origin)
	}
	ctx, cancel := context.WithTimeout(context.Background(), 3*time.Second)
	defer cancel()
	rq = rq.WithContext(ctx)
	rec := httptest.NewRecorder()
	done := make(chan string, 1)
	go func() {
		defer func() {
			if e := recover(); e != nil {
				if os.Getenv("C20_DEBUG") == "2" {
					fmt.Fprintf(os.Stderr, "PANIC %v\n%s\n", e, debug.Stack())
				}
				done <- fmt.Sprintf("panic: %v", e)
				return
			}
			done <- ""
		}()
		rt.app.ServeHTTP(rec, rq)
	}()
	note := ""
	select {
	case note = <-done:
	case <-time.After(6 * time.Second):
		note = "hang"
	}
	calls := rt.log.Take()
	marker := -1
	for _, c := range calls {
		if strings.HasPrefix(c, "handler:") && marker < 0 {
			fmt.Sscanf(c, "handler:%d", &marker)
		}
	}
	if note == "hang" {
		return 0, marker, calls, http.Header{}, note
	}
	res := rec.Result()
	return res.StatusCode, marker, calls, res.Header, note
}

func (q *c20Req) op() string {
	return fmt.Sprintf("c20serve %s %s %s %s %s %s %s %s", orDash(q.Cfg), h.Hex([]byte(q.Login)), h.Hex([]byte(q.Pass)), q.Method, h.Hex([]byte(q.Path)), c20hexOpt(q.Hdr), h.Hex([]byte(q.AE)), c20hexOpt(q.Origin))
}

func c20Answer(status, marker int, hd http.Header) string {
	if marker >= 0 {
		return fmt.Sprintf("reached %d cors=%s", marker, c20b01(hd.Get("Access-Control-Allow-Origin") != ""))
	}
	return fmt.Sprintf("%d ce=%s cors=%s www=%s", status, c20b01(hd.Get("Content-Encoding") != ""), c20b01(hd.Get("Access-Control-Allow-Origin") != ""), c20b01(hd.Get("WWW-Authenticate") != ""))
}

// judge: the oracle on one served request. registered = the request targets a registered route and method.
func c20Judge(r *h.Result, q *c20Req, registered bool, status, marker int, calls []string, note string) {
	q.Status, q.Reached, q.Log = status, marker, calls
	if len(q.Log) > 8 {
		q.Log = q.Log[:8]
	}
	authOn := strings.Contains(q.Cfg, "a")
	creds := !authOn || c20HasCreds(q.Login, q.Pass, q.Hdr)
	if !creds {
		if marker >= 0 || len(calls) > 0 {
			r.Violate("C20/handler-or-backend-reached-without-credentials", fmt.Sprintf("%s %s with Authorization %q (class %s, Accept-Encoding %q) reached %v without the credentials (status %d)", q.Method, q.Path, deref(q.Hdr), q.Class, q.AE, calls, status), q)
		} else if registered && status != 401 && status != 400 {
			r.Violate("C20/registered-route-not-401-400", fmt.Sprintf("%s %s with Authorization %q (class %s) answered %d, not 401/400", q.Method, q.Path, deref(q.Hdr), q.Class, status), q)
		} else if !registered && status != 401 && status != 400 && status != 404 && status != 405 && status != 301 {
			r.Violate("C20/unregistered-target-unexpected-status", fmt.Sprintf("%s %s answered %d without credentials", q.Method, q.Path, status), q)
		}
	} else if registered && marker < 0 {
		r.Violate("C20/right-credentials-not-let-through", fmt.Sprintf("%s %s with the right credentials did not reach a handler (status %d %s)", q.Method, q.Path, status, note), q)
	}
}

func c20Router_(r *h.Result, rng *h.Rng, tier string) error {
	// some handlers print their SQL with fmt.Println
	if devnull, err := os.OpenFile(os.DevNull, os.O_WRONLY, 0); err == nil {
		saved := os.Stdout
		os.Stdout = devnull
		defer func() { os.Stdout = saved; devnull.Close() }()
	}
	r.Stream("table: mux.Walk over the router assembled like main.go (template, methods, order) vs Gen.Routes.routes")
	r.Stream("router: every route × registered method × 14 header classes × Accept-Encoding {none,gzip} × Origin {none,set} on the router assembled like main.go with fake back ends (handler marker + back-end call log), plus unregistered methods/paths and the view-shaped variant, vs Router.serve")
	login, pass := "user", "pass"
	origin := "https://grafana.example"
	type planned struct {
		q          *c20Req
		registered bool
	}
	for _, cfg := range []string{"ac", "a", "acv", "c"} {
		rt, err := c20Assemble(cfg, login, pass)
		if err != nil {
			return err
		}
		if cfg == "ac" {
			// table: the walked routes are exactly Gen.Routes.routes
			ops := []string{"c20routes"}
			var parts []string
			for _, x := range rt.routes {
				ms := append([]string{}, x.methods...)
				parts = append(parts, fmt.Sprintf("%s|%s|%s", x.tpl, strings.Join(ms, ","), c20b01(x.prefix)))
			}
			if err := r.Compare("table", ops, []string{strings.Join(parts, ";")}, nil); err != nil {
				return err
			}
			r.Case("table", true)
			r.CountN("table:routes", len(rt.routes))
		}
		var plan []planned
		classes := c20Classes(login, pass)
		if cfg != "ac" { // the other variants: a representative subset of classes
			classes = []c20Hdr{classes[0], classes[3], classes[5], classes[6], classes[9], classes[12]}
		}
		aes := []string{"", "gzip"}
		origins := []*string{nil, &origin}
		seen := map[string]bool{}
		for _, x := range rt.routes {
			path := c20VarRe.ReplaceAllString(x.tpl, "x1")
			ms := x.methods
			if len(ms) == 0 {
				ms = []string{"GET", "POST"}
			}
			for _, m := range ms {
				for _, hd := range classes {
					for _, ae := range aes {
						for _, o := range origins {
							plan = append(plan, planned{&c20Req{Stream: "router", Cfg: cfg, Login: login, Pass: pass, Method: m, Path: path, Hdr: hd.val, Class: hd.class, AE: ae, Origin: o}, true})
						}
					}
				}
			}
			if seen[path] {
				continue
			}
			seen[path] = true
			// methods the route does not register, and a path next to it
			for _, m := range []string{"GET", "POST", "PUT", "DELETE", "OPTIONS", "HEAD", "PATCH"} {
				reg := rt.registered(m, path)
				if reg && len(x.methods) > 0 {
					continue
				}
				for _, hd := range []c20Hdr{classes[0], classes[2]} {
					plan = append(plan, planned{&c20Req{Stream: "router", Cfg: cfg, Login: login, Pass: pass, Method: m, Path: path, Hdr: hd.val, Class: hd.class, AE: "gzip", Origin: &origin}, reg})
				}
			}
			plan = append(plan, planned{&c20Req{Stream: "router", Cfg: cfg, Login: login, Pass: pass, Method: "GET", Path: path + "/nope", Hdr: nil, Class: "none", AE: "", Origin: nil}, rt.registered("GET", path+"/nope")})
		}
		// elastic-style catch-alls and assorted paths
		for _, p := range []string{"//ready", "/ready/../ready", "/./ready", "/loki//api/v1/push", "/ready/.", "/a/..", "/", "/x", "/x/_doc", "/x/_bulk", "/_bulk", "/x/_create/1", "/api/v1", "/ready/", "/v/", "/v/datasources/3", "/static/app.js"} {
			for _, m := range []string{"GET", "POST", "PUT"} {
				reg := rt.registered(m, p)
				for _, hd := range []c20Hdr{classes[0], classes[2], classes[5]} {
					plan = append(plan, planned{&c20Req{Stream: "router", Cfg: cfg, Login: login, Pass: pass, Method: m, Path: p, Hdr: hd.val, Class: hd.class, AE: "gzip", Origin: nil}, reg})
				}
			}
		}
		// all requests without the credentials first (so that no asynchronous back-end call of an admitted
		// request can be attributed to them), then the admitted ones
		authOn := strings.Contains(cfg, "a")
		sort.SliceStable(plan, func(i, j int) bool {
			ci := !authOn || c20HasCreds(login, pass, plan[i].q.Hdr)
			cj := !authOn || c20HasCreds(login, pass, plan[j].q.Hdr)
			return !ci && cj
		})
		var ops, impl []string
		var cases []any
		for _, pl := range plan {
			q := pl.q
			status, marker, calls, hd, note := rt.serve(q)
			c20Judge(r, q, pl.registered, status, marker, calls, note)
			ops = append(ops, q.op())
			impl = append(impl, c20Answer(status, marker, hd))
			cases = append(cases, q)
			creds := !authOn || c20HasCreds(login, pass, q.Hdr)
			r.Case(fmt.Sprintf("router:%s:%s:%s:%s:%s:%v", cfg, q.Method, q.Path, q.Class, q.AE, q.Origin != nil), true)
			switch {
			case marker >= 0:
				nb := 0
				for _, c := range calls {
					if !strings.HasPrefix(c, "handler:") {
						nb++
					}
				}
				r.Count(fmt.Sprintf("router:%s:handler-reached:backend-calls>0=%v", cfg, nb > 0))
			default:
				r.Count(fmt.Sprintf("router:%s:%d:creds=%v", cfg, status, creds))
			}
			if note != "" {
				r.Count("router:handler-" + strings.SplitN(note, ":", 2)[0])
				if os.Getenv("C20_DEBUG") != "" {
					fmt.Fprintln(os.Stderr, "NOTE", q.Method, q.Path, note)
				}
			}
			if cfg == "ac" && q.Class == "good+garbage" && q.AE == "gzip" && q.Origin != nil && q.Path == "/loki/api/v1/push" {
				r.Sample(q)
			}
			if cfg == "ac" && q.Class == "good" && q.AE == "gzip" && q.Origin != nil && q.Path == "/loki/api/v1/labels" && q.Method == "GET" {
				r.Sample(q)
			}
		}
		if err := r.Compare("router", ops, impl, cases); err != nil {
			return err
		}
	}
	r.Exhaustive = true
	return nil
}

// ---------------------------------------------------------------- the real binary
// c20Binary builds package main of the repository, starts it with MODE=reader (the only mode that comes up without
// a ClickHouse server), credentials and CORS configured, and sends raw HTTP/1.1 requests to every common and reader
// route. "Passed the auth middleware" is read off the server's own access log: LoggingMiddleware sits behind the
// auth middleware and logs the URL, which carries a unique query parameter per request.
func c20Binary(r *h.Result, rng *h.Rng, tier string) error {
	r.Stream("binary: the real `main` built from the repository and run with MODE=reader, QRYN_LOGIN/QRYN_PASSWORD, CORS on: raw HTTP requests to every common+reader route × method × 14 header classes × Accept-Encoding × Origin (+ writer paths, unregistered methods); passed-auth read from the server's access log; vs Router.serve")
	bin, err := c20MainBinary(false)
	if err != nil {
		return err
	}
	tmp, err := os.MkdirTemp(c20BinDir, "binary")
	if err != nil {
		return err
	}
	l, err := net.Listen("tcp", "127.0.0.1:0")
	if err != nil {
		return err
	}
	port := l.Addr().(*net.TCPAddr).Port
	l.Close()
	login, pass := "user", "pass"
	logPath := filepath.Join(tmp, "server.log")
	logf, err := os.Create(logPath)
	if err != nil {
		return err
	}
	cmd := exec.Command(bin)
	cmd.Dir = tmp
	cmd.Stdout, cmd.Stderr = logf, logf
	cmd.Env = append(os.Environ(), "key=true", "OMIT_CREATE_TABLES=true", "MODE=reader", fmt.Sprintf("PORT=%d", port), "HOST=127.0.0.1",
		"QRYN_LOGIN="+login, "QRYN_PASSWORD="+pass, "CORS_ALLOW_ORIGIN=*", "CLICKHOUSE_SERVER=127.0.0.1", "CLICKHOUSE_PORT=1")
	if err := cmd.Start(); err != nil {
		return err
	}
	defer func() { cmd.Process.Kill(); cmd.Wait(); logf.Close() }()
	addr := fmt.Sprintf("127.0.0.1:%d", port)
	up := false
	for i := 0; i < 150 && !up; i++ {
		if c, err := net.DialTimeout("tcp", addr, 200*time.Millisecond); err == nil {
			c.Close()
			up = true
		} else {
			time.Sleep(100 * time.Millisecond)
		}
	}
	if !up {
		b, _ := os.ReadFile(logPath)
		if len(b) > 1500 {
			b = b[len(b)-1500:]
		}
		return fmt.Errorf("the built binary did not start listening on %s:\n%s", addr, b)
	}
	rt, err := c20Assemble("acr", login, pass) // only to enumerate the common + reader table
	if err != nil {
		return err
	}
	origin := "https://grafana.example"
	type planned struct {
		q          *c20Req
		registered bool
	}
	var plan []planned
	sendable := func(hd c20Hdr) c20Hdr {
		if hd.val == nil {
			return hd
		}
		v := strings.Map(func(c rune) rune {
			if c < 0x20 || c == 0x7f {
				return '%'
			}
			return c
		}, strings.ToValidUTF8(*hd.val, "\xc3\xbf"))
		return c20Hdr{hd.class, &v}
	}
	var classes []c20Hdr
	for _, hd := range c20Classes(login, pass) {
		classes = append(classes, sendable(hd))
	}
	for _, x := range rt.routes {
		path := c20VarRe.ReplaceAllString(x.tpl, "x1")
		for _, m := range x.methods {
			for _, hd := range classes {
				for _, ae := range []string{"", "gzip"} {
					for _, o := range []*string{nil, &origin} {
						plan = append(plan, planned{&c20Req{Stream: "binary", Cfg: "acrb", Login: login, Pass: pass, Method: m, Path: path, Hdr: hd.val, Class: hd.class, AE: ae, Origin: o}, true})
					}
				}
			}
		}
		for _, m := range []string{"GET", "POST", "OPTIONS", "DELETE"} {
			if !rt.registered(m, path) {
				plan = append(plan, planned{&c20Req{Stream: "binary", Cfg: "acrb", Login: login, Pass: pass, Method: m, Path: path, Hdr: nil, Class: "none", AE: "", Origin: &origin}, false})
				plan = append(plan, planned{&c20Req{Stream: "binary", Cfg: "acrb", Login: login, Pass: pass, Method: m, Path: path, Hdr: classes[5].val, Class: "good", AE: "", Origin: &origin}, false})
			}
		}
	}
	for _, p := range []string{"/loki/api/v1/push", "/ingest", "/x/_bulk", "/", "/nope", "/ready/", "//ready", "/ready/../config"} {
		for _, m := range []string{"GET", "POST"} {
			for _, hd := range []c20Hdr{classes[0], classes[5], classes[6]} {
				plan = append(plan, planned{&c20Req{Stream: "binary", Cfg: "acrb", Login: login, Pass: pass, Method: m, Path: p, Hdr: hd.val, Class: hd.class, AE: "gzip", Origin: nil}, rt.registered(m, p)})
			}
		}
	}
	sort.SliceStable(plan, func(i, j int) bool {
		return !c20HasCreds(login, pass, plan[i].q.Hdr) && c20HasCreds(login, pass, plan[j].q.Hdr)
	})
	type got struct {
		status int
		hd     http.Header
		err    error
		hung   bool
	}
	res := make([]got, len(plan))
	sent := 0
	anomalies := 0
	var dead error
	started := time.Now()
	for i, pl := range plan {
		// a server that lets requests through without credentials hangs on its absent database: three concrete
		// witnesses are enough, and the reader's watchdog kills the process after ~30 s without a database
		if anomalies >= 3 || dead != nil || time.Since(started) > 22*time.Second {
			break
		}
		sent = i + 1
		q := pl.q
		var b strings.Builder
		fmt.Fprintf(&b, "%s %s?vq=%d HTTP/1.1\r\nHost: %s\r\nConnection: close\r\n", q.Method, q.Path, i, addr)
		if q.Hdr != nil {
			fmt.Fprintf(&b, "Authorization: %s\r\n", *q.Hdr)
		}
		if q.AE != "" {
			fmt.Fprintf(&b, "Accept-Encoding: %s\r\n", q.AE)
		}
		if q.Origin != nil {
			fmt.Fprintf(&b, "Origin: %s\r\n", *q.Origin)
		}
		body := ""
		if q.Method == "POST" || q.Method == "PUT" {
			body = c20LokiBody
			fmt.Fprintf(&b, "Content-Type: application/json\r\nContent-Length: %d\r\n", len(body))
		}
		b.WriteString("\r\n" + body)
		c, err := net.DialTimeout("tcp", addr, 2*time.Second)
		if err != nil {
			dead = err
			sent = i
			continue
		}
		creds := c20HasCreds(login, pass, q.Hdr)
		if creds {
			c.SetDeadline(time.Now().Add(800 * time.Millisecond))
		} else {
			c.SetDeadline(time.Now().Add(3 * time.Second))
		}
		c.Write([]byte(b.String()))
		resp, err := http.ReadResponse(bufio.NewReader(c), nil)
		if err != nil {
			c.Close()
			if ne, ok := err.(net.Error); ok && ne.Timeout() {
				// the handler is waiting for the (absent) database: the auth middleware answers immediately, so the
				// request was let through
				res[i] = got{hung: true}
				if !creds {
					anomalies++
				}
				continue
			}
			dead = err
			sent = i
			continue
		}
		io.Copy(io.Discard, resp.Body)
		resp.Body.Close()
		c.Close()
		res[i] = got{status: resp.StatusCode, hd: resp.Header}
		if !creds && resp.StatusCode/100 != 4 && resp.StatusCode != 301 {
			anomalies++
		}
	}
	plan = plan[:sent]
	time.Sleep(300 * time.Millisecond)
	logb, _ := os.ReadFile(logPath)
	passed := map[int]bool{}
	for _, m := range regexp.MustCompile(`\[\d+\] [A-Z]+ [^ "]*[?&]vq=(\d+)`).FindAllStringSubmatch(string(logb), -1) {
		var n int
		fmt.Sscanf(m[1], "%d", &n)
		passed[n] = true
	}
	var ops, impl []string
	var cases []any
	for i, pl := range plan {
		q := pl.q
		marker := -1
		var calls []string
		if res[i].hung {
			passed[i] = true
			r.Count("binary:handler-waiting-for-database")
			if os.Getenv("C20_DEBUG") != "" {
				fmt.Fprintln(os.Stderr, "HUNG", q.Method, q.Path)
			}
		}
		if passed[i] {
			marker = 0
			calls = []string{"access-log: request passed the auth middleware"}
		}
		status, hd := res[i].status, res[i].hd
		creds := c20HasCreds(login, pass, q.Hdr)
		q.Status, q.Reached, q.Log = status, marker, calls
		if !creds && passed[i] {
			r.Violate("C20/binary-handler-reached-without-credentials", fmt.Sprintf("real binary: %s %s with Authorization %q (class %s) passed the auth middleware (status %d)", q.Method, q.Path, deref(q.Hdr), q.Class, status), q)
		} else if !creds && pl.registered && status != 401 && status != 400 {
			r.Violate("C20/binary-registered-route-not-401-400", fmt.Sprintf("real binary: %s %s with Authorization %q (class %s) answered %d, not 401/400", q.Method, q.Path, deref(q.Hdr), q.Class, status), q)
		} else if creds && pl.registered && !passed[i] {
			r.Violate("C20/binary-right-credentials-not-let-through", fmt.Sprintf("real binary: %s %s with the right credentials did not pass the auth middleware (status %d)", q.Method, q.Path, status), q)
		}
		ops = append(ops, q.op())
		if passed[i] {
			impl = append(impl, "reached")
		} else {
			impl = append(impl, c20Answer(status, -1, hd))
		}
		cases = append(cases, q)
		r.Case(fmt.Sprintf("binary:%s:%s:%s:%s:%v", q.Method, q.Path, q.Class, q.AE, q.Origin != nil), true)
		if passed[i] {
			r.Count("binary:passed-auth")
		} else {
			r.Count(fmt.Sprintf("binary:%d:creds=%v", status, creds))
		}
	}
	if err := r.Compare("binary", ops, impl, cases); err != nil {
		return err
	}
	if dead != nil && len(r.Violations) == 0 {
		if len(logb) > 1500 {
			logb = logb[len(logb)-1500:]
		}
		return fmt.Errorf("binary: the server stopped answering after %d requests: %v\n%s", sent, dead, logb)
	}
	if sent < len(res) {
		r.Notes = append(r.Notes, fmt.Sprintf("binary stream stopped after %d of %d requests (witnesses found or time budget)", sent, len(res)))
	}
	return nil
}

// ---------------------------------------------------------------- replay
func c20Replay(r *h.Result, path string) error {
	raw, err := os.ReadFile(path)
	if err != nil {
		return err
	}
	var f struct {
		Replay json.RawMessage `json:"replay"`
	}
	if err := json.Unmarshal(raw, &f); err != nil {
		return err
	}
	var probe struct {
		Stream string `json:"stream"`
	}
	json.Unmarshal(f.Replay, &probe)
	switch probe.Stream {
	case "config", "portenv":
		return c20ConfigReplay(r, f.Replay)
	case "auth":
		var a struct {
			Login, Pass, Header string
			Class               string
		}
		var m map[string]any
		json.Unmarshal(f.Replay, &m)
		a.Login, _ = m["login_hex"].(string)
		a.Pass, _ = m["pass_hex"].(string)
		a.Header, _ = m["header_hex"].(string)
		a.Class, _ = m["class"].(string)
		var hv *string
		if a.Header != "none" {
			hv = sp(string(h.UnHex(a.Header)))
		}
		var ops, impl []string
		var cases []any
		c20AuthCase(r, string(h.UnHex(a.Login)), string(h.UnHex(a.Pass)), c20Hdr{a.Class, hv}, &ops, &impl, &cases)
		return r.Compare("auth", ops, impl, cases)
	case "router":
		var q c20Req
		if err := json.Unmarshal(f.Replay, &q); err != nil {
			return err
		}
		rt, err := c20Assemble(q.Cfg, q.Login, q.Pass)
		if err != nil {
			return err
		}
		status, marker, calls, hd, note := rt.serve(&q)
		c20Judge(r, &q, true, status, marker, calls, note)
		r.Case("replay", true)
		return r.Compare("router", []string{q.op()}, []string{c20Answer(status, marker, hd)}, []any{&q})
	}
	return fmt.Errorf("replay of stream %q not supported", probe.Stream)
}

func c20(r *h.Result, rng *h.Rng, tier string, replay string) error {
	r.Rule = "b64: 1/6 valid encodings, 1/6 mutated valid encodings (pad/CR/LF/junk inserted, deleted, appended), alphabet soup with '=' and CR/LF, raw bytes, non-canonical trailing bits; non-trivial = error WITH a non-empty partial result. " +
		"auth: 34 header classes × 5 configurations (passwords with ':', empty, non-ASCII; padded and unpadded encodings), then near-miss headers (one-edit credentials correctly encoded; the right header with 1–3 byte edits; random payloads); non-trivial = starts with \"Basic \"; distinct by (config, header). " +
		"mw: 0–5 ResponseWriter calls (WriteHeader from {200,201,204,301,400,401,404,500}, Write of 0–6 bytes, header set/del) under a random sub-chain/order of gzip, CORS, logging and 7 Accept-Encoding values; non-trivial = gzip writer active. " +
		"portenv: 64 fixed cases (every subset of the four variables × file both/none/user/password), then every source independently absent (2/5) / empty (1/5) / set (2/5), 60 % with arbitrary bytes (no NUL; no ':' in logins), decoy variables 15 % each; non-trivial = login and password supplied by different kinds of sources. " +
		"config: 9 fixed configurations (file username + QRYN_PASSWORD, QRYN_LOGIN + CLOKI_PASSWORD, file only, file password + CLOKI_LOGIN, CLOKI over QRYN, set-but-empty variable, login only, nothing, MODE=gateway) then random ones as in portenv with identifier-like values, 15 % in a MODE other than reader; one start of the real binary each; non-trivial route case = a login and a password were supplied. " +
		"router: exhaustive over the walked route table — every route × registered method × 14 header classes × Accept-Encoding {none,gzip} × Origin {none,set}, plus unregistered methods, sibling paths and catch-all probes, for 4 assemblies (auth+CORS, auth, auth+CORS+view-shaped routes, no auth)"
	c20Setup()
	if replay != "" {
		return c20Replay(r, replay)
	}
	nB64, nAuth, nMw := 1500, 2000, 1500
	if tier != "quick" {
		nB64, nAuth, nMw = 60000, 100000, 40000
	}
	if err := c20B64(r, rng.Fork(), nB64); err != nil {
		return err
	}
	if err := c20Auth(r, rng.Fork(), nAuth); err != nil {
		return err
	}
	if err := c20Mw(r, rng.Fork(), nMw); err != nil {
		return err
	}
	if err := c20Router_(r, rng.Fork(), tier); err != nil {
		return err
	}
	defer c20BinCleanup()
	if err := c20Binary(r, rng.Fork(), tier); err != nil {
		return err
	}
	nPortEnv, nConf := 1500, 2
	if tier != "quick" {
		nPortEnv, nConf = 30000, 56
	}
	if err := c20PortEnv(r, rng.Fork(), nPortEnv); err != nil {
		return err
	}
	if err := c20Config(r, rng.Fork(), nConf); err != nil {
		return err
	}
	r.Notes = append(r.Notes,
		"package main cannot be imported: the harness replicates main()'s assembly (Use order, registration order on one router); its agreement with main.go is the Gen.Routes obligation (main_order_ok) and the table stream (walked routes = Gen.Routes.routes)",
		"writer routes are registered by the real plugin.RegisterRoutes (→ performV1APIRouting) with a fake service registry; reader routes by the real reader/router functions with a fake IDBRegistry over a scripted database/sql driver; view.Init is called but registers nothing without the `view` build tag — its route shapes (any method, catch-all prefix) are exercised by the 'v' assembly with stub handlers")
	return nil
}
