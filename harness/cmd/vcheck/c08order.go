package main

import (
	"fmt"
	"strings"
	"time"

	"github.com/metrico/qryn/reader/logql/logql_parser"
	"verif/harness/h"
)

// c08Order: does the result depend on the physical order of the samples table? The real planner's SQL for first/last_over_time
// (and the other unwrap functions) is evaluated by the reference interpreter (Sql.evalSelA on the plan whose text is compared
// with the real planner's) over the same rows in two table orders. With pairwise distinct timestamps the two results must be
// equal (Qryn.C08.plan_metric_unwrap_any_row_order); with two entries of one series sharing a timestamp first/last_over_time
// follow the row order (finding C08/first-last-tie-follows-row-order).
func c08Order(r *h.Result, rng *h.Rng, n int) error {
	r.Stream("order: unwrap range aggregations over the same rows in two table orders (reference interpreter on the real planner's SQL, text compared): equal when timestamps are distinct; first/last_over_time with a timestamp tie follow the row order")
	var textOps, impl []string
	type ocase struct {
		query  string
		tie    bool
		fn     string
		opA    string
		opB    string
		replay map[string]any
	}
	var cases []ocase
	for i := 0; i < n; i++ {
		tie := i%2 == 0
		fn := h.Pick(rng, []string{"first_over_time", "last_over_time"})
		if !tie && rng.Chance(50) {
			fn = h.Pick(rng, unwrapFns)
		}
		query := fn + ` ({a="b"} | unwrap _entry [10s])`
		if rng.Chance(30) {
			query = "max by (a) (" + query + ")"
		}
		script, err := logql_parser.Parse(query)
		if err != nil {
			return fmt.Errorf("order: %q does not parse: %w", query, err)
		}
		ser, err := serMetric(script)
		if err != nil {
			return fmt.Errorf("order: %q: %w", query, err)
		}
		d := int64(10e9)
		from := (int64(1700000000) + int64(rng.Intn(1000))*10) * 1e9
		c := mctx{qctx: qctx{From: from, To: from + 3*d, Type: 1, Asc: rng.Bool()}, Step: d}
		sqlText, err := implMetricSQL(script, c)
		if err != nil {
			r.Violate("C08/fragment-query-not-planned", "a metric query of the modelled fragment is rejected by the planner: "+err.Error(),
				map[string]any{"query": query, "ctx": c})
			continue
		}
		textOps = append(textOps, "c08plan "+c.ser()+" "+ser)
		impl = append(impl, h.Hex([]byte(sqlText)))
		date := time.Unix(0, c.From).UTC().Add(-30 * time.Minute).Format("2006-01-02")
		gin := fmt.Sprintf("%s:%s:%s:1:1", hx(date), hx("a"), hx("b"))
		ts := fmt.Sprintf("%s:1:%s:1", hx(date), hx(semDoc([][2]string{{"a", "b"}})))
		// rows of one stream inside one range bucket; with a tie two of them share the timestamp
		t0 := c.From + int64(rng.Range(1, 5))*1e9
		rows := []semSample{{FP: 1, TS: t0, Str: "1", Type: 1}, {FP: 1, TS: t0 + 1e9, Str: "2", Type: 1}, {FP: 1, TS: t0 + 2e9, Str: "7", Type: 1}}
		if tie {
			rows[1].TS = t0
		}
		serRows := func(rs []semSample) string {
			var xs []string
			for _, s := range rs {
				xs = append(xs, fmt.Sprintf("%d:%d:%s:%d", s.FP, s.TS, hx(s.Str), s.Type))
			}
			return strings.Join(xs, ";")
		}
		rev := []semSample{rows[1], rows[0], rows[2]}
		if rng.Bool() {
			rev = []semSample{rows[2], rows[1], rows[0]}
		}
		opA := "c08rows " + c.ser() + " " + ser + " " + gin + " " + ts + " " + serRows(rows)
		opB := "c08rows " + c.ser() + " " + ser + " " + gin + " " + ts + " " + serRows(rev)
		cases = append(cases, ocase{query, tie, fn, opA, opB, map[string]any{"query": query, "ctx": c, "sql": sqlText,
			"samples_order_a": rows, "samples_order_b": rev, "model_op_a": opA, "model_op_b": opB}})
	}
	if err := r.Compare("order-text", textOps, impl, nil); err != nil {
		return err
	}
	var ops []string
	for _, cs := range cases {
		ops = append(ops, cs.opA, cs.opB)
	}
	ans, err := h.Model(ops)
	if err != nil {
		return err
	}
	for i, cs := range cases {
		a, b := ans[2*i], ans[2*i+1]
		r.Case("order:"+cs.query+fmt.Sprint(i), true)
		cs.replay["rows_order_a"] = string(h.UnHex(a))
		cs.replay["rows_order_b"] = string(h.UnHex(b))
		switch {
		case a == b && cs.tie:
			r.Count("order:tie:same-result")
		case a == b:
			r.Count("order:distinct-timestamps:same-result")
		case cs.tie && (cs.fn == "first_over_time" || cs.fn == "last_over_time"):
			r.Count("order:tie:result-follows-row-order")
			r.Violate("C08/first-last-tie-follows-row-order", cs.fn+" over two entries of one series with the same timestamp returns the value of whichever row is read first: the same rows in two table orders give different results", cs.replay)
		default:
			// cannot happen: Qryn.C08.plan_metric_unwrap_any_row_order
			r.Violate("C08/proved-class-differs:row-order", "the result of "+cs.query+" depends on the order of the samples table although no two entries share a timestamp", cs.replay)
		}
	}
	if r.Distribution["order:distinct-timestamps:same-result"] == 0 {
		return fmt.Errorf("c08order: no case with distinct timestamps")
	}
	return nil
}
