package main

import (
	"encoding/json"
	"fmt"
	"os"
	"strconv"
	"strings"

	"github.com/metrico/qryn/reader/logql/logql_transpiler_v2/shared"
	traceql_parser "github.com/metrico/qryn/reader/traceql/parser"
	"github.com/metrico/qryn/reader/traceql/transpiler/clickhouse_transpiler"
	sql "github.com/metrico/qryn/reader/utils/sql_select"
	"verif/harness/h"
)

// ---------------------------------------------------------------------------------------------------- shape-traceql
// Two TraceQL requests that differ only in string leaves: the real AST of a generated script and a copy in which EVERY string
// leaf is replaced IN PLACE — attribute names (the scope prefix `span.` / `resource.` / `.` stays, the rest of the name is
// replaced; `duration`, `name` and names the planner refuses stay), string values (hostile text; a value whose Unquote fails
// stays), the aggregated attribute. The replacement is a function of the original text and injective, so textually equal terms
// stay equal and different ones stay different (the planner de-duplicates equal terms). Numbers, durations, operators and the
// tree stay. Both scripts are planned by the real clickhouse_transpiler.Plan / PlanTagsV2 / PlanValuesV2 (two different
// requested tags). Model: `sameShapeT` of the two serialised ASTs must hold; oracle: both accepted or both refused, and equal
// token kinds of the two real statements.

type c10TqRename struct {
	rng    *h.Rng
	labels map[string]string
	vals   map[string]string
	n      int
}

func (m *c10TqRename) label(l string) string {
	if l == "" {
		return l
	}
	pfx := ""
	for _, p := range []string{"span.", "resource.", "."} {
		if strings.HasPrefix(l, p) {
			pfx = p
			break
		}
	}
	if pfx == "" {
		return l // duration, name, or a name the planner refuses: part of the shape
	}
	if v, ok := m.labels[l]; ok {
		return v
	}
	m.n++
	// TraceQL Label_name bytes: letters, digits, `_`, `.`, `-`
	v := pfx + h.Pick(m.rng, []string{"k", "x-y", "a.b", "q--z", "_", "n0.", "Zz-"}) + strconv.Itoa(m.n)
	m.labels[l] = v
	return v
}

func (m *c10TqRename) value(qs *traceql_parser.QuotedString) {
	if _, err := qs.Unquote(); err != nil {
		return // the planner refuses the term: part of the shape
	}
	if v, ok := m.vals[qs.Str]; ok {
		qs.Str = v
		return
	}
	m.n++
	txt := c10Hostile(m.rng, true) + "#" + strconv.Itoa(m.n)
	b, _ := json.Marshal(txt)
	m.vals[qs.Str] = string(b)
	qs.Str = string(b)
}

func (m *c10TqRename) exp(e *traceql_parser.AttrSelectorExp) {
	for ; e != nil; e = e.Tail {
		if e.ComplexHead != nil {
			m.exp(e.ComplexHead)
		}
		if e.Head != nil {
			e.Head.Label = m.label(e.Head.Label)
			if e.Head.Val.StrVal != nil {
				m.value(e.Head.Val.StrVal)
			}
		}
	}
}

func c10TqReshape(s *traceql_parser.TraceQLScript, rng *h.Rng) {
	m := &c10TqRename{rng: rng, labels: map[string]string{}, vals: map[string]string{}}
	for cur := s; cur != nil; cur = cur.Tail {
		m.exp(cur.Head.AttrSelector)
		if cur.Head.Aggregator != nil && cur.Head.Aggregator.Attr != "duration" {
			cur.Head.Aggregator.Attr = m.label(cur.Head.Aggregator.Attr)
		}
	}
}

// c10TqText: TraceQLScript.String faults on `{}` (nil condition)
func c10TqText(s *traceql_parser.TraceQLScript) (res string) {
	defer func() {
		if e := recover(); e != nil {
			res = "<script with an empty selector>"
		}
	}()
	return s.String()
}

func c10TqPlan(kind string, script *traceql_parser.TraceQLScript, key string, c tqctx) (text string, err error) {
	defer func() {
		if e := recover(); e != nil {
			err = fmt.Errorf("panic: %v", e)
		}
	}()
	var p interface {
		Process(*shared.PlannerContext) (sql.ISelect, error)
	}
	switch kind {
	case "plan":
		p, err = clickhouse_transpiler.Plan(script)
	case "tags":
		p, err = clickhouse_transpiler.PlanTagsV2(script)
	default:
		p, err = clickhouse_transpiler.PlanValuesV2(script, key)
	}
	if err != nil {
		return "", err
	}
	sel, err := p.Process(c.planner())
	if err != nil {
		return "", err
	}
	return sel.String(sql.DefaultCtx())
}

func c10ShapeTraceQL(r *h.Result, rng *h.Rng, n int) error {
	r.Stream("shape-traceql: a TraceQL script and a copy with EVERY string leaf replaced in the real AST (attribute names behind their scope prefix, string values, aggregated attribute; textually equal terms stay equal), both planned by the real clickhouse_transpiler.Plan / PlanTagsV2 / PlanValuesV2 (two different requested tags) incl. `{}`; model: sameShapeT of the two serialised ASTs (must hold); oracle: both accepted or both refused, equal token kinds of the two real statements")
	type pair struct {
		kind, q1, q2, t1, t2 string
		ctx                  tqctx
	}
	var pairs []pair
	var ops []string
	for i := 0; i < n; i++ {
		var query string
		switch {
		case i%23 == 0:
			query = h.Pick(rng, []string{"{}", "{} | count() > 1", "{} && {.a=\"b\"}", "{} | avg(.x) > 2"})
		case i%3 == 0:
			query = tqSelector(rng, 2)
		default:
			query = genTraceQL(rng, 3, 3, 0)
		}
		kind := []string{"plan", "plan", "tags", "values"}[i%4]
		mk := func() *traceql_parser.TraceQLScript {
			s, err := traceql_parser.Parse(query)
			if err != nil {
				return nil
			}
			return s
		}
		a := mk()
		if a == nil {
			r.Count("shape-traceql:parse-error")
			continue
		}
		serA, err := serTraceQL(a)
		if err != nil {
			r.Count("shape-traceql:outside-fragment")
			continue
		}
		seed := rng.Fork()
		mut := func() *traceql_parser.TraceQLScript {
			s := mk()
			f := *seed
			c10TqReshape(s, &f)
			return s
		}
		b := mut()
		serB, err := serTraceQL(b)
		if err != nil {
			r.Count("shape-traceql:mutant-outside-fragment")
			continue
		}
		c := genTqCtx(rng)
		k1, k2 := h.Pick(rng, []string{"a", "http.status", "name", ""}), c10Hostile(rng, true)
		t1, err1 := c10TqPlan(kind, mk(), k1, c)
		t2, err2 := c10TqPlan(kind, mut(), k2, c)
		cs := map[string]any{"stream": "shape-traceql", "kind": kind, "query": query, "other": c10TqText(b), "ctx": c, "keys": []string{k1, k2}}
		isPanic := func(e error) bool { return e != nil && strings.HasPrefix(e.Error(), "panic:") }
		if isPanic(err1) || isPanic(err2) {
			r.Count("shape-traceql:impl-panic")
			continue
		}
		if (err1 == nil) != (err2 == nil) {
			cs["errors"] = []string{fmt.Sprint(err1), fmt.Sprint(err2)}
			if os.Getenv("C10_DUMP") == "shape" {
				fmt.Fprintln(c10Stderr, "ONE-SIDE", query, "|", c10TqText(b), "|", err1, "|", err2)
			}
			ops = append(ops, "c10sameshapet "+serA+" "+serB)
			pairs = append(pairs, pair{kind + ":one-side", query, c10TqText(b), "", "", c})
			r.Case("shape-traceql:"+kind+query+"|"+serB, true)
			continue
		}
		if err1 != nil {
			r.Count("shape-traceql:both-refused")
			continue
		}
		ops = append(ops, "c10sameshapet "+serA+" "+serB)
		pairs = append(pairs, pair{kind, query, c10TqText(b), t1, t2, c})
		r.Case("shape-traceql:"+kind+query+"|"+serB, true)
		r.Count("shape-traceql:" + kind)
		r.Count(fmt.Sprintf("shape-traceql:selectors=%d", countSelectors(a)))
		if a.Head.AttrSelector == nil {
			r.Count("shape-traceql:{}-first")
		}
		if i%71 == 0 {
			r.Sample(map[string]any{"stream": "shape-traceql", "kind": kind, "query": query, "same_shape_as": c10TqText(b), "sql": t1, "sql_other": t2})
		}
	}
	ans, err := h.Model(ops)
	if err != nil {
		return err
	}
	var kops []string
	for _, p := range pairs {
		kops = append(kops, "kinds "+h.Hex([]byte(p.t1)), "kinds "+h.Hex([]byte(p.t2)))
	}
	kinds, err := h.Model(kops)
	if err != nil {
		return err
	}
	for i, p := range pairs {
		c := map[string]any{"stream": "shape-traceql", "kind": p.kind, "query": p.q1, "other": p.q2, "ctx": p.ctx}
		if ans[i] != "1" {
			r.Disagree("shape-traceql", ops[i], "1 (the harness replaced string leaves only)", ans[i], c)
			r.Count("shape-traceql:relation-refused")
			continue
		}
		r.Count("shape-traceql:same-shape")
		if strings.HasSuffix(p.kind, ":one-side") {
			r.Violate("C10/shape/traceql-acceptance", "two TraceQL scripts that differ only in string leaves: the planner accepts one and refuses the other", c)
			continue
		}
		if kinds[2*i] != kinds[2*i+1] {
			c["sql"], c["sql_other"] = p.t1, p.t2
			r.Violate("C10/shape/traceql", "two TraceQL scripts that differ only in string leaves are planned to statements with different token structure", c)
		}
	}
	return nil
}
