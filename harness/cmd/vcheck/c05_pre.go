package main

// C05 "prerequest" stream: the chain between the socket and the parser (writer/controller/middleware.go) —
// Content-Encoding handling of WithOverallContextMiddleware, withUnsnappyRequest with its size guard, the io.ReadAll
// pre-request of the OTLP traces route — against the Lean model `Qryn.PreRequest.preRequest` composed with `ingest`
// (driver op c05pre).
//
// The third-party calls are parameters of the model. For every request the harness computes their results on THIS
// request with the real libraries, in the parent process: the gzip / snappy-framing stream over the body (does
// gzip.NewReader accept the header, the bytes the stream yields, whether it ends in io.EOF), snappy.Decode of the
// buffered stream (ok?, length), and whether the stream / its decoding is the document the request was built around
// or does not unmarshal at all. The block header is parsed by the model itself (refDecodedLen), and that parser is
// compared with snappy.DecodedLen on its own (driver op c05declen).
//
// Compared: HTTP status (impl) with the model's status; and the model's accounting of what snappy.Decode allocates
// (`dec=`: the DECLARED length, as soon as the header parses and the guard lets it through) as a lower bound of the
// TotalAlloc delta measured in the child. Judged on the implementation alone: liveness (as for every stream) and
// the allocation rule of c05_alloc.go.

import (
	"bytes"
	"compress/gzip"
	"encoding/binary"
	"fmt"
	"io"
	"os"
	"strconv"
	"strings"

	"github.com/golang/snappy"
	"github.com/metrico/qryn/writer/utils/proto/logproto"
	"github.com/metrico/qryn/writer/utils/proto/prompb"
	trace "go.opentelemetry.io/proto/otlp/trace/v1"
	"google.golang.org/protobuf/proto"

	"verif/harness/h"
)

type c05PreCase struct {
	Route int
	Shape string
	Req   c05Request
	Op    string
	// class of the stream bytes / of their snappy decoding: 1 = the document of Op's tree, 0 = does not unmarshal,
	// 2 = unmarshals into something else (status not predicted)
	sentClass, decClass int
}

// c05PreLimit asks the model for the limit of withUnsnappyRequest as generated from the source.
func c05PreLimit() (int, error) {
	ans, err := h.Model([]string{"c05limit"})
	if err != nil {
		return 0, err
	}
	n, err := strconv.Atoi(ans[0])
	if err != nil {
		return 0, fmt.Errorf("driver does not know c05limit: %q", ans[0])
	}
	return n, nil
}

func c05Unmarshals(route int, b []byte) bool {
	var m proto.Message
	switch route {
	case c05RPromWrite:
		m = &prompb.WriteRequest{}
	case c05RLokiProto:
		m = &logproto.PushRequest{}
	case c05ROtlpTraces:
		m = &trace.TracesData{}
	default:
		return false
	}
	return proto.Unmarshal(b, m) == nil
}

func c05DocClass(route int, b, doc []byte) int {
	switch {
	case doc != nil && bytes.Equal(b, doc):
		return 1
	case !c05Unmarshals(route, b):
		return 0
	}
	return 2
}

var c05EmptyTree = map[int]string{
	c05RPromWrite:  "( 4 1 ( ) )",
	c05RLokiProto:  "( 1 1 ( ) )",
	c05ROtlpTraces: "( 8 1 ( ) )",
}

func c05Head(b []byte) string {
	if len(b) > 12 {
		b = b[:12]
	}
	return h.Hex(b)
}

// c05Expand: what WithOverallContextMiddleware's reader yields over the body (the third-party part, run for real).
func c05Expand(ce string, body []byte) (hdrOk bool, data []byte, eof bool) {
	switch ce {
	case "gzip":
		zr, err := gzip.NewReader(bytes.NewReader(body))
		if err != nil {
			return false, nil, false
		}
		data, err = io.ReadAll(zr)
		return true, data, err == nil
	case "snappy":
		data, err := io.ReadAll(snappy.NewReader(bytes.NewReader(body)))
		return true, data, err == nil
	}
	return true, body, true
}

// c05PreBuild: the model op of a request. `doc` = marshalled document the request was built around (nil: none),
// `tree` = its tree for the driver.
func c05PreBuild(route int, shape string, rq c05Request, doc []byte, tree string) c05PreCase {
	// net/http trims optional whitespace around a header value (client and server side)
	ce := strings.Trim(rq.Headers["Content-Encoding"], " \t")
	hdrOk, data, eof := c05Expand(ce, rq.Body)
	decOk, decLen := false, 0
	decClass := 0
	if declared, err := snappy.DecodedLen(data); err == nil && (declared <= 64<<20 || len(data) > 1<<20) {
		// (a block of less than 1 MiB cannot decode to more than 64 MiB: not worth 4 GiB in this process)
		if u, err := snappy.Decode(nil, data); err == nil {
			decOk, decLen = true, len(u)
			decClass = c05DocClass(route, u, doc)
		}
	}
	sentClass := c05DocClass(route, data, doc)
	// the empty byte string is a document too (no series / no streams / no spans); when it is what the parser gets and
	// the case's own document is not in play, the op carries the empty document instead
	if et, ok := c05EmptyTree[route]; ok {
		switch {
		case sentClass == 2 && len(data) == 0 && decClass != 1:
			sentClass, tree = 1, et
			if decOk && decLen == 0 {
				decClass = 1
			}
		case decClass == 2 && decOk && decLen == 0 && sentClass != 1:
			decClass, tree = 1, et
		}
	}
	if tree == "" {
		tree = "( 10 )"
	}
	op := fmt.Sprintf("c05pre %d %s %d %s %d %d %s %d %d %d %d %d %s", route, h.Hex([]byte(ce)), len(rq.Body), c05Head(rq.Body),
		c05B2i(hdrOk), len(data), c05Head(data), c05B2i(eof), c05B2i(decOk), decLen, c05B2i(sentClass == 1), c05B2i(decClass == 1), tree)
	return c05PreCase{Route: route, Shape: shape, Req: rq, Op: op, sentClass: sentClass, decClass: decClass}
}

func c05Uvarint(v uint64) []byte {
	var buf [binary.MaxVarintLen64]byte
	return append([]byte{}, buf[:binary.PutUvarint(buf[:], v)]...)
}

// c05PadDoc: a well-formed document of the route whose marshalled form is exactly n bytes long.
func c05PadDoc(route int, n int) ([]byte, string) {
	build := func(pad int) []byte {
		var m proto.Message
		if route == c05RPromWrite {
			m = &prompb.WriteRequest{Timeseries: []*prompb.TimeSeries{{
				Labels:  []*prompb.Label{{Name: "__name__", Value: "m"}, {Name: "pad", Value: strings.Repeat("a", pad)}},
				Samples: []*prompb.Sample{{Value: 1, Timestamp: c05Ts / 1e6}}}}}
		} else {
			m = &logproto.PushRequest{Streams: []*logproto.StreamAdapter{{Labels: `{a="b"}`,
				Entries: []*logproto.EntryAdapter{{Line: strings.Repeat("a", pad), Timestamp: &logproto.Timestamp{Seconds: c05Ts / 1e9}}}}}}
		}
		b, _ := proto.Marshal(m)
		return b
	}
	pad := n - 64
	if pad < 0 {
		pad = 0
	}
	var b []byte
	for i := 0; i < 8; i++ {
		b = build(pad)
		if len(b) == n {
			break
		}
		pad += n - len(b)
		if pad < 0 {
			pad = 0
		}
	}
	tree := c05Tl("4", "1", c05Tl("1"))
	if route == c05RLokiProto {
		tree = c05Tl("1", "1", c05Tl(c05Tl(c05Tl("0", "1"), "1")))
	}
	return b, tree
}

type c05PreDoc struct {
	route int
	path  string
	hdr   map[string]string
	doc   []byte // marshalled document
	wire  []byte // the body a client sends for it (snappy block for the unsnappy routes)
	tree  string
}

func c05PreDocOf(rng *h.Rng, route int) c05PreDoc {
	var cs c05Case
	switch route {
	case c05RPromWrite:
		cs = c05GenProm(rng, false)
	case c05RLokiProto:
		cs = c05GenLokiProto(rng, false)
	default:
		cs = c05GenOtlpTraces(rng, false)
	}
	d := c05PreDoc{route: route, path: cs.Req.Path, hdr: cs.Req.Headers, wire: cs.Req.Body, tree: cs.Tree}
	d.doc = cs.Req.Body
	if route != c05ROtlpTraces {
		d.doc, _ = snappy.Decode(nil, cs.Req.Body)
	}
	return d
}

func (d c05PreDoc) req(body []byte, ce string) c05Request {
	hdr := c05CloneHeaders(d.hdr)
	if ce != "" {
		hdr["Content-Encoding"] = ce
	}
	return c05Request{"POST", d.path, hdr, body}
}

var c05OddEncodings = []string{"br", "deflate", "identity", "GZIP", "Gzip", "gzip, gzip", "gzip,snappy", "x-gzip", "zstd", "compress",
	"*", "gzip;q=1.0", "none", "Snappy", "snappy,gzip", "gz\xc3\xafp", "gzip ", " gzip", "\tsnappy", "0", "gzipgzip"}

func c05SnappyFramed(b []byte) []byte {
	var buf bytes.Buffer
	w := snappy.NewBufferedWriter(&buf)
	w.Write(b)
	w.Close()
	return buf.Bytes()
}

// c05PreCases: the deterministic part (every declared length × data variant, the limit from below and above, every
// odd encoding) followed by `nRandom` random combinations.
func c05PreCases(rng *h.Rng, limit int, nRandom int, big bool) []c05PreCase {
	var out []c05PreCase
	add := func(d c05PreDoc, shape string, body []byte, ce string, doc []byte, tree string) {
		out = append(out, c05PreBuild(d.route, shape, d.req(body, ce), doc, tree))
	}
	declared := []uint64{0, 1, 5, 200, uint64(limit) - 1, uint64(limit), uint64(limit) + 1, 1 << 30, 1<<32 - 1, 1 << 32, 1 << 35, 1 << 63, 1<<64 - 1}
	for _, route := range []int{c05RPromWrite, c05RLokiProto} {
		d := c05PreDocOf(rng, route)
		_, hl := binary.Uvarint(d.wire)
		tail := d.wire[hl:] // the block without its header
		// ---- block headers: declared length × what follows
		for _, n := range append(declared, uint64(len(d.doc))) {
			hd := c05Uvarint(n)
			add(d, fmt.Sprintf("snappy-header-declares-%d+no-data", n), hd, "", d.doc, d.tree)
			add(d, fmt.Sprintf("snappy-header-declares-%d+block-of-the-document", n), append(append([]byte{}, hd...), tail...), "", d.doc, d.tree)
			add(d, fmt.Sprintf("snappy-header-declares-%d+truncated-block", n), append(append([]byte{}, hd...), tail[:len(tail)/2]...), "", d.doc, d.tree)
			add(d, fmt.Sprintf("snappy-header-declares-%d+literal", n), append(append([]byte{}, hd...), 0x08, 'a', 'b', 'c'), "", d.doc, d.tree)
		}
		add(d, "empty-body", nil, "", d.doc, d.tree)
		add(d, "unterminated-varint", bytes.Repeat([]byte{0x80}, 4), "", d.doc, d.tree)
		add(d, "unterminated-varint-11", bytes.Repeat([]byte{0xff}, 11), "", d.doc, d.tree)
		add(d, "document-without-snappy", d.doc, "", d.doc, d.tree)
		add(d, "valid", d.wire, "", d.doc, d.tree)
		add(d, "block-with-trailing-bytes", append(append([]byte{}, d.wire...), 0, 0, 0), "", d.doc, d.tree)
		// ---- well-formed documents whose real length is around the limit
		sizes := []int{limit - 1, limit, limit + 1}
		if limit > 32<<20 {
			// a limit this large is itself outside the allocation rule (C05.unsnappy_alloc_within_rule no longer
			// proves); documents of that size are not built in this process
			sizes = nil
		} else if big {
			sizes = append(sizes, limit-2, limit+2, limit/2, 2*limit, limit+rng.Intn(1000), limit-rng.Intn(1000))
		}
		for _, n := range sizes {
			pd, tree := c05PadDoc(route, n)
			add(d, fmt.Sprintf("valid-document-of-limit%+d-bytes", len(pd)-limit), snappy.Encode(nil, pd), "", pd, tree)
		}
		// ---- Content-Encoding over the same route
		add(d, "gzip-of-valid", c05GzipBytes(d.wire), "gzip", d.doc, d.tree)
		add(d, "snappy-framing-of-valid", c05SnappyFramed(d.wire), "snappy", d.doc, d.tree)
		add(d, "gzip-of-huge-declared-header", c05GzipBytes(c05Uvarint(1<<32-1)), "gzip", d.doc, d.tree)
		add(d, "snappy-framing-of-huge-declared-header", c05SnappyFramed(append(c05Uvarint(1<<30), 0x08, 'a', 'b', 'c')), "snappy", d.doc, d.tree)
	}
	// ---- Content-Encoding on every kind of route
	gz := func(d c05PreDoc) []byte { return c05GzipBytes(d.wire) }
	for _, route := range []int{c05RPromWrite, c05RLokiProto, c05ROtlpTraces} {
		d := c05PreDocOf(rng, route)
		g := gz(d)
		add(d, "gzip-of-valid", g, "gzip", d.doc, d.tree)
		for _, cut := range []int{0, 1, 3, 9, 10, 11, len(g) / 2, len(g) - 9, len(g) - 8, len(g) - 4, len(g) - 1} {
			if cut >= 0 && cut < len(g) {
				add(d, fmt.Sprintf("gzip-truncated-at-%d-of-%d", cut, len(g)), g[:cut], "gzip", d.doc, d.tree)
			}
		}
		add(d, "gzip-trailing-garbage", append(append([]byte{}, g...), "garbage"...), "gzip", d.doc, d.tree)
		add(d, "gzip-two-members", append(append([]byte{}, g...), g...), "gzip", d.doc, d.tree)
		add(d, "gzip-two-members-second-empty", append(append([]byte{}, g...), c05GzipBytes(nil)...), "gzip", d.doc, d.tree)
		bad := append([]byte{}, g...)
		bad[len(bad)-6] ^= 0x55
		add(d, "gzip-bad-crc", bad, "gzip", d.doc, d.tree)
		flags := append([]byte{}, g...)
		flags[3] = 0x1e // FEXTRA|FNAME|FCOMMENT|FHCRC claimed, none present
		add(d, "gzip-header-flags-without-fields", flags, "gzip", d.doc, d.tree)
		add(d, "gzip-header-only", []byte{0x1f, 0x8b, 8, 0, 0, 0, 0, 0, 0, 0xff}, "gzip", d.doc, d.tree)
		add(d, "gzip-encoding-plain-body", d.wire, "gzip", d.doc, d.tree)
		add(d, "gzip-of-nothing", c05GzipBytes(nil), "gzip", d.doc, d.tree)
		add(d, "gzip-bomb-4MiB", c05GzipBytes(make([]byte, 4<<20)), "gzip", d.doc, d.tree)
		// KNOWN FINDING C05/alloc-amplification/decompressed-stream: nothing caps the decompressed size, and the bytes
		// are buffered twice with amortised growth (io.ReadAll in the pre-request step or withBufferedBody, then the parser)
		add(d, "gzip-bomb-16MiB", c05GzipBytes(make([]byte, 16<<20)), "gzip", d.doc, d.tree)
		sf := c05SnappyFramed(d.wire)
		add(d, "snappy-framing-of-valid", sf, "snappy", d.doc, d.tree)
		add(d, "snappy-framing-truncated", sf[:len(sf)-3], "snappy", d.doc, d.tree)
		add(d, "snappy-framing-header-only", sf[:10], "snappy", d.doc, d.tree)
		add(d, "snappy-encoding-plain-body", d.wire, "snappy", d.doc, d.tree)
		add(d, "snappy-encoding-empty-body", nil, "snappy", d.doc, d.tree)
		sfb := append([]byte{}, sf...)
		sfb[len(sfb)-1] ^= 0xff
		add(d, "snappy-framing-bad-checksum-or-data", sfb, "snappy", d.doc, d.tree)
		for _, ce := range c05OddEncodings {
			add(d, "content-encoding:"+strings.TrimSpace(ce), d.wire, ce, d.doc, d.tree)
		}
	}
	// the routes whose parser reads the stream itself: the switch is the same code, only rejections are predicted
	for _, route := range []int{c05RLokiJson, c05RInflux, c05ROtlpLogs, c05RElasticDoc, c05RElasticBulk, c05RZipkinJson, c05RZipkinNd, c05RProfile} {
		cs := c05GenStructured(h.NewRng(uint64(route)+991), route, false)
		for k := uint64(1); cs.Enc != 0; k++ {
			cs = c05GenStructured(h.NewRng(uint64(route)+991+1000*k), route, false)
		}
		for _, ce := range []string{"br", "identity", "GZIP", "gzip, gzip", "deflate"} {
			hdr := c05CloneHeaders(cs.Req.Headers)
			hdr["Content-Encoding"] = ce
			out = append(out, c05PreBuild(route, "content-encoding:"+ce, c05Request{cs.Req.Method, cs.Req.Path, hdr, cs.Req.Body}, nil, cs.Tree))
		}
		hdr := c05CloneHeaders(cs.Req.Headers)
		hdr["Content-Encoding"] = "gzip"
		out = append(out, c05PreBuild(route, "gzip-encoding-plain-body", c05Request{cs.Req.Method, cs.Req.Path, hdr, cs.Req.Body}, nil, cs.Tree))
	}
	// ---- random combinations
	for i := 0; i < nRandom; i++ {
		route := h.Pick(rng, []int{c05RPromWrite, c05RPromWrite, c05RLokiProto, c05RLokiProto, c05ROtlpTraces})
		d := c05PreDocOf(rng, route)
		body := d.wire
		shape := "random"
		switch rng.Intn(6) {
		case 0: // random varint header, random data
			var n uint64
			switch rng.Intn(4) {
			case 0:
				n = uint64(rng.Intn(300))
			case 1:
				n = uint64(limit-3) + uint64(rng.Intn(7))
			case 2:
				n = 1 << uint(rng.Intn(64))
			default:
				n = rng.U64()
			}
			body = append(c05Uvarint(n), rng.Bytes(40)...)
			shape = "random-header"
		case 1: // the block with its header rewritten
			_, hl := binary.Uvarint(d.wire)
			delta := rng.Intn(7) - 3
			body = append(c05Uvarint(uint64(len(d.doc)+delta)), d.wire[hl:]...)
			shape = fmt.Sprintf("header-off-by-%+d", delta)
		case 2: // mutated block
			body = c05MutateBytes(rng, d.wire)
			shape = "mutated-block"
		case 3: // raw varint-ish bytes
			body = rng.Bytes(14)
			for k := range body {
				if rng.Chance(60) {
					body[k] |= 0x80
				}
			}
			shape = "varint-noise"
		case 4:
			body = d.doc
			shape = "document-without-snappy"
		}
		ce := ""
		switch rng.Intn(8) {
		case 0:
			ce = "gzip"
			body = c05GzipBytes(body)
			if rng.Chance(40) {
				body = c05MutateBytes(rng, body)
				shape += "+corrupt-gzip"
			} else {
				shape += "+gzip"
			}
		case 1:
			ce = "snappy"
			body = c05SnappyFramed(body)
			if rng.Chance(40) {
				body = c05MutateBytes(rng, body)
				shape += "+corrupt-framing"
			} else {
				shape += "+framed"
			}
		case 2:
			ce = h.Pick(rng, c05OddEncodings)
			shape += "+odd-encoding"
		}
		out = append(out, c05PreBuild(route, shape, d.req(body, ce), d.doc, d.tree))
	}
	return out
}

// c05DecLenStream: refDecodedLen (model) vs snappy.DecodedLen (library) on generated block headers.
func c05DecLenStream(r *h.Result, rng *h.Rng, n int) error {
	r.Stream("declen: the model's block-header parser (refDecodedLen = binary.Uvarint + snappy.decodedLen) vs snappy.DecodedLen on generated headers")
	var ops, impl []string
	var cases []any
	for i := 0; i < n; i++ {
		var b []byte
		switch rng.Intn(5) {
		case 0:
			b = c05Uvarint(rng.U64() >> uint(rng.Intn(64)))
		case 1:
			b = c05Uvarint(uint64(1)<<32 - 2 + uint64(rng.Intn(4)))
		case 2:
			b = bytes.Repeat([]byte{byte(0x80 + rng.Intn(128))}, rng.Intn(12))
			if rng.Bool() {
				b = append(b, byte(rng.Intn(128)))
			}
		case 3:
			b = rng.Bytes(12)
		default:
			b = append(c05Uvarint(rng.U64()>>uint(rng.Intn(64))), rng.Bytes(4)...)
		}
		ops = append(ops, "c05declen "+h.Hex(b))
		if v, err := snappy.DecodedLen(b); err != nil {
			impl = append(impl, "err")
			r.Case("declen:err", true)
		} else {
			impl = append(impl, fmt.Sprintf("ok %d", v))
			r.Case(fmt.Sprintf("declen:ok:%d", bitsLen(uint64(v))), true)
		}
		cases = append(cases, map[string]string{"header": h.Hex(b)})
	}
	return r.Compare("declen", ops, impl, cases)
}

func bitsLen(v uint64) int {
	n := 0
	for v > 0 {
		n++
		v >>= 1
	}
	return n
}

// c05PreStream sends the cases, compares with the model.
func (c *c05Run) preStream(rng *h.Rng, nRandom int, big bool, batchSize int) error {
	r := c.r
	limit, err := c05PreLimit()
	if err != nil {
		return err
	}
	r.Stream(fmt.Sprintf("prerequest: Content-Encoding handling, withUnsnappyRequest (declared lengths 0 … 2^64−1 around the generated limit %d, valid/truncated/corrupt blocks, well-formed documents of limit−1/limit/limit+1 bytes), gzip and snappy-framing streams incl. truncated, trailing garbage, multi-member, bad CRC, on remote-write / Loki protobuf / OTLP traces (odd encodings on every route) vs PreRequest.preRequest ∘ ingest (status; Decode's allocation as a lower bound of the measured TotalAlloc delta)", limit))
	cases := c05PreCases(rng, limit, nRandom, big)
	var ops, impl []string
	var allocs []uint64
	for i, cs := range cases {
		out, err := c.send("prerequest", c05RouteNames[cs.Route], cs.Shape, cs.Req, "")
		if err != nil {
			return err
		}
		ops = append(ops, cs.Op)
		impl = append(impl, out)
		allocs = append(allocs, c.lastAlloc)
		if (i+1)%batchSize == 0 {
			if err := c.postBatch(); err != nil {
				return err
			}
		}
	}
	if err := c.postBatch(); err != nil {
		return err
	}
	model, err := h.Model(ops)
	if err != nil {
		return err
	}
	for i, cs := range cases {
		f := strings.Fields(model[i])
		if len(f) != 4 {
			r.Disagree("prerequest", cs.Shape+" "+ops[i], impl[i], model[i], map[string]any{"route": c05RouteNames[cs.Route], "shape": cs.Shape, "request": c05Q(cs.Req)})
			continue
		}
		path, status := f[0], f[1]
		if os.Getenv("C05_PRE_DEBUG") != "" {
			fmt.Fprintf(os.Stderr, "PRE %s | %s | %d bytes | impl %s alloc %d | model %s\n", c05RouteNames[cs.Route], cs.Shape, len(cs.Req.Body), impl[i], allocs[i], model[i])
		}
		dec, _ := strconv.ParseUint(strings.TrimPrefix(f[3], "dec="), 10, 64)
		predicted := status != "s?"
		if (path == "asSent" && cs.sentClass == 2) || (path == "decoded" && cs.decClass == 2) {
			predicted = false // the bytes unmarshal into a document the case was not built around
		}
		if path != "reject" && cs.Route != c05RPromWrite && cs.Route != c05RLokiProto && cs.Route != c05ROtlpTraces {
			predicted = false // streamed routes: only the rejections of the chain are predicted here
		}
		key := fmt.Sprintf("prerequest:%s:%s:%s:%s", c05RouteNames[cs.Route], cs.Shape, path, impl[i])
		r.Case(key, true)
		r.Count("prerequest:path:" + path)
		if !predicted {
			r.Count("prerequest:status-not-predicted")
		} else if status != impl[i] {
			r.Disagree("prerequest", c05RouteNames[cs.Route]+" "+cs.Shape+" "+ops[i], impl[i], model[i],
				map[string]any{"route": c05RouteNames[cs.Route], "shape": cs.Shape, "request": c05Q(cs.Req)})
		}
		if strings.HasPrefix(impl[i], "s") && allocs[i] < dec {
			r.Disagree("prerequest", c05RouteNames[cs.Route]+" "+cs.Shape+" "+ops[i], fmt.Sprintf("alloc=%d", allocs[i]), model[i],
				map[string]any{"route": c05RouteNames[cs.Route], "shape": cs.Shape, "request": c05Q(cs.Req), "what": "the model says snappy.Decode allocates more than the process allocated in total"})
		}
		if dec > 0 {
			r.Count("prerequest:decode-allocated")
		}
		if i%23 == 0 {
			r.Sample(map[string]any{"stream": "prerequest", "route": c05RouteNames[cs.Route], "shape": cs.Shape, "impl": impl[i], "model": model[i], "alloc": allocs[i], "bytes": len(cs.Req.Body)})
		}
	}
	return nil
}
