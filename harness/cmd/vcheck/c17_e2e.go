package main

import (
	"database/sql/driver"
	"encoding/json"
	"fmt"
	"regexp"
	"sort"
	"strconv"
	"strings"
	"time"

	"github.com/metrico/qryn/reader/model"
	"github.com/prometheus/prometheus/model/labels"
	"github.com/prometheus/prometheus/storage"
	fakes "verif/harness/fakes17"
	"verif/harness/h"
)

// ---------------------------------------------------------------------------------------------------
// Stream 4: end to end. A small generated database (label index, series, samples) lives in the reference
// interpreter fakes.DB; the real Select emits its SQL, the interpreter executes that text, the rows return
// through the scripted driver into the real row loop. The oracle is Prometheus itself: labels.Matcher.Matches
// on the stored label sets (absent label = "") and the inclusive window [hints.Start, hints.End].

type c17E2ESeries struct {
	Fp      uint64      `json:"fp"`
	Type    int         `json:"type"`
	Labels  [][2]string `json:"labels"`
	Samples [][2]int64  `json:"samples"` // (timestamp_ms, value)
}
type c17E2EMatcher struct {
	Type  string `json:"type"` // = != =~ !~
	Name  string `json:"name"`
	Value string `json:"value"`
}
type c17E2ECase struct {
	Stream   string          `json:"stream"`
	Start    int64           `json:"start"`
	End      int64           `json:"end"`
	Series   []c17E2ESeries  `json:"series"`
	Matchers []c17E2EMatcher `json:"matchers"`
	Got      string          `json:"got,omitempty"`
	Want     string          `json:"want,omitempty"`
}

const c17Day = "2023-11-14"
const c17Base = int64(1700000000000) // 2023-11-14T22:13:20Z

func c17MatchType(s string) labels.MatchType {
	switch s {
	case "=":
		return labels.MatchEqual
	case "!=":
		return labels.MatchNotEqual
	case "=~":
		return labels.MatchRegexp
	}
	return labels.MatchNotRegexp
}

func c17BuildDB(c *c17E2ECase) *fakes.DB {
	db := &fakes.DB{Tables: map[string][]fakes.Row{}, Funcs: map[string]func([]fakes.Value) (fakes.Value, error){}}
	for _, s := range c.Series {
		// a series is registered on every UTC day it has samples and on no other (C04)
		for _, day := range c17SeriesDays(s) {
			var raw [][]interface{}
			for _, kv := range s.Labels {
				db.Tables["time_series_gin"] = append(db.Tables["time_series_gin"], fakes.Row{
					"date": fakes.Str(day), "key": fakes.Str(kv[0]), "val": fakes.Str(kv[1]),
					"fingerprint": fakes.Uint(s.Fp), "type": fakes.Int(int64(s.Type))})
				raw = append(raw, []interface{}{kv[0], kv[1]})
			}
			db.Tables["time_series"] = append(db.Tables["time_series"], fakes.Row{
				"date": fakes.Str(day), "fingerprint": fakes.Uint(s.Fp), "labels": fakes.RawValue(raw), "type": fakes.Int(int64(s.Type))})
		}
		for _, sm := range s.Samples {
			db.Tables["samples_v3"] = append(db.Tables["samples_v3"], fakes.Row{
				"fingerprint": fakes.Uint(s.Fp), "timestamp_ns": fakes.Int(sm[0] * 1000000),
				"value": fakes.Float(float64(sm[1])), "type": fakes.Int(int64(s.Type))})
		}
	}
	if db.Tables["samples_v3"] == nil {
		db.Tables["samples_v3"] = []fakes.Row{}
	}
	if db.Tables["time_series_gin"] == nil {
		db.Tables["time_series_gin"] = []fakes.Row{}
	}
	if db.Tables["time_series"] == nil {
		db.Tables["time_series"] = []fakes.Row{}
	}
	db.Funcs["JSONExtractKeysAndValues"] = func(a []fakes.Value) (fakes.Value, error) {
		if len(a) != 2 || a[0].Kind != fakes.VRaw {
			return fakes.Value{}, fmt.Errorf("JSONExtractKeysAndValues(labels, 'String') expected")
		}
		return a[0], nil
	}
	return db
}

type c17Want struct {
	Fp      uint64
	Labels  labels.Labels
	Samples []model.Sample
}

// what Prometheus semantics ask for
func c17Expected(c *c17E2ECase, ms []*labels.Matcher) []c17Want {
	var res []c17Want
	for _, s := range c.Series {
		if s.Type != 2 && s.Type != 0 {
			continue
		}
		var ls labels.Labels
		for _, kv := range s.Labels {
			ls = append(ls, labels.Label{Name: kv[0], Value: kv[1]})
		}
		sort.Sort(ls)
		ok := true
		for _, m := range ms {
			if !m.Matches(ls.Get(m.Name)) {
				ok = false
			}
		}
		if !ok {
			continue
		}
		w := c17Want{Fp: s.Fp, Labels: ls}
		sm := append([][2]int64(nil), s.Samples...)
		sort.SliceStable(sm, func(i, j int) bool { return sm[i][0] < sm[j][0] })
		for _, x := range sm {
			if x[0] >= c.Start && x[0] <= c.End {
				w.Samples = append(w.Samples, model.Sample{TimestampMs: x[0], Value: float64(x[1])})
			}
		}
		if len(w.Samples) > 0 {
			res = append(res, w)
		}
	}
	return res
}

// c17PromSel: Prometheus' reading — every matcher holds on the value of its label, "" when the series does not have it
func c17PromSel(s c17E2ESeries, ms []*labels.Matcher) bool {
	for _, m := range ms {
		v := ""
		for _, kv := range s.Labels {
			if kv[0] == m.Name {
				v = kv[1]
			}
		}
		if !m.Matches(v) {
			return false
		}
	}
	return true
}

// c17IdxSel: would the label index of the pinned tree select the series — every matcher needs a row (the label is present) whose
// value satisfies it, regular expressions read anchored (Prometheus) or as a search (ClickHouse match on the raw value)
func c17IdxSel(s c17E2ESeries, ms []*labels.Matcher, anchored bool) bool {
	for _, m := range ms {
		found := false
		for _, kv := range s.Labels {
			if kv[0] != m.Name {
				continue
			}
			ok := m.Matches(kv[1])
			if !anchored && (m.Type == labels.MatchRegexp || m.Type == labels.MatchNotRegexp) {
				re, err := regexp.Compile(m.Value)
				ok = (err == nil && re.MatchString(kv[1])) == (m.Type == labels.MatchRegexp)
			}
			if ok {
				found = true
			}
		}
		if !found {
			return false
		}
	}
	return true
}

// c17FpEvalTie: the fp_sel sub-query of the statement Select emitted, executed alone by the reference interpreter, against
// the Lean meaning of the planned query (Prom.FpQuery.eval, the definition select_exact is about) over the same index
// rows; the answers of ClickHouse match() are handed to the driver as a table.
func c17FpEvalTie(db *fakes.DB, c *c17E2ECase, ms []*labels.Matcher, sampleSQL string) (op, impl string, err error) {
	body, _, err := c17WithBody(sampleSQL, "fp_sel")
	if err != nil {
		return "", "", err
	}
	_, rows, err := db.Exec(body)
	if err != nil {
		return "", "", fmt.Errorf("reference interpreter: %v in: %s", err, body)
	}
	var fps []uint64
	for _, rw := range rows {
		fps = append(fps, rw[0].I.Uint64())
	}
	hx := func(s string) string { return h.Hex([]byte(s)) }
	var rowStrs, tbl []string
	values := map[string]bool{"": true}
	for _, s := range c.Series {
		for _, day := range c17SeriesDays(s) {
			for _, kv := range s.Labels {
				values[kv[1]] = true
				rowStrs = append(rowStrs, strings.Join([]string{hx(day), hx(kv[0]), hx(kv[1]), strconv.FormatUint(s.Fp, 10), strconv.Itoa(s.Type)}, "~"))
			}
		}
	}
	for _, m := range ms {
		if m.Type != labels.MatchRegexp && m.Type != labels.MatchNotRegexp {
			continue
		}
		pat := "^(?:" + m.Value + ")$"
		re, err := regexp.Compile(pat)
		if err != nil {
			continue
		}
		for v := range values {
			if re.MatchString(v) {
				tbl = append(tbl, hx(pat)+"~"+hx(v))
			}
		}
	}
	sort.Strings(tbl)
	join := func(x []string) string {
		if len(x) == 0 {
			return "_"
		}
		return strings.Join(x, ",")
	}
	date := time.Unix(0, c.Start*1000000).UTC().Add(-30 * time.Minute).Format("2006-01-02")
	return fmt.Sprintf("c17fpeval %s 2 %s %s %s", hx(date), c17MatcherArgs(ms), join(rowStrs), join(tbl)), c17FpsStr(fps), nil
}

// c17MergedIntoUnlabelled: the samples of a wanted series are part of a handed-out series that has no labels
func c17MergedIntoUnlabelled(got []c17Series, w c17Want) bool {
	for _, g := range got {
		if len(g.Labels) != 0 || len(w.Samples) == 0 {
			continue
		}
		have := map[string]bool{}
		for _, x := range g.Samples {
			have[fmt.Sprint(x)] = true
		}
		all := true
		for _, x := range w.Samples {
			if !have[fmt.Sprint(x)] {
				all = false
			}
		}
		if all {
			return true
		}
	}
	return false
}

func c17RunE2E(r *h.Result, sc *fakes.Script, q storage.Querier, c *c17E2ECase) error {
	_, _, err := c17RunE2ETie(r, sc, q, c)
	return err
}

func c17RunE2ETie(r *h.Result, sc *fakes.Script, q storage.Querier, c *c17E2ECase) (tieOp, tieImpl string, err error) {
	db := c17BuildDB(c)
	var execErr error
	sampleSQL := ""
	sc.SetResponder(func(qs string) ([]string, [][]driver.Value, error) {
		if strings.Contains(qs, "FROM settings") || strings.HasPrefix(strings.TrimSpace(qs), "SHOW TABLES") {
			return []string{"a", "b"}, nil, nil
		}
		if strings.Contains(qs, "fp_sel") {
			sampleSQL = qs
		}
		cols, rows, err := db.Exec(qs)
		if err != nil {
			execErr = fmt.Errorf("%v in: %s", err, qs)
			return nil, nil, err
		}
		if strings.Contains(qs, "JSONExtractKeysAndValues") {
			var fps []uint64
			for _, rw := range rows {
				fps = append(fps, rw[0].I.Uint64())
			}
			c17LblFetchRecord(qs, c.Start, c.End, c.Series, fps, *c)
		}
		return cols, fakes.DriverRows(rows), nil
	})
	var ms []*labels.Matcher
	for _, m := range c.Matchers {
		lm, err := labels.NewMatcher(c17MatchType(m.Type), m.Name, m.Value)
		if err != nil {
			return "", "", fmt.Errorf("generator made an invalid matcher: %v", err)
		}
		ms = append(ms, lm)
	}
	got, err := c17Drain(q.Select(false, &storage.SelectHints{Start: c.Start, End: c.End}, ms...))
	if execErr != nil {
		// the statement Select emitted cannot be executed (the reference interpreter refuses it: unbalanced, unknown
		// function, …): a well-formed request got a statement ClickHouse would refuse — judged, not a reason to stop the run
		r.Violate("C17/select-statement-not-executable", fmt.Sprintf("the statement of Select is refused by the reference interpreter: %v", execErr), *c)
		return "", "", nil
	}
	if err != nil {
		return "", "", fmt.Errorf("Select: %v", err)
	}
	if sampleSQL != "" {
		tieOp, tieImpl, err = c17FpEvalTie(db, c, ms, sampleSQL)
		if err != nil {
			r.Violate("C17/select-statement-not-executable", fmt.Sprintf("the fp_sel sub-query of Select's statement cannot be isolated or executed: %v", err), *c)
			return "", "", nil
		}
	}
	c17SeriesOrder(r, got, *c) // the SeriesSet level: strictly ascending by labels.Compare
	want := c17Expected(c, ms)
	c.Got, c.Want = "", ""
	gotBy := map[uint64]c17Series{}
	for _, s := range got {
		if _, dup := gotBy[s.Fp]; dup {
			r.Violate("C17/select-series-twice", fmt.Sprintf("series %d is handed out twice", s.Fp), *c)
		}
		gotBy[s.Fp] = s
	}
	wantBy := map[uint64]c17Want{}
	byFp := map[uint64]c17E2ESeries{}
	for _, s := range c.Series {
		byFp[s.Fp] = s
	}
	hasLabel := func(s c17E2ESeries, name string) bool {
		for _, kv := range s.Labels {
			if kv[0] == name {
				return true
			}
		}
		return false
	}
	for _, w := range want {
		wantBy[w.Fp] = w
		g, ok := gotBy[w.Fp]
		if !ok && c17MergedIntoUnlabelled(got, w) {
			r.Violate("C17/select-distinct-series-merged", fmt.Sprintf("series %d %v is not handed out under its own label set: its samples are inside a series with the empty label set {} together with those of other fingerprints", w.Fp, w.Labels), *c)
			continue
		}
		if !ok {
			s := byFp[w.Fp]
			absent := false
			for _, m := range ms {
				if !hasLabel(s, m.Name) {
					absent = true
				}
			}
			onlyAtStart := true
			for _, x := range w.Samples {
				if x.TimestampMs != c.Start {
					onlyAtStart = false
				}
			}
			absent = absent && !c17IdxSel(s, ms, true)
			unanchored := c17IdxSel(s, ms, true) && !c17IdxSel(s, ms, false)
			switch {
			case absent:
				r.Violate("C17/select-matcher-on-absent-label", fmt.Sprintf("series %v satisfies every matcher (a matcher accepts the empty value of a label the series does not have) but is not selected", w.Labels), *c)
			case unanchored:
				r.Violate("C17/select-regex-not-anchored", fmt.Sprintf("series %v satisfies every matcher but is not selected: a regular-expression matcher is applied as a search, not to the whole label value", w.Labels), *c)
			case onlyAtStart:
				r.Violate("C17/select-sample-at-start-excluded", fmt.Sprintf("series %v has its only sample of the window exactly at start=%d and is not returned", w.Labels, c.Start), *c)
			case len(ms) > 8:
				r.Violate("C17/select-more-than-8-matchers", fmt.Sprintf("series %v satisfies all %d matchers but is not selected", w.Labels, len(ms)), *c)
			default:
				r.Violate("C17/select-series-missing", fmt.Sprintf("series %v satisfies every matcher but is not selected", w.Labels), *c)
			}
			continue
		}
		if len(g.Labels) == 0 && len(w.Labels) > 0 {
			r.Violate("C17/select-series-unlabelled", fmt.Sprintf("series %d reaches the engine under the empty label set {}, stored %v (its time_series rows are on %v, window %s .. %s)", w.Fp, w.Labels, c17SeriesDays(byFp[w.Fp]), time.UnixMilli(c.Start).UTC().Format(time.RFC3339Nano), time.UnixMilli(c.End).UTC().Format(time.RFC3339Nano)), *c)
		} else if !labels.Equal(g.Labels, w.Labels) {
			r.Violate("C17/select-foreign-labels", fmt.Sprintf("series %d carries %v, stored %v", w.Fp, g.Labels, w.Labels), *c)
		}
		if fmt.Sprint(g.Samples) != fmt.Sprint(w.Samples) {
			atStart := len(w.Samples) == len(g.Samples)+1 && w.Samples[0].TimestampMs == c.Start && fmt.Sprint(g.Samples) == fmt.Sprint(w.Samples[1:])
			if atStart {
				r.Violate("C17/select-sample-at-start-excluded", fmt.Sprintf("series %v: the sample exactly at start=%d is not returned (window is inclusive)", w.Labels, c.Start), *c)
			} else {
				r.Violate("C17/select-samples-differ", fmt.Sprintf("series %v: got %v, in-window samples are %v", w.Labels, g.Samples, w.Samples), *c)
			}
		}
	}
	for fp, g := range gotBy {
		if _, ok := wantBy[fp]; ok {
			continue
		}
		s := byFp[fp]
		var ls labels.Labels
		for _, kv := range s.Labels {
			ls = append(ls, labels.Label{Name: kv[0], Value: kv[1]})
		}
		unanch := c17IdxSel(s, ms, false) && !c17IdxSel(s, ms, true)
		switch {
		case s.Type != 2 && s.Type != 0:
			r.Violate("C17/select-foreign-type", fmt.Sprintf("series %v of type %d is selected", g.Labels, s.Type), *c)
		case unanch:
			r.Violate("C17/select-regex-not-anchored", fmt.Sprintf("series %v is selected although a regular-expression matcher does not match its whole label value", g.Labels), *c)
		default:
			r.Violate("C17/select-series-extra", fmt.Sprintf("series %v does not satisfy the matchers but is selected", g.Labels), *c)
		}
	}
	return tieOp, tieImpl, nil
}

var c17Names = []string{"__name__", "job", "env", "instance", "a"}
var c17Vals = map[string][]string{
	"__name__": {"up", "upx", "m"},
	"job":      {"x", "xy", "y", "a'b"},
	"env":      {"prod", "p", "dev"},
	"instance": {"i1", "i2"},
	"a":        {"1", "\\", "b c"},
}
var c17Regex = []string{"u.*", "up|m", "p", "x", ".*", ".+", "", "[xy]+", "prod|dev", "i[0-9]", "a'b", "^up$", "d"}

// c17GenRegex draws a pattern from a small regular-expression grammar
//
//	pattern := alt ('|' alt){0,2}        (top-level alternation in 65 % of the draws)
//	alt     := ['^'] ['.*'] atom ['.*'] ['$']
//	atom    := lit | '(' lit '|' lit ')' | '(?:' lit ')' | lit '.+' | lit 's?' | lit '[0-9xy]' | lit lit
//
// and returns it with the literals it is built from. Stored label values are then derived from those literals
// with characters added in front and behind (c17RegexValue), so that an unanchored search, a prefix / suffix
// match and the full match Prometheus asks for give different answers.
var c17Lits = []string{"err", "api", "web", "node", "up", "x", "prod", "db"}

func c17GenRegex(rng *h.Rng) (string, []string) {
	nalt := 1
	if rng.Chance(65) {
		nalt = rng.Range(2, 3)
	}
	var alts, cores []string
	for i := 0; i < nalt; i++ {
		lit := h.Pick(rng, c17Lits)
		cores = append(cores, lit)
		atom := lit
		switch rng.Intn(10) {
		case 0:
			other := h.Pick(rng, c17Lits)
			cores = append(cores, other)
			atom = "(" + lit + "|" + other + ")"
		case 1:
			atom = "(?:" + lit + ")"
		case 2:
			atom = lit + ".+"
		case 3:
			atom = lit + "s?"
		case 4:
			atom = lit + "[0-9xy]"
		case 5:
			other := h.Pick(rng, c17Lits)
			cores = append(cores, lit+other)
			atom = lit + other
		}
		pre, suf := "", ""
		if rng.Chance(35) {
			pre = ".*"
		}
		if rng.Chance(35) {
			suf = ".*"
		}
		if rng.Chance(6) {
			pre = "^" + pre
		}
		if rng.Chance(6) {
			suf += "$"
		}
		alts = append(alts, pre+atom+suf)
	}
	return strings.Join(alts, "|"), cores
}

// c17RegexValue: a stored value made from one of the pattern's literals: the literal itself, or with characters
// added behind, in front, or on both sides (error / xweb / xapiy for err / web / api)
func c17RegexValue(rng *h.Rng, cores []string) string {
	c := h.Pick(rng, cores)
	switch rng.Intn(9) {
	case 0, 1:
		return c
	case 2:
		return c + h.Pick(rng, []string{"or", "-exporter", "x", "s", "1", "y"})
	case 3:
		return h.Pick(rng, []string{"x", "my", "1", "a-"}) + c
	case 4:
		return h.Pick(rng, []string{"x", "my"}) + c + h.Pick(rng, []string{"y", "s1", "or"})
	case 5:
		return c + "s"
	case 6:
		return c + h.Pick(rng, []string{"1", "x", "y"})
	case 7:
		return c + h.Pick(rng, c17Lits)
	}
	return h.Pick(rng, c17Lits)
}

// c17GrammarMatcher rewrites a generated case so that one regular-expression matcher drawn from the grammar decides
// the selection: the label it is on gets values derived from the pattern in most series.
func c17GrammarMatcher(rng *h.Rng, c *c17E2ECase) {
	pat, cores := c17GenRegex(rng)
	if _, err := regexp.Compile("^(?:" + pat + ")$"); err != nil {
		return
	}
	name := h.Pick(rng, []string{"job", "job", "env", "instance", "__name__"})
	seen := map[string]bool{}
	for i := range c.Series {
		s := &c.Series[i]
		if name == "__name__" || rng.Chance(80) {
			v := c17RegexValue(rng, cores)
			found := false
			for j := range s.Labels {
				if s.Labels[j][0] == name {
					s.Labels[j][1] = v
					found = true
				}
			}
			if !found {
				s.Labels = append(s.Labels, [2]string{name, v})
			}
		}
		// label sets stay pairwise distinct (a fingerprint identifies a label set)
		for k := 0; ; k++ {
			st := append([][2]string(nil), s.Labels...)
			sort.Slice(st, func(a, b int) bool { return st[a][0] < st[b][0] })
			key := fmt.Sprint(st)
			if !seen[key] {
				seen[key] = true
				break
			}
			for j := range s.Labels {
				if s.Labels[j][0] == "__name__" {
					s.Labels[j][1] += strconv.Itoa(k)
					break
				}
			}
		}
	}
	typ := "=~"
	if rng.Chance(40) {
		typ = "!~"
	}
	c.Matchers = []c17E2EMatcher{{typ, name, pat}}
	if rng.Chance(30) {
		c.Matchers = append(c.Matchers, c17E2EMatcher{"=~", "__name__", ".+"})
	}
}

func c17GenE2E(rng *h.Rng) c17E2ECase {
	c := c17GenE2EBase(rng)
	if rng.Chance(35) {
		c17GrammarMatcher(rng, &c)
	}
	if rng.Chance(30) {
		c17MultiDay(rng, &c)
	}
	return c
}

func c17GenE2EBase(rng *h.Rng) c17E2ECase {

	c := c17E2ECase{Stream: "e2e", Start: c17Base + int64(rng.Intn(3))*15000 + int64(rng.Intn(2))*7, End: 0}
	c.End = c.Start + int64(rng.Range(1, 5))*10
	nser := rng.Range(1, 8)
	seen := map[string]bool{}
	fp := uint64(rng.Range(1, 50))
	for i := 0; i < nser; i++ {
		s := c17E2ESeries{Fp: fp, Type: 2}
		fp += uint64(rng.Range(1, 1000))
		switch rng.Intn(12) {
		case 0:
			s.Type = 0
		case 1:
			s.Type = 1
		}
		for _, n := range c17Names {
			if n == "__name__" || rng.Chance(50) {
				s.Labels = append(s.Labels, [2]string{n, h.Pick(rng, c17Vals[n])})
			}
		}
		key := fmt.Sprint(s.Labels)
		if seen[key] {
			continue
		}
		seen[key] = true
		for j := len(s.Labels) - 1; j > 0; j-- {
			k := rng.Intn(j + 1)
			s.Labels[j], s.Labels[k] = s.Labels[k], s.Labels[j]
		}
		ns := rng.Range(0, 5)
		val := int64(i * 100)
		for j := 0; j < ns; j++ {
			var ts int64
			switch rng.Intn(8) {
			case 0:
				ts = c.Start
			case 1:
				ts = c.End
			case 2:
				ts = c.Start - 1
			case 3:
				ts = c.End + 1
			default:
				ts = c.Start + int64(rng.Intn(int(c.End-c.Start)+1))
			}
			dup := false
			for _, x := range s.Samples {
				if x[0] == ts {
					dup = true
				}
			}
			if !dup {
				s.Samples = append(s.Samples, [2]int64{ts, val})
				val++
			}
		}
		c.Series = append(c.Series, s)
	}
	nm := rng.Range(1, 4)
	if rng.Chance(6) {
		nm = rng.Range(9, 10)
	}
	for i := 0; i < nm; i++ {
		n := h.Pick(rng, c17Names)
		if i == 0 && rng.Chance(85) {
			c.Matchers = append(c.Matchers, c17E2EMatcher{"=", "__name__", h.Pick(rng, c17Vals["__name__"])})
			continue
		}
		if nm > 8 {
			// many matchers: mostly ones every series can satisfy
			c.Matchers = append(c.Matchers, c17E2EMatcher{"=~", "__name__", h.Pick(rng, []string{".+", "u.*|m", ".*"})})
			continue
		}
		switch rng.Intn(4) {
		case 0:
			c.Matchers = append(c.Matchers, c17E2EMatcher{"=", n, h.Pick(rng, c17Vals[n])})
		case 1:
			c.Matchers = append(c.Matchers, c17E2EMatcher{"!=", n, h.Pick(rng, append([]string{""}, c17Vals[n]...))})
		case 2:
			c.Matchers = append(c.Matchers, c17E2EMatcher{"=~", n, h.Pick(rng, c17Regex)})
		default:
			c.Matchers = append(c.Matchers, c17E2EMatcher{"!~", n, h.Pick(rng, c17Regex)})
		}
	}
	return c
}

func c17E2E(r *h.Result, rng *h.Rng, n int) error {
	r.Stream("e2e: (tie) the fp_sel sub-query of the emitted statement executed alone by the reference interpreter vs Prom.FpQuery.eval over the same index rows (c17fpeval; match() answers handed to the driver); real Select → SQL text → reference interpreter (fakes.DB: UInt8 typing of bitShiftLeft, unanchored match) over a generated label index / series / samples → scripted driver → real row loop; oracle: Prometheus labels.Matcher.Matches on the stored label sets and the inclusive window")
	sc := fakes.NewScript(nil)
	defer sc.Close()
	q, err := c17Querier(sc, "c17-e2e")
	if err != nil {
		return err
	}
	var ops, impl []string
	var cases []any
	for i := 0; i < n; i++ {
		c := c17GenE2E(rng)
		op, im, err := c17RunE2ETie(r, sc, q, &c)
		if err != nil {
			return err
		}
		if op != "" {
			ops, impl, cases = append(ops, op), append(impl, im), append(cases, c)
		}
		b, _ := json.Marshal(struct {
			S []c17E2ESeries
			M []c17E2EMatcher
		}{c.Series, c.Matchers})
		neg := false
		for _, m := range c.Matchers {
			if m.Type != "=" {
				neg = true
			}
			r.Count("e2e:matcher " + m.Type)
		}
		r.Case("e2e:"+strconv.FormatInt(c.Start, 10)+string(b), len(c.Series) >= 2 && neg)
		r.Count(fmt.Sprintf("e2e:matchers=%d", len(c.Matchers)))
		r.Count(fmt.Sprintf("e2e:midnights in window=%d", (c.End/c17DayMs)-(c.Start/c17DayMs)))
		if c.End/c17DayMs > c.Start/c17DayMs {
			if c.Start%c17DayMs < 30*60000 {
				r.Count("e2e:multi-day, start in the first half hour of a day")
			}
			if c.End%c17DayMs < 30*60000 {
				r.Count("e2e:multi-day, end in the first half hour of a day")
			}
			for _, s := range c.Series {
				first, last, in := false, false, false
				for _, sm := range s.Samples {
					if sm[0] >= c.Start && sm[0] <= c.End {
						in = true
						first = first || sm[0]/c17DayMs == c.Start/c17DayMs
						last = last || sm[0]/c17DayMs == c.End/c17DayMs
					}
				}
				switch {
				case in && !last:
					r.Count("e2e:multi-day series with in-window samples, none on the last day")
				case in && !first:
					r.Count("e2e:multi-day series with in-window samples, none on the first day")
				case in:
					r.Count("e2e:multi-day series on the first and the last day")
				}
			}
		}
		if i%97 == 0 {
			r.Sample(c)
		}
	}
	if err := c17LblFetchFlush(r, "e2e"); err != nil {
		return err
	}
	return r.Compare("e2e", ops, impl, cases)
}

func init() {
	c17Streams = append(c17Streams, func(r *h.Result, rng *h.Rng, tier string) error {
		n := 600
		if tier != "quick" {
			n = 20000
		}
		r.Rule += "; e2e: 1..8 series over label names {__name__, job, env, instance, a} (each non-name label present with probability 1/2; values incl. quote/backslash/space), types 2/0/1, 0..5 samples at start−1, start, inside, end, end+1; 1..4 matchers (6%: 9..10) of all four types on present and absent labels, regexes incl. unanchored-sensitive ones (p, x, d), empty and .*; 35 % of the cases: one =~ / !~ matcher drawn from a regular-expression grammar (1..3 top-level alternatives, each with optional leading/trailing .*, user-written ^ $, groups, (?:), .+, ?, character classes) on a label whose stored values are the literals of the pattern with characters added in front / behind / both (err: error, xerr, xerry); non-trivial = ≥ 2 series and a matcher other than ="
		return c17E2E(r, rng, n)
	})
	c17ReplayMore["e2e"] = func(r *h.Result, raw json.RawMessage) error {
		var c c17E2ECase
		if err := json.Unmarshal(raw, &c); err != nil {
			return err
		}
		sc := fakes.NewScript(nil)
		defer sc.Close()
		q, err := c17Querier(sc, "c17-e2e-replay")
		if err != nil {
			return err
		}
		r.Case("replay", true)
		op, im, err := c17RunE2ETie(r, sc, q, &c)
		if ferr := c17LblFetchFlush(r, "e2e"); ferr != nil {
			return ferr
		}
		if err != nil || op == "" {
			return err
		}
		return r.Compare("e2e", []string{op}, []string{im}, []any{c})
	}
}
