package main

import (
	"fmt"
	"math/big"
	"regexp"
	"strings"
	"time"

	traceql_parser "github.com/metrico/qryn/reader/traceql/parser"
	"github.com/metrico/qryn/reader/traceql/transpiler/clickhouse_transpiler"
	"verif/harness/h"
)

// ---- extension c11y: duration units and chains of selectors

var tqUnitNs = map[string]int64{"ns": 1, "us": 1000, "ms": 1000000, "s": 1000000000, "m": 60000000000, "h": 3600000000000}

type tqDurLit struct {
	Neg        bool
	Int, Frac  string
	Dot        bool
	Unit       string // "" = none
	classLabel string
}

func (l tqDurLit) text() string {
	s := ""
	if l.Neg {
		s = "-"
	}
	s += l.Int
	if l.Dot {
		s += "." + l.Frac
	}
	return s + l.Unit
}

func digitsOf(r *h.Rng, n int) string {
	var sb strings.Builder
	for i := 0; i < n; i++ {
		if r.Chance(25) {
			sb.WriteByte('0')
		} else {
			sb.WriteByte(byte('0' + r.Intn(10)))
		}
	}
	return sb.String()
}

// genDurLit: every unit, integer parts up to the int64 overflow of each unit (and beyond), up to 12 fractional digits
func genDurLit(r *h.Rng) tqDurLit {
	l := tqDurLit{Unit: h.Pick(r, []string{"ns", "us", "ms", "s", "m", "h", "ns", "us", "ms", "s", "m", "h", "d", ""})}
	switch r.Intn(6) {
	case 0: // around the overflow of this unit: ⌊2^63 / unit⌋ ± small
		k := int64(1)
		if u, ok := tqUnitNs[l.Unit]; ok {
			k = u
		}
		b := new(big.Int).Lsh(big.NewInt(1), 63)
		b.Div(b, big.NewInt(k))
		b.Add(b, big.NewInt(int64(r.Intn(5))-2))
		l.Int = b.String()
	case 1: // around 2^53 ns: where float64 stops being exact
		k := int64(1)
		if u, ok := tqUnitNs[l.Unit]; ok {
			k = u
		}
		b := new(big.Int).Lsh(big.NewInt(1), 53)
		b.Div(b, big.NewInt(k))
		b.Add(b, big.NewInt(int64(r.Intn(2000))))
		l.Int = b.String()
	case 2:
		l.Int = digitsOf(r, r.Range(1, 21))
	default:
		l.Int = h.Pick(r, []string{"0", "1", "2", "15", "100", "250", "999", "007", "00", "86400"})
	}
	if r.Chance(45) {
		l.Dot = true
		if !r.Chance(10) {
			l.Frac = digitsOf(r, r.Range(1, 12))
		}
	}
	l.Neg = r.Chance(15)
	return l
}

// exactDur: the TraceQL reading with exact arithmetic: ⌊(int.frac)·unit⌋ ns, "fits" = representable as int64 with the sign
func exactDur(l tqDurLit) (ns *big.Int, fits bool, ok bool) {
	unit, has := tqUnitNs[l.Unit]
	if !has {
		return nil, false, false
	}
	I, _ := new(big.Int).SetString(l.Int, 10)
	F := big.NewInt(0)
	if l.Frac != "" {
		F.SetString(l.Frac, 10)
	}
	sc := new(big.Int).Exp(big.NewInt(10), big.NewInt(int64(len(l.Frac))), nil)
	v := new(big.Int).Mul(I, sc)
	v.Add(v, F)
	v.Mul(v, big.NewInt(unit))
	v.Div(v, sc)
	lim := new(big.Int).Lsh(big.NewInt(1), 63)
	if !l.Neg {
		lim.Sub(lim, big.NewInt(1))
	}
	fits = v.Cmp(lim) <= 0
	if l.Neg {
		v.Neg(v)
	}
	return v, fits, true
}

func durErrKind(err error) string {
	s := err.Error()
	switch {
	case strings.Contains(s, "unknown unit"):
		return "ERR unknown-unit"
	case strings.Contains(s, "missing unit"):
		return "ERR missing-unit"
	}
	return "ERR invalid"
}

var reAggLit = regexp.MustCompile(`If\(agg_val, isNotNull\(agg_val\)\)\) (==|!=|>=|<=|>|<) \((-?[0-9]+\.[0-9]+)\)`)
var reCondLit = regexp.MustCompile(`\(traces_idx\.duration\) (==|!=|>=|<=|>|<) \((-?[0-9]+)\)`)

// c11Units: (C) time.ParseDuration and float64/%f on the literal vs Units.goParseDuration / f64Text; the REAL planner's literal
// (AggregatorPlanner.cmpVal through Process → String; getTermDuration) vs the exact TraceQL value (oracle, math/big)
func c11Units(r *h.Rng, res *h.Result, n int) error {
	res.Stream("units: duration literals (every unit ns us ms s m h, d, none; integer parts up to and beyond the int64 overflow of the unit and around 2^53 ns; ≤ 12 fractional digits; sign) → time.ParseDuration + float64 + %f vs Units.goParseDuration / f64Text; oracle: the literal in the REAL SQL of `| max(duration) > lit` and `{duration > lit}` is the exact value ⌊lit·unit⌋ ns (math/big), float64-rounded for the aggregate, refused when it does not fit")
	var ops, impl []string
	var cases []any
	for i := 0; i < n; i++ {
		l := genDurLit(r)
		txt := l.text()
		out := ""
		d, err := time.ParseDuration(txt)
		if err != nil {
			out = durErrKind(err)
		} else {
			out = fmt.Sprintf("OK %d %f", d.Nanoseconds(), float64(d.Nanoseconds()))
		}
		fr := l.Frac
		if fr == "" {
			fr = "-"
		}
		un := l.Unit
		if un == "" {
			un = "-"
		}
		ops = append(ops, fmt.Sprintf("c11dur %d %s %d %s %s", b2i(l.Neg), l.Int, b2i(l.Dot), fr, un))
		impl = append(impl, out)
		cases = append(cases, map[string]any{"literal": txt})
		// the theorems' own classes
		ex, fits, hasUnit := exactDur(l)
		class := ""
		switch {
		case l.Unit == "d":
			class = "unit-d-refused"
		case l.Unit == "":
			class = "no-unit"
		case !fits:
			class = "overflow-refused"
		case new(big.Int).Abs(ex).Cmp(new(big.Int).Lsh(big.NewInt(1), 53)) >= 0:
			class = "fits:above-2^53(float64-rounded)"
		default:
			class = "fits:exact"
		}
		res.Count("units:" + class)
		res.Count("units:unit=" + un)
		res.Case("units:"+txt, hasUnit && fits)
		// oracle 1: the Go function against the exact reading
		if hasUnit {
			switch {
			case fits && err != nil:
				res.Violate("C11/duration-literal/refused-though-representable", txt+": "+err.Error(), map[string]any{"kind": "units", "case": l})
			case !fits && err == nil:
				res.Violate("C11/duration-literal/accepted-though-overflow", fmt.Sprintf("%s → %d", txt, d.Nanoseconds()), map[string]any{"kind": "units", "case": l})
			case fits && big.NewInt(d.Nanoseconds()).Cmp(ex) != 0:
				res.Violate("C11/duration-literal/unit-conversion/"+l.Unit, fmt.Sprintf("%s → %d ns, exact %s ns", txt, d.Nanoseconds(), ex), map[string]any{"kind": "units", "case": l})
			}
		}
		// oracle 2: the literal the REAL planner writes (aggregate needs a non-negative grammar-conform literal: Num allows the minus)
		if i%3 == 0 {
			q := "{.a=\"x\"} | " + h.Pick(r, []string{"max", "min", "avg", "sum"}) + "(duration) > " + txt
			c := tqctx{From: 1700000000e9, To: 1700003600e9, Limit: 20}
			texts, script, perr := implTraceSQL(q, c, 1)
			if script != nil {
				judgeLit(res, "agg", q, texts, perr, reAggLit, ex, fits, hasUnit, l, true)
			}
			if !l.Neg {
				q2 := "{duration > " + txt + "}"
				texts, script, perr = implTraceSQL(q2, c, 1)
				if script != nil && script.Head.AttrSelector != nil && script.Head.AttrSelector.Head != nil && script.Head.AttrSelector.Head.Val.TimeVal != "" {
					judgeLit(res, "cond", q2, texts, perr, reCondLit, ex, fits, hasUnit, l, false)
				}
			}
		}
	}
	return res.Compare("units", ops, impl, cases)
}

func f64RoundBig(v *big.Int) string {
	f, _ := new(big.Float).SetInt(v).Float64()
	return fmt.Sprintf("%f", f)
}

func judgeLit(res *h.Result, kind, q string, texts []string, perr error, re *regexp.Regexp, ex *big.Int, fits, hasUnit bool, l tqDurLit, isFloat bool) {
	res.Count("units:real-" + kind)
	if perr != nil || len(texts) == 0 {
		if hasUnit && fits {
			res.Violate("C11/duration-literal/"+kind+"-refused-though-representable", q+": "+fmt.Sprint(perr), map[string]any{"kind": "units", "case": l, "query": q})
		}
		return
	}
	if !hasUnit || !fits {
		if !(l.Unit == "" && strings.Trim(l.Int, "0") == "" && len(l.Int) == 1 && !l.Dot) { // the literal 0 needs no unit
			res.Violate("C11/duration-literal/"+kind+"-accepted-without-meaning", q+" → "+texts[0], map[string]any{"kind": "units", "case": l, "query": q})
		}
		return
	}
	m := re.FindStringSubmatch(texts[0])
	if m == nil {
		res.Violate("C11/duration-literal/"+kind+"-literal-not-found", q+" → "+texts[0], map[string]any{"kind": "units", "case": l, "query": q})
		return
	}
	want := ex.String()
	if isFloat {
		want = f64RoundBig(ex)
	}
	if m[2] != want {
		res.Violate("C11/duration-literal/"+kind+"-unit-conversion/"+l.Unit, fmt.Sprintf("%s: SQL compares with %s, the literal is %s ns", q, m[2], want), map[string]any{"kind": "units", "case": l, "query": q})
	}
}

// ---- chains of selectors: the tree of planner objects the REAL planComplex builds (exported fields), against the pointer
// algorithm as modelled (ComplexHeap.planShape) and the closed form the theorems are about (planTree)

func realShape(p any, n int) string {
	switch x := p.(type) {
	case *clickhouse_transpiler.IndexLimitPlanner:
		return realShape(x.Main, n)
	case *clickhouse_transpiler.TracesDataPlanner:
		return realShape(x.Main, n)
	case *clickhouse_transpiler.ComplexOrPlanner:
		return realNode("O", x.Prefix, x.Operands, n)
	case *clickhouse_transpiler.ComplexAndPlanner:
		return realNode("A", x.Prefix, x.Operands, n)
	case *clickhouse_transpiler.IndexGroupByPlanner:
		idx := -1
		if a, ok := x.Main.(*clickhouse_transpiler.AttrConditionPlanner); ok && len(a.Terms) == 1 {
			fmt.Sscanf(a.Terms[0].Label, ".k%d", &idx)
		}
		// the model names a selector by the length of the script suffix that starts at it
		return fmt.Sprintf("S%d:%s", n-idx, strings.TrimPrefix(x.Prefix, "_"))
	}
	return fmt.Sprintf("?%T", p)
}

func realNode[T any](tag, prefix string, ops []T, n int) string {
	parts := []string{tag + strings.TrimPrefix(prefix, "_")}
	for _, o := range ops {
		parts = append(parts, realShape(any(o), n))
	}
	return "(" + strings.Join(parts, " ") + ")"
}

func chainClass(ops []string) string {
	and, or := 0, 0
	for _, o := range ops[:len(ops)-1] {
		if o == "and" {
			and++
		} else if o == "or" {
			or++
		}
	}
	switch {
	case and > 0 && or > 0:
		return "mixed"
	case and > 0:
		return "all-and"
	case or > 0:
		return "all-or"
	}
	return "single"
}

func c11Heap(r *h.Rng, res *h.Result, n int) error {
	res.Stream("heap: chains of 2–9 selectors with && / || between them (also a missing operator and a dangling one) → REAL clickhouse_transpiler.Plan → the tree of planner objects (Complex{And,Or}Planner.Operands / .Prefix, walked through the exported fields) vs ComplexHeap.planShape (the pointer algorithm as written) and planTree (the closed form of the theorems): the three must be the same tree with the same prefixes")
	var ops, impl []string
	var cases []any
	for i := 0; i < n; i++ {
		k := r.Range(2, 9)
		if r.Chance(60) {
			k = r.Range(3, 6)
		}
		seq := make([]string, k)
		var sb strings.Builder
		for j := 0; j < k; j++ {
			fmt.Fprintf(&sb, "{.k%d = %d}", j, j)
			o := "none"
			if j < k-1 {
				o = h.Pick(r, []string{"and", "or"})
				if r.Chance(2) {
					o = "none"
				}
			} else if r.Chance(3) {
				o = h.Pick(r, []string{"and", "or"})
			}
			seq[j] = o
			sb.WriteString(map[string]string{"and": " && ", "or": " || ", "none": " "}[o])
		}
		q := strings.TrimSpace(sb.String())
		shape := "ERR"
		func() {
			defer func() {
				if rec := recover(); rec != nil {
					shape = "ERR"
				}
			}()
			script, err := traceql_parser.Parse(q)
			if err != nil {
				shape = "PARSE"
				return
			}
			p, err := clickhouse_transpiler.Plan(script)
			if err != nil {
				return
			}
			shape = realShape(p, k)
		}()
		if shape == "PARSE" {
			res.Count("heap:parse-error")
			continue
		}
		ops = append(ops, "c11heap "+strings.Join(seq, ","))
		impl = append(impl, shape+" "+shape)
		cases = append(cases, map[string]any{"query": q})
		res.Count(fmt.Sprintf("heap:selectors=%d", k))
		res.Count("heap:chain:" + chainClass(seq))
		res.Case("heap:"+q, shape != "ERR" && k >= 3 && chainClass(seq) == "mixed")
	}
	return res.Compare("heap", ops, impl, cases)
}
