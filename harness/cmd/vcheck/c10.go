package main

import (
	"fmt"
	"strings"

	sql "github.com/metrico/qryn/reader/utils/sql_select"
	"verif/harness/h"
)

func init() { props["C10"] = c10 }

func implQuote(s []byte) string {
	out, err := sql.NewStringVal(string(s)).String(sql.DefaultCtx())
	if err != nil {
		return "err"
	}
	return h.Hex([]byte(out))
}

// c10Escape: StringVal.String vs the model's `quote`; oracle = the model lexer reads the implementation's
// text back as exactly one literal decoding to the input.
func c10Escape(r *h.Result, rng *h.Rng, n int) error {
	r.Stream("escape: sql_select.StringVal.String vs Sql.quote; oracle lexes the implementation's text")
	var ops, impl, lexOps []string
	var inputs [][]byte
	corpus := [][]byte{nil, []byte("'"), []byte("\\"), []byte("\\'"), []byte("a' OR 1=1 --"), {0}, {0x1a}, []byte("''"),
		[]byte("\\x27"), []byte("x\\"), []byte("/*"), []byte("*/ '"), []byte("\n\r\b\t"), {0xff, 0x27, 0xfe}}
	for i := 0; i < n; i++ {
		var s []byte
		if i < len(corpus) {
			s = corpus[i]
		} else {
			s = rng.Bytes(24)
		}
		inputs = append(inputs, s)
		out := implQuote(s)
		ops = append(ops, "quote "+h.Hex(s))
		impl = append(impl, out)
		lexOps = append(lexOps, "lex "+out)
		special := false
		for _, c := range s {
			if strings.IndexByte("'\\\x00\n\r\b\t\x1a", c) >= 0 {
				special = true
			}
		}
		r.Case("escape:"+h.Hex(s), special)
		if special {
			r.Count("escape:with-escaped-byte")
		} else {
			r.Count("escape:plain")
		}
		if i%97 == 0 {
			r.Sample(map[string]string{"stream": "escape", "input_hex": h.Hex(s), "impl_sql_hex": out})
		}
	}
	if err := r.Compare("escape", ops, impl, nil); err != nil {
		return err
	}
	toks, err := h.Model(lexOps)
	if err != nil {
		return err
	}
	for i, t := range toks {
		want := "S:" + h.Hex(inputs[i])
		if t != want {
			r.Violate("C10/stringval/"+h.Hex(inputs[i]), fmt.Sprintf("StringVal(%q) renders %q which lexes as [%s], not one literal decoding to the input", inputs[i], h.UnHex(impl[i]), t),
				map[string]string{"stream": "escape", "input_hex": h.Hex(inputs[i]), "impl_sql_hex": impl[i], "tokens": t})
		}
	}
	return nil
}

func c10(r *h.Result, rng *h.Rng, tier string, replay string) error {
	n := 2000
	if tier == "thorough" {
		n = 100000
	}
	r.Rule = "escape: byte strings ≤24 bytes, 1/4 uniform bytes, 1/2 SQL/LIKE/JSON metacharacters, 1/4 letters, after a fixed adversarial corpus; non-trivial = contains a byte the escape table rewrites; distinct by input. " +
		"taint: every position of c10_positions.go × router configuration (versions / old layout / cluster) × 3 (quick) or 20 (thorough) markers Head++hostile++Tail — first marker always '\\, then 1–6 fragments (70% from a dictionary of quotes, backslashes, NUL, newlines, comment openers, LIKE wildcards, invalid UTF-8, query-language punctuation; else random bytes / letters), narrowed per level to what the transport or grammar carries; the second marker of every position is preceded by a digit-led fragment, the third by another hostile leading fragment (quote, backslash, sign, bracket, blank …), later ones in half of the cases; each reaching marker is paired with the harmless marker Head++abc++Tail; all cases non-trivial; distinct by position, configuration, level, marker. " +
		"inventory: one case per Gen.Params entry. leaves: the positions that carry query-language text × 2 (single node / cluster) × the same marker counts, plus the non-language string arguments (label, tag, group_by, label_names). " +
		"grammar: one case per token-capturing grammar field (Gen.GrammarFields). jsonparser: 600 (quick) / 20000 `| json` queries with 1–3 parameters of 1–4 path parts (identifier, [N], quoted name; a third of the names digit-led), distinct by query. " +
		"format: 400 (quick) / 12000 objects, half line_format templates of 0–5 pieces (hostile text incl. `{0}`, quotes, backslashes; `{{.field}}`, chained fields, string nodes), half label_format stages of 1–3 operations (rename / template constant), distinct by template. " +
		"tempo: 400 / 12000: 3/4 searches with 0–3 tags (names/values hostile valid UTF-8, literal or quoted syntax; the four conditions; from/to/min/max/limit at 0 and not; schema version flag on/off/late), 1/4 trace-by-id + tag-values with arbitrary bytes. " +
		"shape-metric: 400 / 12000 metric queries of C08's generator (range / vector aggregation / topk, unwrap, by/without, comparisons, ms durations) paired the same way. " +
		"shape: 400 / 12000 queries of C07's extended generator, each paired with a copy whose string leaves are all replaced (hostile text), distinct by pair. " +
		"shape-metricx: 400 / 12000 metric queries of C08's labelled-path generator (| json / | regexp / | drop inside the selector, quantile_over_time) paired the same way. " +
		"shape-traceql: 400 / 12000 TraceQL scripts of C11's generator (1–3 selectors, nested and/or, aggregators, repeated terms; every 23rd a `{}` form), half through Plan, a quarter each through PlanTagsV2 / PlanValuesV2, paired with a copy whose attribute names (behind the scope prefix), string values and aggregated attribute are replaced injectively. " +
		"prof-segs: 300 / 6000 Pyroscope plans, the ten statement kinds in turn, 0–3 selectors (names from the label / pseudo-label pools, values: 30% random bytes, else hostile fragments, half of them repaired to valid UTF-8), type-id parts, 0–2 group_by / label_names entries, label; each built a second time with harmless strings. " +
		"text/tags/fpsql/profsql/textx/model-series/model-prof-plans/promlabels: the generators of C07, C08, C11, C17, C07ext, C13, C08ext, C13 (Pyroscope plans), C17 (Prometheus metadata endpoints through the real router), 150 (quick) / 3000 cases each"
	if err := c10Escape(r, rng.Fork(), n); err != nil {
		return err
	}
	// the position inventory as the Lean side has it (Gen.Params)
	ans, err := h.Model([]string{"c10params"})
	if err != nil {
		return err
	}
	var inventory []string
	if ans[0] != "" {
		inventory = strings.Split(ans[0], ";")
	}
	per := 3
	if tier != "quick" {
		per = 20
	}
	restore := c10Silence() // the services print every query
	defer restore()
	if err := c10Taint(r, rng.Fork(), per, inventory); err != nil {
		return err
	}
	if err := c10Leaves(r, rng.Fork(), per); err != nil {
		return err
	}
	nj := 600
	if tier != "quick" {
		nj = 20000
	}
	if err := c10JsonParser(r, rng.Fork(), nj); err != nil {
		return err
	}
	// the SQL objects of | line_format / | label_format, legacy Tempo, two requests of the same shape, the census numbers
	no := 400
	if tier != "quick" {
		no = 12000
	}
	if err := c10Format(r, rng.Fork(), no); err != nil {
		return err
	}
	if err := c10TempoModel(r, rng.Fork(), no); err != nil {
		return err
	}
	if err := c10Shape(r, rng.Fork(), no); err != nil {
		return err
	}
	if err := c10ShapeMetric(r, rng.Fork(), no); err != nil {
		return err
	}
	if err := c10ShapeMetricX(r, rng.Fork(), no); err != nil {
		return err
	}
	if err := c10ShapeTraceQL(r, rng.Fork(), no); err != nil {
		return err
	}
	if err := c10Census(r); err != nil {
		return err
	}
	// the tie of the planner models the C10 theorems are about (plan_closed_log/metric/traceql, fpquery_closed,
	// pquery_closed) to the real planners: the byte-equality streams of C07 / C08 / C11 / C17, run here too on their
	// generators (request strings include quotes, backslashes, NUL, comment openers)
	nt := 150
	if tier != "quick" {
		nt = 3000
	}
	if err := c07Text(r, rng.Fork(), nt); err != nil {
		return err
	}
	if err := c08Text(r, rng.Fork(), nt, mgen{extraFns: true, ms: true}); err != nil {
		return err
	}
	if err := c11Text(rng.Fork(), r, nt, 3, false); err != nil {
		return err
	}
	if err := c11Tags(rng.Fork(), r, nt); err != nil {
		return err
	}
	if err := c17FpSQL(r, rng.Fork(), nt); err != nil {
		return err
	}
	if err := c17Prof(r, rng.Fork(), nt); err != nil {
		return err
	}
	// … plan_closed_logx / plan_closed_script (C07's extended text tie) and plan_closed_series / plan_closed_values (C13's)
	if err := c07TextX(r, rng.Fork(), nt, nil); err != nil {
		return err
	}
	if err := c13ModelSeries(r, rng.Fork(), nt); err != nil {
		return err
	}
	// … plan_closed_prof_* (C13's byte-equal tie of the Pyroscope `Sel` terms, and the tie of the C10 segment views themselves)
	// and plan_closed_prom_labels / _values / _series (C17's tie of the Prometheus metadata statements through the real router)
	if err := c13ModelProfPlans(r, rng.Fork(), nt); err != nil {
		return err
	}
	if err := c10ProfSegs(r, rng.Fork(), 2*nt); err != nil {
		return err
	}
	if err := c17LblStream(r, rng.Fork(), nt); err != nil {
		return err
	}
	// … plan_closed_metricx / same_shape_metricx (C08's text tie of the labelled metric path)
	if err := c08TextX(r, rng.Fork(), nt, mgen{extraFns: true, ms: true}); err != nil {
		return err
	}
	return nil
}
