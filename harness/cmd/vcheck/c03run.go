package main

// C03: running the real ingest parsers of /repo on real bytes and collecting what they emit.

import (
	"bytes"
	"context"
	"encoding/json"
	"fmt"
	"sort"
	"strings"
	"sync"
	"time"
	"unicode/utf8"
	"unsafe"

	"github.com/go-faster/city"
	"github.com/go-faster/jx"
	clconfig "github.com/metrico/cloki-config"
	"github.com/metrico/qryn/writer/config"
	"github.com/metrico/qryn/writer/model"
	"github.com/metrico/qryn/writer/utils/heputils/cityhash102"
	"github.com/metrico/qryn/writer/utils/numbercache"
	"github.com/metrico/qryn/writer/utils/unmarshal"
)

// ---- what a parser emitted (one c03Chunk per ParserResponse, in channel order)

type c03Row struct {
	Fp   uint64 `json:"fp"`
	Ts   int64  `json:"ts"`
	Line string `json:"line"`
	Val  uint64 `json:"val_bits"`
	Tp   uint8  `json:"type"`
	Ttl  uint16 `json:"ttl"`
}

type c03Series struct {
	Date   int64  `json:"date"`
	Fp     uint64 `json:"fp"`
	Labels string `json:"labels"` // the Go-quoted document the builder made
	Tp     uint8  `json:"type"`
	Ttl    uint16 `json:"ttl"`
}

type c03Chunk struct {
	Err       string      `json:"err,omitempty"`
	NonRect   string      `json:"nonrect,omitempty"` // column lengths when they differ
	Rows      []c03Row    `json:"rows"`
	Series    []c03Series `json:"series"`
	SplSize   int         `json:"spl_size"`
	TsSize    int         `json:"ts_size"`
	NilFields bool        `json:"nil_fields,omitempty"`
}

var c03Once sync.Once
var c03Cache *numbercache.Cache[uint64]
var c03NodeMap = map[string]*model.DataDatabasesMap{}
var c03NodeSeq int

func c03Setup() {
	c03Once.Do(func() {
		config.Cloki = clconfig.New(clconfig.CLOKI_WRITER, nil, "", "")
		c03Cache = numbercache.NewCache[uint64](time.Hour, func(v uint64) []byte {
			return unsafe.Slice((*byte)(unsafe.Pointer(&v)), 8)
		}, c03NodeMap)
	})
}

// c03FreshCache: the real number cache of the writer under a node name nobody used before (= empty cache)
func c03FreshCache() numbercache.ICache[uint64] {
	c03Setup()
	c03NodeSeq++
	name := fmt.Sprintf("n%d", c03NodeSeq)
	c03NodeMap[name] = &model.DataDatabasesMap{}
	return c03Cache.DB(name)
}

// c03Run feeds body to one of the exported parsers and collects every response.
// ttl = value of the X-Ttl-Days header as the middleware would put it into the context.
func c03Run(proto string, body []byte, ttl uint16) (chunks []c03Chunk, hang bool) {
	c03Setup()
	ctx := context.Background()
	ctx = context.WithValue(ctx, "META", "")
	ctx = context.WithValue(ctx, "TTL_DAYS", ttl)
	var fn unmarshal.ParsingFunction
	switch proto {
	case "loki":
		fn = unmarshal.DecodePushRequestStringV2
	case "lokiproto":
		fn = unmarshal.UnmarshalProtoV2
	case "prom":
		fn = unmarshal.UnmarshallMetricsWriteProtoV2
	case "influx":
		fn = unmarshal.UnmarshalInfluxDBLogsV2
		ctx = context.WithValue(ctx, "precision", time.Nanosecond)
	case "ddlogs":
		fn = unmarshal.UnmarshallDatadogV2JSONV2
	case "ddseries":
		fn = unmarshal.UnmarshallDatadogMetricsV2JSONV2
	case "otlp":
		fn = unmarshal.UnmarshalOTLPLogsV2
	default:
		panic("c03Run: unknown protocol " + proto)
	}
	ch := fn(ctx, bytes.NewReader(body), c03FreshCache())
	timeout := time.After(60 * time.Second)
	for {
		select {
		case resp, ok := <-ch:
			if !ok {
				return chunks, false
			}
			chunks = append(chunks, c03Collect(resp))
		case <-timeout:
			return chunks, true
		}
	}
}

func c03Collect(resp *model.ParserResponse) c03Chunk {
	var c c03Chunk
	if resp.Error != nil {
		c.Err = resp.Error.Error()
		return c
	}
	spl, ok1 := resp.SamplesRequest.(*model.TimeSamplesData)
	ts, ok2 := resp.TimeSeriesRequest.(*model.TimeSeriesData)
	if !ok1 || !ok2 || spl == nil || ts == nil {
		c.NilFields = true
		return c
	}
	n := len(spl.MTimestampNS)
	if len(spl.MFingerprint) != n || len(spl.MMessage) != n || len(spl.MValue) != n || len(spl.MType) != n || len(spl.MTTLDays) != n {
		c.NonRect = fmt.Sprintf("samples: timestamps=%d fingerprints=%d messages=%d values=%d types=%d ttl=%d",
			n, len(spl.MFingerprint), len(spl.MMessage), len(spl.MValue), len(spl.MType), len(spl.MTTLDays))
	}
	m := len(ts.MDate)
	if len(ts.MFingerprint) != m || len(ts.MLabels) != m || len(ts.MType) != m || len(ts.MTTLDays) != m {
		c.NonRect += fmt.Sprintf(" series: dates=%d fingerprints=%d labels=%d types=%d ttl=%d",
			m, len(ts.MFingerprint), len(ts.MLabels), len(ts.MType), len(ts.MTTLDays))
	}
	c.SplSize, c.TsSize = spl.Size, ts.Size
	if c.NonRect != "" {
		return c
	}
	for i := 0; i < n; i++ {
		c.Rows = append(c.Rows, c03Row{spl.MFingerprint[i], spl.MTimestampNS[i], spl.MMessage[i], mathBits(spl.MValue[i]), spl.MType[i], spl.MTTLDays[i]})
	}
	for i := 0; i < m; i++ {
		c.Series = append(c.Series, c03Series{ts.MDate[i].Unix(), ts.MFingerprint[i], ts.MLabels[i], ts.MType[i], ts.MTTLDays[i]})
	}
	return c
}

// ---- labels

type c03Label struct{ K, V string }

func c03SortLabels(ls []c03Label) []c03Label {
	out := append([]c03Label(nil), ls...)
	sort.SliceStable(out, func(i, j int) bool {
		if out[i].K != out[j].K {
			return out[i].K < out[j].K
		}
		return out[i].V < out[j].V
	})
	return out
}

// c03RealFingerprint: the writer's series fingerprint (unexported fingerprintLabels, CityHash setting) recomputed
// from the exported hash functions. It is order independent (C04's theorem), so any order of ls will do.
func c03RealFingerprint(ls []c03Label) uint64 {
	d := []uint64{0, 0, 1}
	for _, l := range ls {
		hash := cityhash102.Hash128to64(cityhash102.Uint128{city.CH64([]byte(l.K)), city.CH64([]byte(l.V))})
		d[0] += hash
		d[1] ^= hash
		d[2] *= 1779033703 + 2*hash
	}
	return city.CH64(unsafe.Slice((*byte)(unsafe.Pointer(&d[0])), 24))
}

// c03EncLen: byte length of the label document `encodeLabels` builds (a JSON object written with jx.Encoder)
func c03EncLen(ls []c03Label) int {
	e := jx.Encoder{}
	e.ObjStart()
	for _, l := range ls {
		e.FieldStart(l.K)
		e.Str(l.V)
	}
	e.ObjEnd()
	return len(e.Bytes())
}

// c03ParseLabelDoc reads a document made by encodeLabels back into its pairs, in order (nil, false if it is not
// a JSON object of strings).
func c03ParseLabelDoc(s string) ([]c03Label, bool) {
	if !utf8.ValidString(s) {
		return nil, false
	}
	ks, vs, err := orderedObject(json.RawMessage(s))
	if err != nil {
		return nil, false
	}
	var out []c03Label
	for i := range ks {
		var v string
		if json.Unmarshal(vs[i], &v) != nil {
			return nil, false
		}
		out = append(out, c03Label{ks[i], v})
	}
	return out, true
}

// ---- canonical text of a chunk sequence (the same format Driver/C03.lean prints)

func c03ShowLabels(ls []c03Label) string {
	if len(ls) == 0 {
		return "-"
	}
	parts := make([]string, len(ls))
	for i, l := range c03SortLabels(ls) {
		parts[i] = hexs(l.K) + "=" + hexs(l.V)
	}
	return strings.Join(parts, "+")
}

func hexs(s string) string {
	if s == "" {
		return "-"
	}
	const d = "0123456789abcdef"
	b := make([]byte, 2*len(s))
	for i := 0; i < len(s); i++ {
		b[2*i], b[2*i+1] = d[s[i]>>4], d[s[i]&15]
	}
	return string(b)
}

func joinOr(sep string, l []string) string {
	if len(l) == 0 {
		return "-"
	}
	return strings.Join(l, sep)
}

func c03Show(chunks []c03Chunk) string {
	var out []string
	for _, c := range chunks {
		if c.Err != "" {
			if strings.HasPrefix(c.Err, "panic:") {
				return "fault"
			}
			return "error"
		}
		if c.NilFields {
			out = append(out, "nil-requests")
			continue
		}
		if c.NonRect != "" {
			out = append(out, fmt.Sprintf("%d/%d/nonrect", c.SplSize, c.TsSize))
			continue
		}
		rows := make([]string, len(c.Rows))
		for i, r := range c.Rows {
			rows[i] = fmt.Sprintf("%d:%d:%s:%d:%d:%d", r.Fp, r.Ts, hexs(r.Line), r.Val, r.Tp, r.Ttl)
		}
		sr := make([]string, len(c.Series))
		for i, s := range c.Series {
			ls, ok := c03ParseLabelDoc(s.Labels)
			lt := "badlabels" + hexs(s.Labels)
			if ok {
				lt = c03ShowLabels(ls)
			}
			sr[i] = fmt.Sprintf("%d:%d:%s:%d:%d", s.Date, s.Fp, lt, s.Tp, s.Ttl)
		}
		sort.Strings(sr)
		out = append(out, fmt.Sprintf("%d/%d/%s/%s", c.SplSize, c.TsSize, joinOr(",", rows), joinOr(",", sr)))
	}
	return strings.Join(out, "|")
}
