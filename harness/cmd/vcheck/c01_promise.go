package main

// C01 — promise.Promise against Qryn.Ingest.PromiseModel.
//   promise-seq   sequential call lists (Done with distinct arguments, Get / GetCtx in between) on the real
//                 promise.Promise[uint32] vs the model with every goroutine run to completion in order
//   promise-conc  2–8 goroutines call Done(i, err_i) and 1–6 goroutines call Get on one real promise at once; oracle
//                 (no model; what C01.promise_once_exact proves for every schedule): no panic (close of a closed channel),
//                 every Get returns the SAME pair and that pair is (res_i, err_i) of ONE Done call — never the res of one
//                 and the err of another, never the zero value.

import (
	"context"
	"fmt"
	"strings"
	"sync"
	"time"

	"github.com/metrico/qryn/writer/utils/promise"
	"verif/harness/h"
)

func c01PromiseSeq(r *h.Result, rng *h.Rng, n int) error {
	r.Stream("promise-seq: call lists on the real promise.Promise[uint32] (Done(res, err) with distinct arguments, Get after the first Done, GetCtx with a cancelled context before it) vs PromiseModel.run with every goroutine run to completion in order")
	var ops, impl []string
	for i := 0; i < n; i++ {
		p := promise.New[uint32]()
		var ths, outs []string
		doneSeen := false
		k := 1 + rng.Intn(6)
		for j := 0; j < k; j++ {
			if rng.Chance(55) {
				res, e := uint32(1+rng.Intn(1000)), rng.Intn(4)
				var err error
				if e > 0 {
					err = fmt.Errorf("%d", e)
				}
				p.Done(res, err)
				doneSeen = true
				ths = append(ths, fmt.Sprintf("d%d.%d", res, e))
			} else {
				ths = append(ths, "g")
				if !doneSeen {
					// would block: GetCtx with a cancelled context must report the timeout and leave the promise alone
					_, err := p.GetCtx(cancelledCtx)
					if err != promise.GetContextTimeout {
						outs = append(outs, "returned-before-done")
					} else {
						outs = append(outs, "blocked")
					}
					continue
				}
				res, err, answered := c0102Get(p, c0102Deadline) // Get() after a Done: must return at once
				if !answered {
					outs = append(outs, "get-blocked-after-done")
					continue
				}
				e := "0"
				if err != nil {
					e = err.Error()
				}
				outs = append(outs, fmt.Sprintf("%d/%s", res, e))
			}
		}
		ops = append(ops, fmt.Sprintf("c01promise %s seq", strings.Join(ths, ",")))
		impl = append(impl, strings.Join(append([]string{"ok"}, outs...), " "))
		r.Case("promise-seq:"+strings.Join(ths, ","), doneSeen && len(outs) > 0)
	}
	return r.Compare("promise-seq", ops, impl, nil)
}

func c01PromiseConc(r *h.Result, rng *h.Rng, rounds int) {
	r.Stream("promise-conc: 2–8 goroutines Done(i, err_i) and 1–6 goroutines Get/GetCtx on one real promise.Promise at once, released together; oracle: no panic, all Gets return the same pair, which is the pair of one Done call")
	for i := 0; i < rounds; i++ {
		nd, ng := 2+rng.Intn(7), 1+rng.Intn(6)
		p := promise.New[uint32]()
		start := make(chan struct{})
		var wg sync.WaitGroup
		var mu sync.Mutex
		var panics []string
		type got struct {
			res uint32
			err string
		}
		gots := make([]got, ng)
		for d := 0; d < nd; d++ {
			wg.Add(1)
			go func(d int) {
				defer wg.Done()
				defer func() {
					if e := recover(); e != nil {
						mu.Lock()
						panics = append(panics, fmt.Sprint(e))
						mu.Unlock()
					}
				}()
				<-start
				p.Done(uint32(100+d), fmt.Errorf("e%d", 100+d))
			}(d)
		}
		for g := 0; g < ng; g++ {
			wg.Add(1)
			useCtx := rng.Bool()
			go func(g int) {
				defer wg.Done()
				<-start
				var res uint32
				var err error
				if useCtx {
					ctx, cancel := context.WithTimeout(context.Background(), 5*time.Second)
					res, err = p.GetCtx(ctx)
					cancel()
				} else {
					var answered bool
					res, err, answered = c0102Get(p, c0102Deadline)
					if !answered {
						err = promise.GetContextTimeout
					}
				}
				gots[g] = got{res, fmt.Sprint(err)}
			}(g)
		}
		close(start)
		if !c0102WaitGroup(&wg, 3*c0102Deadline) {
			r.Violate("C01/promise-call-never-returned", fmt.Sprintf("%d concurrent Done and %d concurrent Get calls on one promise: not all calls returned within %s", nd, ng, 3*c0102Deadline),
				map[string]any{"stream": "promise-conc", "done_callers": nd, "get_callers": ng})
			continue
		}
		r.Case(fmt.Sprintf("promise-conc:%d:%d:%d", nd, ng, i), true)
		r.Count(fmt.Sprintf("promise-conc:done-callers=%d", nd))
		replay := map[string]any{"stream": "promise-conc", "done_callers": nd, "get_callers": ng, "gets": fmt.Sprint(gots)}
		if len(panics) > 0 {
			r.Violate("C01/promise-done-panics", fmt.Sprintf("%d concurrent Done calls on one promise: %s", nd, panics[0]), replay)
			continue
		}
		for g := range gots {
			if gots[g] != gots[0] {
				r.Violate("C01/promise-gets-disagree", fmt.Sprintf("%d concurrent Done and %d concurrent Get calls on one promise: Get returned %v and %v", nd, ng, gots[0], gots[g]), replay)
			}
			if gots[g].res < 100 || int(gots[g].res) >= 100+nd || gots[g].err != fmt.Sprintf("e%d", gots[g].res) {
				r.Violate("C01/promise-torn-value", fmt.Sprintf("%d concurrent Done(i, e_i) calls on one promise: a Get returned (%d, %s), which is not the pair of one Done call", nd, gots[g].res, gots[g].err), replay)
			}
		}
	}
}
