package main

// Lock-window probe (C02, also run by C01): concurrent writers hammer Request of ONE real InsertServiceV2 sub-service
// while the harness steps flush iterations (PlanFlush + the verif hook VerifIterateIfDue) one after the other. The
// model treats swapBuffers and Request as atomic steps (Gen.BatcherLocks / C02.locks_atomic is the static tie); this
// stream is the dynamic one: whatever the writers manage to do between two lock holds of the flusher shows in the
// decoded blocks.
//
// Every INSERT fails with its own error ("probe-block-<k>") or succeeds, so a promise tells which block resolved it.
// Oracle (no model), on the blocks as the fake ClickHouse client received them: every row of every request (values
// tagged with request serial, row and field) is in exactly one block; all rows of a request are in the same block, in
// order; that block is the one whose outcome the promise of the request received; every block is rectangular and each
// of its rows is one submitted row.
//
// The window inside swapBuffers is stretched from outside, through the exported AcquireColumns field of the service:
// half of the rounds wrap it with a short pause (a slow allocator / a busy column pool). On the pinned code the pause
// is spent under the lock and changes nothing.

import (
	"fmt"
	"runtime"
	"strings"
	"sync"
	"sync/atomic"
	"time"

	"github.com/metrico/qryn/writer/service"
	"github.com/metrico/qryn/writer/utils/promise"
	"verif/harness/h"
)

type probeReq struct {
	req *hReq
	p   *promise.Promise[uint32]
}

type probeFinding struct {
	key, what string
	replay    map[string]any
}

type probeStats struct {
	requests, blocks, emptyBlocks, failedBlocks, duringSwap, neverAnswered int
}

// c02ProbeRound runs one round and returns what the oracle found.
func c02ProbeRound(rng *h.Rng, kind string, writers, iters int, stretch time.Duration, allFail bool, round int) ([]probeFinding, probeStats, error) {
	c0102Setup()
	var st probeStats
	env := &fakeEnv{rng: rng.Fork(), logAll: true}
	if allFail {
		env.failDo = 100
	} else {
		env.failDo = 45
	}
	env.errFn = func(k int) error { return fmt.Errorf("probe-block-%d", k) }
	ms := newService(kind, env, 0, 1, time.Hour)
	var inAcquire int32
	if stretch > 0 {
		orig := ms.AcquireColumns
		ms.AcquireColumns = func() []service.IColPoolRes {
			atomic.StoreInt32(&inAcquire, 1)
			res := orig()
			deadline := time.Now().Add(stretch)
			for time.Now().Before(deadline) {
				runtime.Gosched()
			}
			atomic.StoreInt32(&inAcquire, 0)
			return res
		}
	}
	ms.Init()
	syncSubs, _ := ms.VerifSubServices()
	if len(syncSubs) != 1 {
		return nil, st, fmt.Errorf("lock probe: expected one sync sub-service, got %d", len(syncSubs))
	}
	sub := syncSubs[0]

	var serial uint64
	var stop int32
	var wg sync.WaitGroup
	perWriter := make([][]probeReq, writers)
	var during int64
	var wcrash atomic.Value
	for w := 0; w < writers; w++ {
		wg.Add(1)
		wrng := rng.Fork()
		go func(w int) {
			defer wg.Done()
			defer func() {
				if e := recover(); e != nil {
					wcrash.Store(fmt.Sprint(e))
				}
			}()
			for atomic.LoadInt32(&stop) == 0 && len(perWriter[w]) < 4000 {
				s := atomic.AddUint64(&serial, 1)
				n := 1 + wrng.Intn(3)
				if kind == "profile" {
					n = 1
				}
				rq := buildReq(int(s), kind, genLens(wrng, kind, n, false), n*20, s)
				if atomic.LoadInt32(&inAcquire) == 1 {
					atomic.AddInt64(&during, 1)
				}
				p := sub.Request(rq.payload, service.INSERT_MODE_SYNC)
				perWriter[w] = append(perWriter[w], probeReq{rq, p})
				if wrng.Chance(30) {
					runtime.Gosched()
				}
			}
		}(w)
	}
	var crash any
	iterate := func() {
		defer func() {
			if e := recover(); e != nil && crash == nil {
				crash = e
			}
		}()
		sub.PlanFlush()
		sub.VerifIterateIfDue()
	}
	for it := 0; it < iters && crash == nil; it++ {
		iterate()
		if rng.Chance(50) {
			time.Sleep(time.Duration(20+rng.Intn(200)) * time.Microsecond)
		} else {
			runtime.Gosched()
		}
	}
	atomic.StoreInt32(&stop, 1)
	if !c0102WaitGroup(&wg, 4*c0102Deadline) {
		// a writer is stuck inside Request (the service never returned): nothing of this round can be judged
		return []probeFinding{{"C01/service-call-never-returned",
			fmt.Sprintf("%s service: a writer's Request call did not return within %s after the writers were told to stop", kind, 4*c0102Deadline),
			map[string]any{"stream": "lock-probe", "table": kind, "round": round, "writers": writers, "iterations": iters,
				"pause_inside_AcquireColumns_us": stretch.Microseconds(), "every_insert_fails": allFail}}}, st, nil
	}
	for k := 0; k < 6 && crash == nil; k++ {
		iterate()
		if sub.VerifState().Pending == 0 && sub.VerifState().Size == 0 {
			break
		}
	}
	st.duringSwap = int(during)
	cfg := map[string]any{"stream": "lock-probe", "table": kind, "round": round, "writers": writers, "iterations": iters,
		"pause_inside_AcquireColumns_us": stretch.Microseconds(), "every_insert_fails": allFail}
	var finds []probeFinding
	add := func(key, what string, extra map[string]any) {
		for _, f := range finds {
			if f.key == key {
				return
			}
		}
		rp := map[string]any{}
		for k, v := range cfg {
			rp[k] = v
		}
		for k, v := range extra {
			rp[k] = v
		}
		finds = append(finds, probeFinding{key, what, rp})
	}
	if e := wcrash.Load(); e != nil {
		add("C02/request-faulted", fmt.Sprintf("%s service: Request faulted under concurrent writers and stepped flushes: %v", kind, e), nil)
		return finds, st, nil
	}
	if crash != nil {
		add("C02/flush-iteration-faulted", fmt.Sprintf("%s service: a flush iteration faulted while writers were calling Request: %v", kind, crash), nil)
		return finds, st, nil
	}
	env.mu.Lock()
	log := append([]doLogEntry{}, env.doLog...)
	env.mu.Unlock()
	st.blocks = len(log)

	// where every tagged cell of the witness column went
	wcol := map[string]string{"samples": "string", "metrics": "timestamp_ns", "timeSeries": "labels", "tempoSamples": "name", "tempoTags": "key", "profile": "payload"}[kind]
	type pos struct{ blk, idx int }
	where := map[uint64][]pos{}
	for k, e := range log {
		rows := e.blk.rows()
		if len(rows) > 0 && rows[0] == 0 {
			st.emptyBlocks++
		}
		if e.err != nil {
			st.failedBlocks++
		}
		for _, n := range rows {
			if n != rows[0] {
				add("C02/non-rectangular-block", fmt.Sprintf("%s service: block %d has per-column row counts %v (columns %v)", kind, k, rows, e.blk.Cols),
					map[string]any{"block": k, "rows_per_column": rows})
			}
		}
		for i, v := range e.blk.Data[wcol] {
			where[v] = append(where[v], pos{k, i})
		}
	}
	// every flush iteration has returned, and it completes its promises before it returns: nothing is pending any more.
	// ONE deadline for the whole round (not one per promise: thousands of promises that are never completed would
	// otherwise block the run for hours); what is still open when it has passed was open all that time.
	budget := c0102NewBudget(c0102Deadline)
	open := 0
	for w := range perWriter {
		for _, pr := range perWriter[w] {
			st.requests++
			answered, err := budget.await(pr.p)
			if !answered {
				open++
				if open == 1 {
					// where its rows went (if anywhere): the block whose outcome it should have been told
					inBlk := -1
					if cs := pr.req.colCells(kind, wcol); len(cs) > 0 {
						if ps := where[cs[0]]; len(ps) > 0 {
							inBlk = ps[0].blk
						}
					}
					add("C01/promise-never-completed", fmt.Sprintf("%s service, %d concurrent writers, stepped flushes: the promise of request %d is still open %s after the last flush iteration returned (its rows travelled in block %d of %d; every iteration completes its promises before it returns)",
						kind, writers, pr.req.id, c0102Deadline, inBlk, len(log)),
						map[string]any{"request": pr.req.id, "rows_found_in_block": inBlk})
				}
				continue
			}
			resolvedBy := -1 // block whose failure the promise carries
			if err != nil {
				if _, e := fmt.Sscanf(err.Error(), "probe-block-%d", &resolvedBy); e != nil {
					add("C02/unexpected-promise-error", fmt.Sprintf("%s service: promise of request %d completed with %q", kind, pr.req.id, err.Error()), nil)
					continue
				}
			}
			cells := pr.req.colCells(kind, wcol)
			blk := -2
			bad := ""
			for ri, c := range cells {
				ps := where[c]
				switch {
				case len(ps) == 0:
					bad = fmt.Sprintf("row %d is in no block", ri)
				case len(ps) > 1:
					bad = fmt.Sprintf("row %d is in %d blocks", ri, len(ps))
				case blk == -2:
					blk = ps[0].blk
					// whole-row check at this position: every column holds this request's value for this row
					for _, col := range log[blk].blk.Cols {
						want := pr.req.colCells(kind, col)
						got := log[blk].blk.Data[col]
						if ps[0].idx+len(cells) > len(got) {
							bad = fmt.Sprintf("column %s of block %d is too short for the rows of the request", col, blk)
							break
						}
						for j := range want {
							if got[ps[0].idx+j] != want[j] {
								bad = fmt.Sprintf("column %s of block %d does not hold the request's values at the rows where column %s does", col, blk, wcol)
								break
							}
						}
					}
				case ps[0].blk != blk:
					bad = fmt.Sprintf("rows are spread over blocks %d and %d", blk, ps[0].blk)
				}
				if bad != "" {
					break
				}
			}
			outcome := func(k int) string {
				if k < 0 || k >= len(log) {
					return "?"
				}
				if log[k].err != nil {
					return "failed (" + log[k].err.Error() + ")"
				}
				return "accepted"
			}
			rp := map[string]any{"request": pr.req.id, "rows": len(cells), "witness_column": wcol, "witness_cells": cells,
				"promise_error": fmt.Sprint(err), "rows_found_in_block": blk}
			if bad != "" {
				add("C02/request-rows-not-whole-in-one-block", fmt.Sprintf("%s service, concurrent writers: request %d (%d rows): %s", kind, pr.req.id, len(cells), bad), rp)
				continue
			}
			if resolvedBy >= 0 && blk != resolvedBy {
				rp["block_"+fmt.Sprint(blk)+"_outcome"] = outcome(blk)
				add("C02/rows-outside-the-block-that-resolved-them",
					fmt.Sprintf("%s service, %d concurrent writers, stepped flushes: the %d rows of request %d travelled in block %d (%s) but its promise was completed with the outcome of block %d (%s)",
						kind, writers, len(cells), pr.req.id, blk, outcome(blk), resolvedBy, outcome(resolvedBy)), rp)
				continue
			}
			if resolvedBy < 0 && blk >= 0 && log[blk].err != nil {
				rp["block_"+fmt.Sprint(blk)+"_outcome"] = outcome(blk)
				add("C01/ack-without-successful-insert/lock-window",
					fmt.Sprintf("%s service, %d concurrent writers, stepped flushes: request %d (%d rows) was acknowledged (promise completed without error) but its rows travelled in block %d, which %s",
						kind, writers, pr.req.id, len(cells), blk, outcome(blk)), rp)
				add("C02/rows-outside-the-block-that-resolved-them",
					fmt.Sprintf("%s service, %d concurrent writers, stepped flushes: the %d rows of request %d travelled in block %d (%s) but its promise was completed without error, i.e. by another block",
						kind, writers, len(cells), pr.req.id, blk, outcome(blk)), rp)
			}
		}
	}
	st.neverAnswered = open
	return finds, st, nil
}

// c02LockProbe: rounds over tables, writer counts and pauses; only == "" reports everything, otherwise only the keys
// that start with it (C01 runs the same probe for its own property).
func c02LockProbe(r *h.Result, rng *h.Rng, rounds, iters int, only string) error {
	r.Stream("lock-probe: 2–6 concurrent writers hammer Request of one real InsertServiceV2 sub-service while flush iterations are stepped (PlanFlush + VerifIterateIfDue); every INSERT fails with its own error or succeeds; half of the rounds pause 30–300 µs inside AcquireColumns; oracle on the decoded blocks: each request's rows are whole, once, in exactly the block whose outcome its promise received")
	for i := 0; i < rounds; i++ {
		kind := []string{"samples", "samples", "timeSeries", "tempoTags", "metrics", "tempoSamples"}[i%6]
		writers := 2 + rng.Intn(5)
		stretch := time.Duration(0)
		if i%2 == 0 {
			stretch = time.Duration(30+rng.Intn(270)) * time.Microsecond
		}
		allFail := i%3 != 2
		finds, st, err := c02ProbeRound(rng.Fork(), kind, writers, iters, stretch, allFail, i)
		if err != nil {
			return err
		}
		r.Case(fmt.Sprintf("lock-probe:%s:w=%d:stretch=%v:allfail=%v:%d", kind, writers, stretch > 0, allFail, i), st.blocks >= 2 && st.requests > 0)
		r.CountN("lock-probe:requests", st.requests)
		r.CountN("lock-probe:blocks", st.blocks)
		r.CountN("lock-probe:blocks-failed", st.failedBlocks)
		r.CountN("lock-probe:blocks-empty", st.emptyBlocks)
		r.CountN("lock-probe:requests-issued-while-flusher-in-AcquireColumns", st.duringSwap)
		r.CountN("lock-probe:requests-never-answered", st.neverAnswered)
		r.Count("lock-probe:table:" + kind)
		r.Evaluations += st.requests
		if i == 0 {
			r.Sample(map[string]any{"stream": "lock-probe", "table": kind, "writers": writers, "iterations": iters,
				"pause_us": stretch.Microseconds(), "requests": st.requests, "blocks": st.blocks})
		}
		for _, f := range finds {
			if only == "" || strings.HasPrefix(f.key, only) {
				r.Violate(f.key, f.what, f.replay)
			}
		}
	}
	return nil
}

// c02ReplayProbe re-runs the configuration of a recorded lock-probe finding (the schedule is the Go scheduler's: four rounds)
func c02ReplayProbe(r *h.Result, rng *h.Rng, doc map[string]any, only string) error {
	num := func(k string, d int) int {
		if v, ok := doc[k].(float64); ok {
			return int(v)
		}
		return d
	}
	kind, _ := doc["table"].(string)
	if kind == "" {
		kind = "samples"
	}
	allFail, _ := doc["every_insert_fails"].(bool)
	r.Stream("lock-probe (replay): the recorded table, writer count, iteration count and pause, four rounds")
	for i := 0; i < 4; i++ {
		finds, st, err := c02ProbeRound(rng.Fork(), kind, num("writers", 4), num("iterations", 120),
			time.Duration(num("pause_inside_AcquireColumns_us", 100))*time.Microsecond, allFail, i)
		if err != nil {
			return err
		}
		r.Case(fmt.Sprintf("lock-probe-replay:%d", i), st.blocks >= 2)
		r.Evaluations += st.requests
		for _, f := range finds {
			if strings.HasPrefix(f.key, only) {
				r.Violate(f.key, f.what, f.replay)
			}
		}
	}
	return nil
}
