package main

import (
	"fmt"
	"os"
	"os/exec"
	"strconv"
	"strings"

	"github.com/metrico/qryn/reader/logql/logql_parser"
	"github.com/metrico/qryn/reader/logql/logql_transpiler_v2/clickhouse_planner"
	sql "github.com/metrico/qryn/reader/utils/sql_select"
	"verif/harness/h"
)

func init() { props["C08"] = c08 }

// implMetricSQL: real planner → Process → String for an already parsed script (panics of the planner are errors)
func implMetricSQL(script *logql_parser.LogQLScript, c mctx) (s string, err error) {
	defer func() {
		if p := recover(); p != nil {
			err = fmt.Errorf("panic: %v", p)
		}
	}()
	p, err := clickhouse_planner.Plan(script, true)
	if err != nil {
		return "", fmt.Errorf("plan: %w", err)
	}
	sel, err := p.Process(c.planner())
	if err != nil {
		return "", fmt.Errorf("process: %w", err)
	}
	s, err = sel.String(sql.DefaultCtx())
	if err != nil {
		return "", fmt.Errorf("string: %w", err)
	}
	return s, nil
}

func metricShape(s *logql_parser.LogQLScript) string {
	switch {
	case s.LRAOrUnwrap != nil:
		return "range"
	case s.AggOperator != nil:
		return "agg"
	case s.TopK != nil:
		if s.TopK.AggOperator != nil {
			return "topk(agg)"
		}
		return "topk(range)"
	}
	return "?"
}

func rangeOf(s *logql_parser.LogQLScript) *logql_parser.LRAOrUnwrap {
	switch {
	case s.LRAOrUnwrap != nil:
		return s.LRAOrUnwrap
	case s.AggOperator != nil:
		return &s.AggOperator.LRAOrUnwrap
	case s.TopK != nil:
		if s.TopK.AggOperator != nil {
			return &s.TopK.AggOperator.LRAOrUnwrap
		}
		return s.TopK.LRAOrUnwrap
	}
	return nil
}

// c08Text: the text tie — byte-equal SQL between the real planner and LogQL.planMetric
func c08Text(r *h.Result, rng *h.Rng, n int, g mgen) error {
	r.Stream("text: logql_parser.Parse → clickhouse_planner.Plan(script, true) → Process → String vs LogQL.planMetric/Sql.renderSel (byte-equal SQL)")
	var ops, impl []string
	var cases []any
	for i := 0; i < n; i++ {
		query := genMetricQuery(rng, g)
		script, err := logql_parser.Parse(query)
		if err != nil {
			r.Count("text:parse-error")
			r.Sample(map[string]string{"stream": "text", "query": query, "error": err.Error()})
			continue
		}
		ser, err := serMetric(script)
		if err != nil {
			r.Count("text:outside-fragment")
			continue
		}
		d := scriptDuration(script)
		c := genMCtx(rng, d)
		sqlText, err := implMetricSQL(script, c)
		if err != nil {
			// the fragment is planned without error by the (fixed) tree: an error here is a finding of its own
			r.Count("text:impl-error")
			r.Violate("C08/fragment-query-not-planned", "a metric query of the modelled fragment is rejected by the planner: "+err.Error(),
				map[string]any{"query": query, "ctx": c, "error": err.Error()})
			continue
		}
		ops = append(ops, "c08plan "+c.ser()+" "+ser)
		impl = append(impl, h.Hex([]byte(sqlText)))
		cases = append(cases, map[string]any{"query": query, "ctx": c})
		ra := rangeOf(script)
		r.Case("text:"+query+fmt.Sprint(c), true)
		r.Count("text:shape:" + metricShape(script))
		r.Count("text:fn:" + ra.Fn)
		if script.AggOperator != nil {
			r.Count("text:agg:" + script.AggOperator.Fn)
		}
		if script.TopK != nil {
			r.Count("text:" + script.TopK.Fn + ":k=" + script.TopK.Param)
		}
		switch {
		case c.Step < d:
			r.Count("text:step<range")
		case c.Step == d:
			r.Count("text:step=range")
		default:
			r.Count("text:step>range")
		}
		if clickhouse_planner.AnalyzeMetrics15sShortcut(script) {
			r.Count("text:metrics_15s-shortcut")
		}
		if i%97 == 0 {
			r.Sample(map[string]any{"stream": "text", "query": query, "ctx": c, "sql": sqlText})
		}
	}
	return r.Compare("text", ops, impl, cases)
}

func c08(r *h.Result, rng *h.Rng, tier string, replay string) error {
	if replay != "" {
		return c08Replay(r, rng, replay)
	}
	n := 400
	if tier != "quick" {
		n = 10000
	}
	r.Rule = "text: grammar-directed metric queries (range aggregation rate/count_over_time/bytes_rate/bytes_over_time, or rate/sum/avg/max/min/first/last_over_time over `| unwrap`; optional vector aggregation sum/min/max/avg/count; optional topk/bottomk with k in 0..5; by/without in prefix, suffix and both positions; comparisons; inner selector = C07 generator) × contexts with step <, =, > range; every case is non-trivial; distinct by (query, context)"
	// the textual op tables compared with Gen.LogQLOps are what the model renders
	r.Stream("optext: Sql.renderExpr of every entry of the model's function → SQL tables equals its text form (the form proved equal to the regenerated switch tables)")
	if err := r.Compare("optext", []string{"c08optext"}, []string{"ok"}, nil); err != nil {
		return err
	}
	if err := c08Text(r, rng.Fork(), n, mgen{extraFns: true, ms: tier != "quick"}); err != nil {
		return err
	}
	if err := c08Chain(r, rng.Fork(), n, mgen{extraFns: true, ms: tier != "quick"}); err != nil {
		return err
	}
	if err := c08Stage(r, rng.Fork(), n, mgen{extraFns: true, ms: tier != "quick"}); err != nil {
		return err
	}
	np := 400
	if tier != "quick" {
		np = 10000
	}
	if strings.HasPrefix(tier, "post-canary:") {
		// child process: run the real post-processors over the cases of the post stream (their goroutines have no recover)
		n, _ := strconv.Atoi(strings.TrimPrefix(tier, "post-canary:"))
		for i := 0; i < n; i++ {
			c := genPostCase(rng)
			fmt.Fprintln(os.Stderr, "case", i, c.From, c.To, c.Step, c.D, serPost(c.Rows))
			if _, _, _, err := runPost(c); err != nil {
				return err
			}
		}
		return nil
	}
	postSeed := rng.U64() % (1 << 62)
	child := exec.Command(os.Args[0], "C08", "-tier", fmt.Sprintf("post-canary:%d", np), "-seed", fmt.Sprint(postSeed), "-driver", h.DriverPath)
	if out, err := child.CombinedOutput(); err != nil {
		lines := strings.Split(strings.TrimSpace(string(out)), "\n")
		last, trace := "", ""
		for _, l := range lines {
			if strings.HasPrefix(l, "case ") {
				last = l
			}
			if strings.HasPrefix(l, "panic:") || strings.HasPrefix(l, "fatal error:") {
				trace = l
			}
		}
		r.Violate("C08/post-processor-crash", "the matrix post-processors (FixPeriodPlanner goroutine) kill the process: "+trace,
			map[string]any{"case": last, "error": err.Error(), "trace": trace})
		r.Count("post:child-crash")
	} else if err := c08Post(r, h.NewRng(postSeed), np); err != nil {
		return err
	}
	ns := 300
	if tier != "quick" {
		ns = 6000
	}
	if err := c08Sem(r, rng.Fork(), ns); err != nil {
		return err
	}
	// the labelled path: selectors with label-rewriting stages, quantile_over_time
	if err := c08TextX(r, rng.Fork(), n, mgen{extraFns: true, ms: tier != "quick"}); err != nil {
		return err
	}
	if err := c08SemX(r, rng.Fork(), ns); err != nil {
		return err
	}
	if err := c08Order(r, rng.Fork(), 40); err != nil {
		return err
	}
	return nil
}
