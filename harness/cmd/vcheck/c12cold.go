package main

// C12 stream "concurrent-cold": K read requests for the same database arrive while the schema-version cache
// (reader/utils/dbVersion GetVersionInfo: per database name, emptied every 10 s) has NO entry for it, and the version
// lookup of the first one is slow and fails midway.
//
// Every read request looks the schema version up before it plans its query (`SELECT … FROM settings WHERE type='update'`
// + `SHOW TABLES`, the "bookkeeping" queries). The other streams send one request at a time to a database whose entry
// is warm after the first request of the child: neither "two lookups at once" nor "the lookup another request depends
// on fails" is ever seen there. Here each case gets a FRESH scripted database (new name: no cache entry) behind its own
// HTTP server over the real routers; request 0 (the leader) is sent alone, and as soon as the fake has received its
// first bookkeeping query — which it answers only after `delay` — the other K-1 requests (same request, own TCP
// connections) are started. Modes:
//   ok           healthy database (control: concurrent lookups, nothing fails)
//   version-err  the first settings query fails            (VersionErrN = 1: the leader's)
//   tables-err   the first SHOW TABLES fails               (the leader's: it arrives first)
//   leader-gone  the leader's client closes its connection delay/2 after the others were started (its request context
//                is cancelled while its bookkeeping query is pending)
//   all-err      every bookkeeping query fails
// `reset` (thorough): instead of a fresh database, the child's long-lived one — one warm request, 10.6 s of sleep (the
// real 10 s reset of dbVersion.throttle), then the same.
//
// Oracle: every request (except a leader that went away itself) gets a complete HTTP response within the deadline,
// whatever happened to the OTHER requests' lookups; afterwards the goroutine census and the open result sets are back at
// their pre-case state. Which status a request gets (200 / 500) is not judged.

import (
	"bufio"
	"bytes"
	"fmt"
	"io"
	"log"
	"net"
	"net/http"
	"net/http/httptest"
	"os"
	"strings"
	"sync"
	"time"

	fakes "verif/harness/fakes12"
	"verif/harness/h"
)

type c12ColdCase struct {
	K       int    `json:"k"`        // concurrent requests (request 0 = the leader)
	Mode    string `json:"mode"`     // ok | version-err | tables-err | leader-gone | all-err
	DelayMs int    `json:"delay_ms"` // every bookkeeping query is answered after this long (× C12_SLOW)
	Reset   bool   `json:"reset,omitempty"`
}

var c12ColdModes = []string{"ok", "version-err", "tables-err", "leader-gone", "all-err"}

type coldRes struct {
	idx    int
	status int
	n      int
	state  string // answered | no-response | truncated | bad-request-line
}

// coldRequest: one request on its own connection; the connection is published in conns[idx] (closed by the caller to
// make the client go away / to clean up)
func coldRequest(addr string, cs *c12Case, idx int, mtx *sync.Mutex, conns []net.Conn) coldRes {
	res := coldRes{idx: idx, state: "no-response"}
	conn, err := net.Dial("tcp", addr)
	if err != nil {
		return res
	}
	defer conn.Close()
	if conns != nil {
		mtx.Lock()
		conns[idx] = conn
		mtx.Unlock()
	}
	req, err := http.NewRequest(cs.Method, "http://"+addr+cs.Path, bytes.NewReader(cs.Body))
	if err != nil {
		res.state = "bad-request-line"
		return res
	}
	for k, v := range cs.Header {
		req.Header.Set(k, v)
	}
	req.Close = true
	if err := req.Write(conn); err != nil {
		return res
	}
	resp, err := http.ReadResponse(bufio.NewReader(conn), req)
	if err != nil {
		return res
	}
	defer resp.Body.Close()
	res.status = resp.StatusCode
	body, err := io.ReadAll(resp.Body)
	res.n = len(body)
	if err != nil {
		res.state = "truncated"
	} else {
		res.state = "answered"
	}
	return res
}

func (c *c12Child) runCold(cs *c12Case) c12Outcome {
	o := c12Outcome{ID: cs.ID}
	cc := cs.Cold
	if cc == nil || cc.K < 1 {
		o.Outcome = "bad-case"
		return o
	}
	K := cc.K
	// the row shapes are chosen from the endpoint name (c12AutoShape): without this stream's prefix
	sc := *cs
	sc.Endpoint = strings.TrimPrefix(strings.TrimPrefix(cs.Endpoint, "cold/"), "gen/")
	if i := strings.Index(sc.Endpoint, "+"); i > 0 {
		sc.Endpoint = sc.Endpoint[:i] // "tempo/search+traceql": a second base of the same family
	}
	script := c12Script(&sc)
	script.VersionDelay = time.Duration(cc.DelayMs) * time.Millisecond * c12Slow
	switch cc.Mode {
	case "version-err":
		script.VersionErr, script.VersionErrN = fakes.ErrQuery, 1
	case "tables-err":
		script.TablesErr, script.VersionErrN = fakes.ErrQuery, 1
	case "all-err":
		script.VersionErr, script.TablesErr = fakes.ErrQuery, fakes.ErrQuery
	}
	c.errlog.take()

	var db *fakes.ReaderDB
	var srv *httptest.Server
	if cc.Reset {
		// the long-lived database of the child: warm entry, then the real 10 s cache reset
		db, srv = c.db, c.srv
		if cs.Cluster {
			db, srv = c.dbCl, c.srvCl
		}
		db.ResetLog()
		db.SetScript(c12Script(&sc))
		coldRequest(srv.Listener.Addr().String(), cs, 0, nil, nil)
		time.Sleep(10600 * time.Millisecond)
	} else {
		db = fakes.NewReaderDB() // new database name: dbVersion has no entry for it
	}
	before := c12Census()
	if !cc.Reset {
		srv = httptest.NewUnstartedServer(fakes.NewReaderRouter(db.Registry(cs.Cluster)))
		srv.Config.ErrorLog = log.New(c.errlog, "", 0)
		srv.Start()
	}
	closeSrv := func() {
		if cc.Reset {
			return
		}
		// Close waits for the handlers that are still running: never wait for it longer than the settle time
		done := make(chan struct{})
		go func() { srv.Close(); close(done) }()
		select {
		case <-done:
		case <-time.After(c.settle):
		}
	}
	db.ResetLog()
	db.SetScript(script)
	addr := srv.Listener.Addr().String()

	var mtx sync.Mutex
	conns := make([]net.Conn, K)
	results := make(chan coldRes, K)
	got := make([]*coldRes, K)
	ngot, lastOther := 0, -1
	take := func(res coldRes) {
		r := res
		got[res.idx] = &r
		ngot++
		if res.idx != 0 {
			lastOther = res.idx
		}
	}
	startReq := func(i int) { go func() { results <- coldRequest(addr, cs, i, &mtx, conns) }() }

	// the leader alone, until its first bookkeeping query has arrived at the database (or it has ended without one)
	startReq(0)
	t0 := time.Now()
	for db.Bookkeeping() < 1 && ngot == 0 && time.Since(t0) < 2*time.Second*c12Slow {
		select {
		case res := <-results:
			take(res)
		case <-time.After(time.Millisecond):
		}
	}
	// a head start for the leader, so that its SHOW TABLES also arrives before the others' (tables-err fails the FIRST one)
	if K > 1 && ngot == 0 {
		time.Sleep(script.VersionDelay / 4)
	}
	for i := 1; i < K; i++ {
		startReq(i)
	}
	if cc.Mode == "leader-gone" {
		go func() {
			time.Sleep(script.VersionDelay / 2)
			mtx.Lock()
			if conns[0] != nil {
				conns[0].Close()
			}
			mtx.Unlock()
		}()
	}
	statuses := func() string {
		var ss []string
		for i, g := range got {
			switch {
			case g == nil:
				ss = append(ss, "-")
			case i == 0 && cc.Mode == "leader-gone" && g.status == 0:
				ss = append(ss, "gone")
			default:
				ss = append(ss, fmt.Sprint(g.status))
			}
		}
		return "statuses=" + strings.Join(ss, ",")
	}
	// deadline: no response for c.deadline beyond the two scripted delays of a lookup
	start := time.Now()
	limit := c.deadline + 2*script.VersionDelay
	for ngot < K {
		select {
		case res := <-results:
			take(res)
		case <-time.After(20 * time.Millisecond):
		}
		if ngot < K && time.Since(start) > limit {
			o.Outcome = "hang"
			o.BodyHead = statuses()
			o.Dump = fmt.Sprintf("%d of %d concurrent requests ended (%s; - = no response after %d ms), %d bookkeeping queries received; ", ngot, K, statuses(), time.Since(start).Milliseconds(), db.Bookkeeping()) + qrynDump()
			o.Queries, o.Chunks = len(db.Log()), db.Bookkeeping()
			mtx.Lock()
			for _, cn := range conns {
				if cn != nil {
					cn.Close()
				}
			}
			mtx.Unlock()
			return o // the child exits; its server is not closed (Close would wait for the stuck handlers)
		}
	}
	o.Outcome = "answered"
	for i, g := range got {
		o.BodyBytes += g.n
		if g.state != "answered" && !(i == 0 && cc.Mode == "leader-gone") {
			o.Outcome = g.state // no-response / truncated: judged by c12Judge
		}
	}
	o.Status = got[0].status
	if lastOther > 0 {
		o.Status = got[lastOther].status
	}
	o.BodyHead = statuses()
	o.Chunks = db.Bookkeeping() // bookkeeping queries the database received for the K requests
	if time.Since(start) > c.deadline {
		o.Slow = true
	}
	c.settleCensus(before, db, &o, c.settle)
	closeSrv()
	if l := c.errlog.take(); strings.Contains(l, "http: panic serving") {
		first := l[strings.Index(l, "http: panic serving"):]
		if i := strings.Index(first, "\n"); i > 0 {
			first = first[:i]
		}
		if i := strings.Index(first, ": "); i > 0 {
			if j := strings.Index(first[i+2:], ": "); j > 0 {
				first = first[i+2+j+2:]
			}
		}
		o.HandlerPanic = first
	}
	return o
}

// ---- parent side

// c12ColdBases: one well-formed request per endpoint family that looks the schema version up before it plans
func c12ColdBases() []*c12Case {
	from, to := c12Base, c12Base+3600
	ns := func(s int64) string { return fmt.Sprintf("%d", s*1e9) }
	sec := func(s int64) string { return fmt.Sprintf("%d", s) }
	lokiWin := "&start=" + ns(from) + "&end=" + ns(to)
	promWin := "&start=" + sec(from) + "&end=" + sec(to)
	sel := "%7Ba%3D%22b%22%7D" // {a="b"}
	mk := func(ep, path, query string) *c12Case {
		return &c12Case{Kind: "cold", Endpoint: "cold/" + ep, Method: "GET", Path: path, Query: query, Abort: -1, From: from * 1e9, To: to * 1e9}
	}
	return []*c12Case{
		// the first eight are the quick tier's
		mk("loki/query_range", "/loki/api/v1/query_range?query="+sel+lokiWin+"&limit=100", `{a="b"}`),
		mk("loki/label_values", "/loki/api/v1/label/a/values?"+lokiWin[1:], ""),
		mk("prom/query_range", "/api/v1/query_range?query=up"+promWin+"&step=15", "up"),
		mk("tempo/search", "/api/search?tags=a%3Db"+promWin, ""),
		mk("loki/series", "/loki/api/v1/series?match%5B%5D="+sel+lokiWin, ""),
		mk("tempo/search+traceql", "/api/search?q=%7B.a%3D%22b%22%7D"+promWin, `{.a="b"}`),
		mk("prom/query", "/api/v1/query?query=up&time="+sec(to), "up"),
		mk("prom/labels", "/api/v1/labels?match%5B%5D="+sel+promWin, ""), // without match[] it is served like loki/labels: no lookup
		mk("loki/query_range+metric", "/loki/api/v1/query_range?query=rate%28"+sel+"%5B1m%5D%29"+lokiWin+"&step=15", `rate({a="b"}[1m])`),
		mk("loki/query", "/loki/api/v1/query?query="+sel+"&time="+ns(to), `{a="b"}`),
		mk("prom/series", "/api/v1/series?match%5B%5D="+sel+promWin, ""),
		// no version lookup in these three on the pinned tree (kept: K concurrent requests to a fresh database; trivial cases)
		mk("loki/labels", "/loki/api/v1/labels?"+lokiWin[1:], ""),
		mk("tempo/tags", "/api/v2/search/tags?"+promWin[1:], ""),
		mk("tempo/values", "/api/v2/search/tag/a/values?"+promWin[1:], ""),
	}
}

// c12ColdGenBases: one well-formed request from every endpoint generator of the exploration (thorough)
func c12ColdGenBases(rng *h.Rng) []*c12Case {
	var res []*c12Case
	for _, ep := range c12Endpoints {
		er := rng.Fork()
	try:
		for try := 0; try < 400; try++ {
			c := &c12Case{Endpoint: ep.name, Abort: -1}
			ep.gen(er, c)
			if strings.Contains(c.Class, "q=mutated") || strings.Contains(c.Class, "q=random") || strings.Contains(c.Class, "body=random") {
				continue
			}
			for _, f := range strings.Fields(c.Class) {
				if (strings.HasPrefix(f, "win=") || strings.HasPrefix(f, "time=")) && f != "win=normal" && f != "time=normal" {
					continue try
				}
				if strings.HasPrefix(f, "step=") && f != "step=normal" && f != "step=absent" {
					continue try
				}
			}
			c.Kind, c.Endpoint, c.Class = "cold", "cold/gen/"+ep.name, ""
			res = append(res, c)
			break
		}
	}
	return res
}

func c12ColdCases(rng *h.Rng, tier string, firstID int) []*c12Case {
	var cases []*c12Case
	add := func(base *c12Case, k int, mode string, delay int, reset, cluster bool) {
		c := *base
		c.ID = firstID + len(cases)
		c.Cold = &c12ColdCase{K: k, Mode: mode, DelayMs: delay, Reset: reset}
		c.Cluster = cluster
		c.Answers = []c12Answer{{Shape: "auto", N: 5, Seed: rng.U64()}}
		c.Class = fmt.Sprintf("cold k=%d mode=%s delay=%d", k, mode, delay)
		if reset {
			c.Class += " reset"
		}
		cases = append(cases, &c)
	}
	bases := c12ColdBases()
	ks := []int{2, 3, 8}
	if tier == "quick" {
		fail := []string{"version-err", "tables-err", "leader-gone"}
		for i, b := range bases[:8] {
			add(b, ks[i%3], fail[i%3], 120, false, false)
		}
		add(bases[0], 3, "ok", 120, false, false)
		add(bases[2], 3, "all-err", 120, false, false)
		return cases
	}
	// the two cases that wait for the real cache reset first: they run in different children from the start
	add(bases[0], 3, "version-err", 120, true, false)
	add(bases[2], 3, "leader-gone", 120, true, false)
	for _, b := range bases {
		for _, k := range ks {
			for _, mode := range c12ColdModes {
				for _, d := range []int{60, 250} {
					add(b, k, mode, d, false, rng.Chance(15))
				}
			}
		}
	}
	for i, b := range c12ColdGenBases(rng.Fork()) {
		for j, mode := range c12ColdModes {
			add(b, ks[(i+j)%3], mode, 60, false, rng.Chance(15))
		}
	}
	return cases
}

// c12Cold runs the stream and judges it with the exploration's oracle
func c12Cold(r *h.Result, rng *h.Rng, tier string) error {
	r.Stream("concurrent-cold: K ∈ {2, 3, 8} identical read requests for one database whose schema-version cache entry (dbVersion.GetVersionInfo) does not exist — a fresh scripted database behind its own HTTP server over the real routers per case; thorough also the child's long-lived database after the real 10 s cache reset — the first request (leader) alone until its first bookkeeping query (settings `type='update'` / SHOW TABLES, each answered after 60–250 ms) has reached the database, then the other K-1 on their own connections; modes: ok (control), version-err / tables-err (the leader's settings / SHOW TABLES query fails), leader-gone (the leader's client closes its connection while its bookkeeping query is pending), all-err (every bookkeeping query fails); one request per endpoint family that looks the version up (Loki query_range log+metric / instant / labels / label values / series, Prometheus query_range / instant / labels / series, Tempo search tags-form / TraceQL / v2 tags / v2 tag values), thorough also one well-formed request from each of the 27 endpoint generators; oracle = every request (except a leader that left) gets a complete HTTP response within the deadline whatever happens to another request's lookup, goroutine census and open result sets back to the pre-case state; a missed deadline is reported only when the case alone, with 10× the time, misses it again")
	cases := c12ColdCases(rng, tier, 2000000)
	W := 4
	if tier != "quick" {
		W = 6
	}
	js, err := c12RunCases(cases, tier, W)
	if err != nil {
		return err
	}
	hangs0 := r.Distribution["outcome:hang"]
	for _, j := range js {
		cc := j.cs.Cold
		bk := 0
		if j.o != nil {
			bk = j.o.Chunks
		}
		r.Case("cold "+j.cs.Endpoint+" "+j.cs.Class, bk >= 1 && cc.K >= 2)
		r.Count("cold:mode:" + cc.Mode)
		r.Count(fmt.Sprintf("cold:k:%d", cc.K))
		r.Count("cold:endpoint:" + strings.TrimPrefix(j.cs.Endpoint, "cold/"))
		if j.o != nil {
			switch {
			case bk == 0:
				r.Count("cold:bookkeeping-queries:0")
			case bk <= 2:
				r.Count("cold:bookkeeping-queries:1-2")
			case bk < 2*cc.K:
				r.Count("cold:bookkeeping-queries:3..2K-1")
			case bk == 2*cc.K:
				r.Count("cold:bookkeeping-queries:2K")
			default:
				r.Count("cold:bookkeeping-queries:>2K")
			}
			if j.o.Outcome != "hang" {
				r.Count("cold:" + cc.Mode + ":" + c12ColdStatusClass(j.o.BodyHead))
			}
		}
		// on a tree where these requests block, every case costs a confirmation run of 10 deadlines: three confirmed
		// ones are enough to report the defect, the rest is counted
		if j.o != nil && j.o.Outcome == "hang" && r.Distribution["outcome:hang"] >= hangs0+3 {
			r.Count("cold:deadline-missed-not-confirmed-after-3-confirmed-hangs")
		} else {
			c12Judge(r, j, tier, true)
		}
		if os.Getenv("C12_COLD_DEBUG") != "" && j.o != nil {
			fmt.Fprintf(os.Stderr, "COLD %-32s %-44s %s %s bookkeeping=%d queries=%d settle=%dms leaked=%v\n", j.cs.Endpoint, j.cs.Class, j.o.Outcome, j.o.BodyHead, bk, j.o.Queries, j.o.SettleMs, j.o.Leaked)
		}
		if j.o != nil && (j.cs.ID%53 == 0 || cc.Reset) {
			r.Sample(map[string]any{"stream": "concurrent-cold", "endpoint": j.cs.Endpoint, "request": j.cs.Method + " " + c12Short(j.cs.Path), "class": j.cs.Class,
				"outcome": j.o.Outcome, "statuses": j.o.BodyHead, "bookkeeping_queries": bk, "queries": j.o.Queries, "settle_ms": j.o.SettleMs})
		}
	}
	return nil
}

// c12ColdStatusClass: "statuses=500,200,200" → "leader=5xx others=2xx" (others: the set of status classes seen)
func c12ColdStatusClass(head string) string {
	ss := strings.Split(strings.TrimPrefix(head, "statuses="), ",")
	cl := func(s string) string {
		if len(s) == 3 {
			return s[:1] + "xx"
		}
		return s
	}
	if len(ss) == 0 || ss[0] == "" {
		return "none"
	}
	seen := map[string]bool{}
	var others []string
	for _, s := range ss[1:] {
		if c := cl(s); !seen[c] {
			seen[c] = true
			others = append(others, c)
		}
	}
	return "leader=" + cl(ss[0]) + " others=" + strings.Join(others, "+")
}
