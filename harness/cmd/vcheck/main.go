// vcheck: one subcommand per property. Runs the real qryn code in-process, the Lean model through the
// compiled driver, diffs canonicalised outputs, and judges the property directly on implementation
// output with a per-property oracle. Writes a result JSON for ./check.
package main

import (
	"syscall"
	"os/signal"
	"flag"
	"fmt"
	"os"
	"runtime"
	"sort"
	"strings"
	"sync/atomic"
	"time"

	"verif/harness/h"
)

type propFn func(r *h.Result, rng *h.Rng, tier string, replay string) error

var props = map[string]propFn{}

func main() {
	if len(os.Args) < 2 {
		fmt.Fprintln(os.Stderr, "usage: vcheck <Cxx> [-tier quick|thorough] [-seed n] [-out file] [-driver path] [-replay file]")
		os.Exit(2)
	}
	prop := os.Args[1]
	fs := flag.NewFlagSet("vcheck", flag.ExitOnError)
	tier := fs.String("tier", "quick", "")
	seed := fs.Uint64("seed", 1, "")
	out := fs.String("out", "", "")
	driver := fs.String("driver", h.DriverPath, "")
	replay := fs.String("replay", "", "")
	fs.Parse(os.Args[2:])
	h.DriverPath = *driver
	if prop == "list" {
		var ks []string
		for k := range props {
			ks = append(ks, k)
		}
		sort.Strings(ks)
		for _, k := range ks {
			fmt.Println(k)
		}
		return
	}
	fn, ok := props[prop]
	if !ok {
		fmt.Fprintln(os.Stderr, "unknown property", prop)
		os.Exit(2)
	}
	res := h.NewResult(prop, *tier, *seed)
	go stallWatchdog(prop, *tier)
	if *out != "" && len(prop) == 3 {
		// the check's time limit: on SIGTERM what was found so far is written (violations and disagreements are append-only
		// lists) and the run ends with status 5 — a slow run under a seeded change must not lose its findings
		sig := make(chan os.Signal, 1)
		signal.Notify(sig, syscall.SIGTERM)
		go func() {
			<-sig
			part := h.NewResult(prop, *tier, *seed)
			part.Evaluations = res.Evaluations
			part.Violations = append(part.Violations, res.Violations...)
			part.Disagreements = append(part.Disagreements, res.Disagreements...)
			part.Streams = append(part.Streams, res.Streams...)
			part.Rule = res.Rule
			part.Notes = append(part.Notes, "interrupted by the check's time limit: partial result (cases judged so far)")
			part.Write(*out)
			os.Exit(5)
		}()
	}
	if err := fn(res, h.NewRng(*seed), *tier, *replay); err != nil {
		fmt.Fprintln(os.Stderr, "HARNESS-ERROR:", err)
		os.Exit(3)
	}
	if *out != "" {
		if err := res.Write(*out); err != nil {
			fmt.Fprintln(os.Stderr, "HARNESS-ERROR:", err)
			os.Exit(3)
		}
	}
	fmt.Printf("vcheck %s: %d evaluations, %d disagreements, %d violations\n", prop, res.Evaluations, len(res.Disagreements), len(res.Violations))
}

// stallWatchdog ends a run in which no case has been judged for a long time: the code under test blocks the harness for
// good (e.g. a promise that is never completed). The check reports the run as a broken obligation (harness-crash) with the
// stacks below instead of waiting for its own, much longer, time limit. C05/C12 run their cases in child processes with
// their own deadlines (and confirmation runs of up to 15 min): no watchdog there.
func stallWatchdog(prop, tier string) {
	limit := 600 * time.Second
	if v, err := time.ParseDuration(os.Getenv("VCHECK_STALL")); err == nil && v > 0 {
		limit = v
	} else if tier != "quick" {
		limit = 1500 * time.Second
	}
	if prop == "C05" || prop == "C12" || len(prop) != 3 { // children (C12-child, C09child, C14hist, …) have their parents' limits
		return
	}
	last, lastT := atomic.LoadInt64(&h.Progress), time.Now()
	for {
		time.Sleep(5 * time.Second)
		if n := atomic.LoadInt64(&h.Progress); n != last {
			last, lastT = n, time.Now()
			continue
		}
		if time.Since(lastT) > limit {
			buf := make([]byte, 1<<20)
			n := runtime.Stack(buf, true)
			var keep []string
			for _, g := range strings.Split(string(buf[:n]), "\n\n") {
				if strings.Contains(g, "metrico/qryn") || strings.Contains(g, "cmd/vcheck.") {
					if len(g) > 1200 {
						g = g[:1200]
					}
					keep = append(keep, g)
				}
				if len(keep) >= 12 {
					break
				}
			}
			fmt.Fprintf(os.Stderr, "HARNESS-STALL: no case judged for %s (after %d cases); goroutines in qryn / harness code:\n%s\n", limit, last, strings.Join(keep, "\n\n"))
			os.Exit(4)
		}
	}
}
