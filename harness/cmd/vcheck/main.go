// vcheck: one subcommand per property. Runs the real qryn code in-process, the Lean model through the
// compiled driver, diffs canonicalised outputs, and judges the property directly on implementation
// output with a per-property oracle. Writes a result JSON for ./check.
package main

import (
	"flag"
	"fmt"
	"os"
	"sort"

	"verif/harness/h"
)

type propFn func(r *h.Result, rng *h.Rng, tier string, replay string) error

var props = map[string]propFn{}

func main() {
	if len(os.Args) < 2 {
		fmt.Fprintln(os.Stderr, "usage: vcheck <Cxx> [-tier quick|thorough] [-seed n] [-out file] [-driver path] [-replay file]")
		os.Exit(2)
	}
	prop := os.Args[1]
	fs := flag.NewFlagSet("vcheck", flag.ExitOnError)
	tier := fs.String("tier", "quick", "")
	seed := fs.Uint64("seed", 1, "")
	out := fs.String("out", "", "")
	driver := fs.String("driver", h.DriverPath, "")
	replay := fs.String("replay", "", "")
	fs.Parse(os.Args[2:])
	h.DriverPath = *driver
	if prop == "list" {
		var ks []string
		for k := range props {
			ks = append(ks, k)
		}
		sort.Strings(ks)
		for _, k := range ks {
			fmt.Println(k)
		}
		return
	}
	fn, ok := props[prop]
	if !ok {
		fmt.Fprintln(os.Stderr, "unknown property", prop)
		os.Exit(2)
	}
	res := h.NewResult(prop, *tier, *seed)
	if err := fn(res, h.NewRng(*seed), *tier, *replay); err != nil {
		fmt.Fprintln(os.Stderr, "HARNESS-ERROR:", err)
		os.Exit(3)
	}
	if *out != "" {
		if err := res.Write(*out); err != nil {
			fmt.Fprintln(os.Stderr, "HARNESS-ERROR:", err)
			os.Exit(3)
		}
	}
	fmt.Printf("vcheck %s: %d evaluations, %d disagreements, %d violations\n", prop, res.Evaluations, len(res.Disagreements), len(res.Violations))
}
