package main

// C16, DIFF view — reader/service/profTree.go synchronizeNames / mergeNodes / computeFlameGraphDiff, reached through the
// exported ProfService.RenderDiff over a scripted database (the two getTree queries are answered with the generated rows
// and function tables). Model: Qryn.Prof (lean/Qryn/Prof/Diff.lean) through the driver op `c16diff`.
// Oracle: the laws of the diff judged on the Flamebearer the implementation returned, from the input rows only.

import (
	"context"
	"database/sql/driver"
	"encoding/hex"
	"fmt"
	"sort"
	"strconv"
	"strings"
	"time"

	"github.com/go-faster/city"
	rsvc "github.com/metrico/qryn/reader/service"
	fakes "verif/harness/fakes17"
	"verif/harness/h"
)

// one side of a diff: the rows and the function table one getTree query returns
type c16Side struct {
	Rows []c16Flat   `json:"rows"`
	Fns  [][2]string `json:"fns"` // (decimal id, name)
}

type c16DiffCase struct {
	Left  c16Side `json:"left"`
	Right c16Side `json:"right"`
}

const (
	c16LeftFrom  = 1_000_000
	c16RightFrom = 2_000_000
)

func c16SideAnswer(s c16Side) (cols []string, rows [][]driver.Value) {
	tree := [][]interface{}{}
	for _, f := range s.Rows {
		tree = append(tree, []interface{}{f.Parent, f.Fn, f.Node, f.Self, f.Total})
	}
	fns := [][]interface{}{}
	for _, f := range s.Fns {
		id, _ := strconv.ParseUint(f[0], 10, 64)
		fns = append(fns, []interface{}{id, f[1]})
	}
	return []string{"_tree", "_functions"}, [][]driver.Value{{tree, fns}}
}

// runs the real RenderDiff; returns the canonical text of the answer
func c16RenderDiff(c c16DiffCase) (string, *rsvc.Flamebearer, error) {
	leftMark := strconv.FormatInt(time.Unix(c16LeftFrom, 0).UnixNano(), 10)
	rightMark := strconv.FormatInt(time.Unix(c16RightFrom, 0).UnixNano(), 10)
	var bad string
	sc := fakes.NewScript(func(q string) ([]string, [][]driver.Value, error) {
		switch {
		case strings.Contains(q, leftMark):
			cols, rows := c16SideAnswer(c.Left)
			return cols, rows, nil
		case strings.Contains(q, rightMark):
			cols, rows := c16SideAnswer(c.Right)
			return cols, rows, nil
		}
		bad = q
		return nil, nil, fmt.Errorf("unexpected query")
	})
	defer sc.Close()
	ps := &rsvc.ProfService{DataSession: sc.Registry("qryn", "")}
	q := `process_cpu:cpu:nanoseconds:cpu:nanoseconds{service_name="a"}`
	var fb *rsvc.Flamebearer
	var err error
	func() {
		defer func() {
			if e := recover(); e != nil {
				err = fmt.Errorf("panic: %v", e)
			}
		}()
		fb, err = ps.RenderDiff(context.Background(), q, q,
			time.Unix(c16LeftFrom, 0), time.Unix(c16RightFrom, 0), time.Unix(c16LeftFrom+100, 0), time.Unix(c16RightFrom+100, 0))
	}()
	if bad != "" {
		return "", nil, fmt.Errorf("RenderDiff issued a query the harness does not know: %.200s", bad)
	}
	if err != nil {
		if strings.Contains(err.Error(), "is not positive") {
			return "not-positive", nil, nil
		}
		return "error:" + err.Error(), nil, nil
	}
	f := fb.FlamebearerProfileV1.Flamebearer
	var names, levels []string
	for _, n := range f.Names {
		if n == "" {
			names = append(names, "-")
		} else {
			names = append(names, hex.EncodeToString([]byte(n)))
		}
	}
	for _, l := range f.Levels {
		levels = append(levels, c16Ints(l))
	}
	j := func(sep string, xs []string) string {
		if len(xs) == 0 {
			return "-"
		}
		return strings.Join(xs, sep)
	}
	return j(",", names) + ";" + j(" ", levels) + ";" + strconv.Itoa(f.NumTicks) + ";" +
		strconv.FormatInt(fb.FlamebearerProfileV1.LeftTicks, 10) + ";" + strconv.FormatInt(fb.FlamebearerProfileV1.RightTicks, 10) + ";" + strconv.Itoa(f.MaxSelf), fb, nil
}

func c16FnWords(fns [][2]string) string {
	if len(fns) == 0 {
		return "-"
	}
	var ws []string
	for _, f := range fns {
		n := "-"
		if f[1] != "" {
			n = hex.EncodeToString([]byte(f[1]))
		}
		ws = append(ws, f[0]+":"+n)
	}
	return strings.Join(ws, ",")
}

func c16DiffOp(c c16DiffCase) string {
	op := "c16diff " + c16FnWords(c.Left.Fns) + " " + c16FnWords(c.Right.Fns) + " " + strconv.Itoa(len(c.Left.Rows))
	if len(c.Left.Rows) > 0 {
		op += " " + strings.Join(c16FlatWords(c.Left.Rows), " ")
	}
	if len(c.Right.Rows) > 0 {
		op += " " + strings.Join(c16FlatWords(c.Right.Rows), " ")
	}
	return op
}

// ---- oracle: the diff judged from the input rows and the returned Flamebearer

type c16Agg struct {
	parent, fn   uint64
	self, total  int64
	present      bool
}

// what MergeTrie makes of the rows of one side (sums per (parent,node); the function id of the first row)
func c16SideTree(rows []c16Flat) (map[uint64]*c16Agg, map[uint64][]uint64) {
	byNode := map[uint64]*c16Agg{}
	kids := map[uint64][]uint64{}
	for _, f := range rows {
		a := byNode[f.Node]
		if a == nil {
			a = &c16Agg{parent: f.Parent, fn: f.Fn, present: true}
			byNode[f.Node] = a
			kids[f.Parent] = append(kids[f.Parent], f.Node)
		}
		a.self += f.Self
		a.total += f.Total
	}
	return byNode, kids
}

func c16OracleDiff(r *h.Result, c c16DiffCase, fb *rsvc.Flamebearer) {
	viol := func(key, what string) {
		r.Violate("C16/"+key, what, map[string]any{"stream": "diff", "diff": c})
	}
	L, kidsL := c16SideTree(c.Left.Rows)
	R, kidsR := c16SideTree(c.Right.Rows)
	f := fb.FlamebearerProfileV1.Flamebearer
	var lt, rt int64
	for _, n := range kidsL[0] {
		lt += L[n].total
	}
	for _, n := range kidsR[0] {
		rt += R[n].total
	}
	if fb.FlamebearerProfileV1.LeftTicks != lt || fb.FlamebearerProfileV1.RightTicks != rt || int64(f.NumTicks) != lt+rt {
		viol("diff-ticks", fmt.Sprintf("leftTicks %d rightTicks %d numTicks %d, the root totals of the two trees are %d and %d",
			fb.FlamebearerProfileV1.LeftTicks, fb.FlamebearerProfileV1.RightTicks, f.NumTicks, lt, rt))
	}
	// names: no name twice
	seenName := map[string]bool{}
	for _, n := range f.Names {
		if seenName[n] {
			viol("diff-name-twice", fmt.Sprintf("the name %q is listed twice in the names table", n))
		}
		seenName[n] = true
	}
	nameOf := map[uint64]string{}
	for _, side := range [][][2]string{c.Right.Fns, c.Left.Fns} { // left wins, and inside a side the first entry wins
		for i := len(side) - 1; i >= 0; i-- {
			id, _ := strconv.ParseUint(side[i][0], 10, 64)
			nameOf[id] = side[i][1]
		}
	}
	// union tree: children of a node = union of both sides' children ids, descending (the order the diff lays them out)
	union := func(p uint64) []uint64 {
		set := map[uint64]bool{}
		for _, n := range kidsL[p] {
			set[n] = true
		}
		for _, n := range kidsR[p] {
			set[n] = true
		}
		var ids []uint64
		for n := range set {
			ids = append(ids, n)
		}
		sort.Slice(ids, func(i, j int) bool { return ids[i] > ids[j] })
		return ids
	}
	type bar struct {
		id                 uint64
		llo, lhi, rlo, rhi int64
	}
	if len(f.Levels) == 0 || len(f.Levels[0]) != 7 {
		viol("diff-level0", fmt.Sprintf("level 0 is %v, expected one bar of 7 values", f.Levels))
		return
	}
	l0 := f.Levels[0]
	if l0[0] != 0 || l0[1] != lt || l0[2] != 0 || l0[3] != 0 || l0[4] != rt || l0[5] != 0 || int(l0[6]) >= len(f.Names) || f.Names[l0[6]] != "total" {
		viol("diff-level0", fmt.Sprintf("level 0 is %v, expected [0 %d 0 0 %d 0 <index of total>]", l0, lt, rt))
		return
	}
	cur := []bar{{0, 0, lt, 0, rt}}
	seen := map[uint64]int{}
	nonneg := true
	for _, a := range L {
		if a.self < 0 || a.total < 0 {
			nonneg = false
		}
	}
	for _, a := range R {
		if a.self < 0 || a.total < 0 {
			nonneg = false
		}
	}
	var maxSelf int64
	for k := 1; k <= len(f.Levels); k++ {
		var vals []int64
		if k < len(f.Levels) {
			vals = f.Levels[k]
		}
		if len(vals)%7 != 0 {
			viol("diff-level-shape", fmt.Sprintf("level %d has %d values", k, len(vals)))
			return
		}
		// expected bars of this level: for every bar of the previous level, its union children (descending id)
		i := 0
		var xl, xr int64
		var next []bar
		for _, par := range cur {
			ids := union(par.id)
			lend, rend := par.llo, par.rlo
			for _, n := range ids {
				if i+7 > len(vals) {
					viol("diff-node-missing", fmt.Sprintf("level %d ends before node %d (child of %d) is laid out", k, n, par.id))
					return
				}
				v := vals[i : i+7]
				var wl, wr c16Agg
				if a := L[n]; a != nil && a.parent == par.id {
					wl = *a
				}
				if a := R[n]; a != nil && a.parent == par.id {
					wr = *a
				}
				if v[1] != wl.total || v[2] != wl.self {
					viol("diff-left-values", fmt.Sprintf("level %d bar %d (node %d): left total %d self %d, the left tree has total %d self %d", k, i/7, n, v[1], v[2], wl.total, wl.self))
				}
				if v[4] != wr.total || v[5] != wr.self {
					viol("diff-right-values", fmt.Sprintf("level %d bar %d (node %d): right total %d self %d, the right tree has total %d self %d", k, i/7, n, v[4], v[5], wr.total, wr.self))
				}
				for _, s := range []int64{wl.self, wr.self} {
					if s > maxSelf {
						maxSelf = s
					}
				}
				fn := wl.fn
				if !wl.present {
					fn = wr.fn
				}
				want, ok := nameOf[fn]
				if !ok {
					want = "total" // a function id without an entry in either table reads index 0
				}
				if v[6] < 0 || int(v[6]) >= len(f.Names) {
					viol("diff-name-index", fmt.Sprintf("level %d bar %d names index %d of %d names", k, i/7, v[6], len(f.Names)))
				} else if f.Names[v[6]] != want {
					viol("diff-name", fmt.Sprintf("level %d bar %d (node %d, function %d) is named %q, the function tables say %q", k, i/7, n, fn, f.Names[v[6]], want))
				}
				llo, rlo := xl+v[0], xr+v[3]
				lhi, rhi := llo+v[1], rlo+v[4]
				// layout: a parent's children are contiguous from the parent's offset, on both sides
				if llo != lend || rlo != rend {
					viol("diff-offset", fmt.Sprintf("level %d: node %d (child of %d) starts at left %d right %d, expected %d and %d", k, n, par.id, llo, rlo, lend, rend))
				}
				if nonneg && (lhi > par.lhi || rhi > par.rhi || llo < par.llo || rlo < par.rlo) {
					viol("diff-nesting", fmt.Sprintf("level %d: node %d spans left [%d,%d) right [%d,%d) outside its parent's left [%d,%d) right [%d,%d)", k, n, llo, lhi, rlo, rhi, par.llo, par.lhi, par.rlo, par.rhi))
				}
				if nonneg && (v[0] < 0 || v[3] < 0) {
					viol("diff-overlap", fmt.Sprintf("level %d: node %d starts before the end of the previous bar (deltas %d, %d)", k, n, v[0], v[3]))
				}
				seen[n]++
				lend, rend = lhi, rhi
				xl, xr = lhi, rhi
				next = append(next, bar{n, llo, lhi, rlo, rhi})
				i += 7
			}
		}
		if i != len(vals) {
			viol("diff-extra-bars", fmt.Sprintf("level %d has %d bars more than the union of the two trees has nodes there", k, (len(vals)-i)/7))
			return
		}
		cur = next
	}
	for n := range L {
		if seen[n] != 1 {
			viol("diff-node-count", fmt.Sprintf("node %d of the left tree is laid out %d times", n, seen[n]))
		}
	}
	for n := range R {
		if seen[n] != 1 {
			viol("diff-node-count", fmt.Sprintf("node %d of the right tree is laid out %d times", n, seen[n]))
		}
	}
	if int64(f.MaxSelf) != maxSelf {
		viol("diff-maxself", fmt.Sprintf("maxSelf %d, the largest self value of the two trees is %d", f.MaxSelf, maxSelf))
	}
}

// ---- generator: pairs of trees over one pool of call paths

type c16GenNode struct {
	parent, fn, node uint64
	depth            int
}

// a pool of call-tree nodes with the real node ids (getNodeId is not exported: the ids are taken from what the writer
// emits for the paths — here they are rebuilt with the same formula the stored stream checks against the writer)
func c16NodeId(parent, fn uint64, depth int) uint64 {
	buf := make([]byte, 16)
	for i := 0; i < 8; i++ {
		buf[i] = byte(parent >> (8 * i))
		buf[8+i] = byte(fn >> (8 * i))
	}
	if depth > 511 {
		depth = 511
	}
	return city.CH64(buf)>>9 | uint64(depth)<<55
}

func c16GenDiff(rng *h.Rng, deep, wide bool) c16DiffCase {
	nf := rng.Range(1, 6)
	var names []string
	for i := 0; i < nf; i++ {
		names = append(names, "pkg.fn"+strconv.Itoa(i))
	}
	if rng.Chance(20) {
		names = append(names, "total")
	}
	if rng.Chance(20) {
		names = append(names, "n/a")
	}
	if rng.Chance(10) {
		names = append(names, "")
	}
	fnId := func(n string) uint64 { return city.CH64([]byte(n)) }
	// pool of tree nodes
	pool := []c16GenNode{}
	maxNodes := rng.Range(0, 25)
	maxDepth := rng.Range(1, 6)
	if deep {
		maxDepth = rng.Range(20, 60)
		maxNodes = rng.Range(20, 80)
	}
	type key struct {
		p uint64
		f uint64
	}
	have := map[key]bool{}
	for tries := 0; len(pool) < maxNodes && tries < 40*maxNodes; tries++ {
		var par c16GenNode
		if len(pool) > 0 && !(wide && rng.Chance(70)) && rng.Chance(75) {
			par = pool[rng.Intn(len(pool))]
			if deep && rng.Chance(85) {
				par = pool[len(pool)-1]
			}
		}
		if par.depth >= maxDepth {
			continue
		}
		name := h.Pick(rng, names)
		if wide {
			name = "w" + strconv.Itoa(rng.Intn(200))
		}
		f := fnId(name)
		if have[key{par.node, f}] {
			continue
		}
		have[key{par.node, f}] = true
		found := false
		for _, n := range names {
			if n == name {
				found = true
			}
		}
		if !found {
			names = append(names, name)
		}
		pool = append(pool, c16GenNode{par.node, f, c16NodeId(par.node, f, par.depth+1), par.depth + 1})
	}
	// each side: a subset of the pool closed under parents, self values, totals from conservation
	side := func(pct int, kind int) c16Side {
		in := map[uint64]bool{}
		for _, n := range pool {
			if (n.parent == 0 || in[n.parent]) && rng.Chance(pct) {
				in[n.node] = true
			}
		}
		self := map[uint64]int64{}
		total := map[uint64]int64{}
		for _, n := range pool {
			if in[n.node] {
				self[n.node] = c16Value(rng, kind)
			}
		}
		for i := len(pool) - 1; i >= 0; i-- { // children come after their parents in the pool
			n := pool[i]
			if in[n.node] {
				total[n.node] += self[n.node]
				if n.parent != 0 {
					total[n.parent] += total[n.node]
				}
			}
		}
		var s c16Side
		for _, n := range pool {
			if !in[n.node] {
				continue
			}
			// one row per node, or the weight split over two rows (two profiles holding the node)
			if rng.Chance(25) {
				a := self[n.node] / 2
				b := total[n.node] / 3
				s.Rows = append(s.Rows, c16Flat{n.parent, n.fn, n.node, a, b}, c16Flat{n.parent, n.fn, n.node, self[n.node] - a, total[n.node] - b})
			} else {
				s.Rows = append(s.Rows, c16Flat{n.parent, n.fn, n.node, self[n.node], total[n.node]})
			}
		}
		perm := c16Shuffle(rng, len(s.Rows))
		sh := make([]c16Flat, len(s.Rows))
		for i, k := range perm {
			sh[i] = s.Rows[k]
		}
		s.Rows = sh
		// function table: the names of the functions this side uses (sometimes one missing, sometimes extra ones),
		// in an order of its own
		used := map[uint64]bool{}
		for _, r := range s.Rows {
			used[r.Fn] = true
		}
		for _, i := range c16Shuffle(rng, len(names)) {
			id := fnId(names[i])
			if (used[id] && !rng.Chance(4)) || rng.Chance(15) {
				s.Fns = append(s.Fns, [2]string{strconv.FormatUint(id, 10), names[i]})
			}
		}
		return s
	}
	kind := 0
	if rng.Chance(15) {
		kind = 1
	}
	lp, rp := 70, 70
	switch {
	case rng.Chance(8):
		lp = 0 // empty left side
	case rng.Chance(8):
		rp = 0
	case rng.Chance(10):
		lp, rp = 100, 100
	}
	c := c16DiffCase{Left: side(lp, kind), Right: side(rp, kind)}
	if rng.Chance(5) && len(c.Left.Rows) > 0 {
		c.Left.Rows[rng.Intn(len(c.Left.Rows))].Self = -1 - int64(rng.Intn(5)) // assertPositive refuses
	}
	return c
}

// both sides from real profiles pushed through the real writer: the stored rows of 1–3 profiles per side, projected to one
// sample type the way the reader's query does; function tables as stored
func c16DiffFromProfiles(r *h.Result, rng *h.Rng) (c16DiffCase, bool) {
	types := c16Types(rng)
	pool := c16FnPool(rng)
	tname := types[0][0] + ":" + types[0][1]
	var c c16DiffCase
	for side := 0; side < 2; side++ {
		var sd c16Side
		seen := map[uint64]bool{}
		for k := rng.Range(0, 3); k > 0; k-- {
			p := c16GenProfile(rng, types, pool, 12, 7, 0, 6)
			st := c16Ingest(p, rng)
			if st.Err != "" {
				return c, false
			}
			sd.Rows = append(sd.Rows, c16TypeRows(st, tname)...)
			for _, id := range st.FnSeq {
				if !seen[id] {
					seen[id] = true
					sd.Fns = append(sd.Fns, [2]string{strconv.FormatUint(id, 10), st.Fns[id]})
				}
			}
		}
		if side == 0 {
			c.Left = sd
		} else {
			c.Right = sd
		}
	}
	r.Count("diff:from-stored-profiles")
	return c, true
}

func c16DiffCaseRun(r *h.Result, c c16DiffCase, ops, impl *[]string, cases *[]any) {
	got, fb, err := c16RenderDiff(c)
	op := c16DiffOp(c)
	r.Case(fmt.Sprintf("diff:%016x", city.CH64([]byte(op))), len(c.Left.Rows)+len(c.Right.Rows) >= 2)
	if err != nil {
		r.Violate("C16/diff-harness", err.Error(), map[string]any{"stream": "diff", "diff": c})
		return
	}
	*ops = append(*ops, op)
	*impl = append(*impl, got)
	*cases = append(*cases, map[string]any{"stream": "diff", "diff": c})
	switch {
	case len(c.Left.Rows) == 0 || len(c.Right.Rows) == 0:
		r.Count("diff:one-side-empty")
	default:
		r.Count("diff:both-sides")
	}
	if got == "not-positive" {
		r.Count("diff:refused-not-positive")
		return
	}
	if strings.HasPrefix(got, "error:") {
		r.Violate("C16/diff-error", "RenderDiff failed on two well-formed trees: "+got, map[string]any{"stream": "diff", "diff": c})
		return
	}
	r.Count(fmt.Sprintf("diff:levels<=%d", (len(fb.FlamebearerProfileV1.Flamebearer.Levels)+4)/5*5))
	c16OracleDiff(r, c, fb)
}

func c16DiffStream(r *h.Result, rng *h.Rng, n int, withCorpus bool, ops, impl *[]string, cases *[]any) {
	corpus := []c16DiffCase{
		{},
		{Left: c16Side{Rows: []c16Flat{{0, 5, 77, 1, 1}}, Fns: [][2]string{{"5", "a"}}}},
		{Right: c16Side{Rows: []c16Flat{{0, 5, 77, 1, 1}}, Fns: [][2]string{{"5", "a"}}}},
		{Left: c16Side{Rows: []c16Flat{{0, 5, 77, 1, 4}, {77, 6, 88, 3, 3}}, Fns: [][2]string{{"5", "a"}, {"6", "b"}}},
			Right: c16Side{Rows: []c16Flat{{0, 5, 77, 2, 9}, {77, 7, 99, 7, 7}}, Fns: [][2]string{{"7", "b"}, {"5", "total"}}}},
	}
	if withCorpus {
		for _, c := range corpus {
			c16DiffCaseRun(r, c, ops, impl, cases)
		}
	}
	for i := 0; i < n; i++ {
		c := c16GenDiff(rng, i%9 == 7, i%9 == 8)
		if i%10 == 3 {
			if c2, ok := c16DiffFromProfiles(r, rng); ok {
				c = c2
			}
		}
		c16DiffCaseRun(r, c, ops, impl, cases)
		if i%60 == 0 {
			r.Sample(map[string]any{"stream": "diff", "left_rows": len(c.Left.Rows), "right_rows": len(c.Right.Rows), "left_fns": len(c.Left.Fns), "right_fns": len(c.Right.Fns)})
		}
	}
}
