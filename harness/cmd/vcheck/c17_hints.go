package main

import (
	"context"
	"database/sql/driver"
	"encoding/json"
	"fmt"
	"sort"
	"strings"
	"time"

	"github.com/metrico/qryn/reader/model"
	"github.com/metrico/qryn/reader/service"
	"github.com/prometheus/prometheus/model/labels"
	"github.com/prometheus/prometheus/promql/parser"
	"github.com/prometheus/prometheus/storage"
	fakes "verif/harness/fakes17"
	"verif/harness/h"
)

// ---------------------------------------------------------------------------------------------------
// Stream 11: the select hints, as the real engine builds them. For EVERY function of parser.Functions (the pinned
// Prometheus), every aggregation operator, bare selectors, offsets, binary operators and nestings, promql.Engine
// (range and instant queries) runs over the real qryn adapter; a wrapper records the SelectHints of every Select call and
// the SQL the adapter sends for it (the scripted driver answers with no rows). Ties:
//   * the hints vs Stepped.engineHints (c17hints) — the hypotheses the window theorems make about the engine;
//   * the routing (samples_v3 or metrics_15s in the statement) and the function class vs Stepped.usesRaw / classOf (c17route);
//   * on the raw path the statement text vs the model (fp_sel, scan bounds, per-step SELECT, range filter — c17StepText).
// Selectors under a sub-query are run as well; their hints are outside engineHints and only counted.

type c17HintSel struct {
	Metric string `json:"metric"`
	Range  int64  `json:"range"`  // ms, 0 = instant selector
	Off    int64  `json:"offset"` // ms
	Func   string `json:"func"`   // what extractFuncFromPath must find
	SubQ   bool   `json:"subquery,omitempty"`
}

type c17HintCase struct {
	Stream string       `json:"stream"`
	Query  string       `json:"query"`
	Start  int64        `json:"start"` // ms
	End    int64        `json:"end"`
	Step   int64        `json:"step"` // 0 = instant query
	Sels   []c17HintSel `json:"selectors"`
	Seen   string       `json:"seen,omitempty"`
}

type c17HintRec struct {
	hints storage.SelectHints
	ms    []*labels.Matcher
	sql   []string
}

type c17HintQueryable struct {
	inner storage.Queryable
	seen  *[]string
	recs  *[]c17HintRec
}

func (q c17HintQueryable) Querier(ctx context.Context, mint, maxt int64) (storage.Querier, error) {
	in, err := q.inner.Querier(ctx, mint, maxt)
	if err != nil {
		return nil, err
	}
	return c17HintQuerier{in, q.seen, q.recs}, nil
}

type c17HintQuerier struct {
	inner storage.Querier
	seen  *[]string
	recs  *[]c17HintRec
}

func (q c17HintQuerier) Select(sortSeries bool, hints *storage.SelectHints, ms ...*labels.Matcher) storage.SeriesSet {
	*q.seen = nil
	res := q.inner.Select(sortSeries, hints, ms...)
	*q.recs = append(*q.recs, c17HintRec{hints: *hints, ms: ms, sql: append([]string(nil), *q.seen...)})
	return res
}
func (q c17HintQuerier) LabelValues(name string, ms ...*labels.Matcher) ([]string, storage.Warnings, error) {
	return q.inner.LabelValues(name, ms...)
}
func (q c17HintQuerier) LabelNames(ms ...*labels.Matcher) ([]string, storage.Warnings, error) {
	return q.inner.LabelNames(ms...)
}
func (q c17HintQuerier) Close() error { return q.inner.Close() }

const c17Lookback = int64(5 * 60 * 1000) // promql.EngineOpts.LookbackDelta: 0 = the engine's default

func c17RunHints(r *h.Result, sc *fakes.Script, c *c17HintCase) (ops, impl []string, err error) {
	var seen []string
	var recs []c17HintRec
	sc.SetResponder(func(qs string) ([]string, [][]driver.Value, error) {
		if strings.Contains(qs, "FROM settings") || strings.HasPrefix(strings.TrimSpace(qs), "SHOW TABLES") {
			return []string{"a", "b"}, nil, nil
		}
		seen = append(seen, qs)
		return []string{"fingerprint", "value", "timestamp_ms"}, nil, nil
	})
	ctx := context.Background()
	adapter := (&service.CLokiQueriable{ServiceData: model.ServiceData{Session: sc.Registry("c17-hints", "")}}).SetOidAndDB(ctx)
	qa := c17HintQueryable{adapter, &seen, &recs}
	if c.Step == 0 {
		q, err := c17Engine.NewInstantQuery(qa, nil, c.Query, time.UnixMilli(c.Start))
		if err != nil {
			return nil, nil, fmt.Errorf("generator made an invalid query %q: %v", c.Query, err)
		}
		res := q.Exec(ctx)
		q.Close()
		if res.Err != nil {
			return nil, nil, fmt.Errorf("query %q: %v", c.Query, res.Err)
		}
	} else {
		q, err := c17Engine.NewRangeQuery(qa, nil, c.Query, time.UnixMilli(c.Start), time.UnixMilli(c.End), time.Duration(c.Step)*time.Millisecond)
		if err != nil {
			return nil, nil, fmt.Errorf("generator made an invalid query %q: %v", c.Query, err)
		}
		res := q.Exec(ctx)
		q.Close()
		if res.Err != nil {
			return nil, nil, fmt.Errorf("query %q: %v", c.Query, res.Err)
		}
	}
	bySel := map[string]c17HintSel{}
	for _, s := range c.Sels {
		bySel[s.Metric] = s
	}
	if len(recs) != len(c.Sels) {
		r.Violate("C17/hints-select-count", fmt.Sprintf("%q: %d selectors, %d Select calls", c.Query, len(c.Sels), len(recs)), *c)
		return nil, nil, nil
	}
	fnArg := func(f string) string {
		if f == "" {
			return "-"
		}
		return f
	}
	var descr []string
	for _, rec := range recs {
		metric := ""
		for _, m := range rec.ms {
			if m.Name == "__name__" {
				metric = m.Value
			}
		}
		sel, ok := bySel[metric]
		if !ok {
			return nil, nil, fmt.Errorf("%q: Select for an unknown metric %q", c.Query, metric)
		}
		hh := rec.hints
		descr = append(descr, fmt.Sprintf("%s:{%d %d %d %d %q}", metric, hh.Start, hh.End, hh.Step, hh.Range, hh.Func))
		if sel.SubQ {
			r.Count("hints:under a sub-query (outside engineHints)")
		} else {
			ops = append(ops, fmt.Sprintf("c17hints %d %d %d %d %d %d %s", c.Start, c.End, c.Step, c17Lookback, sel.Range, sel.Off, fnArg(sel.Func)))
			impl = append(impl, fmt.Sprintf("%d %d %d %d %s", hh.Start, hh.End, hh.Step, hh.Range, fnArg(hh.Func)))
		}
		// routing and class, on the hints the engine really passed
		route := "none"
		for _, q := range rec.sql {
			switch {
			case strings.Contains(q, "metrics_15s"):
				route = "down"
			case strings.Contains(q, "samples_v3"):
				route = "raw"
			}
		}
		class := "other"
		switch {
		case c17InstantFuncs[hh.Func] || hh.Func == "":
			class = "instant"
		case c17RangeFuncs[hh.Func]:
			class = "range"
		}
		ops = append(ops, fmt.Sprintf("c17route %d %d %d %d %s", hh.Start, hh.End, hh.Step, hh.Range, fnArg(hh.Func)))
		impl = append(impl, route+" "+class)
		r.Count("hints:class " + class + " route " + route)
		if route == "raw" {
			sc := c17StepCase{Start: hh.Start, End: hh.End, Step: hh.Step, Range: hh.Range, Func: hh.Func}
			for _, m := range rec.ms {
				sc.Matchers = append(sc.Matchers, c17E2EMatcher{Type: m.Type.String(), Name: m.Name, Value: m.Value})
			}
			o, im, err := c17StepText(&sc, rec.sql)
			if err != nil {
				return nil, nil, err
			}
			ops, impl = append(ops, o...), append(impl, im...)
		}
	}
	c.Seen = strings.Join(descr, " ")
	return ops, impl, nil
}

// c17HintArgs builds the argument list of a function call: a selector for the first vector / matrix argument, constants
// for the others
func c17HintArgs(rng *h.Rng, f *parser.Function, mk func(matrix bool) string) (string, bool) {
	var args []string
	used := false
	for _, t := range f.ArgTypes {
		switch t {
		case parser.ValueTypeVector:
			if used {
				return "", false
			}
			args = append(args, mk(false))
			used = true
		case parser.ValueTypeMatrix:
			if used {
				return "", false
			}
			args = append(args, mk(true))
			used = true
		case parser.ValueTypeScalar:
			args = append(args, h.Pick(rng, []string{"1", "0.5", "2"}))
		case parser.ValueTypeString:
			args = append(args, `"l"`)
		}
	}
	if f.Variadic != 0 && len(f.ArgTypes) > 0 && !used {
		return "", false
	}
	return strings.Join(args, ", "), used
}

var c17HintFuncNames = func() []string {
	var n []string
	for name := range parser.Functions {
		n = append(n, name)
	}
	sort.Strings(n)
	return n
}()

var c17HintAggs = []string{"sum", "avg", "min", "max", "count", "group", "stddev", "stdvar", "topk", "bottomk", "quantile", "count_values"}

func c17GenHints(rng *h.Rng, i int) c17HintCase {
	c := c17HintCase{Stream: "hints"}
	c.Start = c17Base - c17Base%15000 + int64(rng.Range(1, 8))*15000 // a multiple of 15 s, as the controller makes it
	if rng.Chance(15) {
		c.Start += int64(rng.Intn(15000))
	}
	switch rng.Intn(5) {
	case 0:
		c.Step = 0
		c.End = c.Start
	case 1:
		c.Step = int64(h.Pick(rng, []int{15000, 30000, 60000}))
		c.End = c.Start + c.Step*int64(rng.Range(1, 5))
	default:
		c.Step = int64(rng.Range(1, 14999))
		c.End = c.Start + c.Step*int64(rng.Range(0, 6)) + int64(rng.Intn(int(c.Step)))
	}
	nsel := 0
	ranges := []int64{1000, 4000, 10000, 15000, 60000, 300000}
	offs := []int64{0, 0, 0, 7000, 15000, 60000}
	// mkSel returns the text of a fresh selector and records what the engine has to pass for it
	var mkSel func(matrix bool, fn string, subq bool) string
	mkSel = func(matrix bool, fn string, subq bool) string {
		s := c17HintSel{Metric: fmt.Sprintf("m%d", nsel), Func: fn, SubQ: subq, Off: h.Pick(rng, offs)}
		nsel++
		txt := s.Metric
		if rng.Chance(40) {
			txt += h.Pick(rng, []string{`{job="a"}`, `{job!="x"}`, `{env=~"p.*",job="a"}`})
		}
		if matrix {
			s.Range = h.Pick(rng, ranges)
			txt += fmt.Sprintf("[%dms]", s.Range)
		}
		if s.Off != 0 {
			txt += fmt.Sprintf(" offset %dms", s.Off)
		}
		c.Sels = append(c.Sels, s)
		return txt
	}
	// every function of parser.Functions in turn, then the aggregations, then free shapes
	call := func(name string) (string, bool) {
		f := parser.Functions[name]
		args, used := c17HintArgs(rng, f, func(matrix bool) string { return mkSel(matrix, name, false) })
		if !used && len(f.ArgTypes) > 0 && f.Variadic == 0 {
			// no vector / matrix argument (time(), pi(), vector(s), …): combine with a selector by a binary operator
			return name + "(" + args + ") + " + mkSel(false, "", false), true
		}
		return name + "(" + args + ")", used || len(f.ArgTypes) == 0
	}
	k := i % (len(c17HintFuncNames) + len(c17HintAggs) + 8)
	switch {
	case k < len(c17HintFuncNames):
		name := c17HintFuncNames[k]
		q, ok := call(name)
		if !ok || len(c.Sels) == 0 {
			q = q + " + " + mkSel(false, "", false)
			if strings.HasPrefix(q, " + ") {
				q = q[3:]
			}
		}
		c.Query = q
	case k < len(c17HintFuncNames)+len(c17HintAggs):
		op := c17HintAggs[k-len(c17HintFuncNames)]
		by := h.Pick(rng, []string{"", " by (job)", " without (env)"})
		param := map[string]string{"topk": "2, ", "bottomk": "1, ", "quantile": "0.5, ", "count_values": `"v", `}[op]
		c.Query = op + by + " (" + param + mkSel(false, op, false) + ")"
	default:
		switch k - len(c17HintFuncNames) - len(c17HintAggs) {
		case 0:
			c.Query = mkSel(false, "", false)
		case 1:
			c.Query = mkSel(false, "", false) + " + " + mkSel(false, "", false)
		case 2:
			c.Query = "abs(" + mkSel(false, "abs", false) + ") / on(job) rate(" + mkSel(true, "rate", false) + ")"
		case 3:
			c.Query = "sum by (job) (rate(" + mkSel(true, "rate", false) + "))"
		case 4:
			c.Query = "sum(" + mkSel(false, "", false) + " * " + mkSel(false, "", false) + ")"
		case 5:
			c.Query = "-" + mkSel(false, "", false)
		case 6:
			c.Query = "max_over_time(" + mkSel(false, "max_over_time", true) + "[1m:5s])"
		default:
			c.Query = "(" + mkSel(false, "ceil", false) + ")"
			c.Query = "ceil(" + c.Query + ")"
		}
	}
	return c
}

func c17HintsStream(r *h.Result, rng *h.Rng, n int) error {
	r.Stream("hints: promql.Engine (range and instant queries) over the real adapter for every function of parser.Functions, every aggregation operator, bare selectors, offsets, binary operators, nestings; the SelectHints of every Select call vs Stepped.engineHints (c17hints), the routing and the function class vs Stepped.usesRaw / classOf (c17route), the raw-path statement vs the model (fp_sel, scan bounds, per-step SELECT, range filter)")
	sc := fakes.NewScript(nil)
	defer sc.Close()
	var ops, impl []string
	var cases []any
	for i := 0; i < n; i++ {
		c := c17GenHints(rng, i)
		if _, err := parser.ParseExpr(c.Query); err != nil {
			r.Count("hints:query not parsable (skipped)")
			continue
		}
		o, im, err := c17RunHints(r, sc, &c)
		if err != nil {
			if strings.Contains(err.Error(), "generator made an invalid query") || strings.HasPrefix(err.Error(), "query ") {
				r.Count("hints:query refused by the engine (skipped)")
				continue
			}
			return err
		}
		for range o {
			cases = append(cases, c)
		}
		ops, impl = append(ops, o...), append(impl, im...)
		r.Case("hints:"+c.Query+fmt.Sprintf(":%d:%d:%d", c.Start, c.End, c.Step), len(c.Sels) >= 1)
		if c.Step == 0 {
			r.Count("hints:instant query")
		} else if c.Step < 15000 {
			r.Count("hints:range query step < 15 s")
		} else {
			r.Count("hints:range query step >= 15 s")
		}
		if i%53 == 0 {
			r.Sample(c)
		}
	}
	return c17StepCompareAs(r, "hints", ops, impl, cases)
}

func init() {
	c17Streams = append(c17Streams, func(r *h.Result, rng *h.Rng, tier string) error {
		n := 400
		if tier != "quick" {
			n = 8000
		}
		r.Rule += "; hints: every function of parser.Functions and every aggregation operator in turn (arguments: one fresh selector — range 1 s … 5 min for a matrix argument —, constants for the rest), then bare selectors, binary operators, nestings, a sub-query; 40 % of the selectors with extra matchers (incl. one that accepts the empty value), offsets 0 / 7 s / 15 s / 1 min; instant queries (20 %), range queries with steps 1 ms … 15 s and 15 / 30 / 60 s, start a multiple of 15 s (15 %: any)"
		return c17HintsStream(r, rng, n)
	})
	c17ReplayMore["hints"] = func(r *h.Result, raw json.RawMessage) error {
		var c c17HintCase
		if err := json.Unmarshal(raw, &c); err != nil {
			return err
		}
		sc := fakes.NewScript(nil)
		defer sc.Close()
		r.Case("replay", true)
		o, im, err := c17RunHints(r, sc, &c)
		if err != nil {
			return err
		}
		cases := make([]any, len(o))
		for i := range cases {
			cases[i] = c
		}
		return c17StepCompareAs(r, "hints", o, im, cases)
	}
}
