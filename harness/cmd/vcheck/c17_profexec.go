package main

import (
	"context"
	"encoding/json"
	"fmt"
	"regexp"
	"sort"
	"strconv"
	"strings"
	"time"

	"github.com/metrico/qryn/reader/logql/logql_transpiler_v2/shared"
	"github.com/metrico/qryn/reader/prof/parser"
	proftr "github.com/metrico/qryn/reader/prof/transpiler"
	sql "github.com/metrico/qryn/reader/utils/sql_select"
	fakes "verif/harness/fakes17"
	"verif/harness/h"
)

// ---------------------------------------------------------------------------------------------------
// Stream 9: the Pyroscope selector executed. The real StreamSelectorPlanner renders its query, the reference
// interpreter executes that text over generated profiles_series_gin rows (one row per label of a profile series,
// each carrying type_id, service_name, sample_types_units). Compared with (C) the Lean meaning Prof.PQuery.eval
// over the same rows (the regular-expression engine stays outside the model: the harness hands the driver the set
// of (pattern, value) pairs on which ClickHouse match() is true) and judged by an oracle with Pyroscope's reading
// of a selector: label matchers as in Prometheus (=~ / !~ match the whole value, a label the series does not have
// is the empty value), pseudo-labels on the parts of the profile type.

type c17ProfSeries struct {
	Fp      uint64      `json:"fp"`
	Date    string      `json:"date"`
	TypeID  string      `json:"type_id"`
	Service string      `json:"service"`
	STU     [][2]string `json:"stu"`
	Labels  [][2]string `json:"labels"`
}

type c17ProfExecCase struct {
	Stream    string          `json:"stream"`
	From      int64           `json:"from"`
	To        int64           `json:"to"`
	Series    []c17ProfSeries `json:"series"`
	Selectors []c17E2EMatcher `json:"selectors"` // plain text here
	SQL       string          `json:"sql,omitempty"`
	Got       string          `json:"got,omitempty"`
	Want      string          `json:"want,omitempty"`
}

func c17TypePart(typeID string, k int) string {
	p := strings.Split(typeID, ":")
	if k-1 < len(p) {
		return p[k-1]
	}
	return ""
}

// c17ProfHolds: does the series satisfy the selector; anchored = regular expressions match the whole value;
// absentEmpty = a key/value label the series does not have reads as "" (otherwise the selector fails)
func c17ProfHolds(s c17ProfSeries, sel c17E2EMatcher, anchored, absentEmpty bool) bool {
	op := func(have string) bool {
		switch sel.Type {
		case "=":
			return have == sel.Value
		case "!=":
			return have != sel.Value
		}
		pat := sel.Value
		if anchored {
			pat = "^(?:" + pat + ")$"
		}
		re, err := regexp.Compile(pat)
		m := err == nil && re.MatchString(have)
		if sel.Type == "=~" {
			return m
		}
		return !m
	}
	anyStu := func(f func(x [2]string) string) bool {
		for _, x := range s.STU {
			if op(f(x)) {
				return true
			}
		}
		return false
	}
	switch sel.Name {
	case "__name__":
		return op(c17TypePart(s.TypeID, 1))
	case "__period_type__":
		return op(c17TypePart(s.TypeID, 2))
	case "__period_unit__":
		return op(c17TypePart(s.TypeID, 3))
	case "__sample_type__":
		return anyStu(func(x [2]string) string { return x[0] })
	case "__sample_unit__":
		return anyStu(func(x [2]string) string { return x[1] })
	case "__profile_type__":
		return anyStu(func(x [2]string) string {
			return c17TypePart(s.TypeID, 1) + ":" + x[0] + ":" + x[1] + ":" + c17TypePart(s.TypeID, 2) + ":" + c17TypePart(s.TypeID, 3)
		})
	case "service_name":
		return op(s.Service)
	}
	for _, kv := range s.Labels {
		if kv[0] == sel.Name {
			return op(kv[1])
		}
	}
	return absentEmpty && op("")
}

func c17ProfSelect(c *c17ProfExecCase, dFrom, dTo string, anchored, absentEmpty bool) string {
	var fps []uint64
	for _, s := range c.Series {
		if s.Date < dFrom || s.Date > dTo || len(s.Labels) == 0 {
			continue
		}
		ok := true
		for _, sel := range c.Selectors {
			if !c17ProfHolds(s, sel, anchored, absentEmpty) {
				ok = false
			}
		}
		if ok {
			fps = append(fps, s.Fp)
		}
	}
	return c17FpsStr(fps)
}

func c17FpsStr(fps []uint64) string {
	if len(fps) == 0 {
		return "-"
	}
	sort.Slice(fps, func(i, j int) bool { return fps[i] < fps[j] })
	p := make([]string, len(fps))
	for i, f := range fps {
		p[i] = strconv.FormatUint(f, 10)
	}
	return strings.Join(p, ",")
}

func c17RunProfExec(r *h.Result, c *c17ProfExecCase) (op, impl string, err error) {
	var sels []parser.Selector
	var parts []string
	for _, s := range c.Selectors {
		sels = append(sels, parser.Selector{Name: s.Name, Op: s.Type, Val: parser.Str{Str: strconv.Quote(s.Value)}})
		parts = append(parts, c17SelectorArg(c17E2EMatcher{Type: s.Type, Name: h.Hex([]byte(s.Name)), Value: h.Hex([]byte(s.Value))}))
	}
	ctx := shared.PlannerContext{From: time.Unix(c.From, 0), To: time.Unix(c.To, 0), Ctx: context.Background(), ProfilesSeriesGinTable: "profiles_series_gin"}
	q, err := (&proftr.StreamSelectorPlanner{Selectors: sels}).Process(&ctx)
	if err != nil {
		return "", "", fmt.Errorf("Process: %v", err)
	}
	text, err := q.String(&sql.Ctx{Params: map[string]sql.SQLObject{}})
	if err != nil {
		return "", "", fmt.Errorf("render: %v", err)
	}
	c.SQL = text
	db := &fakes.DB{Tables: map[string][]fakes.Row{"profiles_series_gin": {}}, Funcs: map[string]func([]fakes.Value) (fakes.Value, error){}}
	values := map[string]bool{"": true}
	var rowStrs []string
	hx := func(s string) string { return h.Hex([]byte(s)) }
	for _, s := range c.Series {
		var stu []fakes.Value
		var stuStr []string
		for _, x := range s.STU {
			stu = append(stu, fakes.RawValue([]fakes.Value{fakes.Str(x[0]), fakes.Str(x[1])}))
			stuStr = append(stuStr, hx(x[0])+"+"+hx(x[1]))
			values[x[0]], values[x[1]] = true, true
			values[c17TypePart(s.TypeID, 1)+":"+x[0]+":"+x[1]+":"+c17TypePart(s.TypeID, 2)+":"+c17TypePart(s.TypeID, 3)] = true
		}
		for k := 1; k <= 3; k++ {
			values[c17TypePart(s.TypeID, k)] = true
		}
		values[s.Service] = true
		st := "_"
		if len(stuStr) > 0 {
			st = strings.Join(stuStr, ";")
		}
		for _, kv := range s.Labels {
			values[kv[1]] = true
			db.Tables["profiles_series_gin"] = append(db.Tables["profiles_series_gin"], fakes.Row{
				"date": fakes.Str(s.Date), "key": fakes.Str(kv[0]), "val": fakes.Str(kv[1]), "type_id": fakes.Str(s.TypeID),
				"service_name": fakes.Str(s.Service), "sample_types_units": fakes.RawValue(stu), "fingerprint": fakes.Uint(s.Fp)})
			rowStrs = append(rowStrs, strings.Join([]string{hx(s.Date), hx(kv[0]), hx(kv[1]), hx(s.TypeID), hx(s.Service), st, strconv.FormatUint(s.Fp, 10)}, "~"))
		}
	}
	_, rows, err := db.Exec(text)
	if err != nil {
		return "", "", fmt.Errorf("reference interpreter: %v in: %s", err, text)
	}
	var fps []uint64
	for _, rw := range rows {
		fps = append(fps, rw[0].I.Uint64())
	}
	got := c17FpsStr(fps)
	dFrom := time.Unix(c.From, 0).UTC().Add(-30 * time.Minute).Format("2006-01-02")
	dTo := time.Unix(c.To, 0).UTC().Format("2006-01-02")
	// oracle: Pyroscope's reading
	want := c17ProfSelect(c, dFrom, dTo, true, true)
	if got != want {
		c.Got, c.Want = got, want
		key := "C17/prof-select-differs"
		switch got {
		case c17ProfSelect(c, dFrom, dTo, true, false):
			key = "C17/prof-matcher-on-absent-label"
		case c17ProfSelect(c, dFrom, dTo, false, true), c17ProfSelect(c, dFrom, dTo, false, false):
			key = "C17/prof-regex-not-anchored"
		}
		r.Violate(key, fmt.Sprintf("selector %v from=%s to=%s: the query selects the profile series %s, the series whose labels satisfy every selector are %s", c.Selectors, dFrom, dTo, got, want), *c)
	}
	// (C) the Lean meaning of the planned query over the same rows
	var tbl []string
	for _, s := range c.Selectors {
		if s.Type != "=~" && s.Type != "!~" {
			continue
		}
		for _, pat := range []string{s.Value, "^(?:" + s.Value + ")$"} {
			re, err := regexp.Compile(pat)
			if err != nil {
				continue
			}
			for v := range values {
				if re.MatchString(v) {
					tbl = append(tbl, hx(pat)+"~"+hx(v))
				}
			}
		}
	}
	sort.Strings(tbl)
	join := func(x []string, sep string) string {
		if len(x) == 0 {
			return "_"
		}
		return strings.Join(x, sep)
	}
	pl := "-"
	if len(parts) > 0 {
		pl = strings.Join(parts, ",")
	}
	op = fmt.Sprintf("c17profeval %s %s %s %s %s", hx(dFrom), hx(dTo), pl, join(rowStrs, ","), join(tbl, ","))
	return op, got, nil
}

var c17ProfTypes = []string{"process_cpu:cpu:nanoseconds", "memory:alloc_space:bytes", "cpu:cpu:nanoseconds", "process_cpux:cpu:nanoseconds", "cpu", "a:b"}
var c17ProfServices = []string{"web", "webx", "api", "xapi", "my-web"}
var c17ProfSTU = [][2]string{{"samples", "count"}, {"cpu", "nanoseconds"}, {"alloc_space", "bytes"}, {"alloc_objects", "count"}, {"cpux", "nano"}}
var c17ProfKeys = []string{"job", "env", "pod", "region"}
var c17ProfVals = []string{"x", "xy", "prod", "pro", "eu", "eu-1", "a'b"}
var c17ProfRegex = []string{"cpu", "process_.*", "web", "w.*", "x", ".*", ".+", "api|web", "count|bytes", "nano", "eu", "pro", "process_cpu:cpu:.*", "memory.*", "b"}

func c17GenProfExec(rng *h.Rng) c17ProfExecCase {
	c := c17ProfExecCase{Stream: "profexec", From: c17Base/1000 + int64(rng.Intn(3600)), To: 0}
	c.To = c.From + int64(rng.Range(1, 7200))
	nser := rng.Range(1, 7)
	for i := 0; i < nser; i++ {
		s := c17ProfSeries{Fp: uint64(i*37 + rng.Range(1, 30)), Date: c17Day, TypeID: h.Pick(rng, c17ProfTypes), Service: h.Pick(rng, c17ProfServices)}
		switch rng.Intn(12) {
		case 0:
			s.Date = "2023-11-13"
		case 1:
			s.Date = "2023-11-16"
		}
		for j, n := 0, rng.Range(0, 3); j < n; j++ {
			s.STU = append(s.STU, h.Pick(rng, c17ProfSTU))
		}
		for _, k := range c17ProfKeys {
			if rng.Chance(55) {
				s.Labels = append(s.Labels, [2]string{k, h.Pick(rng, c17ProfVals)})
			}
		}
		if len(s.Labels) == 0 {
			s.Labels = [][2]string{{"job", h.Pick(rng, c17ProfVals)}}
		}
		c.Series = append(c.Series, s)
	}
	nsel := rng.Range(1, 4)
	ops := []string{"=", "!=", "=~", "!~"}
	for i := 0; i < nsel; i++ {
		var name string
		if rng.Chance(50) {
			name = h.Pick(rng, c17Pseudo)
		} else {
			name = h.Pick(rng, c17ProfKeys)
		}
		op := h.Pick(rng, ops)
		var val string
		if op == "=~" || op == "!~" {
			val = h.Pick(rng, c17ProfRegex)
			if rng.Chance(30) {
				val, _ = c17GenRegex(rng)
			}
		} else {
			// a value that occurs for that name, mostly
			s := h.Pick(rng, c.Series)
			switch name {
			case "__name__":
				val = c17TypePart(s.TypeID, 1)
			case "__period_type__":
				val = c17TypePart(s.TypeID, 2)
			case "__period_unit__":
				val = c17TypePart(s.TypeID, 3)
			case "service_name":
				val = s.Service
			case "__sample_type__", "__sample_unit__", "__profile_type__":
				x := h.Pick(rng, c17ProfSTU)
				val = map[string]string{"__sample_type__": x[0], "__sample_unit__": x[1],
					"__profile_type__": c17TypePart(s.TypeID, 1) + ":" + x[0] + ":" + x[1] + ":" + c17TypePart(s.TypeID, 2) + ":" + c17TypePart(s.TypeID, 3)}[name]
			default:
				val = h.Pick(rng, append([]string{""}, c17ProfVals...))
			}
		}
		if _, err := regexp.Compile(val); err != nil && (op == "=~" || op == "!~") {
			val = "x"
		}
		c.Selectors = append(c.Selectors, c17E2EMatcher{op, name, val})
	}
	return c
}

func c17ProfExecStream(r *h.Result, rng *h.Rng, n int) error {
	r.Stream("profexec: real prof StreamSelectorPlanner.Process → SQL text → reference interpreter over generated profiles_series_gin rows vs Prof.PQuery.eval over the same rows (match() answers handed to the driver); oracle: Pyroscope's reading of the selector on the stored profile series (regular expressions match the whole value, an absent label is the empty value)")
	var ops, impl []string
	var cases []any
	for i := 0; i < n; i++ {
		c := c17GenProfExec(rng)
		op, im, err := c17RunProfExec(r, &c)
		if err != nil {
			return err
		}
		ops = append(ops, op)
		impl = append(impl, im)
		cases = append(cases, c)
		b, _ := json.Marshal(struct {
			S []c17ProfSeries
			M []c17E2EMatcher
		}{c.Series, c.Selectors})
		kv, pseudo := false, false
		for _, s := range c.Selectors {
			isP := false
			for _, p := range c17Pseudo {
				if p == s.Name {
					isP = true
				}
			}
			if isP {
				pseudo = true
			} else {
				kv = true
			}
			r.Count("profexec:selector " + s.Type)
		}
		r.Case("profexec:"+string(b), kv && pseudo)
		if i%97 == 0 {
			r.Sample(c)
		}
	}
	return r.Compare("profexec", ops, impl, cases)
}

func init() {
	c17Streams = append(c17Streams, func(r *h.Result, rng *h.Rng, tier string) error {
		n := 600
		if tier != "quick" {
			n = 20000
		}
		r.Rule += "; profexec: 1..7 profile series (type_id with 1..3 parts, service_name, 0..3 (sample type, unit) pairs, 1..4 labels, dates inside / before / after the range), 1..4 selectors on pseudo-labels and key/value labels with all four operators, values that occur, regexes from a pool (search-sensitive ones: cpu, web, x, pro, eu, nano, b) and from the grammar; non-trivial = a pseudo-label and a key/value selector together"
		return c17ProfExecStream(r, rng, n)
	})
	c17ReplayMore["profexec"] = func(r *h.Result, raw json.RawMessage) error {
		var c c17ProfExecCase
		if err := json.Unmarshal(raw, &c); err != nil {
			return err
		}
		r.Case("replay", true)
		op, im, err := c17RunProfExec(r, &c)
		if err != nil {
			return err
		}
		return r.Compare("profexec", []string{op}, []string{im}, []any{c})
	}
}
