package main

import (
	"fmt"
	"strconv"
	"strings"
	"time"

	"github.com/metrico/qryn/reader/logql/logql_parser"
	transpiler "github.com/metrico/qryn/reader/logql/logql_transpiler_v2"
	"github.com/metrico/qryn/reader/logql/logql_transpiler_v2/shared"
	"verif/harness/h"
)

// fakeMatrix stands for the ClickHouse getter: it records the window it is asked for and emits scripted rows
type fakeMatrix struct {
	batches  [][]shared.LogEntry
	from, to int64
}

func (f *fakeMatrix) IsMatrix() bool { return true }
func (f *fakeMatrix) Process(ctx *shared.PlannerContext, in chan []shared.LogEntry) (chan []shared.LogEntry, error) {
	f.from, f.to = ctx.From.UnixNano(), ctx.To.UnixNano()
	out := make(chan []shared.LogEntry)
	go func() {
		defer close(out)
		for _, b := range f.batches {
			out <- b
		}
	}()
	return out, nil
}

type postEntry struct {
	FP    uint64
	Lbl   int
	TS    int64
	Value int64
}

type postCase struct {
	From, To, Step, D int64
	Dur               string
	Rows              []postEntry
	Cuts              []int // batch boundaries
}

var postDurs = []string{"1s", "2s", "5s", "7s", "11s", "15s", "20s", "1m", "7m", "1h", "5h", "1500ms"}

func genPostCase(r *h.Rng) postCase {
	c := postCase{Dur: h.Pick(r, postDurs)}
	dd, _ := time.ParseDuration(c.Dur)
	c.D = dd.Nanoseconds()
	switch r.Intn(4) {
	case 0:
		c.Step = c.D
	case 1:
		c.Step = c.D * int64(r.Range(2, 4))
	case 2:
		c.Step = c.D / int64(r.Range(2, 5))
	default:
		c.Step = int64(h.Pick(r, []int{1, 5, 15, 60})) * 1e9
	}
	if c.Step <= 0 {
		c.Step = 1
	}
	base := (int64(1700000000) + int64(r.Intn(4000000))) * 1e9
	c.From = base + int64(r.Intn(3))*int64(r.Intn(1e9))
	if r.Chance(30) {
		c.From = base / c.D * c.D
	}
	c.To = c.From + int64(r.Range(0, 12))*c.Step + int64(r.Intn(2))*int64(r.Intn(int(c.Step%2e9)+1))
	// rows as the SQL returns them: ordered by fingerprint, then time; one per (series, bucket)
	grid := c.D
	if c.Step > c.D { // StepFixPlanner re-bucketed to the step
		grid = c.Step
	}
	nSeries := r.Range(0, 4)
	fp := uint64(0)
	if r.Chance(85) {
		fp = 1
	}
	for s := 0; s < nSeries; s++ {
		lo := c.From/grid*grid - 2*grid
		nb := (c.To-c.From)/grid + 5
		lbl := int(fp)*10 + 1
		for b := int64(0); b < nb; b++ {
			if !r.Chance(55) {
				continue
			}
			v := int64(r.Intn(5))
			if r.Chance(20) {
				v = 0
			}
			c.Rows = append(c.Rows, postEntry{FP: fp, Lbl: lbl, TS: lo + b*grid, Value: v})
			if r.Chance(10) {
				lbl++ // a later row of the run carrying another labels map
			}
		}
		fp += uint64(r.Range(1, 3))
	}
	for i := 1; i < len(c.Rows); i++ {
		if r.Chance(25) {
			c.Cuts = append(c.Cuts, i)
		}
	}
	return c
}

func (c postCase) batches() [][]shared.LogEntry {
	var res [][]shared.LogEntry
	var cur []shared.LogEntry
	cut := map[int]bool{}
	for _, i := range c.Cuts {
		cut[i] = true
	}
	for i, e := range c.Rows {
		if cut[i] && len(cur) > 0 {
			res = append(res, cur)
			cur = nil
		}
		cur = append(cur, shared.LogEntry{TimestampNS: e.TS, Fingerprint: e.FP, Labels: map[string]string{"l": strconv.Itoa(e.Lbl)}, Value: float64(e.Value)})
	}
	if len(cur) > 0 {
		res = append(res, cur)
	}
	return res
}

// runPost: the real MatrixPostProcessors (ZeroEaterPlanner, FixPeriodPlanner) around the scripted rows
func runPost(c postCase) (from, to int64, out []postEntry, err error) {
	script, err := logql_parser.Parse(`rate({a="b"}[` + c.Dur + `])`)
	if err != nil {
		return 0, 0, nil, err
	}
	fake := &fakeMatrix{batches: c.batches()}
	proc, err := transpiler.MatrixPostProcessors(script, fake)
	if err != nil {
		return 0, 0, nil, err
	}
	ctx := &shared.PlannerContext{From: time.Unix(0, c.From), To: time.Unix(0, c.To), Step: time.Duration(c.Step)}
	ch, err := proc.Process(ctx, nil)
	if err != nil {
		return 0, 0, nil, err
	}
	for b := range ch {
		for _, e := range b {
			if e.Err != nil {
				return 0, 0, nil, e.Err
			}
			l, _ := strconv.Atoi(e.Labels["l"])
			if float64(int64(e.Value)) != e.Value {
				return 0, 0, nil, fmt.Errorf("non-integral value %v", e.Value)
			}
			out = append(out, postEntry{FP: e.Fingerprint, Lbl: l, TS: e.TimestampNS, Value: int64(e.Value)})
		}
	}
	return fake.from, fake.to, out, nil
}

func serPost(es []postEntry) string {
	if len(es) == 0 {
		return "-"
	}
	var parts []string
	for _, e := range es {
		parts = append(parts, fmt.Sprintf("%d:%d:%d:%d", e.FP, e.Lbl, e.TS, e.Value))
	}
	return strings.Join(parts, ";")
}

// oraclePost judges the post-processors on their own output, without the model
func oraclePost(r *h.Result, c postCase, from, to int64, out []postEntry) {
	rep := map[string]any{"case": c, "window_from": from, "window_to": to, "out": out}
	// the window handed to the SQL planners: [from, to) widened to whole range buckets of the SQL grid (multiples of d since the Unix epoch)
	if from%c.D != 0 || to%c.D != 0 || from > c.From || c.From-from >= c.D || to <= c.To || to-c.To > c.D {
		r.Violate("C08/post-window-not-whole-range-buckets", fmt.Sprintf("FixPeriodPlanner asked the SQL for [%d, %d) for the request window [%d, %d) and range %d ns: not that window widened to whole range buckets", from, to, c.From, c.To, c.D), rep)
	}
	n := (c.To-c.From)/c.Step + 1
	var prev *postEntry
	for i := range out {
		e := out[i]
		k := (e.TS - c.From) / c.Step
		if (e.TS-c.From)%c.Step != 0 || k < 0 || k >= n {
			r.Violate("C08/post-timestamp-off-the-step-grid", fmt.Sprintf("output timestamp %d is not from + i*step inside the window", e.TS), rep)
		}
		if e.Value == 0 {
			r.Violate("C08/post-zero-value-emitted", "a zero value is emitted", rep)
		}
		if prev != nil && prev.FP == e.FP && prev.TS >= e.TS {
			r.Violate("C08/post-series-not-increasing", "timestamps of a series are not strictly increasing", rep)
		}
		prev = &out[i]
		// the value comes from a row of the same series whose range bucket [b, b+d] covers the point
		ok := false
		for _, in := range c.Rows {
			if in.FP != e.FP || in.Value != e.Value {
				continue
			}
			b := in.TS / c.D * c.D
			iFrom, iTo := (b-c.From)/c.Step, (b+c.D-c.From)/c.Step
			if iFrom <= k && k <= iTo {
				ok = true
				break
			}
		}
		if !ok {
			r.Violate("C08/post-value-from-outside-its-bucket", fmt.Sprintf("the value %d at %d comes from no row of that series whose range bucket covers the point", e.Value, e.TS), rep)
		}
	}
}

// c08Post: ZeroEaterPlanner + FixPeriodPlanner (real, through MatrixPostProcessors) vs LogQL.postProcess / fixWindow
func c08Post(r *h.Result, rng *h.Rng, n int) error {
	r.Stream("post: scripted SQL rows → transpiler.MatrixPostProcessors (ZeroEaterPlanner, FixPeriodPlanner) vs LogQL.postProcess and LogQL.fixWindow (window handed to the SQL, output entries)")
	var ops, impl []string
	var cases []any
	for i := 0; i < n; i++ {
		c := genPostCase(rng)
		from, to, out, err := runPost(c)
		if err != nil {
			return fmt.Errorf("post: %w", err)
		}
		oraclePost(r, c, from, to, out)
		ops = append(ops, fmt.Sprintf("c08post %d %d %d %d %s", c.From, c.To, c.Step, c.D, serPost(c.Rows)))
		impl = append(impl, fmt.Sprintf("%d %d %s", from, to, serPost(out)))
		cases = append(cases, c)
		r.Case(fmt.Sprint("post:", c.From, c.To, c.Step, c.D, serPost(c.Rows)), len(out) > 0)
		switch {
		case c.Step < c.D:
			r.Count("post:step<range")
		case c.Step == c.D:
			r.Count("post:step=range")
		default:
			r.Count("post:step>range")
		}
		if len(out) == 0 {
			r.Count("post:empty-output")
		}
	}
	return r.Compare("post", ops, impl, cases)
}
