package main

import (
	"context"
	"database/sql/driver"
	"fmt"
	"os"
	"runtime/debug"
	"strings"
	"time"

	"github.com/metrico/qryn/reader/logql/logql_transpiler_v2"
	"github.com/metrico/qryn/reader/logql/logql_transpiler_v2/shared"
	qmodel "github.com/metrico/qryn/reader/model"
	"github.com/metrico/qryn/reader/utils/dbVersion"
	"github.com/metrico/qryn/reader/utils/logger"
	"github.com/metrico/qryn/reader/utils/tables"
	sql "github.com/metrico/qryn/reader/utils/sql_select"
	fakes "verif/harness/fakes12"
	"verif/harness/h"
	"io"
)

func init() { props["C12-tmpfuzz"] = c12TmpFuzz }

func c12TmpFuzz(r *h.Result, rng *h.Rng, tier, replay string) error {
	logger.Logger.SetOutput(io.Discard)
	db := fakes.NewReaderDB()
	_ = fakes.NewReaderRouter(db.Registry(false))
	seen := map[string]bool{}
	n := 200000
	for i := 0; i < n; i++ {
		q, _ := c12QueryText(rng, c12LogQL)
		func() {
			stage := "transpile"
			defer func() {
				if e := recover(); e != nil {
					st := string(debug.Stack())
					key := stage + ": " + fmt.Sprint(e)
					fr := ""
					for _, l := range strings.Split(st, "\n") {
						if strings.HasPrefix(l, "github.com/metrico/qryn/") {
							fr = l
							break
						}
					}
					key += " @ " + fr
					if !seen[key] {
						seen[key] = true
						fmt.Fprintf(os.Stderr, "PANIC %s\n   query=%q\n", key, q)
					}
				}
			}()
			chain, err := logql_transpiler_v2.Transpile(q)
			if err != nil || len(chain) == 0 {
				return
			}
			stage = "process"
			rows := [][]driver.Value{{uint64(1), map[string]string{"a": "b"}, `{"a":"bc","v":5}`, int64(1700000000000000000)}}
			db.SetScript(fakes.Script{Answers: []fakes.Answer{fakes.Rows(nil, rows...)}, Tables: []string{"samples_v3", "time_series"}})
			conn, _ := db.Registry(false).GetDB(context.Background())
			vi, err := dbVersion.GetVersionInfo(context.Background(), false, conn.Session)
			if err != nil {
				return
			}
			cctx, cancel := context.WithCancel(context.Background())
			defer cancel()
			out, err := chain[0].Process(tables.PopulateTableNames(&shared.PlannerContext{
				From: time.Unix(1700000000-300, 0), To: time.Unix(1700000000, 0), Ctx: cctx, CHDb: conn.Session, CHFinalize: true,
				CHSqlCtx: &sql.Ctx{Params: map[string]sql.SQLObject{}, Result: map[string]sql.SQLObject{}}, CancelCtx: cancel, VersionInfo: vi,
			}, conn), nil)
			if err != nil {
				return
			}
			for range out {
			}
		}()
	}
	fmt.Fprintf(os.Stderr, "done %d queries, %d distinct panics\n", n, len(seen))
	_ = qmodel.ServiceData{}
	return nil
}
