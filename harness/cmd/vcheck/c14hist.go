package main

// C14 extension: translation does not depend on what the process translated BEFORE (other queries).
//
//   history-cross   A pool of ≤ 40 distinct translation jobs per round (job = planner family + entry point + query text
//                   + parameters), drawn from generators that reach every planner type: LogQL log pipelines with
//                   parser / drop / line_format stages FOLLOWED by filters, metric queries over such pipelines (range
//                   aggregations, unwrap, by/without, topk, comparisons, the metrics_15s shortcut), series / label-values
//                   planners, TraceQL (search, evaluation, tags, values, portion contexts), PromQL matchers (raw and
//                   down-sampled, with hints), Pyroscope selectors through every endpoint planner.
//                   Ground truth = a PRISTINE process: every job is translated as the FIRST translation of a fresh child
//                   process (`vcheck C14hist`, one child per job). Sequence children then translate q1 … qk in one process
//                   (k ≤ 6 random sequences with repetitions; "full passes": a random permutation of the whole pool
//                   translated twice, so that every job is translated after every other one) and every text is compared
//                   with the pristine text of the same job. A difference is minimised (first to a two-job sequence
//                   [A, B]; else by removing jobs while the difference stays) and reported as the concrete replay.
//                   The first text of every sequence child is itself a pristine translation and must equal the
//                   reference too (determinism across processes).
//
// The model is not involved: this stream is an oracle on the implementation alone and therefore also runs when the
// model no longer builds (the check then uses the last good driver for the other streams).

import (
	"context"
	"encoding/json"
	"fmt"
	"os"
	"os/exec"
	"reflect"
	"runtime"
	"sort"
	"strings"
	"sync"
	"time"

	v1 "github.com/metrico/qryn/reader/prof/types/v1"

	"github.com/metrico/qryn/reader/logql/logql_parser"
	logql_transpiler_v2 "github.com/metrico/qryn/reader/logql/logql_transpiler_v2"
	"github.com/metrico/qryn/reader/logql/logql_transpiler_v2/clickhouse_planner"
	"github.com/metrico/qryn/reader/logql/logql_transpiler_v2/shared"
	"github.com/metrico/qryn/reader/prof"
	profparser "github.com/metrico/qryn/reader/prof/parser"
	profshared "github.com/metrico/qryn/reader/prof/shared"
	promtr "github.com/metrico/qryn/reader/promql/transpiler"
	traceql_parser "github.com/metrico/qryn/reader/traceql/parser"
	sql "github.com/metrico/qryn/reader/utils/sql_select"
	"github.com/prometheus/prometheus/model/labels"
	promparser "github.com/prometheus/prometheus/promql/parser"
	"github.com/prometheus/prometheus/storage"
	"verif/harness/h"
)

func init() { props["C14hist"] = c14hChild }

// one translation: entry point + text + parameters
type c14hJob struct {
	Kind    string   `json:"kind"`
	Query   string   `json:"query"`
	Aux     string   `json:"aux,omitempty"`
	From    int64    `json:"from"`
	To      int64    `json:"to"`
	Limit   int64    `json:"limit"`
	Step    int64    `json:"step"` // LogQL: ns; PromQL hints: ms
	Asc     bool     `json:"asc,omitempty"`
	Cluster bool     `json:"cluster,omitempty"`
	Fn      string   `json:"fn,omitempty"`    // PromQL hints.Func
	Range   int64    `json:"range,omitempty"` // PromQL hints.Range (ms)
	RndMax  int      `json:"rnd_max,omitempty"`
	RndI    int      `json:"rnd_i,omitempty"`
	Cached  []string `json:"cached,omitempty"`
}

func (j c14hJob) key() string {
	b, _ := json.Marshal(j)
	return string(b)
}

// family of the job for violation keys
func (j c14hJob) family() string {
	if i := strings.Index(j.Kind, "-"); i > 0 {
		return j.Kind[:i]
	}
	return j.Kind
}

type c14hIn struct {
	Jobs []c14hJob `json:"jobs"`
}
type c14hOut struct {
	Texts  []string `json:"texts"`
	Shapes []string `json:"shapes"`
}

// ---------------------------------------------------------------------------------------------------------------
// the child: translate the jobs in order, in this process, report text and planner types of each

func c14hLogCtx(j c14hJob) *shared.PlannerContext {
	c := mctx{qctx: qctx{From: j.From, To: j.To, Limit: j.Limit, Asc: j.Asc, Type: 0, Cluster: j.Cluster}, Step: j.Step}
	p := c.planner()
	p.Ctx = context.Background()
	return p
}

func c14hTqCtx(j c14hJob) *shared.PlannerContext {
	return &shared.PlannerContext{
		From: time.Unix(0, j.From).UTC(), To: time.Unix(0, j.To).UTC(), Limit: j.Limit, IsCluster: j.Cluster,
		TracesAttrsTable: "tempo_traces_attrs_gin", TracesAttrsDistTable: "tempo_traces_attrs_gin_dist",
		TracesTable: "tempo_traces", TracesDistTable: "tempo_traces_dist", TracesKVDistTable: "tempo_traces_kv_dist",
		VersionInfo:  map[string]int64{},
		RandomFilter: shared.RandomFilter{Max: j.RndMax, I: j.RndI}, CachedTraceIds: append([]string(nil), j.Cached...),
		Ctx: context.Background(), CHSqlCtx: sql.DefaultCtx(),
	}
}

func c14hPlannerTypes(v any) string {
	set := map[string]bool{}
	c14Walk(reflect.ValueOf(v), map[uintptr]bool{}, func(ptr reflect.Value) {
		t := ptr.Type().String()
		if strings.Contains(t, "lanner") || strings.Contains(t, "transpiler") {
			set[strings.TrimPrefix(t, "*")] = true
		}
	}, 0)
	var ts []string
	for t := range set {
		ts = append(ts, t)
	}
	sort.Strings(ts)
	return strings.Join(ts, ",")
}

func c14hRender(p shared.SQLRequestPlanner, c *shared.PlannerContext) string {
	sel, err := p.Process(c)
	if err != nil {
		return "ERR:" + err.Error()
	}
	t, err := sel.String(sql.DefaultCtx())
	if err != nil {
		return "ERR:" + err.Error()
	}
	return t
}

func c14hSel(sel sql.ISelect, err error) string {
	if err != nil {
		return "ERR:" + err.Error()
	}
	t, err := sel.String(sql.DefaultCtx())
	if err != nil {
		return "ERR:" + err.Error()
	}
	return t
}

func c14hTranslate(j c14hJob) (text, shape string) {
	defer func() {
		if e := recover(); e != nil {
			text = fmt.Sprintf("PANIC:%v", e)
		}
	}()
	switch {
	case j.Kind == "logql":
		// the API path: parse, split at the first in-process stage, plan
		chain, err := logql_transpiler_v2.Transpile(j.Query)
		if err != nil {
			return "ERR:" + err.Error(), ""
		}
		shape = c14hPlannerTypes(chain)
		g := findGetter(reflect.ValueOf(chain), 0)
		if g == nil {
			return "CHAIN:" + c14ChainShape(chain), shape
		}
		return "CHAIN:" + c14ChainShape(chain) + "\n" + c14hRender(g.ClickhouseRequestPlanner, c14hLogCtx(j)), shape
	case strings.HasPrefix(j.Kind, "logql-"):
		script, err := logql_parser.Parse(j.Query)
		if err != nil {
			return "ERR:" + err.Error(), ""
		}
		var p shared.SQLRequestPlanner
		switch j.Kind {
		case "logql-ch": // every stage on the ClickHouse side (what the planner package offers on its own)
			p, err = clickhouse_planner.Plan(script, true)
		case "logql-series":
			if p, err = clickhouse_planner.PlanFingerprints(script); err == nil {
				p = clickhouse_planner.NewSeriesPlanner(p)
			}
		case "logql-values":
			if p, err = clickhouse_planner.PlanFingerprints(script); err == nil {
				p = clickhouse_planner.NewValuesPlanner(p, j.Aux)
			}
		default:
			return "ERR:unknown kind " + j.Kind, ""
		}
		if err != nil {
			return "ERR:" + err.Error(), ""
		}
		return c14hRender(p, c14hLogCtx(j)), c14hPlannerTypes(p)
	case strings.HasPrefix(j.Kind, "traceql"):
		script, err := traceql_parser.Parse(j.Query)
		if err != nil {
			return "ERR:" + err.Error(), ""
		}
		kind := strings.TrimPrefix(strings.TrimPrefix(j.Kind, "traceql"), "-")
		p, err := c14PlanTq(script, kind)
		if err != nil {
			return "ERR:" + err.Error(), ""
		}
		return c14hRender(p, c14hTqCtx(j)), c14hPlannerTypes(p)
	case strings.HasPrefix(j.Kind, "prom-"):
		expr, err := promparser.ParseExpr(j.Query)
		if err != nil {
			return "ERR:" + err.Error(), ""
		}
		var ms []*labels.Matcher
		promparser.Inspect(expr, func(n promparser.Node, _ []promparser.Node) error {
			if vs, ok := n.(*promparser.VectorSelector); ok && ms == nil {
				ms = vs.LabelMatchers
			}
			return nil
		})
		hints := &storage.SelectHints{Start: j.From / 1e6, End: j.To / 1e6, Step: j.Step, Func: j.Fn, Range: j.Range}
		c := c14hLogCtx(j)
		c.Type = 2
		switch j.Kind {
		case "prom-raw":
			res, err := promtr.TranspileLabelMatchers(hints, c, ms...)
			if err != nil {
				return "ERR:" + err.Error(), ""
			}
			return c14hSel(res.Query, nil), "promql/transpiler.TranspileLabelMatchers"
		case "prom-down":
			res, err := promtr.TranspileLabelMatchersDownsample(hints, c, ms...)
			if err != nil {
				return "ERR:" + err.Error(), ""
			}
			return c14hSel(res.Query, nil), "promql/transpiler.TranspileLabelMatchersDownsample"
		case "prom-downreq":
			return c14hSel(promtr.GetLabelMatchersDownsampleRequest(hints, c, ms...)), "promql/transpiler.GetLabelMatchersDownsampleRequest"
		}
		return "ERR:unknown kind " + j.Kind, ""
	case strings.HasPrefix(j.Kind, "prof-"):
		script, err := profparser.Parse(j.Query)
		if err != nil {
			return "ERR:" + err.Error(), ""
		}
		db := fakeDB(j.Cluster)
		tid, _ := profshared.ParseTypeId("process_cpu:cpu:nanoseconds:cpu:nanoseconds")
		bg := context.Background()
		from, to := time.Unix(0, j.From), time.Unix(0, j.To)
		shape = "prof." + j.Kind
		switch strings.TrimPrefix(j.Kind, "prof-") {
		case "label-names":
			return c14hSel(prof.PlanLabelNames(bg, []*profparser.Script{script}, from, to, db)), shape
		case "label-values":
			return c14hSel(prof.PlanLabelValues(bg, []*profparser.Script{script}, j.Aux, from, to, db)), shape
		case "merge-stacktraces":
			return c14hSel(prof.PlanMergeTraces(bg, script, &tid, from, to, db)), shape
		case "select-series":
			return c14hSel(prof.PlanSelectSeries(bg, script, &tid, []string{j.Aux}, v1.TimeSeriesAggregationType_TIME_SERIES_AGGREGATION_TYPE_SUM, 15, from, to, db)), shape
		case "merge-profile":
			return c14hSel(prof.PlanMergeProfiles(bg, script, &tid, from, to, db)), shape
		case "series":
			return c14hSel(prof.PlanSeries(bg, []*profparser.Script{script}, []string{j.Aux}, from, to, db)), shape
		case "analyze-query":
			return c14hSel(prof.PlanAnalyzeQuery(bg, script, from, to, db)), shape
		}
		return "ERR:unknown kind " + j.Kind, ""
	}
	return "ERR:unknown kind " + j.Kind, ""
}

// c14hChild: `vcheck C14hist -replay <file>`: translate the jobs of <file> in order, write <file>.out
func c14hChild(r *h.Result, rng *h.Rng, tier string, replay string) error {
	if replay == "" {
		return fmt.Errorf("C14hist is the child of C14's history-cross stream; it needs -replay <jobs.json>")
	}
	raw, err := os.ReadFile(replay)
	if err != nil {
		return err
	}
	var in c14hIn
	if err := json.Unmarshal(raw, &in); err != nil {
		return err
	}
	var out c14hOut
	for _, j := range in.Jobs {
		t, s := c14hTranslate(j)
		out.Texts = append(out.Texts, t)
		out.Shapes = append(out.Shapes, s)
	}
	b, _ := json.Marshal(out)
	return os.WriteFile(replay+".out", b, 0o644)
}

// ---------------------------------------------------------------------------------------------------------------
// generators

var c14hSelectors = []string{`{a="b"}`, `{app="shop"}`, `{a="b", c=~"d.*"}`, `{job!="x", a="b"}`, `{a=~"b|c"}`}

// stages that REWRITE labels or the line (each gets a SELECT of its own) and stages that FILTER
var c14hRewrite = []string{
	`| json status="status"`, `| json x="y.z", w="v"`, `| regexp "(?P<x>[0-9]+)"`, `| drop x`, `| drop x, y="z"`, `| drop a`,
	`| json lvl="level"`, `| regexp "(?P<lvl>[a-z]+) (?P<n>[0-9]+)"`,
}
var c14hRewriteCH = []string{`| json`, `| logfmt`, `| line_format "{{.a}} {{.lvl}}"`, `| line_format "{{.x}}"`} // in-process on the API path
var c14hFilter = []string{
	`|= "err"`, `!= "dbg"`, `|~ "e.+r"`, `!~ "x[0-9]"`, `| status="500"`, `| x > 3`, `| lvl=~"e.*" and a!="q"`, `| c="d"`,
	`| x="1" or w="2"`, `| n >= 2.5`, `|= ""`,
}

// a pipeline in which, after a rewriting stage, a filter follows with probability 2/3 (the hand-over between the two
// kinds of stages is where the planners wrap, renew and patch each other's SELECTs)
func c14hGenPipeline(r *h.Rng, maxStages int, allowInProcess bool) string {
	s := h.Pick(r, c14hSelectors)
	n := r.Range(0, maxStages)
	lastRewrite := false
	for i := 0; i < n; i++ {
		rewrite := r.Chance(45)
		if lastRewrite {
			rewrite = r.Chance(33)
		}
		if rewrite {
			if allowInProcess && r.Chance(25) {
				s += " " + h.Pick(r, c14hRewriteCH)
			} else {
				s += " " + h.Pick(r, c14hRewrite)
			}
		} else {
			s += " " + h.Pick(r, c14hFilter)
		}
		lastRewrite = rewrite
	}
	return s
}

func c14hGenMetric(r *h.Rng, allowInProcess bool) string {
	p := c14hGenPipeline(r, 3, allowInProcess)
	dur := h.Pick(r, []string{"5s", "7s", "30s", "1m", "5m", "15s"})
	var s string
	if r.Chance(30) {
		fn := h.Pick(r, []string{"sum_over_time", "avg_over_time", "max_over_time", "min_over_time", "first_over_time", "last_over_time", "rate", "quantile_over_time"})
		lbl := h.Pick(r, []string{"x", "n", "a", "_entry"})
		switch {
		case fn == "quantile_over_time":
			s = fmt.Sprintf(`quantile_over_time(0.9, %s | unwrap %s [%s]) by (a)`, p, lbl, dur)
		case r.Bool():
			s = fmt.Sprintf(`%s(%s | unwrap %s [%s]) by (a)`, fn, p, lbl, dur)
		default:
			s = fmt.Sprintf(`%s(%s | unwrap %s [%s])`, fn, p, lbl, dur)
		}
	} else {
		s = fmt.Sprintf(`%s(%s [%s])`, h.Pick(r, []string{"rate", "count_over_time", "bytes_rate", "bytes_over_time"}), p, dur)
	}
	switch r.Intn(8) {
	case 0:
		s = fmt.Sprintf(`sum by (%s) (%s)`, h.Pick(r, []string{"a", "x", "a, lvl", "status"}), s)
	case 1:
		s = fmt.Sprintf(`%s without (%s) (%s)`, h.Pick(r, []string{"sum", "max", "avg", "count"}), h.Pick(r, []string{"a", "x"}), s)
	case 2:
		s = fmt.Sprintf(`topk(%d, sum by (a) (%s))`, r.Range(1, 3), s)
	case 3:
		s = fmt.Sprintf(`%s %s %d`, s, h.Pick(r, []string{">", "<=", "=="}), r.Intn(5))
	}
	return s
}

func c14hWindow(r *h.Rng) (int64, int64) {
	c := genCtx(r)
	return c.From, c.To
}

func c14hGenJob(r *h.Rng, family string) c14hJob {
	from, to := c14hWindow(r)
	j := c14hJob{From: from, To: to, Limit: []int64{0, 1, 100, 5000}[r.Intn(4)], Asc: r.Bool(), Cluster: r.Chance(20),
		Step: int64(h.Pick(r, []int{1, 5, 15, 60})) * 1e9}
	switch family {
	case "log":
		j.Kind = h.Pick(r, []string{"logql", "logql", "logql-ch"})
		switch r.Intn(8) {
		case 0:
			j.Query = h.Pick(r, c13LogQL[:10])
		case 1:
			j.Query = h.Pick(r, c14WideLogQL[:5])
		case 2:
			j.Query = genLogQuery(r, 3, 3)
		default:
			j.Query = c14hGenPipeline(r, 4, true)
		}
	case "metric":
		j.Kind = h.Pick(r, []string{"logql", "logql", "logql-ch"})
		switch r.Intn(10) {
		case 0:
			j.Query = h.Pick(r, c13LogQL[10:])
		case 1:
			j.Query = h.Pick(r, c14WideLogQL[5:])
		case 2, 3:
			j.Query = genMetricQuery(r, mgen{})
		default:
			j.Query = c14hGenMetric(r, true)
		}
	case "series":
		j.Kind = h.Pick(r, []string{"logql-series", "logql-values"})
		j.Query = genLogQuery(r, 3, 0)
		j.Aux = h.Pick(r, []string{"job", "a"})
	case "traceql":
		j.Kind = h.Pick(r, []string{"traceql", "traceql", "traceql", "traceql-eval", "traceql-tags", "traceql-values"})
		j.Query = genTraceQL(r, 3, 2, 0)
		if j.Kind == "traceql-tags" || j.Kind == "traceql-values" {
			j.Query = tqSelector(r, 2)
		}
		j.Limit = []int64{0, 1, 20, 100}[r.Intn(4)]
		if r.Chance(30) {
			j.RndMax = r.Range(2, 5)
			j.RndI = r.Intn(j.RndMax)
			for i := r.Intn(3); i > 0; i-- {
				j.Cached = append(j.Cached, fmt.Sprintf("%032x", r.U64()))
			}
		}
	case "prom":
		j.Kind = h.Pick(r, []string{"prom-raw", "prom-raw", "prom-down", "prom-downreq"})
		var ms []string
		for k, n := 0, r.Range(1, 3); k < n; k++ {
			ms = append(ms, fmt.Sprintf(`%s%s%q`, h.Pick(r, []string{"job", "env", "instance", "a"}), h.Pick(r, []string{"=", "!=", "=~", "!~"}), h.Pick(r, []string{"u.*", "up|m", "p", "x", ".+", "prod|dev", "i[0-9]"})))
		}
		j.Query = h.Pick(r, []string{"up", "http_requests_total", "m"}) + "{" + strings.Join(ms, ",") + "}"
		j.From, j.To = j.From/1e6*1e6, j.To/1e6*1e6
		j.Step, j.Fn, j.Range = 0, "", 0
		if r.Chance(70) {
			j.Step = int64(h.Pick(r, []int{1000, 15000, 60000, 7000}))
			j.Range = int64(h.Pick(r, []int{0, 5000, 15000, 60000, 300000}))
			j.Fn = h.Pick(r, c13PromFns)
		}
	case "prof":
		j.Kind = "prof-" + h.Pick(r, []string{"label-names", "label-values", "merge-stacktraces", "select-series", "merge-profile", "series", "analyze-query"})
		j.Query = h.Pick(r, []string{`{}`, `{service_name="x"}`, `{a="b", c=~"d.*"}`, `{service_name!="y", a!~"q.+"}`})
		j.Aux = h.Pick(r, []string{"a", "service_name"})
	}
	return j
}

// the composition of one pool: every planner family in every pool
var c14hFamilies = []struct {
	name string
	n    int
}{{"log", 13}, {"metric", 12}, {"series", 2}, {"traceql", 5}, {"prom", 4}, {"prof", 4}}

func c14hGenPool(r *h.Rng) []c14hJob {
	var pool []c14hJob
	seen := map[string]bool{}
	for _, f := range c14hFamilies {
		for i, tries := 0, 0; i < f.n && tries < 200; tries++ {
			j := c14hGenJob(r, f.name)
			if seen[j.key()] {
				continue
			}
			seen[j.key()] = true
			pool = append(pool, j)
			i++
		}
	}
	return pool
}

// ---------------------------------------------------------------------------------------------------------------
// running children

type c14hRunner struct {
	dir string
	mu  sync.Mutex
	n   int
}

func (cr *c14hRunner) run(jobs []c14hJob) (c14hOut, error) {
	cr.mu.Lock()
	cr.n++
	path := fmt.Sprintf("%s/%d.json", cr.dir, cr.n)
	cr.mu.Unlock()
	b, _ := json.Marshal(c14hIn{Jobs: jobs})
	if err := os.WriteFile(path, b, 0o644); err != nil {
		return c14hOut{}, err
	}
	defer os.Remove(path)
	defer os.Remove(path + ".out")
	cctx, cancel := context.WithTimeout(context.Background(), 5*time.Minute)
	defer cancel()
	cmd := exec.CommandContext(cctx, os.Args[0], "C14hist", "-replay", path, "-driver", h.DriverPath)
	if o, err := cmd.CombinedOutput(); err != nil {
		return c14hOut{}, fmt.Errorf("history child: %v: %s", err, trunc(string(o), 400))
	}
	ob, err := os.ReadFile(path + ".out")
	if err != nil {
		return c14hOut{}, err
	}
	var out c14hOut
	if err := json.Unmarshal(ob, &out); err != nil {
		return c14hOut{}, err
	}
	if len(out.Texts) != len(jobs) {
		return c14hOut{}, fmt.Errorf("history child answered %d of %d jobs", len(out.Texts), len(jobs))
	}
	return out, nil
}

// runAll: one child per sequence, at most `par` at a time; results in input order
func (cr *c14hRunner) runAll(seqs [][]c14hJob) ([]c14hOut, error) {
	outs := make([]c14hOut, len(seqs))
	errs := make([]error, len(seqs))
	par := runtime.NumCPU()
	if par > 16 {
		par = 16
	}
	sem := make(chan struct{}, par)
	var wg sync.WaitGroup
	for i := range seqs {
		wg.Add(1)
		sem <- struct{}{}
		go func(i int) {
			defer wg.Done()
			defer func() { <-sem }()
			outs[i], errs[i] = cr.run(seqs[i])
		}(i)
	}
	wg.Wait()
	for _, e := range errs {
		if e != nil {
			return nil, e
		}
	}
	return outs, nil
}

type c14hCase struct {
	Stream   string    `json:"stream"`
	Sequence []c14hJob `json:"sequence"`
	Position int       `json:"position"` // 1-based index of the translation that differs
	Pristine string    `json:"pristine"` // the text of that job translated first in a fresh process
	Later    string    `json:"later"`    // its text at that position of the sequence
}

func c14hDiffKind(a, b string) string {
	switch {
	case strings.HasPrefix(a, "PANIC:") || strings.HasPrefix(b, "PANIC:"):
		return "panic"
	case strings.HasPrefix(a, "ERR:") || strings.HasPrefix(b, "ERR:"):
		return "error"
	}
	la, lb := strings.SplitN(a, "\n", 2), strings.SplitN(b, "\n", 2)
	if strings.HasPrefix(a, "CHAIN:") && la[0] != lb[0] {
		return "chain"
	}
	return "statement"
}

// c14hFails: does the LAST job of seq, translated after the others in one fresh process, differ from `want`?
func (cr *c14hRunner) fails(seq []c14hJob, want string) (bool, string, error) {
	out, err := cr.run(seq)
	if err != nil {
		return false, "", err
	}
	got := out.Texts[len(seq)-1]
	return got != want, got, nil
}

// c14hMinimise: seq[pos] differs from its pristine text `want`. Returns a shortest sequence found that still shows it
// (ending in that job): first every two-job sequence [A, B] with A from the prefix, then one-at-a-time removal.
func (cr *c14hRunner) minimise(seq []c14hJob, pos int, want string) ([]c14hJob, string, error) {
	b := seq[pos]
	prefix := seq[:pos]
	var pairs [][]c14hJob
	seen := map[string]bool{}
	for _, a := range prefix {
		if !seen[a.key()] {
			seen[a.key()] = true
			pairs = append(pairs, []c14hJob{a, b})
		}
	}
	outs, err := cr.runAll(pairs)
	if err != nil {
		return nil, "", err
	}
	for i, o := range outs {
		if o.Texts[1] != want {
			return pairs[i], o.Texts[1], nil
		}
	}
	cur := append(append([]c14hJob(nil), prefix...), b)
	_, got, err := cr.fails(cur, want)
	if err != nil {
		return nil, "", err
	}
	// chunked removal (ddmin flavour), bounded
	budget := 80
	for chunk := (len(cur) - 1) / 2; chunk >= 1 && budget > 0; {
		removed := false
		for start := 0; start+chunk <= len(cur)-1 && budget > 0; {
			cand := append(append([]c14hJob(nil), cur[:start]...), cur[start+chunk:]...)
			budget--
			f, g, err := cr.fails(cand, want)
			if err != nil {
				return nil, "", err
			}
			if f {
				cur, got, removed = cand, g, true
			} else {
				start += chunk
			}
		}
		if !removed || chunk > (len(cur)-1)/2 {
			chunk /= 2
		}
		if chunk > len(cur)-1 {
			chunk = len(cur) - 1
		}
	}
	return cur, got, nil
}

// c14hJudge: compare the texts of one sequence child with the pristine texts; on a difference minimise and report
func c14hJudge(r *h.Result, cr *c14hRunner, seq []c14hJob, out c14hOut, ref map[string]string) error {
	for pos, j := range seq {
		want, ok := ref[j.key()]
		if !ok {
			return fmt.Errorf("history-cross: no pristine text for %s", j.key())
		}
		if out.Texts[pos] == want {
			continue
		}
		if pos == 0 {
			// nothing was translated before: two pristine processes disagree
			r.Violate("C14/nondeterministic-across-processes/"+j.family(), fmt.Sprintf("the first translation of %s (%s) in a fresh process differs from the first translation in another fresh process", j.Query, j.Kind),
				c14hCase{"history-cross", []c14hJob{j}, 1, want, out.Texts[pos]})
			return nil
		}
		min, got, err := cr.minimise(seq, pos, want)
		if err != nil {
			return err
		}
		r.CountN("history-cross:minimised-from", pos+1)
		var before []string
		for _, a := range min[:len(min)-1] {
			before = append(before, a.Query)
		}
		r.Violate("C14/history/"+j.family()+"/"+c14hDiffKind(want, got),
			fmt.Sprintf("%s (%s) translates differently after %s was translated in the same process than as the first translation of a fresh process (same parameters)", j.Query, j.Kind, strings.Join(before, " ; ")),
			c14hCase{"history-cross", min, len(min), want, got})
		return nil
	}
	return nil
}

func c14History(r *h.Result, rng *h.Rng, rounds, passes, seqs int) error {
	r.Stream("history-cross: pools of ≤ 40 translation jobs (LogQL log pipelines with parser/drop/line_format stages followed by filters, metric queries over them, series/values, TraceQL search/eval/tags/values with portion contexts, PromQL matchers raw/down-sampled with hints, Pyroscope selectors through 7 endpoint planners) through the public entry points; ground truth: each job as the FIRST translation of a fresh child process; sequence children translate q1…qk (k ≤ 6, and full passes: a permutation of the pool twice) in one process — every text vs the pristine text of the same job; a difference is minimised to a (two-job) sequence")
	dir, err := os.MkdirTemp("", "c14hist")
	if err != nil {
		return err
	}
	defer os.RemoveAll(dir)
	cr := &c14hRunner{dir: dir}
	for round := 0; round < rounds; round++ {
		pool := c14hGenPool(rng)
		// pristine texts: one child per job
		var singles [][]c14hJob
		for _, j := range pool {
			singles = append(singles, []c14hJob{j})
		}
		outs, err := cr.runAll(singles)
		if err != nil {
			return err
		}
		ref := map[string]string{}
		for i, j := range pool {
			ref[j.key()] = outs[i].Texts[0]
			r.Count("history-cross:job:" + j.Kind)
			switch {
			case strings.HasPrefix(outs[i].Texts[0], "ERR:"):
				r.Count("history-cross:pristine-error:" + j.family())
			case strings.HasPrefix(outs[i].Texts[0], "PANIC:"):
				r.Count("history-cross:pristine-panic:" + j.family())
			}
			for _, t := range strings.Split(outs[i].Shapes[0], ",") {
				if t != "" {
					r.Count("history-cross:planner-type:" + t)
				}
			}
		}
		// sequences
		var all [][]c14hJob
		for p := 0; p < passes; p++ {
			perm := append([]c14hJob(nil), pool...)
			for i := len(perm) - 1; i > 0; i-- {
				k := rng.Intn(i + 1)
				perm[i], perm[k] = perm[k], perm[i]
			}
			all = append(all, append(append([]c14hJob(nil), perm...), perm...))
		}
		for s := 0; s < seqs; s++ {
			var seq []c14hJob
			for i, k := 0, rng.Range(2, 6); i < k; i++ {
				seq = append(seq, pool[rng.Intn(len(pool))])
			}
			all = append(all, seq)
		}
		souts, err := cr.runAll(all)
		if err != nil {
			return err
		}
		for i, seq := range all {
			var ks []string
			for _, j := range seq {
				ks = append(ks, j.key())
			}
			r.Case(fmt.Sprintf("history-cross:%d:%s", round, strings.Join(ks, "|")), len(seq) >= 2)
			if i < passes {
				r.Count("history-cross:full-pass")
				r.CountN("history-cross:translations-after-every-other-job", len(pool))
			} else {
				r.Count(fmt.Sprintf("history-cross:sequence-length=%d", len(seq)))
			}
			r.CountN("history-cross:translations-compared", len(seq))
			if err := c14hJudge(r, cr, seq, souts[i], ref); err != nil {
				return err
			}
		}
		if round == 0 {
			r.Sample(map[string]any{"stream": "history-cross", "pool_size": len(pool), "example_sequence": all[len(all)-1]})
		}
	}
	return nil
}

// replay of a recorded history-cross case: the sequence in one fresh child vs each job in its own fresh child
func c14hReplay(r *h.Result, cs c14hCase) error {
	dir, err := os.MkdirTemp("", "c14hist")
	if err != nil {
		return err
	}
	defer os.RemoveAll(dir)
	cr := &c14hRunner{dir: dir}
	var singles [][]c14hJob
	for _, j := range cs.Sequence {
		singles = append(singles, []c14hJob{j})
	}
	outs, err := cr.runAll(append(singles, cs.Sequence))
	if err != nil {
		return err
	}
	seqOut := outs[len(outs)-1]
	for i, j := range cs.Sequence {
		want := outs[i].Texts[0]
		if got := seqOut.Texts[i]; got != want {
			var before []string
			for _, a := range cs.Sequence[:i] {
				before = append(before, a.Query)
			}
			r.Violate("C14/history/"+j.family()+"/"+c14hDiffKind(want, got),
				fmt.Sprintf("%s (%s) translates differently after %s was translated in the same process than as the first translation of a fresh process (same parameters)", j.Query, j.Kind, strings.Join(before, " ; ")),
				c14hCase{"history-cross", cs.Sequence[:i+1], i + 1, want, got})
			break
		}
	}
	r.Case("replay:history-cross", true)
	return nil
}
