package main

import (
	"encoding/json"
	"fmt"
	"os"
	"strings"

	"github.com/metrico/qryn/reader/logql/logql_parser"
	"verif/harness/h"
)

// c08Replay re-runs the case stored in a replay file (as written by ./check from a violation or a disagreement):
// a (query, context) is put through the text tie, the chain oracle and the stage oracle again; a semantic case
// (with its database) through the model; a post-processor case through the real post-processors and their oracle.
func c08Replay(r *h.Result, rng *h.Rng, path string) error {
	raw, err := os.ReadFile(path)
	if err != nil {
		return err
	}
	var top struct {
		Replay        json.RawMessage `json:"replay"`
		Disagreements []struct {
			Case json.RawMessage `json:"case"`
		} `json:"disagreements"`
	}
	if err := json.Unmarshal(raw, &top); err != nil {
		return err
	}
	var objs []json.RawMessage
	if len(top.Replay) > 0 {
		objs = append(objs, top.Replay)
	}
	for _, d := range top.Disagreements {
		if len(d.Case) > 0 {
			objs = append(objs, d.Case)
		}
	}
	for _, o := range objs {
		var c struct {
			Query   string    `json:"query"`
			Ctx     *mctx     `json:"ctx"`
			ModelOp string    `json:"model_op"`
			OpA     string    `json:"model_op_a"`
			OpB     string    `json:"model_op_b"`
			Case    *postCase `json:"case"`
			Rows    []postEntry
			D       int64
		}
		if err := json.Unmarshal(o, &c); err != nil {
			return err
		}
		var pc postCase
		if json.Unmarshal(o, &pc) == nil && pc.D > 0 && pc.Step > 0 {
			c.Case = &pc
		}
		if c.OpA != "" && c.OpB != "" {
			// the same rows in two table orders
			ans, err := h.Model([]string{c.OpA, c.OpB})
			if err != nil {
				return err
			}
			if ans[0] != ans[1] {
				r.Violate("C08/first-last-tie-follows-row-order", "the same rows in two table orders give different results for "+c.Query,
					map[string]any{"query": c.Query, "rows_order_a": string(h.UnHex(ans[0])), "rows_order_b": string(h.UnHex(ans[1]))})
			}
			r.Case("replay:order", true)
		}
		switch {
		case c.Case != nil && c.Case.D > 0:
			from, to, out, err := runPost(*c.Case)
			if err != nil {
				return err
			}
			oraclePost(r, *c.Case, from, to, out)
			op := fmt.Sprintf("c08post %d %d %d %d %s", c.Case.From, c.Case.To, c.Case.Step, c.Case.D, serPost(c.Case.Rows))
			if err := r.Compare("post", []string{op}, []string{fmt.Sprintf("%d %d %s", from, to, serPost(out))}, []any{c.Case}); err != nil {
				return err
			}
			r.Case("replay:post", true)
		case c.ModelOp != "":
			ans, err := h.Model([]string{c.ModelOp})
			if err != nil {
				return err
			}
			if strings.HasPrefix(ans[0], "diff ") {
				parts := strings.SplitN(ans[0], " ", 3)
				r.Violate("C08/sql-differs-from-direct-reading:replay", "rows of the generated SQL differ from the direct reading of "+c.Query,
					map[string]any{"query": c.Query, "model_op": c.ModelOp, "sql_rows": string(h.UnHex(parts[1])), "direct_reading": string(h.UnHex(parts[2]))})
			}
			r.Case("replay:sem", true)
			fallthrough
		case c.Query != "":
			script, err := logql_parser.Parse(c.Query)
			if err != nil {
				return fmt.Errorf("replayed query does not parse: %w", err)
			}
			ctx := genMCtx(rng, scriptDuration(script))
			if c.Ctx != nil {
				ctx = *c.Ctx
			}
			ser, err := serMetric(script)
			if err != nil {
				// a query of the labelled path (label-rewriting stages in the selector, quantile_over_time)
				serX, errX := c08xSer(script)
				if errX != nil {
					return fmt.Errorf("replayed query is outside the fragment: %v / %v", err, errX)
				}
				sqlText, _, err := c08xImplSQL(c.Query, ctx)
				if err != nil {
					r.Violate("C08/fragment-query-not-planned", "a metric query of the modelled fragment is rejected by the planner: "+err.Error(),
						map[string]any{"query": c.Query, "ctx": ctx})
				} else {
					if err := r.Compare("textx", []string{"c08planx " + ctx.ser() + " " + serX}, []string{h.Hex([]byte(sqlText))},
						[]any{map[string]any{"query": c.Query, "ctx": ctx}}); err != nil {
						return err
					}
					if err := c08xOracle(r, rng, c.Query, ctx, sqlText); err != nil {
						return err
					}
				}
				r.Case("replay:queryx", true)
				continue
			}
			if sqlText, err := implMetricSQL(script, ctx); err != nil {
				r.Violate("C08/fragment-query-not-planned", "a metric query of the modelled fragment is rejected by the planner: "+err.Error(),
					map[string]any{"query": c.Query, "ctx": ctx})
			} else if err := r.Compare("text", []string{"c08plan " + ctx.ser() + " " + ser}, []string{h.Hex([]byte(sqlText))},
				[]any{map[string]any{"query": c.Query, "ctx": ctx}}); err != nil {
				return err
			}
			op, im, cs, err := chainCase(r, c.Query, script, ser, false)
			if err != nil {
				return err
			}
			if op != "" {
				if err := r.Compare("chain", []string{op}, []string{im}, []any{cs}); err != nil {
					return err
				}
			}
			if err := stageCase(r, rng, c.Query, script, ctx); err != nil {
				return err
			}
			r.Case("replay:query", true)
		}
	}
	r.Rule = "replay of the stored case(s)"
	return nil
}
