package main

// Stream "inflight" (C02 and C01): requests that arrive WHILE AN INSERT IS IN FLIGHT.
//
// One real InsertServiceV2 sub-service is stepped through the verif hook (runScenario): the fake ClickHouse client HOLDS
// every INSERT inside client.Do until the harness answers it, and — in half of the scenarios — the flusher is also held
// inside the OnBeforeInsert callback, i.e. between swapBuffers and its private copy of the waiting promises. While the
// flusher is held the harness issues further Requests on the same sub-service: none, one, as many as the batch in flight
// holds, more than that. Consecutive INSERTs get different outcomes (one fails, the next succeeds, …), so a promise tells
// which block completed it.
//
// The runs are compared with the atomic model (c01run: swap = "w", requests in between, Do result = "d") and with the
// heap model of the promise arrays (c02alias, configured from Gen.BatcherAlias). Oracle (no model), on the decoded blocks
// and the completions observed after every op:
//   * every request is answered exactly once: its promise is complete when the INSERT of the block that carries its rows
//     has returned (bounded wait, c0102_wait.go; confirmed alone with 10× the time) — else C01/request-never-answered;
//   * the answer is the outcome of THAT block, given when THAT INSERT returned, not earlier, not by another block —
//     else C02/request-told-outcome-of-another-block;
//   * every block holds whole rows of requests, each request's rows in one block.

import (
	"fmt"
	"strings"

	"verif/harness/h"
)

func genInflightScenario(rng *h.Rng, i int) *scenario {
	kind := []string{"samples", "timeSeries", "tempoTags", "metrics", "tempoSamples", "profile"}[i%6]
	sc := &scenario{Kind: kind, SvcNum: 1, Final: true, HoldBefore: i%2 == 1}
	rounds := 2 + rng.Intn(4)
	ok := rng.Bool()
	req := func() mop {
		n := 1 + rng.Intn(3)
		if kind == "profile" {
			n = 1
		}
		return mop{Kind: "req", Mode: "sync", ReqKind: kind, Lens: genLens(rng, kind, n, false), Size: n*20 + 1}
	}
	inflight := 0
	for k := 0; k < rounds; k++ {
		b := 1 + rng.Intn(4)
		if k > 0 && inflight > 0 && rng.Chance(30) {
			b = 0 // the batch of this round is only what arrived during the previous INSERT
		}
		for j := 0; j < b; j++ {
			sc.Ops = append(sc.Ops, req())
		}
		queued := b + inflight
		sc.Ops = append(sc.Ops, mop{Kind: "trigger"}, mop{Kind: "iter", Ok: true})
		// requests while the flusher is held: classes 0 / 1 / fewer than, as many as, more than the batch in flight
		d := []int{0, 1, 1, 2, queued, queued + 1, queued + 3}[rng.Intn(7)]
		if k == 0 && d == 0 {
			d = 1 // every scenario has at least one request during an INSERT
		}
		if sc.HoldBefore {
			// some arrive before the copy of the promises (inside OnBeforeInsert), the rest during client.Do
			d1 := rng.Intn(d + 1)
			for j := 0; j < d1; j++ {
				sc.Ops = append(sc.Ops, req())
			}
			sc.Ops = append(sc.Ops, mop{Kind: "begin"})
			for j := d1; j < d; j++ {
				sc.Ops = append(sc.Ops, req())
			}
		} else {
			for j := 0; j < d; j++ {
				sc.Ops = append(sc.Ops, req())
			}
		}
		sc.Ops = append(sc.Ops, mop{Kind: "dores", Ok: ok})
		if !rng.Chance(15) {
			ok = !ok // consecutive INSERT outcomes differ
		}
		inflight = d
	}
	return sc
}

// the corpus: the schedule of the demonstration that came with the seeded change (A: 3 rows, flush, B during the INSERT,
// INSERT 0 accepted, INSERT 1 with B's rows fails), with and without the stop inside OnBeforeInsert
func inflightCorpus() []*scenario {
	rect := func(kind string, n int) map[string]int { return genLens(h.NewRng(1), kind, n, false) }
	mk := func(hold bool) *scenario {
		ops := []mop{
			{Kind: "req", Mode: "sync", ReqKind: "samples", Lens: rect("samples", 3), Size: 90},
			{Kind: "trigger"}, {Kind: "iter", Ok: true}}
		if hold {
			ops = append(ops, mop{Kind: "req", Mode: "sync", ReqKind: "samples", Lens: rect("samples", 2), Size: 60}, mop{Kind: "begin"})
		} else {
			ops = append(ops, mop{Kind: "req", Mode: "sync", ReqKind: "samples", Lens: rect("samples", 2), Size: 60})
		}
		ops = append(ops, mop{Kind: "dores", Ok: true}, mop{Kind: "trigger"}, mop{Kind: "iter", Ok: true}, mop{Kind: "dores", Ok: false})
		return &scenario{Kind: "samples", SvcNum: 1, Final: true, HoldBefore: hold, Ops: ops}
	}
	return []*scenario{mk(false), mk(true)}
}

var inflightWitness = map[string]string{"samples": "string", "metrics": "timestamp_ns", "timeSeries": "labels", "tempoSamples": "name",
	"tempoTags": "key", "profile": "payload"}

type inflightStats struct{ requests, duringFlight, blocks, violations int }

// judgeInflight: the oracle of the stream, on the events of one run. Returns what it counted.
func judgeInflight(r *h.Result, sc *scenario, res *scenResult, judgeOpen bool) inflightStats {
	var st inflightStats
	wcol := inflightWitness[sc.Kind]
	type blkInfo struct {
		ev   sevent
		k    int
		told []int // requests completed at the step this INSERT returned
	}
	var blks []*blkInfo
	byStep := map[int]*blkInfo{}
	where := map[uint64][]int{} // witness cell -> blocks
	for _, ev := range res.events {
		if ev.Kind == "insert" {
			b := &blkInfo{ev: ev, k: len(blks)}
			blks = append(blks, b)
			byStep[ev.Step] = b
			for _, v := range ev.Blk.Data[wcol] {
				where[v] = append(where[v], b.k)
			}
		}
	}
	st.blocks = len(blks)
	resolvedAt := map[int]sevent{}
	nResolved := map[int]int{}
	for _, ev := range res.events {
		if ev.Kind == "resolved" {
			if _, seen := resolvedAt[ev.ID]; !seen {
				resolvedAt[ev.ID] = ev
			}
			nResolved[ev.ID]++
			if b := byStep[ev.Step]; b != nil {
				b.told = append(b.told, ev.ID)
			}
		}
	}
	// which ops were issued while the flusher was held
	held := map[int]bool{}
	inFlight := false
	for step, op := range sc.Ops {
		switch op.Kind {
		case "iter":
			inFlight = true
		case "dores":
			inFlight = false
		case "req":
			if inFlight {
				held[step] = true
			}
		}
	}
	outcome := func(b *blkInfo) string {
		if b.ev.Ok {
			return "accepted"
		}
		return "failed"
	}
	var opsText []string
	for _, op := range sc.Ops {
		switch op.Kind {
		case "req":
			opsText = append(opsText, fmt.Sprintf("Request(%d rows)", op.Lens[kindFields[op.ReqKind][0].name]))
		case "trigger":
			opsText = append(opsText, "PlanFlush")
		case "iter":
			if sc.HoldBefore {
				opsText = append(opsText, "insertBegin[buffers swapped, flusher held in OnBeforeInsert]")
			} else {
				opsText = append(opsText, "insertBegin[buffers swapped, client.Do entered and held]")
			}
		case "begin":
			opsText = append(opsText, "[client.Do entered and held]")
		case "dores":
			opsText = append(opsText, "insertEnd("+okStr(op.Ok)+")")
		}
	}
	replay := map[string]any{"stream": "inflight", "scenario": sc, "op_sequence": opsText, "impl": res.implOut}
	for _, id := range sortedKeys(res.reqs) {
		req := res.reqs[id]
		n := req.nrows(sc.Kind)
		if n <= 0 || req.size == 0 {
			continue
		}
		st.requests++
		if held[req.step] {
			st.duringFlight++
		}
		cells := req.colCells(sc.Kind, wcol)
		// the block that carries its rows: all witness cells in one block, and every column of that block holds the
		// request's values contiguously
		blk := -1
		spread := false
		for _, c := range cells {
			for _, k := range where[c] {
				if blk == -1 {
					blk = k
				} else if blk != k {
					spread = true
				}
			}
		}
		if blk >= 0 && !spread {
			for _, col := range blks[blk].ev.Blk.Cols {
				if !containsSub(blks[blk].ev.Blk.Data[col], req.colCells(sc.Kind, col)) {
					spread = true
				}
			}
		}
		what := fmt.Sprintf("%s service, request %d (%d rows, issued at op %d%s)", sc.Kind, id, n, req.step,
			map[bool]string{true: ", while an INSERT was in flight", false: ""}[held[req.step]])
		if spread {
			st.violations++
			r.Violate("C02/request-rows-not-whole-in-one-block", what+": its rows are not whole, once, in one block", replay)
			continue
		}
		ev, answered := resolvedAt[id]
		if blk < 0 {
			// its rows were never sent: it must not have been answered with success (C01's svc oracle), nothing more to say
			continue
		}
		b := blks[blk]
		if !answered && !judgeOpen {
			continue
		}
		if !answered {
			st.violations++
			r.Violate("C01/request-never-answered",
				fmt.Sprintf("%s: its rows travelled in block %d, whose INSERT returned (%s) at op %d, but its promise was never completed (still open %s after the last flush iteration returned; the op sequence alone showed it again with %d× the time); that INSERT completed the promises of requests %v instead. Op sequence: %s",
					what, blk, outcome(b), b.ev.Step, "200ms", c0102ConfirmScale, b.told, strings.Join(opsText, "; ")), replay)
			continue
		}
		if ev.Step != b.ev.Step {
			st.violations++
			other := "no INSERT returned at that op"
			if ob := byStep[ev.Step]; ob != nil {
				other = fmt.Sprintf("that is when the INSERT of block %d returned (%s)", ob.k, outcome(ob))
			}
			r.Violate("C02/request-told-outcome-of-another-block",
				fmt.Sprintf("%s: its rows travelled in block %d (%s, INSERT returned at op %d) but its promise was completed (%s) at op %d — %s. Op sequence: %s",
					what, blk, outcome(b), b.ev.Step, okStr(ev.Ok), ev.Step, other, strings.Join(opsText, "; ")), replay)
			continue
		}
		if ev.Ok != b.ev.Ok {
			st.violations++
			r.Violate("C02/request-told-outcome-of-another-block",
				fmt.Sprintf("%s: its rows travelled in block %d, which %s, but its promise was completed with %s", what, blk, outcome(b), okStr(ev.Ok)), replay)
		}
	}
	return st
}

// c02Inflight runs the stream: corpus + n generated scenarios; comparison with the atomic model and the heap model, oracle.
func c02Inflight(r *h.Result, rng *h.Rng, n int, rep *scenario) error {
	r.Stream("inflight: one real InsertServiceV2 sub-service stepped through the verif hook with every INSERT HELD inside client.Do (and, every other scenario, the flusher held inside OnBeforeInsert: between swapBuffers and the copy of the waiting promises) while 0…(batch+3) further Requests are issued on it; consecutive INSERT outcomes differ; vs Batcher.Multi.run and vs the heap model BatcherAlias.arun under Gen.BatcherAlias.cfg; oracle: every request answered exactly once, when the INSERT of the block carrying its rows returns, with that block's outcome")
	var scs []*scenario
	if rep != nil {
		scs = []*scenario{rep}
	} else {
		scs = inflightCorpus()
		for i := 0; len(scs) < n; i++ {
			scs = append(scs, genInflightScenario(rng.Fork(), i))
		}
	}
	results := make([]*scenResult, len(scs))
	sem := make(chan struct{}, 12)
	done := make(chan int, len(scs))
	for i := range scs {
		sem <- struct{}{}
		go func(i int) {
			results[i] = runScenario(scs[i])
			<-sem
			done <- i
		}(i)
	}
	for range scs {
		<-done // runScenario bounds every wait on the implementation by itself
	}
	var ops, impl, aops, aimpl []string
	var cases, acases []any
	confirmations := 0
	for i, res := range results {
		sc := scs[i]
		if res.err != nil && !res.timedOut {
			return fmt.Errorf("inflight scenario %d: %v", i, res.err)
		}
		neverAnswered := func(x *scenResult) bool { return len(x.hung) > 0 || (x.err != nil && x.timedOut) }
		confirmedHang := false
		if neverAnswered(res) && confirmations >= 3 {
			// three op sequences have already been confirmed alone in this run: the verdict of the stream is in, a
			// further one would only cost its 10× deadline; this run is judged on everything but the open promises
			r.Count("inflight:clock-verdict-not-re-examined")
			if res.err != nil {
				continue
			}
			res.hung = nil
		}
		if neverAnswered(res) {
			confirmations++
			confirmedHang = true
			// clock-based (a deadline / the grace for open promises passed): the op sequence alone, 10× the time, decides
			c0102Confirm(func(scale int) bool {
				cp := *sc
				cp.scale = scale
				res = runScenario(&cp)
				return neverAnswered(res)
			})
			if neverAnswered(res) {
				r.Count("inflight:clock-verdict-confirmed-alone")
			} else {
				r.Count("inflight:clock-verdict-not-confirmed")
			}
		}
		if res.err != nil {
			if !res.timedOut {
				return fmt.Errorf("inflight scenario %d: %v", i, res.err)
			}
			r.Violate("C01/service-call-never-returned", fmt.Sprintf("%s service: %v (shown again alone with %d× the deadline); ops played: %s", sc.Kind, res.err,
				c0102ConfirmScale, trunc(strings.Join(res.opsSoFar, ";"), 300)), map[string]any{"stream": "inflight", "scenario": sc, "ops_played": res.opsSoFar})
			continue
		}
		st := judgeInflight(r, sc, res, confirmedHang)
		r.Case(fmt.Sprintf("inflight:%s:%s", sc.Kind, res.implOut), st.duringFlight > 0 && st.blocks >= 2)
		r.CountN("inflight:requests", st.requests)
		r.CountN("inflight:requests-issued-while-insert-in-flight", st.duringFlight)
		r.CountN("inflight:blocks", st.blocks)
		r.CountN("inflight:flusher-held-before-copy", res.stats["held-before-insert"])
		r.Count("inflight:table:" + sc.Kind)
		if i < 2 {
			r.Sample(map[string]any{"stream": "inflight", "model_line": trunc(res.modelOps, 400), "impl": trunc(res.implOut, 400)})
		}
		ops = append(ops, res.modelOps)
		impl = append(impl, res.implOut)
		cases = append(cases, sc)
		if line, out, ok := c02AliasLine(sc, res); ok {
			aops = append(aops, line)
			aimpl = append(aimpl, out)
			acases = append(acases, sc)
		}
	}
	if err := r.Compare("inflight", ops, impl, cases); err != nil {
		return err
	}
	return r.Compare("inflight-heap", aops, aimpl, acases)
}

// c02AliasLine: the run as a line of the heap model (driver op c02alias, one sub-service, configured from
// Gen.BatcherAlias): the ops of sub-service 0 with "b" (insertBegin) where the flusher entered client.Do and, per
// request, whether append(svc.results, p) reallocated (observed on the real slice: len == cap before the call).
func c02AliasLine(sc *scenario, res *scenResult) (line, out string, ok bool) {
	if sc.SvcNum != 1 || res.err != nil {
		return "", "", false
	}
	begins := map[int]int{}
	for _, p := range res.beginPos {
		begins[p]++
	}
	var ops []string
	flush := func(pos int) {
		for k := 0; k < begins[pos]; k++ {
			ops = append(ops, "b")
		}
	}
	flush(0)
	for i, op := range res.opsSoFar {
		f := strings.Split(op, ":")
		switch f[0] {
		case "q": // q:mode:pick:id:ptype:size:arrays:scalars
			if len(f) != 8 || f[1] != "sync" {
				return "", "", false
			}
			id := 0
			fmt.Sscanf(f[3], "%d", &id)
			ops = append(ops, fmt.Sprintf("q:%s:%s:%s:%s:%s:%s", f[3], f[4], f[5], f[6], f[7], b01(res.growOf[id])))
		case "t", "w", "s":
			if f[1] == "0" {
				ops = append(ops, f[0])
			}
		case "c", "d", "p":
			if f[1] == "0" {
				ops = append(ops, f[0]+":"+f[2])
			}
		case "f":
			ops = append(ops, "t")
		default:
			return "", "", false
		}
		flush(i + 1)
	}
	hash := strings.LastIndex(res.implOut, "#")
	if hash < 0 {
		return "", "", false
	}
	state := res.implOut[hash+1:]
	if state != "crashed" {
		state = strings.Split(state, ";")[0]
	}
	return fmt.Sprintf("c02alias %s %d %s", sc.Kind, sc.MaxQueue, strings.Join(ops, ";")), res.implOut[:hash] + "#" + state, true
}
