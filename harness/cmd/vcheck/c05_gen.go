package main

// C05 generators. A structured case is an abstract document shape (the `Doc` of lean/Qryn/Ingest/Faults.lean,
// written as a tree of naturals for the driver) together with real request bytes of that shape. Shapes are
// mostly valid and then ill-shaped on purpose: a field dropped, a JSON kind changed, an array emptied, an id
// of the wrong length, an absent optional message, a truncated document, an oversized field.

import (
	"bytes"
	"compress/gzip"
	"fmt"
	"mime/multipart"
	"net/url"
	"strconv"
	"strings"

	"github.com/golang/snappy"
	pprof_proto "github.com/google/pprof/profile"
	"github.com/metrico/qryn/writer/utils/proto/logproto"
	"github.com/metrico/qryn/writer/utils/proto/prompb"
	v11 "go.opentelemetry.io/proto/otlp/common/v1"
	otlpLogs "go.opentelemetry.io/proto/otlp/logs/v1"
	resv1 "go.opentelemetry.io/proto/otlp/resource/v1"
	trace "go.opentelemetry.io/proto/otlp/trace/v1"
	"google.golang.org/protobuf/proto"

	"verif/harness/h"
)

const (
	c05RLokiJson = iota
	c05RLokiProto
	c05RInflux
	c05ROtlpLogs
	c05RPromWrite
	c05RElasticDoc
	c05RElasticBulk
	c05RZipkinJson
	c05RZipkinNd
	c05ROtlpTraces
	c05RProfile
)

var c05RouteNames = []string{"loki-json", "loki-proto", "influx", "otlp-logs", "prom-write", "elastic-doc", "elastic-bulk",
	"tempo-spans", "tempo-spans-ndjson", "otlp-traces", "ingest-profile"}

// decoder group (Gen.BodyHashes) of a route, for the staleness boost
var c05RouteGroup = []string{"loki", "loki", "influx", "otlplogs", "prom", "elastic", "elastic", "zipkin", "zipkin", "otlptraces", "profile"}

type c05Case struct {
	Route int
	Enc   int    // 0 plain, 1 gzip, 2 gzip header without gzip body, 3 unsupported encoding
	Tree  string // body tree for the driver
	Req   c05Request
	Shape string // what is odd about it ("valid" if nothing), used in keys and the distribution
}

func (c c05Case) op(fx int) string {
	return fmt.Sprintf("c05ingest %d %d %d %s", fx, c.Route, c.Enc, c.Tree)
}

func c05B2i(b bool) int {
	if b {
		return 1
	}
	return 0
}

func c05Tl(parts ...string) string { return "( " + strings.Join(parts, " ") + " )" }
func c05Tn(n int) string           { return fmt.Sprint(n) }

type c05Shapes struct{ s []string }

func (s *c05Shapes) add(x string) {
	for _, y := range s.s {
		if y == x {
			return
		}
	}
	s.s = append(s.s, x)
}
func (s *c05Shapes) String() string {
	if len(s.s) == 0 {
		return "valid"
	}
	return strings.Join(s.s, "+")
}

const c05Ts = 1700000000000000000

// ---------------------------------------------------------------- Loki JSON
func c05GenLokiJson(rng *h.Rng, odd bool) c05Case {
	var sh c05Shapes
	var streams, trees []string
	ns := 1 + rng.Intn(3)
	if odd && rng.Chance(10) {
		ns = 0
		sh.add("no-streams")
	}
	for i := 0; i < ns; i++ {
		nl := 1 + rng.Intn(3)
		labelTree := c05Tl("0", c05Tn(nl))
		var labelJSON string
		useLabelsString := rng.Chance(30)
		switch {
		case odd && rng.Chance(8):
			labelJSON = `"stream":{"a":1}`
			labelTree = c05Tl("1")
			sh.add("label-kind")
		case odd && rng.Chance(6):
			labelJSON = `"labels":"{a=}"`
			labelTree = c05Tl("1")
			sh.add("labels-unparsable")
		case odd && rng.Chance(5):
			labelJSON = `"labels":"{a=\"\\xZZ\"}"`
			labelTree = c05Tl("2")
			sh.add("labels-bad-quote")
		case odd && rng.Chance(5):
			labelJSON = `"stream":{}`
			labelTree = c05Tl("0", "0")
			sh.add("no-labels")
		case useLabelsString:
			var ps []string
			for j := 0; j < nl; j++ {
				ps = append(ps, fmt.Sprintf(`k%d=\"v%s\"`, j, rng.Ident(4)))
			}
			labelJSON = `"labels":"{` + strings.Join(ps, ",") + `}"`
		default:
			var ps []string
			for j := 0; j < nl; j++ {
				ps = append(ps, fmt.Sprintf(`"k%d":"%s"`, j, rng.Ident(5)))
			}
			labelJSON = `"stream":{` + strings.Join(ps, ",") + `}`
		}
		ne := 1 + rng.Intn(4)
		if odd && rng.Chance(15) {
			ne = 0
			sh.add("empty-values")
		}
		type ent struct {
			line, value bool
			l           int
			bad         string
		}
		var ents []ent
		entriesFmt := rng.Chance(25)
		for j := 0; j < ne; j++ {
			e := ent{line: true, value: rng.Chance(30), l: 1 + rng.Intn(12)}
			if odd && rng.Chance(8) {
				e.line, e.value, e.l = false, false, 0
				sh.add("entry-ts-only")
			}
			if odd && rng.Chance(6) {
				e.line, e.value, e.l = false, true, 0
				entriesFmt = true
				sh.add("entry-value-only")
			}
			if odd && rng.Chance(8) {
				e.bad = h.Pick(rng, []string{`[1,"x"]`, `["abc","x"]`, `["1",5]`, `"notarray"`, `[{"a":1}]`})
				sh.add("entry-kind")
			}
			ents = append(ents, e)
		}
		var ej, et []string
		for j, e := range ents {
			ts := fmt.Sprint(c05Ts + int64(j))
			line := strings.Repeat("m", e.l)
			if e.bad != "" {
				if entriesFmt {
					ej = append(ej, `{"ts":5}`)
				} else {
					ej = append(ej, e.bad)
				}
				et = append(et, c05Tl("1"))
				continue
			}
			et = append(et, c05Tl("0", c05Tn(c05B2i(e.line)), c05Tn(c05B2i(e.value)), c05Tn(e.l)))
			if entriesFmt {
				fs := []string{fmt.Sprintf(`"ts":"%s"`, ts)}
				if e.line {
					fs = append(fs, fmt.Sprintf(`"line":"%s"`, line))
				}
				if e.value {
					fs = append(fs, `"value":1.5`)
				}
				ej = append(ej, "{"+strings.Join(fs, ",")+"}")
			} else {
				switch {
				case !e.line:
					ej = append(ej, fmt.Sprintf(`["%s"]`, ts))
				case e.value:
					ej = append(ej, fmt.Sprintf(`["%s","%s",2.5]`, ts, line))
				default:
					ej = append(ej, fmt.Sprintf(`["%s","%s"]`, ts, line))
				}
			}
		}
		key := "values"
		if entriesFmt {
			key = "entries"
		}
		streams = append(streams, fmt.Sprintf(`{%s,"%s":[%s]}`, labelJSON, key, strings.Join(ej, ",")))
		trees = append(trees, c05Tl(labelTree, c05Tl(et...)))
	}
	body := `{"streams":[` + strings.Join(streams, ",") + `]}`
	tail := 0
	if odd && rng.Chance(10) {
		body = body[:len(body)-2]
		tail = 1
		sh.add("truncated")
	}
	return c05Case{Route: c05RLokiJson, Tree: c05Tl("0", c05Tn(tail), c05Tl(trees...)),
		Req:   c05Request{"POST", "/loki/api/v1/push", map[string]string{"Content-Type": "application/json"}, []byte(body)},
		Shape: sh.String()}
}

// bytes that are not a protobuf message of any of the types used here (field 0 / truncated varint)
var c05NotProto = []byte{0x00, 0xff, 0xff, 0xff, 0xff, 0xff, 0xff, 0xff, 0xff, 0xff, 0xff, 0x01}

// ---------------------------------------------------------------- Loki protobuf
func c05GenLokiProto(rng *h.Rng, odd bool) c05Case {
	var sh c05Shapes
	if odd && rng.Chance(10) {
		return c05Case{Route: c05RLokiProto, Tree: c05Tl("1", "0", c05Tl()),
			Req:   c05Request{"POST", "/loki/api/v1/push", map[string]string{"Content-Type": "application/x-protobuf"}, snappy.Encode(nil, c05NotProto)},
			Shape: "not-protobuf"}
	}
	req := &logproto.PushRequest{}
	var trees []string
	ns := 1 + rng.Intn(3)
	for i := 0; i < ns; i++ {
		nl := 1 + rng.Intn(3)
		var ps []string
		for j := 0; j < nl; j++ {
			ps = append(ps, fmt.Sprintf(`k%d="%s"`, j, rng.Ident(5)))
		}
		labels := "{" + strings.Join(ps, ",") + "}"
		lt := c05Tl("0", c05Tn(nl))
		switch {
		case odd && rng.Chance(8):
			labels, lt = "{a=}", c05Tl("1")
			sh.add("labels-unparsable")
		case odd && rng.Chance(6):
			labels, lt = "{}", c05Tl("1")
			sh.add("labels-empty")
		case odd && rng.Chance(6):
			labels, lt = `{a="\xZZ"}`, c05Tl("2")
			sh.add("labels-bad-quote")
		}
		ne := 1 + rng.Intn(4)
		if odd && rng.Chance(20) {
			ne = 0
			sh.add("empty-entries")
		}
		st := &logproto.StreamAdapter{Labels: labels}
		for j := 0; j < ne; j++ {
			e := &logproto.EntryAdapter{Line: rng.Ident(8), Timestamp: &logproto.Timestamp{Seconds: c05Ts / 1e9, Nanos: int32(j)}}
			if odd && rng.Chance(10) {
				e.Timestamp = nil
				sh.add("entry-no-timestamp")
			}
			st.Entries = append(st.Entries, e)
		}
		req.Streams = append(req.Streams, st)
		trees = append(trees, c05Tl(lt, c05Tn(ne)))
	}
	raw, _ := proto.Marshal(req)
	return c05Case{Route: c05RLokiProto, Tree: c05Tl("1", "1", c05Tl(trees...)),
		Req:   c05Request{"POST", "/loki/api/v1/push", map[string]string{"Content-Type": "application/x-protobuf"}, snappy.Encode(nil, raw)},
		Shape: sh.String()}
}

// ---------------------------------------------------------------- Influx line protocol
func c05GenInflux(rng *h.Rng, odd bool) c05Case {
	var sh c05Shapes
	path := "/influx/api/v2/write?precision=" + h.Pick(rng, []string{"ns", "us", "ms", "s"})
	if rng.Chance(20) {
		path = "/influx/api/v2/write"
	}
	precOk := 1
	if odd && rng.Chance(8) {
		path = "/influx/api/v2/write?precision=xx"
		precOk = 0
		sh.add("bad-precision")
	}
	kinds := []string{"", `"s"`, "1i", "2.5", "true", "7u"}
	var lines, trees []string
	nl := 1 + rng.Intn(4)
	for i := 0; i < nl; i++ {
		if odd && rng.Chance(8) {
			lines = append(lines, "m,,, =")
			trees = append(trees, c05Tl("0"))
			sh.add("bad-line")
			continue
		}
		msg := 0
		var fields, others []string
		if rng.Chance(50) {
			msg = 1
			if odd && rng.Chance(30) {
				msg = 2 + rng.Intn(4)
				sh.add("message-not-string")
			}
			fields = append(fields, "message="+kinds[msg])
		}
		no := rng.Intn(3)
		if msg == 0 && no == 0 {
			no = 1
		}
		for j := 0; j < no; j++ {
			k := 1 + rng.Intn(5)
			fields = append(fields, fmt.Sprintf("f%d=%s", j, kinds[k]))
			others = append(others, c05Tn(k))
		}
		lines = append(lines, fmt.Sprintf("m%d,host=h%d %s %d", i, rng.Intn(3), strings.Join(fields, ","), c05Ts+int64(i)))
		trees = append(trees, c05Tl(append([]string{"1", c05Tn(msg)}, others...)...))
	}
	body := strings.Join(lines, "\n") + "\n"
	if odd && rng.Chance(8) {
		// the body ends inside an escape of the measurement name: telegraf's stream parser used to spin on it
		body += h.Pick(rng, []string{"\\", "m\\", "cpu\\"})
		trees = append(trees, c05Tl("2"))
		sh.add("dangling-escape")
	}
	return c05Case{Route: c05RInflux, Tree: c05Tl("2", c05Tn(precOk), c05Tl(trees...)),
		Req: c05Request{"POST", path, map[string]string{"Content-Type": "text/plain"}, []byte(body)}, Shape: sh.String()}
}

// ---------------------------------------------------------------- OTLP AnyValue trees
type c05Anyv struct {
	kind int // 0 absent, 1 scalar, 2 array, 3 kvlist
	sk   int // scalar: 0 non-empty string, 1 empty string, 2 int, 3 bool, 4 oneof unset, 5 bytes
	kids []c05Anyv
}

func c05GenAnyV(rng *h.Rng, odd bool, depth int, allowAbsent bool, sh *c05Shapes) c05Anyv {
	if allowAbsent && odd && rng.Chance(12) {
		sh.add("attr-without-value")
		return c05Anyv{kind: 0}
	}
	if depth > 0 && rng.Chance(20) {
		k := 2 + rng.Intn(2)
		n := rng.Intn(3)
		a := c05Anyv{kind: k}
		for i := 0; i < n; i++ {
			// array items are messages on the wire (never nil); kvlist entries are KeyValues whose value may be absent
			a.kids = append(a.kids, c05GenAnyV(rng, odd, depth-1, k == 3, sh))
		}
		return a
	}
	sk := 0
	if rng.Chance(50) {
		sk = 1 + rng.Intn(5)
	}
	return c05Anyv{kind: 1, sk: sk}
}
func (a c05Anyv) tree() string {
	switch a.kind {
	case 0:
		return "0"
	case 1:
		return "1"
	}
	parts := []string{c05Tn(a.kind)}
	for _, k := range a.kids {
		parts = append(parts, k.tree())
	}
	return c05Tl(parts...)
}
func (a c05Anyv) proto(rng *h.Rng) *v11.AnyValue {
	switch a.kind {
	case 0:
		return nil
	case 1:
		switch a.sk {
		case 1:
			return &v11.AnyValue{Value: &v11.AnyValue_StringValue{StringValue: ""}}
		case 2:
			return &v11.AnyValue{Value: &v11.AnyValue_IntValue{IntValue: 7}}
		case 3:
			return &v11.AnyValue{Value: &v11.AnyValue_BoolValue{BoolValue: true}}
		case 4:
			return &v11.AnyValue{} // oneof unset
		case 5:
			return &v11.AnyValue{Value: &v11.AnyValue_BytesValue{BytesValue: []byte{1, 2}}}
		}
		return &v11.AnyValue{Value: &v11.AnyValue_StringValue{StringValue: rng.Ident(6)}}
	case 2:
		arr := &v11.ArrayValue{}
		for _, k := range a.kids {
			arr.Values = append(arr.Values, k.proto(rng))
		}
		return &v11.AnyValue{Value: &v11.AnyValue_ArrayValue{ArrayValue: arr}}
	}
	kv := &v11.KeyValueList{}
	for i, k := range a.kids {
		kv.Values = append(kv.Values, &v11.KeyValue{Key: fmt.Sprintf("n%d", i), Value: k.proto(rng)})
	}
	return &v11.AnyValue{Value: &v11.AnyValue_KvlistValue{KvlistValue: kv}}
}

func c05GenAttrs(rng *h.Rng, odd bool, max int, sh *c05Shapes) []c05Anyv {
	n := rng.Intn(max + 1)
	var out []c05Anyv
	for i := 0; i < n; i++ {
		out = append(out, c05GenAnyV(rng, odd, 2, true, sh))
	}
	return out
}
func c05AttrsTree(as []c05Anyv) []string {
	var t []string
	for _, a := range as {
		t = append(t, a.tree())
	}
	return t
}
func c05AttrsProto(rng *h.Rng, as []c05Anyv, prefix string) []*v11.KeyValue {
	var out []*v11.KeyValue
	for i, a := range as {
		out = append(out, &v11.KeyValue{Key: fmt.Sprintf("%s%d", prefix, i), Value: a.proto(rng)})
	}
	return out
}

// ---------------------------------------------------------------- OTLP logs
func c05GenOtlpLogs(rng *h.Rng, odd bool) c05Case {
	var sh c05Shapes
	hdr := map[string]string{"Content-Type": "application/x-protobuf"}
	if odd && rng.Chance(8) {
		return c05Case{Route: c05ROtlpLogs, Tree: c05Tl("3", "0", c05Tl()), Req: c05Request{"POST", "/v1/logs", hdr, c05NotProto}, Shape: "not-protobuf"}
	}
	data := &otlpLogs.LogsData{}
	var rts []string
	nr := 1 + rng.Intn(2)
	for i := 0; i < nr; i++ {
		rl := &otlpLogs.ResourceLogs{}
		resTree := c05Tl("0")
		if odd && rng.Chance(25) {
			sh.add("no-resource")
		} else {
			as := c05GenAttrs(rng, odd, 2, &sh)
			rl.Resource = &resv1.Resource{Attributes: c05AttrsProto(rng, as, "r")}
			resTree = c05Tl(append([]string{"1"}, c05AttrsTree(as)...)...)
		}
		var sts []string
		nsc := 1 + rng.Intn(2)
		for j := 0; j < nsc; j++ {
			sl := &otlpLogs.ScopeLogs{}
			scTree := c05Tl("0")
			if odd && rng.Chance(25) {
				sh.add("no-scope")
			} else {
				as := c05GenAttrs(rng, odd, 2, &sh)
				sl.Scope = &v11.InstrumentationScope{Name: "s", Attributes: c05AttrsProto(rng, as, "s")}
				scTree = c05Tl(append([]string{"1"}, c05AttrsTree(as)...)...)
			}
			var recs []string
			nrec := rng.Intn(3)
			for k := 0; k < nrec; k++ {
				as := c05GenAttrs(rng, odd, 2, &sh)
				lr := &otlpLogs.LogRecord{TimeUnixNano: c05Ts + uint64(k), Attributes: c05AttrsProto(rng, as, "a"),
					Body: &v11.AnyValue{Value: &v11.AnyValue_StringValue{StringValue: rng.Ident(10)}}}
				if odd && rng.Chance(15) {
					lr.Body = nil
					sh.add("no-body")
				}
				sl.LogRecords = append(sl.LogRecords, lr)
				recs = append(recs, c05Tl(c05AttrsTree(as)...))
			}
			rl.ScopeLogs = append(rl.ScopeLogs, sl)
			sts = append(sts, c05Tl(scTree, c05Tl(recs...)))
		}
		data.ResourceLogs = append(data.ResourceLogs, rl)
		rts = append(rts, c05Tl(resTree, c05Tl(sts...)))
	}
	raw, _ := proto.Marshal(data)
	return c05Case{Route: c05ROtlpLogs, Tree: c05Tl("3", "1", c05Tl(rts...)), Req: c05Request{"POST", "/v1/logs", hdr, raw}, Shape: sh.String()}
}

// ---------------------------------------------------------------- Prometheus remote write
// Some requests cross the decoder's flush limit of 1000 points (Appendix A1, fixed by C03: a regression would
// show as a non-rectangular samples block).
func c05GenProm(rng *h.Rng, odd bool) c05Case {
	var sh c05Shapes
	path := h.Pick(rng, []string{"/api/v1/prom/remote/write", "/v1/prom/remote/write", "/prom/remote/write", "/api/prom/push"})
	hdr := map[string]string{"Content-Type": "application/x-protobuf"}
	if odd && rng.Chance(10) {
		body := snappy.Encode(nil, c05NotProto)
		shape := "not-protobuf"
		if rng.Bool() {
			body = []byte("plain text, neither snappy nor protobuf \xff\xff")
			shape = "not-snappy"
		}
		return c05Case{Route: c05RPromWrite, Tree: c05Tl("4", "0", c05Tl()), Req: c05Request{"POST", path, hdr, body}, Shape: shape}
	}
	req := &prompb.WriteRequest{}
	var ns []string
	n := 1 + rng.Intn(3)
	if odd && rng.Chance(10) {
		n = 0
		sh.add("no-series")
	}
	for i := 0; i < n; i++ {
		ts := &prompb.TimeSeries{Labels: []*prompb.Label{{Name: "__name__", Value: "m" + rng.Ident(4)}, {Name: "job", Value: "j"}}}
		k := 1 + rng.Intn(5)
		if odd && rng.Chance(15) {
			k = 0
			sh.add("series-without-samples")
		}
		if rng.Chance(6) {
			// crosses the decoder's flush limit of 1000 points (A1, fixed by C03), possibly more than once
			k = h.Pick(rng, []int{999, 1000, 1001, 1500, 2003})
			sh.add("over-1000-points")
		}
		if odd && rng.Chance(10) {
			ts.Labels = nil
			sh.add("series-without-labels")
		}
		for j := 0; j < k; j++ {
			ts.Samples = append(ts.Samples, &prompb.Sample{Value: float64(j), Timestamp: c05Ts/1e6 + int64(j)})
		}
		req.Timeseries = append(req.Timeseries, ts)
		ns = append(ns, c05Tn(k))
	}
	raw, _ := proto.Marshal(req)
	return c05Case{Route: c05RPromWrite, Tree: c05Tl("4", "1", c05Tl(ns...)), Req: c05Request{"POST", path, hdr, snappy.Encode(nil, raw)}, Shape: sh.String()}
}

// ---------------------------------------------------------------- Elastic
func c05GenElasticDoc(rng *h.Rng, odd bool) c05Case {
	hasID := rng.Bool()
	path, method := "/idx"+rng.Ident(3)+"/_doc", "POST"
	if hasID {
		path, method = path+"/"+rng.Ident(4), "PUT"
	}
	body := `{"message":"` + rng.Ident(12) + `"}`
	shape := "valid"
	if odd && rng.Chance(40) {
		body = h.Pick(rng, []string{"", "{", "\x00\xff", `[1,2`, strings.Repeat("x", 70000)})
		shape = "body-not-json"
	}
	return c05Case{Route: c05RElasticDoc, Tree: c05Tl("5", c05Tn(c05B2i(hasID))),
		Req: c05Request{method, path, map[string]string{"Content-Type": "application/json"}, []byte(body)}, Shape: shape}
}

func c05GenElasticBulk(rng *h.Rng, odd bool) c05Case {
	var sh c05Shapes
	var lines, trees []string
	n := 1 + rng.Intn(5)
	for i := 0; i < n; i++ {
		switch {
		case odd && rng.Chance(8):
			lines = append(lines, `{"index":`)
			trees = append(trees, "0")
			sh.add("bad-line")
		case odd && rng.Chance(8):
			lines = append(lines, "")
			trees = append(trees, "1")
			sh.add("empty-line")
		case rng.Chance(15):
			lines = append(lines, h.Pick(rng, []string{`{"delete":{"_id":"1"}}`, `{"update":{"_id":"1"}}`}))
			trees = append(trees, "3")
		case rng.Chance(45):
			k := rng.Intn(3)
			var ps []string
			for j := 0; j < k; j++ {
				ps = append(ps, fmt.Sprintf(`"k%d":"v"`, j))
			}
			if odd && rng.Chance(20) {
				ps = append(ps, `"num":5`, `"obj":{"a":1}`) // not strings: skipped
				sh.add("action-non-string-fields")
			}
			lines = append(lines, fmt.Sprintf(`{"%s":{%s}}`, h.Pick(rng, []string{"index", "create"}), strings.Join(ps, ",")))
			trees = append(trees, c05Tl("2", c05Tn(k)))
		default:
			lines = append(lines, `{"field":"`+rng.Ident(6)+`"}`)
			trees = append(trees, "4")
		}
	}
	path := "/_bulk"
	if rng.Bool() {
		path = "/tgt/_bulk"
	}
	return c05Case{Route: c05RElasticBulk, Tree: c05Tl("6", c05Tl(trees...)),
		Req: c05Request{"POST", path, map[string]string{"Content-Type": "application/x-ndjson"}, []byte(strings.Join(lines, "\n") + "\n")}, Shape: sh.String()}
}

// ---------------------------------------------------------------- Zipkin
func c05HexN(rng *h.Rng, n int) string {
	const d = "0123456789abcdef"
	b := make([]byte, n)
	for i := range b {
		b[i] = d[rng.Intn(16)]
	}
	return string(b)
}

// one id: shape code (0 missing 1 zero 2 badHex 3 ok) and its JSON member ("" when missing)
func c05GenZipkinID(rng *h.Rng, odd bool, key string, full int, sh *c05Shapes, allowMissing bool) (int, string) {
	if odd && rng.Chance(18) {
		switch rng.Intn(3) {
		case 0:
			if allowMissing {
				sh.add("short-id")
				return 0, ""
			}
		case 1:
			sh.add("empty-id")
			return 1, fmt.Sprintf(`"%s":""`, key)
		default:
			sh.add("non-hex-id")
			return 2, fmt.Sprintf(`"%s":"%s"`, key, strings.Repeat("z", full))
		}
	}
	n := full
	if rng.Chance(25) { // shorter ids are left-padded, longer ones cut: both decode to the full size
		n = h.Pick(rng, []int{1, full / 2, full - 1, full + 1, 2 * full})
	}
	return 3, fmt.Sprintf(`"%s":"%s"`, key, c05HexN(rng, n))
}

func c05GenZipkin(rng *h.Rng, odd bool, nd bool) c05Case {
	var sh c05Shapes
	var spans, trees []string
	n := 1 + rng.Intn(3)
	if odd && rng.Chance(8) {
		n = 0
		sh.add("no-spans")
	}
	for i := 0; i < n; i++ {
		if odd && rng.Chance(6) {
			spans = append(spans, h.Pick(rng, []string{"5", `"str"`, "[1]", "null"}))
			trees = append(trees, "0")
			sh.add("span-not-object")
			continue
		}
		if odd && rng.Chance(6) {
			spans = append(spans, h.Pick(rng, []string{`{"traceId":5}`, `{"timestamp":"abc"}`, `{"tags":5}`, `{"localEndpoint":"x"}`}))
			trees = append(trees, "1")
			sh.add("span-field-kind")
			continue
		}
		allowMissing := true // the NDJSON decoder resets its state per line now (A9 fixed): a span without ids is rejected anywhere
		tid, tj := c05GenZipkinID(rng, odd, "traceId", 32, &sh, allowMissing)
		sid, sj := c05GenZipkinID(rng, odd, "id", 16, &sh, allowMissing)
		fs := []string{}
		for _, f := range []string{tj, sj} {
			if f != "" {
				fs = append(fs, f)
			}
		}
		fs = append(fs, fmt.Sprintf(`"name":"%s"`, rng.Ident(6)), fmt.Sprintf(`"timestamp":%d`, c05Ts/1000), `"duration":"1000"`)
		if rng.Bool() {
			fs = append(fs, `"localEndpoint":{"serviceName":"svc"}`)
		}
		if rng.Chance(30) {
			fs = append(fs, `"parentId":"`+c05HexN(rng, 16)+`"`)
		}
		nt := rng.Intn(3)
		var tags []string
		for j := 0; j < nt; j++ {
			tags = append(tags, fmt.Sprintf(`"t%d":"v"`, j))
		}
		if nt > 0 {
			fs = append(fs, `"tags":{`+strings.Join(tags, ",")+`}`)
		}
		span := "{" + strings.Join(fs, ",") + "}"
		spans = append(spans, span)
		trees = append(trees, c05Tl("2", c05Tn(tid), c05Tn(sid), c05Tn(nt), c05Tn(len(span))))
	}
	tail := 0
	var body, ct string
	route := c05RZipkinJson
	if nd {
		route = c05RZipkinNd
		ct = "ndjson"
		body = strings.Join(spans, "\n")
		if len(spans) > 0 {
			body += "\n"
		}
	} else {
		ct = "application/json"
		body = "[" + strings.Join(spans, ",") + "]"
		if odd && rng.Chance(10) {
			body = body[:len(body)-1]
			tail = 1
			sh.add("truncated")
		}
	}
	path := h.Pick(rng, []string{"/tempo/spans", "/tempo/api/push", "/api/v2/spans"})
	return c05Case{Route: route, Tree: c05Tl("7", c05Tn(tail), c05Tl(trees...)),
		Req: c05Request{"POST", path, map[string]string{"Content-Type": ct}, []byte(body)}, Shape: sh.String()}
}

// ---------------------------------------------------------------- OTLP traces
var c05SvcKeys = []string{"peer.service", "service.name", "faas.name", "k8s.deployment.name", "process.executable.name", "remoteService.name"}

type c05Okv struct {
	key int
	v   c05Anyv
}

func c05GenOKVs(rng *h.Rng, odd bool, max int, sh *c05Shapes) []c05Okv {
	n := rng.Intn(max + 1)
	var out []c05Okv
	for i := 0; i < n; i++ {
		k := 6 + rng.Intn(4)
		if rng.Chance(55) {
			k = rng.Intn(6)
		}
		v := c05GenAnyV(rng, odd, 2, true, sh)
		if k < 5 && v.kind == 0 {
			// `val.Value.Value` in otlpGetServiceNames still dereferences it: tamed panic, 500
			sh.add("service-name-without-value")
		}
		out = append(out, c05Okv{k, v})
	}
	return out
}
func c05OkvTrees(kvs []c05Okv) []string {
	var t []string
	for _, kv := range kvs {
		t = append(t, c05Tl(c05Tn(kv.key), kv.v.tree(), c05Tn(c05B2i(kv.v.kind == 1 && kv.v.sk == 0))))
	}
	return t
}
func c05OkvProto(rng *h.Rng, kvs []c05Okv) []*v11.KeyValue {
	var out []*v11.KeyValue
	for _, kv := range kvs {
		name := fmt.Sprintf("attr%d", kv.key)
		if kv.key < len(c05SvcKeys) {
			name = c05SvcKeys[kv.key]
		}
		out = append(out, &v11.KeyValue{Key: name, Value: kv.v.proto(rng)})
	}
	return out
}

func c05GenOtlpTraces(rng *h.Rng, odd bool) c05Case {
	var sh c05Shapes
	hdr := map[string]string{"Content-Type": "application/x-protobuf"}
	if odd && rng.Chance(8) {
		return c05Case{Route: c05ROtlpTraces, Tree: c05Tl("8", "0", c05Tl()), Req: c05Request{"POST", "/v1/traces", hdr, c05NotProto}, Shape: "not-protobuf"}
	}
	data := &trace.TracesData{}
	var rts []string
	nr := 1 + rng.Intn(2)
	for i := 0; i < nr; i++ {
		rs := &trace.ResourceSpans{}
		resTree := c05Tl("0")
		if odd && rng.Chance(25) {
			sh.add("no-resource")
		} else {
			kvs := c05GenOKVs(rng, odd, 2, &sh)
			rs.Resource = &resv1.Resource{Attributes: c05OkvProto(rng, kvs)}
			resTree = c05Tl(append([]string{"1"}, c05OkvTrees(kvs)...)...)
		}
		var scs []string
		nsc := 1 + rng.Intn(2)
		for j := 0; j < nsc; j++ {
			ss := &trace.ScopeSpans{}
			if odd && rng.Chance(20) {
				sh.add("no-scope")
			} else {
				ss.Scope = &v11.InstrumentationScope{Name: "lib"}
			}
			var sps []string
			nsp := rng.Intn(3)
			for k := 0; k < nsp; k++ {
				tid, sid := 16, 8
				if odd && rng.Chance(15) {
					tid = h.Pick(rng, []int{0, 3, 15, 17, 32})
					sh.add("short-id")
				}
				if odd && rng.Chance(10) {
					sid = h.Pick(rng, []int{0, 7, 9, 16})
					sh.add("short-id")
				}
				kvs := c05GenOKVs(rng, odd, 3, &sh)
				sp := &trace.Span{TraceId: bytes.Repeat([]byte{0xab}, tid), SpanId: bytes.Repeat([]byte{0xcd}, sid), Name: rng.Ident(5),
					StartTimeUnixNano: c05Ts, EndTimeUnixNano: c05Ts + 1000, Attributes: c05OkvProto(rng, kvs)}
				ss.Spans = append(ss.Spans, sp)
				sps = append(sps, c05Tl(c05Tn(tid), c05Tn(sid), c05Tl(c05OkvTrees(kvs)...)))
			}
			rs.ScopeSpans = append(rs.ScopeSpans, ss)
			scs = append(scs, c05Tl(sps...))
		}
		data.ResourceSpans = append(data.ResourceSpans, rs)
		rts = append(rts, c05Tl(resTree, c05Tl(scs...)))
	}
	raw, _ := proto.Marshal(data)
	return c05Case{Route: c05ROtlpTraces, Tree: c05Tl("8", "1", c05Tl(rts...)), Req: c05Request{"POST", "/v1/traces", hdr, raw}, Shape: sh.String()}
}

// ---------------------------------------------------------------- Profiles
// c05ProfForce pins the query parameters / framing of a generated profile request (witness corpus)
type c05ProfForce struct {
	from, until, name string
	multipart         int // -1: as generated
	big               bool
	shape             string
}

func c05NumTree(v string) string {
	if v == "" {
		return "0"
	}
	if n, err := strconv.ParseUint(v, 10, 64); err == nil {
		return c05Tl("2", fmt.Sprint(n))
	}
	return "1"
}

func c05NameTree(name string) string {
	if name == "" {
		return "0"
	}
	i := strings.Index(name, "{")
	if i < 0 {
		return c05Tl("1", c05Tn(len(name)))
	}
	parts := []string{"2", c05Tn(i)}
	for _, ch := range []byte(name[i+1:]) {
		parts = append(parts, c05Tn(c05B2i(ch == '=' || ch == ',')))
	}
	return c05Tl(parts...)
}

func c05GenProfile(rng *h.Rng, odd bool, big bool, force *c05ProfForce) c05Case {
	var sh c05Shapes
	multipartBody := rng.Bool()
	q := url.Values{}
	fromT, untilT, nameT := c05Tl("2", "1700000000"), c05Tl("2", "1700000010"), ""
	from, until := "1700000000", "1700000010"
	switch {
	case odd && rng.Chance(7):
		from, fromT = "", "0"
		sh.add("no-from")
	case odd && rng.Chance(7):
		from, fromT = "abc", "1"
		sh.add("from-not-a-number")
	case odd && rng.Chance(10):
		from, fromT = "0", c05Tl("2", "0")
		sh.add("from-zero")
	}
	switch {
	case odd && rng.Chance(7):
		until, untilT = "", "0"
		sh.add("no-until")
	case odd && rng.Chance(7):
		until, untilT = "1x", "1"
		sh.add("until-not-a-number")
	case odd && rng.Chance(10):
		until, untilT = "0", c05Tl("2", "0")
		sh.add("until-zero")
	}
	app := rng.Ident(6)
	name := app
	nameT = c05Tl("1", c05Tn(len(app)))
	switch {
	case odd && rng.Chance(7):
		name, nameT = "", "0"
		sh.add("no-name")
	case odd && rng.Chance(12):
		name, nameT = app+"{", c05Tl("2", c05Tn(len(app)))
		sh.add("name-open-brace")
	case odd && rng.Chance(12):
		inner := h.Pick(rng, []string{"}", "a}", "a=b", "a=b,c}", "=,}", "a=b}x", "{a=b}", ",,=="})
		name = app + "{" + inner
		parts := []string{"2", c05Tn(len(app))}
		for _, ch := range inner {
			parts = append(parts, c05Tn(c05B2i(ch == '=' || ch == ',')))
		}
		nameT = c05Tl(parts...)
		sh.add("name-odd-labels")
	case rng.Chance(40):
		inner := "a=b,region=eu}"
		name = app + "{" + inner
		parts := []string{"2", c05Tn(len(app))}
		for _, ch := range inner {
			parts = append(parts, c05Tn(c05B2i(ch == '=' || ch == ',')))
		}
		nameT = c05Tl(parts...)
	}
	if force != nil {
		from, until, name, big = force.from, force.until, force.name, force.big
		if force.multipart >= 0 {
			multipartBody = force.multipart == 1
		}
		sh = c05Shapes{}
		sh.add(force.shape)
	}
	fromT, untilT, nameT = c05NumTree(from), c05NumTree(until), c05NameTree(name)
	if from != "" {
		q.Set("from", from)
	}
	if until != "" {
		q.Set("until", until)
	}
	if name != "" {
		q.Set("name", name)
	}
	// the profile
	types := 1 + rng.Intn(2)
	if odd && rng.Chance(8) {
		types = 0
		sh.add("no-sample-types")
	}
	periodType := !(odd && rng.Chance(20))
	if !periodType {
		sh.add("no-period-type")
	}
	typeLen := rng.Intn(5)
	if big {
		typeLen = 600000 // two sample types of this size cross the 1 MiB flush threshold of onProfile
		types = 2
		multipartBody = false // the multipart route limits the uncompressed size to 100000 bytes
		sh.add("oversize")
	}
	p := &pprof_proto.Profile{}
	typeBytes := 0
	for i := 0; i < types; i++ {
		st := &pprof_proto.ValueType{Type: fmt.Sprintf("t%d", i) + strings.Repeat("x", typeLen), Unit: "count"}
		typeBytes += len(st.Type) + len(st.Unit)
		p.SampleType = append(p.SampleType, st)
	}
	if periodType {
		p.PeriodType = &pprof_proto.ValueType{Type: "cpu", Unit: "nanoseconds"}
		p.Period = 1
	}
	fn := &pprof_proto.Function{ID: 1, Name: "main.f", SystemName: "main.f", Filename: "f.go"}
	p.Function = []*pprof_proto.Function{fn}
	var sampleTrees []string
	ns := rng.Intn(3)
	if types == 0 && !(odd && rng.Chance(50)) {
		ns = 0
	}
	locID := uint64(0)
	for i := 0; i < ns; i++ {
		nv := types
		if odd && rng.Chance(10) {
			nv = types + 1
			sh.add("sample-value-count")
		}
		s := &pprof_proto.Sample{Value: make([]int64, nv)}
		for j := range s.Value {
			s.Value[j] = int64(1 + rng.Intn(100))
		}
		var locTrees []string
		nl := rng.Intn(3)
		for j := 0; j < nl; j++ {
			locID++
			loc := &pprof_proto.Location{ID: locID, Address: locID}
			nln := rng.Intn(3)
			var lineTrees []string
			for k := 0; k < nln; k++ {
				ln := pprof_proto.Line{Function: fn, Line: int64(k + 1)}
				if odd && rng.Chance(8) {
					ln.Function = nil
					sh.add("line-without-function")
				}
				loc.Line = append(loc.Line, ln)
				lineTrees = append(lineTrees, c05Tn(c05B2i(ln.Function != nil)))
			}
			p.Location = append(p.Location, loc)
			s.Location = append(s.Location, loc)
			locTrees = append(locTrees, c05Tl(lineTrees...))
		}
		p.Sample = append(p.Sample, s)
		sampleTrees = append(sampleTrees, c05Tl(c05Tn(nv), c05Tl(locTrees...)))
	}
	var raw bytes.Buffer
	p.WriteUncompressed(&raw)
	var gz bytes.Buffer
	p.Write(&gz) // gzip-compressed
	bodyOk := 1
	var body []byte
	ct := "binary/octet-stream"
	if multipartBody {
		var mb bytes.Buffer
		mw := multipart.NewWriter(&mb)
		payload := gz.Bytes()
		switch {
		case odd && rng.Chance(8):
			payload = raw.Bytes() // not gzip: Decompress fails
			bodyOk = 0
			sh.add("multipart-not-gzip")
		case odd && rng.Chance(8):
			payload = nil
			bodyOk = 0
			sh.add("multipart-empty-file")
		}
		field := "profile"
		if odd && rng.Chance(8) {
			field = "other"
			bodyOk = 0
			sh.add("multipart-no-profile-field")
		}
		fw, _ := mw.CreateFormFile(field, "profile.pprof")
		fw.Write(payload)
		mw.Close()
		body = mb.Bytes()
		ct = mw.FormDataContentType()
		if odd && rng.Chance(8) {
			body = []byte("no boundary here")
			bodyOk = 0
			sh.add("multipart-no-boundary")
		}
	} else {
		body = raw.Bytes()
		if rng.Bool() {
			body = gz.Bytes()
		}
		if odd && rng.Chance(10) {
			body = []byte{0xff, 0xff, 0xff, 0xff}
			bodyOk = 0
			sh.add("body-not-pprof")
		}
	}
	ctOk := 1
	if odd && rng.Chance(6) {
		ct = "application/json"
		ctOk = 0
		sh.add("content-type")
	}
	profTree := c05Tl(c05Tn(types), c05Tn(c05B2i(periodType)), c05Tn(typeBytes), c05Tl(sampleTrees...))
	return c05Case{Route: c05RProfile,
		Tree:  c05Tl("9", c05Tn(ctOk), fromT, untilT, nameT, c05Tn(c05B2i(multipartBody)), c05Tn(bodyOk), profTree),
		Req:   c05Request{"POST", "/ingest?" + q.Encode(), map[string]string{"Content-Type": ct}, body},
		Shape: sh.String()}
}

// ---------------------------------------------------------------- envelope and dispatch
func c05GzipBytes(b []byte) []byte {
	var buf bytes.Buffer
	w := gzip.NewWriter(&buf)
	w.Write(b)
	w.Close()
	return buf.Bytes()
}

func c05CloneHeaders(m map[string]string) map[string]string {
	out := map[string]string{}
	for k, v := range m {
		out[k] = v
	}
	return out
}

// c05GenStructured: one structured case for the route. odd=false: valid by construction.
func c05GenStructured(rng *h.Rng, route int, odd bool) c05Case {
	var c c05Case
	switch route {
	case c05RLokiJson:
		c = c05GenLokiJson(rng, odd)
	case c05RLokiProto:
		c = c05GenLokiProto(rng, odd)
	case c05RInflux:
		c = c05GenInflux(rng, odd)
	case c05ROtlpLogs:
		c = c05GenOtlpLogs(rng, odd)
	case c05RPromWrite:
		c = c05GenProm(rng, odd)
	case c05RElasticDoc:
		c = c05GenElasticDoc(rng, odd)
	case c05RElasticBulk:
		c = c05GenElasticBulk(rng, odd)
	case c05RZipkinJson:
		c = c05GenZipkin(rng, odd, false)
	case c05RZipkinNd:
		c = c05GenZipkin(rng, odd, true)
	case c05ROtlpTraces:
		c = c05GenOtlpTraces(rng, odd)
	default:
		c = c05GenProfile(rng, odd, odd && rng.Chance(6), nil)
	}
	c.Req.Headers = c05CloneHeaders(c.Req.Headers)
	switch {
	case rng.Chance(15):
		c.Enc = 1
		c.Req.Body = c05GzipBytes(c.Req.Body)
		c.Req.Headers["Content-Encoding"] = "gzip"
	case odd && rng.Chance(4):
		c.Enc = 2
		c.Req.Headers["Content-Encoding"] = "gzip"
		if len(c.Req.Body) >= 2 && c.Req.Body[0] == 0x1f && c.Req.Body[1] == 0x8b {
			c.Req.Body = append([]byte("xx"), c.Req.Body...)
		}
		c.Shape = "gzip-header-without-gzip-body"
	case odd && rng.Chance(4):
		c.Enc = 3
		c.Req.Headers["Content-Encoding"] = "br"
		c.Shape = "unsupported-encoding"
	}
	if rng.Chance(10) {
		c.Req.Headers["X-Ttl-Days"] = h.Pick(rng, []string{"7", "0", "abc", "70000"})
	}
	if rng.Chance(10) {
		c.Req.Headers["X-Async-Insert"] = h.Pick(rng, []string{"0", "1", "x"})
	}
	return c
}

// c05Corpus: the witnesses of the defects this check found on the pinned tree (Appendix A3, A6, A37 and the
// ns(0) loop), first in every run.
func c05Corpus(rng *h.Rng) []c05Case {
	js := map[string]string{"Content-Type": "application/json"}
	pb := map[string]string{"Content-Type": "application/x-protobuf"}
	var cs []c05Case
	logsRaw, _ := proto.Marshal(&otlpLogs.LogsData{ResourceLogs: []*otlpLogs.ResourceLogs{{ScopeLogs: []*otlpLogs.ScopeLogs{{LogRecords: []*otlpLogs.LogRecord{{TimeUnixNano: c05Ts}}}}}}})
	tracesRaw, _ := proto.Marshal(&trace.TracesData{ResourceSpans: []*trace.ResourceSpans{{Resource: &resv1.Resource{}, ScopeSpans: []*trace.ScopeSpans{{Spans: []*trace.Span{{TraceId: []byte{1, 2, 3}, SpanId: []byte{1, 2, 3, 4, 5, 6, 7, 8}, Name: "x"}}}}}}})
	cs = append(cs, c05Case{Route: c05RZipkinJson, Tree: "( 7 0 ( ( 2 0 0 0 12 ) ) )", Shape: "short-id",
		Req: c05Request{"POST", "/tempo/spans", js, []byte(`[{"name":"x"}]`)}})
	cs = append(cs, c05Case{Route: c05RLokiJson, Tree: "( 0 0 ( ( ( 0 1 ) ( ) ) ) )", Shape: "empty-values",
		Req: c05Request{"POST", "/loki/api/v1/push", js, []byte(`{"streams":[{"stream":{"a":"b"},"values":[]}]}`)}})
	// OTLP logs without resource and scope; OTLP span with a 3-byte trace id
	cs = append(cs, c05Case{Route: c05ROtlpLogs, Tree: "( 3 1 ( ( ( 0 ) ( ( ( 0 ) ( ( ) ) ) ) ) ) )", Shape: "no-resource+no-scope",
		Req: c05Request{"POST", "/v1/logs", pb, logsRaw}})
	cs = append(cs, c05Case{Route: c05ROtlpTraces, Tree: "( 8 1 ( ( ( 1 ) ( ( ( 3 8 ( ) ) ) ) ) ) )", Shape: "short-id",
		Req: c05Request{"POST", "/v1/traces", pb, tracesRaw}})
	cs = append(cs, c05Case{Route: c05RInflux, Tree: "( 2 1 ( ( 1 2 ) ) )", Shape: "message-not-string",
		Req: c05Request{"POST", "/influx/api/v2/write", map[string]string{"Content-Type": "text/plain"}, []byte("m message=1i 1700000000000000000\n")}})
	cs = append(cs, c05Case{Route: c05RInflux, Tree: "( 2 1 ( ( 2 ) ) )", Shape: "dangling-escape",
		Req: c05Request{"POST", "/influx/api/v2/write", map[string]string{"Content-Type": "text/plain"}, []byte("\\")}})
	for _, f := range []c05ProfForce{
		{"1700000000", "1700000010", "app{", -1, false, "name-open-brace"},
		{"0", "1700000010", "app", 0, false, "from-zero"},
		{"1700000000", "0", "app", 1, false, "until-zero"},
		{"1700000000", "abc", "app", 1, false, "until-not-a-number"},
		{"1700000000", "1700000010", "app{a=b}", 0, true, "oversize"},
	} {
		ff := f
		cs = append(cs, c05GenProfile(rng, false, false, &ff))
	}
	return cs
}
