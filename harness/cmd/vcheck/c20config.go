package main

// C20 — the CONFIGURATION PATH: which credentials are in force and whether BasicAuthMiddleware is installed at all.
//
// Streams:
//   portenv  the REAL main.portEnv, compiled from the repository's package main together with one extra file
//            supplied through `go build -overlay` (nothing is written into the repository): an init() that, only when
//            VERIF_C20_PORTENV is set, reads cases from stdin, sets the process environment, fills
//            cfg.Setting.AUTH_SETTINGS.BASIC with the "file" values on a fresh clconfig.New configuration, calls
//            portEnv(cfg) and prints the two fields. Compared with the Lean interpretation of the regenerated plan
//            (driver op c20eff).
//   config   the REAL binary (unmodified build), started once per configuration: a JSON configuration file
//            (auth_settings.basic.username/password, either, both or none) × an environment built from scratch
//            (QRYN_LOGIN, CLOKI_LOGIN, QRYN_PASSWORD, CLOKI_PASSWORD each absent / set-but-empty / set), probed over
//            raw HTTP: every common+reader route without credentials, wrong credentials, and every combination of the
//            supplied logins × supplied passwords on /ready. Compared with driver op c20inst (the plan + main()'s guard).
// Oracle (no model involved): some source supplied a login L≠"" and some source supplied a password P≠"" ⇒ a request
// without credentials is answered 401 on every probed route, wrong credentials are refused, and at least one
// combination of the supplied values is let through; on portEnv's output: both fields non-empty and taken from a
// source of their own kind.

import (
	"bufio"
	"encoding/base64"
	"encoding/json"
	"fmt"
	"net"
	"net/http"
	"os"
	"os/exec"
	"path/filepath"
	"sort"
	"strings"
	"sync"
	"time"

	"verif/harness/h"
)

var c20LoginVars = []string{"QRYN_LOGIN", "CLOKI_LOGIN"}
var c20PassVars = []string{"QRYN_PASSWORD", "CLOKI_PASSWORD"}
var c20DecoyVars = []string{"QRYN_USER", "CLOKI_USERNAME", "QRYN_PASS", "LOGIN", "PASSWORD", "QRYN_PASSWORD_", "qryn_login"}

// one configuration: what the file gives (nil = key absent) and the credential-related environment (absent = not in map)
type c20Conf struct {
	Stream   string            `json:"stream"`
	FileUser *string           `json:"file_username"`
	FilePass *string           `json:"file_password"`
	Env      map[string]string `json:"env"`
	Extra    map[string]string `json:"extra_env,omitempty"` // variables only ReadConfig (viper) looks at
	File     *string           `json:"config_file"`         // the JSON text written to the -config file (nil = no file)
	Mode     string            `json:"mode,omitempty"`      // MODE of the process ("" = reader, the only mode with query routes that starts without ClickHouse)
	Request  *c20ConfReq       `json:"request,omitempty"`
	Note     string            `json:"note,omitempty"`
	Hex      map[string]string `json:"hex,omitempty"` // exact bytes of every value (JSON strings cannot carry arbitrary bytes)
}

// withHex records the exact bytes next to the readable strings; fromHex restores them (replay)
func (c *c20Conf) withHex() *c20Conf {
	c.Hex = map[string]string{}
	if c.FileUser != nil {
		c.Hex["file_username"] = h.Hex([]byte(*c.FileUser))
	}
	if c.FilePass != nil {
		c.Hex["file_password"] = h.Hex([]byte(*c.FilePass))
	}
	for k, v := range c.Env {
		c.Hex["env:"+k] = h.Hex([]byte(v))
	}
	return c
}

func (c *c20Conf) fromHex() {
	for k, v := range c.Hex {
		b := string(h.UnHex(v))
		switch {
		case k == "file_username":
			c.FileUser = &b
		case k == "file_password":
			c.FilePass = &b
		case strings.HasPrefix(k, "env:"):
			c.Env[k[4:]] = b
		}
	}
}

type c20ConfReq struct {
	Method string  `json:"method"`
	Path   string  `json:"path"`
	Auth   *string `json:"authorization"`
	Status int     `json:"status"`
	Hung   bool    `json:"no_answer_handler_waiting_for_database,omitempty"`
	Note   string  `json:"note,omitempty"`
}

func (c *c20Conf) mode() string {
	if c.Mode == "" {
		return "reader"
	}
	return c.Mode
}

// the routes the harness itself knows to be registered in the process' mode (oracle side; not from the model)
var c20CommonRoutes = map[string]bool{"/ready": true, "/config": true, "/metrics": true, "/api/status/buildinfo": true}

func c20s(p *string) string {
	if p == nil {
		return ""
	}
	return *p
}

// supplied values per kind, in no particular order (the oracle must not know the precedence)
func (c *c20Conf) supplied() (logins, passes []string) {
	add := func(dst *[]string, v string) {
		if v == "" {
			return
		}
		for _, x := range *dst {
			if x == v {
				return
			}
		}
		*dst = append(*dst, v)
	}
	add(&logins, c.fileCreds()[0])
	add(&passes, c.fileCreds()[1])
	for _, k := range c20LoginVars {
		add(&logins, c.Env[k])
	}
	for _, k := range c20PassVars {
		add(&passes, c.Env[k])
	}
	return
}

// what ReadConfig leaves in the two fields: the file's value; cloki-config/viper lets QRYN_AUTH_SETTINGS_BASIC_<FIELD>
// override a key that is PRESENT in the file (AutomaticEnv only sees known keys) — third party, an input of the model
func (c *c20Conf) fileCreds() [2]string {
	u, p := c20s(c.FileUser), c20s(c.FilePass)
	if v := c.Extra["QRYN_AUTH_SETTINGS_BASIC_USERNAME"]; v != "" && c.FileUser != nil {
		u = v
	}
	if v := c.Extra["QRYN_AUTH_SETTINGS_BASIC_PASSWORD"]; v != "" && c.FilePass != nil {
		p = v
	}
	return [2]string{u, p}
}

func (c *c20Conf) envSpec() string {
	var ks []string
	for k := range c.Env {
		ks = append(ks, k)
	}
	sort.Strings(ks)
	var parts []string
	for _, k := range ks {
		parts = append(parts, k+":"+h.Hex([]byte(c.Env[k])))
	}
	if len(parts) == 0 {
		return "-"
	}
	return strings.Join(parts, ",")
}

func (c *c20Conf) op(name string) string {
	f := c.fileCreds()
	return fmt.Sprintf("%s %s %s %s", name, h.Hex([]byte(f[0])), h.Hex([]byte(f[1])), c.envSpec())
}

func (c *c20Conf) sources() string {
	var s []string
	if c20s(c.FileUser) != "" {
		s = append(s, "file-user")
	}
	if c20s(c.FilePass) != "" {
		s = append(s, "file-pass")
	}
	for _, k := range append(append([]string{}, c20LoginVars...), c20PassVars...) {
		if v, ok := c.Env[k]; ok {
			if v == "" {
				s = append(s, k+"=empty")
			} else {
				s = append(s, k)
			}
		}
	}
	if len(s) == 0 {
		return "nothing"
	}
	return strings.Join(s, "+")
}

func (c *c20Conf) mixed() bool {
	// login and password come (also) from different kinds of sources
	l, p := c.supplied()
	if len(l) == 0 || len(p) == 0 {
		return false
	}
	type src struct{ file, qryn, cloki bool }
	lu := src{c20s(c.FileUser) != "", c.Env["QRYN_LOGIN"] != "", c.Env["CLOKI_LOGIN"] != ""}
	pu := src{c20s(c.FilePass) != "", c.Env["QRYN_PASSWORD"] != "", c.Env["CLOKI_PASSWORD"] != ""}
	return lu != pu
}

// ---------------------------------------------------------------- building package main

var c20BinDir string
var c20BinPlain, c20BinOverlay string

func c20RepoDir() string {
	if d := os.Getenv("VERIF_REPO"); d != "" {
		return d
	}
	return "/repo"
}

func c20BinCleanup() {
	if c20BinDir != "" {
		os.RemoveAll(c20BinDir)
		c20BinDir, c20BinPlain, c20BinOverlay = "", "", ""
	}
}

// c20MainBinary builds package main of the repository once per run. overlay=true adds the portEnv probe file.
func c20MainBinary(overlay bool) (string, error) {
	if c20BinDir == "" {
		d, err := os.MkdirTemp("", "c20bin")
		if err != nil {
			return "", err
		}
		c20BinDir = d
	}
	repoDir := c20RepoDir()
	if !overlay {
		if c20BinPlain != "" {
			return c20BinPlain, nil
		}
		bin := filepath.Join(c20BinDir, "qryn")
		build := exec.Command("go", "build", "-o", bin, ".")
		build.Dir = repoDir
		if out, err := build.CombinedOutput(); err != nil {
			return "", fmt.Errorf("building package main of %s: %v\n%s", repoDir, err, out)
		}
		c20BinPlain = bin
		return bin, nil
	}
	if c20BinOverlay != "" {
		return c20BinOverlay, nil
	}
	src := filepath.Join(c20BinDir, "zz_verif_c20_portenv.go")
	if err := os.WriteFile(src, []byte(c20OverlaySrc), 0o644); err != nil {
		return "", err
	}
	abs, err := filepath.Abs(repoDir)
	if err != nil {
		return "", err
	}
	ov, _ := json.Marshal(map[string]any{"Replace": map[string]string{filepath.Join(abs, "zz_verif_c20_portenv.go"): src}})
	ovPath := filepath.Join(c20BinDir, "overlay.json")
	if err := os.WriteFile(ovPath, ov, 0o644); err != nil {
		return "", err
	}
	bin := filepath.Join(c20BinDir, "qryn-portenv")
	build := exec.Command("go", "build", "-overlay", ovPath, "-o", bin, ".")
	build.Dir = repoDir
	if out, err := build.CombinedOutput(); err != nil {
		return "", fmt.Errorf("building package main of %s with the portEnv probe overlay: %v\n%s", repoDir, err, out)
	}
	c20BinOverlay = bin
	return bin, nil
}

// the file added to package main through -overlay: runs the REAL portEnv on cases read from stdin
const c20OverlaySrc = `package main

import (
	"bufio"
	"encoding/hex"
	"fmt"
	"os"
	"strings"

	clconfig "github.com/metrico/cloki-config"
)

func init() {
	if os.Getenv("VERIF_C20_PORTENV") == "" {
		return
	}
	unhex := func(s string) string {
		if s == "-" {
			return ""
		}
		b, err := hex.DecodeString(s)
		if err != nil {
			panic(err)
		}
		return string(b)
	}
	enhex := func(s string) string {
		if s == "" {
			return "-"
		}
		return hex.EncodeToString([]byte(s))
	}
	managed := map[string]bool{}
	sc := bufio.NewScanner(os.Stdin)
	sc.Buffer(make([]byte, 1<<20), 1<<20)
	w := bufio.NewWriter(os.Stdout)
	defer w.Flush()
	for sc.Scan() {
		f := strings.Fields(sc.Text())
		if len(f) != 3 {
			fmt.Fprintln(w, "bad-case")
			continue
		}
		for k := range managed {
			os.Unsetenv(k)
		}
		if f[2] != "-" {
			for _, kv := range strings.Split(f[2], ",") {
				i := strings.IndexByte(kv, ':')
				k, v := kv[:i], kv[i+1:]
				managed[k] = true
				if v == "none" {
					os.Unsetenv(k)
				} else if err := os.Setenv(k, unhex(v)); err != nil {
					panic(err)
				}
			}
		}
		cfg := clconfig.New(clconfig.CLOKI_READER, nil, "", "")
		cfg.Setting.AUTH_SETTINGS.BASIC.Username = unhex(f[0])
		cfg.Setting.AUTH_SETTINGS.BASIC.Password = unhex(f[1])
		if err := portEnv(cfg); err != nil {
			fmt.Fprintln(w, "error")
			continue
		}
		fmt.Fprintf(w, "%s,%s\n", enhex(cfg.Setting.AUTH_SETTINGS.BASIC.Username), enhex(cfg.Setting.AUTH_SETTINGS.BASIC.Password))
	}
	w.Flush()
	os.Exit(0)
}
`

// ---------------------------------------------------------------- generators

func c20CredValue(rng *h.Rng, tag string, login bool, wild bool) string {
	if !wild {
		return tag + rng.Ident(4)
	}
	// any bytes an environment variable can hold (no NUL); a login never contains ':' (with one nobody can log in)
	n := rng.Range(1, 10)
	b := make([]byte, 0, n)
	for len(b) < n {
		var c byte
		switch rng.Intn(6) {
		case 0:
			c = byte(rng.Range(1, 255))
		case 1:
			c = " =:\"'\\%\t"[rng.Intn(8)]
		default:
			c = byte(rng.Range(33, 126))
		}
		if c == 0 || (login && c == ':') {
			continue
		}
		b = append(b, c)
	}
	return string(b)
}

// c20GenConf: every source independently absent / empty / set. wild = arbitrary bytes (portenv stream only)
func c20GenConf(rng *h.Rng, wild bool) *c20Conf {
	c := &c20Conf{Env: map[string]string{}}
	opt := func(tag string, login bool) *string {
		switch rng.Intn(5) {
		case 0, 1:
			return nil
		case 2:
			return sp("")
		}
		return sp(c20CredValue(rng, tag, login, wild))
	}
	c.FileUser, c.FilePass = opt("fu", true), opt("fp", false)
	for _, k := range c20LoginVars {
		if v := opt(strings.ToLower(k[:1])+"u", true); v != nil {
			c.Env[k] = *v
		}
	}
	for _, k := range c20PassVars {
		if v := opt(strings.ToLower(k[:1])+"p", false); v != nil {
			c.Env[k] = *v
		}
	}
	return c
}

// ---------------------------------------------------------------- portenv stream

func c20PortEnvRun(bin string, confs []*c20Conf) ([]string, error) {
	var in strings.Builder
	for _, c := range confs {
		f := c.fileCreds()
		fmt.Fprintf(&in, "%s %s %s\n", h.Hex([]byte(f[0])), h.Hex([]byte(f[1])), c.envSpec())
	}
	cmd := exec.Command(bin)
	cmd.Dir = filepath.Dir(bin)
	cmd.Env = []string{"PATH=" + os.Getenv("PATH"), "HOME=" + filepath.Dir(bin), "VERIF_C20_PORTENV=1", "key=true"}
	cmd.Stdin = strings.NewReader(in.String())
	out, err := cmd.Output()
	if err != nil {
		return nil, fmt.Errorf("portEnv probe: %v", err)
	}
	lines := strings.Split(strings.TrimRight(string(out), "\n"), "\n")
	if len(lines) != len(confs) {
		return nil, fmt.Errorf("portEnv probe answered %d lines for %d cases", len(lines), len(confs))
	}
	return lines, nil
}

func c20PortEnvJudge(r *h.Result, c *c20Conf, got string) {
	logins, passes := c.supplied()
	parts := strings.Split(got, ",")
	if len(parts) != 2 {
		r.Violate("C20/portenv-failed", "real portEnv did not return the configuration: "+got, c)
		return
	}
	u, p := string(h.UnHex(parts[0])), string(h.UnHex(parts[1]))
	in := func(xs []string, v string) bool {
		for _, x := range xs {
			if x == v {
				return true
			}
		}
		return false
	}
	if len(logins) > 0 && len(passes) > 0 && (u == "" || p == "") {
		r.Violate("C20/portenv-configured-credential-dropped",
			fmt.Sprintf("real portEnv: sources %s supplied a login and a password, but after portEnv Username=%q Password=%q — main()'s guard then installs no auth middleware", c.sources(), u, p), c)
	} else if (u != "" && !in(logins, u)) || (p != "" && !in(passes, p)) {
		r.Violate("C20/portenv-credential-from-wrong-source",
			fmt.Sprintf("real portEnv: sources %s; after portEnv Username=%q Password=%q is not a value supplied for that field", c.sources(), u, p), c)
	}
}

func c20PortEnv(r *h.Result, rng *h.Rng, n int) error {
	r.Stream("portenv: the REAL main.portEnv (package main built with one extra file through `go build -overlay`, repository untouched) on fresh clconfig.New configurations: file credentials × QRYN_LOGIN/CLOKI_LOGIN/QRYN_PASSWORD/CLOKI_PASSWORD (absent / set-but-empty / any bytes without NUL) × decoy variables; vs the Lean interpretation of Gen.AuthConfig.plan (c20eff)")
	bin, err := c20MainBinary(true)
	if err != nil {
		return err
	}
	var confs []*c20Conf
	// fixed corner list: every subset of the four variables with file both / none
	names := append(append([]string{}, c20LoginVars...), c20PassVars...)
	for mask := 0; mask < 16; mask++ {
		for _, file := range [][2]*string{{nil, nil}, {sp("fu"), sp("fp")}, {sp("fu"), nil}, {nil, sp("fp")}} {
			c := &c20Conf{Stream: "portenv", FileUser: file[0], FilePass: file[1], Env: map[string]string{}}
			for i, k := range names {
				if mask&(1<<i) != 0 {
					c.Env[k] = strings.ToLower(k[:1]) + map[bool]string{true: "u", false: "p"}[i < 2]
				}
			}
			confs = append(confs, c)
		}
	}
	for len(confs) < n {
		c := c20GenConf(rng, rng.Chance(60))
		c.Stream = "portenv"
		for _, k := range c20DecoyVars {
			if rng.Chance(15) {
				c.Env[k] = c20CredValue(rng, "decoy", false, false)
			}
		}
		confs = append(confs, c)
	}
	got, err := c20PortEnvRun(bin, confs)
	if err != nil {
		return err
	}
	var ops []string
	var cases []any
	for i, c := range confs {
		ops = append(ops, c.op("c20eff"))
		cases = append(cases, c)
		c20PortEnvJudge(r, c.withHex(), got[i])
		l, p := c.supplied()
		r.Case("portenv:"+c.sources(), c.mixed())
		r.Count(fmt.Sprintf("portenv:login-sources=%d:password-sources=%d", len(l), len(p)))
		if c.mixed() {
			r.Count("portenv:mixed-sources")
		}
		if i%97 == 0 {
			r.Sample(map[string]any{"stream": "portenv", "case": c, "portEnv": got[i]})
		}
	}
	return r.Compare("portenv", ops, got, cases)
}

// ---------------------------------------------------------------- config stream (the real binary)

var c20PortMu sync.Mutex
var c20PortsUsed = map[int]bool{}

// c20FreePort: a free port that no other configuration of this run was given (the starts run in parallel)
func c20FreePort() (int, error) {
	c20PortMu.Lock()
	defer c20PortMu.Unlock()
	for i := 0; i < 50; i++ {
		l, err := net.Listen("tcp", "127.0.0.1:0")
		if err != nil {
			return 0, err
		}
		port := l.Addr().(*net.TCPAddr).Port
		l.Close()
		if !c20PortsUsed[port] {
			c20PortsUsed[port] = true
			return port, nil
		}
	}
	return 0, fmt.Errorf("no unused port found")
}

// c20ListeningPorts: the TCP ports the process pid listens on (Linux: socket inodes of /proc/pid/fd looked up in
// /proc/pid/net/tcp{,6}, state 0A = LISTEN)
func c20ListeningPorts(pid int) []int {
	inodes := map[string]bool{}
	fds, err := os.ReadDir(fmt.Sprintf("/proc/%d/fd", pid))
	if err != nil {
		return nil
	}
	for _, fd := range fds {
		if t, err := os.Readlink(fmt.Sprintf("/proc/%d/fd/%s", pid, fd.Name())); err == nil && strings.HasPrefix(t, "socket:[") {
			inodes[strings.TrimSuffix(strings.TrimPrefix(t, "socket:["), "]")] = true
		}
	}
	seen := map[int]bool{}
	var ports []int
	for _, f := range []string{"tcp", "tcp6"} {
		b, err := os.ReadFile(fmt.Sprintf("/proc/%d/net/%s", pid, f))
		if err != nil {
			continue
		}
		for _, line := range strings.Split(string(b), "\n")[1:] {
			fl := strings.Fields(line)
			if len(fl) < 10 || fl[3] != "0A" || !inodes[fl[9]] {
				continue
			}
			i := strings.LastIndexByte(fl[1], ':')
			var port int
			fmt.Sscanf(fl[1][i+1:], "%X", &port)
			if !seen[port] {
				seen[port] = true
				ports = append(ports, port)
			}
		}
	}
	sort.Ints(ports)
	return ports
}

type c20Probe struct {
	status int
	hung   bool
	err    error
}

func c20RawProbe(addr, method, path string, auth *string, id int, wait time.Duration) c20Probe {
	return c20RawProbeHdr(addr, method, path, auth, id, wait, "Connection: close\r\n")
}

func c20RawProbeHdr(addr, method, path string, auth *string, id int, wait time.Duration, extra string) c20Probe {
	var b strings.Builder
	sep := "?"
	if strings.Contains(path, "?") {
		sep = "&"
	}
	fmt.Fprintf(&b, "%s %s%svq=%d HTTP/1.1\r\nHost: %s\r\n%s", method, path, sep, id, addr, extra)
	if auth != nil {
		fmt.Fprintf(&b, "Authorization: %s\r\n", *auth)
	}
	body := ""
	if method == "POST" || method == "PUT" {
		body = c20LokiBody
		fmt.Fprintf(&b, "Content-Type: application/json\r\nContent-Length: %d\r\n", len(body))
	}
	b.WriteString("\r\n" + body)
	c, err := net.DialTimeout("tcp", addr, 2*time.Second)
	if err != nil {
		return c20Probe{err: err}
	}
	defer c.Close()
	c.SetDeadline(time.Now().Add(wait))
	c.Write([]byte(b.String()))
	resp, err := http.ReadResponse(bufio.NewReader(c), nil)
	if err != nil {
		if ne, ok := err.(net.Error); ok && ne.Timeout() {
			return c20Probe{hung: true} // the handler is waiting for the absent database: the request was let through
		}
		return c20Probe{err: err}
	}
	resp.Body.Close()
	return c20Probe{status: resp.StatusCode}
}

func c20Basic(l, p string) *string {
	return sp("Basic " + base64.StdEncoding.EncodeToString([]byte(l+":"+p)))
}

type c20ConfResult struct {
	inst      string // "none" | "hexU,hexP" | "ambiguous:n"
	startErr  error
	noCred    []c20ConfReq
	wrong     *c20ConfReq
	upgrade   *c20ConfReq
	listeners []int        // TCP ports the process listens on
	extra     []c20ConfReq // requests without credentials to listeners other than the configured one
	pairs     int
	passing   [][2]string
	probes    int
	readyOpen bool
}

// c20RunConf starts the real binary under one configuration and probes it
func c20RunConf(bin, dir string, idx int, c *c20Conf, routes []c20Route, only *c20ConfReq) c20ConfResult {
	var res c20ConfResult
	args := []string{}
	if c.File != nil {
		p := filepath.Join(dir, fmt.Sprintf("cfg%d.json", idx))
		if err := os.WriteFile(p, []byte(*c.File), 0o644); err != nil {
			res.startErr = err
			return res
		}
		args = append(args, "-config", p)
	}
	port, err := c20FreePort()
	if err != nil {
		res.startErr = err
		return res
	}
	logf, err := os.Create(filepath.Join(dir, fmt.Sprintf("server%d.log", idx)))
	if err != nil {
		res.startErr = err
		return res
	}
	defer logf.Close()
	cmd := exec.Command(bin, args...)
	cmd.Dir = dir
	cmd.Stdout, cmd.Stderr = logf, logf
	// the environment is built from scratch: a variable that is not part of the configuration is ABSENT
	cmd.Env = []string{"PATH=" + os.Getenv("PATH"), "HOME=" + dir, "key=true", "OMIT_CREATE_TABLES=true", "MODE=" + c.mode(),
		fmt.Sprintf("PORT=%d", port), "HOST=127.0.0.1", "CLICKHOUSE_SERVER=127.0.0.1", "CLICKHOUSE_PORT=1"}
	for k, v := range c.Env {
		cmd.Env = append(cmd.Env, k+"="+v)
	}
	for k, v := range c.Extra {
		cmd.Env = append(cmd.Env, k+"="+v)
	}
	if err := cmd.Start(); err != nil {
		res.startErr = err
		return res
	}
	exited := make(chan struct{})
	go func() { cmd.Wait(); close(exited) }()
	defer func() {
		// answers only count if they came from THIS process: it must still be running when the probes are done
		select {
		case <-exited:
			if res.startErr == nil {
				b, _ := os.ReadFile(logf.Name())
				if len(b) > 1200 {
					b = b[len(b)-1200:]
				}
				res.startErr = fmt.Errorf("the built binary exited while it was probed (%s):\n%s", c.sources(), b)
			}
		default:
		}
		cmd.Process.Kill()
		<-exited
	}()
	addr := fmt.Sprintf("127.0.0.1:%d", port)
	up := false
	for i := 0; i < 200 && !up; i++ {
		select {
		case <-exited:
			i = 200
			continue
		default:
		}
		if cn, err := net.DialTimeout("tcp", addr, 200*time.Millisecond); err == nil {
			cn.Close()
			up = true
		} else {
			time.Sleep(50 * time.Millisecond)
		}
	}
	if !up {
		b, _ := os.ReadFile(logf.Name())
		if len(b) > 1200 {
			b = b[len(b)-1200:]
		}
		res.startErr = fmt.Errorf("the built binary did not start listening on %s under %s:\n%s", addr, c.sources(), b)
		return res
	}
	id := idx * 10000
	probe := func(method, path string, auth *string, wait time.Duration) c20ConfReq {
		id++
		res.probes++
		p := c20RawProbe(addr, method, path, auth, id, wait)
		if p.err != nil {
			// one retry: the listener may still be warming up
			time.Sleep(100 * time.Millisecond)
			p = c20RawProbe(addr, method, path, auth, id, wait)
		}
		q := c20ConfReq{Method: method, Path: path, Auth: auth, Status: p.status, Hung: p.hung}
		if p.err != nil {
			q.Status = -1
		}
		return q
	}
	if only != nil {
		q := probe(only.Method, only.Path, only.Auth, 1500*time.Millisecond)
		res.noCred = append(res.noCred, q)
		return res
	}
	logins, passes := c.supplied()
	expectGuarded := len(logins) > 0 && len(passes) > 0
	// A. without credentials
	first := probe("GET", "/ready", nil, 1500*time.Millisecond)
	res.noCred = append(res.noCred, first)
	res.readyOpen = first.Status != 401 && first.Status != 400
	anomalies := 0
	if res.readyOpen {
		anomalies++
	}
	for _, x := range routes {
		if x.tpl == "/ready" || (anomalies >= 3) || (!expectGuarded && x.tpl != "/metrics" && x.tpl != "/config") {
			continue
		}
		q := probe(x.methods[0], c20VarRe.ReplaceAllString(x.tpl, "x1"), nil, 800*time.Millisecond)
		res.noCred = append(res.noCred, q)
		if q.Status != 401 && q.Status != 404 && q.Status != 405 {
			anomalies++
		}
	}
	if expectGuarded && anomalies == 0 && c.mode() == "reader" {
		// the websocket tail: an upgrade request without credentials must be refused before the upgrade
		q := c20ConfReq{Method: "GET", Path: "/loki/api/v1/tail", Note: "websocket upgrade"}
		id++
		res.probes++
		p := c20RawProbeHdr(addr, "GET", "/loki/api/v1/tail?query=%7Ba%3D%22b%22%7D", nil, id, 800*time.Millisecond,
			"Connection: Upgrade\r\nUpgrade: websocket\r\nSec-WebSocket-Version: 13\r\nSec-WebSocket-Key: dGhlIHNhbXBsZSBub25jZQ==\r\n")
		q.Status, q.Hung = p.status, p.hung
		if p.err != nil {
			q.Status = -1
		}
		res.upgrade = &q
	}
	// B. wrong credentials, then every combination of the supplied values
	w := probe("GET", "/ready", c20Basic("nobody", "nothing"), 1500*time.Millisecond)
	res.wrong = &w
	for _, lg := range logins {
		for _, pw := range passes {
			res.pairs++
			q := probe("GET", "/ready", c20Basic(lg, pw), 1500*time.Millisecond)
			if q.Status != 401 && q.Status != 400 {
				res.passing = append(res.passing, [2]string{lg, pw})
			}
		}
	}
	// C. every listener of the process other than the configured one, without credentials
	res.listeners = c20ListeningPorts(cmd.Process.Pid)
	for _, lp := range res.listeners {
		if lp == port {
			continue
		}
		paths := []string{"/", "/debug/pprof/", "/debug/vars", "/ready", "/metrics", "/config"}
		for _, x := range routes {
			if len(paths) < 24 {
				paths = append(paths, c20VarRe.ReplaceAllString(x.tpl, "x1"))
			}
		}
		for _, pth := range paths {
			id++
			res.probes++
			p := c20RawProbe(fmt.Sprintf("127.0.0.1:%d", lp), "GET", pth, nil, id, 800*time.Millisecond)
			q := c20ConfReq{Method: "GET", Path: pth, Status: p.status, Hung: p.hung, Note: fmt.Sprintf("second listener of the process, port %d (configured port %d)", lp, port)}
			if p.err != nil {
				q.Status = -1
			}
			res.extra = append(res.extra, q)
		}
	}
	switch {
	case res.readyOpen:
		res.inst = "none"
	case len(res.passing) == 1:
		res.inst = h.Hex([]byte(res.passing[0][0])) + "," + h.Hex([]byte(res.passing[0][1]))
	default:
		res.inst = fmt.Sprintf("ambiguous:%d-of-%d-combinations-pass", len(res.passing), res.pairs)
	}
	return res
}

func c20FileJSON(u, p *string) *string {
	if u == nil && p == nil {
		return nil
	}
	basic := map[string]string{}
	if u != nil {
		basic["username"] = *u
	}
	if p != nil {
		basic["password"] = *p
	}
	b, _ := json.Marshal(map[string]any{"auth_settings": map[string]any{"basic": basic}})
	return sp(string(b))
}

func c20FixedConfs() []*c20Conf {
	mk := func(u, p *string, env map[string]string, note string) *c20Conf {
		if env == nil {
			env = map[string]string{}
		}
		return &c20Conf{Stream: "config", FileUser: u, FilePass: p, Env: env, File: c20FileJSON(u, p), Note: note}
	}
	return []*c20Conf{
		mk(sp("fuser"), nil, map[string]string{"QRYN_PASSWORD": "qpass"}, "file username + QRYN_PASSWORD"),
		mk(nil, nil, map[string]string{"QRYN_LOGIN": "quser", "CLOKI_PASSWORD": "cpass"}, "QRYN_LOGIN + CLOKI_PASSWORD"),
		mk(sp("fuser"), sp("fpass"), nil, "file only"),
		mk(nil, sp("fpass"), map[string]string{"CLOKI_LOGIN": "cuser"}, "file password + CLOKI_LOGIN"),
		mk(nil, nil, map[string]string{"QRYN_LOGIN": "quser", "QRYN_PASSWORD": "qpass", "CLOKI_LOGIN": "cuser"}, "CLOKI_LOGIN over QRYN_LOGIN"),
		mk(sp("fuser"), sp("fpass"), map[string]string{"QRYN_LOGIN": "", "QRYN_PASSWORD": "q:pa ss"}, "set-but-empty QRYN_LOGIN keeps the file's login"),
		mk(nil, nil, map[string]string{"QRYN_LOGIN": "quser"}, "a login and no password anywhere: nothing to install"),
		mk(nil, nil, nil, "nothing configured"),
		func() *c20Conf {
			c := mk(nil, sp("fpass"), map[string]string{"QRYN_LOGIN": "quser"}, "a MODE in which neither writer.Init nor reader.Init runs: the common routes are still guarded")
			c.Mode = "gateway"
			return c
		}(),
	}
}

func c20Config(r *h.Result, rng *h.Rng, nRandom int) error {
	confs := c20FixedConfs()
	for i := 0; i < nRandom; i++ {
		c := c20GenConf(rng, false)
		c.Stream = "config"
		c.File = c20FileJSON(c.FileUser, c.FilePass)
		if rng.Chance(15) {
			c.Mode = h.Pick(rng, []string{"gateway", "READER", "init"})
		}
		confs = append(confs, c)
	}
	if nRandom > 8 {
		// ReadConfig layer (cloki-config/viper, third party): QRYN_AUTH_SETTINGS_BASIC_* replaces a key present in the file
		c := &c20Conf{Stream: "config", FileUser: sp("fuser"), FilePass: sp("fpass"), Env: map[string]string{"CLOKI_PASSWORD": "cpass"},
			Extra: map[string]string{"QRYN_AUTH_SETTINGS_BASIC_USERNAME": "vuser"}, Note: "viper env over a file key + CLOKI_PASSWORD"}
		c.File = c20FileJSON(c.FileUser, c.FilePass)
		confs = append(confs, c)
	}
	return c20ConfigRun(r, confs)
}

// c20ConfigRun starts the real binary once per configuration (6 at a time), probes, judges and compares
func c20ConfigRun(r *h.Result, confs []*c20Conf) error {
	r.Stream("config: the real binary (unmodified build; MODE=reader and MODEs in which no Init runs), one start per configuration — JSON config file (auth_settings.basic.username/password present/absent/empty) × environment built from scratch (QRYN_LOGIN, CLOKI_LOGIN, QRYN_PASSWORD, CLOKI_PASSWORD absent/empty/set; mixed sources first) — probed over raw HTTP: every route of the whole table without credentials, the websocket upgrade of the tail route, wrong credentials, every supplied-login × supplied-password combination on /ready, every other TCP listener of the process; vs main()'s guard over the interpreted plan (c20inst) and, per request, configuration → installed middleware → route table of the MODE → mux model (c20servemode)")
	bin, err := c20MainBinary(false)
	if err != nil {
		return err
	}
	rt, err := c20Assemble("ac", "x", "y") // only to enumerate the whole table (common, writer, reader)
	if err != nil {
		return err
	}
	rtr, err := c20Assemble("acr", "x", "y") // what the harness knows to be registered with MODE=reader (oracle side)
	if err != nil {
		return err
	}
	readerKnown := map[string]bool{}
	for _, x := range rtr.routes {
		readerKnown[x.methods[0]+" "+x.tpl] = true
	}
	mustGuard := func(c *c20Conf, q c20ConfReq) bool {
		for _, x := range rt.routes {
			if c20VarRe.ReplaceAllString(x.tpl, "x1") == q.Path && x.methods[0] == q.Method {
				if c20CommonRoutes[x.tpl] || (c.mode() == "reader" && readerKnown[x.methods[0]+" "+x.tpl]) {
					return true
				}
			}
		}
		return false
	}
	dir := filepath.Join(c20BinDir, "conf")
	os.MkdirAll(dir, 0o755)
	results := make([]c20ConfResult, len(confs))
	var wg sync.WaitGroup
	sem := make(chan struct{}, 6)
	for i := range confs {
		wg.Add(1)
		sem <- struct{}{}
		go func(i int) {
			defer wg.Done()
			defer func() { <-sem }()
			results[i] = c20RunConf(bin, dir, i, confs[i], rt.routes, nil)
			if results[i].startErr != nil {
				results[i] = c20RunConf(bin, dir, i, confs[i], rt.routes, nil)
			}
		}(i)
	}
	wg.Wait()
	var ops, impl []string
	var cases []any
	for i, c := range confs {
		res := results[i]
		if res.startErr != nil {
			return res.startErr
		}
		logins, passes := c.supplied()
		guarded := len(logins) > 0 && len(passes) > 0
		withReq := func(q c20ConfReq) *c20Conf {
			cc := *c
			cc.Request = &q
			return &cc
		}
		for _, q := range res.noCred {
			// model: configuration → installed middleware → the route table of the MODE → this request
			f := c.fileCreds()
			ops = append(ops, fmt.Sprintf("c20servemode %s %s %s %s %s %s none", h.Hex([]byte(c.mode())), h.Hex([]byte(f[0])), h.Hex([]byte(f[1])), c.envSpec(), q.Method, h.Hex([]byte(q.Path))))
			switch q.Status {
			case 401, 400, 404, 405, 301:
				impl = append(impl, fmt.Sprint(q.Status))
			default:
				impl = append(impl, "reached")
			}
			cases = append(cases, withReq(q))
			r.Case(fmt.Sprintf("config-route:%s:%s:%s %s", c.mode(), c.sources(), q.Method, q.Path), guarded)
		}
		if guarded {
			probes := res.noCred
			if res.upgrade != nil {
				probes = append(append([]c20ConfReq{}, probes...), *res.upgrade)
			}
			for _, q := range probes {
				served := q.Status != 401 && q.Status != 404 && q.Status != 405
				if served || (q.Status != 401 && (q.Note != "" || mustGuard(c, q))) {
					r.Violate("C20/config-route-served-without-credentials",
						fmt.Sprintf("real binary, MODE=%s, sources %s (a login and a password were supplied): %s %s %s WITHOUT credentials answered %d%s, not 401",
							c.mode(), c.sources(), q.Method, q.Path, q.Note, q.Status, map[bool]string{true: " (no answer: the handler is waiting for the database)", false: ""}[q.Hung]), withReq(q))
					break
				}
			}
			for _, q := range res.extra {
				if q.Status >= 0 && q.Status != 401 && q.Status != 400 && q.Status != 404 && q.Status != 405 {
					r.Violate("C20/second-listener-serves-without-credentials",
						fmt.Sprintf("real binary, sources %s (a login and a password were supplied): %s — GET %s WITHOUT credentials answered %d", c.sources(), q.Note, q.Path, q.Status), withReq(q))
					break
				}
			}
			if res.wrong != nil && res.wrong.Status != 401 {
				r.Violate("C20/config-wrong-credentials-accepted",
					fmt.Sprintf("real binary, sources %s: GET /ready with nobody:nothing answered %d", c.sources(), res.wrong.Status), withReq(*res.wrong))
			}
			if len(res.passing) == 0 && !res.readyOpen {
				r.Violate("C20/config-no-supplied-combination-accepted",
					fmt.Sprintf("real binary, sources %s: none of the %d combinations of the supplied logins and passwords is let through", c.sources(), res.pairs), c)
			}
			if len(res.passing) > 1 && !res.readyOpen {
				r.Violate("C20/config-several-credential-pairs-accepted",
					fmt.Sprintf("real binary, sources %s: %d different login/password combinations are let through: %q", c.sources(), len(res.passing), res.passing), c)
			}
		}
		ops = append(ops, c.op("c20inst"))
		impl = append(impl, res.inst)
		cases = append(cases, c)
		r.Case("config:"+c.sources(), c.mixed())
		r.CountN("config:http-probes", res.probes)
		r.Count(fmt.Sprintf("config:tcp-listeners-of-the-process=%d", len(res.listeners)))
		r.Count(fmt.Sprintf("config:mode=%s:guarded=%v:mixed=%v", c.mode(), guarded, c.mixed()))
		if i < 2 {
			r.Sample(map[string]any{"stream": "config", "case": c, "installed": res.inst, "probes": res.probes})
		}
	}
	return r.Compare("config", ops, impl, cases)
}

// ---------------------------------------------------------------- replay of the two streams

func c20ConfigReplay(r *h.Result, raw json.RawMessage) error {
	var c c20Conf
	if err := json.Unmarshal(raw, &c); err != nil {
		return err
	}
	defer c20BinCleanup()
	if c.Env == nil {
		c.Env = map[string]string{}
	}
	c.fromHex()
	switch c.Stream {
	case "portenv":
		bin, err := c20MainBinary(true)
		if err != nil {
			return err
		}
		got, err := c20PortEnvRun(bin, []*c20Conf{&c})
		if err != nil {
			return err
		}
		c20PortEnvJudge(r, &c, got[0])
		r.Case("replay", true)
		return r.Compare("portenv", []string{c.op("c20eff")}, got, []any{&c})
	case "config":
		c.Request = nil
		r.Case("replay", true)
		return c20ConfigRun(r, []*c20Conf{&c})
	}
	return fmt.Errorf("replay of stream %q not supported", c.Stream)
}
