package main

import (
	"encoding/json"
	"fmt"
	"os"
	"strings"

	"github.com/metrico/qryn/reader/logql/logql_transpiler_v2/shared"

	traceql_parser "github.com/metrico/qryn/reader/traceql/parser"
	"github.com/metrico/qryn/reader/traceql/transpiler/clickhouse_transpiler"
	sql "github.com/metrico/qryn/reader/utils/sql_select"
	"verif/harness/h"
)

func init() { props["C11"] = c11 }

// implTraceSQL: real parser → real planner → Process → String. n = how many times the same plan is processed;
// the texts of all runs are returned.
func implTraceSQL(query string, c tqctx, n int) (texts []string, script *traceql_parser.TraceQLScript, err error) {
	defer func() {
		if r := recover(); r != nil {
			err = fmt.Errorf("panic: %v", r)
		}
	}()
	script, err = traceql_parser.Parse(query)
	if err != nil {
		return nil, nil, fmt.Errorf("parse: %w", err)
	}
	p, err := clickhouse_transpiler.Plan(script)
	if err != nil {
		return nil, script, fmt.Errorf("plan: %w", err)
	}
	for i := 0; i < n; i++ {
		sel, err := p.Process(c.planner())
		if err != nil {
			return texts, script, fmt.Errorf("process: %w", err)
		}
		s, err := sel.String(sql.DefaultCtx())
		if err != nil {
			return texts, script, fmt.Errorf("string: %w", err)
		}
		texts = append(texts, s)
	}
	return texts, script, nil
}

// implTraceSel: the select object the real planner returns (one Process), and its text
func implTraceSel(query string, c tqctx) (sel sql.ISelect, text string, script *traceql_parser.TraceQLScript, err error) {
	defer func() {
		if r := recover(); r != nil {
			err = fmt.Errorf("panic: %v", r)
		}
	}()
	script, err = traceql_parser.Parse(query)
	if err != nil {
		return nil, "", nil, fmt.Errorf("parse: %w", err)
	}
	p, err := clickhouse_transpiler.Plan(script)
	if err != nil {
		return nil, "", script, fmt.Errorf("plan: %w", err)
	}
	sel, err = p.Process(c.planner())
	if err != nil {
		return nil, "", script, fmt.Errorf("process: %w", err)
	}
	text, err = sel.String(sql.DefaultCtx())
	return sel, text, script, err
}

func countSelectors(s *traceql_parser.TraceQLScript) int {
	n := 0
	for ; s != nil; s = s.Tail {
		n++
	}
	return n
}

// c11Text: the text tie — byte-equal SQL between the real planner and TraceQL.plan
func c11Text(r *h.Rng, res *h.Result, n int, maxSel int, big bool) error {
	res.Stream("text: traceql_parser.Parse → clickhouse_transpiler.Plan → Process → String vs TraceQL.plan/Sql.renderSel (byte-equal SQL, errors as ERR)")
	var ops, impl []string
	var cases []any
	for i := 0; i < n; i++ {
		bigTerms := 0
		if big && i%40 == 0 {
			bigTerms = r.Range(60, 70)
		}
		query := genTraceQL(r, maxSel, 3, bigTerms)
		c := genTqCtx(r)
		texts, script, err := implTraceSQL(query, c, 1)
		if script == nil {
			res.Count("text:parse-error")
			res.Sample(map[string]string{"stream": "text", "query": query, "error": fmt.Sprint(err)})
			continue
		}
		if err != nil && len(err.Error()) > 6 && err.Error()[:6] == "panic:" {
			res.Count("text:impl-panic")
			res.Sample(map[string]string{"stream": "text", "query": query, "error": err.Error()})
			continue
		}
		ser, serr := serTraceQL(script)
		if serr != nil {
			res.Count("text:outside-fragment")
			continue
		}
		out := "ERR"
		if err == nil {
			out = h.Hex([]byte(texts[0]))
			res.Count("text:ok")
		} else {
			res.Count("text:impl-error")
		}
		ops = append(ops, "c11plan "+c.ser()+" "+ser)
		impl = append(impl, out)
		cases = append(cases, map[string]any{"query": query, "ctx": c, "impl_error": fmt.Sprint(err)})
		nsel := countSelectors(script)
		res.Case("text:"+query+fmt.Sprint(c), err == nil && (nsel > 1 || script.Head.Aggregator != nil ||
			(script.Head.AttrSelector != nil && script.Head.AttrSelector.Tail != nil)))
		res.Count(fmt.Sprintf("text:selectors=%d", nsel))
		if script.Head.Aggregator != nil {
			res.Count("text:agg:" + script.Head.Aggregator.Fn)
		}
		if i%97 == 0 && err == nil {
			res.Sample(map[string]any{"stream": "text", "query": query, "ctx": c, "sql": texts[0]})
		}
	}
	return res.Compare("text", ops, impl, cases)
}

// c11Tags: text tie for PlanTagsV2 / PlanValuesV2 (single selector)
func c11Tags(r *h.Rng, res *h.Result, n int) error {
	res.Stream("tags: clickhouse_transpiler.PlanTagsV2 / PlanValuesV2 → Process → String vs TraceQL.planTags / planValues (byte-equal SQL, errors as ERR)")
	var ops, impl []string
	var cases []any
	run := func(kind, query string, c tqctx, key string) {
		var text string
		var script *traceql_parser.TraceQLScript
		var err error
		func() {
			defer func() {
				if rec := recover(); rec != nil {
					err = fmt.Errorf("panic: %v", rec)
				}
			}()
			script, err = traceql_parser.Parse(query)
			if err != nil {
				script = nil
				return
			}
			var p interface {
				Process(*shared.PlannerContext) (sql.ISelect, error)
			}
			if kind == "tags" {
				p, err = clickhouse_transpiler.PlanTagsV2(script)
			} else {
				p, err = clickhouse_transpiler.PlanValuesV2(script, key)
			}
			if err != nil {
				return
			}
			sel, e := p.Process(c.planner())
			if e != nil {
				err = e
				return
			}
			text, err = sel.String(sql.DefaultCtx())
		}()
		if script == nil {
			return
		}
		if err != nil && strings.HasPrefix(err.Error(), "panic:") {
			res.Count("tags:impl-panic")
			return
		}
		ser, serr := serTraceQL(script)
		if serr != nil {
			return
		}
		out := "ERR"
		if err == nil {
			out = h.Hex([]byte(text))
			res.Count("tags:" + kind + "-ok")
		} else {
			res.Count("tags:" + kind + "-error")
		}
		if kind == "tags" {
			ops = append(ops, "c11tags "+c.ser()+" "+hx(c.planner().TracesKVDistTable)+" "+ser)
		} else {
			ops = append(ops, "c11values "+c.ser()+" "+hx(c.planner().TracesKVDistTable)+" "+h.Hex([]byte(key))+" "+ser)
		}
		impl = append(impl, out)
		cases = append(cases, map[string]any{"kind": kind, "query": query, "ctx": c, "key": key, "impl_error": fmt.Sprint(err)})
		res.Case("tags:"+kind+query+fmt.Sprint(c), err == nil)
	}
	for i := 0; i < n; i++ {
		query := tqSelector(r, 2)
		if r.Chance(5) {
			query = genTraceQL(r, 2, 1, 0)
		}
		c := genTqCtx(r)
		run("tags", query, c, "")
		run("values", query, c, h.Pick(r, []string{"a", "http.status", "k'ey", "", "name"}))
	}
	return res.Compare("tags", ops, impl, cases)
}

func c11(r *h.Result, rng *h.Rng, tier string, replay string) error {
	n := 600
	if tier != "quick" {
		n = 10000
	}
	r.Rule = "text: grammar-directed TraceQL scripts (chains of ≤ 6 selectors with && / ||, nested and/or with parentheses, repeated terms, prefixes . span. resource. name duration, string / number / duration values, all operators, aggregators with units) × random planner contexts; non-trivial = planned without error and has more than one selector, an aggregator or a boolean operator; distinct by (query, context). tags: single selectors for PlanTagsV2/PlanValuesV2. syntax: every planned statement counts. sem: (query, context, trace database aimed at the query) with a non-empty result on either side"
	if replay != "" {
		b, err := os.ReadFile(replay)
		if err != nil {
			return err
		}
		var rp struct {
			Replay struct {
				Kind string   `json:"kind"`
				Case tqReplay `json:"case"`
			} `json:"replay"`
		}
		if err := json.Unmarshal(b, &rp); err != nil {
			return err
		}
		if rp.Replay.Kind == "sem" {
			return c11Sem(rng.Fork(), r, 1, 4, &rp.Replay.Case)
		}
		var rw struct {
			Replay struct {
				Kind string      `json:"kind"`
				Case tqWholeCase `json:"case"`
			} `json:"replay"`
		}
		if err := json.Unmarshal(b, &rw); err != nil {
			return err
		}
		switch rw.Replay.Kind {
		case "whole":
			return c11Whole(rng.Fork(), r, 1, &rw.Replay.Case)
		case "portions":
			return c11Portions(rng.Fork(), r, 1, &rw.Replay.Case)
		case "tagsem":
			return c11TagSem(rng.Fork(), r, 1, &rw.Replay.Case)
		}
	}
	if err := c11Text(rng.Fork(), r, n, 6, tier != "quick"); err != nil {
		return err
	}
	if err := c11Tags(rng.Fork(), r, n/3); err != nil {
		return err
	}
	if err := c11Syntax(rng.Fork(), r, n/2, 4); err != nil {
		return err
	}
	if err := c11Sem(rng.Fork(), r, n/2, 4, nil); err != nil {
		return err
	}
	if err := c11Parse(rng.Fork(), r, n); err != nil {
		return err
	}
	if err := c11Whole(rng.Fork(), r, n/2, nil); err != nil {
		return err
	}
	if err := c11TagSem(rng.Fork(), r, n/4, nil); err != nil {
		return err
	}
	if err := c11TagsAPI(rng.Fork(), r, n/6); err != nil {
		return err
	}
	np := 60
	if tier != "quick" {
		np = 600
	}
	if err := c11Portions(rng.Fork(), r, np, nil); err != nil {
		return err
	}
	// extension c11y
	if err := c11Units(rng.Fork(), r, n); err != nil {
		return err
	}
	if err := c11Heap(rng.Fork(), r, n/2); err != nil {
		return err
	}
	return nil
}
