package main

import (
	"context"
	"encoding/json"
	"fmt"
	"regexp"
	"strconv"
	"strings"
	"time"

	"github.com/metrico/qryn/reader/logql/logql_transpiler_v2/shared"
	"github.com/metrico/qryn/reader/prof/parser"
	proftr "github.com/metrico/qryn/reader/prof/transpiler"
	sql "github.com/metrico/qryn/reader/utils/sql_select"
	"verif/harness/h"
)

// ---------------------------------------------------------------------------------------------------
// Stream 5: Pyroscope selector → SQL text. Real code: (&transpiler.StreamSelectorPlanner{Selectors}).Process
// rendered with sql_select, compared byte for byte (blanks collapsed) with Prof.PQuery.render. Selectors
// come either as parser.Selector values or through the real selector parser (parser.Parser.ParseString).

type c17ProfCase struct {
	Stream    string          `json:"stream"`
	From      int64           `json:"from"` // unix seconds
	To        int64           `json:"to"`
	Selectors []c17E2EMatcher `json:"selectors"` // name/value hex
	Parsed    bool            `json:"parsed"`    // went through the real parser
	SQL       string          `json:"sql,omitempty"`
}

var c17Pseudo = []string{"__name__", "__period_type__", "__period_unit__", "__sample_type__", "__sample_unit__", "__profile_type__", "service_name"}

func c17OpName(op string) string {
	switch op {
	case "=":
		return "eq"
	case "!=":
		return "ne"
	case "=~":
		return "re"
	}
	return "nre"
}

// c17SelectorArg is a selector in the driver's notation `eq|ne|re|nre:<hex name>:<hex value>[:e]`; `:e` = Go's regexp finds
// the anchored pattern of a =~ / !~ selector in the empty string (what the planner's acceptsEmpty asks; the
// regular-expression engine stays outside the model)
func c17SelectorArg(s c17E2EMatcher) string {
	a := c17OpName(s.Type) + ":" + s.Name + ":" + s.Value
	if s.Type == "=~" || s.Type == "!~" {
		if re, err := regexp.Compile("^(?:" + string(h.UnHex(s.Value)) + ")$"); err == nil && re.MatchString("") {
			a += ":e"
		}
	}
	return a
}

// c17ProfAcceptsEmpty: Pyroscope's reading, written down independently of the planner: does a label without value (a
// label the series does not have) satisfy the selector
func c17ProfAcceptsEmpty(op, val string) bool {
	switch op {
	case "=":
		return val == ""
	case "!=":
		return val != ""
	}
	re, err := regexp.Compile("^(?:" + val + ")$")
	m := err == nil && re.MatchString("")
	return m == (op == "=~")
}

func c17RunProf(r *h.Result, c *c17ProfCase) (string, string, error) {
	var sels []parser.Selector
	var parts []string
	if c.Parsed {
		var b strings.Builder
		b.WriteByte('{')
		for i, s := range c.Selectors {
			if i > 0 {
				b.WriteString(", ")
			}
			b.WriteString(string(h.UnHex(s.Name)) + s.Type + strconv.Quote(string(h.UnHex(s.Value))))
		}
		b.WriteByte('}')
		script, err := parser.Parser.ParseString("", b.String())
		if err != nil {
			return "", "", fmt.Errorf("selector parser rejects %s: %v", b.String(), err)
		}
		sels = script.Selectors
	} else {
		for _, s := range c.Selectors {
			sels = append(sels, parser.Selector{Name: string(h.UnHex(s.Name)), Op: s.Type, Val: parser.Str{Str: strconv.Quote(string(h.UnHex(s.Value)))}})
		}
	}
	for _, s := range c.Selectors {
		parts = append(parts, c17SelectorArg(s))
	}
	ctx := shared.PlannerContext{From: time.Unix(c.From, 0), To: time.Unix(c.To, 0), Ctx: context.Background(), ProfilesSeriesGinTable: "profiles_series_gin"}
	q, err := (&proftr.StreamSelectorPlanner{Selectors: sels}).Process(&ctx)
	if err != nil {
		return "", "", fmt.Errorf("Process: %v", err)
	}
	text, err := q.String(&sql.Ctx{Params: map[string]sql.SQLObject{}})
	if err != nil {
		return "", "", fmt.Errorf("render: %v", err)
	}
	c.SQL = text
	c17ProfOracle(r, c, text)
	d := func(t int64) string { return time.Unix(t, 0).UTC().Add(-30 * time.Minute).Format("2006-01-02") }
	pl := "-"
	if len(parts) > 0 {
		pl = strings.Join(parts, ",")
	}
	// lower bound: date of (start − 30 min); upper bound: the UTC date of the end (after the C13 fix of A26)
	dTo := time.Unix(c.To, 0).UTC().Format("2006-01-02")
	op := fmt.Sprintf("c17profsql profiles_series_gin %s %s %s", h.Hex([]byte(d(c.From))), h.Hex([]byte(dTo)), pl)
	return op, h.Hex([]byte(c17Collapse(text))), nil
}

// what each pseudo-label has to be matched against (type_id = name:period_type:period_unit, sample_types_units =
// [(sample type, sample unit)], Pyroscope's profile type = name:sample_type:sample_unit:period_type:period_unit);
// written down here independently of the model and of Gen
var c17ProfField = map[string][2]string{
	"__name__":         {"splitByChar(':', type_id)[1]", ""},
	"__period_type__":  {"splitByChar(':', type_id)[2]", ""},
	"__period_unit__":  {"splitByChar(':', type_id)[3]", ""},
	"__sample_type__":  {"x.1", "arr"},
	"__sample_unit__":  {"x.2", "arr"},
	"__profile_type__": {"format('{}:{}:{}:{}:{}', (splitByChar(':', type_id) as _parts)[1], x.1, x.2, _parts[2], _parts[3])", "arr"},
	"service_name":     {"service_name", ""},
}

func c17SQLQuote(s string) string {
	var b strings.Builder
	b.WriteByte('\'')
	for i := 0; i < len(s); i++ {
		switch s[i] {
		case '\\':
			b.WriteString("\\\\")
		case 0:
			b.WriteString("\\0")
		case '\n':
			b.WriteString("\\n")
		case '\r':
			b.WriteString("\\r")
		case '\b':
			b.WriteString("\\b")
		case '\t':
			b.WriteString("\\t")
		case 0x1a:
			b.WriteString("\\x1a")
		case '\'':
			b.WriteString("\\'")
		default:
			b.WriteByte(s[i])
		}
	}
	b.WriteByte('\'')
	return b.String()
}

// c17ProfOracle: every selector must appear in the text as the condition its meaning requires.
func c17ProfOracle(r *h.Result, c *c17ProfCase, text string) {
	text = c17Collapse(text)
	nkv := 0
	want := uint64(0) // the bits of the key/value selectors that need an index row
	for _, s := range c.Selectors {
		name, val := string(h.UnHex(s.Name)), string(h.UnHex(s.Value))
		field, arr, kv := "val", false, true
		if f, ok := c17ProfField[name]; ok {
			field, arr, kv = f[0], f[1] == "arr", false
		}
		op := s.Type
		if kv {
			// a key/value selector that accepts the empty value also holds for a series without the label: the index
			// (one row per label the series has) can only be asked whether a row of the label violates it
			if c17ProfAcceptsEmpty(op, val) {
				op = map[string]string{"=": "!=", "!=": "=", "=~": "!~", "!~": "=~"}[op]
			} else if nkv < 64 {
				want |= uint64(1) << uint(nkv)
			}
		}
		var cond string
		switch op {
		case "=":
			cond = "(" + field + ") == (" + c17SQLQuote(val) + ")"
		case "!=":
			cond = "(" + field + ") != (" + c17SQLQuote(val) + ")"
		case "=~": // a label matcher matches the whole value: the pattern reaches match() anchored
			cond = "(match(" + field + ", " + c17SQLQuote("^(?:"+val+")$") + ")) == (1)"
		default:
			cond = "(match(" + field + ", " + c17SQLQuote("^(?:"+val+")$") + ")) != (1)"
		}
		switch {
		case arr:
			cond = "(arrayExists(x -> " + cond + ", sample_types_units)) == (1)"
		case kv:
			cond = "((key) == (" + c17SQLQuote(name) + ")) and (" + cond + ")"
			nkv++
		}
		if !strings.Contains(text, c17Collapse(cond)) {
			key := "C17/prof-pseudo-label-condition"
			if kv {
				key = "C17/prof-key-value-condition"
			}
			r.Violate(key, fmt.Sprintf("selector %s%s%q is not rendered as %s", name, s.Type, val, cond), *c)
		}
	}
	if nkv > 0 && nkv <= 62 && !strings.HasSuffix(text, fmt.Sprintf(") == (%d))", want)) {
		r.Violate("C17/prof-having-constant", fmt.Sprintf("%d key/value selectors: HAVING does not compare the bit set with %d (a bit per selector that needs an index row, none for a selector that accepts the empty value)", nkv, want), *c)
	}
	where := text
	if i := strings.Index(text, " GROUP BY "); i >= 0 {
		where = text[:i]
	}
	if nkv > 0 && nkv <= 62 && (want != 0) != strings.Contains(where, "((key) == (") {
		r.Violate("C17/prof-row-filter", fmt.Sprintf("%d key/value selectors, required bits %d: the rows are filtered by the OR of the clauses exactly when a bit is required", nkv, want), *c)
	}
}

func c17Prof(r *h.Result, rng *h.Rng, n int) error {
	r.Stream("profsql: prof/transpiler.StreamSelectorPlanner.Process (half of the cases through the real selector parser) rendered by sql_select vs Prof.PQuery.render, byte-equal after collapsing blanks")
	var ops, impl []string
	var cases []any
	types := []string{"=", "!=", "=~", "!~"}
	for i := 0; i < n; i++ {
		c := c17ProfCase{Stream: "profsql", From: 1700000000 + int64(rng.Intn(200000)), Parsed: rng.Bool()}
		c.To = c.From + int64(rng.Intn(100000))
		ns := rng.Range(0, 6)
		if rng.Chance(8) {
			ns = rng.Range(9, 14)
		}
		for k := 0; k < ns; k++ {
			var name string
			switch rng.Intn(3) {
			case 0:
				name = h.Pick(rng, c17Pseudo)
			case 1:
				name = h.Pick(rng, []string{"job", "env", "pod", "region"})
			default:
				name = rng.Ident(6)
			}
			var val []byte
			if rng.Chance(50) {
				val = []byte(h.Pick(rng, []string{"process_cpu", "cpu", "nanoseconds", "process_cpu:cpu:nanoseconds:cpu:nanoseconds", "a.*", "x|y", ""}))
			} else {
				val = rng.Bytes(10)
			}
			typ := h.Pick(rng, types)
			if _, err := regexp.Compile("^(?:" + string(val) + ")$"); err != nil && (typ == "=~" || typ == "!~") {
				typ = map[string]string{"=~": "=", "!~": "!="}[typ] // not a regular expression: the planner refuses the selector
			}
			c.Selectors = append(c.Selectors, c17E2EMatcher{Type: typ, Name: h.Hex([]byte(name)), Value: h.Hex(val)})
		}
		op, im, err := c17RunProf(r, &c)
		if err != nil {
			return err
		}
		ops = append(ops, op)
		impl = append(impl, im)
		cases = append(cases, c)
		b, _ := json.Marshal(c.Selectors)
		nPseudo := 0
		for _, s := range c.Selectors {
			for _, p := range c17Pseudo {
				if string(h.UnHex(s.Name)) == p {
					nPseudo++
				}
			}
		}
		r.Case("profsql:"+string(b), nPseudo > 0 && nPseudo < len(c.Selectors))
		switch {
		case len(c.Selectors) == 0:
			r.Count("profsql:no-selector")
		case nPseudo == len(c.Selectors):
			r.Count("profsql:pseudo-labels-only")
		case nPseudo == 0:
			r.Count("profsql:key-value-only")
		default:
			r.Count("profsql:mixed")
		}
		if i%301 == 0 {
			r.Sample(c)
		}
	}
	return c17CompareText(r, "profsql", ops, impl, cases)
}

func init() {
	c17Streams = append(c17Streams, func(r *h.Result, rng *h.Rng, tier string) error {
		n := 800
		if tier != "quick" {
			n = 30000
		}
		r.Rule += "; profsql: 0..6 (8%: 9..14) selectors, names from the 7 pseudo-labels / common labels / random identifiers, the four operators, values from a pool or ≤10 adversarial bytes; half of the cases go through the real selector parser; non-trivial = pseudo-label and key/value selectors mixed"
		return c17Prof(r, rng, n)
	})
	c17ReplayMore["profsql"] = func(r *h.Result, raw json.RawMessage) error {
		var c c17ProfCase
		if err := json.Unmarshal(raw, &c); err != nil {
			return err
		}
		op, im, err := c17RunProf(r, &c)
		if err != nil {
			return err
		}
		r.Case("replay", true)
		return c17CompareText(r, "profsql", []string{op}, []string{im}, []any{c})
	}
}
