package main

// Bounded waits for the C01/C02 harness. No receive on anything the implementation has to feed (a promise, the
// channel a flush iteration reports on, a WaitGroup of goroutines running implementation code) may be unbounded:
// a promise that is never completed is exactly what C01 forbids, so the harness has to turn the missing answer into a
// VIOLATION with the op sequence instead of waiting for it. Every such wait goes through one of the helpers below.
//
// A verdict that rests on a clock ("no answer within the deadline") is reported only after the same op sequence,
// run ALONE, shows it again with ten times the deadline (c0102Confirm) — a request that is never answered stays
// unanswered whatever the deadline, a slow machine does not. (Same rule as C05/C12, DESIGN §10.)

import (
	"context"
	"sync"
	"time"

	"github.com/metrico/qryn/writer/service"
	"github.com/metrico/qryn/writer/utils/promise"
)

// c0102Deadline is the base deadline of one implementation-side wait; c0102Scale multiplies it in a confirmation run.
const c0102Deadline = 5 * time.Second
const c0102ConfirmScale = 10

// c0102Await waits for a promise for at most d. done=false: the promise is still open.
func c0102Await(p *promise.Promise[uint32], d time.Duration) (done bool, err error) {
	if p == nil {
		return false, nil
	}
	if d <= 0 {
		return pollPromise(p)
	}
	ctx, cancel := context.WithTimeout(context.Background(), d)
	defer cancel()
	_, e := p.GetCtx(ctx)
	if e == promise.GetContextTimeout {
		// the promise may have been completed with this very error value by nobody: the service never uses it
		return pollPromise(p)
	}
	return true, e
}

// c0102Get is promise.Get() with a deadline: (res, err, answered)
func c0102Get(p *promise.Promise[uint32], d time.Duration) (uint32, error, bool) {
	ctx, cancel := context.WithTimeout(context.Background(), d)
	defer cancel()
	res, e := p.GetCtx(ctx)
	if e == promise.GetContextTimeout {
		return 0, nil, false
	}
	return res, e, true
}

// c0102Recv receives from ch for at most d.
func c0102Recv[T any](ch <-chan T, d time.Duration) (v T, ok bool) {
	t := time.NewTimer(d)
	defer t.Stop()
	select {
	case v = <-ch:
		return v, true
	case <-t.C:
		return v, false
	}
}

// c0102WaitGroup waits for wg for at most d.
func c0102WaitGroup(wg *sync.WaitGroup, d time.Duration) bool {
	done := make(chan struct{})
	go func() { wg.Wait(); close(done) }()
	_, ok := c0102Recv(done, d)
	return ok
}

// c0102Budget is a deadline shared by many waits (e.g. all promises of one probe round): the first waits may use it up,
// the later ones only poll. Whatever is still open then was open for the whole budget.
type c0102Budget struct{ until time.Time }

func c0102NewBudget(d time.Duration) *c0102Budget { return &c0102Budget{until: time.Now().Add(d)} }

func (b *c0102Budget) await(p *promise.Promise[uint32]) (bool, error) {
	if done, err := pollPromise(p); done {
		return true, err
	}
	return c0102Await(p, time.Until(b.until))
}

// c0102Confirm re-runs `alone` (the op sequence on a fresh service, nothing else running in this goroutine) with
// c0102ConfirmScale times the deadline and says whether the clock-based verdict showed again.
func c0102Confirm(alone func(scale int) bool) bool {
	return alone(c0102ConfirmScale)
}

// c0102AwaitAnswer waits for the answer of a handler that runs over real insert services with Run loops. The verdict
// "no answer" must not rest on the clock alone: it is reached (a) when `limit` has passed, or (b) as soon as the services
// are QUIESCENT and stay so — nothing queued (no promise in svc.results, size 0), no flusher inside an INSERT, no
// progress of the INSERT counter — for `settle` consecutive checks 250 ms apart after an initial grace: then no code is
// left that could complete the promise the handler waits for, whatever the deadline. Returns (code, answered,
// quiescent).
func c0102AwaitAnswer(done <-chan int, limit time.Duration, subs []*service.InsertServiceV2, progress func() int) (int, bool, bool) {
	start := time.Now()
	const settle = 8
	quiet, last := 0, -1
	for time.Since(start) < limit {
		if code, ok := c0102Recv(done, 250*time.Millisecond); ok {
			return code, true, false
		}
		if time.Since(start) < 4*time.Second {
			continue
		}
		idle := true
		for _, s := range subs {
			st := s.VerifState()
			if st.Pending != 0 || st.Size != 0 || st.State == service.INSERT_STATE_INSERTING {
				idle = false
			}
		}
		n := progress()
		if idle && n == last {
			quiet++
		} else {
			quiet = 0
		}
		last = n
		if quiet >= settle {
			if code, ok := c0102Recv(done, 250*time.Millisecond); ok {
				return code, true, false
			}
			return -1, false, true
		}
	}
	return -1, false, false
}
