package main

// C14 extension: the heap of column lists (`Sql/PlanHeap.lean`) against REAL `sql.Select` objects and REAL Go slices.
//
//   heap-model   random programs — allocate a list, take a package-level list, `plan.Select(r...)`, `r = plan.GetSelect()`,
//                `r[i] = v`, patch in place, `append`, copy (make + copy, as patchCol), branch on what a list holds, render —
//                run (1–3 translations one after the other over the same package-level lists) on real
//                `[]sql.SQLObject` slices stored in real `sql.Select` objects, and on the model (`c14heap`). The outputs
//                of every translation and the final content of the package-level arrays must agree. What Go decides —
//                the capacity `append` gives a reallocated array — is observed and handed to the model as the `spare`
//                parameter of that instruction. Half of the programs break the discipline on purpose (a package-level list
//                stored into a plan object and patched through it): the model must show the same cross-translation effect
//                as the real slices.

import (
	"fmt"
	"strconv"
	"strings"

	sql "github.com/metrico/qryn/reader/utils/sql_select"
	"verif/harness/h"
)

type c14hv int

func (v c14hv) String(ctx *sql.Ctx, options ...int) (string, error) { return strconv.Itoa(int(v)), nil }

type c14HeapCase struct {
	Stream  string     `json:"stream"`
	Globals [][]int    `json:"globals"` // initial elements of each package-level list
	Caps    []int      `json:"caps"`    // capacity of each
	Progs   [][]string `json:"progs"`   // tokens of each translation (append instructions without the observed spare)
}

func c14hvList(xs []sql.SQLObject) string {
	if len(xs) == 0 {
		return "-"
	}
	var ps []string
	for _, x := range xs {
		if x == nil {
			ps = append(ps, "nil")
			continue
		}
		ps = append(ps, strconv.Itoa(int(x.(c14hv))))
	}
	return strings.Join(ps, ".")
}

// c14HeapRun: the programs on real slices and real Select objects. Returns the op line for the model and the answer.
func c14HeapRun(cs c14HeapCase) (op, impl string, err error) {
	defer func() {
		if e := recover(); e != nil {
			err = fmt.Errorf("panic: %v", e)
		}
	}()
	globals := make([][]sql.SQLObject, len(cs.Globals))
	var gspec []string
	for i, g := range cs.Globals {
		s := make([]sql.SQLObject, len(g), cs.Caps[i])
		var ds []string
		for k, x := range g {
			s[k] = c14hv(x)
			ds = append(ds, strconv.Itoa(x))
		}
		globals[i] = s
		d := "-"
		if len(ds) > 0 {
			d = strings.Join(ds, ".")
		}
		gspec = append(gspec, fmt.Sprintf("%s@%d", d, cs.Caps[i]))
	}
	gs := "-"
	if len(gspec) > 0 {
		gs = strings.Join(gspec, "/")
	}
	atoi := func(s string) int { n, _ := strconv.Atoi(s); return n }
	var outs []string
	var toks []string
	for pi, prog := range cs.Progs {
		if pi > 0 {
			toks = append(toks, ";")
		}
		regs := map[int][]sql.SQLObject{}
		plans := map[int]sql.ISelect{}
		var out []string
		// walk the token list; IF chooses a branch and skips the other
		var run func(i int) int
		skip := func(i int) int { // i: first token after IF/ELSE; returns index of the matching ELSE/END
			depth := 0
			for ; i < len(prog); i++ {
				switch {
				case strings.HasPrefix(prog[i], "IF:"):
					depth++
				case prog[i] == "END":
					if depth == 0 {
						return i
					}
					depth--
				case prog[i] == "ELSE" && depth == 0:
					return i
				}
			}
			return i
		}
		emitted := make([]string, len(prog))
		copy(emitted, prog)
		run = func(i int) int {
			for i < len(prog) {
				f := strings.Split(prog[i], ":")
				switch f[0] {
				case "L":
					var xs []int
					if f[3] != "-" {
						for _, x := range strings.Split(f[3], ".") {
							xs = append(xs, atoi(x))
						}
					}
					s := make([]sql.SQLObject, len(xs), len(xs)+atoi(f[2]))
					for k, x := range xs {
						s[k] = c14hv(x)
					}
					regs[atoi(f[1])] = s
				case "P":
					if g := atoi(f[2]); g < len(globals) {
						regs[atoi(f[1])] = globals[g]
					} else {
						delete(regs, atoi(f[1]))
					}
				case "S":
					p := atoi(f[1])
					if plans[p] == nil {
						plans[p] = sql.NewSelect()
					}
					plans[p].Select(regs[atoi(f[2])]...)
				case "G":
					if p := plans[atoi(f[2])]; p != nil && p.GetSelect() != nil {
						regs[atoi(f[1])] = p.GetSelect()
					} else {
						delete(regs, atoi(f[1]))
					}
				case "W":
					if r, ok := regs[atoi(f[1])]; ok && atoi(f[2]) < len(r) {
						r[atoi(f[2])] = c14hv(atoi(f[3]))
					}
				case "M":
					r := regs[atoi(f[1])]
					for k, c := range r {
						if x := int(c.(c14hv)); x%2 == 0 {
							r[k] = c14hv(x + atoi(f[2]))
						}
					}
				case "A":
					src, ok := regs[atoi(f[2])]
					n := append(src, c14hv(atoi(f[3])))
					spare := 0
					if !ok || len(src) == cap(src) {
						spare = cap(n) - len(n)
					}
					regs[atoi(f[1])] = n
					emitted[i] = fmt.Sprintf("A:%s:%s:%s:%d", f[1], f[2], f[3], spare)
				case "C":
					if src, ok := regs[atoi(f[2])]; ok {
						n := make([]sql.SQLObject, len(src))
						copy(n, src)
						regs[atoi(f[1])] = n
					} else {
						delete(regs, atoi(f[1]))
					}
				case "E":
					if p := plans[atoi(f[1])]; p != nil {
						out = append(out, c14hvList(p.GetSelect()))
					} else {
						out = append(out, "-")
					}
				case "IF":
					r, ok := regs[atoi(f[1])]
					hit := false
					if ok {
						for _, c := range r {
							if int(c.(c14hv)) == atoi(f[2]) {
								hit = true
							}
						}
					}
					els := skip(i + 1)
					if hit {
						run(i + 1) // runs up to ELSE
					} else {
						run(els + 1) // runs up to END
					}
					return len(prog) // continuation style: nothing follows END
				case "ELSE", "END":
					return i
				}
				i++
			}
			return i
		}
		run(0)
		toks = append(toks, emitted...)
		if len(out) == 0 {
			outs = append(outs, "_")
		} else {
			outs = append(outs, strings.Join(out, "|"))
		}
	}
	var after []string
	for i, g := range globals {
		full := g[:cap(g)]
		n := 0
		for n < len(full) && full[n] != nil {
			n++
		}
		_ = i
		after = append(after, c14hvList(full[:n]))
	}
	return "c14heap " + gs + " " + strings.Join(toks, " "), strings.Join(outs, ";") + "#" + strings.Join(after, "/"), nil
}

// in Go an `append` instruction inside the branch not taken is never executed: its spare stays unobserved. The model
// does not execute it either; the token needs SOME spare value.
func c14HeapNormalise(tok string) string {
	f := strings.Split(tok, ":")
	if f[0] == "A" && len(f) == 4 {
		return tok + ":0"
	}
	return tok
}

func c14GenHeapProg(r *h.Rng, nGlobals int, depth int) []string {
	var toks []string
	reg := func() int { return r.Intn(5) }
	plan := func() int { return r.Intn(3) }
	xs := func() string {
		n := r.Intn(5)
		if n == 0 {
			return "-"
		}
		var ps []string
		for i := 0; i < n; i++ {
			ps = append(ps, strconv.Itoa(r.Intn(8)))
		}
		return strings.Join(ps, ".")
	}
	for i, n := 0, r.Range(3, 14); i < n; i++ {
		switch r.Intn(14) {
		case 0, 1:
			toks = append(toks, fmt.Sprintf("L:%d:%d:%s", reg(), h.Pick(r, []int{0, 0, 1, 2}), xs()))
		case 2:
			if nGlobals > 0 {
				toks = append(toks, fmt.Sprintf("P:%d:%d", reg(), r.Intn(nGlobals+1)))
			}
		case 3, 4:
			toks = append(toks, fmt.Sprintf("S:%d:%d", plan(), reg()))
		case 5, 6:
			toks = append(toks, fmt.Sprintf("G:%d:%d", reg(), plan()))
		case 7:
			toks = append(toks, fmt.Sprintf("W:%d:%d:%d", reg(), r.Intn(5), r.Intn(8)+20))
		case 8:
			toks = append(toks, fmt.Sprintf("M:%d:%d", reg(), h.Pick(r, []int{10, 100, 1})))
		case 9, 10:
			toks = append(toks, fmt.Sprintf("A:%d:%d:%d", reg(), reg(), r.Intn(8)+40))
		case 11:
			toks = append(toks, fmt.Sprintf("C:%d:%d", reg(), reg()))
		default:
			toks = append(toks, fmt.Sprintf("E:%d", plan()))
		}
	}
	if depth > 0 && r.Chance(35) {
		toks = append(toks, fmt.Sprintf("IF:%d:%d", reg(), r.Intn(8)))
		toks = append(toks, c14GenHeapProg(r, nGlobals, depth-1)...)
		toks = append(toks, "ELSE")
		toks = append(toks, c14GenHeapProg(r, nGlobals, depth-1)...)
		toks = append(toks, "END")
	} else {
		for p := 0; p < 3; p++ {
			toks = append(toks, fmt.Sprintf("E:%d", p))
		}
	}
	return toks
}

func c14GenHeapCase(r *h.Rng) c14HeapCase {
	cs := c14HeapCase{Stream: "heap-model"}
	for i, n := 0, r.Intn(3); i < n; i++ {
		var g []int
		for k, m := 0, r.Intn(5); k < m; k++ {
			g = append(g, r.Intn(8))
		}
		cs.Globals = append(cs.Globals, g)
		cs.Caps = append(cs.Caps, len(g)+h.Pick(r, []int{0, 0, 1, 3}))
	}
	for i, n := 0, r.Range(1, 3); i < n; i++ {
		cs.Progs = append(cs.Progs, c14GenHeapProg(r, len(cs.Globals), 2))
	}
	if r.Chance(30) && len(cs.Globals) > 0 {
		// the seeded shape: the package-level list goes into a plan object, another step patches the plan's list in place
		cs.Progs = [][]string{
			{"P:0:0", "S:0:0", "G:4:0", fmt.Sprintf("M:4:%d", h.Pick(r, []int{10, 100})), "E:0"},
			{"P:0:0", "S:0:0", "E:0"},
		}
		if r.Bool() {
			cs.Progs[0] = []string{"P:0:0", "A:1:0:41", "S:0:1", "E:0"}
			cs.Progs[1] = []string{"P:0:0", "A:1:0:42", "S:0:1", "P:2:0", "A:3:2:43", "S:1:3", "E:0", "E:1"}
		}
	}
	return cs
}

func c14HeapModel(r *h.Result, rng *h.Rng, n int) error {
	r.Stream("heap-model: random programs over column lists (allocate / package-level list / Select(r...) / GetSelect() / r[i]=v / in-place patch / append / make+copy / branch on content / render; 1–3 translations over the same package-level lists; half of them breaking the discipline) on REAL []sql.SQLObject slices in REAL sql.Select objects vs PlanHeap.runSeq / heapAfter (op c14heap); the capacity Go's append chooses is observed and passed to the model")
	var ops, impl []string
	var cases []any
	for i := 0; i < n; i++ {
		cs := c14GenHeapCase(rng)
		op, im, err := c14HeapRun(cs)
		if err != nil {
			return fmt.Errorf("heap-model: %v (case %+v)", err, cs)
		}
		// appends in branches not taken have no observed spare
		f := strings.Fields(op)
		for k := range f {
			f[k] = c14HeapNormalise(f[k])
		}
		op = strings.Join(f, " ")
		r.Case("heap-model:"+op, true)
		r.Count(fmt.Sprintf("heap-model:translations=%d", len(cs.Progs)))
		if strings.Contains(op, " P:") {
			r.Count("heap-model:uses-package-level-list")
		}
		if strings.Contains(op, "IF:") {
			r.Count("heap-model:with-branch")
		}
		if i%61 == 0 {
			r.Sample(cs)
		}
		ops, impl, cases = append(ops, op), append(impl, im), append(cases, cs)
	}
	return r.Compare("heap-model", ops, impl, cases)
}
