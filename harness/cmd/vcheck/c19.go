package main

// C19 — retention settings converge to the configuration and re-applying them is a no-op.
//
// Real code: maintenance.Rotate (ctrl/qryn/maintenance/rotate.go) against fakes.C19Conn.
// Model: Qryn.Ctrl.Rotate.run through the driver op `c19chain` (a chain of runs from the fresh state),
//        heputils.FingerprintLabelsDJBHashPrometheus vs `c19fp`.
// Oracle (does not use the model): see c19Judge.

import (
	"encoding/json"
	"fmt"
	"math"
	"os"
	"regexp"
	"sort"
	"strconv"
	"strings"
	"time"

	"github.com/metrico/qryn/ctrl/qryn/heputils"
	"github.com/metrico/qryn/ctrl/qryn/maintenance"
	"verif/harness/fakes"
	"verif/harness/h"
)

func init() { props["C19"] = c19 }

// ---------------------------------------------------------------- configuration, steps, chains

type c19Tier struct {
	Ns   int64  `json:"ns"`
	Disk string `json:"disk"`
}
type c19Cfg struct {
	Cluster string    `json:"cluster"`
	Dist    bool      `json:"dist"`
	Policy  string    `json:"policy"`
	Days    int       `json:"days"`
	Tiers   []c19Tier `json:"tiers"`
}
type c19Step struct {
	Cfg     c19Cfg `json:"cfg"`
	FailAt  int    `json:"fail_at"` // -1: no fault
	Applied bool   `json:"applied"` // the failing statement takes effect before reporting the error
}
type c19Chain struct {
	Kind  string    `json:"kind"`
	Steps []c19Step `json:"steps"` // run one after the other from the fresh database
}

func (c c19Cfg) enc() string {
	ts := "_"
	if len(c.Tiers) > 0 {
		var p []string
		for _, t := range c.Tiers {
			p = append(p, fmt.Sprintf("%d:%s", t.Ns, h.Hex([]byte(t.Disk))))
		}
		ts = strings.Join(p, ";")
	}
	d := "0"
	if c.Dist {
		d = "1"
	}
	return fmt.Sprintf("%s,%s,%s,%d,%s", h.Hex([]byte(c.Cluster)), d, h.Hex([]byte(c.Policy)), c.Days, ts)
}
func (s c19Step) enc() string {
	f := "n"
	if s.FailAt >= 0 {
		f = "b" + strconv.Itoa(s.FailAt)
		if s.Applied {
			f = "a" + strconv.Itoa(s.FailAt)
		}
	}
	return s.Cfg.enc() + "/" + f
}
func (c c19Chain) op(verbose bool) string {
	p := []string{"c19chain"}
	if verbose {
		p[0] = "c19chainv"
	}
	for _, s := range c.Steps {
		p = append(p, s.enc())
	}
	return strings.Join(p, " ")
}

// ---------------------------------------------------------------- what the oracle knows (the specification side)

var c19SampleTables = []string{"samples_v3", "tempo_traces", "metrics_15s"}
var c19IndexTables = []string{"time_series", "time_series_gin", "tempo_traces_attrs_gin", "tempo_traces_kv"}
var c19Tables = append(append([]string{}, c19SampleTables...), c19IndexTables...)

const c19InitTTL = "init"
const c19InitPolicy = "default"

func c19IsSample(t string) bool {
	for _, x := range c19SampleTables {
		if x == t {
			return true
		}
	}
	return false
}

// the settings rows of type 'rotate' and the tables each one speaks for
type c19Group struct {
	ttl    bool
	tables []string
}

var c19Groups = map[string]c19Group{
	"v3_storage_policy":          {false, []string{"time_series", "time_series_gin", "samples_v3"}},
	"v1_traces_storage_policy":   {false, []string{"tempo_traces", "tempo_traces_attrs_gin", "tempo_traces_kv"}},
	"metrics_15s_storage_policy": {false, []string{"metrics_15s"}},
	"v3_samples_days":            {true, []string{"samples_v3"}},
	"v3_time_series_days":        {true, []string{"time_series", "time_series_gin"}},
	"v1_traces_days":             {true, []string{"tempo_traces"}},
	"tempo_attrs_v1":             {true, []string{"tempo_traces_attrs_gin", "tempo_traces_kv"}},
	"metrics_15s":                {true, []string{"metrics_15s"}},
}

// c19WantTTL: the TTL clause the configuration asks for on a table: one tier move per policy entry at
// max(whole seconds of the duration, minimum of the table class), then the drop after the configured days.
func c19WantTTL(c c19Cfg, table string) string {
	col, min := "date", int64(86400)
	if c19IsSample(table) {
		col, min = "toDateTime(timestamp_ns / 1000000000)", 60
	}
	var parts []string
	for _, t := range c.Tiers {
		sec := t.Ns / 1000000000
		if sec < min {
			sec = min
		}
		e := col + " + toIntervalSecond(" + strconv.FormatInt(sec, 10) + ")"
		if t.Disk != "" {
			e += " TO DISK '" + t.Disk + "'"
		}
		parts = append(parts, e)
	}
	parts = append(parts, col+" + toIntervalDay("+strconv.Itoa(c.Days)+")")
	return strings.Join(parts, ", ")
}

// ---------------------------------------------------------------- running the real code

type c19NopLogger struct{}

func (c19NopLogger) Error(args ...any) {}
func (c19NopLogger) Debug(args ...any) {}
func (c19NopLogger) Info(args ...any)  {}

func c19Rotate(conn *fakes.C19Conn, s c19Step) (ok bool, panicked string) {
	conn.ResetRun(s.FailAt, s.Applied)
	days := make([]maintenance.RotatePolicy, len(s.Cfg.Tiers))
	for i, t := range s.Cfg.Tiers {
		days[i] = maintenance.RotatePolicy{TTL: time.Duration(t.Ns), MoveTo: t.Disk}
	}
	defer func() {
		if r := recover(); r != nil {
			ok, panicked = false, fmt.Sprint(r)
		}
	}()
	err := maintenance.Rotate(conn, s.Cfg.Cluster, s.Cfg.Dist, days, s.Cfg.Days, s.Cfg.Policy, c19NopLogger{})
	return err == nil, ""
}

func c19Val(b *strings.Builder, v string) {
	b.WriteString(strconv.Itoa(len(v)))
	b.WriteByte(':')
	b.WriteString(v)
}

// canonical text of a statement log: byte strings as <decimal length>:<bytes>
func c19LogText(log []fakes.C19Stmt) string {
	var b strings.Builder
	w := func(head string, vals ...string) {
		b.WriteString(head)
		for i, v := range vals {
			if i > 0 {
				b.WriteByte(' ')
			}
			c19Val(&b, v)
		}
		b.WriteByte('\n')
	}
	for _, s := range log {
		switch s.Kind {
		case "R":
			d := 0
			if s.Dist {
				d = 1
			}
			fmt.Fprintf(&b, "R %d %d\n", d, s.Fp)
		case "P":
			w(fmt.Sprintf("P %d ", s.Fp), s.Tp, s.Name, s.Value)
		case "AP":
			w("AP ", s.Table, s.Cluster, s.Value)
		case "AS":
			w("AS ", s.Table, s.Cluster)
		case "AT":
			w("AT ", s.Table, s.Cluster, s.Value)
		default:
			w("X ", s.Value)
		}
	}
	return b.String()
}

// canonical text of the state: markers in the model's fingerprint order (then any other, numerically), tables in
// the model's order (then any other, bytewise)
func c19StateText(c *fakes.C19Conn, keys c19Keys) string {
	var b strings.Builder
	seen := map[uint64]bool{}
	fps := append([]uint64(nil), keys.fps...)
	for _, fp := range keys.fps {
		seen[fp] = true
	}
	var extra []uint64
	for fp := range c.Settings {
		if !seen[fp] {
			extra = append(extra, fp)
		}
	}
	sort.Slice(extra, func(i, j int) bool { return extra[i] < extra[j] })
	for _, fp := range append(fps, extra...) {
		v, _ := c.Marker(fp)
		fmt.Fprintf(&b, "M %d ", fp)
		c19Val(&b, v)
		b.WriteByte('\n')
	}
	seenT := map[string]bool{}
	all := append([]string(nil), keys.tables...)
	for _, t := range keys.tables {
		seenT[t] = true
	}
	var extraT []string
	for _, m := range []map[string]string{c.TTL, c.Policy} {
		for t := range m {
			if !seenT[t] {
				seenT[t] = true
				extraT = append(extraT, t)
			}
		}
	}
	sort.Strings(extraT)
	all = append(all, extraT...)
	for _, t := range all {
		b.WriteString("T ")
		c19Val(&b, t)
		b.WriteByte(' ')
		c19Val(&b, c.TTL[t])
		b.WriteByte('\n')
	}
	for _, t := range all {
		b.WriteString("S ")
		c19Val(&b, t)
		b.WriteByte(' ')
		c19Val(&b, c.Policy[t])
		b.WriteByte('\n')
	}
	return b.String()
}

func c19Fnv(s string) uint64 {
	x := uint64(0xcbf29ce484222325)
	for i := 0; i < len(s); i++ {
		x ^= uint64(s[i])
		x *= 0x100000001b3
	}
	return x
}

// model key order (asked once from the driver): fingerprints and tables in the order the model prints its state
type c19Keys struct {
	fps    []uint64
	tables []string
}

func c19AskKeys() (c19Keys, error) {
	out, err := h.Model([]string{"c19keys"})
	if err != nil {
		return c19Keys{}, err
	}
	var k c19Keys
	parts := strings.Split(out[0], "|")
	if len(parts) != 2 {
		return k, fmt.Errorf("c19keys: unexpected answer %q", out[0])
	}
	for _, f := range strings.Fields(parts[0]) {
		v, err := strconv.ParseUint(f, 10, 64)
		if err != nil {
			return k, err
		}
		k.fps = append(k.fps, v)
	}
	for _, f := range strings.Fields(parts[1]) {
		k.tables = append(k.tables, string(h.UnHex(f)))
	}
	return k, nil
}

// ---------------------------------------------------------------- oracle

var c19SecRe = regexp.MustCompile(`toIntervalSecond\((-?[0-9]+)\)`)

type c19Verdict struct{ key, what string }

// c19MarkerCheck: at this instant, every recorded (non-empty) value of a known group is carried by all its tables.
func c19MarkerCheck(c *fakes.C19Conn) *c19Verdict {
	for fp, rows := range c.Settings {
		if len(rows) == 0 {
			continue
		}
		last := rows[len(rows)-1]
		if last.Tp != "rotate" || last.Value == "" || last.Name == "" {
			continue
		}
		g, ok := c19Groups[last.Name]
		if !ok {
			return &c19Verdict{"C19/unknown-rotate-setting", fmt.Sprintf("settings row type=rotate name=%q (fingerprint %d) is not one of the known retention settings", last.Name, fp)}
		}
		for _, t := range g.tables {
			have := c.Policy[t]
			what := "storage policy"
			if g.ttl {
				have, what = c.TTL[t], "TTL"
			}
			if have != last.Value {
				return &c19Verdict{"C19/marker-without-tables", fmt.Sprintf("setting %q records %q while table %s has %s %q", last.Name, last.Value, t, what, have)}
			}
		}
	}
	return nil
}

// c19Converged: every table carries what the configuration asks for.
func c19Converged(c *fakes.C19Conn, cfg c19Cfg) *c19Verdict {
	for _, t := range c19Tables {
		if want := c19WantTTL(cfg, t); c.TTL[t] != want {
			return &c19Verdict{"", fmt.Sprintf("table %s has TTL %q, configuration asks for %q", t, c.TTL[t], want)}
		}
		if cfg.Policy != "" && c.Policy[t] != cfg.Policy {
			return &c19Verdict{"", fmt.Sprintf("table %s has storage policy %q, configuration asks for %q", t, c.Policy[t], cfg.Policy)}
		}
	}
	return nil
}

func c19ClampCheck(log []fakes.C19Stmt) *c19Verdict {
	for _, s := range log {
		if s.Kind != "AT" {
			continue
		}
		min := int64(86400)
		if c19IsSample(s.Table) {
			min = 60
		}
		for _, m := range c19SecRe.FindAllStringSubmatch(s.Value, -1) {
			v, err := strconv.ParseInt(m[1], 10, 64)
			if err != nil || v < min {
				return &c19Verdict{"C19/clamp-below-minimum", fmt.Sprintf("ALTER TABLE %s MODIFY TTL %q moves after %s s, minimum for this table is %d s", s.Table, s.Value, m[1], min)}
			}
		}
	}
	return nil
}

// one executed step as seen by the correspondence
type c19StepOut struct {
	ok    bool
	n     int
	log   string
	state string
}

func (o c19StepOut) digest() string {
	k := 0
	if o.ok {
		k = 1
	}
	return fmt.Sprintf("%d:%d:%d:%d", k, o.n, c19Fnv(o.log), c19Fnv(o.state))
}

// c19RunChain runs a chain on a fresh fake, judging at every statement and at the end.
// Returns the per-step outputs (for the model comparison) and the verdicts.
func c19RunChain(ch c19Chain, keys c19Keys) ([]c19StepOut, []c19Verdict) {
	conn := fakes.NewC19Conn(c19Tables, c19InitTTL, c19InitPolicy)
	var verdicts []c19Verdict
	add := func(v *c19Verdict, key string) {
		if v == nil {
			return
		}
		if v.key == "" {
			v.key = key
		}
		verdicts = append(verdicts, *v)
	}
	conn.AfterStmt = func(c *fakes.C19Conn, s fakes.C19Stmt) {
		if len(verdicts) == 0 {
			add(c19MarkerCheck(c), "")
		}
		if s.Kind == "X" {
			add(&c19Verdict{"C19/unrecognised-statement", "statement not understood by the fake connection: " + s.Value}, "")
		}
	}
	var outs []c19StepOut
	sameCfg := true
	for i, s := range ch.Steps {
		ok, pan := c19Rotate(conn, s)
		if pan != "" {
			add(&c19Verdict{"C19/panic", "Rotate panicked: " + pan}, "")
		}
		outs = append(outs, c19StepOut{ok, len(conn.Log), c19LogText(conn.Log), c19StateText(conn, keys)})
		add(c19ClampCheck(conn.Log), "")
		if s.FailAt < 0 && !ok {
			add(&c19Verdict{"C19/fault-free-run-fails", "Rotate returned an error although no statement failed"}, "")
		}
		if s.FailAt >= 0 && s.FailAt < len(conn.Log) && ok {
			add(&c19Verdict{"C19/error-swallowed", fmt.Sprintf("statement %d failed but Rotate returned nil", s.FailAt)}, "")
		}
		if i > 0 && s.Cfg.enc() != ch.Steps[0].Cfg.enc() {
			sameCfg = false
		}
		if ok {
			// a run that reported success: everything equals its configuration, and running again alters nothing
			add(c19Converged(conn, s.Cfg), "C19/not-converged:"+ch.Kind)
			if i == len(ch.Steps)-1 {
				before := c19StateText(conn, keys)
				ok2, _ := c19Rotate(conn, c19Step{Cfg: s.Cfg, FailAt: -1})
				for _, st := range conn.Log {
					if st.IsAlter() {
						add(&c19Verdict{"C19/reapply-issues-alter", fmt.Sprintf("second run with unchanged configuration sends ALTER TABLE %s (%s %q)", st.Table, st.Kind, st.Value)}, "")
						break
					}
				}
				if !ok2 || c19StateText(conn, keys) != before {
					add(&c19Verdict{"C19/reapply-changes-state", "second run with unchanged configuration fails or changes the state"}, "")
				}
			}
		}
	}
	// interrupted runs of one configuration followed by a fault-free one end where the uninterrupted run ends
	if n := len(ch.Steps); n > 1 && sameCfg && ch.Steps[n-1].FailAt < 0 && len(outs) == n {
		ref := fakes.NewC19Conn(c19Tables, c19InitTTL, c19InitPolicy)
		c19Rotate(ref, ch.Steps[n-1])
		if want := c19StateText(ref, keys); want != outs[n-1].state {
			add(&c19Verdict{"C19/interrupted-differs", "state after interrupted runs + a fault-free run differs from the state after one uninterrupted run"}, "")
		}
	}
	return outs, verdicts
}

// ---------------------------------------------------------------- generators

var c19Durations = []int64{0, 1, 999999999, int64(time.Second), 59 * int64(time.Second), 60 * int64(time.Second), 61 * int64(time.Second),
	int64(time.Hour), 86399 * int64(time.Second), 86400 * int64(time.Second), 86401 * int64(time.Second), 86400*int64(time.Second) + 999999999,
	30 * 86400 * int64(time.Second), 365 * 86400 * int64(time.Second),
	2147483647 * int64(time.Second), 2147483648 * int64(time.Second), 2147483649 * int64(time.Second), // int32 edge (68 years)
	4294967296 * int64(time.Second), 4294967296*int64(time.Second) + 61*int64(time.Second), // uint32 edge
	200*86400*int64(time.Second) + 999999999, // float64 rounding of Seconds()
	math.MaxInt64, math.MinInt64, -1, -int64(time.Hour)}

var c19Disks = []string{"", "", "cold", "s3_disk", "disk 2", "a%b", "d%d", "100%", "%s%v", "дисk", "x,y", "TO DISK"}
var c19Policies = []string{"", "", "", "tiered", "default", "p%d", "hot and cold", "toDateTime(x)", "полис", "'q'", "a,b"}
var c19Clusters = []string{"", "", "c1", "my-cluster", "cluster with space", "кластер"}
var c19DaysSet = []int{0, 1, 7, 30, 365, 100000, math.MaxInt32, math.MaxInt32 + 1, math.MaxInt64, -1, math.MinInt64}

func c19GenCfg(rng *h.Rng) c19Cfg {
	c := c19Cfg{Cluster: h.Pick(rng, c19Clusters), Policy: h.Pick(rng, c19Policies)}
	switch rng.Intn(3) {
	case 0:
		c.Dist = c.Cluster != "" // what rotateDB passes
	case 1:
		c.Dist = true
	}
	if rng.Chance(70) {
		c.Days = h.Pick(rng, c19DaysSet)
	} else {
		c.Days = rng.Range(1, 4000)
	}
	nt := 0
	if rng.Chance(70) {
		nt = rng.Range(1, 3)
	}
	for i := 0; i < nt; i++ {
		var t c19Tier
		if rng.Chance(65) {
			t.Ns = h.Pick(rng, c19Durations)
		} else {
			t.Ns = int64(rng.Range(0, 4000)) * int64(time.Hour) / int64(1+rng.Intn(3)) // some with sub-second parts
		}
		t.Disk = h.Pick(rng, c19Disks)
		if rng.Chance(10) {
			t.Disk = rng.Ident(8)
		}
		c.Tiers = append(c.Tiers, t)
	}
	return c
}

// c19Mutate: a configuration change as an operator would make it (one or two fields)
func c19Mutate(rng *h.Rng, c c19Cfg) c19Cfg {
	d := c
	d.Tiers = append([]c19Tier(nil), c.Tiers...)
	for k := 0; k < 1+rng.Intn(2); k++ {
		switch rng.Intn(5) {
		case 0:
			d.Days = h.Pick(rng, c19DaysSet)
		case 1:
			d.Policy = h.Pick(rng, c19Policies)
		case 2:
			if len(d.Tiers) > 0 {
				d.Tiers[rng.Intn(len(d.Tiers))].Ns = h.Pick(rng, c19Durations)
			} else {
				d.Tiers = append(d.Tiers, c19Tier{h.Pick(rng, c19Durations), h.Pick(rng, c19Disks)})
			}
		case 3:
			if len(d.Tiers) > 0 {
				d.Tiers = d.Tiers[:len(d.Tiers)-1]
			} else {
				d.Days++
			}
		case 4:
			if len(d.Tiers) > 0 {
				d.Tiers[rng.Intn(len(d.Tiers))].Disk = h.Pick(rng, c19Disks)
			} else {
				d.Days += 7
			}
		}
	}
	return d
}

// ---------------------------------------------------------------- the check

type c19Runner struct {
	r      *h.Result
	keys   c19Keys
	chains []c19Chain
	impl   []string
	// number of disagreements re-run verbosely for a readable record
	detailed int
}

// judge + queue for the model comparison
func (x *c19Runner) run(ch c19Chain) []c19StepOut {
	outs, verdicts := c19RunChain(ch, x.keys)
	for _, v := range verdicts {
		x.r.Violate(v.key, v.what, ch)
	}
	var d []string
	for _, o := range outs {
		d = append(d, o.digest())
	}
	x.chains = append(x.chains, ch)
	x.impl = append(x.impl, strings.Join(d, " "))
	return outs
}

func (x *c19Runner) flush() error {
	if len(x.chains) == 0 {
		return nil
	}
	ops := make([]string, len(x.chains))
	for i, ch := range x.chains {
		ops[i] = ch.op(false)
	}
	model, err := h.Model(ops)
	if err != nil {
		return err
	}
	for i := range ops {
		if model[i] == x.impl[i] {
			continue
		}
		// re-run verbosely for a readable record
		detail := ""
		if x.detailed >= 5 {
			x.r.Disagree("chain:"+x.chains[i].Kind, ops[i], x.impl[i], model[i], map[string]any{"chain": x.chains[i]})
			continue
		}
		x.detailed++
		if mv, err := h.Model([]string{x.chains[i].op(true)}); err == nil {
			outs, _ := c19RunChain(x.chains[i], x.keys)
			ms := strings.Fields(mv[0])
			for j, o := range outs {
				if j >= len(ms) {
					break
				}
				p := strings.Split(ms[j], "|")
				if len(p) != 3 {
					continue
				}
				ml, mst := string(h.UnHex(p[1])), string(h.UnHex(p[2]))
				if ml != o.log || mst != o.state || (p[0] == "1") != o.ok {
					detail = fmt.Sprintf("step %d: impl ok=%v log:\n%s state:\n%s\nmodel ok=%s log:\n%s state:\n%s", j, o.ok, o.log, o.state, p[0], ml, mst)
					break
				}
			}
		}
		x.r.Disagree("chain:"+x.chains[i].Kind, ops[i], x.impl[i], model[i], map[string]any{"chain": x.chains[i], "detail": detail})
	}
	x.chains, x.impl = nil, nil
	return nil
}

func c19StepOK(c c19Cfg) c19Step { return c19Step{Cfg: c, FailAt: -1} }

// exhaustive: every statement of the run of `c` (from the state left by the fault-free runs `start`) as the point
// of failure, in both fault modes; afterwards (1) the same configuration again, (2) a changed configuration.
func (x *c19Runner) exhaustive(start []c19Cfg, c, alt c19Cfg, modes []bool, double bool, rng *h.Rng) error {
	var pre []c19Step
	for _, s := range start {
		pre = append(pre, c19StepOK(s))
	}
	kindPre := "fresh"
	if len(start) > 0 {
		kindPre = "changed"
	}
	base := c19Chain{Kind: "uninterrupted-" + kindPre, Steps: append(append([]c19Step{}, pre...), c19StepOK(c))}
	outs := x.run(base)
	n := outs[len(outs)-1].n
	x.r.Case("cfg:"+c.enc()+"|"+kindPre, n > 8)
	x.r.Count(fmt.Sprintf("statements-per-run:%02d-%02d", n/10*10, n/10*10+9))
	for k := 0; k < n; k++ {
		for _, applied := range modes {
			f := c19Step{Cfg: c, FailAt: k, Applied: applied}
			x.run(c19Chain{Kind: "interrupted-then-same", Steps: append(append([]c19Step{}, pre...), f, c19StepOK(c))})
			x.run(c19Chain{Kind: "interrupted-then-changed", Steps: append(append([]c19Step{}, pre...), f, c19StepOK(alt))})
			x.r.Case(fmt.Sprintf("fault:%s|%s|%d|%v", c.enc(), kindPre, k, applied), true)
			x.r.Count("fault-points")
			if double {
				k2 := rng.Intn(n)
				f2 := c19Step{Cfg: c, FailAt: k2, Applied: rng.Bool()}
				x.run(c19Chain{Kind: "interrupted-twice", Steps: append(append([]c19Step{}, pre...), f, f2, c19StepOK(c))})
			}
		}
	}
	if len(x.chains) > 4000 {
		return x.flush()
	}
	return nil
}

// random change sequence: up to maxLen configurations, each run may be interrupted, the last one is fault-free
func (x *c19Runner) sequence(rng *h.Rng, maxLen int) {
	c := c19GenCfg(rng)
	cfgs := []c19Cfg{c}
	for len(cfgs) < 1+rng.Intn(maxLen) {
		switch {
		case rng.Chance(25) && len(cfgs) >= 2:
			cfgs = append(cfgs, cfgs[len(cfgs)-2]) // change back
		case rng.Chance(20):
			cfgs = append(cfgs, cfgs[len(cfgs)-1]) // unchanged
		case rng.Chance(15):
			cfgs = append(cfgs, c19GenCfg(rng))
		default:
			cfgs = append(cfgs, c19Mutate(rng, cfgs[len(cfgs)-1]))
		}
	}
	var steps []c19Step
	for i, c := range cfgs {
		s := c19StepOK(c)
		if i < len(cfgs)-1 && rng.Chance(60) {
			s.FailAt = rng.Intn(46)
			s.Applied = rng.Chance(30)
		}
		steps = append(steps, s)
	}
	x.run(c19Chain{Kind: "change-sequence", Steps: steps})
	x.r.Case("seq:"+c19Chain{Steps: steps}.op(false), len(steps) > 1)
	x.r.Count(fmt.Sprintf("sequence-length:%d", len(steps)))
}

func c19Fp(r *h.Result, rng *h.Rng, n int) error {
	r.Stream("fp: heputils.FingerprintLabelsDJBHashPrometheus vs Ctrl.Rotate.djb (the key of a settings row)")
	var ops, impl []string
	for name := range c19Groups {
		b := []byte(fmt.Sprintf(`{"type":%s, "name":%s`, strconv.Quote("rotate"), strconv.Quote(name)))
		ops = append(ops, "c19fp "+h.Hex(b))
		impl = append(impl, strconv.FormatUint(uint64(heputils.FingerprintLabelsDJBHashPrometheus(b)), 10))
		r.Case("fp:"+h.Hex(b), true)
	}
	for i := 0; i < n; i++ {
		b := rng.Bytes(48)
		if b == nil {
			b = []byte{}
		}
		ops = append(ops, "c19fp "+h.Hex(b))
		impl = append(impl, strconv.FormatUint(uint64(heputils.FingerprintLabelsDJBHashPrometheus(b)), 10))
		r.Case("fp:"+h.Hex(b), len(b) > 0)
	}
	return r.Compare("fp", ops, impl, nil)
}

func c19(r *h.Result, rng *h.Rng, tier string, replay string) error {
	keys, err := c19AskKeys()
	if err != nil {
		return err
	}
	x := &c19Runner{r: r, keys: keys}
	if replay != "" {
		b, err := os.ReadFile(replay)
		if err != nil {
			return err
		}
		var ck struct {
			Replay c19CChain `json:"replay"`
		}
		if err := json.Unmarshal(b, &ck); err == nil && strings.HasPrefix(ck.Replay.Kind, "cluster:") {
			r.Stream("replay of one cluster chain")
			cx := &c19CRunner{r: r, keys: keys}
			cx.run(ck.Replay)
			return cx.flush()
		}
		var f struct {
			Replay c19Chain `json:"replay"`
		}
		if err := json.Unmarshal(b, &f); err != nil {
			return err
		}
		if len(f.Replay.Steps) == 0 {
			return fmt.Errorf("replay file has no chain")
		}
		r.Stream("replay of one chain")
		x.run(f.Replay)
		r.Case("replay", true)
		return x.flush()
	}
	nCfg, nSeq, nFp := 200, 400, 500
	modes := []bool{false, true}
	double := false
	if tier == "thorough" || tier == "search" {
		nCfg, nSeq, nFp = 5000, 20000, 20000
		double = true
	}
	r.Rule = "configurations: cluster/dist/policy/days/0-3 tiers drawn from boundary sets (0, 1 ns, 59/60/61 s, 1 day ± 1 s, 2^31 ± 1 s, 2^32 s, int64 extremes, negative; disks and policies with %, spaces, quotes, non-ASCII) mixed with uniform values; " +
		"per configuration: EVERY statement of its run as failure point x {fails without effect, fails after taking effect}, from the fresh database and from a database converged on another configuration, each followed by the same and by a changed configuration; " +
		"change sequences of <= 6 configurations (mutations, change-back, unchanged) with random interruptions; non-trivial = a run with a fault point, or a sequence of > 1 run; distinct by (configuration, start, fault). " +
		"cluster-chain / ctrl-rotate: a case = a chain of runs on a fresh cluster of N = 1..3 nodes, each run with its configuration, the node it is connected to and a failure point (statement, set of nodes it still took effect on); compared per run on (ok, parsed statement log, per-node local settings records, TTLs and policies)"
	r.Stream("chain: maintenance.Rotate on fakes.C19Conn vs Ctrl.Rotate.run — per run: ok flag, parsed statement log, state {settings marker per group, TTL and storage policy per table}")
	if err := c19Fp(r, rng.Fork(), nFp); err != nil {
		return err
	}
	// fixed corpus first: the scenarios that were defects of the pinned tree
	day := 86400 * int64(time.Second)
	a := c19Cfg{Days: 7, Tiers: []c19Tier{{3 * day, "cold"}}}
	b := c19Cfg{Days: 30, Tiers: []c19Tier{{3 * day, "cold"}}}
	corpus := []struct {
		start  []c19Cfg
		c, alt c19Cfg
	}{
		{nil, c19Cfg{Days: 7, Policy: "tiered"}, c19Cfg{Days: 8, Policy: "tiered"}},
		{[]c19Cfg{a}, b, a},
		{nil, c19Cfg{Days: 7, Tiers: []c19Tier{{2147483648 * int64(time.Second), "cold"}}}, a},
		{nil, c19Cfg{Days: 7, Tiers: []c19Tier{{3 * day, "a%b"}}}, a},
		{nil, c19Cfg{Days: 7, Cluster: "c1", Dist: true, Policy: "toDateTime(timestamp_ns / 1000000000) + toIntervalDay(7)"}, a},
	}
	g := rng.Fork()
	for _, c := range corpus {
		if err := x.exhaustive(c.start, c.c, c.alt, modes, double, g); err != nil {
			return err
		}
	}
	for i := 0; i < nCfg; i++ {
		c := c19GenCfg(g)
		var start []c19Cfg
		alt := c19Mutate(g, c)
		if i%2 == 1 {
			// from a database converged on a neighbouring configuration; afterwards changed back to it
			start = []c19Cfg{c19Mutate(g, c)}
			alt = start[0]
		}
		if c.Policy != "" {
			r.Count("cfg:with-storage-policy")
		} else {
			r.Count("cfg:without-storage-policy")
		}
		if c.Cluster != "" {
			r.Count("cfg:clustered")
		}
		if c.Dist {
			r.Count("cfg:distributed")
		}
		r.Count(fmt.Sprintf("cfg:tiers=%d", len(c.Tiers)))
		for _, t := range c.Tiers {
			s := t.Ns / 1000000000
			switch {
			case s < 60:
				r.Count("tier:below-60s")
			case s < 86400:
				r.Count("tier:60s..1d")
			case s <= math.MaxInt32:
				r.Count("tier:1d..int32")
			default:
				r.Count("tier:beyond-int32")
			}
		}
		if i < 6 {
			r.Sample(map[string]any{"stream": "chain", "configuration": c, "start": start, "then": alt})
		}
		// thorough: all fault points for every configuration in the plain mode, the second mode for one in five
		m := modes
		if nCfg > 1000 && i%5 != 0 {
			m = modes[:1]
		}
		if err := x.exhaustive(start, c, alt, m, double && i%10 == 0, g); err != nil {
			return err
		}
	}
	if err := x.flush(); err != nil {
		return err
	}
	g = rng.Fork()
	for i := 0; i < nSeq; i++ {
		x.sequence(g, 6)
		if len(x.chains) > 4000 {
			if err := x.flush(); err != nil {
				return err
			}
		}
	}
	if err := x.flush(); err != nil {
		return err
	}
	if err := c19Cluster(r, rng.Fork(), tier, keys); err != nil {
		return err
	}
	if err := c19CtrlRotate(r, rng.Fork(), tier, keys); err != nil {
		return err
	}
	r.Exhaustive = true
	r.Notes = append(r.Notes, "exhaustive = per generated configuration every statement of the run was taken as the failure point (both fault modes in the quick tier); the set of configurations is sampled")
	return nil
}
