package main

import (
	"context"
	"database/sql/driver"
	"fmt"
	"sort"
	"strconv"
	"strings"
	"time"

	"github.com/metrico/qryn/reader/logql/logql_transpiler_v2/shared"
	"github.com/metrico/qryn/reader/model"
	traceql_parser "github.com/metrico/qryn/reader/traceql/parser"
	traceql_transpiler "github.com/metrico/qryn/reader/traceql/transpiler"
	"github.com/metrico/qryn/reader/traceql/transpiler/clickhouse_transpiler"
	sql "github.com/metrico/qryn/reader/utils/sql_select"
	"verif/harness/fakes12"
	"verif/harness/h"
)

// ---------------------------------------------------------------------------------------------------------------
// C11, whole statements: the REAL statement of Plan(script).Process(ctx) (index search, grouping, &&/||, LIMIT, the
// join with the span table, ORDER BY, LIMIT) evaluated by Sql.SemJ on a generated index + span table and judged
// against TraceQL.SemWhole; the real portion loop over a database answered by the same semantics; the real tag
// statements; the real parser against the grammar model.

type tqSpanRow struct {
	Trace, Span string
	Ts, Dur     int64
}

func (s tqSpanRow) ser() string {
	return strings.Join([]string{hx(s.Trace), hx(s.Span), fmt.Sprint(s.Ts), fmt.Sprint(s.Dur)}, ":")
}

func serSpans(rows []tqSpanRow) string {
	if len(rows) == 0 {
		return "-"
	}
	ss := make([]string, len(rows))
	for i, a := range rows {
		ss[i] = a.ser()
	}
	return strings.Join(ss, ";")
}

type tqDb2Opts struct {
	consistent bool // every index span has exactly its row in the span table
	maxTraces  int
}

// genTraceDb2: index rows aimed at the query (as genTraceDb) over more traces, start times drawn from a small pool so
// that traces tie on recency, and the span table: the rows of the indexed spans, spans that only the span table has
// (older and newer than the indexed ones: the start of the trace), traces that only the span table has
func genTraceDb2(r *h.Rng, c tqctx, v tqVocab, o tqDb2Opts) ([]tqAttrRow, []tqSpanRow) {
	var rows []tqAttrRow
	var spans []tqSpanRow
	width := min64(c.To-c.From, 1<<40)
	var pool []int64
	for i := 0; i < 3; i++ {
		pool = append(pool, c.From+int64(r.Intn(int(width))))
	}
	nTraces := r.Range(1, o.maxTraces)
	for t := 0; t < nTraces; t++ {
		trace := fmt.Sprintf("t%d", t)
		nSpans := r.Range(1, 3)
		for s := 0; s < nSpans; s++ {
			span := fmt.Sprintf("s%d", s)
			if r.Chance(50) {
				span = fmt.Sprintf("s%d_%d", t, s) // otherwise: the same span id in several traces
			}
			ts := c.From + int64(r.Intn(int(width)))
			if r.Chance(45) {
				ts = h.Pick(r, pool)
			} else if r.Chance(15) {
				ts = h.Pick(r, []int64{c.From - 1, c.From, c.To - 1, c.To, c.To + 1, c.From - 86400e9})
			}
			date := time.Unix(0, ts).UTC().Format("2006-01-02")
			if r.Chance(3) {
				date = time.Unix(0, ts).UTC().Add(h.Pick(r, []time.Duration{-48 * time.Hour, 96 * time.Hour})).Format("2006-01-02")
			}
			dur := h.Pick(r, v.durs)
			if dur < 0 {
				dur = 0
			}
			var witnessed []tqAttrRow
			for _, ti := range v.terms {
				if !r.Chance(60) {
					continue
				}
				val, d, isDur := ti.witness(r)
				if isDur {
					dur = d
					continue
				}
				witnessed = append(witnessed, tqAttrRow{Key: ti.key, Val: val})
			}
			for _, w := range witnessed {
				rows = append(rows, tqAttrRow{Date: date, Key: w.Key, Val: w.Val, Trace: trace, Span: span, Ts: ts, Dur: dur})
			}
			nAttrs := r.Range(1, 2)
			for a := 0; a < nAttrs; a++ {
				val := h.Pick(r, v.strs)
				if r.Chance(45) {
					val = h.Pick(r, v.nums)
				}
				rows = append(rows, tqAttrRow{Date: date, Key: h.Pick(r, v.keys), Val: val, Trace: trace, Span: span, Ts: ts, Dur: dur})
			}
			if o.consistent || !r.Chance(8) {
				spans = append(spans, tqSpanRow{Trace: trace, Span: span, Ts: ts, Dur: dur})
				if !o.consistent && r.Chance(4) {
					spans = append(spans, tqSpanRow{Trace: trace, Span: span, Ts: ts, Dur: dur}) // stored twice
				}
			}
		}
		if r.Chance(40) { // spans without index rows: they move the start of the trace
			spans = append(spans, tqSpanRow{Trace: trace, Span: fmt.Sprintf("x%d", t), Ts: h.Pick(r, []int64{c.From - 5, c.From + 1, pool[0] - 7, c.To + 3}), Dur: 1})
		}
	}
	if !o.consistent || r.Chance(30) {
		for k := r.Intn(3); k > 0; k-- { // traces of the span table only (they count for `{}`)
			spans = append(spans, tqSpanRow{Trace: fmt.Sprintf("u%d", k), Span: "s0", Ts: h.Pick(r, append(pool, c.To, c.From, c.To-1)), Dur: 2})
		}
	}
	for i := len(rows) - 1; i > 0; i-- {
		j := r.Intn(i + 1)
		rows[i], rows[j] = rows[j], rows[i]
	}
	for i := len(spans) - 1; i > 0; i-- {
		j := r.Intn(i + 1)
		spans[i], spans[j] = spans[j], spans[i]
	}
	return rows, spans
}

// genWholeQuery: the shapes the whole-plan theorems are about — {}, single selectors with mixed and/or without
// parentheses, aggregators, chains
func genWholeQuery(r *h.Rng) string {
	switch {
	case r.Chance(8):
		return "{}"
	case r.Chance(25):
		var pool []string
		n := r.Range(3, 5)
		var sb strings.Builder
		for i := 0; i < n; i++ {
			if i > 0 {
				sb.WriteString(h.Pick(r, []string{" && ", " || "}))
			}
			if r.Chance(20) {
				sb.WriteString("(" + tqAttrExp(r, 1, &pool) + ")")
			} else {
				sb.WriteString(tqTerm(r))
			}
		}
		q := "{" + sb.String() + "}"
		if r.Chance(20) {
			q += tqAgg(r)
		}
		return q
	}
	return genTraceQL(r, 3, 2, 0)
}

func wholeFeature(query string, s *traceql_parser.TraceQLScript) string {
	if s.Head.AttrSelector == nil && s.Tail == nil {
		return "all-traces"
	}
	return scriptFeature(s)
}

type tqWholeCase struct {
	Query string      `json:"query"`
	Ctx   tqctx       `json:"ctx"`
	Db    []tqAttrRow `json:"db"`
	Spans []tqSpanRow `json:"spans"`
	Seed  uint64      `json:"seed,omitempty"`
	Cx    int64       `json:"complexity,omitempty"`
	Key   string      `json:"key,omitempty"`
	Kind  string      `json:"kind,omitempty"`
}

func diffReason(a string) string {
	f := strings.Fields(a)
	if len(f) >= 2 {
		return f[1]
	}
	return "differ"
}

// c11Whole: the whole real statement
func c11Whole(r *h.Rng, res *h.Result, n int, replay *tqWholeCase) error {
	res.Stream("whole: the REAL statement of Plan(script).Process(ctx) — object tree read by reflection, re-rendered by the model renderer to the real bytes — evaluated by Sql.SemJ (CTEs, GROUP BY/HAVING, ORDER BY … DESC, LIMIT, ARRAY JOIN, ANY LEFT JOIN with the span table) on a generated attribute index + span table and judged against TraceQL.SemWhole: index_grouped is a choice of the limit most recent described traces (recency = newest selected span; ties free), span arrays are selected spans, the rows are `assemble` of it; the model plan likewise (driver ops c11whole / c11wholem). Generators: {}, equal recency, limit </=/> matches, mixed and/or without parentheses, chains, aggregators; span table with missing / duplicate / index-less spans")
	var ops, mops []string
	var cases []tqWholeCase
	var feats []string
	add := func(query string, c tqctx, rows []tqAttrRow, spans []tqSpanRow) bool {
		sel, text, script, err := implTraceSel(query, c)
		if err != nil || script == nil {
			return false
		}
		ser, serr := serTraceQL(script)
		if serr != nil {
			return false
		}
		if rows == nil {
			rows, spans = genTraceDb2(r, c, tqCollectVocab(script), tqDb2Opts{consistent: r.Chance(60), maxTraces: 7})
		}
		ast, aerr := serRealSelect(sel)
		if aerr != nil {
			res.Count("whole:real-ast-unreadable")
			res.Sample(map[string]string{"stream": "whole", "query": query, "error": aerr.Error()})
			return false
		}
		ops = append(ops, "c11whole "+c.ser()+" "+ser+" "+serDb(rows)+" "+serSpans(spans)+" "+ast+" "+h.Hex([]byte(text)))
		mops = append(mops, "c11wholem "+c.ser()+" "+ser+" "+serDb(rows)+" "+serSpans(spans))
		cases = append(cases, tqWholeCase{Query: query, Ctx: c, Db: rows, Spans: spans, Kind: "whole"})
		feats = append(feats, wholeFeature(query, script))
		return true
	}
	if replay != nil {
		if !add(replay.Query, replay.Ctx, replay.Db, replay.Spans) {
			return fmt.Errorf("replay case is not planned by the implementation")
		}
	} else {
		for i := 0; i < n; i++ {
			for try := 0; try < 30; try++ {
				c := genTqCtx(r)
				c.RndMax, c.RndI, c.Cached = 0, 0, nil
				c.Limit = h.Pick(r, []int64{1, 1, 2, 2, 3, 5, 20})
				if add(genWholeQuery(r), c, nil, nil) {
					break
				}
			}
		}
	}
	for pass, list := range [][]string{ops, mops} {
		ans, err := h.Model(list)
		if err != nil {
			return err
		}
		name := []string{"whole", "whole-model"}[pass]
		for i, a := range ans {
			c := cases[i]
			switch {
			case strings.HasPrefix(a, "OK"):
				res.Count(name + ":agree")
				if pass == 0 {
					f := strings.Fields(a)
					nontrivial := len(f) == 4 && f[3] != "rows:0"
					res.Case("whole:"+c.Query+fmt.Sprint(c.Ctx, len(c.Db), len(c.Spans)), nontrivial)
					res.Count("whole:feature:" + feats[i])
					if len(f) == 4 {
						k, _ := strconv.Atoi(strings.TrimPrefix(f[1], "kept:"))
						m, _ := strconv.Atoi(strings.TrimPrefix(f[2], "described:"))
						switch {
						case m == 0:
							res.Count("whole:limit:no-match")
						case int64(m) < c.Ctx.Limit:
							res.Count("whole:limit:above-matches")
						case int64(m) == c.Ctx.Limit:
							res.Count("whole:limit:equals-matches")
						default:
							res.Count("whole:limit:below-matches")
						}
						_ = k
					}
				}
			case strings.HasPrefix(a, "ERR"):
				res.Count(name + ":model-error")
			case strings.HasPrefix(a, "BADAST"):
				res.Disagree("whole-ast", "c11whole "+c.Query, "real text", "the model renderer does not reproduce the real text from the real object tree", c)
			default:
				res.Count(name + ":differ")
				key := "C11/whole-statement/"
				if pass == 1 {
					key = "C11/whole-model/"
				}
				res.Violate(key+diffReason(a)+"/"+feats[i],
					fmt.Sprintf("the whole statement for %q does not return the limit most recent described traces with their spans (%s)", c.Query, c11cut(a, 600)),
					map[string]any{"kind": "whole", "case": c, "answer": c11cut(a, 2000)})
			}
		}
	}
	return nil
}

func c11cut(s string, n int) string {
	if len(s) > n {
		return s[:n] + "…"
	}
	return s
}

// ---------------------------------------------------------------------------------------------------------------
// portions: the real search loop over a database that answers with Sql.SemJ

func tqctxOf(p *shared.PlannerContext, base tqctx) tqctx {
	c := base
	c.From, c.To = p.From.UnixNano(), p.To.UnixNano()
	c.RndMax, c.RndI = p.RandomFilter.Max, p.RandomFilter.I
	c.Cached = append([]string(nil), p.CachedTraceIds...)
	return c
}

func parseOuts(s string) ([][]driver.Value, error) {
	if s == "-" {
		return nil, nil
	}
	var rows [][]driver.Value
	for _, o := range strings.Split(s, ";") {
		f := strings.Split(o, ":")
		if len(f) != 5 {
			return nil, fmt.Errorf("row %q", o)
		}
		ints := func(x string) []int64 {
			var r []int64
			if x == "" {
				return r
			}
			for _, y := range strings.Split(x, ",") {
				v, _ := strconv.ParseInt(y, 10, 64)
				r = append(r, v)
			}
			return r
		}
		var sp []string
		if f[1] != "-" {
			sp = strings.Split(f[1], ",")
		}
		st, _ := strconv.ParseInt(f[4], 10, 64)
		rows = append(rows, []driver.Value{f[0], sp, ints(f[2]), ints(f[3]), st, 1.5, "svc", "op"})
	}
	return rows, nil
}

func serInfos(infos []model.TraceInfo) string {
	if len(infos) == 0 {
		return "-"
	}
	var out []string
	for _, t := range infos {
		var sp, ds, ts []string
		for _, s := range t.SpanSet.Spans {
			sp = append(sp, s.SpanID)
			d := s.DurationNanos
			if d == "n/a" {
				d = "-1"
			}
			ds = append(ds, d)
			ts = append(ts, s.StartTimeUnixNano)
		}
		spans := "-"
		if len(sp) > 0 {
			spans = strings.Join(sp, ",")
		}
		out = append(out, t.TraceID+":"+spans+":"+strings.Join(ds, ",")+":"+strings.Join(ts, ",")+":"+t.StartTimeUnixNano)
	}
	return strings.Join(out, ";")
}

var c11LoopDB *fakes12.ReaderDB

// c11RunLoop: traceql_transpiler.Plan(script).Process(ctx) — complexity evaluation, then the simple request or the
// portion loop; every statement is answered by the driver (Sql.SemJ of the model plan for the context the loop has
// set, whose text must be the text the loop sent)
func c11RunLoop(res *h.Result, cs tqWholeCase) (final string, stmts int, err error) {
	if c11LoopDB == nil {
		c11LoopDB = fakes12.NewReaderDB()
	}
	db := c11LoopDB
	script, perr := traceql_parser.Parse(cs.Query)
	if perr != nil {
		return "", 0, perr
	}
	ser, serr := serTraceQL(script)
	if serr != nil {
		return "", 0, serr
	}
	proc, perr := traceql_transpiler.Plan(script)
	if perr != nil {
		return "", 0, perr
	}
	ctx := cs.Ctx.planner()
	ctx.Ctx = context.Background()
	ctx.CHDb = db.Session()
	nq := 0
	var inner error
	db.ResetLog()
	db.SetScript(fakes12.Script{Match: func(q string) (fakes12.Answer, bool) {
		nq++
		if nq == 1 {
			return fakes12.Rows([]string{"c"}, []driver.Value{cs.Cx}), true
		}
		snap := tqctxOf(ctx, cs.Ctx)
		// the statement the loop sent, as the object tree of a fresh real translation for the context the loop has set
		// (that a re-executed plan renders what a fresh one renders is C14's business): the database evaluates THAT tree
		stmtOp := "c11stmt " + snap.ser() + " " + ser + " " + serDb(cs.Db) + " " + serSpans(cs.Spans) + " " + fmt.Sprint(cs.Seed%1000000)
		if fsel, ftext, _, ferr := implTraceSel(cs.Query, snap); ferr == nil && ftext == q {
			if ast, aerr := serRealSelect(fsel); aerr == nil {
				stmtOp = "c11stmtreal " + snap.ser() + " " + serDb(cs.Db) + " " + serSpans(cs.Spans) + " " + fmt.Sprint(cs.Seed%1000000) + " " + ast + " " + h.Hex([]byte(q))
				res.Count("portions:real-statement-evaluated")
			}
		} else {
			res.Count("portions:model-statement-evaluated")
		}
		ans, merr := h.Model([]string{stmtOp, "c11plan " + snap.ser() + " " + ser})
		cols := []string{"trace_id", "span_id", "duration", "timestamp_ns", "start_time_unix_nano", "duration_ms", "root_service_name", "root_trace_name"}
		if merr != nil || !strings.HasPrefix(ans[0], "ROWS ") {
			if inner == nil {
				inner = fmt.Errorf("model: %v %v", merr, ans)
			}
			return fakes12.Rows(cols), true
		}
		if ans[1] != h.Hex([]byte(q)) {
			res.Disagree("portions-text", "c11plan "+cs.Query, h.Hex([]byte(q)), ans[1], map[string]any{"case": cs, "portion": nq - 1, "ctx": snap})
		}
		rows, rerr := parseOuts(strings.TrimPrefix(ans[0], "ROWS "))
		if rerr != nil && inner == nil {
			inner = rerr
		}
		a := fakes12.Rows(cols)
		a.Rows = rows
		return a, true
	}})
	var infos []model.TraceInfo
	func() {
		defer func() {
			if e := recover(); e != nil {
				err = fmt.Errorf("panic: %v", e)
			}
		}()
		ch, e := proc.Process(ctx)
		if e != nil {
			err = e
			return
		}
		for part := range ch {
			infos = append(infos, part...)
		}
	}()
	if err == nil {
		err = inner
	}
	return serInfos(infos), nq - 1, err
}

func canonOuts(s string) string {
	if s == "-" || s == "" {
		return "-"
	}
	var rows []string
	for _, o := range strings.Split(s, ";") {
		f := strings.Split(o, ":")
		if len(f) == 5 {
			type sp struct{ id, ts string }
			ids, tss := strings.Split(f[1], ","), strings.Split(f[3], ",")
			var l []sp
			for i := range ids {
				t := ""
				if i < len(tss) {
					t = tss[i]
				}
				l = append(l, sp{ids[i], t})
			}
			sort.Slice(l, func(i, j int) bool { return l[i].id+l[i].ts < l[j].id+l[j].ts })
			var a, b []string
			for _, x := range l {
				a, b = append(a, x.id), append(b, x.ts)
			}
			o = f[0] + ":" + strings.Join(a, ",") + "::" + strings.Join(b, ",") + ":" + f[4]
		}
		rows = append(rows, o)
	}
	sort.Strings(rows)
	return strings.Join(rows, ";")
}

func c11Portions(r *h.Rng, res *h.Result, n int, replay *tqWholeCase) error {
	res.Stream("portions: traceql_transpiler.Plan(script).Process(ctx) — the real complexity evaluation, SimpleRequestProcessor or the real ComplexRequestProcessor loop with 1, 2, 3, 7 portions — over a scripted database that answers every statement with Sql.SemJ of the model plan for the context the loop has set (cityHash64(trace_id) % N and unhex('id') as computed columns of the index, hash from the case seed); the text the loop sends must be the model's; the final result is judged against TraceQL.SemWhole on the whole database (limit most recent described traces, their spans) and compared with TraceQL.portionLoop (driver ops c11stmt, c11plan, c11judge, c11loop)")
	run := func(cs tqWholeCase) error {
		script, err := traceql_parser.Parse(cs.Query)
		if err != nil {
			return nil
		}
		ser, err := serTraceQL(script)
		if err != nil {
			return nil
		}
		final, stmts, lerr := c11RunLoop(res, cs)
		if lerr != nil {
			res.Count("portions:process-error")
			return nil
		}
		ans, err := h.Model([]string{
			"c11judge " + cs.Ctx.ser() + " " + ser + " " + serDb(cs.Db) + " " + serSpans(cs.Spans) + " " + final,
			"c11loop " + cs.Ctx.ser() + " " + ser + " " + serDb(cs.Db) + " " + serSpans(cs.Spans) + " " + fmt.Sprint(cs.Seed%1000000) + " " + fmt.Sprint(cs.Cx)})
		if err != nil {
			return err
		}
		res.Count(fmt.Sprintf("portions:statements=%d", stmts))
		res.Case("portions:"+cs.Query+fmt.Sprint(cs.Ctx, cs.Cx, cs.Seed, len(cs.Db)), stmts >= 2 && final != "-")
		feat := wholeFeature(cs.Query, script)
		if strings.HasPrefix(ans[0], "OK") {
			res.Count("portions:result-ok")
		} else {
			res.Count("portions:result-differs")
			res.Violate("C11/portions/"+diffReason(ans[0])+"/"+feat,
				fmt.Sprintf("the search loop over %d statement(s) for %q does not return the limit most recent described traces with their spans (%s)", stmts, cs.Query, c11cut(ans[0], 500)),
				map[string]any{"kind": "portions", "case": cs, "answer": c11cut(ans[0], 2000), "result": c11cut(final, 2000)})
		}
		if strings.HasPrefix(ans[1], "OK ") {
			if canonOuts(strings.TrimPrefix(ans[1], "OK ")) != canonOuts(final) {
				res.Disagree("portions-model", "c11loop "+cs.Query, canonOuts(final), canonOuts(strings.TrimPrefix(ans[1], "OK ")), cs)
			}
		} else if strings.HasPrefix(ans[1], "DIFF") {
			res.Violate("C11/portions-model/"+diffReason(ans[1])+"/"+feat,
				fmt.Sprintf("TraceQL.portionLoop for %q does not return the limit most recent described traces (%s)", cs.Query, c11cut(ans[1], 500)),
				map[string]any{"kind": "portions", "case": cs, "answer": c11cut(ans[1], 2000)})
		}
		return nil
	}
	if replay != nil {
		return run(*replay)
	}
	for i := 0; i < n; i++ {
		for try := 0; try < 30; try++ {
			c := genTqCtx(r)
			c.RndMax, c.RndI, c.Cached = 0, 0, nil
			c.Limit = h.Pick(r, []int64{1, 1, 2, 2, 3, 5})
			query := genWholeQuery(r)
			_, _, script, err := implTraceSel(query, c)
			if err != nil || script == nil {
				continue
			}
			if _, serr := serTraceQL(script); serr != nil {
				continue
			}
			rows, spans := genTraceDb2(r, c, tqCollectVocab(script), tqDb2Opts{consistent: true, maxTraces: 7})
			np := h.Pick(r, []int{1, 2, 3, 7, 2, 3})
			cs := tqWholeCase{Query: query, Ctx: c, Db: rows, Spans: spans, Seed: r.U64(), Kind: "portions",
				Cx: int64(np)*10000000 - int64(r.Intn(9999999))}
			if r.Chance(8) {
				cs.Cx = int64(r.Intn(10000000))
			}
			res.Count(fmt.Sprintf("portions:N=%d", (cs.Cx+9999999)/10000000))
			if err := run(cs); err != nil {
				return err
			}
			break
		}
	}
	return nil
}

// ---------------------------------------------------------------------------------------------------------------
// tag names / tag values: the real statements evaluated

func c11TagSem(r *h.Rng, res *h.Result, n int, replay *tqWholeCase) error {
	res.Stream("tagsem: the REAL statements of PlanTagsV2 / PlanValuesV2 (object tree read by reflection, re-rendered to the real bytes) evaluated by Sql.SemG on a generated attribute index and compared with TraceQL.tagKeys / tagValues (keys / values of the index rows inside the window that belong to a span id selected by the conditions; ascending and cut at a positive limit) (driver op c11tagsem)")
	var ops []string
	var cases []tqWholeCase
	add := func(kind, query string, c tqctx, key string, rows []tqAttrRow) {
		var sel sql.ISelect
		var text string
		var script *traceql_parser.TraceQLScript
		var err error
		func() {
			defer func() {
				if rec := recover(); rec != nil {
					err = fmt.Errorf("panic: %v", rec)
				}
			}()
			script, err = traceql_parser.Parse(query)
			if err != nil {
				script = nil
				return
			}
			var p shared.SQLRequestPlanner
			if kind == "tags" {
				p, err = clickhouse_transpiler.PlanTagsV2(script)
			} else {
				p, err = clickhouse_transpiler.PlanValuesV2(script, key)
			}
			if err != nil {
				return
			}
			sel, err = p.Process(c.planner())
			if err != nil {
				return
			}
			text, err = sel.String(sql.DefaultCtx())
		}()
		if script == nil || err != nil || script.Head.AttrSelector == nil {
			return
		}
		ser, serr := serTraceQL(script)
		if serr != nil {
			return
		}
		if rows == nil {
			rows, _ = genTraceDb2(r, c, tqCollectVocab(script), tqDb2Opts{consistent: true, maxTraces: 4})
		}
		ast, aerr := serRealSelect(sel)
		if aerr != nil {
			res.Count("tagsem:real-ast-unreadable")
			return
		}
		k := "!"
		if kind == "values" {
			k = h.Hex([]byte(key))
		}
		ops = append(ops, "c11tagsem "+c.ser()+" "+ser+" "+serDb(rows)+" "+ast+" "+h.Hex([]byte(text))+" "+k)
		cases = append(cases, tqWholeCase{Query: query, Ctx: c, Db: rows, Key: key, Kind: "tagsem-" + kind})
	}
	if replay != nil {
		add(strings.TrimPrefix(replay.Kind, "tagsem-"), replay.Query, replay.Ctx, replay.Key, replay.Db)
	} else {
		for i := 0; i < n; i++ {
			query := tqSelector(r, 2)
			c := genTqCtx(r)
			c.RndMax, c.RndI, c.Cached = 0, 0, nil
			c.Limit = h.Pick(r, []int64{0, 1, 2, 3, 20, 100})
			add("tags", query, c, "", nil)
			script, err := traceql_parser.Parse(query)
			if err != nil {
				continue
			}
			v := tqCollectVocab(script)
			add("values", query, c, h.Pick(r, v.keys), nil)
		}
	}
	ans, err := h.Model(ops)
	if err != nil {
		return err
	}
	for i, a := range ans {
		c := cases[i]
		switch {
		case strings.HasPrefix(a, "OK"):
			res.Count(c.Kind + ":agree")
			res.Case(c.Kind+c.Query+fmt.Sprint(c.Ctx, len(c.Db), c.Key), !strings.Contains(a, "spec:-"))
		case strings.HasPrefix(a, "SKIP"):
			res.Count(c.Kind + ":skip")
		case strings.HasPrefix(a, "BADAST"):
			res.Disagree("tagsem-ast", "c11tagsem "+c.Query, "real text", "the model renderer does not reproduce the real text from the real object tree", c)
		default:
			res.Count(c.Kind + ":differ")
			res.Violate("C11/"+c.Kind+"-differ", fmt.Sprintf("the %s statement for %q does not return the attribute keys / values of the selected spans (%s)", c.Kind, c.Query, c11cut(a, 400)),
				map[string]any{"kind": "tagsem", "case": c, "answer": c11cut(a, 2000)})
		}
	}
	return nil
}

// c11TagsAPI: the request processors of traceql_transpiler.PlanTagsV2 / PlanValuesV2: no query, a simple request, a
// request estimated as complex — the statement that reaches the database must be the model's
func c11TagsAPI(r *h.Rng, res *h.Result, n int) error {
	res.Stream("tagsapi: traceql_transpiler.PlanTagsV2 / PlanValuesV2 → Process over a scripted database (no query; complexity below / above the threshold): the statement sent must be TraceQL.planTags / planValues of the query, resp. of {} — all tag names / all values of the requested key — when there is no query or the request is complex")
	if c11LoopDB == nil {
		c11LoopDB = fakes12.NewReaderDB()
	}
	db := c11LoopDB
	var ops, impl []string
	var cases []any
	for i := 0; i < n; i++ {
		query := tqSelector(r, 1)
		if r.Chance(25) {
			query = ""
		}
		key := h.Pick(r, []string{"a", "http.status", "k'ey", "name"})
		kind := h.Pick(r, []string{"tags", "values"})
		complex := r.Chance(40)
		c := genTqCtx(r)
		c.RndMax, c.RndI, c.Cached = 0, 0, nil
		var script *traceql_parser.TraceQLScript
		if query != "" {
			var err error
			script, err = traceql_parser.Parse(query)
			if err != nil {
				continue
			}
		}
		var proc shared.GenericTraceRequestProcessor[string]
		var err error
		func() {
			defer func() {
				if e := recover(); e != nil {
					err = fmt.Errorf("panic: %v", e)
				}
			}()
			if kind == "tags" {
				proc, err = traceql_transpiler.PlanTagsV2(script)
			} else {
				proc, err = traceql_transpiler.PlanValuesV2(script, key)
			}
		}()
		if err != nil {
			res.Count("tagsapi:plan-error")
			continue
		}
		ctx := c.planner()
		ctx.Ctx = context.Background()
		ctx.CHDb = db.Session()
		var sent []string
		db.ResetLog()
		db.SetScript(fakes12.Script{Match: func(q string) (fakes12.Answer, bool) {
			sent = append(sent, q)
			if script != nil && len(sent) == 1 {
				cx := int64(5)
				if complex {
					cx = 10000000 + int64(r.Intn(5))
				}
				return fakes12.Rows([]string{"c"}, []driver.Value{cx}), true
			}
			return fakes12.Rows([]string{"x"}), true
		}})
		func() {
			defer func() {
				if e := recover(); e != nil {
					err = fmt.Errorf("panic: %v", e)
				}
			}()
			ch, e := proc.Process(ctx)
			if e != nil {
				err = e
				return
			}
			for range ch {
			}
		}()
		if err != nil || len(sent) == 0 {
			res.Count("tagsapi:process-error")
			continue
		}
		stmt := sent[len(sent)-1]
		ser := "SEL,NOATTR,NOAGG,none"
		mode := "no-query"
		if script != nil && !complex {
			s, serr := serTraceQL(script)
			if serr != nil {
				continue
			}
			ser = s
			mode = "simple"
		} else if script != nil {
			mode = "complex"
		}
		res.Count("tagsapi:" + kind + ":" + mode)
		res.Case("tagsapi:"+kind+query+key+mode+fmt.Sprint(c), true)
		if kind == "tags" {
			ops = append(ops, "c11tags "+c.ser()+" "+hx(c.planner().TracesKVDistTable)+" "+ser)
		} else {
			ops = append(ops, "c11values "+c.ser()+" "+hx(c.planner().TracesKVDistTable)+" "+h.Hex([]byte(key))+" "+ser)
		}
		impl = append(impl, h.Hex([]byte(stmt)))
		cases = append(cases, map[string]any{"kind": kind, "query": query, "key": key, "mode": mode, "ctx": c, "sent": stmt})
	}
	return res.Compare("tagsapi", ops, impl, cases)
}

// ---------------------------------------------------------------------------------------------------------------
// the grammar: the real parser against TraceQL.parseExp on the same token list

func c11Parse(r *h.Rng, res *h.Result, n int) error {
	res.Stream("parse: conditions of a selector as token lists (conditions, && / ||, parentheses: nested, mixed and/or without parentheses, two heads without an operator, dangling operators, unbalanced parentheses) → text → the real traceql_parser.Parse vs TraceQL.parseExp (the recursive descent of the participle grammar): same tree or both none (driver op c11parse)")
	var ops []string
	var cases []any
	termTexts := []string{`.a="x"`, `.b=1`, `duration>1s`, `name=~"a.*"`, `span.c!="y"`, `.d<2.5`}
	var termSers []string
	for _, t := range termTexts {
		s, err := traceql_parser.Parse("{" + t + "}")
		if err != nil {
			return fmt.Errorf("term %q: %v", t, err)
		}
		ts, err := serTerm(s.Head.AttrSelector.Head)
		if err != nil {
			return err
		}
		termSers = append(termSers, strings.Join(ts, ","))
	}
	var gen func(depth int) []string
	gen = func(depth int) []string {
		var toks []string
		k := r.Range(1, 4)
		for i := 0; i < k; i++ {
			if i > 0 && !r.Chance(4) {
				toks = append(toks, h.Pick(r, []string{"and", "or"}))
			}
			if depth > 0 && r.Chance(30) {
				toks = append(toks, "(")
				toks = append(toks, gen(depth-1)...)
				toks = append(toks, ")")
			} else {
				toks = append(toks, fmt.Sprint(r.Intn(len(termTexts))))
			}
		}
		return toks
	}
	for i := 0; i < n; i++ {
		toks := gen(2)
		if r.Chance(6) { // malformed
			switch r.Intn(4) {
			case 0:
				toks = append(toks, h.Pick(r, []string{"and", "or"}))
			case 1:
				toks = append(toks, ")")
			case 2:
				toks = append([]string{"("}, toks...)
			case 3:
				toks = append([]string{h.Pick(r, []string{"and", "or"})}, toks...)
			}
		}
		var sb strings.Builder
		for _, t := range toks {
			switch t {
			case "and":
				sb.WriteString(" && ")
			case "or":
				sb.WriteString(" || ")
			case "(", ")":
				sb.WriteString(t)
			default:
				k, _ := strconv.Atoi(t)
				sb.WriteString(" " + termTexts[k] + " ")
			}
		}
		query := "{" + sb.String() + "}"
		ast := "-"
		if s, err := traceql_parser.Parse(query); err == nil && s != nil && s.Head.AttrSelector != nil && s.Tail == nil && s.AndOr == "" && s.Head.Aggregator == nil {
			if !hasDangling(s.Head.AttrSelector) {
				if e, err := serAttrExp(s.Head.AttrSelector); err == nil {
					ast = strings.Join(e, ",")
				}
			}
		}
		mixed := false
		for j := 0; j+2 < len(toks); j++ {
			if (toks[j] == "and" && toks[j+2] == "or") || (toks[j] == "or" && toks[j+2] == "and") {
				mixed = true
			}
		}
		if ast == "-" {
			res.Count("parse:rejected")
		} else if mixed {
			res.Count("parse:mixed-without-parentheses")
		} else {
			res.Count("parse:accepted")
		}
		res.Case("parse:"+query, ast != "-")
		ops = append(ops, "c11parse "+strings.Join(termSers, ";")+" "+strings.Join(toks, ",")+" "+ast)
		cases = append(cases, map[string]any{"query": query})
	}
	ans, err := h.Model(ops)
	if err != nil {
		return err
	}
	for i, a := range ans {
		if !strings.HasPrefix(a, "OK") {
			res.Disagree("parse", ops[i], "real parser", a, cases[i])
		}
	}
	return nil
}

func hasDangling(e *traceql_parser.AttrSelectorExp) bool {
	if e == nil {
		return false
	}
	if e.AndOr != "" && e.Tail == nil {
		return true
	}
	return hasDangling(e.ComplexHead) || hasDangling(e.Tail)
}
