package main

import (
	"context"
	"encoding/json"
	"fmt"
	"sort"
	"strings"
	"time"

	"github.com/metrico/qryn/reader/model"
	"github.com/metrico/qryn/reader/service"
	"github.com/prometheus/prometheus/model/labels"
	"github.com/prometheus/prometheus/promql/parser"
	"github.com/prometheus/prometheus/storage"
	fakes "verif/harness/fakes17"
	"verif/harness/h"
)

// ---------------------------------------------------------------------------------------------------
// Stream 8: Prometheus' engine, range queries with steps below the down-sampling threshold. The same
// query_range evaluation (promql.Engine.NewRangeQuery) runs (a) over the real adapter — the engine hands
// Select the hints Step/Func/Range, processHints pre-aggregates per step or filters the range windows, the
// SQL is executed by the reference interpreter — and (b) over an in-memory reference storage holding the
// same raw samples, which ignores the hints (what Prometheus returns for the same samples).
// A difference is classified with a third run (c) over a reference storage that pre-aggregates exactly as
// `Prom.Stepped.bucket` says (last sample of every step bucket (Start+(k−1)·Step, Start+k·Step], re-timed to
// the bucket end): got = (c) ≠ (b) is the recorded finding about the re-timed buckets; anything else is new.

type c17RngCase struct {
	Stream string         `json:"stream"`
	Query  string         `json:"query"`
	Start  int64          `json:"start"` // ms
	End    int64          `json:"end"`
	Step   int64          `json:"step"`
	Series []c17E2ESeries `json:"series"`
	Got    string         `json:"got,omitempty"`
	Want   string         `json:"want,omitempty"`
}

// bucketStore = refStore + the per-step pre-aggregation for instant-vector functions
type bucketStore struct{ series []c17E2ESeries }

func (r bucketStore) Querier(ctx context.Context, mint, maxt int64) (storage.Querier, error) {
	return bucketQuerier{refQuerier{r.series, mint, maxt}}, nil
}

type bucketQuerier struct{ refQuerier }

func (q bucketQuerier) Select(sortSeries bool, hints *storage.SelectHints, ms ...*labels.Matcher) storage.SeriesSet {
	// the adapter reads [hints.Start, hints.End], not the querier's mint/maxt
	inner := refQuerier{q.series, hints.Start, hints.End}
	set := inner.Select(sortSeries, hints, ms...).(*refSet)
	if hints.Step == 0 || !(c17InstantFuncs[hints.Func] || hints.Func == "") || hints.Range != 0 || 300000%hints.Step != 0 {
		return set
	}
	// the last sample of every step bucket (Start+(k-1)*Step, Start+k*Step], with its own time
	for i := range set.s {
		var out []refSample
		last := int64(0)
		for _, x := range set.s[i].s {
			be := (x.t-hints.Start+hints.Step-1)/hints.Step*hints.Step + hints.Start
			if n := len(out); n > 0 && last == be {
				out[n-1] = x
			} else {
				out = append(out, x)
			}
			last = be
		}
		set.s[i].s = out
	}
	return set
}

func c17RunEngineRange(r *h.Result, sc *fakes.Script, c *c17RngCase) error {
	db := c17BuildStepDB(&c17StepCase{Series: c.Series})
	var execErr error
	sc.SetResponder(c17StepResponder(db, &execErr, nil))
	ctx := context.Background()
	adapter := (&service.CLokiQueriable{ServiceData: model.ServiceData{Session: sc.Registry("c17-engine-range", "")}}).SetOidAndDB(ctx)
	run := func(q storage.Queryable) (string, error) {
		qry, err := c17Engine.NewRangeQuery(q, nil, c.Query, time.UnixMilli(c.Start), time.UnixMilli(c.End), time.Duration(c.Step)*time.Millisecond)
		if err != nil {
			return "", err
		}
		defer qry.Close()
		return c17ResultCanon(qry.Exec(ctx)), nil
	}
	got, err := run(adapter)
	if err != nil {
		return fmt.Errorf("generator made an invalid query %q: %v", c.Query, err)
	}
	if execErr != nil {
		return fmt.Errorf("reference interpreter: %v", execErr)
	}
	want, err := run(refStore{c.Series})
	if err != nil {
		return err
	}
	if got == want {
		return nil
	}
	c.Got, c.Want = got, want
	key := "C17/engine-range-result-differs"
	expr, perr := parser.ParseExpr(c.Query)
	if perr == nil {
		parser.Inspect(expr, func(n parser.Node, _ []parser.Node) error {
			if vs, ok := n.(*parser.VectorSelector); ok {
				for _, s := range c.Series {
					if s.Type != 2 && s.Type != 0 {
						continue
					}
					var ls labels.Labels
					for _, kv := range s.Labels {
						ls = append(ls, labels.Label{Name: kv[0], Value: kv[1]})
					}
					all := true
					for _, m := range vs.LabelMatchers {
						if !m.Matches(ls.Get(m.Name)) {
							all = false
						}
					}
					if all && !c17IdxSel(s, vs.LabelMatchers, true) {
						key = "C17/select-matcher-on-absent-label"
					}
				}
			}
			return nil
		})
	}
	if strings.Contains(got, "{} =>") && !strings.Contains(want, "{} =>") && c.End/c17DayMs > (c.Start-300000)/c17DayMs {
		key = "C17/engine-range-series-unlabelled"
	}
	if key == "C17/engine-range-result-differs" {
		bucketed, err := run(bucketStore{c.Series})
		if err != nil {
			return err
		}
		if got == bucketed {
			key = "C17/stepped-bucket-retimed"
			if strings.Contains(c.Query, ":") {
				// a selector under a sub-query: the hints do not describe the grid the sub-query evaluates it on
				key = "C17/stepped-bucket-under-subquery"
			}
			if strings.Contains(c.Query, "timestamp(") {
				key = "C17/stepped-bucket-timestamp"
			}
		}
	}
	r.Count(fmt.Sprintf("engine-range:differs:%s:step=%d", strings.TrimPrefix(key, "C17/"), c.Step))
	r.Violate(key, fmt.Sprintf("query_range %q start=%d end=%d step=%d: the engine over the qryn adapter returns\n%s\nover the reference storage (same raw samples)\n%s", c.Query, c.Start, c.End, c.Step, got, want), *c)
	return nil
}

func c17GenEngineRange(rng *h.Rng) c17RngCase {
	c := c17RngCase{Stream: "engine-range"}
	c.Step = h.Pick(rng, []int64{1000, 2000, 5000, 5000, 7000, 10000, 10000, 14000, 3000, 14999})
	c.Start = c17B15 + int64(rng.Intn(8))*15000 // the controller floors start to a multiple of 15 s
	if rng.Chance(20) {
		c.Start += int64(rng.Intn(15000)) // the engine API itself takes any start
	}
	c.End = c.Start + int64(rng.Range(0, 12))*c.Step + int64(rng.Intn(2))*int64(rng.Intn(int(c.Step)))
	nser := rng.Range(1, 4)
	seen := map[string]bool{}
	fp := uint64(rng.Range(1, 50))
	for i := 0; i < nser; i++ {
		s := c17E2ESeries{Fp: fp, Type: 2}
		fp += uint64(rng.Range(1, 1000))
		for _, n := range c17Names {
			if n == "__name__" {
				s.Labels = append(s.Labels, [2]string{n, h.Pick(rng, []string{"m", "m", "up"})})
			} else if n != "a" && rng.Chance(60) {
				s.Labels = append(s.Labels, [2]string{n, h.Pick(rng, c17Vals[n])})
			}
		}
		key := fmt.Sprint(s.Labels)
		if seen[key] {
			continue
		}
		seen[key] = true
		// a run of samples from before the lookback window to after the end, irregular spacing, some gaps longer
		// than the lookback, some samples exactly on / next to evaluation times and window edges
		ts := c.Start - 300000 - int64(rng.Range(0, 40000))
		if rng.Chance(30) {
			ts = c.Start - int64(rng.Range(0, 30000))
		}
		val := int64(rng.Intn(50))
		for ts <= c.End+20000 && len(s.Samples) < 80 {
			s.Samples = append(s.Samples, [2]int64{ts, val})
			switch rng.Intn(8) {
			case 0:
				ts += 1
			case 1:
				ts += 15000
			case 2:
				ts += int64(rng.Range(2, 60000))
			case 3:
				ts += 290000 + int64(rng.Range(0, 20000)) // around the lookback delta
			case 4:
				prev := ts
				ts = (ts/c.Step+1)*c.Step + int64(rng.Intn(3)) - 1
				if ts <= prev {
					ts = prev + 1
				}
			default:
				ts += int64(rng.Range(500, 6000))
			}
			val += int64(rng.Range(0, 5))
			if rng.Chance(5) {
				val = 0
			}
		}
		for _, edge := range []int64{c.Start, c.End, c.Start - 300000, c.Start - 300001, c.Start - 299999, c.Start + c.Step, c.Start + c.Step - 300000, c.Start + c.Step - 300001} {
			if rng.Chance(12) {
				dup := false
				for _, x := range s.Samples {
					if x[0] == edge {
						dup = true
					}
				}
				if !dup {
					s.Samples = append(s.Samples, [2]int64{edge, val})
					val++
				}
			}
		}
		sort.Slice(s.Samples, func(i, j int) bool { return s.Samples[i][0] < s.Samples[j][0] })
		c.Series = append(c.Series, s)
	}
	sel := h.Pick(rng, []string{"m", "m", "up", `{__name__=~"m|up"}`, `m{job="x"}`, `m{job=~"x.*"}`, `m{instance=~"i[12]"}`})
	rngSel := h.Pick(rng, []string{"1s", "2s", "5s", "4s", "10s", "30s", "1m", "20s"})
	off := ""
	if rng.Chance(20) {
		off = " offset " + h.Pick(rng, []string{"1s", "3s", "7s", "1m"})
	}
	switch rng.Intn(17) {
	case 16:
		// an instant-vector function (or a binary operator) between the sub-query and the selector: Func is that
		// function / "", the step of the hints is the outer interval — not the grid the sub-query evaluates on
		c.Query = h.Pick(rng, []string{"max_over_time(abs(", "avg_over_time((0 + "}) + sel + off + ")[" + h.Pick(rng, []string{"20s", "30s"}) + ":" + h.Pick(rng, []string{"2s", "5s"}) + "])"
	case 14:
		// a range-vector function over a sub-query: the selector is an instant selector (hints.Range = 0) under the name of
		// a range-vector function
		c.Query = h.Pick(rng, []string{"max_over_time", "sum_over_time", "count_over_time", "rate", "last_over_time"}) + "(" + sel + off + "[" + h.Pick(rng, []string{"20s", "30s", "1m"}) + ":" + h.Pick(rng, []string{"1s", "2s", "5s"}) + "])"
	case 15:
		c.Query = "sum(max_over_time(" + sel + off + "[30s:5s]))"
	case 0, 1, 2:
		c.Query = sel + off
	case 3:
		c.Query = h.Pick(rng, []string{"abs", "ceil", "sort", "sgn"}) + "(" + sel + off + ")"
	case 4:
		c.Query = "timestamp(" + sel + off + ")"
	case 5:
		c.Query = "sum(" + sel + off + ")"
	case 6, 7:
		c.Query = h.Pick(rng, []string{"count_over_time", "sum_over_time", "max_over_time", "min_over_time", "avg_over_time", "last_over_time"}) + "(" + sel + "[" + rngSel + "]" + off + ")"
	case 8:
		c.Query = h.Pick(rng, []string{"rate", "increase", "delta", "irate", "idelta", "resets"}) + "(" + sel + "[" + rngSel + "]" + off + ")"
	case 9:
		c.Query = "sum by (job) (count_over_time(" + sel + "[" + rngSel + "]" + off + "))"
	case 10:
		c.Query = h.Pick(rng, []string{"changes", "quantile_over_time(0.5,", "present_over_time"}) + "(" + sel + "[" + rngSel + "]" + off + ")"
		c.Query = strings.Replace(c.Query, ",(", ", ", 1)
	case 11:
		c.Query = sel + off + " + 0"
	case 12:
		c.Query = "count(" + sel + off + ") by (env)"
	default:
		c.Query = "absent(" + sel + off + ")"
	}
	return c
}

func c17EngineRangeStream(r *h.Result, rng *h.Rng, n int) error {
	r.Stream("engine-range: promql.Engine range queries (steps 1 s … 15 s) over the real adapter (hints Step/Func/Range → processHints → SQL → reference interpreter → row loop → seriesIt) vs the same engine over an in-memory reference storage with the same raw samples; a difference is classified by a third run over a storage that pre-aggregates as Prom.Stepped.bucket says")
	sc := fakes.NewScript(nil)
	defer sc.Close()
	for i := 0; i < n; i++ {
		c := c17GenEngineRange(rng)
		if rng.Chance(10) {
			c = c17GenEngineRangeDays(rng) // the range crosses a UTC midnight
			r.Count("engine-range:range crosses a UTC midnight")
		}
		if err := c17RunEngineRange(r, sc, &c); err != nil {
			return err
		}
		b, _ := json.Marshal(c.Series)
		r.Case(fmt.Sprintf("engine-range:%s %d %d %d %s", c.Query, c.Start, c.End, c.Step, b), c.End > c.Start)
		switch {
		case strings.Contains(c.Query, ":"+"") && strings.Contains(c.Query, "s])"):
			r.Count("engine-range:sub-query")
		case strings.Contains(c.Query, "["):
			r.Count("engine-range:range-selector")
		default:
			r.Count("engine-range:instant-selector")
		}
		if 300000%c.Step == 0 {
			r.Count("engine-range:step-divides-lookback")
		} else {
			r.Count("engine-range:step-does-not-divide-lookback")
		}
		if i%61 == 0 {
			c.Series = nil
			r.Sample(c)
		}
	}
	return nil
}

func init() {
	c17Streams = append(c17Streams, func(r *h.Result, rng *h.Rng, tier string) error {
		n := 250
		if tier != "quick" {
			n = 6000
		}
		r.Rule += "; engine-range: 1..4 metric series, samples from before start−5 min to after end at irregular spacing (1 ms … 60 s, gaps around 5 min, samples on/next to evaluation times and on start, end, t−5 min, t−5 min±1); start a multiple of 15 s (20 %: any), step ∈ {1, 2, 3, 5, 7, 10, 14, 14.999} s, 0..12 steps; selectors, instant functions, timestamp, aggregations, *_over_time / rate / increase / delta / irate / idelta / resets / changes / quantile_over_time over ranges 1 s … 1 min, with and without offset; non-trivial = more than one evaluation time"
		return c17EngineRangeStream(r, rng, n)
	})
	c17ReplayMore["engine-range"] = func(r *h.Result, raw json.RawMessage) error {
		var c c17RngCase
		if err := json.Unmarshal(raw, &c); err != nil {
			return err
		}
		sc := fakes.NewScript(nil)
		defer sc.Close()
		r.Case("replay", true)
		return c17RunEngineRange(r, sc, &c)
	}
}
