package main

// C10 taint run — the position table: for every place where a request string can reach SQL, a request template
// carrying the marker, the hostile classes its transport/grammar can carry, the intended literal content, and
// the entries of the parameter inventory (Gen.Params) the case exercises.

import (
	"encoding/json"
	"fmt"
	"regexp"
	"strconv"
	"strings"

	"github.com/metrico/qryn/reader/prof"
	v1 "github.com/metrico/qryn/reader/prof/types/v1"
	"google.golang.org/protobuf/proto"
)

// ---- query-language string syntaxes

// jq: LogQL / TraceQL double-quoted string (decoded by the code with encoding/json)
func jq(v string) string {
	var b strings.Builder
	b.WriteByte('"')
	for i := 0; i < len(v); i++ {
		c := v[i]
		switch {
		case c == '"':
			b.WriteString(`\"`)
		case c == '\\':
			b.WriteString(`\\`)
		case c < 0x20 || c == 0x7f:
			fmt.Fprintf(&b, `\u%04x`, c)
		default:
			b.WriteByte(c)
		}
	}
	b.WriteByte('"')
	return b.String()
}

// gq: Go-syntax string (PromQL, profile selectors, tempo tags), ASCII only, exact bytes
func gq(v string) string { return strconv.QuoteToASCII(v) }

func c10LikeEsc(v string) string {
	return strings.NewReplacer(`\`, `\\`, "%", `\%`, "_", `\_`).Replace(v)
}

func exJSON(v string) []string   { return []string{c10JSONCoerce(v)} }
func exLikeJS(v string) []string { return []string{"%" + c10LikeEsc(c10JSONCoerce(v)) + "%"} }

// a regular expression whose text contains the marker: literal (QuoteMeta) or not (followed by `.*[0-9]`)
func reLit(v string) string    { return regexp.QuoteMeta(v) }
func reNonLit(v string) string { return regexp.QuoteMeta(v) + ".*[0-9]" }

// ---- inventory keys
func inv(file, handler, kind string, names ...string) []string {
	var res []string
	for _, n := range names {
		res = append(res, file+"|"+handler+"|"+kind+"|"+n)
	}
	return res
}

const (
	fQR   = "queryRangeController.go"
	fQL   = "queryLabelsController.go"
	fPL   = "promQueryLabelsController.go"
	fPR   = "promQueryRangeController.go"
	fPI   = "promQueryInstantController.go"
	fTe   = "tempoController.go"
	fProf = "profController.go"
)

// ---- base requests (explicit, fixed time windows: the statements must not depend on the clock)
const (
	c10StartNs = "1700000000000000000"
	c10EndNs   = "1700003600000000000"
	c10StartS  = "1700000000"
	c10EndS    = "1700003600"
	c10StartMs = 1700000000000
	c10EndMs   = 1700003600000
)

func lokiQR(query string) *c10Req {
	return &c10Req{Method: "GET", Path: "/loki/api/v1/query_range", Query: []kv{{"query", query}, {"start", c10StartNs}, {"end", c10EndNs}, {"step", "60"}, {"limit", "100"}, {"direction", "backward"}}}
}
func lokiQ(query string) *c10Req {
	return &c10Req{Method: "GET", Path: "/loki/api/v1/query", Query: []kv{{"query", query}, {"time", c10EndNs}, {"step", "60"}, {"limit", "100"}}}
}
func lokiTail(query string) *c10Req {
	return &c10Req{Method: "GET", Path: "/loki/api/v1/tail", Query: []kv{{"query", query}}, WS: true}
}
func lokiLabels() *c10Req {
	return &c10Req{Method: "GET", Path: "/loki/api/v1/labels", Query: []kv{{"start", c10StartNs}, {"end", c10EndNs}}}
}
func lokiValues(name string, match ...string) *c10Req {
	q := &c10Req{Method: "GET", Path: "/loki/api/v1/label/" + name + "/values", Query: []kv{{"start", c10StartNs}, {"end", c10EndNs}}}
	for _, m := range match {
		q.Query = append(q.Query, kv{"match[]", m})
	}
	return q
}
func lokiSeries(match ...string) *c10Req {
	q := &c10Req{Method: "GET", Path: "/loki/api/v1/series", Query: []kv{{"start", c10StartNs}, {"end", c10EndNs}}}
	for _, m := range match {
		q.Query = append(q.Query, kv{"match[]", m})
	}
	return q
}
func promQR(query string) *c10Req {
	return &c10Req{Method: "GET", Path: "/api/v1/query_range", Query: []kv{{"query", query}, {"start", c10StartS}, {"end", c10EndS}, {"step", "15"}}}
}
func promQ(query string) *c10Req {
	return &c10Req{Method: "GET", Path: "/api/v1/query", Query: []kv{{"query", query}, {"time", c10EndS}}}
}
func promLabels() *c10Req {
	return &c10Req{Method: "GET", Path: "/api/v1/labels", Query: []kv{{"start", c10StartS}, {"end", c10EndS}}}
}
func promLabelsM(match ...string) *c10Req {
	q := promLabels()
	for _, m := range match {
		q.Query = append(q.Query, kv{"match[]", m})
	}
	return q
}
func promValues(name string, match ...string) *c10Req {
	q := &c10Req{Method: "GET", Path: "/api/v1/label/" + name + "/values", Query: []kv{{"start", c10StartS}, {"end", c10EndS}}}
	for _, m := range match {
		q.Query = append(q.Query, kv{"match[]", m})
	}
	return q
}
func promSeries(match ...string) *c10Req {
	q := &c10Req{Method: "GET", Path: "/api/v1/series", Query: []kv{{"start", c10StartS}, {"end", c10EndS}}}
	for _, m := range match {
		q.Query = append(q.Query, kv{"match[]", m})
	}
	return q
}
func tempoTrace(prefix, id, suffix string) *c10Req {
	return &c10Req{Method: "GET", Path: prefix + "/api/traces/" + id + suffix, Query: []kv{{"start", c10StartS}, {"end", c10EndS}}}
}
func tempoValues(prefix, tag string) *c10Req {
	return &c10Req{Method: "GET", Path: prefix + "/api/search/tag/" + tag + "/values"}
}
func tempoValuesV2(tag, q string) *c10Req {
	return &c10Req{Method: "GET", Path: "/api/v2/search/tag/" + tag + "/values", Query: []kv{{"q", q}, {"start", c10StartS}, {"end", c10EndS}, {"limit", "100"}}}
}
func tempoTagsV2(q string) *c10Req {
	return &c10Req{Method: "GET", Path: "/api/v2/search/tags", Query: []kv{{"q", q}, {"start", c10StartS}, {"end", c10EndS}, {"limit", "100"}}}
}
func tempoSearchTags(prefix, tags string) *c10Req {
	return &c10Req{Method: "GET", Path: prefix + "/api/search", Query: []kv{{"tags", tags}, {"minDuration", "1ms"}, {"maxDuration", "10s"}, {"limit", "20"}, {"start", c10StartS}, {"end", c10EndS}}}
}
func tempoSearchQ(prefix, q string) *c10Req {
	return &c10Req{Method: "GET", Path: prefix + "/api/search", Query: []kv{{"q", q}, {"limit", "20"}, {"start", c10StartS}, {"end", c10EndS}}}
}

// profile querier bodies: JSON (encoding/json on the message structs) or protobuf
func profJSON(path string, fields map[string]any) *c10Req {
	b, err := json.Marshal(fields)
	if err != nil {
		panic(err)
	}
	return &c10Req{Method: "POST", Path: path, Body: b, CT: "application/json"}
}
func profProto(path string, m proto.Message) *c10Req {
	b, err := proto.Marshal(m)
	if err != nil {
		// invalid UTF-8 in a proto3 string: the transport cannot carry it; send the bytes the encoder refuses as garbage
		b = []byte{0xff}
	}
	return &c10Req{Method: "POST", Path: path, Body: b, CT: "application/proto"}
}

const c10TypeID = "process_cpu:cpu:nanoseconds:cpu:nanoseconds"

type c10PlainSpec struct {
	kind, name string
	inv        []string
}

func c10Positions() []c10Pos {
	var ps []c10Pos
	full := func(ex func(string) []string) []c10Level { return []c10Level{{Class: clFull, Expect: ex}} }
	add := func(ep, pos string, invk []string, lv []c10Level, reach c10Reach, mk func(v string) *c10Req) {
		ps = append(ps, c10Pos{Endpoint: ep, Pos: pos, Inv: invk, Mk: mk, Levels: lv, Reach: reach})
	}
	addL := func(ep, pos string, invk []string, lv []c10Level, reach c10Reach, lang string, text func(v string) string, mk func(q string) *c10Req) {
		ps = append(ps, c10Pos{Endpoint: ep, Pos: pos, Inv: invk, Mk: func(v string) *c10Req { return mk(text(v)) }, Levels: lv, Reach: reach, Lang: lang, Text: text})
	}
	identLv := []c10Level{{Class: clFull, Loose: true}, {Class: clIdent, Ident: true}, {Class: clIdentEdge, Loose: true}}
	loose := []c10Level{{Class: clFull, Loose: true}}

	// =========================================================================================== LogQL
	// contexts a stream selector with pipeline can stand in
	type ctxT struct {
		name string
		wrap func(sel string) string
	}
	ctxs := []ctxT{
		{"log", func(s string) string { return s }},
		{"rate", func(s string) string { return "rate(" + s + "[1m])" }},
		{"sumby", func(s string) string { return "sum by (a) (count_over_time(" + s + "[5m]))" }},
		{"topk", func(s string) string { return "topk(3, sum by (a) (bytes_rate(" + s + "[1m]))) > 1" }},
		{"json-after", func(s string) string { return s + " | json | x=\"y\"" }},
	}
	// string-valued positions inside a log selector: tmpl(v) is the selector+pipeline text
	type lqPos struct {
		name string
		tmpl func(v string) string
		ex   func(v string) []string
		ctx  string // "" all contexts; else only this one
	}
	lq := []lqPos{
		{"matcher-value-eq", func(v string) string { return `{a=` + jq(v) + `}` }, exJSON, ""},
		{"matcher-value-neq", func(v string) string { return `{b="x", a!=` + jq(v) + `}` }, exJSON, ""},
		{"matcher-value-ticked", func(v string) string { return "{a=`" + strings.NewReplacer("`", "\\`").Replace(v) + "`}" }, nil, "log"},
		{"matcher-regex", func(v string) string { return `{a=~` + jq(reNonLit(v)) + `}` }, func(v string) []string { return []string{c10JSONCoerce(reNonLit(v))} }, ""},
		{"matcher-nregex", func(v string) string { return `{b="x", a!~` + jq(reLit(v)) + `}` }, func(v string) []string { return []string{c10JSONCoerce(reLit(v))} }, ""},
		{"line-filter-contains", func(v string) string { return `{a="b"} |= ` + jq(v) }, exLikeJS, ""},
		{"line-filter-not-contains", func(v string) string { return `{a="b"} != ` + jq(v) }, exLikeJS, ""},
		{"line-filter-regex-literal", func(v string) string { return `{a="b"} |~ ` + jq(reLit(v)) }, exLikeJS, ""},
		{"line-filter-regex", func(v string) string { return `{a="b"} |~ ` + jq(reNonLit(v)) }, func(v string) []string { return []string{c10JSONCoerce(reNonLit(v))} }, ""},
		{"line-filter-nregex", func(v string) string { return `{a="b"} !~ ` + jq(reNonLit(v)) }, func(v string) []string { return []string{c10JSONCoerce(reNonLit(v))} }, ""},
		{"line-filter-nregex-literal", func(v string) string { return `{a="b"} !~ ` + jq("(?i)"+reLit(v)) }, exLikeJS, "log"},
		{"label-filter-eq", func(v string) string { return `{a="b"} | lbl = ` + jq(v) }, exJSON, ""},
		{"label-filter-neq-or", func(v string) string { return `{a="b"} | (lbl != ` + jq(v) + ` or x > 5)` }, exJSON, ""},
		{"label-filter-regex", func(v string) string { return `{a="b"} | lbl =~ ` + jq(reNonLit(v)) }, func(v string) []string { return []string{c10JSONCoerce(reNonLit(v))} }, ""},
		{"label-filter-after-json", func(v string) string {
			return `{a="b"} | json lbl="x.y" | lbl = ` + jq(v) + ` and lbl !~ ` + jq(reLit(v))
		}, func(v string) []string { return []string{c10JSONCoerce(v), c10JSONCoerce(reLit(v))} }, ""},
		{"json-path-ident", func(v string) string { return `{a="b"} | json x=` + jq(v) }, exJSON, "-"},
		{"json-path-bracket", func(v string) string { return `{a="b"} | json x=` + jq(`k[`+jq(v)+`][0]`) }, exJSON, ""},
		{"json-label-and-path", func(v string) string {
			return `{a="b"} | json x="a.b[0]", y=` + jq(`["`+"k"+`"].`+"z") + ` | y=` + jq(v)
		}, exJSON, "log"},
		// the path parameter of `| json x="path"`: the three part syntaxes of shared/path_parser.go — identifier, [N],
		// ["quoted name"] / [`ticked name`] — with the hostile text as a quoted field name in first, middle and last
		// place (a name may begin with a digit, a quote, anything), inside a double-quoted and inside a ticked LogQL string
		{"json-path-quoted-first", func(v string) string { return `{a="b"} | json x=` + jq(`[`+jq(v)+`]`) }, exJSON, ""},
		{"json-path-quoted-last", func(v string) string { return `{a="b"} | json x=` + jq(`a.b[3][`+jq(v)+`]`) }, exJSON, "log"},
		{"json-path-quoted-second-param", func(v string) string {
			return `{a="b"} | json x="a[0]", y=` + jq(`["k"][`+jq(v)+`].z`)
		}, exJSON, "log"},
		{"json-path-outer-ticked", func(v string) string {
			return "{a=\"b\"} | json x=`[" + strings.ReplaceAll(jq(v), "`", "\\`") + "]`"
		}, exJSON, "log"},
		{"json-path-ticked-field", func(v string) string {
			return `{a="b"} | json x=` + jq("k[`"+strings.ReplaceAll(v, "`", "")+"`]")
		}, func(v string) []string { return []string{c10JSONCoerce(strings.ReplaceAll(v, "`", ""))} }, "log"},
		{"logfmt-param", func(v string) string { return `{a="b"} | logfmt x=` + jq(v) }, exJSON, "log"},
		{"regexp-pattern", func(v string) string { return `{a="b"} | regexp ` + jq(`(?P<g>`+reLit(v)+`[a-z]+)`) }, func(v string) []string { return []string{c10JSONCoerce(reLit(v))} }, ""},
		{"regexp-pattern-raw", func(v string) string { return `{a="b"} | regexp ` + jq(v) }, exJSON, "log"},
		{"drop-value", func(v string) string { return `{a="b"} | drop lbl=` + jq(v) }, exJSON, ""},
		{"label-format-const", func(v string) string { return `{a="b"} | label_format x=` + jq(v) }, exJSON, ""},
		{"line-format", func(v string) string { return `{a="b"} | line_format ` + jq(v) }, exJSON, "log"},
	}
	lokiEndpoints := []struct {
		ep   string
		inv  []string
		mk   func(q string) *c10Req
		lang string
	}{
		{"loki/query_range", inv(fQR, "QueryRangeController.QueryRange", "query", "query"), lokiQR, "logql"},
		{"loki/query", inv(fQR, "QueryRangeController.Query", "query", "query"), lokiQ, ""},
	}
	for _, e := range lokiEndpoints {
		e := e
		for _, p := range lq {
			p := p
			for _, c := range ctxs {
				c := c
				if p.ctx != "" && p.ctx != c.name {
					continue
				}
				reach := reachMay
				if c.name == "log" && p.name != "line-format" && p.name != "regexp-pattern-raw" && p.name != "label-format-const" && p.name != "matcher-value-ticked" &&
					p.name != "logfmt-param" && p.name != "json-path-ticked-field" {
					reach = reachMust
				}
				lv := full(p.ex)
				if p.name == "matcher-value-ticked" {
					lv = []c10Level{{Class: clText, Expect: nil}}
				}
				if p.name == "line-filter-nregex-literal" {
					lv[0].Fold = true
				}
				if p.name == "json-path-ticked-field" {
					lv = []c10Level{{Class: clText, Expect: p.ex}} // text/scanner reads the raw-string token: valid UTF-8, no NUL
				}
				if p.name == "regexp-pattern-raw" {
					lv[0].Loose = true // the marker is the regular expression: its groups decide the label list
				}
				addL(e.ep, "logql/"+p.name+"@"+c.name, e.inv, lv, reach, e.lang, func(v string) string { return c.wrap(p.tmpl(v)) }, e.mk)
			}
		}
		addL(e.ep, "logql/line-filter-before-unwrap", e.inv, full(exLikeJS), reachMust, e.lang, func(v string) string {
			return `sum_over_time({a="b"} |= ` + jq(v) + ` | json x="v" | unwrap x [1m]) by (a)`
		}, e.mk)
		// label-NAME positions: the grammar admits Label_name / Macros_function only
		names := []struct {
			name string
			tmpl func(v string) string
		}{
			{"matcher-name", func(v string) string { return `{` + v + `="b"}` }},
			{"label-filter-name", func(v string) string { return `{a="b"} | ` + v + ` = "x"` }},
			{"label-filter-name-num", func(v string) string { return `{a="b"} | ` + v + ` >= 5.5` }},
			{"label-filter-name-after-json", func(v string) string { return `{a="b"} | json ` + v + `="p" | ` + v + ` != "x"` }},
			{"json-label-name", func(v string) string { return `{a="b"} | json ` + v + `="p.q"` }},
			{"regexp-group-name", func(v string) string { return `{a="b"} | regexp "(?P<` + v + `>[a-z]+)"` }},
			{"drop-name", func(v string) string { return `{a="b"} | drop ` + v }},
			{"drop-name-value", func(v string) string { return `{a="b"} | drop ` + v + `="x"` }},
			{"label-format-name", func(v string) string { return `{a="b"} | label_format ` + v + `=a` }},
			{"label-format-src", func(v string) string { return `{a="b"} | label_format x=` + v }},
			{"unwrap-name", func(v string) string {
				return `sum_over_time({a="b"} | json ` + v + `="v" | unwrap ` + v + ` [1m]) by (a)`
			}},
			{"unwrap-name-stream-label", func(v string) string { return `sum_over_time({a="b"} | unwrap ` + v + ` [1m]) by (a)` }},
			{"unwrap-name-after-json", func(v string) string { return `avg_over_time({a="b"} | json ` + v + `="q" | unwrap ` + v + ` [1m])` }},
			{"by-name", func(v string) string { return `sum by (` + v + `) (rate({a="b"}[1m]))` }},
			{"without-name", func(v string) string { return `sum without (a, ` + v + `) (count_over_time({a="b"}[1m]))` }},
			{"by-name-lra", func(v string) string { return `sum_over_time({a="b"} | json x="v" | unwrap x [1m]) by (` + v + `)` }},
			{"by-name-quantile", func(v string) string {
				return `quantile_over_time(0.5, {a="b"} | json x="v" | unwrap x [1m]) by (` + v + `)`
			}},
		}
		for _, nm := range names {
			nm := nm
			reach := reachMust
			if nm.name == "label-format-name" || nm.name == "label-format-src" || nm.name == "unwrap-name-stream-label" {
				reach = reachMay
			}
			addL(e.ep, "logql/"+nm.name, e.inv, identLv, reach, e.lang, nm.tmpl, e.mk)
		}
		add(e.ep, "logql/json-path-ident", e.inv, []c10Level{{Class: clFull, Loose: true}, {Class: clIdent}}, reachMust, func(v string) *c10Req { return e.mk(`{a="b"} | json x=` + jq("p."+v+"[0]")) })
		// the whole query parameter as one hostile string
		add(e.ep, "logql/whole-query", e.inv, loose, reachMay, func(v string) *c10Req { return e.mk(v) })
		// grammar fields that capture NUMBER tokens (Integer "."? Integer*): text there is refused by the parser, or is a
		// different query; whatever happens, the marker must not arrive in SQL
		for _, nm := range []struct {
			name string
			tmpl func(v string) string
		}{
			{"num/label-filter", func(v string) string { return `{a="b"} | x >= ` + v }},
			{"num/range-time", func(v string) string { return `rate({a="b"}[` + v + `m])` }},
			{"num/comparison", func(v string) string { return `rate({a="b"}[1m]) > ` + v }},
			{"num/topk-param", func(v string) string { return `topk(` + v + `, rate({a="b"}[1m]))` }},
			{"num/quantile-param", func(v string) string { return `quantile_over_time(` + v + `, {a="b"} | unwrap x [1m])` }},
			{"num/quantile-time", func(v string) string { return `quantile_over_time(0.5, {a="b"} | unwrap x [` + v + `m])` }},
			{"num/json-path-index", func(v string) string { return `{a="b"} | json x=` + jq("a["+v+"]") }},
			// macros are refused by the planner ("not implemented"): neither the name nor a parameter reaches SQL
			{"macro-param", func(v string) string { return `_test_macro(` + jq(v) + `)` }},
			{"macro-name", func(v string) string { return `_` + v + `("x")` }},
		} {
			nm := nm
			add(e.ep, "logql/"+nm.name, e.inv, full(nil), reachNever, func(v string) *c10Req { return e.mk(nm.tmpl(v)) })
		}
	}
	// tail: a websocket; the plan is rendered on a ticker with the current time
	ps = append(ps, c10Pos{Endpoint: "loki/tail", Pos: "logql/matcher-value+line-filter", Inv: inv(fQR, "QueryRangeController.Tail", "query", "query"),
		Mk:     func(v string) *c10Req { return lokiTail(`{a=` + jq(v) + `} |= ` + jq(v)) },
		Levels: full(func(v string) []string { return []string{c10JSONCoerce(v), c10LikeEsc(c10JSONCoerce(v))} }), Reach: reachMust, Cfgs: "v", NumNorm: true})

	// plain parameters of the loki query endpoints
	plain := func(ep string, base func() *c10Req, specs []c10PlainSpec) {
		for _, s := range specs {
			s := s
			add(ep, "param/"+s.kind+":"+s.name, s.inv, full(nil), reachNever, func(v string) *c10Req {
				q := base()
				switch s.kind {
				case "query":
					q.Query = setKV(q.Query, s.name, v)
				case "header":
					q.Hdr = setKV(q.Hdr, s.name, v)
				}
				return q
			})
		}
	}
	hQR := "QueryRangeController.QueryRange"
	plain("loki/query_range", func() *c10Req { return lokiQR(`{a="b"} |= "x"`) }, []c10PlainSpec{
		{"query", "start", inv(fQR, hQR, "query", "start")}, {"query", "end", inv(fQR, hQR, "query", "end")},
		{"query", "step", inv(fQR, hQR, "query", "step")}, {"query", "direction", inv(fQR, hQR, "query", "direction")},
		{"query", "limit", inv(fQR, hQR, "query", "limit")}})
	hQ := "QueryRangeController.Query"
	plain("loki/query", func() *c10Req { return lokiQ(`{a="b"} |= "x"`) }, []c10PlainSpec{
		{"query", "time", inv(fQR, hQ, "query", "time")}, {"query", "step", inv(fQR, hQ, "query", "step")},
		{"query", "limit", inv(fQR, hQ, "query", "limit")}})

	// =========================================================================================== loki labels / values / series
	// POST with a form body: start/end come from the schema-decoded form (fields Start, End), match[] from r.Form
	formOf := func(q *c10Req) *c10Req {
		c := q.clone()
		c.Method = "POST"
		c.Form = c.Query
		c.Query = nil
		return c
	}
	timeParams := func(ep, file, handler string, base func() *c10Req) {
		plain(ep, base, []c10PlainSpec{{"query", "start", inv(file, handler, "query", "start")}, {"query", "end", inv(file, handler, "query", "end")}})
		add(ep, "param/header:Content-Type", inv(file, handler, "header", "Content-Type"), full(nil), reachNever, func(v string) *c10Req {
			q := formOf(base())
			q.Hdr = setKV(q.Hdr, "Content-Type", v)
			return q
		})
		for _, f := range []string{"Start", "End"} {
			f := f
			add(ep, "param/form:"+f, inv(file, handler, "form", f), full(nil), reachNever, func(v string) *c10Req {
				q := formOf(base())
				q.Form = setKV(q.Form, strings.ToLower(f), v)
				return q
			})
		}
	}
	timeParams("loki/labels", fQL, "QueryLabelsController.Labels", lokiLabels)
	timeParams("loki/label-values", fQL, "QueryLabelsController.Values", func() *c10Req { return lokiValues("job") })
	timeParams("loki/series", fQL, "QueryLabelsController.Series", func() *c10Req { return lokiSeries(`{a="b"}`) })
	timeParams("prom/label-values", fPL, "PromQueryLabelsController.LabelValues", func() *c10Req { return promValues("job") })

	selPos := []lqPos{
		{"matcher-value-eq", func(v string) string { return `{a=` + jq(v) + `}` }, exJSON, ""},
		{"matcher-value-neq", func(v string) string { return `{b="x", a!=` + jq(v) + `}` }, exJSON, ""},
		{"matcher-regex", func(v string) string { return `{a=~` + jq(reNonLit(v)) + `}` }, func(v string) []string { return []string{c10JSONCoerce(reNonLit(v))} }, ""},
		{"matcher-nregex", func(v string) string { return `{b="x", a!~` + jq(reLit(v)) + `}` }, func(v string) []string { return []string{c10JSONCoerce(reLit(v))} }, ""},
	}
	type selEP struct {
		ep   string
		invk []string
		mk   func(m string) *c10Req
	}
	selEPs := []selEP{
		{"loki/label-values", append(inv(fQL, "QueryLabelsController.Values", "query", "match[]"), inv(fQL, "QueryLabelsController.Values", "path", "name")...), func(m string) *c10Req { return lokiValues("job", m) }},
		{"loki/label-values-2match", inv(fQL, "QueryLabelsController.Values", "query", "match[]"), func(m string) *c10Req { return lokiValues("job", `{z="1"}`, m) }},
		{"loki/series", inv(fQL, "QueryLabelsController.Series", "query", "match[]"), func(m string) *c10Req { return lokiSeries(m) }},
		{"loki/series-2match", inv(fQL, "QueryLabelsController.Series", "query", "match[]"), func(m string) *c10Req { return lokiSeries(`{z="1"}`, m) }},
		{"prom/series", inv(fPL, "PromQueryLabelsController.Series", "query", "match[]"), func(m string) *c10Req { return promSeries(m) }},
		{"loki/series-form", inv(fQL, "QueryLabelsController.Series", "form", "match[]"), func(m string) *c10Req { return formOf(lokiSeries(m)) }},
		{"loki/label-values-form", inv(fQL, "QueryLabelsController.Values", "form", "match[]"), func(m string) *c10Req { return formOf(lokiValues("job", m)) }},
		{"prom/series-form", inv(fPL, "PromQueryLabelsController.Series", "form", "match[]"), func(m string) *c10Req { return formOf(promSeries(m)) }},
		// /api/v1/labels reads match[] too (c17z: fix: /api/v1/labels honours match[])
		{"prom/labels", inv(fPL, "PromQueryLabelsController.PromLabels", "query", "match[]"), func(m string) *c10Req { return promLabelsM(m) }},
		{"prom/labels-form", inv(fPL, "PromQueryLabelsController.PromLabels", "form", "match[]"), func(m string) *c10Req { return formOf(promLabelsM(m)) }},
	}
	selLang := map[string]string{"loki/series": "logql-series", "loki/label-values": "logql-values", "prom/series": "logql-series", "prom/labels": "logql-series"}
	for _, e := range selEPs {
		e := e
		for _, p := range selPos {
			p := p
			reach := reachMust
			if strings.HasSuffix(e.ep, "-form") {
				reach = reachMay // the schema decoder refuses the unknown key match[] (loki) — whatever happens, the oracle judges it
			}
			addL(e.ep, "logql/"+p.name, e.invk, full(p.ex), reach, selLang[e.ep], p.tmpl, e.mk)
		}
		addL(e.ep, "logql/matcher-name", e.invk, identLv, reachMay, selLang[e.ep], func(v string) string { return `{` + v + `="b"}` }, e.mk)
		add(e.ep, "logql/whole-match", e.invk, loose, reachMay, func(v string) *c10Req { return e.mk(v) })
	}
	// prom/series: the metric-name shorthand  name{…}
	add("prom/series", "metric-name", inv(fPL, "PromQueryLabelsController.Series", "query", "match[]"), identLv, reachMust, func(v string) *c10Req { return promSeries(v + `{a="b"}`) })
	add("prom/series", "metric-name-bare", inv(fPL, "PromQueryLabelsController.Series", "query", "match[]"), identLv, reachMust, func(v string) *c10Req { return promSeries(v) })
	// label name in the URL path
	noSlash := []c10Level{{Class: clNoSlash}}
	add("loki/label-values", "path-name", inv(fQL, "QueryLabelsController.Values", "path", "name"), noSlash, reachMust, func(v string) *c10Req { return lokiValues(v) })
	add("loki/label-values", "path-name+match", inv(fQL, "QueryLabelsController.Values", "path", "name"), noSlash, reachMust, func(v string) *c10Req { return lokiValues(v, `{a="b"}`) })
	add("prom/label-values", "path-name", inv(fPL, "PromQueryLabelsController.LabelValues", "path", "name"), noSlash, reachMust, func(v string) *c10Req { return promValues(v) })
	add("prom/label-values", "path-name+match", inv(fPL, "PromQueryLabelsController.LabelValues", "path", "name"), noSlash, reachMust, func(v string) *c10Req { return promValues(v, `{a="b"}`) })

	// =========================================================================================== PromQL
	pqPos := []struct {
		name string
		tmpl func(v string) string
		ex   func(v string) []string
	}{
		{"matcher-value-eq", func(v string) string { return `m{a=` + gq(v) + `}` }, nil},
		{"matcher-value-neq", func(v string) string { return `{__name__="m", a!=` + gq(v) + `}` }, nil},
		{"matcher-regex", func(v string) string { return `m{a=~` + gq(reNonLit(v)) + `}` }, func(v string) []string { return []string{reNonLit(v)} }},
		{"matcher-nregex", func(v string) string { return `m{a!~` + gq(reLit(v)) + `}` }, func(v string) []string { return []string{reLit(v)} }},
		{"metric-name-value", func(v string) string { return `{__name__=` + gq(v) + `}` }, nil},
		{"matcher-value-single-quoted", func(v string) string {
			return `m{a='` + strings.NewReplacer(`\`, `\\`, `'`, `\'`, "\n", `\n`).Replace(v) + `'}`
		}, nil},
	}
	pqCtx := []ctxT{
		{"instant-vector", func(s string) string { return s }},
		{"rate", func(s string) string { return "rate(" + s + "[5m])" }},
		{"sumby", func(s string) string { return "sum by (a) (avg_over_time(" + s + "[5m]))" }},
		{"binary", func(s string) string { return s + " / on (a) group_left " + s }},
	}
	hPQR := "PromQueryRangeController.QueryRange"
	hPQI := "PromQueryRangeController.QueryInstant"
	promEPs := []struct {
		ep   string
		invk []string
		mk   func(q string) *c10Req
	}{
		{"prom/query_range", inv(fPR, hPQR, "query", "query"), promQR},
		{"prom/query", inv(fPI, hPQI, "query", "query"), promQ},
		{"prom/query_range-form", inv(fPR, hPQR, "form", "Query"), func(q string) *c10Req { return formOf(promQR(q)) }},
		{"prom/query-form", inv(fPI, hPQI, "form", "Query"), func(q string) *c10Req { return formOf(promQ(q)) }},
	}
	promLang := map[string]string{"prom/query_range": "promql"}
	for _, e := range promEPs {
		e := e
		for _, p := range pqPos {
			p := p
			for _, c := range pqCtx {
				c := c
				if strings.HasSuffix(e.ep, "-form") && c.name != "rate" {
					continue
				}
				lv := full(p.ex)
				if p.name == "matcher-value-single-quoted" {
					lv = []c10Level{{Class: clText}}
				}
				addL(e.ep, "promql/"+p.name+"@"+c.name, e.invk, lv, reachMust, promLang[e.ep], func(v string) string { return c.wrap(p.tmpl(v)) }, e.mk)
			}
		}
		addL(e.ep, "promql/matcher-name", e.invk, identLv, reachMust, promLang[e.ep], func(v string) string { return `m{` + v + `="b"}` }, e.mk)
		addL(e.ep, "promql/metric-name", e.invk, identLv, reachMust, promLang[e.ep], func(v string) string { return v + `{a="b"}` }, e.mk)
		add(e.ep, "promql/by-name", e.invk, identLv, reachMay, func(v string) *c10Req { return e.mk(`sum by (` + v + `) (rate(m{a="b"}[5m]))`) })
		add(e.ep, "promql/without-name", e.invk, identLv, reachMay, func(v string) *c10Req { return e.mk(`max without (` + v + `) (m{a="b"})`) })
		add(e.ep, "promql/whole-query", e.invk, loose, reachMay, func(v string) *c10Req { return e.mk(v) })
	}
	plain("prom/query_range", func() *c10Req { return promQR(`m{a="b"}`) }, []c10PlainSpec{
		{"query", "start", inv(fPR, hPQR, "query", "start")}, {"query", "end", inv(fPR, hPQR, "query", "end")}, {"query", "step", inv(fPR, hPQR, "query", "step")}})
	plain("prom/query", func() *c10Req { return promQ(`m{a="b"}`) }, []c10PlainSpec{{"query", "time", inv(fPI, hPQI, "query", "time")}})
	for _, f := range []string{"Start", "End", "Step"} {
		f := f
		add("prom/query_range-form", "param/form:"+f, inv(fPR, hPQR, "form", f), full(nil), reachNever, func(v string) *c10Req {
			q := formOf(promQR(`m{a="b"}`))
			q.Form = setKV(q.Form, strings.ToLower(f), v)
			return q
		})
	}
	add("prom/query-form", "param/form:Time", inv(fPI, hPQI, "form", "Time"), full(nil), reachNever, func(v string) *c10Req {
		q := formOf(promQ(`m{a="b"}`))
		q.Form = setKV(q.Form, "time", v)
		return q
	})
	add("prom/query_range-form", "param/header:Content-Type", inv(fPR, hPQR, "header", "Content-Type"), full(nil), reachNever, func(v string) *c10Req {
		q := formOf(promQR(`m{a="b"}`))
		q.Hdr = setKV(q.Hdr, "Content-Type", v)
		return q
	})
	add("prom/query-form", "param/header:Content-Type", inv(fPI, hPQI, "header", "Content-Type"), full(nil), reachNever, func(v string) *c10Req {
		q := formOf(promQ(`m{a="b"}`))
		q.Hdr = setKV(q.Hdr, "Content-Type", v)
		return q
	})
	// prom labels / series time parameters
	for _, e := range []struct {
		ep, handler string
		base        func() *c10Req
	}{{"prom/labels", "PromQueryLabelsController.PromLabels", promLabels}, {"prom/series", "PromQueryLabelsController.Series", func() *c10Req { return promSeries(`{a="b"}`) }}} {
		e := e
		plain(e.ep, e.base, []c10PlainSpec{{"query", "start", inv(fPL, e.handler, "query", "start")}, {"query", "end", inv(fPL, e.handler, "query", "end")}})
		add(e.ep, "param/header:content-type", inv(fPL, e.handler, "header", "content-type"), full(nil), reachNever, func(v string) *c10Req {
			q := formOf(e.base())
			q.Hdr = setKV(q.Hdr, "Content-Type", v)
			return q
		})
		for _, f := range []string{"Start", "End"} {
			f := f
			add(e.ep, "param/form:"+f, inv(fPL, e.handler, "form", f), full(nil), reachNever, func(v string) *c10Req {
				q := formOf(e.base())
				q.Form = setKV(q.Form, strings.ToLower(f), v)
				return q
			})
		}
	}
	add("prom/series", "param/header:Content-Type", inv(fPL, "PromQueryLabelsController.Series", "header", "Content-Type"), full(nil), reachNever, func(v string) *c10Req {
		q := formOf(promSeries(`{a="b"}`))
		q.Hdr = setKV(q.Hdr, "Content-Type", v)
		return q
	})
	add("prom/labels", "param/header:Content-Type", inv(fPL, "PromQueryLabelsController.PromLabels", "header", "Content-Type"), full(nil), reachNever, func(v string) *c10Req {
		q := formOf(promLabelsM(`{a="b"}`))
		q.Hdr = setKV(q.Hdr, "Content-Type", v)
		return q
	})
	// prom label values with PromQL match[] (since c17z planned by the PromQL label index query)
	pvInv := inv(fPL, "PromQueryLabelsController.LabelValues", "query", "match[]")
	for _, p := range pqPos {
		p := p
		lv := full(p.ex)
		if p.name == "matcher-value-single-quoted" {
			lv = []c10Level{{Class: clText}}
		}
		// the intermediate LogQL text is decoded with encoding/json: invalid UTF-8 is coerced there
		ex := p.ex
		lv[0].Expect = func(v string) []string {
			var in []string
			if ex == nil {
				in = []string{v}
			} else {
				in = ex(v)
			}
			out := append([]string{}, in...)
			for _, x := range in {
				out = append(out, c10JSONCoerce(x))
			}
			return out
		}
		add("prom/label-values", "promql/"+p.name, pvInv, lv, reachMay, func(v string) *c10Req { return promValues("job", p.tmpl(v)) })
	}
	add("prom/label-values", "promql/matcher-name", pvInv, identLv, reachMust, func(v string) *c10Req { return promValues("job", `m{`+v+`="b"}`) })
	add("prom/label-values", "promql/whole-match", pvInv, loose, reachMay, func(v string) *c10Req { return promValues("job", v) })
	add("prom/label-values-form", "promql/matcher-value-eq", inv(fPL, "PromQueryLabelsController.LabelValues", "form", "match[]"), full(nil), reachMay, func(v string) *c10Req {
		return formOf(promValues("job", `m{a=`+gq(v)+`}`))
	})

	// =========================================================================================== Tempo
	hexLv := []c10Level{{Class: clNoSlash}, {Class: clHex}}
	for _, e := range []struct{ ep, prefix, suffix string }{{"tempo/trace", "", ""}, {"tempo/trace-prefixed", "/tempo", ""}, {"tempo/trace-json", "", "/json"}} {
		e := e
		add(e.ep, "path-traceId", inv(fTe, "TempoController.Trace", "path", "traceId"), hexLv, reachMust, func(v string) *c10Req { return tempoTrace(e.prefix, v, e.suffix) })
	}
	plain("tempo/trace", func() *c10Req { return tempoTrace("", "0123456789abcdef0123456789abcdef", "") }, []c10PlainSpec{
		{"query", "start", inv(fTe, "TempoController.Trace", "query", "start")}, {"query", "end", inv(fTe, "TempoController.Trace", "query", "end")},
		{"header", "Accept", inv(fTe, "TempoController.Trace", "header", "Accept")}})
	for _, pre := range []string{"", "/tempo"} {
		pre := pre
		add("tempo/tag-values"+strings.ReplaceAll(pre, "/", "-"), "path-tag", inv(fTe, "TempoController.Values", "path", "tag"), noSlash, reachMust, func(v string) *c10Req { return tempoValues(pre, v) })
		add("tempo/tag-values"+strings.ReplaceAll(pre, "/", "-"), "path-tag-span-prefix", inv(fTe, "TempoController.Values", "path", "tag"), noSlash, reachMust, func(v string) *c10Req { return tempoValues(pre, "span."+v) })
	}
	// TraceQL
	tq := []struct {
		name string
		tmpl func(v string) string
		ex   func(v string) []string
	}{
		{"attr-value-eq", func(v string) string { return `{.a=` + jq(v) + `}` }, exJSON},
		{"attr-value-neq", func(v string) string { return `{span.a!=` + jq(v) + ` && .b=1}` }, exJSON},
		{"attr-value-regex", func(v string) string { return `{resource.a=~` + jq(reNonLit(v)) + `}` }, func(v string) []string { return []string{c10JSONCoerce(reNonLit(v))} }},
		{"attr-value-nregex", func(v string) string { return `{.a!~` + jq(reLit(v)) + ` || name="x"}` }, func(v string) []string { return []string{c10JSONCoerce(reLit(v))} }},
		{"name-value", func(v string) string { return `{name=` + jq(v) + `}` }, exJSON},
		{"attr-value-second-selector", func(v string) string { return `{.x="1"} && {.a=` + jq(v) + `}` }, exJSON},
		{"attr-value-or-selector", func(v string) string { return `{.x="1" && duration>1ms} || {.a=` + jq(v) + `} | count() > 1` }, exJSON},
		{"attr-value-ticked", func(v string) string { return "{.a=`" + strings.ReplaceAll(v, "`", "\\`") + "`}" }, nil},
	}
	trIdent := []c10Level{{Class: clFull, Loose: true}, {Class: clTrIdent}}
	complexOnly := map[string]bool{"attr-value-second-selector": true, "attr-value-or-selector": true}
	tqEPs := []struct {
		ep   string
		invk []string
		mk   func(q string) *c10Req
	}{
		{"tempo/search-q", inv(fTe, "TempoController.Search", "query", "q"), func(q string) *c10Req { return tempoSearchQ("", q) }},
		{"tempo/search-q-prefixed", inv(fTe, "TempoController.Search", "query", "q"), func(q string) *c10Req { return tempoSearchQ("/tempo", q) }},
		{"tempo/tags-v2", inv(fTe, "TempoController.TagsV2", "query", "q"), tempoTagsV2},
		{"tempo/tag-values-v2", inv(fTe, "TempoController.ValuesV2", "query", "q"), func(q string) *c10Req { return tempoValuesV2("http.method", q) }},
	}
	tqLang := map[string]string{"tempo/search-q": "traceql", "tempo/tags-v2": "traceql-tags", "tempo/tag-values-v2": "traceql-values"}
	for _, e := range tqEPs {
		e := e
		for _, p := range tq {
			p := p
			lv := full(p.ex)
			if p.name == "attr-value-ticked" {
				lv = []c10Level{{Class: clText}}
			}
			reach := reachMust
			if complexOnly[p.name] && (e.ep == "tempo/tags-v2" || e.ep == "tempo/tag-values-v2") {
				reach = reachMay // `{} && {}` is refused by the tags/values planners
			}
			addL(e.ep, "traceql/"+p.name, e.invk, lv, reach, tqLang[e.ep], p.tmpl, e.mk)
		}
		addL(e.ep, "traceql/attr-name", e.invk, trIdent, reachMust, tqLang[e.ep], func(v string) string { return `{.` + v + `="x"}` }, e.mk)
		addL(e.ep, "traceql/attr-name-span", e.invk, trIdent, reachMust, tqLang[e.ep], func(v string) string { return `{span.` + v + `>5}` }, e.mk)
		addL(e.ep, "traceql/attr-name-num", e.invk, trIdent, reachMust, tqLang[e.ep], func(v string) string { return `{.x="1" && resource.` + v + `=-1.5}` }, e.mk)
		addL(e.ep, "traceql/aggregator-attr", e.invk, trIdent, reachMay, tqLang[e.ep], func(v string) string { return `{.x="1"} | avg(` + v + `) > 1` }, e.mk)
		add(e.ep, "traceql/whole-query", e.invk, loose, reachMay, func(v string) *c10Req { return e.mk(v) })
		// number / duration tokens: text there is refused by the parser or is a different query; never in SQL
		add(e.ep, "traceql/num/number", e.invk, full(nil), reachNever, func(v string) *c10Req { return e.mk(`{.a>` + v + `}`) })
		add(e.ep, "traceql/num/duration", e.invk, full(nil), reachNever, func(v string) *c10Req { return e.mk(`{duration>` + v + `ms}`) })
		add(e.ep, "traceql/num/aggregator", e.invk, full(nil), reachNever, func(v string) *c10Req { return e.mk(`{.a="b"} | count() > ` + v) })
	}
	add("tempo/tag-values-v2", "path-tag", inv(fTe, "TempoController.ValuesV2", "path", "tag"), noSlash, reachMust, func(v string) *c10Req { return tempoValuesV2(v, `{.a="b"}`) })
	add("tempo/tag-values-v2", "path-tag-no-q", inv(fTe, "TempoController.ValuesV2", "path", "tag"), noSlash, reachMay, func(v string) *c10Req { return tempoValuesV2(v, "") })
	add("tempo/tag-values-v2", "path-tag-no-window", inv(fTe, "TempoController.ValuesV2", "path", "tag"), noSlash, reachMust, func(v string) *c10Req {
		return &c10Req{Method: "GET", Path: "/api/v2/search/tag/" + v + "/values"}
	})
	plain("tempo/tag-values-v2", func() *c10Req { return tempoValuesV2("x", `{.a="b"}`) }, []c10PlainSpec{
		{"query", "start", inv(fTe, "TempoController.ValuesV2", "query", "start")}, {"query", "end", inv(fTe, "TempoController.ValuesV2", "query", "end")},
		{"query", "limit", inv(fTe, "TempoController.ValuesV2", "query", "limit")}})
	plain("tempo/tags-v2", func() *c10Req { return tempoTagsV2(`{.a="b"}`) }, []c10PlainSpec{
		{"query", "start", inv(fTe, "TempoController.TagsV2", "query", "start")}, {"query", "end", inv(fTe, "TempoController.TagsV2", "query", "end")},
		{"query", "limit", inv(fTe, "TempoController.TagsV2", "query", "limit")}})
	// tempo search ?tags= (logfmt-like)
	tagLit := []c10Level{{Class: clFull, Loose: true}, {Class: clTagLit}}
	sInv := inv(fTe, "TempoController.Search", "query", "tags")
	for _, pre := range []string{"", "/tempo"} {
		pre := pre
		ep := "tempo/search-tags" + strings.ReplaceAll(pre, "/", "-")
		add(ep, "tag-value-literal", sInv, tagLit, reachMust, func(v string) *c10Req { return tempoSearchTags(pre, "a="+v) })
		add(ep, "tag-name-literal", sInv, tagLit, reachMust, func(v string) *c10Req { return tempoSearchTags(pre, v+"=x b=y") })
		add(ep, "tag-value-quoted", sInv, full(nil), reachMust, func(v string) *c10Req { return tempoSearchTags(pre, "a="+gq(v)) })
		add(ep, "tag-name-quoted", sInv, full(nil), reachMust, func(v string) *c10Req { return tempoSearchTags(pre, gq(v)+"!=x") })
		add(ep, "tag-value-regex", sInv, full(func(v string) []string { return []string{reNonLit(v), reLit(v)} }), reachMust, func(v string) *c10Req { return tempoSearchTags(pre, "a=~"+gq(reNonLit(v))+" b!~"+gq(reLit(v))) })
		add(ep, "whole-tags", sInv, loose, reachMay, func(v string) *c10Req { return tempoSearchTags(pre, v) })
	}
	hS := "TempoController.Search"
	plain("tempo/search-tags", func() *c10Req { return tempoSearchTags("", "a=b") }, []c10PlainSpec{
		{"query", "minDuration", inv(fTe, hS, "query", "minDuration")}, {"query", "maxDuration", inv(fTe, hS, "query", "maxDuration")},
		{"query", "limit", inv(fTe, hS, "query", "limit")}, {"query", "start", inv(fTe, hS, "query", "start")}, {"query", "end", inv(fTe, hS, "query", "end")}})
	plain("tempo/search-q", func() *c10Req { return tempoSearchQ("", `{.a="b"}`) }, []c10PlainSpec{
		{"query", "limit", inv(fTe, hS, "query", "limit")}, {"query", "start", inv(fTe, hS, "query", "start")}, {"query", "end", inv(fTe, hS, "query", "end")}})

	// =========================================================================================== Pyroscope
	const qs = "/querier.v1.QuerierService/"
	selTmpl := []struct {
		name string
		tmpl func(v string) string
		ex   func(v string) []string
		lv   []c10Level
	}{
		{"selector-value-eq", func(v string) string { return `{a=` + gq(v) + `}` }, nil, nil},
		{"selector-value-neq", func(v string) string { return `{b="x", a!=` + gq(v) + `,}` }, nil, nil},
		{"selector-value-regex", func(v string) string { return `{a=~` + gq(reNonLit(v)) + `}` }, func(v string) []string { return []string{reNonLit(v)} }, nil},
		{"selector-value-nregex", func(v string) string { return `{a!~` + gq(reLit(v)) + `}` }, func(v string) []string { return []string{reLit(v)} }, nil},
		{"selector-service-name", func(v string) string { return `{service_name=` + gq(v) + `}` }, nil, nil},
		{"selector-profile-type", func(v string) string {
			return `{__profile_type__=~` + gq(reLit(v)) + `, __sample_type__!=` + gq(v) + `}`
		}, func(v string) []string { return []string{reLit(v), v} }, nil},
		{"selector-name-pseudo", func(v string) string { return `{__name__=` + gq(v) + `, __period_unit__!~` + gq(reLit(v)) + `}` }, func(v string) []string { return []string{reLit(v), v} }, nil},
		{"selector-value-ticked", func(v string) string { return "{a=`" + strings.ReplaceAll(v, "`", "") + "`}" }, func(v string) []string { return []string{strings.ReplaceAll(v, "`", "")} }, []c10Level{{Class: clFull}}},
		{"selector-label-name", func(v string) string { return `{` + v + `="x"}` }, nil, identLv},
	}
	type profEP struct {
		ep, handler string
		selField    string // Go field name holding the selector(s)
		mkJSON      func(sel string) *c10Req
		mkProto     func(sel string) *c10Req
	}
	profEPs := []profEP{
		{"prof/label-names", "ProfController.LabelNames", "Matchers",
			func(s string) *c10Req {
				return profJSON(qs+"LabelNames", map[string]any{"matchers": []string{s}, "start": c10StartMs, "end": c10EndMs})
			},
			func(s string) *c10Req {
				return profProto(qs+"LabelNames", &v1.LabelNamesRequest{Matchers: []string{s}, Start: c10StartMs, End: c10EndMs})
			}},
		{"prof/label-values", "ProfController.LabelValues", "Matchers",
			func(s string) *c10Req {
				return profJSON(qs+"LabelValues", map[string]any{"name": "lbl", "matchers": []string{`{z="1"}`, s}, "start": c10StartMs, "end": c10EndMs})
			},
			func(s string) *c10Req {
				return profProto(qs+"LabelValues", &v1.LabelValuesRequest{Name: "lbl", Matchers: []string{s}, Start: c10StartMs, End: c10EndMs})
			}},
		{"prof/merge-stacktraces", "ProfController.SelectMergeStackTraces", "LabelSelector",
			func(s string) *c10Req {
				return profJSON(qs+"SelectMergeStacktraces", map[string]any{"profile_typeID": c10TypeID, "label_selector": s, "start": c10StartMs, "end": c10EndMs})
			},
			func(s string) *c10Req {
				return profProto(qs+"SelectMergeStacktraces", &prof.SelectMergeStacktracesRequest{ProfileTypeID: c10TypeID, LabelSelector: s, Start: c10StartMs, End: c10EndMs})
			}},
		{"prof/select-series", "ProfController.SelectSeries", "LabelSelector",
			func(s string) *c10Req {
				return profJSON(qs+"SelectSeries", map[string]any{"profile_typeID": c10TypeID, "label_selector": s, "start": c10StartMs, "end": c10EndMs, "group_by": []string{"g"}, "step": 15.0})
			},
			func(s string) *c10Req {
				return profProto(qs+"SelectSeries", &prof.SelectSeriesRequest{ProfileTypeID: c10TypeID, LabelSelector: s, Start: c10StartMs, End: c10EndMs, Step: 15})
			}},
		{"prof/merge-profile", "ProfController.MergeProfiles", "LabelSelector",
			func(s string) *c10Req {
				return profJSON(qs+"SelectMergeProfile", map[string]any{"profile_typeID": c10TypeID, "label_selector": s, "start": c10StartMs, "end": c10EndMs})
			},
			func(s string) *c10Req {
				return profProto(qs+"SelectMergeProfile", &prof.SelectMergeProfileRequest{ProfileTypeID: c10TypeID, LabelSelector: s, Start: c10StartMs, End: c10EndMs})
			}},
		{"prof/series", "ProfController.Series", "Matchers",
			func(s string) *c10Req {
				return profJSON(qs+"Series", map[string]any{"matchers": []string{s, `{z="1"}`}, "label_names": []string{"l1"}, "start": c10StartMs, "end": c10EndMs})
			},
			func(s string) *c10Req {
				return profProto(qs+"Series", &prof.SeriesRequest{Matchers: []string{s}, Start: c10StartMs, End: c10EndMs})
			}},
		{"prof/analyze-query", "ProfController.AnalyzeQuery", "Query",
			func(s string) *c10Req {
				return profJSON(qs+"AnalyzeQuery", map[string]any{"query": s, "start": c10StartMs, "end": c10EndMs})
			},
			func(s string) *c10Req {
				return profProto(qs+"AnalyzeQuery", &prof.AnalyzeQueryRequest{Query: s, Start: c10StartMs, End: c10EndMs})
			}},
	}
	for _, e := range profEPs {
		e := e
		invk := append(inv(fProf, e.handler, "body", e.selField), inv(fProf, e.handler, "header", "Content-Type")...)
		for _, p := range selTmpl {
			p := p
			lv := p.lv
			if lv == nil {
				lv = full(p.ex)
			} else if p.ex != nil {
				lv = []c10Level{{Class: lv[0].Class, Expect: p.ex}}
			}
			// JSON body: the selector text goes through encoding/json, QuoteToASCII keeps it ASCII → exact bytes; the ticked form is raw
			lvJ := lv
			if p.name == "selector-value-ticked" {
				lvJ = []c10Level{{Class: clFull, Expect: func(v string) []string { return []string{c10JSONCoerce(strings.ReplaceAll(v, "`", ""))} }}}
			}
			addL(e.ep+"-json", "selector/"+p.name, invk, lvJ, reachMust, "prof:"+e.ep, p.tmpl, e.mkJSON)
			lvP := lv
			if p.name == "selector-value-ticked" {
				lvP = []c10Level{{Class: clFull, Expect: p.ex}, {Class: clText, Expect: p.ex}}
			}
			add(e.ep+"-proto", "selector/"+p.name, invk, lvP, reachMust, func(v string) *c10Req { return e.mkProto(p.tmpl(v)) })
		}
		add(e.ep+"-json", "selector/whole", invk, full(nil), reachMay, func(v string) *c10Req { return e.mkJSON(v) })
		// numeric body fields
		for _, f := range []string{"Start", "End"} {
			f := f
			add(e.ep+"-json", "param/body:"+f, inv(fProf, e.handler, "body", f), full(nil), reachNever, func(v string) *c10Req {
				q := e.mkJSON(`{a="b"}`)
				var m map[string]any
				json.Unmarshal(q.Body, &m)
				m[strings.ToLower(f)] = v
				q.Body, _ = json.Marshal(m)
				return q
			})
		}
		add(e.ep+"-json", "param/header:Content-Type", inv(fProf, e.handler, "header", "Content-Type"), full(nil), reachNever, func(v string) *c10Req {
			q := e.mkJSON(`{a="b"}`)
			q.CT = v
			return q
		})
	}
	// other string fields of the profile bodies
	jb := func(path string, f map[string]any) func(string, string) *c10Req {
		return func(field, v string) *c10Req {
			m := map[string]any{}
			for k, x := range f {
				m[k] = x
			}
			if strings.HasSuffix(field, "[]") {
				m[strings.TrimSuffix(field, "[]")] = []string{"p0", v}
			} else {
				m[field] = v
			}
			return profJSON(path, m)
		}
	}
	jsonLv := full(exJSON)
	lvB := jb(qs+"LabelValues", map[string]any{"name": "lbl", "matchers": []string{`{a="b"}`}, "start": c10StartMs, "end": c10EndMs})
	add("prof/label-values-json", "body-name", inv(fProf, "ProfController.LabelValues", "body", "Name"), jsonLv, reachMust, func(v string) *c10Req { return lvB("name", v) })
	add("prof/label-values-proto", "body-name", inv(fProf, "ProfController.LabelValues", "body", "Name"), []c10Level{{Class: clFull}, {Class: clText}}, reachMust, func(v string) *c10Req {
		return profProto(qs+"LabelValues", &v1.LabelValuesRequest{Name: v, Start: c10StartMs, End: c10EndMs})
	})
	seB := jb(qs+"Series", map[string]any{"matchers": []string{`{a="b"}`}, "label_names": []string{"l"}, "start": c10StartMs, "end": c10EndMs})
	add("prof/series-json", "body-label-names", inv(fProf, "ProfController.Series", "body", "LabelNames"), jsonLv, reachMust, func(v string) *c10Req { return seB("label_names[]", v) })
	add("prof/series-proto", "body-label-names", inv(fProf, "ProfController.Series", "body", "LabelNames"), []c10Level{{Class: clFull}, {Class: clText}}, reachMust, func(v string) *c10Req {
		return profProto(qs+"Series", &prof.SeriesRequest{Matchers: []string{`{a="b"}`}, LabelNames: []string{"l", v}, Start: c10StartMs, End: c10EndMs})
	})
	ssB := jb(qs+"SelectSeries", map[string]any{"profile_typeID": c10TypeID, "label_selector": `{a="b"}`, "start": c10StartMs, "end": c10EndMs, "step": 15.0})
	add("prof/select-series-json", "body-group-by", inv(fProf, "ProfController.SelectSeries", "body", "GroupBy"), jsonLv, reachMust, func(v string) *c10Req { return ssB("group_by[]", v) })
	add("prof/select-series-proto", "body-group-by", inv(fProf, "ProfController.SelectSeries", "body", "GroupBy"), []c10Level{{Class: clFull}, {Class: clText}}, reachMust, func(v string) *c10Req {
		return profProto(qs+"SelectSeries", &prof.SelectSeriesRequest{ProfileTypeID: c10TypeID, LabelSelector: `{a="b"}`, GroupBy: []string{v}, Start: c10StartMs, End: c10EndMs, Step: 15})
	})
	add("prof/select-series-json", "param/body:Step", inv(fProf, "ProfController.SelectSeries", "body", "Step"), full(nil), reachNever, func(v string) *c10Req { return ssB("step", v) })
	add("prof/select-series-json", "param/body:Aggregation", inv(fProf, "ProfController.SelectSeries", "body", "Aggregation"), full(nil), reachNever, func(v string) *c10Req { return ssB("aggregation", v) })
	// profile type id: five ':'-separated parts, each a string position
	typeLv := []c10Level{{Class: clFull, Loose: true}, {Class: clNoColon, Expect: exJSON}}
	for _, e := range []struct{ ep, handler, path string }{
		{"prof/merge-stacktraces-json", "ProfController.SelectMergeStackTraces", "SelectMergeStacktraces"},
		{"prof/select-series-json", "ProfController.SelectSeries", "SelectSeries"},
		{"prof/merge-profile-json", "ProfController.MergeProfiles", "SelectMergeProfile"}} {
		e := e
		for part := 0; part < 5; part++ {
			part := part
			add(e.ep, fmt.Sprintf("body-type-id-part%d", part), inv(fProf, e.handler, "body", "ProfileTypeID"), typeLv, reachMust, func(v string) *c10Req {
				parts := strings.Split(c10TypeID, ":")
				parts[part] = v
				return profJSON(qs+e.path, map[string]any{"profile_typeID": strings.Join(parts, ":"), "label_selector": `{a="b"}`, "start": c10StartMs, "end": c10EndMs, "step": 15.0})
			})
		}
	}
	plainBody := func(ep, handler, path string, f map[string]any, fields ...string) {
		for _, fl := range fields {
			fl := fl
			add(ep, "param/body:"+fl, inv(fProf, handler, "body", fl), full(nil), reachNever, func(v string) *c10Req { return jb(path, f)(strings.ToLower(fl), v) })
		}
		add(ep, "param/header:Content-Type", inv(fProf, handler, "header", "Content-Type"), full(nil), reachNever, func(v string) *c10Req {
			q := profJSON(path, f)
			q.CT = v
			return q
		})
	}
	plainBody("prof/profile-types", "ProfController.ProfileTypes", qs+"ProfileTypes", map[string]any{"start": c10StartMs, "end": c10EndMs}, "Start", "End")
	plainBody("prof/profile-stats", "ProfController.ProfileStats", qs+"GetProfileStats", map[string]any{})
	plainBody("prof/settings", "ProfController.Settings", "/settings.v1.SettingsService/Get", map[string]any{})

	// render-diff: <type id>{selector} in two query parameters
	rd := func(left, right string) *c10Req {
		return &c10Req{Method: "GET", Path: "/pyroscope/render-diff", Query: []kv{{"leftQuery", left}, {"leftFrom", "1700000000000"}, {"leftUntil", "1700003600000"},
			{"rightQuery", right}, {"rightFrom", "1700000000000"}, {"rightUntil", "1700003600000"}}}
	}
	hRD := "ProfController.RenderDiff"
	for _, side := range []string{"left", "right"} {
		side := side
		mk := func(q string) *c10Req {
			other := c10TypeID + `{b="c"}`
			if side == "left" {
				return rd(q, other)
			}
			return rd(other, q)
		}
		invk := inv(fProf, hRD, "query", side+"Query")
		for _, p := range selTmpl {
			p := p
			lv := p.lv
			if lv == nil {
				lv = full(p.ex)
			} else if p.ex != nil {
				lv = []c10Level{{Class: lv[0].Class, Expect: p.ex}}
			}
			add("prof/render-diff-"+side, "selector/"+p.name, invk, lv, reachMust, func(v string) *c10Req { return mk(c10TypeID + p.tmpl(v)) })
		}
		add("prof/render-diff-"+side, "whole-query", invk, loose, reachMay, func(v string) *c10Req { return mk(v) })
		for _, f := range []string{"From", "Until"} {
			f := f
			add("prof/render-diff-"+side, "param/query:"+side+f, inv(fProf, hRD, "query", side+f), full(nil), reachNever, func(v string) *c10Req {
				q := mk(c10TypeID + `{a="b"}`)
				q.Query = setKV(q.Query, side+f, v)
				return q
			})
		}
	}
	// the type id must be equal on both sides: plant the same marker in both
	for part := 0; part < 5; part++ {
		part := part
		add("prof/render-diff", fmt.Sprintf("type-id-part%d", part), append(inv(fProf, hRD, "query", "leftQuery"), inv(fProf, hRD, "query", "rightQuery")...),
			[]c10Level{{Class: clFull, Loose: true}, {Class: clNoColon}}, reachMust, func(v string) *c10Req {
				parts := strings.Split(c10TypeID, ":")
				parts[part] = v
				t := strings.Join(parts, ":")
				return rd(t+`{a="b"}`, t+`{c="d"}`)
			})
	}
	return ps
}
