package main

import (
	"bytes"
	"fmt"
	"regexp"
	"sort"
	"strconv"
	"strings"
	"time"

	"github.com/metrico/qryn/reader/logql/logql_parser"
	"github.com/metrico/qryn/reader/logql/logql_transpiler_v2/clickhouse_planner"
	"verif/harness/h"
	"verif/harness/sqldump"
)

// ---- small Loki databases for the semantic stream

type lokiDB struct {
	gin, ts, smp []string
	values       map[string]bool // every label value (and "") — subjects of label regexes / numeric tests
	lines        map[string]bool
	docs         map[string][][2]string
}

// vocabulary of the parsed query: strings worth planting in the database
type vocab struct {
	labelVals  []string // values compared against labels
	needles    []string // line filter needles
	regexes    []string
	numLits    []string // literal texts as the planner renders them (%f)
	likePats   []string
	labelNames []string
	matchers   [][3]string // label, op, value of the stream selector
	steer      map[string][]string // label ↦ values that decide one of the query's comparisons on it (the value itself, ±1, a match)
	never      map[string]bool     // label names no stream is stored with
}

func (v *vocab) steerTo(label string, vals ...string) {
	if v.steer == nil {
		v.steer = map[string][]string{}
	}
	v.steer[label] = append(v.steer[label], vals...)
}

func likeEsc(s string) string {
	return strings.NewReplacer(`\`, `\\`, "%", `\%`, "_", `\_`).Replace(s)
}

func collectLabelFilter(lf *logql_parser.LabelFilter, v *vocab) {
	if lf == nil {
		return
	}
	if lf.Head.ComplexHead != nil {
		collectLabelFilter(lf.Head.ComplexHead, v)
	} else if s := lf.Head.SimpleHead; s != nil {
		v.labelNames = append(v.labelNames, s.Label.Name)
		if s.StrVal != nil {
			if x, err := s.StrVal.Unquote(); err == nil {
				if s.Fn == "=~" || s.Fn == "!~" {
					v.regexes = append(v.regexes, x)
					v.steerTo(s.Label.Name, strings.Trim(strings.TrimPrefix(x, "(?i)"), "^$.*()[]+?\\"))
				} else {
					v.labelVals = append(v.labelVals, x)
					v.steerTo(s.Label.Name, x)
				}
			}
		} else if f, err := strconv.ParseFloat(s.NumVal, 64); err == nil {
			v.numLits = append(v.numLits, fmt.Sprintf("%f", f))
			v.labelVals = append(v.labelVals, s.NumVal, strconv.FormatFloat(f+1, 'f', -1, 64), strconv.FormatFloat(f-1, 'f', -1, 64))
			v.steerTo(s.Label.Name, s.NumVal, strconv.FormatFloat(f+1, 'f', -1, 64), strconv.FormatFloat(f-1, 'f', -1, 64))
		}
	}
	collectLabelFilter(lf.Tail, v)
}

func collectVocab(s *logql_parser.LogQLScript) vocab {
	var v vocab
	for _, c := range s.StrSelector.StrSelCmds {
		v.labelNames = append(v.labelNames, c.Label.Name)
		x, _ := c.Val.Unquote()
		v.matchers = append(v.matchers, [3]string{c.Label.Name, c.Op, x})
		if c.Op == "=~" || c.Op == "!~" {
			v.regexes = append(v.regexes, x)
		} else {
			v.labelVals = append(v.labelVals, x)
		}
	}
	for _, p := range s.StrSelector.Pipelines {
		if p.LineFilter != nil {
			x, _ := p.LineFilter.Val.Unquote()
			if p.LineFilter.Fn == "|~" || p.LineFilter.Fn == "!~" {
				if lit, _, ok := re2Like(x); ok {
					v.needles = append(v.needles, lit)
					v.likePats = append(v.likePats, "%"+likeEsc(lit)+"%")
				} else {
					v.regexes = append(v.regexes, x)
				}
			} else {
				v.needles = append(v.needles, x)
			}
		}
		if p.LabelFilter != nil {
			collectLabelFilter(p.LabelFilter, &v)
		}
	}
	return v
}

func dateOfNs(ns int64) string { return time.Unix(0, ns).UTC().Format("2006-01-02") }

func genLokiDB(r *h.Rng, c qctx, v vocab) *lokiDB {
	db := &lokiDB{values: map[string]bool{"": true}, lines: map[string]bool{}, docs: map[string][][2]string{}}
	names := append([]string{}, lblNames...)
	valPool := append([]string{"b", "d", "x", "", "5", "5.5", "abc", "Hello", "a.b"}, v.labelVals...)
	for _, re := range v.regexes {
		valPool = append(valPool, strings.Trim(re, "^$.*()[]+?\\"))
	}
	linePool := []string{"", "hello", "x", "a%b", "a_b", "a\\b", "it's", "HELLO world", "foo bar", "123"}
	for _, n := range v.needles {
		linePool = append(linePool, n, "pre"+n+"post", strings.ToUpper(n))
	}
	for _, re := range v.regexes {
		linePool = append(linePool, strings.Trim(re, "^$.*()[]+?\\"))
	}
	nStreams := r.Range(1, 6)
	day := int64(86400e9)
	for fp := 1; fp <= nStreams; fp++ {
		// label set: mostly the names the query mentions
		lbls := map[string]string{}
		for _, n := range v.labelNames {
			if v.never[n] {
				continue
			}
			if r.Chance(80) {
				lbls[n] = h.Pick(r, valPool)
				// half of the time a value that decides one of the query's comparisons on this label: each comparison has to be
				// true of some streams and false of others
				if st := v.steer[n]; len(st) > 0 && r.Chance(50) {
					lbls[n] = h.Pick(r, st)
				}
			}
		}
		for i := r.Intn(3); i > 0; i-- {
			lbls[h.Pick(r, names)] = h.Pick(r, valPool)
		}
		if r.Chance(75) {
			// steer the stream towards satisfying the selector
			for _, m := range v.matchers {
				switch m[1] {
				case "=":
					lbls[m[0]] = m[2]
				case "!=":
					lbls[m[0]] = m[2] + "x"
				case "=~":
					lbls[m[0]] = strings.Trim(strings.TrimPrefix(m[2], "(?i)"), "^$.*()[]+?\\")
				case "!~":
					lbls[m[0]] = "zzz"
				}
			}
		}
		var keys []string
		for k := range lbls {
			keys = append(keys, k)
		}
		sort.Strings(keys)
		var pairs [][2]string
		var docParts []string
		for _, k := range keys {
			pairs = append(pairs, [2]string{k, lbls[k]})
			docParts = append(docParts, strconv.Quote(k)+":"+strconv.Quote(lbls[k]))
			db.values[lbls[k]] = true
		}
		doc := "{" + strings.Join(docParts, ",") + "}"
		db.docs[doc] = pairs
		tp := []int{1, 1, 1, 2, 0}[r.Intn(5)]
		if r.Chance(60) && c.Type != 0 {
			tp = int(c.Type)
		}
		for _, dOff := range []int64{-1, 0, 1} {
			if r.Chance(15) {
				continue // this stream was not indexed on that day
			}
			date := dateOfNs(c.From + dOff*day)
			rowTp := tp
			if r.Chance(10) {
				rowTp = r.Intn(3)
			}
			for _, k := range keys {
				if r.Chance(5) {
					continue
				}
				db.gin = append(db.gin, fmt.Sprintf("%s:%s:%s:%d:%d", hx(date), hx(k), hx(lbls[k]), rowTp, fp))
			}
			db.ts = append(db.ts, fmt.Sprintf("%s:%d:%s:%d", hx(date), fp, hx(doc), rowTp))
		}
		for i := r.Intn(9); i > 0; i-- {
			var ts int64
			switch r.Intn(8) {
			case 0:
				ts = c.From - 1
			case 1:
				ts = c.From
			case 2:
				ts = c.To - 1
			case 3:
				ts = c.To
			case 4:
				ts = c.To + 1
			default:
				span := c.To - c.From
				if span <= 0 {
					span = 1
				}
				ts = c.From + int64(r.U64()%uint64(span))
				if r.Chance(30) {
					ts = c.From + int64(r.Intn(4)) // equal timestamps across streams
				}
			}
			line := h.Pick(r, linePool)
			if len(v.needles) > 0 && r.Chance(50) {
				line = "a " + strings.Join(v.needles, " ") + " z"
			}
			db.lines[line] = true
			stp := tp
			if r.Chance(15) {
				stp = r.Intn(3)
			}
			db.smp = append(db.smp, fmt.Sprintf("%d:%d:%s:%d", fp, ts, hx(line), stp))
		}
	}
	// shuffle table orders: results must not depend on them beyond what ORDER BY fixes
	for _, t := range []*[]string{&db.gin, &db.ts, &db.smp} {
		s := *t
		for i := len(s) - 1; i > 0; i-- {
			j := r.Intn(i + 1)
			s[i], s[j] = s[j], s[i]
		}
	}
	return db
}

func joinOrDash(xs []string, sep string) string {
	if len(xs) == 0 {
		return "-"
	}
	return strings.Join(xs, sep)
}

// oracle tables computed with the real libraries (RE2 = Go regexp; numbers = strconv)
func (db *lokiDB) oracleTables(v vocab) string {
	var re, js, num, cmp, low []string
	subjects := map[string]bool{}
	for s := range db.values {
		subjects[s] = true
	}
	for s := range db.lines {
		subjects[s] = true
	}
	for _, p := range v.regexes {
		rx, err := regexp.Compile(p)
		for s := range subjects {
			m := err == nil && rx.MatchString(s)
			re = append(re, fmt.Sprintf("%s:%s:%d", hx(p), hx(s), b2i(m)))
		}
	}
	for doc, pairs := range db.docs {
		var kv []string
		for _, p := range pairs {
			kv = append(kv, hx(p[0])+"="+hx(p[1]))
		}
		js = append(js, hx(doc)+":"+joinOrDash(kv, ","))
	}
	for s := range db.values {
		f, err := strconv.ParseFloat(s, 64)
		num = append(num, fmt.Sprintf("%s:%d", hx(s), b2i(err == nil)))
		if err != nil {
			continue
		}
		for _, lit := range v.numLits {
			l, _ := strconv.ParseFloat(lit, 64)
			for op, res := range map[string]bool{"==": f == l, "!=": f != l, ">": f > l, ">=": f >= l, "<": f < l, "<=": f <= l} {
				cmp = append(cmp, fmt.Sprintf("%s:%s:%s:%d", hx(op), hx(s), hx(lit), b2i(res)))
			}
		}
	}
	for s := range db.lines {
		low = append(low, hx(s)+":"+h.Hex(bytes.ToLower([]byte(s))))
	}
	for _, p := range v.likePats {
		low = append(low, hx(p)+":"+h.Hex(bytes.ToLower([]byte(p))))
	}
	for _, l := range [][]string{re, js, num, cmp, low} {
		sort.Strings(l)
	}
	return strings.Join([]string{joinOrDash(re, ";"), joinOrDash(js, ";"), joinOrDash(num, ";"), joinOrDash(cmp, ";"), joinOrDash(low, ";")}, " ")
}

// c07Sem: the statement the real planner BUILT (reflection dump) is evaluated by Sql.evalSel on small
// databases and compared with the direct reading LogQL.evalLog: the oracle of C07, on implementation output.
func c07Sem(r *h.Result, rng *h.Rng, n int) error { return c07SemCov(r, rng, n, nil, nil) }

func c07SemCov(r *h.Result, rng *h.Rng, n int, cov *c07gCov, atoms map[string]int) error {
	r.Stream("sem: reflection dump of the real planner's sql_select tree → Sql.evalSel on generated databases vs LogQL.evalLog (oracle on implementation output); also renderSel(dump) = real text")
	var ops, renderOps, implText []string
	var cases []map[string]any
	for i := 0; i < n; i++ {
		query := genLogQuery(rng, 3, 3)
		if i%2 == 1 {
			query = c07gQuery(rng, c07gGuided(c07gCfgPlain, cov)) // derived from the grammar (c07gram.go)
		}
		c := genCtx(rng)
		if c.Limit > 100 {
			c.Limit = int64(rng.Range(1, 4))
		}
		script, err := logql_parser.Parse(query)
		if err != nil {
			continue
		}
		ser, err := serLogQuery(script)
		if err != nil {
			continue
		}
		p, err := clickhouse_planner.Plan(script, true)
		if err != nil {
			continue
		}
		sel, err := p.Process(c.planner())
		if err != nil {
			continue
		}
		text, err := sel.String(sqlDefaultCtx())
		if err != nil {
			continue
		}
		dump := hx(sqldump.Dump(sel))
		v := collectVocab(script)
		v.never = map[string]bool{}
		for _, nm := range c07gNeverStored {
			v.never[nm] = true
		}
		if cov != nil {
			c07gObserve(script, -1, cov.add)
			c07gAtoms(script, -1, func(k string) { atoms[k]++ })
		}
		db := genLokiDB(rng, c, v)
		if cov != nil {
			atoms["truth:measured"]++
			c07gTruth(script, -1, db.docs, func(k string) { atoms["truth:"+k]++ })
		}
		ops = append(ops, fmt.Sprintf("c07sem %s %s %s %s %s %s %s", c.ser(), ser, joinOrDash(db.gin, ";"), joinOrDash(db.ts, ";"), joinOrDash(db.smp, ";"), db.oracleTables(v), dump))
		renderOps = append(renderOps, "sqlrender "+dump)
		implText = append(implText, hx(text))
		cases = append(cases, map[string]any{"query": query, "ctx": c, "gin": db.gin, "ts": db.ts, "samples": db.smp, "sql": text})
	}
	rendered, err := h.Model(renderOps)
	if err != nil {
		return err
	}
	ans, err := h.Model(ops)
	if err != nil {
		return err
	}
	for i := range ops {
		if rendered[i] != implText[i] {
			r.Disagree("sem-render", "sqlrender", implText[i], rendered[i], cases[i])
		}
		a := ans[i]
		var implRes, modelRes string
		var rows int
		fmt.Sscanf(a[strings.LastIndex(a, "rows:"):], "rows:%d", &rows)
		if j := strings.Index(a, " model:"); j > 0 && strings.HasPrefix(a, "impl:") {
			implRes = a[5:j]
			modelRes = a[j+7 : strings.LastIndex(a, " rows:")]
		} else {
			return fmt.Errorf("c07sem answered %q", a)
		}
		r.Case("sem:"+ops[i], rows > 0)
		if rows > 0 {
			r.Count("sem:nonempty-result")
		} else {
			r.Count("sem:empty-result")
		}
		if modelRes != "ok" {
			// the model's own plan disagrees with the specification: contradicts C07.plan_correct
			r.Disagree("sem-model", ops[i][:60], "spec", modelRes, cases[i])
		}
		if implRes != "ok" {
			r.Violate("C07/sql-meaning/"+classifyQuery(cases[i]["query"].(string)),
				fmt.Sprintf("the SQL built for %s returns rows different from the query's meaning: %s", cases[i]["query"], truncS(implRes, 300)),
				map[string]any{"stream": "sem", "case": cases[i], "difference": implRes, "op": ops[i]})
		}
		if i%41 == 0 {
			r.Sample(map[string]any{"stream": "sem", "query": cases[i]["query"], "ctx": cases[i]["ctx"], "rows_expected": rows, "samples_in_db": len(cases[i]["samples"].([]string))})
		}
	}
	return nil
}

func truncS(s string, n int) string {
	if len(s) > n {
		return s[:n] + "…"
	}
	return s
}

// classifyQuery: normalised identity of a failing query = the set of stage operators it uses
func classifyQuery(q string) string {
	var ks []string
	for _, op := range []string{"|=", "|~", "!~", "!=", "=~", " and ", " or ", ">", "<", "=="} {
		if strings.Contains(q, op) {
			ks = append(ks, strings.TrimSpace(op))
		}
	}
	return strings.Join(ks, ",")
}
