package main

// C04 history stream: push requests through the real HTTP handler with the real fingerprint cache and fake
// insert services whose INSERT outcomes are scripted.

import (
	"bytes"
	"context"
	"fmt"
	"net/http"
	"net/http/httptest"
	"runtime"
	"sort"
	"strconv"
	"strings"
	"sync"
	"time"

	clcfg "github.com/metrico/cloki-config/config"
	controllerv1 "github.com/metrico/qryn/writer/controller"
	"github.com/metrico/qryn/writer/model"
	"github.com/metrico/qryn/writer/service"
	"github.com/metrico/qryn/writer/utils/helpers"
	"github.com/metrico/qryn/writer/utils/numbercache"
	"github.com/metrico/qryn/writer/utils/promise"
	"github.com/metrico/qryn/writer/utils/unmarshal"
	"verif/harness/h"
)

// ---- fake insert service: the final outcome of every INSERT is scripted

type c04Svc struct {
	mu      sync.Mutex
	kind    string // "ts" | "spl" | "other"
	fail    bool   // outcome of the INSERTs of the current request
	gotTs   [][]c04Series
	gotSpl  [][]c04Sample
	request int
}

func (s *c04Svc) Run()                      {}
func (s *c04Svc) Stop()                     {}
func (s *c04Svc) Init()                     {}
func (s *c04Svc) PlanFlush()                {}
func (s *c04Svc) Ping() (time.Time, error)  { return time.Now(), nil }
func (s *c04Svc) GetState(int) int          { return 0 }
func (s *c04Svc) GetNodeName() string       { return c04Node() }
func (s *c04Svc) Request(req helpers.SizeGetter, insertMode int) *promise.Promise[uint32] {
	s.mu.Lock()
	defer s.mu.Unlock()
	s.request++
	switch v := req.(type) {
	case *model.TimeSeriesData:
		var rows []c04Series
		for i := range v.MDate {
			rows = append(rows, c04Series{Date: v.MDate[i].Unix(), Stored: c04ToDate(v.MDate[i]), Fp: v.MFingerprint[i], Type: v.MType[i], Doc: v.MLabels[i]})
		}
		s.gotTs = append(s.gotTs, rows)
	case *model.TimeSamplesData:
		var rows []c04Sample
		for i := range v.MTimestampNS {
			rows = append(rows, c04Sample{Fp: v.MFingerprint[i], Ts: v.MTimestampNS[i], Type: v.MType[i]})
		}
		s.gotSpl = append(s.gotSpl, rows)
	}
	if s.fail {
		return promise.Fulfilled[uint32](fmt.Errorf("scripted INSERT failure"), 0)
	}
	return promise.Fulfilled[uint32](nil, 0)
}

type c04Registry struct{ ts, spl, other *c04Svc }

func (r *c04Registry) GetTimeSeriesService(string) (service.IInsertServiceV2, error)    { return r.ts, nil }
func (r *c04Registry) GetSamplesService(string) (service.IInsertServiceV2, error)       { return r.spl, nil }
func (r *c04Registry) GetMetricsService(string) (service.IInsertServiceV2, error)       { return r.other, nil }
func (r *c04Registry) GetSpansService(string) (service.IInsertServiceV2, error)         { return r.other, nil }
func (r *c04Registry) GetSpansSeriesService(string) (service.IInsertServiceV2, error)   { return r.other, nil }
func (r *c04Registry) GetProfileInsertService(string) (service.IInsertServiceV2, error) { return r.other, nil }
func (r *c04Registry) Run()                                                             {}
func (r *c04Registry) Stop()                                                            {}

// One real numbercache.Cache per process (each holds a goroutine and a fastcache). `Cache.DB(node)` prefixes every
// key with the node name, so moving to a node name never used before is observably a cache reset; the real
// ticker-driven Reset is exercised by one dedicated history (c04TickerCache).
var (
	c04NodeMu  sync.Mutex
	c04NodeSeq int
	c04NodeMap = map[string]*model.DataDatabasesMap{}
	c04Real    *numbercache.Cache[uint64]
)

func c04Ser(v uint64) []byte { return []byte(strconv.FormatUint(v, 16)) }

func c04Node() string {
	c04NodeMu.Lock()
	defer c04NodeMu.Unlock()
	return "n" + strconv.Itoa(c04NodeSeq)
}

// c04FreshCache: a cache that holds nothing (new key namespace of the shared real cache)
func c04FreshCache() numbercache.ICache[uint64] {
	c04NodeMu.Lock()
	defer c04NodeMu.Unlock()
	c04NodeSeq++
	n := "n" + strconv.Itoa(c04NodeSeq)
	c04NodeMap[n] = &model.DataDatabasesMap{ClokiBaseDataBase: clcfg.ClokiBaseDataBase{Node: n}}
	if c04Real == nil {
		c04Real = numbercache.NewCache[uint64](time.Hour, c04Ser, c04NodeMap)
	}
	return c04Real
}

// c04TickerCache: a real cache whose ticker clears it every ttl
func c04TickerCache(ttl time.Duration) *numbercache.Cache[uint64] {
	c04NodeMu.Lock()
	defer c04NodeMu.Unlock()
	c04NodeSeq++
	n := "n" + strconv.Itoa(c04NodeSeq)
	c04NodeMap[n] = &model.DataDatabasesMap{ClokiBaseDataBase: clcfg.ClokiBaseDataBase{Node: n}}
	return numbercache.NewCache[uint64](ttl, c04Ser, c04NodeMap)
}

// ---- history description

type c04HEntry struct {
	Day  int   `json:"day"`  // index into c04HistDays
	Off  int64 `json:"off"`  // ns into the day
	Type uint8 `json:"type"` // 1 line, 2 value, 0 both
}
type c04HStream struct {
	Series  int         `json:"series"` // index into the pool
	Entries []c04HEntry `json:"entries"`
	Pad     int         `json:"pad,omitempty"` // extra line bytes (to cross the 1 MiB flush threshold)
}
type c04HOp struct {
	Kind      string       `json:"kind"` // "push" | "reset" | "reset-ticker" (wait for the real ticker of a short-TTL cache)
	Streams   []c04HStream `json:"streams,omitempty"`
	Malformed bool         `json:"malformed,omitempty"` // a trailing stream that fails to decode
	SeriesOk  bool         `json:"series_ok"`
	SamplesOk bool         `json:"samples_ok"`
}
type c04History struct {
	Stream string   `json:"stream"`
	Ops    []c04HOp `json:"ops"`
}

var c04HistDays = []int64{19723, 19724, 19725} // 2024-01-01..03
var c04HistPool = [][]c04Lbl{{{"app", "a"}}, {{"app", "b"}, {"env", "x\ny"}}, {{"job", "j"}}, {{"app", "a"}, {"zone", "é"}}}

func c04HBody(op c04HOp) []byte {
	var streams []string
	for _, s := range op.Streams {
		ls := c04HistPool[s.Series]
		parts := make([]string, len(ls))
		for i, l := range ls {
			parts[i] = c04JSONStr(l.N) + ":" + c04JSONStr(l.V)
		}
		var es []string
		for i, e := range s.Entries {
			ts := c04HistDays[e.Day]*86400*1e9 + e.Off
			line := "l"
			if i == 0 && s.Pad > 0 {
				line = strings.Repeat("p", s.Pad)
			}
			switch e.Type {
			case 1:
				es = append(es, fmt.Sprintf(`{"ts":"%d","line":"%s"}`, ts, line))
			case 2:
				es = append(es, fmt.Sprintf(`{"ts":"%d","value":1.5}`, ts))
			default:
				es = append(es, fmt.Sprintf(`{"ts":"%d","line":"%s","value":2.5}`, ts, line))
			}
		}
		streams = append(streams, fmt.Sprintf(`{"stream":{%s},"entries":[%s]}`, strings.Join(parts, ","), strings.Join(es, ",")))
	}
	if op.Malformed {
		streams = append(streams, `{"stream":{"app":"zz"},"entries":[{"ts":"not-a-time","line":"x"}]}`)
	}
	return []byte(`{"streams":[` + strings.Join(streams, ",") + `]}`)
}

func c04RowsStr(rows []c04Series) string {
	if len(rows) == 0 {
		return "-"
	}
	s := append([]c04Series(nil), rows...)
	sort.Slice(s, func(i, j int) bool {
		if s[i].Stored != s[j].Stored {
			return s[i].Stored < s[j].Stored
		}
		if s[i].Fp != s[j].Fp {
			return s[i].Fp < s[j].Fp
		}
		return s[i].Type < s[j].Type
	})
	parts := make([]string, len(s))
	for i, x := range s {
		parts[i] = fmt.Sprintf("%d.%d.%d", x.Stored, x.Fp, x.Type)
	}
	return strings.Join(parts, ",")
}

// c04MergeChunks: "a1:rows/rows" → "a1:" + all rows sorted (the impl side observes the union per request)
func c04MergeChunks(ans string) string {
	i := strings.Index(ans, ":")
	if i < 0 {
		return ans
	}
	type row struct{ d, f, t uint64 }
	var rows []row
	for _, ch := range strings.Split(ans[i+1:], "/") {
		if ch == "-" || ch == "" {
			continue
		}
		for _, x := range strings.Split(ch, ",") {
			p := strings.Split(x, ".")
			if len(p) != 3 {
				return ans
			}
			d, _ := strconv.ParseUint(p[0], 10, 64)
			f, _ := strconv.ParseUint(p[1], 10, 64)
			t, _ := strconv.ParseUint(p[2], 10, 64)
			rows = append(rows, row{d, f, t})
		}
	}
	sort.Slice(rows, func(a, b int) bool {
		if rows[a].d != rows[b].d {
			return rows[a].d < rows[b].d
		}
		if rows[a].f != rows[b].f {
			return rows[a].f < rows[b].f
		}
		return rows[a].t < rows[b].t
	})
	if len(rows) == 0 {
		return ans[:i+1] + "-"
	}
	parts := make([]string, len(rows))
	for k, x := range rows {
		parts[k] = fmt.Sprintf("%d.%d.%d", x.d, x.f, x.t)
	}
	return ans[:i+1] + strings.Join(parts, ",")
}

// c04RunHistory drives the real handler; returns the model op tokens, the impl answers per op, and judges the
// property on the fake tables.
func c04RunHistory(r *h.Result, hist c04History, poolFp []uint64) (ops []string, impl []string, table []c04Series) {
	ts := &c04Svc{kind: "ts"}
	spl := &c04Svc{kind: "spl"}
	controllerv1.Registry = &c04Registry{ts, spl, &c04Svc{kind: "other"}}
	controllerv1.FPCache = c04FreshCache()
	var ticker *numbercache.Cache[uint64]
	for _, op := range hist.Ops {
		if op.Kind == "reset-ticker" && ticker == nil {
			ticker = c04TickerCache(25 * time.Millisecond)
			controllerv1.FPCache = ticker
		}
	}
	handler := controllerv1.PushStreamV2(controllerv1.NewMiddlewareConfig(controllerv1.WithPreRequest(func(w http.ResponseWriter, req *http.Request) error {
		*req = *req.WithContext(context.WithValue(req.Context(), "DSN", ""))
		return nil
	})))
	var acked []c04Sample
	var samplesTable []c04Sample
	for _, op := range hist.Ops {
		if op.Kind == "reset" || op.Kind == "reset-ticker" {
			if op.Kind == "reset-ticker" {
				time.Sleep(80 * time.Millisecond)
			} else {
				controllerv1.FPCache = c04FreshCache()
			}
			ops = append(ops, "R")
			impl = append(impl, "-")
			continue
		}
		ts.mu.Lock()
		ts.fail, ts.gotTs = !op.SeriesOk, nil
		ts.mu.Unlock()
		spl.mu.Lock()
		spl.fail, spl.gotSpl = !op.SamplesOk, nil
		spl.mu.Unlock()
		rec := httptest.NewRecorder()
		req := httptest.NewRequest("POST", "/loki/api/v1/push", bytes.NewReader(c04HBody(op)))
		req.Header.Set("Content-Type", "application/json")
		handler(rec, req)
		ack := rec.Code >= 200 && rec.Code < 300
		// a failed request returns at the first failed promise: let the remaining pushes of this request reach
		// the services (every flushed chunk is pushed to both; wait until the counts agree and stay put)
		// (every flushed chunk goes to both services; all samples of the body are in the chunks)
		wantSamples := 0
		for _, s := range op.Streams {
			wantSamples += len(s.Entries)
		}
		deadline := time.Now().Add(5 * time.Second)
		for !op.Malformed && !ack {
			ts.mu.Lock()
			n1 := len(ts.gotTs)
			ts.mu.Unlock()
			spl.mu.Lock()
			n2, got := len(spl.gotSpl), 0
			for _, ch := range spl.gotSpl {
				got += len(ch)
			}
			spl.mu.Unlock()
			if (n1 == n2 && got == wantSamples) || time.Now().After(deadline) {
				break
			}
			runtime.Gosched()
		}
		ts.mu.Lock()
		gotTs := ts.gotTs
		ts.mu.Unlock()
		spl.mu.Lock()
		gotSpl := spl.gotSpl
		spl.mu.Unlock()
		var emitted []c04Series
		for _, ch := range gotTs {
			emitted = append(emitted, ch...)
		}
		if op.SeriesOk {
			table = append(table, emitted...)
		}
		var reqSamples []c04Sample
		for _, ch := range gotSpl {
			reqSamples = append(reqSamples, ch...)
		}
		if op.SamplesOk {
			samplesTable = append(samplesTable, reqSamples...)
		}
		if ack {
			acked = append(acked, reqSamples...)
		}
		// ---- model op: chunking as observed on the samples side (one call = one stream)
		callTok := func(s c04HStream) string {
			var es []string
			for _, e := range s.Entries {
				es = append(es, fmt.Sprintf("%dt%d", c04HistDays[e.Day]*86400*1e9+e.Off, e.Type))
			}
			return fmt.Sprintf("%d@%s", poolFp[s.Series], strings.Join(es, ","))
		}
		flag := func(b bool) string {
			if b {
				return "1"
			}
			return "0"
		}
		var tok string
		if op.Malformed {
			var calls []string
			for _, s := range op.Streams {
				calls = append(calls, callTok(s))
			}
			// chunks flushed before the error (big requests) are not generated together with Malformed
			d := strings.Join(calls, "+")
			if d == "" {
				d = "e"
			}
			tok = "P::" + d
		} else {
			var chunks []string
			si := 0
			for _, ch := range gotSpl {
				n := len(ch)
				var calls []string
				for n > 0 && si < len(op.Streams) {
					calls = append(calls, callTok(op.Streams[si]))
					n -= len(op.Streams[si].Entries)
					si++
				}
				chunks = append(chunks, flag(op.SeriesOk)+flag(op.SamplesOk)+"~"+strings.Join(calls, "+"))
			}
			tok = "P:" + strings.Join(chunks, "/") + ":n"
		}
		ops = append(ops, tok)
		impl = append(impl, "a"+flag(ack)+":"+c04RowsStr(emitted))
		r.Count(fmt.Sprintf("history:push:status-%d", rec.Code))
		if len(gotSpl) > 1 {
			r.Count("history:push:multi-chunk")
		}
	}
	// ---- oracle: every sample of an acknowledged push has its series row (UTC day, fingerprint, type) stored
	have := map[string]bool{}
	for _, row := range table {
		have[fmt.Sprintf("%d.%d.%d", row.Stored, row.Fp, row.Type)] = true
	}
	for _, s := range acked {
		k := fmt.Sprintf("%d.%d.%d", s.Ts/1e9/86400, s.Fp, s.Type)
		if !have[k] {
			key := "C04/series-insert-fails-then-retry"
			for _, row := range table {
				if int64(row.Stored) == s.Ts/1e9/86400 && row.Fp == s.Fp {
					key = "C04/series-row-of-another-type-only"
				}
			}
			r.Violate(key, fmt.Sprintf("sample (fingerprint %d, ts %d, type %d) was acknowledged (2xx) but no time_series row (date %d, fingerprint, type) was ever stored; successful series INSERTs carried %s", s.Fp, s.Ts, s.Type, s.Ts/1e9/86400, c04RowsStr(table)), hist)
			break
		}
	}
	if ticker != nil {
		ticker.Stop()
	}
	return ops, impl, table
}

func c04GenHistory(rng *h.Rng, maxOps int, big bool) c04History {
	hist := c04History{Stream: "history"}
	n := rng.Range(2, maxOps)
	var last *c04HOp
	for i := 0; i < n; i++ {
		if rng.Chance(10) {
			hist.Ops = append(hist.Ops, c04HOp{Kind: "reset"})
			continue
		}
		var op c04HOp
		if last != nil && rng.Chance(25) {
			// the client retries the previous request (the database outcome may differ)
			op = *last
			op.Streams = append([]c04HStream(nil), last.Streams...)
			if rng.Chance(50) {
				op.Malformed = false
			}
		} else {
			op.Kind = "push"
			ns := rng.Range(1, 3)
			for k := 0; k < ns; k++ {
				s := c04HStream{Series: rng.Intn(len(c04HistPool))}
				ne := rng.Range(1, 3)
				for e := 0; e < ne; e++ {
					off := []int64{0, 43200e9, 86399999000000}[rng.Intn(3)]
					s.Entries = append(s.Entries, c04HEntry{Day: rng.Intn(3), Off: off, Type: []uint8{1, 1, 2, 0}[rng.Intn(4)]})
				}
				op.Streams = append(op.Streams, s)
			}
			op.Malformed = rng.Chance(10)
			if big && rng.Chance(8) && !op.Malformed {
				for k := range op.Streams {
					op.Streams[k].Pad = 600 * 1024
					op.Streams[k].Entries[0].Type = 1
				}
			}
		}
		op.SeriesOk = !rng.Chance(25)
		op.SamplesOk = !rng.Chance(15)
		for k := range op.Streams { // unique timestamps keep the samples of different requests distinguishable
			es := append([]c04HEntry(nil), op.Streams[k].Entries...)
			for e := range es {
				es[e].Off = es[e].Off/1000000*1000000 + int64(i*1000+k*10+e)
			}
			op.Streams[k].Entries = es
		}
		hist.Ops = append(hist.Ops, op)
		cp := op
		last = &cp
	}
	return hist
}

func c04HistoryStream(r *h.Result, rng *h.Rng, nHist, maxOps int, tier string, only *c04History) error {
	r.Stream("history: controllerv1.PushStreamV2 (real doParse, parser, numbercache.Cache) with fake insert services returning scripted INSERT outcomes, cache resets → per request (status, emitted time_series rows) vs SeriesIndex.run; oracle: every sample of a 2xx push has its (UTC day, fingerprint, type) row among the successfully inserted rows")
	// fingerprints of the pool, learnt from the real parser
	poolFp := make([]uint64, len(c04HistPool))
	for i, ls := range c04HistPool {
		body, _ := c04Protocols()[0].Body(ls, 1704189600000000000)
		out := c04Run(unmarshal.DecodePushRequestStringV2, body, newC04Cache())
		if len(out.Samples) != 1 {
			return fmt.Errorf("history: cannot learn the fingerprint of pool series %d: %+v", i, out)
		}
		poolFp[i] = out.Samples[0].Fp
	}
	var hists []c04History
	if only != nil {
		hists = []c04History{*only}
	} else {
		// the A7 witness first: series INSERT fails, the client retries, the database is healthy again
		one := []c04HStream{{Series: 0, Entries: []c04HEntry{{Day: 1, Off: 36000e9, Type: 1}}}}
		hists = append(hists,
			c04History{"history", []c04HOp{{Kind: "push", Streams: one, SeriesOk: false, SamplesOk: true}, {Kind: "push", Streams: one, SeriesOk: true, SamplesOk: true}}},
			c04History{"history", []c04HOp{{Kind: "push", Streams: one, Malformed: true, SeriesOk: true, SamplesOk: true}, {Kind: "push", Streams: one, SeriesOk: true, SamplesOk: true}}},
			c04History{"history", []c04HOp{{Kind: "push", Streams: one, SeriesOk: true, SamplesOk: true},
				{Kind: "push", Streams: []c04HStream{{Series: 0, Entries: []c04HEntry{{Day: 1, Off: 36001e9, Type: 2}}}}, SeriesOk: true, SamplesOk: true}}},
			c04History{"history", []c04HOp{{Kind: "push", Streams: one, SeriesOk: true, SamplesOk: true}, {Kind: "reset"}, {Kind: "push", Streams: one, SeriesOk: true, SamplesOk: true}}},
			c04History{"history", []c04HOp{{Kind: "push", Streams: one, SeriesOk: true, SamplesOk: true}, {Kind: "push", Streams: one, SeriesOk: true, SamplesOk: true},
				{Kind: "reset-ticker"}, {Kind: "push", Streams: one, SeriesOk: true, SamplesOk: true}}},
		)
		for len(hists) < nHist {
			hists = append(hists, c04GenHistory(rng, maxOps, len(hists)%10 == 0))
		}
	}
	var lines, impls []string
	var cases []any
	for hi, hist := range hists {
		ops, impl, table := c04RunHistory(r, hist, poolFp)
		_, zoneOff := time.Unix(c04HistDays[1]*86400, 0).Zone() // this process' zone (the pool days have no DST change)
		lines = append(lines, fmt.Sprintf("c04hist %d ", zoneOff)+strings.Join(ops, " "))
		impls = append(impls, strings.Join(impl, " ")+" T="+c04RowsStr(table))
		cases = append(cases, hist)
		// non-trivial: a failed or malformed push followed by a later push of one of its series
		nontrivial := false
		failed := map[int]bool{}
		for _, op := range hist.Ops {
			if op.Kind != "push" {
				continue
			}
			for _, s := range op.Streams {
				if failed[s.Series] {
					nontrivial = true
				}
			}
			if !op.SeriesOk || op.Malformed {
				for _, s := range op.Streams {
					failed[s.Series] = true
				}
			}
		}
		r.Case(fmt.Sprintf("history:%s", strings.Join(ops, " ")), nontrivial)
		r.Count(fmt.Sprintf("history:ops-%02d", (len(hist.Ops)+4)/5*5))
		if hi%61 == 0 {
			r.Sample(map[string]any{"stream": "history", "ops": strings.Join(ops, " "), "impl": impls[len(impls)-1]})
		}
	}
	model, err := h.Model(lines)
	if err != nil {
		return err
	}
	for i := range lines {
		parts := strings.Split(model[i], " ")
		for k := range parts {
			if strings.HasPrefix(parts[k], "a0:") || strings.HasPrefix(parts[k], "a1:") {
				parts[k] = c04MergeChunks(parts[k])
			}
		}
		m := strings.Join(parts, " ")
		if m != impls[i] {
			r.Disagree("history", lines[i], impls[i], m, cases[i])
		}
	}
	return nil
}
