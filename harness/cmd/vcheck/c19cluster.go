package main

// C19 on a CLUSTER: maintenance.Rotate over fakes.C19Cluster (N nodes with their own tables and their own local
// settings table, ON CLUSTER ALTERs applied to any subset of nodes on a failure, a connection choice per run) vs the
// Lean model Qryn.Ctrl.RotateCluster (`c19cchain`), plus an oracle that does not use the model.

import (
	"encoding/json"
	"fmt"
	"strconv"
	"strings"
	"time"

	"github.com/metrico/qryn/ctrl/qryn/maintenance"
	"verif/harness/fakes"
	"verif/harness/h"
)

type c19CStep struct {
	Cfg   c19Cfg           `json:"cfg"`
	Conn  int              `json:"conn"`
	Fault *fakes.C19CFault `json:"fault,omitempty"`
}
type c19CChain struct {
	Kind  string     `json:"kind"` // "cluster:<scenario>"
	N     int        `json:"n"`
	Steps []c19CStep `json:"steps"`
}

func (s c19CStep) enc() string {
	f := "n"
	if s.Fault != nil {
		var sel []string
		for _, x := range s.Fault.Sel {
			sel = append(sel, strconv.Itoa(x))
		}
		f = fmt.Sprintf("f%d:%s", s.Fault.At, strings.Join(sel, "+"))
	}
	return fmt.Sprintf("%s/%d/%s", s.Cfg.enc(), s.Conn, f)
}
func (c c19CChain) op(verbose bool) string {
	p := []string{"c19cchain", strconv.Itoa(c.N)}
	if verbose {
		p[0] = "c19cchainv"
	}
	for _, s := range c.Steps {
		p = append(p, s.enc())
	}
	return strings.Join(p, " ")
}

func c19cRotate(cl *fakes.C19Cluster, s c19CStep, after func(cc *fakes.C19ClusterConn, st fakes.C19Stmt)) (ok bool, panicked string, cc *fakes.C19ClusterConn) {
	cc = cl.Connect(s.Conn, s.Fault)
	cc.AfterStmt = after
	days := make([]maintenance.RotatePolicy, len(s.Cfg.Tiers))
	for i, t := range s.Cfg.Tiers {
		days[i] = maintenance.RotatePolicy{TTL: time.Duration(t.Ns), MoveTo: t.Disk}
	}
	defer func() {
		if r := recover(); r != nil {
			ok, panicked = false, fmt.Sprint(r)
		}
	}()
	err := maintenance.Rotate(cc, s.Cfg.Cluster, s.Cfg.Dist, days, s.Cfg.Days, s.Cfg.Policy, c19NopLogger{})
	return err == nil, "", cc
}

// per node: what a process connected to it reads from its LOCAL settings table, then its tables (model: cview false)
func c19cStateText(cl *fakes.C19Cluster, keys c19Keys) string {
	var b strings.Builder
	for i := 0; i < cl.N; i++ {
		fmt.Fprintf(&b, "N %d\n", i)
		for _, fp := range keys.fps {
			v, _ := cl.Marker(false, i, fp)
			fmt.Fprintf(&b, "M %d ", fp)
			c19Val(&b, v)
			b.WriteByte('\n')
		}
		for _, t := range keys.tables {
			b.WriteString("T ")
			c19Val(&b, t)
			b.WriteByte(' ')
			c19Val(&b, cl.TTL[i][t])
			b.WriteByte('\n')
		}
		for _, t := range keys.tables {
			b.WriteString("S ")
			c19Val(&b, t)
			b.WriteByte(' ')
			c19Val(&b, cl.Policy[i][t])
			b.WriteByte('\n')
		}
	}
	return b.String()
}

func c19cTables(cl *fakes.C19Cluster, i int) string {
	var b strings.Builder
	for _, t := range c19Tables {
		fmt.Fprintf(&b, "%s|%q|%q;", t, cl.TTL[i][t], cl.Policy[i][t])
	}
	return b.String()
}

// at this instant: a recorded (non-empty) value a process would READ (settings_dist: the last row of all nodes) is
// carried by all tables of its group ON EVERY NODE
func c19cMarkerCheck(cl *fakes.C19Cluster) *c19Verdict {
	seen := map[uint64]bool{}
	for j := len(cl.Rows) - 1; j >= 0; j-- {
		last := cl.Rows[j]
		if seen[last.Fp] {
			continue
		}
		seen[last.Fp] = true
		if last.Tp != "rotate" || last.Value == "" || last.Name == "" {
			continue
		}
		g, ok := c19Groups[last.Name]
		if !ok {
			return &c19Verdict{"C19/unknown-rotate-setting", fmt.Sprintf("settings row type=rotate name=%q is not one of the known retention settings", last.Name)}
		}
		for i := 0; i < cl.N; i++ {
			for _, t := range g.tables {
				have, what := cl.Policy[i][t], "storage policy"
				if g.ttl {
					have, what = cl.TTL[i][t], "TTL"
				}
				if have != last.Value {
					return &c19Verdict{"C19/cluster-marker-without-tables", fmt.Sprintf("setting %q (row on node %d) records %q while table %s ON NODE %d has %s %q", last.Name, last.Home, last.Value, t, i, what, have)}
				}
			}
		}
	}
	return nil
}

func c19cConverged(cl *fakes.C19Cluster, cfg c19Cfg, nodes []int) *c19Verdict {
	for _, i := range nodes {
		for _, t := range c19Tables {
			if want := c19WantTTL(cfg, t); cl.TTL[i][t] != want {
				return &c19Verdict{"", fmt.Sprintf("node %d: table %s has TTL %q, configuration asks for %q", i, t, cl.TTL[i][t], want)}
			}
			if cfg.Policy != "" && cl.Policy[i][t] != cfg.Policy {
				return &c19Verdict{"", fmt.Sprintf("node %d: table %s has storage policy %q, configuration asks for %q", i, t, cl.Policy[i][t], cfg.Policy)}
			}
		}
	}
	return nil
}

func c19cAllNodes(n int) []int {
	r := make([]int, n)
	for i := range r {
		r[i] = i
	}
	return r
}

// c19cRunChain: the chain on a fresh cluster. judge: the chain is in one of the two layouts rotateDB produces
// (every step clustered: cluster != "" && dist; or every step local: cluster == "" && !dist) and the oracle applies.
func c19cRunChain(ch c19CChain, keys c19Keys) ([]c19StepOut, []c19Verdict) {
	cl := fakes.NewC19Cluster(ch.N, c19Tables, c19InitTTL, c19InitPolicy)
	var verdicts []c19Verdict
	add := func(v *c19Verdict, key string) {
		if v == nil {
			return
		}
		if v.key == "" {
			v.key = key
		}
		verdicts = append(verdicts, *v)
	}
	clustered, local := true, true
	for _, s := range ch.Steps {
		if !(s.Cfg.Cluster != "" && s.Cfg.Dist) {
			clustered = false
		}
		if !(s.Cfg.Cluster == "" && !s.Cfg.Dist) {
			local = false
		}
	}
	after := func(cc *fakes.C19ClusterConn, s fakes.C19Stmt) {
		if clustered && len(verdicts) == 0 {
			add(c19cMarkerCheck(cc.C), "")
		}
		if s.Kind == "X" {
			add(&c19Verdict{"C19/unrecognised-statement", "statement not understood by the fake connection: " + s.Value}, "")
		}
	}
	var outs []c19StepOut
	sameCfg := true
	for i, s := range ch.Steps {
		var others []string
		if local {
			for j := 0; j < cl.N; j++ {
				others = append(others, c19cTables(cl, j))
			}
		}
		ok, pan, cc := c19cRotate(cl, s, after)
		if pan != "" {
			add(&c19Verdict{"C19/panic", "Rotate panicked: " + pan}, "")
		}
		outs = append(outs, c19StepOut{ok, len(cc.Log), c19LogText(cc.Log), c19cStateText(cl, keys)})
		add(c19ClampCheck(cc.Log), "")
		reach := s.Conn < ch.N
		if s.Fault == nil && !ok && reach {
			add(&c19Verdict{"C19/fault-free-run-fails", "cluster: Rotate returned an error although no statement failed"}, "")
		}
		if s.Fault != nil && s.Fault.At < len(cc.Log) && ok {
			add(&c19Verdict{"C19/error-swallowed", fmt.Sprintf("cluster: statement %d failed but Rotate returned nil", s.Fault.At)}, "")
		}
		if i > 0 && s.Cfg.enc() != ch.Steps[0].Cfg.enc() {
			sameCfg = false
		}
		if local {
			for j := 0; j < cl.N; j++ {
				if j != s.Conn && c19cTables(cl, j) != others[j] {
					add(&c19Verdict{"C19/local-run-touches-other-node", fmt.Sprintf("no cluster configured: the run connected to node %d changed tables of node %d", s.Conn, j)}, "")
				}
			}
		}
		if ok && (clustered || local) {
			nodes := c19cAllNodes(cl.N)
			if local {
				nodes = []int{s.Conn}
			}
			add(c19cConverged(cl, s.Cfg, nodes), "C19/cluster-not-converged:"+ch.Kind)
			if i == len(ch.Steps)-1 {
				// running again — clustered: connected to the NEXT node — sends no ALTER and changes nothing
				before := c19cStateText(cl, keys)
				again := c19CStep{Cfg: s.Cfg, Conn: s.Conn}
				if clustered {
					again.Conn = (s.Conn + 1) % cl.N
				}
				ok2, _, cc2 := c19cRotate(cl, again, after)
				for _, st := range cc2.Log {
					if st.IsAlter() {
						add(&c19Verdict{"C19/cluster-reapply-issues-alter", fmt.Sprintf("second run with unchanged configuration (connected to node %d after node %d) sends ALTER TABLE %s (%s %q)", again.Conn, s.Conn, st.Table, st.Kind, st.Value)}, "")
						break
					}
				}
				if !ok2 || c19cStateText(cl, keys) != before {
					add(&c19Verdict{"C19/cluster-reapply-changes-state", "cluster: second run with unchanged configuration fails or changes the state"}, "")
				}
			}
		}
	}
	// clustered: interrupted runs of one configuration + one uninterrupted run end, on every node, with the tables of
	// one uninterrupted run on a fresh cluster
	if n := len(ch.Steps); n > 1 && clustered && sameCfg && ch.Steps[n-1].Fault == nil && ch.Steps[n-1].Conn < ch.N {
		ref := fakes.NewC19Cluster(ch.N, c19Tables, c19InitTTL, c19InitPolicy)
		c19cRotate(ref, c19CStep{Cfg: ch.Steps[n-1].Cfg, Conn: 0}, nil)
		for i := 0; i < ch.N; i++ {
			if c19cTables(ref, i) != c19cTables(cl, i) {
				add(&c19Verdict{"C19/cluster-interrupted-differs", fmt.Sprintf("node %d: tables after interrupted runs + an uninterrupted run differ from those after one uninterrupted run", i)}, "")
				break
			}
		}
	}
	return outs, verdicts
}

type c19CRunner struct {
	r      *h.Result
	keys   c19Keys
	chains []c19CChain
	impl   []string
}

func (x *c19CRunner) run(ch c19CChain) {
	outs, verdicts := c19cRunChain(ch, x.keys)
	for _, v := range verdicts {
		x.r.Violate(v.key, v.what, ch)
	}
	var d []string
	for _, o := range outs {
		d = append(d, o.digest())
	}
	x.chains = append(x.chains, ch)
	x.impl = append(x.impl, strings.Join(d, " "))
	key, _ := json.Marshal(ch)
	nontrivial := len(ch.Steps) > 1
	x.r.Case("cluster-chain:"+string(key), nontrivial)
	x.r.Count("cluster-chain")
	x.r.Count("cluster-chain:" + ch.Kind)
}

func (x *c19CRunner) flush() error {
	if len(x.chains) == 0 {
		return nil
	}
	ops := make([]string, len(x.chains))
	cases := make([]any, len(x.chains))
	for i, c := range x.chains {
		ops[i] = c.op(false)
		cases[i] = c
	}
	err := x.r.Compare("cluster-chain", ops, x.impl, cases)
	x.chains, x.impl = nil, nil
	return err
}

func c19cSubsets(rng *h.Rng, n int, all bool) [][]int {
	var res [][]int
	for mask := 0; mask < 1<<n; mask++ {
		var s []int
		for i := 0; i < n; i++ {
			if mask&(1<<i) != 0 {
				s = append(s, i)
			}
		}
		res = append(res, s)
	}
	if all || len(res) <= 2 {
		return res
	}
	// sampled: none, all, one random proper subset
	return [][]int{res[0], res[len(res)-1], res[1+rng.Intn(len(res)-2)]}
}

func c19cLen(cfg c19Cfg, n, conn int) int {
	cl := fakes.NewC19Cluster(n, c19Tables, c19InitTTL, c19InitPolicy)
	_, _, cc := c19cRotate(cl, c19CStep{Cfg: cfg, Conn: conn}, nil)
	return len(cc.Log)
}

func c19Cluster(r *h.Result, rng *h.Rng, tier string, keys c19Keys) error {
	x := &c19CRunner{r: r, keys: keys}
	thorough := tier != "quick"
	nCfg, nSeq := 40, 150
	if thorough {
		nCfg, nSeq = 700, 6000
	}
	r.Stream("cluster-chain: maintenance.Rotate on fakes.C19Cluster (N = 1..3 nodes with their own tables and local settings rows; ON CLUSTER ALTERs; settings_dist reads) vs Ctrl.RotateCluster.crun — per run: ok flag, parsed statement log, per-node state. Per configuration in the clustered layout (cluster != \"\", distributed): EVERY statement as the failure point × sets of nodes it still took effect on (all sets in thorough) × connection, then an uninterrupted run connected to ANOTHER node, then a re-run from yet another; change sequences with random connections; the local layout (no cluster) with runs on different nodes; mixed layouts (model comparison only)")
	g := rng.Fork()
	for i := 0; i < nCfg; i++ {
		c := c19GenCfg(g)
		if c.Cluster == "" {
			c.Cluster = h.Pick(g, []string{"c1", "my-cluster"})
		}
		c.Dist = true
		n := 1 + i%3
		conn := g.Intn(n)
		total := c19cLen(c, n, conn)
		alt := c19Mutate(g, c)
		alt.Cluster, alt.Dist = c.Cluster, true
		for k := 0; k < total; k++ {
			for _, sel := range c19cSubsets(g, n, thorough) {
				f := &fakes.C19CFault{At: k, Sel: sel}
				next := (conn + 1) % n
				x.run(c19CChain{Kind: "cluster:interrupted-then-same", N: n, Steps: []c19CStep{{c, conn, f}, {c, next, nil}}})
				if k%3 == 0 {
					x.run(c19CChain{Kind: "cluster:interrupted-then-changed", N: n, Steps: []c19CStep{{c, conn, f}, {alt, next, nil}, {c, (next + 1) % n, nil}}})
				}
			}
		}
		if len(x.chains) > 3000 {
			if err := x.flush(); err != nil {
				return err
			}
		}
	}
	if err := x.flush(); err != nil {
		return err
	}
	for i := 0; i < nSeq; i++ {
		n := g.Range(1, 4)
		layout := g.Intn(5) // 0,1,2 clustered; 3 local; 4 mixed
		base := c19GenCfg(g)
		fix := func(c c19Cfg) c19Cfg {
			switch {
			case layout <= 2:
				if c.Cluster == "" {
					c.Cluster = "c1"
				}
				c.Dist = true
			case layout == 3:
				c.Cluster, c.Dist = "", false
			}
			return c
		}
		base = fix(base)
		kind := []string{"cluster:sequence", "cluster:sequence", "cluster:sequence", "cluster:local", "cluster:mixed-layout"}[layout]
		ch := c19CChain{Kind: kind, N: n}
		cur := base
		for j := g.Range(2, 6); j > 0; j-- {
			switch g.Intn(4) {
			case 0:
				cur = fix(c19Mutate(g, cur))
			case 1:
				cur = base
			}
			st := c19CStep{Cfg: cur, Conn: g.Intn(n)}
			if g.Intn(30) == 0 {
				st.Conn = n // nothing answers
			}
			if g.Chance(50) {
				total := 45
				st.Fault = &fakes.C19CFault{At: g.Intn(total), Sel: h.Pick(g, c19cSubsets(g, n, true))}
			}
			ch.Steps = append(ch.Steps, st)
		}
		x.run(ch)
		if len(x.chains) > 3000 {
			if err := x.flush(); err != nil {
				return err
			}
		}
	}
	return x.flush()
}
