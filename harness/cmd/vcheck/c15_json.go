package main

// Byte-exact, order-preserving JSON reader used by the C15 oracle (encoding/json replaces invalid UTF-8 by
// U+FFFD and forgets member order; the property talks about the original bytes). Independent of the Lean
// parser: recursive descent over the RFC 8259 grammar. Strings are decoded to bytes; raw bytes >= 0x80 are
// copied; \uXXXX is decoded to UTF-8, surrogate pairs combined, a lone surrogate becomes U+FFFD (as Go does).

import (
	"strings"
	"unicode/utf8"

	"verif/harness/h"
)

type jv struct {
	kind byte // 'n' null, 't' true, 'f' false, '#' number (s = token), '$' string (s = decoded bytes), '[' array, '{' object
	s    []byte
	arr  []*jv
	keys [][]byte
	vals []*jv
}

type jreader struct {
	b []byte
	i int
}

func (r *jreader) ws() {
	for r.i < len(r.b) && (r.b[r.i] == ' ' || r.b[r.i] == '\t' || r.b[r.i] == '\n' || r.b[r.i] == '\r') {
		r.i++
	}
}

func hexNibble(c byte) (int, bool) {
	switch {
	case c >= '0' && c <= '9':
		return int(c - '0'), true
	case c >= 'a' && c <= 'f':
		return int(c-'a') + 10, true
	case c >= 'A' && c <= 'F':
		return int(c-'A') + 10, true
	}
	return 0, false
}

func (r *jreader) u4() (rune, bool) {
	if r.i+4 > len(r.b) {
		return 0, false
	}
	var v rune
	for k := 0; k < 4; k++ {
		n, ok := hexNibble(r.b[r.i+k])
		if !ok {
			return 0, false
		}
		v = v*16 + rune(n)
	}
	r.i += 4
	return v, true
}

// str: r.i is just behind the opening quote
func (r *jreader) str() ([]byte, bool) {
	out := []byte{}
	for {
		if r.i >= len(r.b) {
			return nil, false
		}
		c := r.b[r.i]
		r.i++
		switch {
		case c == '"':
			return out, true
		case c < 0x20:
			return nil, false
		case c == '\\':
			if r.i >= len(r.b) {
				return nil, false
			}
			e := r.b[r.i]
			r.i++
			switch e {
			case '"', '\\', '/':
				out = append(out, e)
			case 'b':
				out = append(out, 8)
			case 'f':
				out = append(out, 12)
			case 'n':
				out = append(out, 10)
			case 'r':
				out = append(out, 13)
			case 't':
				out = append(out, 9)
			case 'u':
				u, ok := r.u4()
				if !ok {
					return nil, false
				}
				if u >= 0xD800 && u < 0xDC00 {
					// high surrogate: needs \uDC00..DFFF right behind it
					if r.i+6 <= len(r.b) && r.b[r.i] == '\\' && r.b[r.i+1] == 'u' {
						save := r.i
						r.i += 2
						lo, ok2 := r.u4()
						if ok2 && lo >= 0xDC00 && lo < 0xE000 {
							out = utf8.AppendRune(out, 0x10000+(u-0xD800)<<10+(lo-0xDC00))
							continue
						}
						r.i = save
					}
					out = append(out, 0xEF, 0xBF, 0xBD)
				} else if u >= 0xDC00 && u < 0xE000 {
					out = append(out, 0xEF, 0xBF, 0xBD)
				} else {
					out = utf8.AppendRune(out, u)
				}
			default:
				return nil, false
			}
		default:
			out = append(out, c)
		}
	}
}

func isDig(c byte) bool { return c >= '0' && c <= '9' }

func (r *jreader) num() ([]byte, bool) {
	st := r.i
	if r.i < len(r.b) && r.b[r.i] == '-' {
		r.i++
	}
	if r.i >= len(r.b) {
		return nil, false
	}
	if r.b[r.i] == '0' {
		r.i++
	} else if r.b[r.i] >= '1' && r.b[r.i] <= '9' {
		for r.i < len(r.b) && isDig(r.b[r.i]) {
			r.i++
		}
	} else {
		return nil, false
	}
	if r.i < len(r.b) && r.b[r.i] == '.' {
		r.i++
		if r.i >= len(r.b) || !isDig(r.b[r.i]) {
			return nil, false
		}
		for r.i < len(r.b) && isDig(r.b[r.i]) {
			r.i++
		}
	}
	if r.i < len(r.b) && (r.b[r.i] == 'e' || r.b[r.i] == 'E') {
		r.i++
		if r.i < len(r.b) && (r.b[r.i] == '+' || r.b[r.i] == '-') {
			r.i++
		}
		if r.i >= len(r.b) || !isDig(r.b[r.i]) {
			return nil, false
		}
		for r.i < len(r.b) && isDig(r.b[r.i]) {
			r.i++
		}
	}
	return r.b[st:r.i], true
}

func (r *jreader) lit(s string) bool {
	if strings.HasPrefix(string(r.b[r.i:]), s) {
		r.i += len(s)
		return true
	}
	return false
}

func (r *jreader) val(depth int) (*jv, bool) {
	if depth > 200 {
		return nil, false
	}
	r.ws()
	if r.i >= len(r.b) {
		return nil, false
	}
	switch c := r.b[r.i]; {
	case c == '"':
		r.i++
		s, ok := r.str()
		if !ok {
			return nil, false
		}
		return &jv{kind: '$', s: s}, true
	case c == '[':
		r.i++
		v := &jv{kind: '['}
		r.ws()
		if r.i < len(r.b) && r.b[r.i] == ']' {
			r.i++
			return v, true
		}
		for {
			x, ok := r.val(depth + 1)
			if !ok {
				return nil, false
			}
			v.arr = append(v.arr, x)
			r.ws()
			if r.i >= len(r.b) {
				return nil, false
			}
			if r.b[r.i] == ',' {
				r.i++
				continue
			}
			if r.b[r.i] == ']' {
				r.i++
				return v, true
			}
			return nil, false
		}
	case c == '{':
		r.i++
		v := &jv{kind: '{'}
		r.ws()
		if r.i < len(r.b) && r.b[r.i] == '}' {
			r.i++
			return v, true
		}
		for {
			r.ws()
			if r.i >= len(r.b) || r.b[r.i] != '"' {
				return nil, false
			}
			r.i++
			k, ok := r.str()
			if !ok {
				return nil, false
			}
			r.ws()
			if r.i >= len(r.b) || r.b[r.i] != ':' {
				return nil, false
			}
			r.i++
			x, ok := r.val(depth + 1)
			if !ok {
				return nil, false
			}
			v.keys = append(v.keys, k)
			v.vals = append(v.vals, x)
			r.ws()
			if r.i >= len(r.b) {
				return nil, false
			}
			if r.b[r.i] == ',' {
				r.i++
				continue
			}
			if r.b[r.i] == '}' {
				r.i++
				return v, true
			}
			return nil, false
		}
	case c == 't':
		if r.lit("true") {
			return &jv{kind: 't'}, true
		}
		return nil, false
	case c == 'f':
		if r.lit("false") {
			return &jv{kind: 'f'}, true
		}
		return nil, false
	case c == 'n':
		if r.lit("null") {
			return &jv{kind: 'n'}, true
		}
		return nil, false
	default:
		t, ok := r.num()
		if !ok {
			return nil, false
		}
		return &jv{kind: '#', s: t}, true
	}
}

// jdoc: exactly one value surrounded by optional whitespace
func jdoc(b []byte) (*jv, bool) {
	r := &jreader{b: b}
	v, ok := r.val(0)
	if !ok {
		return nil, false
	}
	r.ws()
	if r.i != len(r.b) {
		return nil, false
	}
	return v, true
}

// jdump: the dump syntax of lean/Driver/C15.lean
func jdump(v *jv) string {
	var sb strings.Builder
	var rec func(v *jv)
	rec = func(v *jv) {
		switch v.kind {
		case 'n', 't', 'f':
			sb.WriteByte(v.kind)
		case '#':
			sb.WriteString("#" + h.Hex(v.s))
		case '$':
			sb.WriteString("$" + h.Hex(v.s))
		case '[':
			sb.WriteByte('[')
			for i, x := range v.arr {
				if i > 0 {
					sb.WriteByte(',')
				}
				rec(x)
			}
			sb.WriteByte(']')
		case '{':
			sb.WriteByte('{')
			for i := range v.keys {
				if i > 0 {
					sb.WriteByte(',')
				}
				sb.WriteString(h.Hex(v.keys[i]) + ":")
				rec(v.vals[i])
			}
			sb.WriteByte('}')
		}
	}
	rec(v)
	return sb.String()
}

func (v *jv) get(key string) *jv {
	if v == nil || v.kind != '{' {
		return nil
	}
	for i, k := range v.keys {
		if string(k) == key {
			return v.vals[i]
		}
	}
	return nil
}

// goSanitize: what a decoder gets back from json.Marshal(s): every byte that is not part of a well-formed
// UTF-8 sequence becomes U+FFFD (one per byte)
func goSanitize(s []byte) []byte {
	out := make([]byte, 0, len(s))
	for len(s) > 0 {
		r, n := utf8.DecodeRune(s)
		if r == utf8.RuneError && n == 1 {
			out = append(out, 0xEF, 0xBF, 0xBD)
		} else {
			out = append(out, s[:n]...)
		}
		s = s[n:]
	}
	return out
}
