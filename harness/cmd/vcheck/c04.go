package main

// C04 — series identity depends only on the label set; every sample's series is indexed.
//
// Streams (real code in-process unless said otherwise):
//   labels   label sets × permutations × protocols through the exported parsers
//            (DecodePushRequestStringV2 `stream` and `labels` forms, UnmarshalProtoV2,
//            UnmarshallMetricsWriteProtoV2) → MFingerprint / MLabels vs the model (the harness supplies
//            city.CH64 of the strings involved); oracle: encoding/json decodes the document to the label
//            set, permutation and protocol invariance, every sample row has its series row.
//   json     the model's JSON parser vs encoding/json on generated / mutated documents.
//   history  sequences of pushes through the real HTTP handler controllerv1.PushStreamV2 with the real
//            numbercache and *fake insert services* returning scripted outcomes, cache resets; vs the
//            series-index machine; oracle: every sample of a 2xx push has its series row in the fake table.
//   zones    child processes with TZ set: stored date (ch-go ColDate.Append of the emitted MDate) and the
//            date bounds in the SQL of the real Series/Values planners; vs the model's day arithmetic;
//            oracle: lower ≤ stored ≤ upper for every (writer zone, reader zone) pair.

import (
	"bytes"
	"context"
	"encoding/json"
	"fmt"
	"io"
	"os"
	"regexp"
	"sort"
	"strconv"
	"strings"
	"sync"
	"time"
	"unicode/utf8"

	"github.com/go-faster/city"
	clconfig "github.com/metrico/cloki-config"
	"github.com/metrico/qryn/writer/config"
	"github.com/metrico/qryn/writer/model"
	"github.com/metrico/qryn/writer/utils/logger"
	"github.com/metrico/qryn/writer/utils/numbercache"
	"github.com/metrico/qryn/writer/utils/proto/logproto"
	"github.com/metrico/qryn/writer/utils/proto/prompb"
	"github.com/metrico/qryn/writer/utils/unmarshal"
	"google.golang.org/protobuf/proto"
	"verif/harness/h"
)

func init() {
	props["C04"] = c04
	props["C04zone"] = c04ZoneChild
}

// ---------------------------------------------------------------- common

type c04Lbl struct{ N, V string }

func c04LabelsArg(ls []c04Lbl) string {
	if len(ls) == 0 {
		return "-"
	}
	parts := make([]string, len(ls))
	for i, l := range ls {
		parts[i] = h.Hex([]byte(l.N)) + ":" + h.Hex([]byte(l.V))
	}
	return strings.Join(parts, ",")
}

func c04LabelsJSON(ls []c04Lbl) [][2]string {
	out := make([][2]string, len(ls))
	for i, l := range ls {
		out[i] = [2]string{h.Hex([]byte(l.N)), h.Hex([]byte(l.V))}
	}
	return out
}

// c04Cache: a plain in-memory numbercache.ICache (the streams that need the real cache use numbercache.NewCache)
type c04Cache struct {
	mu sync.Mutex
	m  map[uint64]bool
}

func newC04Cache() *c04Cache { return &c04Cache{m: map[uint64]bool{}} }
func (c *c04Cache) CheckAndSet(k uint64) bool {
	c.mu.Lock()
	defer c.mu.Unlock()
	if c.m[k] {
		return true
	}
	c.m[k] = true
	return false
}
func (c *c04Cache) Has(k uint64) bool {
	c.mu.Lock()
	defer c.mu.Unlock()
	return c.m[k]
}
func (c *c04Cache) DB(string) numbercache.ICache[uint64] { return c }

type c04Series struct {
	Date   int64 // Unix seconds of MDate
	Stored uint16
	Fp     uint64
	Type   uint8
	Doc    string
	Key    uint64 // fingerprint-cache key of the row (ParserResponse.TimeSeriesFpKeys), 0 when not handed out
}
type c04Sample struct {
	Fp   uint64
	Ts   int64
	Type uint8
}
type c04Out struct {
	Err     string
	Series  []c04Series
	Samples []c04Sample
	Chunks  int
}

func c04Collect(ch chan *model.ParserResponse) c04Out {
	var out c04Out
	for r := range ch {
		if r.Error != nil {
			out.Err = r.Error.Error()
			continue
		}
		out.Chunks++
		if ts, ok := r.TimeSeriesRequest.(*model.TimeSeriesData); ok && ts != nil {
			for i := range ts.MDate {
				row := c04Series{Date: ts.MDate[i].Unix(), Stored: c04ToDate(ts.MDate[i]), Fp: ts.MFingerprint[i], Type: ts.MType[i], Doc: ts.MLabels[i]}
				if len(r.TimeSeriesFpKeys) == len(ts.MDate) {
					row.Key = r.TimeSeriesFpKeys[i]
				}
				out.Series = append(out.Series, row)
			}
		}
		if sp, ok := r.SamplesRequest.(*model.TimeSamplesData); ok && sp != nil {
			for i := range sp.MTimestampNS {
				out.Samples = append(out.Samples, c04Sample{Fp: sp.MFingerprint[i], Ts: sp.MTimestampNS[i], Type: sp.MType[i]})
			}
		}
	}
	return out
}

func c04Run(p unmarshal.ParsingFunction, body []byte, cache numbercache.ICache[uint64]) c04Out {
	return c04Collect(p(context.Background(), bytes.NewReader(body), cache))
}

var c04Once sync.Once

func c04Setup() {
	c04Once.Do(func() {
		config.Cloki = clconfig.New(clconfig.CLOKI_WRITER, nil, "", "")
		config.Cloki.Setting.SYSTEM_SETTINGS.RetryAttempts = 1
		config.Cloki.Setting.SYSTEM_SETTINGS.RetryTimeoutS = 0
		logger.Logger.SetOutput(io.Discard) // scripted INSERT failures are logged by doPush
	})
}

// ---------------------------------------------------------------- request bodies

// c04JSONStr: a JSON string literal that carries the bytes of s unchanged (jx does not validate UTF-8)
func c04JSONStr(s string) string {
	var b strings.Builder
	b.WriteByte('"')
	for i := 0; i < len(s); i++ {
		c := s[i]
		switch {
		case c == '"' || c == '\\':
			b.WriteByte('\\')
			b.WriteByte(c)
		case c < 0x20:
			fmt.Fprintf(&b, "\\u%04x", c)
		default:
			b.WriteByte(c)
		}
	}
	b.WriteByte('"')
	return b.String()
}

func c04LokiLabels(ls []c04Lbl) string {
	parts := make([]string, len(ls))
	for i, l := range ls {
		parts[i] = l.N + "=" + strconv.Quote(l.V)
	}
	return "{" + strings.Join(parts, ",") + "}"
}

type c04Proto struct {
	Name   string
	Parser unmarshal.ParsingFunction
	// Body builds a request with one series carrying one sample at tsNs; ok=false when the protocol cannot
	// carry this label list
	Body func(ls []c04Lbl, tsNs int64) ([]byte, bool)
}

var c04GoIdent = regexp.MustCompile(`^[\p{L}_][\p{L}\p{Nd}_]*$`)

func c04Protocols() []c04Proto {
	lokiOK := func(ls []c04Lbl) bool {
		if len(ls) == 0 {
			return false
		}
		for _, l := range ls {
			if !utf8.ValidString(l.N) || !c04GoIdent.MatchString(l.N) {
				return false
			}
		}
		return true
	}
	return []c04Proto{
		{"loki-json-stream", unmarshal.DecodePushRequestStringV2, func(ls []c04Lbl, ts int64) ([]byte, bool) {
			parts := make([]string, len(ls))
			for i, l := range ls {
				parts[i] = c04JSONStr(l.N) + ":" + c04JSONStr(l.V)
			}
			return []byte(fmt.Sprintf(`{"streams":[{"stream":{%s},"values":[["%d","line"]]}]}`, strings.Join(parts, ","), ts)), true
		}},
		{"loki-json-labels", unmarshal.DecodePushRequestStringV2, func(ls []c04Lbl, ts int64) ([]byte, bool) {
			if !lokiOK(ls) {
				return nil, false
			}
			return []byte(fmt.Sprintf(`{"streams":[{"labels":%s,"entries":[{"ts":"%d","line":"line"}]}]}`, c04JSONStr(c04LokiLabels(ls)), ts)), true
		}},
		{"loki-protobuf", unmarshal.UnmarshalProtoV2, func(ls []c04Lbl, ts int64) ([]byte, bool) {
			if !lokiOK(ls) {
				return nil, false
			}
			req := &logproto.PushRequest{Streams: []*logproto.StreamAdapter{{Labels: c04LokiLabels(ls),
				Entries: []*logproto.EntryAdapter{{Timestamp: &logproto.Timestamp{Seconds: ts / 1e9, Nanos: int32(ts % 1e9)}, Line: "line"}}}}}
			b, err := proto.Marshal(req)
			return b, err == nil
		}},
		{"prom-remote-write", unmarshal.UnmarshallMetricsWriteProtoV2, func(ls []c04Lbl, ts int64) ([]byte, bool) {
			var pl []*prompb.Label
			for _, l := range ls {
				if !utf8.ValidString(l.N) || !utf8.ValidString(l.V) {
					return nil, false
				}
				pl = append(pl, &prompb.Label{Name: l.N, Value: l.V})
			}
			req := &prompb.WriteRequest{Timeseries: []*prompb.TimeSeries{{Labels: pl, Samples: []*prompb.Sample{{Value: 1.5, Timestamp: ts / 1e6}}}}}
			b, err := proto.Marshal(req)
			return b, err == nil
		}},
	}
}

// ---------------------------------------------------------------- reference sanitisation (the statement's "sanitized label set")

var c04SanRe = regexp.MustCompile("(^[^a-zA-Z_]|[^a-zA-Z0-9_])")

func c04Sanitize(ls []c04Lbl) []c04Lbl {
	out := make([]c04Lbl, len(ls))
	for i, l := range ls {
		n := c04SanRe.ReplaceAllString(l.N, "_")
		v := l.V
		if len(v) > 100 {
			v = v[:100] + "..."
		}
		out[i] = c04Lbl{strings.ToValidUTF8(n, "\uFFFD"), strings.ToValidUTF8(v, "\uFFFD")}
	}
	return out
}

func c04IsClean(ls []c04Lbl) bool {
	s := c04Sanitize(ls)
	for i := range ls {
		if s[i] != ls[i] {
			return false
		}
	}
	return true
}

// ---------------------------------------------------------------- generators

var c04ValRunes = []rune{'a', 'b', 'z', 'A', '0', '9', ' ', '"', '\\', '/', '\'', '{', '}', ':', ',', '=', '<', '>', '&', '%',
	0, 1, 7, 8, 9, 10, 11, 12, 13, 0x1b, 0x1f, 0x7f, 0x80, 0x9f, 0xa0, 0xe9, 0x2028, 0x2029, 0xfffd, 0xfeff, 0x1f600, 0x10ffff, 0xd7ff, 0xe000}

func c04CleanName(r *h.Rng) string {
	const first = "abcdefghijklmnopqrstuvwxyzABCDEFGHIJKLMNOPQRSTUVWXYZ_"
	const rest = first + "0123456789"
	n := r.Range(1, 8)
	b := make([]byte, n)
	b[0] = first[r.Intn(len(first))]
	for i := 1; i < n; i++ {
		b[i] = rest[r.Intn(len(rest))]
	}
	return string(b)
}

func c04CleanValue(r *h.Rng) string {
	n := r.Intn(14)
	var b strings.Builder
	for i := 0; i < n; i++ {
		if r.Chance(50) {
			b.WriteRune(c04ValRunes[r.Intn(len(c04ValRunes))])
		} else {
			b.WriteByte(byte('a' + r.Intn(26)))
		}
	}
	return b.String()
}

func c04DirtyName(r *h.Rng) string {
	switch r.Intn(5) {
	case 0:
		return c04CleanName(r) + "-" + c04CleanName(r)
	case 1:
		return strconv.Itoa(r.Intn(100)) + c04CleanName(r)
	case 2:
		return "é" + c04CleanName(r)
	case 3:
		return c04CleanName(r) + "." + string(r.Bytes(3))
	default:
		return string(r.Bytes(6))
	}
}

func c04DirtyValue(r *h.Rng) string {
	switch r.Intn(4) {
	case 0:
		return string(r.Bytes(30))
	case 1: // a multi-byte rune straddling the truncation point
		pad := strings.Repeat("x", 97+r.Intn(4))
		return pad + string(c04ValRunes[20+r.Intn(len(c04ValRunes)-20)]) + "tail" + c04CleanValue(r)
	case 2:
		return strings.Repeat(c04CleanValue(r)+"y", 12)
	default:
		return c04CleanValue(r) + string([]byte{0xff, 0xc3, 0x28, 0xe2, 0x82}) + c04CleanValue(r)
	}
}

// c04GenSet: a label list whose sanitized names are distinct; dirty=false → a fixed point of the sanitisation
func c04GenSet(r *h.Rng, maxLabels int, dirty bool) []c04Lbl {
	n := r.Intn(maxLabels + 1)
	if r.Chance(70) && n > 5 {
		n = r.Range(1, 5)
	}
	var ls []c04Lbl
	seen := map[string]bool{"__ttl_days__": true}
	for len(ls) < n {
		var l c04Lbl
		if dirty && r.Chance(40) {
			l.N = c04DirtyName(r)
		} else {
			l.N = c04CleanName(r)
		}
		if dirty && r.Chance(50) {
			l.V = c04DirtyValue(r)
		} else {
			l.V = c04CleanValue(r)
		}
		sn := c04Sanitize([]c04Lbl{l})[0].N
		if seen[sn] {
			continue
		}
		seen[sn] = true
		ls = append(ls, l)
	}
	return ls
}

func c04Perms(n int) [][]int {
	var res [][]int
	p := make([]int, n)
	for i := range p {
		p[i] = i
	}
	var rec func(k int)
	rec = func(k int) {
		if k == n {
			res = append(res, append([]int(nil), p...))
			return
		}
		for i := k; i < n; i++ {
			p[k], p[i] = p[i], p[k]
			rec(k + 1)
			p[k], p[i] = p[i], p[k]
		}
	}
	rec(0)
	return res
}

func c04Apply(ls []c04Lbl, p []int) []c04Lbl {
	out := make([]c04Lbl, len(ls))
	for i, j := range p {
		out[i] = ls[j]
	}
	return out
}

// ---------------------------------------------------------------- oracle pieces

// c04DecodeDoc: the label document through encoding/json, members in document order
func c04DecodeDoc(doc []byte) ([]c04Lbl, error) {
	if !json.Valid(doc) { // Decoder.Token alone is lenient about commas
		return nil, fmt.Errorf("not valid JSON")
	}
	dec := json.NewDecoder(bytes.NewReader(doc))
	t, err := dec.Token()
	if err != nil {
		return nil, err
	}
	if d, ok := t.(json.Delim); !ok || d != '{' {
		return nil, fmt.Errorf("not an object")
	}
	var out []c04Lbl
	for dec.More() {
		k, err := dec.Token()
		if err != nil {
			return nil, err
		}
		ks, ok := k.(string)
		if !ok {
			return nil, fmt.Errorf("key is not a string")
		}
		v, err := dec.Token()
		if err != nil {
			return nil, err
		}
		vs, ok := v.(string)
		if !ok {
			return nil, fmt.Errorf("value is not a string")
		}
		out = append(out, c04Lbl{ks, vs})
	}
	if _, err := dec.Token(); err != nil {
		return nil, err
	}
	if _, err := dec.Token(); err != io.EOF {
		return nil, fmt.Errorf("trailing data")
	}
	return out, nil
}

func c04SetKey(ls []c04Lbl) string {
	s := append([]c04Lbl(nil), ls...)
	sort.Slice(s, func(i, j int) bool { return s[i].N < s[j].N })
	return c04LabelsArg(s)
}

// ---------------------------------------------------------------- labels stream

type c04LabelCase struct {
	Stream   string      `json:"stream"`
	Protocol string      `json:"protocol"`
	Labels   [][2]string `json:"labels_hex"` // as sent, in request order
	Ts       int64       `json:"ts_ns"`
}

type c04LabelRun struct {
	c    c04LabelCase
	sent []c04Lbl
	want []c04Lbl // sanitized, in request order
	out  c04Out
}

func c04RunLabelCase(c c04LabelCase) (*c04LabelRun, error) {
	var sent []c04Lbl
	for _, p := range c.Labels {
		sent = append(sent, c04Lbl{string(h.UnHex(p[0])), string(h.UnHex(p[1]))})
	}
	for _, p := range c04Protocols() {
		if p.Name != c.Protocol {
			continue
		}
		body, ok := p.Body(sent, c.Ts)
		if !ok {
			return nil, fmt.Errorf("protocol %s cannot carry the label list", p.Name)
		}
		return &c04LabelRun{c: c, sent: sent, want: c04Sanitize(sent), out: c04Run(p.Parser, body, newC04Cache())}, nil
	}
	return nil, fmt.Errorf("unknown protocol %s", c.Protocol)
}

// c04JudgeLabelRun: the oracle on one parser run (no model involved). Returns the fingerprint.
func c04JudgeLabelRun(r *h.Result, run *c04LabelRun) (uint64, bool) {
	c := run.c
	if run.out.Err != "" || len(run.out.Samples) != 1 {
		r.Violate("C04/valid-request-rejected/"+c.Protocol, fmt.Sprintf("%s: a push with labels %q was not decoded to one sample: err=%q samples=%d", c.Protocol, run.sent, run.out.Err, len(run.out.Samples)), c)
		return 0, false
	}
	smp := run.out.Samples[0]
	var row *c04Series
	for i := range run.out.Series {
		s := &run.out.Series[i]
		if s.Fp == smp.Fp && s.Type == smp.Type && s.Date == smp.Ts/1e9/86400*86400 {
			row = s
		}
	}
	if row == nil {
		r.Violate("C04/sample-without-series-row", fmt.Sprintf("%s: sample (fp %d, ts %d, type %d) emitted with a fresh cache has no time_series row with its fingerprint, type and UTC day; rows: %+v", c.Protocol, smp.Fp, smp.Ts, smp.Type, run.out.Series), c)
		return smp.Fp, false
	}
	got, err := c04DecodeDoc([]byte(row.Doc))
	if err != nil {
		r.Violate("C04/label-document-not-json", fmt.Sprintf("%s: labels %q are stored as %q which encoding/json rejects: %v", c.Protocol, run.want, row.Doc, err), c)
		return smp.Fp, true
	}
	same := len(got) == len(run.want)
	for i := 0; same && i < len(got); i++ {
		same = got[i] == run.want[i]
	}
	if !same {
		r.Violate("C04/label-document-decodes-differently", fmt.Sprintf("%s: sanitized labels %q are stored as %q which decodes to %q", c.Protocol, run.want, row.Doc, got), c)
	}
	return smp.Fp, true
}

func c04TableArg(strs [][]byte) string {
	seen := map[string]bool{}
	var parts []string
	for _, s := range strs {
		if seen[string(s)] {
			continue
		}
		seen[string(s)] = true
		parts = append(parts, h.Hex(s)+"="+strconv.FormatUint(city.CH64(s), 10))
	}
	if len(parts) == 0 {
		return "-"
	}
	return strings.Join(parts, ",")
}

func c04LabelStream(r *h.Result, rng *h.Rng, nSets, maxLabels, allPermsUpTo int, only *c04LabelCase) error {
	r.Stream("labels: exported ingest parsers (Loki JSON stream/labels, Loki protobuf, Prometheus remote write) → MFingerprint, MLabels vs Fp.fingerprintLabels (CH64 values supplied per line) and Fp.encodeLabels; oracle: encoding/json decode, permutation/protocol invariance, series row present")
	protos := c04Protocols()
	var runs []*c04LabelRun
	fpOfSet := map[string]uint64{}
	setOfFp := map[uint64]string{}
	judge := func(run *c04LabelRun, setKey string, first bool) {
		fp, ok := c04JudgeLabelRun(r, run)
		if !ok {
			return
		}
		runs = append(runs, run)
		if prev, seen := fpOfSet[setKey]; seen && prev != fp {
			key := "C04/fingerprint-depends-on-order"
			if !first {
				key = "C04/fingerprint-depends-on-order-or-protocol"
			}
			r.Violate(key, fmt.Sprintf("%s: the same sanitized label set %q got fingerprint %d, and %d in another order/protocol", run.c.Protocol, run.want, fp, prev), run.c)
		} else if !seen {
			fpOfSet[setKey] = fp
			if other, clash := setOfFp[fp]; clash && other != setKey {
				r.Count("labels:fingerprint-collisions")
				r.Violate("C04/fingerprint-collision", fmt.Sprintf("label sets %s and %s share fingerprint %d", other, setKey, fp), run.c)
			}
			setOfFp[fp] = setKey
		}
	}
	if only != nil {
		run, err := c04RunLabelCase(*only)
		if err != nil {
			return err
		}
		r.Case("labels:"+only.Protocol+":"+c04LabelsArg(run.sent), true)
		judge(run, c04SetKey(run.want), true)
	}
	for i := 0; only == nil && i < nSets; i++ {
		dirty := i%4 == 3
		var ls []c04Lbl
		switch i {
		case 0:
			ls = nil
		case 1:
			ls = []c04Lbl{{"a", "x\x01y"}} // A5 witness
		case 2:
			ls = []c04Lbl{{"ab", "c"}}
		case 3:
			ls = []c04Lbl{{"a", "bc"}}
		case 4:
			ls = []c04Lbl{{"a", strings.Repeat("a", 99) + "é" + "zzz"}}
			dirty = true
		case 5:
			ls = []c04Lbl{{"", ""}, {"_", " \U0001F600\x7f"}}
		default:
			ls = c04GenSet(rng, maxLabels, dirty)
		}
		want := c04Sanitize(ls)
		setKey := c04SetKey(want)
		if _, dup := fpOfSet[setKey]; dup {
			continue
		}
		r.Count(fmt.Sprintf("labels:set-size-%02d", len(ls)))
		if dirty && !c04IsClean(ls) {
			r.Count("labels:set-needs-sanitising")
		} else {
			r.Count("labels:set-clean")
		}
		var perms [][]int
		if len(ls) <= allPermsUpTo {
			perms = c04Perms(len(ls))
		} else {
			id := make([]int, len(ls))
			rev := make([]int, len(ls))
			for k := range id {
				id[k] = k
				rev[k] = len(ls) - 1 - k
			}
			perms = [][]int{id, rev}
			for k := 0; k < 10; k++ {
				p := append([]int(nil), id...)
				for a := len(p) - 1; a > 0; a-- {
					b := rng.Intn(a + 1)
					p[a], p[b] = p[b], p[a]
				}
				perms = append(perms, p)
			}
		}
		ts := int64(1704189600000000000) + int64(rng.Intn(86400*30))*1e9
		for pi, p := range perms {
			sent := c04Apply(ls, p)
			var use []c04Proto
			if pi == 0 {
				use = protos // the identity order goes through every protocol that can carry it
			} else {
				use = []c04Proto{protos[(pi+i)%len(protos)], protos[0]}
				if allPermsUpTo < 5 { // thorough: one protocol per non-identity order, the JSON form as fallback
					if _, ok := use[0].Body(sent, ts); ok {
						use = use[:1]
					}
				}
			}
			done := map[string]bool{}
			for _, pr := range use {
				if done[pr.Name] {
					continue
				}
				done[pr.Name] = true
				if _, ok := pr.Body(sent, ts); !ok {
					continue
				}
				c := c04LabelCase{"labels", pr.Name, c04LabelsJSON(sent), ts}
				run, err := c04RunLabelCase(c)
				if err != nil {
					return err
				}
				r.Count("labels:protocol:" + pr.Name)
				nontrivial := len(ls) >= 2 || !c04IsClean(ls)
				r.Case("labels:"+pr.Name+":"+c04LabelsArg(sent), nontrivial)
				judge(run, setKey, pi == 0)
				if (i*7+pi)%211 == 0 {
					doc := ""
					if len(run.out.Series) > 0 {
						doc = run.out.Series[0].Doc
					}
					r.Sample(map[string]any{"stream": "labels", "protocol": pr.Name, "labels": fmt.Sprintf("%q", sent), "document": doc, "fingerprint": fpOfSet[setKey]})
				}
			}
		}
	}
	// ---- model: pass 1 = the 24 bytes and the document; pass 2 = the fingerprint with CH64 of the 24 bytes in the table
	var ops1 []string
	for _, run := range runs {
		var strs [][]byte
		for _, l := range run.want {
			strs = append(strs, []byte(l.N), []byte(l.V))
		}
		la := c04LabelsArg(run.want)
		ops1 = append(ops1, "c04acc "+la+" "+c04TableArg(strs), "c04enc "+la)
	}
	ans1, err := h.Model(ops1)
	if err != nil {
		return err
	}
	var ops2, impl2 []string
	var cases2 []any
	for i, run := range runs {
		implFp := run.out.Samples[0].Fp
		acc := h.UnHex(ans1[2*i])
		if ans1[2*i] == "bad-op" || len(acc) != 24 {
			r.Disagree("labels/determs", ops1[2*i], "24 bytes", ans1[2*i], run.c)
			continue
		}
		if got := city.CH64(acc); got != implFp {
			r.Disagree("labels/determs", ops1[2*i], strconv.FormatUint(implFp, 10), fmt.Sprintf("CH64(%s)=%d", ans1[2*i], got), run.c)
		}
		doc := ""
		for _, s := range run.out.Series {
			if s.Fp == implFp {
				doc = s.Doc
			}
		}
		if h.Hex([]byte(doc)) != ans1[2*i+1] {
			r.Disagree("labels/document", ops1[2*i+1], h.Hex([]byte(doc)), ans1[2*i+1], run.c)
		}
		var strs [][]byte
		for _, l := range run.want {
			strs = append(strs, []byte(l.N), []byte(l.V))
		}
		strs = append(strs, acc)
		ops2 = append(ops2, "c04fp "+c04LabelsArg(run.want)+" "+c04TableArg(strs))
		impl2 = append(impl2, strconv.FormatUint(implFp, 10))
		cases2 = append(cases2, run.c)
	}
	return r.Compare("labels/fingerprint", ops2, impl2, cases2)
}

// ---------------------------------------------------------------- entry

func c04(r *h.Result, rng *h.Rng, tier string, replay string) error {
	c04Setup()
	nSets, maxLabels, nDocs, nHist, histOps := 500, 5, 3000, 200, 30
	nPipe, nUtf8 := 300, 3000
	zones := []string{"UTC", "Pacific/Kiritimati", "Pacific/Pago_Pago", "America/Los_Angeles"}
	switch tier {
	case "quick":
	case "search": // after a broken obligation: wider than quick, aimed at an oracle failure
		nSets, maxLabels, nDocs, nHist = 1500, 8, 3000, 800
		nPipe, nUtf8 = 1500, 10000
	default:
		nSets, maxLabels, nDocs, nHist, histOps = 20000, 12, 60000, 5000, 30
		nPipe, nUtf8 = 8000, 100000
		zones = append(zones, "Asia/Kolkata", "America/St_Johns", "Pacific/Chatham", "Asia/Kathmandu", "Europe/Berlin")
	}
	r.Rule = "labels: sets of ≤5 (thorough ≤12) labels with distinct sanitized names, 3/4 fixed points of the sanitisation (names [a-zA-Z_][a-zA-Z0-9_]*, values ≤13 runes, half of them from control/quote/DEL/non-BMP/line-separator runes), 1/4 needing sanitisation (arbitrary bytes, invalid UTF-8, values cut at byte 100 inside a rune), all permutations for ≤5 labels (thorough: ≤4; otherwise identity, reverse and 10 random orders), identity order through every protocol that can carry the set; non-trivial = ≥2 labels or needs sanitising; distinct by (protocol, labels as sent). " +
		"pipeline: (1) 1 label whose value has a 2-, 3- or 4-byte rune (11 runes incl. U+07FF/U+0800/U+FFFF/U+10000/U+10FFFF) starting at every offset from 100−len−1 to 101 with 0/1/4 bytes behind it, plus values whose whole prefix is multi-byte, through all 9 forms; (2) 25 invalid sequences (lone continuation/lead bytes, cut runes, over-long forms, surrogates, beyond U+10FFFF, 0xF5–0xFF, runs) alone / inside text / on byte 100 / in the name; (3) generated lists of 1–4 labels (names: 40% needing the name rule incl. invalid bytes and >100 bytes; values: 30% rune-around-the-cut, 10% invalid, 10% invalid at the cut, 10% arbitrary bytes), 15% with a __ttl_days__ label, 10% with a TTL header; every case is non-trivial. " +
		"utf8: all 256 one-byte strings, all 16384 two-byte strings with a lead byte ≥ 0xC0, 11 lead bytes × 10 × 10 boundary continuation bytes in 4 contexts, generated strings; non-trivial = not valid UTF-8 or longer than 100 bytes. " +
		"json: documents written with random white space and escape styles, 40% mutated by one byte; non-trivial = contains an escape or is rejected. " +
		"history: ≤30 ops over a pool of 4 series × 3 days × 3 sample types, pushes with scripted INSERT outcomes (25% series failure, 15% samples failure, 10% malformed trailing stream), 10% cache resets, retries of the previous request 20%; non-trivial = contains a failed or malformed push followed by a push of the same series. " +
		"zones: UTC and local midnights ±1 ns of 6 dates (incl. DST changes and 1970-01-01) per zone plus random instants, 7 windows per instant with margins {0,1ns,1s,30min∓1s,1d}; non-trivial = instant within 1 s of a UTC or local midnight."
	if replay != "" {
		return c04Replay(r, replay)
	}
	t0 := time.Now()
	lap := func(name string) {
		r.Notes = append(r.Notes, fmt.Sprintf("wall %s: %.1fs", name, time.Since(t0).Seconds()))
		t0 = time.Now()
	}
	allPerms := 5
	if tier == "thorough" {
		allPerms = 4 // 5 labels: identity, reverse and 10 random orders instead of all 120
	}
	if err := c04LabelStream(r, rng.Fork(), nSets, maxLabels, allPerms, nil); err != nil {
		return err
	}
	lap("labels")
	if err := c04PipeStream(r, rng.Fork(), nPipe, nil); err != nil {
		return err
	}
	lap("pipeline")
	nRepeat := 24
	if tier != "quick" {
		nRepeat = 240
	}
	if err := c04RepeatStream(r, rng.Fork(), nRepeat, nil); err != nil {
		return err
	}
	lap("repeat")
	if err := c04Utf8Stream(r, rng.Fork(), nUtf8, ""); err != nil {
		return err
	}
	lap("utf8")
	if err := c04JSONStream(r, rng.Fork(), nDocs, ""); err != nil {
		return err
	}
	lap("json")
	if err := c04HistoryStream(r, rng.Fork(), nHist, histOps, tier, nil); err != nil {
		return err
	}
	lap("history")
	if err := c04ZoneStream(r, rng.Fork(), zones, tier, nil); err != nil {
		return err
	}
	lap("zones")
	r.Notes = append(r.Notes,
		"history stream: the real HTTP handler (controllerv1.PushStreamV2 → doParse → parser → numbercache.Cache) is driven; the insert services behind it are fakes returning the scripted final outcome of each INSERT (real services with fake ClickHouse clients are C01/C02's harness); a cache reset moves the handler to a node name never used before (numbercache.Cache.DB prefixes every key with the node name, so nothing set earlier is visible); one history waits for the real ticker of a 25 ms cache instead",
		"labels stream: the harness applies a reference sanitisation to the generated labels before asking the model for the fingerprint of the sanitized set (the statement's view); the pipeline stream hands the model the list the decoder collected and the model runs sanitizeLabels, the __ttl_days__ block, validUTF8Labels, fingerprintLabels, encodeLabels in the order regenerated from onEntries",
		fmt.Sprintf("pipeline stream: requests with a string that is not valid UTF-8 — carried to onEntries: Loki JSON stream %d, Loki JSON labels %d, Loki protobuf (\\xNN in the label text) %d, Influx log %d / metric %d, Datadog logs %d / series %d; refused by the protobuf library before the decoder runs: remote write %d (carried %d), OTLP logs %d (carried %d)",
			r.Distribution["pipeline:invalid-utf8-carried:loki-json-stream"], r.Distribution["pipeline:invalid-utf8-carried:loki-json-labels"], r.Distribution["pipeline:invalid-utf8-carried:loki-protobuf"],
			r.Distribution["pipeline:invalid-utf8-carried:influx-log"], r.Distribution["pipeline:invalid-utf8-carried:influx-metric"], r.Distribution["pipeline:invalid-utf8-carried:datadog-logs"], r.Distribution["pipeline:invalid-utf8-carried:datadog-series"],
			r.Distribution["pipeline:invalid-utf8-rejected:prom-remote-write"], r.Distribution["pipeline:invalid-utf8-carried:prom-remote-write"], r.Distribution["pipeline:invalid-utf8-rejected:otlp-logs"], r.Distribution["pipeline:invalid-utf8-carried:otlp-logs"]),
		fmt.Sprintf("distinct label sets fingerprinted: %d, fingerprint collisions among them: %d (a test, not a theorem: see C04.no_injective_fp)", r.Distribution["labels:set-clean"]+r.Distribution["labels:set-needs-sanitising"], r.Distribution["labels:fingerprint-collisions"]))
	return nil
}

func c04Replay(r *h.Result, path string) error {
	b, err := os.ReadFile(path)
	if err != nil && !strings.HasPrefix(path, "/") {
		b, err = os.ReadFile("../" + path) // ./check runs the harness from harness/
	}
	if err != nil {
		return err
	}
	var f struct {
		Replay json.RawMessage `json:"replay"`
	}
	if err := json.Unmarshal(b, &f); err != nil {
		return err
	}
	var kind struct {
		Stream string `json:"stream"`
	}
	if err := json.Unmarshal(f.Replay, &kind); err != nil {
		return err
	}
	switch kind.Stream {
	case "labels":
		var c c04LabelCase
		if err := json.Unmarshal(f.Replay, &c); err != nil {
			return err
		}
		return c04LabelStream(r, h.NewRng(1), 0, 0, 5, &c)
	case "pipeline":
		var c c04PipeReplay
		if err := json.Unmarshal(f.Replay, &c); err != nil {
			return err
		}
		return c04PipeStream(r, h.NewRng(1), 0, &c)
	case "repeat":
		var c struct {
			Case c04RepeatCase `json:"case"`
		}
		if err := json.Unmarshal(f.Replay, &c); err != nil {
			return err
		}
		return c04RepeatStream(r, h.NewRng(1), 0, &c.Case)
	case "utf8":
		var c struct {
			B string `json:"bytes_hex"`
		}
		if err := json.Unmarshal(f.Replay, &c); err != nil {
			return err
		}
		return c04Utf8Stream(r, h.NewRng(1), 0, c.B)
	case "json":
		var c struct {
			Doc string `json:"doc_hex"`
		}
		if err := json.Unmarshal(f.Replay, &c); err != nil {
			return err
		}
		return c04JSONStream(r, h.NewRng(1), 0, c.Doc)
	case "history":
		var c c04History
		if err := json.Unmarshal(f.Replay, &c); err != nil {
			return err
		}
		return c04HistoryStream(r, h.NewRng(1), 0, 0, "quick", &c)
	case "zones":
		var c c04ZoneReplay
		if err := json.Unmarshal(f.Replay, &c); err != nil {
			return err
		}
		return c04ZoneStream(r, h.NewRng(1), nil, "quick", &c)
	}
	return fmt.Errorf("replay: unknown stream %q", kind.Stream)
}
