package main

import (
	"database/sql/driver"
	"fmt"
	"math/big"
	"net/http/httptest"
	"net/url"
	"regexp"
	"strconv"
	"strings"
	"sync"
	"time"

	"github.com/gorilla/mux"
	rmodel "github.com/metrico/qryn/reader/model"
	rrouter "github.com/metrico/qryn/reader/router"
	"verif/harness/fakes"
	"verif/harness/h"
)

// http-tempo-ends: GET /api/search with `start` / `end` that are not positive Unix seconds — negative, or so large that the
// nanosecond form leaves int64. GetTracesQuery / SQLIndexQuery write each bound only `if > 0` (for the SERVICE 0 means "no bound");
// the oracle (exact integer arithmetic, no model): a request that names `start` (resp. `end`) is either refused (400, no
// statement) or its span read carries `start_time_unix_nano > start·10⁹` (resp. `<= end·10⁹`).

var c13teLower = regexp.MustCompile(`\(start_time_unix_nano\) > \((-?\d+)\)`)
var c13teUpper = regexp.MustCompile(`\(start_time_unix_nano\) <= \((-?\d+)\)`)

func c13HTTPTempoEnds(r *h.Result, rng *h.Rng, n int) error {
	r.Stream("http-tempo-ends: router → TempoController.Search → TempoService.Search over the scripted database with start / end ∈ {absent, 0, negative, now−1 h, now, 9223372036 (largest second whose nanoseconds fit int64), 9223372037, 10¹⁰}: refused with 400 and no statement, or the span read carries exactly the bound start·10⁹ / end·10⁹ (exact arithmetic); vs the controller model Tempo.ctlSecond (c13tctl)")
	c20Setup()
	now := time.Now().Unix()
	pool := []int64{0, 0, 0, -1, -5, -1700000000, now - 3600, now - 86400, now - 60, now, 1700000000, 9223372036, 9223372037, 10000000000, 1}
	var ops, impl []string
	var cases []any
	for i := 0; i < n; i++ {
		startS, endS := h.Pick(rng, pool), h.Pick(rng, pool)
		withTags := rng.Chance(40)
		var mtx sync.Mutex
		var sqls []string
		reg := fakes.NewDBRegistry(&fakes.CallLog{}, func(s string) ([]string, [][]driver.Value, error) {
			mtx.Lock()
			defer mtx.Unlock()
			if strings.HasPrefix(s, "SELECT argMax(name, inserted_at)") {
				return []string{"_name", "_value"}, nil, nil
			}
			if strings.TrimSpace(s) == "SHOW TABLES" {
				return []string{"name"}, nil, nil
			}
			sqls = append(sqls, s)
			return nil, nil, nil
		})
		c13tMtx.Lock()
		c13tSeq++
		reg.M.Session = &c13tNamed{DB: reg.M.Session.(*fakes.DB), name: fmt.Sprintf("c13te-%d", c13tSeq)}
		c13tMtx.Unlock()
		app := mux.NewRouter()
		var ireg rmodel.IDBRegistry = reg
		rrouter.RouteTempo(app, ireg)
		vals := url.Values{}
		if startS != 0 || rng.Chance(50) {
			vals.Set("start", strconv.FormatInt(startS, 10))
		}
		if endS != 0 || rng.Chance(50) {
			vals.Set("end", strconv.FormatInt(endS, 10))
		}
		if withTags {
			vals.Set("tags", `service.name="checkout"`)
		}
		u := "/api/search?" + vals.Encode()
		w := httptest.NewRecorder()
		c13Quiet(func() { app.ServeHTTP(w, httptest.NewRequest("GET", u, nil)) })
		mtx.Lock()
		got := append([]string{}, sqls...)
		mtx.Unlock()
		cs := map[string]any{"stream": "http-tempo-ends", "url": u, "start_s": startS, "end_s": endS, "status": w.Code, "sql": got}
		r.Case(fmt.Sprintf("http-tempo-ends:%d:%d:%v", startS, endS, withTags), startS < 0 || endS < 0 || startS > 9223372036 || endS > 9223372036)
		r.Count(fmt.Sprintf("http-tempo-ends:status=%d:statements=%d", w.Code, len(got)))
		// controller model: what each parameter becomes (refused / default / nanoseconds)
		ops = append(ops, fmt.Sprintf("c13tctl %d %d", startS, endS))
		obs := "refused"
		if len(got) == 1 {
			lo, hi := "none", "none"
			if m := c13teLower.FindStringSubmatch(got[0]); m != nil {
				lo = m[1]
			}
			if m := c13teUpper.FindStringSubmatch(got[0]); m != nil {
				hi = m[1]
			}
			// a defaulted end (now − 6 h / now) is a clock value: only its presence is compared
			if startS == 0 && lo != "none" {
				lo = "default"
			}
			if endS == 0 && hi != "none" {
				hi = "default"
			}
			obs = lo + " " + hi
		} else if len(got) > 1 {
			obs = fmt.Sprintf("%d statements", len(got))
		}
		impl = append(impl, obs)
		cases = append(cases, cs)
		if w.Code == 400 && len(got) == 0 {
			continue
		}
		if len(got) != 1 {
			continue
		}
		check := func(name string, s int64, re *regexp.Regexp, key string) {
			if s == 0 {
				return
			}
			want := new(big.Int).Mul(big.NewInt(s), big.NewInt(1000000000))
			m := re.FindStringSubmatch(got[0])
			if m == nil {
				r.Violate("C13/tempo-search/"+key+"-dropped", fmt.Sprintf("GET %s names %s=%d but the span read has no bound for that end of the window: it reads the whole table on that side", u, name, s), cs)
				return
			}
			have, _ := new(big.Int).SetString(m[1], 10)
			if have.Cmp(want) != 0 {
				r.Violate("C13/tempo-search/"+key+"-wrong", fmt.Sprintf("GET %s names %s=%d (= %s ns) but the span read is bounded by %s", u, name, s, want, have), cs)
			}
		}
		check("start", startS, c13teLower, "window-start")
		check("end", endS, c13teUpper, "window-end")
	}
	return r.Compare("http-tempo-ends", ops, impl, cases)
}
