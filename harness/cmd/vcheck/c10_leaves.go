package main

// C10 structural taint (stream `leaves`): the planner entry points that return sql.ISelect are run on parsed
// scripts carrying the marker, the real object tree is dumped by reflection (harness/sqldump: unexported fields
// included) and every string field holding the marker must be one that is rendered through the escape
// (c10Escaped). A marker inside RawObject.val or any other raw-text field is a violation — unless the position
// is restricted to identifier bytes by a lexer rule (theorem ident_safe covers that embedding).

import (
	"context"
	"fmt"
	"os"
	"sort"
	"strings"
	"time"

	clconfig "github.com/metrico/cloki-config/config"
	"github.com/metrico/qryn/reader/logql/logql_parser"
	"github.com/metrico/qryn/reader/logql/logql_transpiler_v2"
	"github.com/metrico/qryn/reader/logql/logql_transpiler_v2/clickhouse_planner"
	"github.com/metrico/qryn/reader/logql/logql_transpiler_v2/shared"
	rmodel "github.com/metrico/qryn/reader/model"
	"github.com/metrico/qryn/reader/prof"
	profparser "github.com/metrico/qryn/reader/prof/parser"
	profshared "github.com/metrico/qryn/reader/prof/shared"
	v1 "github.com/metrico/qryn/reader/prof/types/v1"
	promtr "github.com/metrico/qryn/reader/promql/transpiler"
	traceql_parser "github.com/metrico/qryn/reader/traceql/parser"
	"github.com/metrico/qryn/reader/traceql/transpiler/clickhouse_transpiler"
	"github.com/metrico/qryn/reader/utils/dbVersion"
	sql "github.com/metrico/qryn/reader/utils/sql_select"
	"github.com/metrico/qryn/reader/utils/tables"
	"github.com/prometheus/prometheus/model/labels"
	promparser "github.com/prometheus/prometheus/promql/parser"
	"github.com/prometheus/prometheus/storage"

	"verif/harness/h"
	"verif/harness/sqldump"
)

// c10Escaped: Type.field pairs whose content reaches the SQL text only through sql.NewStringVal(...).String
// (checked by reading the String methods; the text-level taint run is the evidence that the list is right: a
// field listed here but rendered raw is caught there)
var c10Escaped = map[string]string{
	"StringVal.val":             "sql_select/objects.go StringVal.String — the escape itself",
	"sqlMatch.pattern":          "clickhouse_planner/sql_misc.go sqlMatch.String: NewStringVal(pattern)",
	"matchRe.re":                "traceql attr_condition.go matchRe.String: NewStringVal(re)",
	"sqlJsonParser.labels":      "planner_parser_json.go: NewStringVal(l)",
	"sqlJsonParser.paths":       "planner_parser_json.go path2Sql: NewStringVal(part)",
	"regexMap.labels":           "planner_parser_regexp.go regexMap.String: NewStringVal(l)",
	"regexMap.re":               "planner_parser_regexp.go regexMap.String: NewStringVal(re)",
	"mapDropFilter.labels":      "planner_drop.go genFilterFn: NewStringVal(l)",
	"mapDropFilter.values":      "planner_drop.go genFilterFn: NewStringVal(values[i])",
	"sqlFormat.format":          "sql_misc.go sqlFormat.String: NewStringVal(format)",
	"sqlAttrValue.attr":         "traceql attr_condition.go sqlAttrValue.String: NewStringVal(attr)",
	"byWithoutFilterCol.labels": "planner_by_without.go byWithoutFilterCol.String: NewStringVal(label)",
}

// a text to be judged by the model lexer after the run: a raw-text field holding the marker (it must then be a
// complete fragment in which the marker sits inside one properly escaped literal — doLike pre-renders its
// pattern that way) or the rendering of the whole tree
type c10Frag struct {
	fold            bool
	key, what, text string
	m               c10Marker
	want            []string
	ident           bool
	replay          map[string]any
}

func c10JudgeFrag(f *c10Frag, lx *c10Lexed) string {
	toks := c10ParseToks(lx.lex[f.text])
	head := []byte(f.m.Head)
	raw := strings.Count(f.text, f.m.Head)
	in := 0
	for _, t := range toks {
		switch t.Kind {
		case "E":
			return "does not lex (error token)"
		case "S":
			n := strings.Count(string(t.Val), f.m.Head)
			if n == 0 {
				continue
			}
			in += n
			ok := f.want == nil
			for _, w := range f.want {
				if strings.Contains(string(t.Val), w) || f.fold && strings.Contains(strings.ToUpper(string(t.Val)), strings.ToUpper(w)) {
					ok = true
				}
			}
			if !ok {
				return fmt.Sprintf("literal %q does not contain the intended bytes %q", t.Val, f.want)
			}
		case "W", "Q":
			if n := strings.Count(string(t.Val), string(head)); n > 0 {
				if !f.ident {
					return fmt.Sprintf("marker in a word/identifier token %q", t.Val)
				}
				in += n
			}
		}
	}
	if in != raw {
		return fmt.Sprintf("marker occurs %d times in the text, %d times inside tokens (comment or split)", raw, in)
	}
	return ""
}

type c10Leaf struct {
	Owner string // Type.field of the nearest enclosing node
	Val   string
}

// c10DumpLeaves parses the s-expression of sqldump.Dump and returns every string leaf with its owner
func c10DumpLeaves(d string) ([]c10Leaf, error) {
	var res []c10Leaf
	pos := 0
	var node func(owner string) error
	var value func(owner string) error
	skipSp := func() {
		for pos < len(d) && d[pos] == ' ' {
			pos++
		}
	}
	value = func(owner string) error {
		skipSp()
		if pos >= len(d) {
			return fmt.Errorf("unexpected end")
		}
		switch d[pos] {
		case '(':
			return node(owner)
		case '[':
			pos++
			for {
				skipSp()
				if pos >= len(d) {
					return fmt.Errorf("unterminated list")
				}
				if d[pos] == ']' {
					pos++
					return nil
				}
				if err := value(owner); err != nil {
					return err
				}
			}
		}
		st := pos
		for pos < len(d) && !strings.ContainsRune(" )]", rune(d[pos])) {
			pos++
		}
		atom := d[st:pos]
		if strings.HasPrefix(atom, "h:") {
			v := ""
			if atom != "h:-" {
				v = string(h.UnHex(atom[2:]))
			}
			res = append(res, c10Leaf{owner, v})
		}
		return nil
	}
	node = func(owner string) error {
		pos++ // (
		st := pos
		for pos < len(d) && d[pos] != ' ' && d[pos] != ')' {
			pos++
		}
		tn := d[st:pos]
		for {
			skipSp()
			if pos >= len(d) {
				return fmt.Errorf("unterminated node")
			}
			if d[pos] == ')' {
				pos++
				return nil
			}
			st := pos
			for pos < len(d) && d[pos] != '=' {
				pos++
			}
			field := d[st:pos]
			pos++
			own := tn + "." + field
			if tn == "KV" || tn == "" {
				own = owner + "/" + field
			}
			if err := value(own); err != nil {
				return err
			}
		}
	}
	if err := value("root"); err != nil {
		return nil, err
	}
	return res, nil
}

func c10PlannerCtx(cluster bool, versions bool) *shared.PlannerContext {
	db := &rmodel.DataDatabasesMap{Config: &clconfig.ClokiBaseDataBase{Name: "qryn"}}
	if cluster {
		db.Config.ClusterName = "c1"
	}
	vi := dbVersion.VersionInfo{}
	if versions {
		vi = dbVersion.VersionInfo{"tempo_v2": 0, "v3_1": 0, "v5": 0}
	}
	ctx := &shared.PlannerContext{
		IsCluster: cluster, From: time.Unix(1700000000, 0), To: time.Unix(1700003600, 0), Limit: 100,
		Ctx: context.Background(), CHFinalize: true, Step: time.Minute, Type: 1, VersionInfo: vi,
		CHSqlCtx: &sql.Ctx{Params: map[string]sql.SQLObject{}, Result: map[string]sql.SQLObject{}},
	}
	tables.PopulateTableNames(ctx, db)
	return ctx
}

func c10DB(cluster bool) *rmodel.DataDatabasesMap {
	db := &rmodel.DataDatabasesMap{Config: &clconfig.ClokiBaseDataBase{Name: "qryn"}}
	if cluster {
		db.Config.ClusterName = "c1"
	}
	return db
}

// c10Plan runs the planner entry points for a language on a script text; returns the object trees built
func c10Plan(lang, text string, cluster bool, aux string) (res []sql.ISelect, err error) {
	defer func() {
		if e := recover(); e != nil {
			err = fmt.Errorf("panic: %v", e)
		}
	}()
	pctx := func() *shared.PlannerContext { return c10PlannerCtx(cluster, true) }
	addP := func(p shared.SQLRequestPlanner, e error) error {
		if e != nil {
			return e
		}
		sel, e := p.Process(pctx())
		if e != nil {
			return e
		}
		res = append(res, sel)
		return nil
	}
	from, to := time.Unix(1700000000, 0), time.Unix(1700003600, 0)
	switch {
	case lang == "logql":
		script, e := logql_parser.Parse(text)
		if e != nil {
			return nil, e
		}
		e1 := addP(clickhouse_planner.Plan(script, true))
		script2, _ := logql_parser.Parse(text)
		e2 := addP(clickhouse_planner.Plan(script2, false))
		if e1 != nil && e2 != nil {
			return nil, e1
		}
	case lang == "logql-series":
		script, e := logql_parser.ParseSeries(text)
		if e != nil {
			return nil, e
		}
		fp, e := logql_transpiler_v2.PlanFingerprints(script)
		if e != nil {
			return nil, e
		}
		var pl shared.SQLRequestPlanner = &clickhouse_planner.MultiStreamSelectPlanner{Mains: []shared.SQLRequestPlanner{fp}}
		if e := addP(clickhouse_planner.NewSeriesPlanner(pl), nil); e != nil {
			return nil, e
		}
	case lang == "logql-values":
		script, e := logql_parser.Parse(text)
		if e != nil {
			return nil, e
		}
		fp, e := logql_transpiler_v2.PlanFingerprints(script)
		if e != nil {
			return nil, e
		}
		var pl shared.SQLRequestPlanner = &clickhouse_planner.MultiStreamSelectPlanner{Mains: []shared.SQLRequestPlanner{fp}}
		if e := addP(clickhouse_planner.NewValuesPlanner(pl, aux), nil); e != nil {
			return nil, e
		}
	case lang == "promql":
		expr, e := promparser.ParseExpr(text)
		if e != nil {
			return nil, e
		}
		var sels [][]*labels.Matcher
		promparser.Inspect(expr, func(n promparser.Node, _ []promparser.Node) error {
			if vs, ok := n.(*promparser.VectorSelector); ok {
				sels = append(sels, vs.LabelMatchers)
			}
			return nil
		})
		for _, ms := range sels {
			for _, hints := range []*storage.SelectHints{
				{Start: 1700000000000, End: 1700003600000, Step: 15000, Func: "rate", Range: 300000},
				{Start: 1700000000001, End: 1700003600000, Step: 1000, Func: "", By: true, Grouping: []string{"a"}},
			} {
				ctx := pctx()
				ctx.Type = 2
				r1, e := promtr.TranspileLabelMatchers(hints, ctx, ms...)
				if e != nil {
					return nil, e
				}
				res = append(res, r1.Query)
				ctx = pctx()
				ctx.Type = 2
				r2, e := promtr.TranspileLabelMatchersDownsample(hints, ctx, ms...)
				if e != nil {
					return nil, e
				}
				res = append(res, r2.Query)
			}
		}
	case strings.HasPrefix(lang, "traceql"):
		parse := func() (*traceql_parser.TraceQLScript, error) { return traceql_parser.Parse(text) }
		script, e := parse()
		if e != nil {
			return nil, e
		}
		switch lang {
		case "traceql":
			if e := addP(clickhouse_transpiler.Plan(script)); e != nil {
				return nil, e
			}
		case "traceql-tags":
			if e := addP(clickhouse_transpiler.PlanTagsV2(script)); e != nil {
				return nil, e
			}
		case "traceql-values":
			if e := addP(clickhouse_transpiler.PlanValuesV2(script, aux)); e != nil {
				return nil, e
			}
		}
		script, _ = parse()
		if e := addP(clickhouse_transpiler.PlanEval(script)); e != nil {
			return nil, e
		}
	case strings.HasPrefix(lang, "prof:"):
		script, e := profparser.Parse(text)
		if e != nil {
			return nil, e
		}
		db := c10DB(cluster)
		tid, _ := profshared.ParseTypeId(c10TypeID)
		bg := context.Background()
		var sel sql.ISelect
		switch strings.TrimPrefix(lang, "prof:prof/") {
		case "label-names":
			sel, e = prof.PlanLabelNames(bg, []*profparser.Script{script}, from, to, db)
		case "label-values":
			sel, e = prof.PlanLabelValues(bg, []*profparser.Script{script}, aux, from, to, db)
		case "merge-stacktraces":
			sel, e = prof.PlanMergeTraces(bg, script, &tid, from, to, db)
		case "select-series":
			sel, e = prof.PlanSelectSeries(bg, script, &tid, []string{aux}, v1.TimeSeriesAggregationType_TIME_SERIES_AGGREGATION_TYPE_SUM, 15, from, to, db)
		case "merge-profile":
			sel, e = prof.PlanMergeProfiles(bg, script, &tid, from, to, db)
		case "series":
			sel, e = prof.PlanSeries(bg, []*profparser.Script{script}, []string{aux}, from, to, db)
		case "analyze-query":
			sel, e = prof.PlanAnalyzeQuery(bg, script, from, to, db)
		default:
			return nil, fmt.Errorf("unknown profile endpoint %s", lang)
		}
		if e != nil {
			return nil, e
		}
		res = append(res, sel)
	default:
		return nil, fmt.Errorf("unknown language %s", lang)
	}
	return res, nil
}

func c10Leaves(r *h.Result, rng *h.Rng, perPos int) error {
	r.Stream("leaves: planner entry points returning sql.ISelect on parsed scripts carrying the marker; the real object tree dumped by reflection; the marker may only sit in fields rendered through the escape")
	positions := c10Positions()
	owners := map[string]int{}
	n := 0
	var frags []*c10Frag
	texts := map[string]bool{}
	fold := false
	check := func(key string, lang, text string, m c10Marker, ident bool, aux string, want []string) {
		for _, cluster := range []bool{false, true} {
			sels, err := c10Plan(lang, text, cluster, aux)
			r.Case(fmt.Sprintf("leaves:%s:%v:%s", key, cluster, h.Hex([]byte(m.Mid))), true)
			if err != nil {
				r.Count("leaves:planner-refused")
				continue
			}
			for _, sel := range sels {
				d := sqldump.Dump(sel)
				leaves, err := c10DumpLeaves(d)
				if err != nil {
					r.Violate("C10/leaves/dump-unreadable", err.Error(), map[string]any{"stream": "leaves", "dump": d})
					continue
				}
				found := false
				for _, lf := range leaves {
					if !strings.Contains(lf.Val, m.Head) {
						continue
					}
					found = true
					owners[lf.Owner]++
					if _, ok := c10Escaped[lf.Owner]; ok {
						r.Count("leaves:marker-in-escaped-field")
						continue
					}
					if ident {
						r.Count("leaves:identifier-in-raw-field(" + lf.Owner + ")")
						continue
					}
					r.Count("leaves:raw-field-fragment(" + lf.Owner + ")")
					frags = append(frags, &c10Frag{fold: fold, key: "C10/leaves/" + lf.Owner, text: lf.Val, m: m, want: want, ident: false,
						what:   fmt.Sprintf("%s: request text %q sits in the raw-text field %s = %q and that fragment", key, m.Val(), lf.Owner, lf.Val),
						replay: map[string]any{"stream": "leaves", "lang": lang, "text": text, "marker_hex": h.Hex([]byte(m.Val())), "cluster": cluster, "owner": lf.Owner, "dump": d}})
					texts[lf.Val] = true
				}
				if txt, err := sel.String(&sql.Ctx{Params: map[string]sql.SQLObject{}, Result: map[string]sql.SQLObject{}}); err == nil && strings.Contains(txt, m.Head) {
					frags = append(frags, &c10Frag{fold: fold, key: "C10/leaves/render/" + lang, text: txt, m: m, want: want, ident: ident,
						what:   fmt.Sprintf("%s: the rendering of the planned tree for marker %q", key, m.Val()),
						replay: map[string]any{"stream": "leaves", "lang": lang, "text": text, "marker_hex": h.Hex([]byte(m.Val())), "cluster": cluster, "sql": txt}})
					texts[txt] = true
				}
				if !found {
					// held by a closure (CustomCol): invisible to reflection; the text-level run judges the rendering
					txt, err := sel.String(&sql.Ctx{Params: map[string]sql.SQLObject{}, Result: map[string]sql.SQLObject{}})
					if err == nil && strings.Contains(txt, m.Head) {
						r.Count("leaves:marker-only-in-closure")
					} else {
						r.Count("leaves:marker-absent")
					}
				}
			}
		}
	}
	for pi := range positions {
		p := &positions[pi]
		if p.Lang == "" {
			continue
		}
		prng := rng.Fork()
		for k := 0; k < perPos; k++ {
			for _, lv := range p.Levels {
				if lv.Loose {
					continue
				}
				n++
				head, tail := c10Heads(lv.Class, n)
				m := c10Marker{Head: head, Mid: c10Mid(prng, lv.Class), Tail: tail}
				switch {
				case k == 1:
					m.Pre = c10Lead(prng, lv.Class, true)
				case k >= 2 && prng.Chance(60):
					m.Pre = c10Lead(prng, lv.Class, prng.Chance(25))
				}
				want := []string{m.Val()}
				if lv.Expect != nil {
					want = lv.Expect(m.Val())
				}
				want = c10ScopeStripped(lv, want)
				if strings.HasPrefix(p.Lang, "prof:") {
					// no JSON transport here: the selector text reaches the parser uncoerced
					want = append(want, m.Val(), strings.ReplaceAll(m.Val(), "`", ""))
				}
				fold = lv.Fold
				check(p.key(), p.Lang, p.Text(m.Val()), m, lv.Ident, "auxkey", want)
				fold = false
			}
		}
	}
	// string arguments that are not query-language text
	prng := rng.Fork()
	for k := 0; k < perPos*3; k++ {
		n++
		m := c10Marker{Head: fmt.Sprintf("ZQ%d", n), Mid: c10Mid(prng, clFull), Tail: "QZ"}
		if k%3 == 1 {
			m.Pre = c10Lead(prng, clFull, k%2 == 1)
		}
		check("direct/values-key", "logql-values", `{a="b"}`, m, false, m.Val(), []string{m.Val()})
		check("direct/traceql-values-key", "traceql-values", `{.a="b"}`, m, false, m.Val(), []string{m.Val()})
		check("direct/prof-label-values-name", "prof:prof/label-values", `{a="b"}`, m, false, m.Val(), []string{m.Val()})
		check("direct/prof-group-by", "prof:prof/select-series", `{a="b"}`, m, false, m.Val(), []string{m.Val()})
		check("direct/prof-label-names", "prof:prof/series", `{a="b"}`, m, false, m.Val(), []string{m.Val()})
	}
	lx, err := c10LexAll(texts)
	if err != nil {
		return err
	}
	for _, f := range frags {
		if what := c10JudgeFrag(f, lx); what != "" {
			f.replay["tokens"] = lx.lex[f.text]
			r.Violate(f.key, f.what+" "+what, f.replay)
		}
	}
	var os_ []string
	for o, c := range owners {
		os_ = append(os_, fmt.Sprintf("%s×%d", o, c))
	}
	sort.Strings(os_)
	r.Notes = append(r.Notes, "leaves: fields that held the marker: "+strings.Join(os_, " "))
	if os.Getenv("C10_SUMMARY") != "" {
		fmt.Fprintln(c10Stderr, "OWNERS", os_)
	}
	return nil
}
