package main

// C09, stream `engines`: the two engines on the same data, for the stages both implement.
//
// A log pipeline `{sel} S1 … Sk` is cut at a generated point j. ClickHouse side: the statement the REAL
// clickhouse_planner builds for `{sel} S1 … Sj` (finalize = false) is dumped by reflection and evaluated by the
// reference interpreter (Lean `Sql.evalSelX`, C07's semantics of the SQL subset) on a generated database; its rows,
// cut into channel messages as the ClickHouse getter cuts them, are fed to the REAL in-process stages `Sj+1 … Sk`
// (`internal_planner.Plan` on the parsed rest of the script). The result is compared with the rows the reference
// interpreter returns for the statement the real clickhouse_planner builds for the WHOLE pipeline (finalize = true, the
// request's limit): same entries, same grouping into series, per series the same order (entries with equal timestamps
// compared as a multiset; fingerprint values themselves are not compared, the two engines hash differently).
// Every stage kind both engines implement is drawn as the in-process part: |= != |~ !~ (incl. patterns the ClickHouse
// planner turns into LIKE), label filters (string, numeric, and/or), `| json l="path",…`, `| drop`.

import (
	"context"
	"fmt"
	"regexp"
	"sort"
	"strconv"
	"strings"

	"github.com/metrico/qryn/reader/logql/logql_parser"
	"github.com/metrico/qryn/reader/logql/logql_transpiler_v2/clickhouse_planner"
	"github.com/metrico/qryn/reader/logql/logql_transpiler_v2/internal_planner"
	"github.com/metrico/qryn/reader/logql/logql_transpiler_v2/shared"
	sql "github.com/metrico/qryn/reader/utils/sql_select"
	"verif/harness/h"
	"verif/harness/sqldump"
	"time"
)

// c9RunInternal (child side): the whole pipeline of the query is planned by the in-process engine over the scripted upstream
func c9RunInternal(c c9Case) (res c9Out) {
	res.Internal = -1
	script, err := logql_parser.Parse(c.Query)
	if err != nil {
		res.Skip = "parse: " + err.Error()
		return
	}
	var top shared.RequestProcessor
	func() {
		defer func() {
			if e := recover(); e != nil {
				err = fmt.Errorf("panic: %v", e)
			}
		}()
		top, err = internal_planner.Plan(script, &c9Upstream{c.Batches})
	}()
	if err != nil {
		res.Skip = "plan: " + err.Error()
		return
	}
	ctx, cancel := context.WithCancel(context.Background())
	defer cancel()
	pc := &shared.PlannerContext{From: time.Unix(0, c.From), To: time.Unix(0, c.To), Limit: c.Limit, Ctx: ctx,
		CancelCtx: func() {}, Step: time.Second, OrderASC: c.Asc}
	ch, err := top.Process(pc, nil)
	if err != nil {
		res.Skip = "process: " + err.Error()
		return
	}
	var out [][]shared.LogEntry
	timeout := time.After(30 * time.Second)
loop:
	for {
		select {
		case b, ok := <-ch:
			if !ok {
				break loop
			}
			out = append(out, b)
		case <-timeout:
			res.Canon = "HANG"
			return
		}
	}
	res.Canon, res.Fps = c9Canon(out)
	return
}

type c9EngCase struct {
	Sel     string   `json:"selector"`
	Stages  []string `json:"stages"`
	Cut     int      `json:"cut"`
	Ctx     qctx     `json:"ctx"`
	Gin     []string `json:"gin"`
	Ts      []string `json:"ts"`
	Samples []string `json:"samples"`
	Kind    string   `json:"kind"`
}

func (c *c9EngCase) query(lo, hi int) string {
	return strings.TrimSpace(c.Sel + " " + strings.Join(c.Stages[lo:hi], " "))
}

// c9EngSQL: the statement the real ClickHouse planner builds for a log query
func c9EngSQL(query string, c qctx, fin bool) (sel sql.ISelect, script *logql_parser.LogQLScript, err error) {
	script, err = logql_parser.Parse(query)
	if err != nil {
		return nil, nil, fmt.Errorf("parse: %w", err)
	}
	fresh, _ := logql_parser.Parse(query)
	defer func() {
		if e := recover(); e != nil {
			err = fmt.Errorf("panic: %v", e)
		}
	}()
	plan, err := clickhouse_planner.Plan(script, fin)
	if err != nil {
		return nil, nil, fmt.Errorf("plan: %w", err)
	}
	sel, err = plan.Process(c.planner())
	if err != nil {
		return nil, nil, fmt.Errorf("process: %w", err)
	}
	return sel, fresh, nil
}

func c9EngGenSelector(r *h.Rng) string {
	var sb strings.Builder
	sb.WriteString("{")
	n := r.Range(1, 2)
	for i := 0; i < n; i++ {
		if i > 0 {
			sb.WriteString(", ")
		}
		op := h.Pick(r, []string{"=", "=", "=", "!=", "=~"})
		v := r.Ident(4)
		if op == "=~" {
			v = genRegex(r)
		}
		sb.WriteString(h.Pick(r, lblNames) + op + q(v))
	}
	sb.WriteString("}")
	return sb.String()
}

// a stage both engines implement
func c9EngGenShared(r *h.Rng) (string, string) {
	switch k := r.Intn(10); {
	case k < 3:
		op := h.Pick(r, []string{"|=", "!=", "|~", "!~"})
		v := genStr(r)
		if r.Chance(50) {
			v = h.Pick(r, []string{"{", "\"", "a", ":", "5", "e", "b", "level", "}"}) // substrings of the generated documents
		}
		if op == "|~" || op == "!~" {
			v = genRegex(r)
			if r.Chance(40) {
				v = h.Pick(r, []string{"[0-9]+", "\"[a-z]+\"", "level", "^\\{", "a.b", "(?i)HELLO", "e"})
			}
		}
		return op + " " + q(v), "line" + op
	case k < 5:
		if r.Chance(40) {
			return "| " + genLabelCond(r, 1), "label"
		}
		// conditions on the labels the generated `| json` / `| regexp` stages set, with the values the documents hold
		cond := func() string {
			name := h.Pick(r, []string{"x", "lvl", "a", "app", "level", "n1", "job"})
			if r.Chance(35) {
				return name + " " + h.Pick(r, []string{"==", "!=", ">", ">=", "<", "<="}) + " " + h.Pick(r, []string{"5", "5.5", "0", "100", "223"})
			}
			op := h.Pick(r, []string{"=", "!=", "!=", "=~", "!~"})
			v := h.Pick(r, []string{"b", "5", "5.5", "abc", "Hello", "info", "error", "", "null", "true"})
			if op == "=~" || op == "!~" {
				v = h.Pick(r, []string{"a.*", "[0-9]+", "^$", "b|5", "(?i)hello", ".+"})
			}
			return name + " " + op + " " + q(v)
		}
		c := cond()
		if r.Chance(30) {
			c += " " + h.Pick(r, []string{"and", "or"}) + " " + cond()
		}
		return "| " + c, "label"
	case k < 8:
		n := r.Range(1, 3)
		var ps []string
		for i := 0; i < n; i++ {
			lbl := h.Pick(r, []string{"x", "lvl", "a", "app", "level", "n1", "job"})
			ps = append(ps, lbl+"="+q(c07xGenJSONPath(r)))
		}
		return "| json " + strings.Join(ps, ", "), "json"
	default:
		n := r.Range(1, 3)
		var ps []string
		for i := 0; i < n; i++ {
			lbl := h.Pick(r, []string{"x", "lvl", "a", "app", "level", "job"})
			if r.Chance(35) {
				lbl += "=" + q(genStr(r))
			}
			ps = append(ps, lbl)
		}
		return "| drop " + strings.Join(ps, ", "), "drop"
	}
}

func c9EngGen(r *h.Rng) *c9EngCase {
	c := &c9EngCase{Sel: c9EngGenSelector(r)}
	nPre := h.Pick(r, []int{0, 0, 1, 1, 1, 2, 2, 3})
	for i := 0; i < nPre; i++ {
		if r.Chance(80) {
			c.Stages = append(c.Stages, c07xGenChanger(r)) // json / regexp / drop
		} else {
			c.Stages = append(c.Stages, c07xGenFilter(r))
		}
	}
	c.Cut = nPre
	nSuf := r.Range(1, 3)
	var kinds []string
	for i := 0; i < nSuf; i++ {
		s, k := c9EngGenShared(r)
		c.Stages = append(c.Stages, s)
		kinds = append(kinds, k)
	}
	c.Kind = strings.Join(kinds, ",")
	c.Ctx = genCtx(r)
	c.Ctx.Limit = h.Pick(r, []int64{0, 0, 0, 1, 2, 3, 100})
	return c
}

// c9EngRow: a scanned row `fp:labels:line:ts` of the reference interpreter
type c9EngRow struct {
	Fp     string
	Labels map[string]string
	Line   string
	Ts     int64
	Dup    bool // the Map ClickHouse returns has a key twice
}

func c9EngParseRows(ans string) ([]c9EngRow, error) {
	if !strings.HasPrefix(ans, "rows ") {
		return nil, fmt.Errorf("c09rows answered %.200q", ans)
	}
	body := ans[5:]
	if body == "-" {
		return nil, nil
	}
	var res []c9EngRow
	for _, s := range strings.Split(body, ";") {
		f := strings.Split(s, ":")
		if len(f) != 4 || strings.Contains(s, "?") {
			return nil, fmt.Errorf("c09rows: row %q", s)
		}
		row := c9EngRow{Fp: f[0], Labels: map[string]string{}}
		if f[1] != "-" {
			for _, kv := range strings.Split(f[1], "&") {
				p := strings.Split(kv, "=")
				if len(p) != 2 {
					return nil, fmt.Errorf("c09rows: labels %q", f[1])
				}
				k := h.UnHex(p[0])
				v := h.UnHex(p[1])
				if _, dup := row.Labels[string(k)]; dup {
					row.Dup = true
				}
				row.Labels[string(k)] = string(v)
			}
		}
		line := h.UnHex(f[2])
		row.Line = string(line)
		row.Ts, _ = strconv.ParseInt(f[3], 10, 64)
		res = append(res, row)
	}
	return res, nil
}

// c9EngCanonItems: series (grouped by the engine's own series identity) → items; canonical text: per series the items in
// arrival order with runs of equal timestamps sorted, series sorted
func c9EngCanon(groups map[string][]string, order []string) string {
	texts := make([]string, 0, len(order))
	for _, k := range order {
		items := groups[k]
		// runs of equal timestamps: as a multiset
		i := 0
		for i < len(items) {
			j := i + 1
			tsI := items[i][:strings.Index(items[i], ":")]
			for j < len(items) && items[j][:strings.Index(items[j], ":")] == tsI {
				j++
			}
			sort.Strings(items[i:j])
			i = j
		}
		texts = append(texts, strings.Join(items, ","))
	}
	sort.Strings(texts)
	if len(texts) == 0 {
		return "-"
	}
	return strings.Join(texts, "|")
}

func c9EngCanonRows(rows []c9EngRow) string {
	groups := map[string][]string{}
	var order []string
	for _, e := range rows {
		if _, ok := groups[e.Fp]; !ok {
			order = append(order, e.Fp)
		}
		groups[e.Fp] = append(groups[e.Fp], fmt.Sprintf("%d:%s:%s", e.Ts, c9Labels(e.Labels), hx(e.Line)))
	}
	return c9EngCanon(groups, order)
}

// the canonical text c9Canon produces for log entries, reduced to ts:labels:line (the value of a log entry is 0)
func c9EngCanonImpl(canon string) string {
	if canon == "-" || strings.HasPrefix(canon, "ERR") || canon == "HANG" || canon == "CRASH" {
		return canon
	}
	groups := map[string][]string{}
	var order []string
	for gi, g := range strings.Split(canon, "|") {
		k := strconv.Itoa(gi)
		order = append(order, k)
		for _, it := range strings.Split(g, ",") {
			f := strings.Split(it, ":")
			if len(f) == 4 {
				groups[k] = append(groups[k], f[0]+":"+f[1]+":"+f[2])
			} else {
				groups[k] = append(groups[k], it)
			}
		}
	}
	return c9EngCanon(groups, order)
}

// batchings of the rows ClickHouse returns: as the getter cuts them (100 per message, the end-of-stream marker in the
// last one), one entry per message, or random cuts with empty messages
func c9EngBatches(r *h.Rng, rows []c9EngRow) [][]c9Entry {
	flat := make([]c9Entry, 0, len(rows)+1)
	fpIds := map[string]uint64{} // the reference interpreter's stand-in for cityHash64 is not confined to 64 bits
	for _, row := range rows {
		fp, ok := fpIds[row.Fp]
		if !ok {
			fp = uint64(len(fpIds) + 1)
			fpIds[row.Fp] = fp
		}
		flat = append(flat, c9Entry{Ts: row.Ts, Fp: fp, Labels: row.Labels, Msg: row.Line})
	}
	flat = append(flat, c9Entry{Err: "eof"})
	var bs [][]c9Entry
	switch r.Intn(3) {
	case 0:
		for len(flat) > 100 {
			bs = append(bs, flat[:100])
			flat = flat[100:]
		}
		bs = append(bs, flat)
	case 1:
		for _, e := range flat {
			bs = append(bs, []c9Entry{e})
		}
	default:
		for len(flat) > 0 {
			n := r.Intn(4)
			if n > len(flat) {
				n = len(flat)
			}
			bs = append(bs, flat[:n])
			flat = flat[n:]
		}
	}
	return bs
}

// c9EngItems: canonical text → (ts:line) ↦ label texts, in order
func c9EngItems(canon string) map[string][]map[string]string {
	res := map[string][]map[string]string{}
	if canon == "-" {
		return res
	}
	for _, g := range strings.Split(canon, "|") {
		for _, it := range strings.Split(g, ",") {
			f := strings.Split(it, ":")
			if len(f) != 3 {
				continue
			}
			m := map[string]string{}
			if f[1] != "-" {
				for _, kv := range strings.Split(f[1], "&") {
					p := strings.SplitN(kv, "=", 2)
					if len(p) == 2 {
						m[p[0]] = p[1]
					}
				}
			}
			res[f[0]+":"+f[2]] = append(res[f[0]+":"+f[2]], m)
		}
	}
	return res
}

// c9EngKey: normalised identity of an engine disagreement: what kind of difference, on which kind of stage
func c9EngKey(kind, got, want string) string {
	switch {
	case got == "CRASH" || got == "HANG":
		return "C09/engines/" + strings.ToLower(got)
	case strings.HasPrefix(got, "ERR"):
		return "C09/engines/error-instead-of-result"
	}
	gi, wi := c9EngItems(got), c9EngItems(want)
	classes := map[string]bool{}
	for k, ws := range wi {
		gs := gi[k]
		if len(gs) != len(ws) {
			if len(gs) < len(ws) {
				classes["entry-missing-in-process"] = true
			} else {
				classes["entry-extra-in-process"] = true
			}
			continue
		}
		for i := range ws {
			for name, wv := range ws[i] {
				gv, ok := gs[i][name]
				switch {
				case !ok && wv == "-":
					classes["label-empty-in-clickhouse-unset-in-process"] = true
				case !ok && (strings.HasPrefix(wv, "7b") || strings.HasPrefix(wv, "5b")):
					classes["label-raw-json-in-clickhouse-unset-in-process"] = true
				case !ok:
					classes["label-only-in-clickhouse"] = true
				case gv != wv && wv == "-":
					classes["label-emptied-by-clickhouse-kept-in-process"] = true
				case gv != wv && (strings.HasPrefix(wv, "7b") || strings.HasPrefix(wv, "5b")):
					classes["label-raw-json-in-clickhouse-kept-in-process"] = true
				case gv != wv:
					classes["label-value-differs"] = true
				}
			}
			for name := range gs[i] {
				if _, ok := ws[i][name]; !ok {
					classes["label-only-in-process"] = true
				}
			}
		}
	}
	for k := range gi {
		if _, ok := wi[k]; !ok {
			classes["entry-extra-in-process"] = true
		}
	}
	if len(classes) == 0 {
		if strings.Count(got, "|") != strings.Count(want, "|") {
			return "C09/engines/series-grouping-differs"
		}
		return "C09/engines/order-differs"
	}
	for _, c := range []string{"entry-missing-in-process", "entry-extra-in-process", "label-value-differs", "label-only-in-process", "label-only-in-clickhouse",
		"label-raw-json-in-clickhouse-unset-in-process", "label-raw-json-in-clickhouse-kept-in-process",
		"label-empty-in-clickhouse-unset-in-process", "label-emptied-by-clickhouse-kept-in-process"} {
		if classes[c] {
			return "C09/engines/" + c
		}
	}
	return "C09/engines/other"
}

type c9EngPrepared struct {
	c       *c9EngCase
	tables  string
	dumpPre string
	dumpAll string
	sqlPre  string
	sqlAll  string
}

func c9EngPrepare(r *h.Result, rng *h.Rng, c *c9EngCase) *c9EngPrepared {
	k := len(c.Stages)
	selPre, _, err := c9EngSQL(c.query(0, c.Cut), c.Ctx, false)
	if err != nil {
		r.Count("engines:skip:prefix-" + strings.SplitN(err.Error(), ":", 2)[0])
		return nil
	}
	selAll, scriptAll, err := c9EngSQL(c.query(0, k), c.Ctx, true)
	if err != nil {
		r.Count("engines:skip:whole-" + strings.SplitN(err.Error(), ":", 2)[0])
		return nil
	}
	v, parsers := c07xVocab(scriptAll)
	paths := c07xPathsOf(parsers)
	type rxInfo struct {
		text string
		rx   *regexp.Regexp
	}
	var rxs []rxInfo
	var rxTexts []string
	for _, p := range scriptAll.StrSelector.Pipelines {
		if p.Parser != nil && p.Parser.Fn == "regexp" {
			val, _ := p.Parser.ParserParams[0].Val.Unquote()
			names, text, ok := c07xParseRe(val)
			if !ok {
				r.Count("engines:skip:pattern")
				return nil
			}
			rx, err := regexp.Compile(text)
			if err != nil || rx.NumSubexp() != len(names) {
				r.Count("engines:skip:pattern")
				return nil
			}
			rxs = append(rxs, rxInfo{text, rx})
			rxTexts = append(rxTexts, val)
		}
	}
	var db *lokiDB
	if c.Samples == nil {
		db = c07xGenDB(rng, c.Ctx, v, paths, rxTexts)
		c.Gin, c.Ts, c.Samples = db.gin, db.ts, db.smp
	} else {
		db = c9EngDBOf(c)
	}
	var jf, rc []string
	for line := range db.lines {
		for _, p := range paths {
			val := c07xJSONField(line, p.parts)
			jf = append(jf, hx(line)+":"+p.ser+":"+hx(val))
			db.values[val] = true
		}
		for _, x := range rxs {
			caps := c07xReCaps(x.rx, line)
			var hs []string
			for _, cp := range caps {
				hs = append(hs, hx(cp))
				db.values[cp] = true
			}
			if len(hs) == 0 {
				hs = []string{"~"}
			}
			rc = append(rc, hx(x.text)+":"+hx(line)+":"+strings.Join(hs, ","))
		}
	}
	sort.Strings(jf)
	sort.Strings(rc)
	jf, rc = c07xUniq(jf), c07xUniq(rc)
	p := &c9EngPrepared{c: c}
	p.tables = fmt.Sprintf("%s %s %s %s %s %s", joinOrDash(db.gin, ";"), joinOrDash(db.ts, ";"), joinOrDash(db.smp, ";"),
		db.oracleTables(v), joinOrDash(jf, ";"), joinOrDash(rc, ";"))
	p.dumpPre, p.dumpAll = hx(sqldump.Dump(selPre)), hx(sqldump.Dump(selAll))
	p.sqlPre, _ = selPre.String(sql.DefaultCtx())
	p.sqlAll, _ = selAll.String(sql.DefaultCtx())
	return p
}

// c9EngDBOf rebuilds the value / line / document tables of a recorded database (replay)
func c9EngDBOf(c *c9EngCase) *lokiDB {
	db := &lokiDB{gin: c.Gin, ts: c.Ts, smp: c.Samples, values: map[string]bool{"": true}, lines: map[string]bool{}, docs: map[string][][2]string{}}
	for _, g := range c.Gin {
		f := strings.Split(g, ":")
		if len(f) == 5 {
			v := h.UnHex(f[2])
			db.values[string(v)] = true
		}
	}
	for _, t := range c.Ts {
		f := strings.Split(t, ":")
		if len(f) == 4 {
			docB := h.UnHex(f[2])
			doc := string(docB)
			var pairs [][2]string
			body := strings.TrimSuffix(strings.TrimPrefix(doc, "{"), "}")
			// documents written by genLokiDB: "k":"v" pairs quoted with strconv.Quote, joined by commas
			for len(body) > 0 {
				k, err := strconv.QuotedPrefix(body)
				if err != nil {
					break
				}
				body = body[len(k)+1:]
				vq, err := strconv.QuotedPrefix(body)
				if err != nil {
					break
				}
				body = strings.TrimPrefix(body[len(vq):], ",")
				ku, _ := strconv.Unquote(k)
				vu, _ := strconv.Unquote(vq)
				pairs = append(pairs, [2]string{ku, vu})
				db.values[vu] = true
			}
			db.docs[doc] = pairs
		}
	}
	for _, s := range c.Samples {
		f := strings.Split(s, ":")
		if len(f) == 4 {
			l := h.UnHex(f[2])
			db.lines[string(l)] = true
		}
	}
	return db
}

func c9Engines(r *h.Result, rng *h.Rng, n int, fixed []*c9EngCase) error {
	r.Stream("engines: real clickhouse_planner statement of the pipeline prefix → reference interpreter Sql.evalSelX on a generated database → rows cut into messages as the getter does → REAL internal_planner stages (line/label filter, json with paths, drop) → compared with the reference interpreter's rows for the real statement of the whole pipeline (limit included)")
	var preps []*c9EngPrepared
	for _, c := range fixed {
		if p := c9EngPrepare(r, rng, c); p != nil {
			preps = append(preps, p)
		}
	}
	for i := 0; i < n; i++ {
		if p := c9EngPrepare(r, rng, c9EngGen(rng)); p != nil {
			preps = append(preps, p)
		}
	}
	var ops []string
	for _, p := range preps {
		ops = append(ops, fmt.Sprintf("c09rows %s %s %s", p.c.Ctx.ser(), p.tables, p.dumpPre))
		ops = append(ops, fmt.Sprintf("c09rows %s %s %s", p.c.Ctx.ser(), p.tables, p.dumpAll))
	}
	ans, err := h.Model(ops)
	if err != nil {
		return err
	}
	var runs []c9Case
	var wants []string
	var owners []*c9EngPrepared
	for i, p := range preps {
		pre, err := c9EngParseRows(ans[2*i])
		if err != nil {
			return fmt.Errorf("%w (prefix of %s)", err, p.c.query(0, len(p.c.Stages)))
		}
		all, err := c9EngParseRows(ans[2*i+1])
		if err != nil {
			return fmt.Errorf("%w (%s)", err, p.c.query(0, len(p.c.Stages)))
		}
		dupPre, dupAll := false, false
		for _, e := range pre {
			dupPre = dupPre || e.Dup
		}
		for _, e := range all {
			dupAll = dupAll || e.Dup
		}
		if dupPre {
			// `| json x="a", x="b"` / `(?P<x>…)(?P<x>…)` inside the ClickHouse part: the statement builds a Map with a key twice (C07's notes)
			r.Count("engines:skip:clickhouse-map-with-a-key-twice-in-the-prefix")
			continue
		}
		if dupAll {
			r.Violate("C09/engines/json-parameter-name-repeated",
				fmt.Sprintf("%s: a label named by two parameters of one `| json` — the in-process engine gives it the value that comes last in the document, the ClickHouse statement builds a Map holding the key twice (mapFromArrays)", p.c.query(0, len(p.c.Stages))),
				map[string]any{"stream": "engines", "engines": p.c, "sql_whole": p.sqlAll})
			continue
		}
		if p.c.Ctx.Limit > 0 {
			// the limit cuts inside a run of equal timestamps: ClickHouse leaves open which of them it keeps
			seen := map[int64]int{}
			for _, e := range pre {
				seen[e.Ts]++
			}
			tie := false
			for _, n := range seen {
				if n > 1 {
					tie = true
				}
			}
			if tie {
				r.Count("engines:skip:limit-with-equal-timestamps")
				continue
			}
		}
		runs = append(runs, c9Case{Query: p.c.query(p.c.Cut, len(p.c.Stages)), Mode: "internal", From: p.c.Ctx.From, To: p.c.Ctx.To,
			Limit: p.c.Ctx.Limit, Asc: p.c.Ctx.Asc, Batches: c9EngBatches(rng, pre)})
		wants = append(wants, c9EngCanonRows(all))
		owners = append(owners, p)
		r.Count(fmt.Sprintf("engines:prefix-stages:%d", p.c.Cut))
		if len(pre) == 0 {
			r.Count("engines:prefix-result-empty")
		}
	}
	outs, err := c9RunChild(runs)
	if err != nil {
		return err
	}
	if len(outs) != len(runs) {
		return fmt.Errorf("engines: child answered %d of %d cases", len(outs), len(runs))
	}
	for i, o := range outs {
		p := owners[i]
		whole := p.c.query(0, len(p.c.Stages))
		if o.Skip != "" {
			r.Count("engines:skip:" + strings.SplitN(o.Skip, ":", 2)[0])
			continue
		}
		got := c9EngCanonImpl(o.Canon)
		r.Case("engines:"+whole+fmt.Sprint(p.c.Ctx, p.c.Cut, len(runs[i].Batches)), wants[i] != "-")
		for _, k := range strings.Split(p.c.Kind, ",") {
			r.Count("engines:in-process-stage:" + k)
		}
		if wants[i] == "-" {
			r.Count("engines:empty-result")
		} else {
			r.Count("engines:nonempty-result")
		}
		if o.Fps != "" {
			r.Violate("C09/engines/fingerprint-two-label-sets", fmt.Sprintf("%s (in-process part of %s): %s", runs[i].Query, whole, o.Fps), p.c)
		}
		if got != wants[i] {
			r.Violate(c9EngKey(p.c.Kind, got, wants[i]),
				fmt.Sprintf("the engines disagree on %s — ClickHouse runs %d stage(s), the in-process engine the rest (%s), limit %d: in-process result %.300s, ClickHouse result for the whole pipeline %.300s",
					whole, p.c.Cut, runs[i].Query, p.c.Ctx.Limit, got, wants[i]),
				map[string]any{"stream": "engines", "engines": p.c, "sql_prefix": p.sqlPre, "sql_whole": p.sqlAll})
		}
		if i%37 == 0 {
			r.Sample(map[string]any{"stream": "engines", "query": whole, "clickhouse_stages": p.c.Cut, "in_process": runs[i].Query,
				"limit": p.c.Ctx.Limit, "messages": len(runs[i].Batches)})
		}
	}
	return nil
}

// c9Refusals: a range function the in-process aggregators have no case for must be refused (NotSupported), not answered
// with an empty matrix (ClickHouse computes stddev_over_time / stdvar_over_time)
func c9Refusals(r *h.Result) error {
	r.Stream("refusals: range functions without a case in the in-process aggregators (stddev_over_time, stdvar_over_time, sum_over_time without unwrap, count_over_time over an unwrapped value) end in NotSupported")
	e := func(ts int64, msg string) c9Entry {
		return c9Entry{Ts: ts, Fp: 7, Labels: map[string]string{"x": "y"}, Msg: msg}
	}
	batches := [][]c9Entry{{e(1e9, `{"v":"5"}`), e(2e9, `{"v":"3"}`), e(3e9, `{"v":"9"}`)}, {{Err: "eof"}}}
	var runs []c9Case
	for _, q := range []string{
		`stddev_over_time({x="y"} | json | unwrap v [1m])`,
		`stdvar_over_time({x="y"} | json | unwrap v [1m])`,
		`sum_over_time({x="y"} | json [1m])`,
		`count_over_time({x="y"} | json | unwrap v [1m])`,
		`sum by (x) (stddev_over_time({x="y"} | json | unwrap v [1m]))`,
		// only ClickHouse implements these (Gen.InternalAgg.vecRefused / planRefusals): handed over, they are refused
		`stddev by (x) (rate({x="y"} | json [1m]))`,
		`stdvar (count_over_time({x="y"} | json [1m]))`,
		`topk(1, rate({x="y"} | json [1m]))`,
		`bottomk(2, sum by (x) (rate({x="y"} | json [1m])))`,
		`quantile_over_time(0.5, {x="y"} | json | unwrap v [1m])`,
	} {
		c := c9Case{Query: q, From: 0, To: 120e9, Batches: batches}
		if strings.HasPrefix(q, "stddev ") || strings.HasPrefix(q, "stdvar ") || strings.Contains(q, "topk(") || strings.Contains(q, "bottomk(") || strings.HasPrefix(q, "quantile_over_time") {
			c.Mode, c.Step = "internal-post", 60e9 // outside the plan serialiser of the `run` stream: the real Plan + Process only
		}
		runs = append(runs, c)
	}
	outs, err := c9RunChild(runs)
	if err != nil {
		return err
	}
	for i, o := range outs {
		r.Case("refusals:"+runs[i].Query, true)
		if !((strings.HasPrefix(o.Skip, "process:") || strings.HasPrefix(o.Skip, "plan:")) && strings.Contains(o.Skip, "not supported")) {
			r.Violate("C09/unsupported-function-not-refused",
				fmt.Sprintf("%s: the in-process engine has no case for the function and answered %q / %q instead of NotSupported (ClickHouse computes it)", runs[i].Query, o.Skip, o.Canon), runs[i])
		}
	}
	return nil
}
