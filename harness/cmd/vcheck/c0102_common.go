package main

// Shared by C01 and C02: the fake ClickHouse client, the value codec (tagged values <-> model cells),
// request builders for the six insert services, and the step-by-step scenario runner that drives the
// real impl.New*InsertService through the verif hook while recording an event log.

import (
	"context"
	"encoding/binary"
	"fmt"
	"io"
	"reflect"
	"sort"
	"strconv"
	"strings"
	"sync"
	"time"

	ch "github.com/ClickHouse/ch-go"
	"github.com/ClickHouse/ch-go/proto"
	"github.com/metrico/qryn/writer/ch_wrapper"
	"github.com/metrico/qryn/writer/model"
	"github.com/metrico/qryn/writer/service"
	"github.com/metrico/qryn/writer/service/impl"
	"github.com/metrico/qryn/writer/utils/helpers"
	"github.com/metrico/qryn/writer/utils/logger"
	"github.com/metrico/qryn/writer/utils/promise"
	"verif/harness/h"
)

var c0102Once sync.Once

func c0102Setup() {
	c0102Once.Do(func() {
		time.Local = time.UTC // ch-go's ToDate adds the zone offset (A8, property C04/C13): keep dates zone-free here
		logger.Logger.SetOutput(io.Discard)
		service.CreateColPools(0)
	})
}

// ---------------------------------------------------------------- decoded blocks

type block struct {
	Body string
	Cols []string            // column names in Input order
	Data map[string][]uint64 // decoded cells per column
}

func (b *block) rows() []int {
	var r []int
	for _, c := range b.Cols {
		r = append(r, len(b.Data[c]))
	}
	return r
}

func (b *block) String() string {
	var parts []string
	for _, c := range b.Cols {
		vs := make([]string, len(b.Data[c]))
		for i, v := range b.Data[c] {
			vs[i] = strconv.FormatUint(v, 10)
		}
		parts = append(parts, c+"="+strings.Join(vs, ","))
	}
	return strings.Join(parts, "|")
}

const badCell = uint64(1) << 50 // a value that no request carries: decoding found an inconsistent cell

func strTok(s string) uint64 {
	if s == "" {
		return 0
	}
	n, err := strconv.ParseUint(s[1:], 10, 64)
	if err != nil {
		return badCell
	}
	return n
}

func tokStr(prefix string, t uint64) string { return prefix + strconv.FormatUint(t, 10) }

func fixedBytes(t uint64, size int) []byte {
	b := make([]byte, size)
	binary.BigEndian.PutUint64(b[size-8:], t)
	return b
}

func arrLen(t uint64) int { return 1 + int(t%3) }

func mkStrStr(t uint64) []model.StrStr {
	res := make([]model.StrStr, arrLen(t))
	for i := range res {
		res[i] = model.StrStr{Str1: tokStr("a", t), Str2: tokStr("b", t)}
	}
	return res
}
func mkValuesAgg(t uint64) []model.ValuesAgg {
	res := make([]model.ValuesAgg, arrLen(t))
	for i := range res {
		res[i] = model.ValuesAgg{ValueStr: tokStr("v", t), ValueInt64: int64(t), ValueInt32: int32(t % 1000)}
	}
	return res
}
func mkFunctions(t uint64) []model.Function {
	res := make([]model.Function, arrLen(t))
	for i := range res {
		res[i] = model.Function{ValueInt64: t, ValueStr: tokStr("f", t)}
	}
	return res
}
func mkTree(t uint64) []model.TreeRootStructure {
	res := make([]model.TreeRootStructure, arrLen(t))
	for i := range res {
		res[i] = model.TreeRootStructure{Field1: t, Field2: t + 1, Field3: t + 2,
			ValueArrTuple: []model.ValuesArrTuple{{ValueStr: tokStr("n", t), FirstValueInt64: int64(t), SecondValueInt64: int64(t)}}}
	}
	return res
}

// decodeColumn turns the column ch-go would send into model cells (one per row).
func decodeColumn(in proto.InputColumn) []uint64 {
	n := in.Data.Rows()
	out := make([]uint64, 0, n)
	switch d := in.Data.(type) {
	case proto.ColUInt8:
		for _, v := range d {
			out = append(out, uint64(v))
		}
	case proto.ColInt8:
		for _, v := range d {
			out = append(out, uint64(v))
		}
	case proto.ColUInt64:
		for _, v := range d {
			out = append(out, v)
		}
	case proto.ColInt64:
		for _, v := range d {
			out = append(out, uint64(v))
		}
	case proto.ColFloat64:
		for _, v := range d {
			out = append(out, uint64(v))
		}
	case proto.ColDate:
		for _, v := range d {
			out = append(out, uint64(v))
		}
	case *proto.ColStr:
		for i := 0; i < n; i++ {
			out = append(out, strTok(d.Row(i)))
		}
	case *proto.ColFixedStr:
		for i := 0; i < n; i++ {
			b := d.Row(i)
			if len(b) < 8 {
				out = append(out, badCell)
			} else {
				out = append(out, binary.BigEndian.Uint64(b[len(b)-8:]))
			}
		}
	case *proto.ColArr[model.StrStr]:
		for i := 0; i < n; i++ {
			row := d.Row(i)
			if len(row) == 0 {
				out = append(out, 0)
				continue
			}
			t := strTok(row[0].Str1)
			for _, e := range row {
				if strTok(e.Str1) != t || strTok(e.Str2) != t || len(row) != arrLen(t) {
					t = badCell
				}
			}
			out = append(out, t)
		}
	case *proto.ColArr[model.ValuesAgg]:
		for i := 0; i < n; i++ {
			row := d.Row(i)
			if len(row) == 0 {
				out = append(out, 0)
				continue
			}
			t := strTok(row[0].ValueStr)
			for _, e := range row {
				if strTok(e.ValueStr) != t || uint64(e.ValueInt64) != t || len(row) != arrLen(t) {
					t = badCell
				}
			}
			out = append(out, t)
		}
	case *proto.ColArr[model.Function]:
		for i := 0; i < n; i++ {
			row := d.Row(i)
			if len(row) == 0 {
				out = append(out, 0)
				continue
			}
			t := row[0].ValueInt64
			for _, e := range row {
				if strTok(e.ValueStr) != t || e.ValueInt64 != t || len(row) != arrLen(t) {
					t = badCell
				}
			}
			out = append(out, t)
		}
	case *proto.ColArr[model.TreeRootStructure]:
		for i := 0; i < n; i++ {
			row := d.Row(i)
			if len(row) == 0 {
				out = append(out, 0)
				continue
			}
			t := row[0].Field1
			for _, e := range row {
				if e.Field1 != t || e.Field2 != t+1 || e.Field3 != t+2 || len(row) != arrLen(t) ||
					len(e.ValueArrTuple) != 1 || strTok(e.ValueArrTuple[0].ValueStr) != t {
					t = badCell
				}
			}
			out = append(out, t)
		}
	default:
		for i := 0; i < n; i++ {
			out = append(out, badCell)
		}
	}
	return out
}

func decodeInput(q ch.Query) *block {
	b := &block{Body: q.Body, Data: map[string][]uint64{}}
	for _, in := range q.Input {
		b.Cols = append(b.Cols, in.Name)
		b.Data[in.Name] = decodeColumn(in)
	}
	return b
}

// ---------------------------------------------------------------- fake client

type doCall struct {
	blk   *block
	reply chan error
}

// fakeEnv: in scripted mode Do and the factory block until the harness answers; in auto mode they
// answer by themselves from a rng and record blocks in a log.
type fakeEnv struct {
	scripted bool
	doCalls  chan doCall
	connects chan chan error
	beforeInsert chan chan struct{} // scripted mode with HoldBefore: the flusher waits here inside OnBeforeInsert

	mu       sync.Mutex
	rng      *h.Rng
	failDo   int // percent
	failConn int
	seq      int64
	okBlocks []loggedBlock
	nDo      int
	nDoErr   int
	nConn    int
	nConnErr int
	connBudget int // connect failures still allowed (each costs a 1 s sleep in the service)
	script     []bool // auto mode: outcomes of successive Do calls (true = nil); exhausted = nil
	scriptPos  int
	allBlocks  int
	pingFail   bool              // what the next Ping of a client of this env answers
	nPing      int
	errFn      func(k int) error // auto mode: the error the k-th Do call (0-based) fails with; nil = errScripted
	doLog      []doLogEntry      // auto mode, when logAll: every Do in call order
	logAll     bool
}

type doLogEntry struct {
	blk *block
	err error
}

type loggedBlock struct {
	seq int64
	blk *block
}

type fakeClient struct {
	ch_wrapper.IChClient
	env *fakeEnv
}

var errScripted = fmt.Errorf("scripted insert failure")

func (c *fakeClient) Do(ctx context.Context, q ch.Query) error {
	blk := decodeInput(q)
	if c.env.scripted {
		reply := make(chan error, 1)
		c.env.doCalls <- doCall{blk, reply}
		return <-reply
	}
	c.env.mu.Lock()
	fail := false
	if c.env.script != nil {
		if c.env.scriptPos < len(c.env.script) {
			fail = !c.env.script[c.env.scriptPos]
		}
		c.env.scriptPos++
	} else {
		fail = c.env.rng.Chance(c.env.failDo)
	}
	k := c.env.nDo
	c.env.nDo++
	var ferr error
	if fail {
		c.env.nDoErr++
		ferr = errScripted
		if c.env.errFn != nil {
			ferr = c.env.errFn(k)
		}
	}
	if c.env.logAll {
		c.env.doLog = append(c.env.doLog, doLogEntry{blk, ferr})
	}
	c.env.mu.Unlock()
	if fail {
		return ferr
	}
	// the block counts as accepted from the moment Do is about to return nil
	c.env.mu.Lock()
	c.env.seq++
	c.env.okBlocks = append(c.env.okBlocks, loggedBlock{c.env.seq, blk})
	c.env.mu.Unlock()
	return nil
}
func (c *fakeClient) Ping(ctx context.Context) error {
	c.env.mu.Lock()
	defer c.env.mu.Unlock()
	c.env.nPing++
	if c.env.pingFail {
		return fmt.Errorf("scripted ping failure")
	}
	return nil
}
func (c *fakeClient) Close() error                   { return nil }

func (e *fakeEnv) factory() ch_wrapper.IChClientFactory {
	return func() (ch_wrapper.IChClient, error) {
		if e.scripted {
			reply := make(chan error, 1)
			e.connects <- reply
			if err := <-reply; err != nil {
				return nil, err
			}
			return &fakeClient{env: e}, nil
		}
		e.mu.Lock()
		e.nConn++
		fail := e.connBudget > 0 && e.rng.Chance(e.failConn)
		if fail {
			e.connBudget--
			e.nConnErr++
		}
		e.mu.Unlock()
		if fail {
			return nil, fmt.Errorf("connection refused")
		}
		return &fakeClient{env: e}, nil
	}
}

func (e *fakeEnv) tick() int64 {
	e.mu.Lock()
	defer e.mu.Unlock()
	e.seq++
	return e.seq
}

// ---------------------------------------------------------------- requests

var kinds = []string{"samples", "timeSeries", "metrics", "tempoSamples", "tempoTags", "profile"}

type fieldSpec struct {
	name string
	typ  string // i64 u64 u8 i8 f64 str bytes date fix16 fix8
}

var kindFields = map[string][]fieldSpec{
	"samples":      {{"MTimestampNS", "i64"}, {"MFingerprint", "u64"}, {"MType", "u8"}, {"MValue", "f64"}, {"MMessage", "str"}},
	"metrics":      {{"MTimestampNS", "i64"}, {"MFingerprint", "u64"}, {"MType", "u8"}, {"MValue", "f64"}, {"MMessage", "str"}},
	"timeSeries":   {{"MDate", "date"}, {"MLabels", "str"}, {"MFingerprint", "u64"}, {"MType", "u8"}},
	"tempoSamples": {{"MTraceId", "fix16"}, {"MSpanId", "fix8"}, {"MTimestampNs", "i64"}, {"MDurationNs", "i64"}, {"MName", "str"}, {"MParentId", "str"}, {"MPayload", "bytes"}, {"MPayloadType", "i8"}, {"MServiceName", "str"}},
	"tempoTags":    {{"MTraceId", "fix16"}, {"MSpanId", "fix8"}, {"MTimestampNs", "i64"}, {"MDurationNs", "i64"}, {"MKey", "str"}, {"MVal", "str"}, {"MDate", "date"}},
	"profile":      {{"TimestampNs", "u64"}, {"DurationNs", "u64"}, {"ServiceName", "str"}, {"Ptype", "str"}, {"PayloadType", "str"}, {"PeriodUnit", "str"}, {"PeriodType", "str"}, {"Payload", "bytes"}},
}
var profileScalars = []string{"SamplesTypesUnits", "Tags", "ValuesAgg", "Function", "Tree"}

var kindPType = map[string]string{"samples": "timeSamplesData", "metrics": "timeSamplesData", "timeSeries": "timeSeriesData",
	"tempoSamples": "tempoSamples", "tempoTags": "tempoTag", "profile": "profileData"}

// oracleCols: which request field each ClickHouse column must carry — written from the table meaning,
// independent of the model's plans and of Gen.Inserts.
var oracleCols = map[string]map[string]string{
	"samples":      {"type": "MType", "fingerprint": "MFingerprint", "timestamp_ns": "MTimestampNS", "string": "MMessage", "value": "MValue"},
	"metrics":      {"type": "MType", "fingerprint": "MFingerprint", "timestamp_ns": "MTimestampNS", "value": "MValue"},
	"timeSeries":   {"type": "MType", "date": "MDate", "fingerprint": "MFingerprint", "labels": "MLabels"},
	"tempoSamples": {"trace_id": "MTraceId", "span_id": "MSpanId", "parent_id": "MParentId", "name": "MName", "timestamp_ns": "MTimestampNs", "duration_ns": "MDurationNs", "service_name": "MServiceName", "payload_type": "MPayloadType", "payload": "MPayload"},
	"tempoTags":    {"date": "MDate", "key": "MKey", "val": "MVal", "trace_id": "MTraceId", "span_id": "MSpanId", "timestamp_ns": "MTimestampNs", "duration": "MDurationNs"},
	"profile":      {"timestamp_ns": "TimestampNs", "type": "Ptype", "service_name": "ServiceName", "sample_types_units": "SamplesTypesUnits", "period_type": "PeriodType", "period_unit": "PeriodUnit", "tags": "Tags", "duration_ns": "DurationNs", "payload_type": "PayloadType", "payload": "Payload", "values_agg": "ValuesAgg", "tree": "Tree", "functions": "Function"},
}

// a request as the harness sees it: cells per Go field (model cells), the real payload, its encoding
type hReq struct {
	id      int
	kind    string // payload kind (may differ from the service's kind: wrong-type requests)
	arrays  map[string][]uint64
	scalars map[string]uint64
	size    int
	rect    bool
	step    int // macro-op index at which it was submitted
	payload helpers.SizeGetter
}

func cellFor(typ string, base uint64) uint64 {
	switch typ {
	case "u8":
		return base % 251
	case "i8":
		return base % 120
	case "date":
		return 1 + base%60000
	}
	return base
}

// buildReq makes a request of payload kind `kind` with the given per-field lengths (lens[f]); serial tags
// the values so that every (request, row, field) is distinct where the column type allows it.
func buildReq(id int, kind string, lens map[string]int, size int, serial uint64) *hReq {
	r := &hReq{id: id, kind: kind, arrays: map[string][]uint64{}, scalars: map[string]uint64{}, size: size}
	for fi, f := range kindFields[kind] {
		n := lens[f.name]
		vals := make([]uint64, n)
		for i := 0; i < n; i++ {
			vals[i] = cellFor(f.typ, 1000+serial*(1<<20)+uint64(i)*32+uint64(fi))
		}
		r.arrays[f.name] = vals
	}
	if kind == "profile" {
		for si, s := range profileScalars {
			if lens["#scalars"] > 0 {
				r.scalars[s] = 1000 + serial*(1<<20) + 20 + uint64(si)
			}
		}
	}
	r.payload = mkPayload(r)
	return r
}

func i64s(v []uint64) []int64 {
	o := make([]int64, len(v))
	for i, x := range v {
		o[i] = int64(x)
	}
	return o
}
func f64s(v []uint64) []float64 {
	o := make([]float64, len(v))
	for i, x := range v {
		o[i] = float64(x)
	}
	return o
}
func u8s(v []uint64) []uint8 {
	o := make([]uint8, len(v))
	for i, x := range v {
		o[i] = uint8(x)
	}
	return o
}
func i8s(v []uint64) []int8 {
	o := make([]int8, len(v))
	for i, x := range v {
		o[i] = int8(x)
	}
	return o
}
func strs(p string, v []uint64) []string {
	o := make([]string, len(v))
	for i, x := range v {
		o[i] = tokStr(p, x)
	}
	return o
}
func byteses(p string, v []uint64) [][]byte {
	o := make([][]byte, len(v))
	for i, x := range v {
		o[i] = []byte(tokStr(p, x))
	}
	return o
}
func fixeds(v []uint64, size int) [][]byte {
	o := make([][]byte, len(v))
	for i, x := range v {
		o[i] = fixedBytes(x, size)
	}
	return o
}
func dates(v []uint64) []time.Time {
	o := make([]time.Time, len(v))
	for i, x := range v {
		o[i] = time.Unix(int64(x)*86400, 0).UTC()
	}
	return o
}

func mkPayload(r *hReq) helpers.SizeGetter {
	a := r.arrays
	switch r.kind {
	case "samples", "metrics":
		return &model.TimeSamplesData{MTimestampNS: i64s(a["MTimestampNS"]), MFingerprint: a["MFingerprint"], MType: u8s(a["MType"]),
			MValue: f64s(a["MValue"]), MMessage: strs("s", a["MMessage"]), Size: r.size}
	case "timeSeries":
		return &model.TimeSeriesData{MDate: dates(a["MDate"]), MLabels: strs("s", a["MLabels"]), MFingerprint: a["MFingerprint"],
			MType: u8s(a["MType"]), Size: r.size}
	case "tempoSamples":
		return &model.TempoSamples{MTraceId: fixeds(a["MTraceId"], 16), MSpanId: fixeds(a["MSpanId"], 8), MTimestampNs: i64s(a["MTimestampNs"]),
			MDurationNs: i64s(a["MDurationNs"]), MName: strs("s", a["MName"]), MParentId: strs("s", a["MParentId"]),
			MPayload: byteses("s", a["MPayload"]), MPayloadType: i8s(a["MPayloadType"]), MServiceName: strs("s", a["MServiceName"]), Size: r.size}
	case "tempoTags":
		return &model.TempoTag{MTraceId: fixeds(a["MTraceId"], 16), MSpanId: fixeds(a["MSpanId"], 8), MTimestampNs: i64s(a["MTimestampNs"]),
			MDurationNs: i64s(a["MDurationNs"]), MKey: strs("s", a["MKey"]), MVal: strs("s", a["MVal"]), MDate: dates(a["MDate"]), Size: r.size}
	case "profile":
		p := &model.ProfileData{TimestampNs: a["TimestampNs"], DurationNs: a["DurationNs"], ServiceName: strs("s", a["ServiceName"]),
			Ptype: strs("s", a["Ptype"]), PayloadType: strs("s", a["PayloadType"]), PeriodUnit: strs("s", a["PeriodUnit"]),
			PeriodType: strs("s", a["PeriodType"]), Payload: byteses("s", a["Payload"]), Size: r.size}
		if t, ok := r.scalars["SamplesTypesUnits"]; ok {
			p.SamplesTypesUnits = mkStrStr(t)
			p.Tags = mkStrStr(r.scalars["Tags"])
			p.ValuesAgg = mkValuesAgg(r.scalars["ValuesAgg"])
			p.Function = mkFunctions(r.scalars["Function"])
			p.Tree = mkTree(r.scalars["Tree"])
		}
		return p
	}
	panic("kind " + r.kind)
}

// model encoding `Field=1,2|Field=` / `-`
func (r *hReq) encArrays() string {
	var parts []string
	for _, f := range kindFields[r.kind] {
		vs := r.arrays[f.name]
		ss := make([]string, len(vs))
		for i, v := range vs {
			ss[i] = strconv.FormatUint(v, 10)
		}
		parts = append(parts, f.name+"="+strings.Join(ss, ","))
	}
	if len(parts) == 0 {
		return "-"
	}
	return strings.Join(parts, "|")
}
func (r *hReq) encScalars() string {
	var parts []string
	for _, s := range profileScalars {
		if v, ok := r.scalars[s]; ok {
			parts = append(parts, s+"="+strconv.FormatUint(v, 10))
		}
	}
	if len(parts) == 0 {
		return "-"
	}
	return strings.Join(parts, "|")
}

// expected cells of the request for a ClickHouse column (oracle side)
func (r *hReq) colCells(svcKind, col string) []uint64 {
	f := oracleCols[svcKind][col]
	if v, ok := r.scalars[f]; ok {
		return []uint64{v}
	}
	return r.arrays[f]
}

// nrows: the request's row count if rectangular (and well-formed for the service), else -1
func (r *hReq) nrows(svcKind string) int {
	if kindPType[r.kind] != kindPType[svcKind] {
		return -1
	}
	n := -1
	for _, f := range oracleCols[svcKind] {
		l := 0
		if _, ok := r.scalars[f]; ok {
			l = 1
		} else if vs, ok := r.arrays[f]; ok {
			l = len(vs)
		} else if r.kind == "profile" {
			l = 1 // absent array-valued field still appends one (empty) row
		}
		if n >= 0 && l != n {
			return -1
		}
		n = l
	}
	return n
}

// ---------------------------------------------------------------- the service under test

func newService(kind string, env *fakeEnv, maxQueue int64, svcNum int, interval time.Duration) *service.InsertServiceV2Multimodal {
	node := &model.DataDatabasesMap{}
	node.Node = "n1"
	node.WriteTimeout = 30
	opts := model.InsertServiceOpts{Session: env.factory(), Node: node, Interval: interval, MaxQueueSize: maxQueue, ParallelNum: svcNum}
	var s service.IInsertServiceV2
	switch kind {
	case "samples":
		s = impl.NewSamplesInsertService(opts)
	case "timeSeries":
		s = impl.NewTimeSeriesInsertService(opts)
	case "metrics":
		s = impl.NewMetricsInsertService(opts)
	case "tempoSamples":
		s = impl.NewTempoSamplesInsertService(opts)
	case "tempoTags":
		s = impl.NewTempoTagsInsertService(opts)
	case "profile":
		s = impl.NewProfileSamplesInsertService(opts)
	}
	return s.(*service.InsertServiceV2Multimodal)
}

// promise poll without blocking: with an already cancelled context GetCtx returns the value with
// probability 1/2 per call when the promise is completed, and never when it is not.
var cancelledCtx = func() context.Context {
	c, cancel := context.WithCancel(context.Background())
	cancel()
	return c
}()

func pollPromise(p *promise.Promise[uint32]) (done bool, err error) {
	for i := 0; i < 64; i++ {
		_, e := p.GetCtx(cancelledCtx)
		if e != promise.GetContextTimeout {
			return true, e
		}
	}
	return false, nil
}

// ---------------------------------------------------------------- scenarios

type mop struct {
	Kind   string // req trigger iter dores stop flush ping
	Sub    int
	Ok     bool
	Mode   string
	ReqKind string         // payload kind
	Lens   map[string]int `json:",omitempty"`
	Size   int
}

type scenario struct {
	Kind     string
	MaxQueue int
	SvcNum   int
	Ops      []mop
	Final    bool // append a fair schedule and require every promise to complete
	// HoldBefore: the flusher is also held inside the OnBeforeInsert callback, i.e. between swapBuffers and its copy of
	// the waiting promises (op "iter" stops there, op "begin" lets it go on into client.Do)
	HoldBefore bool `json:",omitempty"`
	scale    int  // deadline multiplier of this run (0/1 = normal; 10 = confirmation run of a clock-based verdict)
}

type sevent struct {
	Kind  string // resolved insert crash
	ID    int
	Ok    bool
	Blk   *block
	Sub   int
	Step  int // index of the macro-op during which the event was observed
}

type scenResult struct {
	modelOps string   // the scenario as a driver line
	implOut  string   // events#state as the driver prints them
	events   []sevent
	reqs     map[int]*hReq
	reqSub   map[int]int
	hung     []int    // promises not completed after the final fair schedule (size > 0)
	hungZero []int    // same, for requests with accounted size 0 (documented quirk)
	err      error    // harness-level failure (timeouts waiting for the service)
	timedOut bool     // err is a deadline that passed (clock-based: to be confirmed alone with 10× the time)
	opsSoFar []string // the ops played when the run ended
	beginPos []int        // len(ops) at every entry of a flusher into client.Do (the insertBegin of the heap model)
	growOf   map[int]bool // per queued request: did append(svc.results, p) reallocate (len == cap before the call)
	skip     bool     // the tie is not decidable for this run (a panic could not be attributed to a sub-service)
	stats    map[string]int
}

// every wait of runScenario on the implementation side (a flush iteration that has to report, Run that has to return
// after Stop, a promise that has to be complete) is bounded by stepTimeout; a timeout ends the run with res.err and
// res.timedOut, which runSvcChunk confirms alone with 10× the time before it reports it (c0102_wait.go)
func runScenario(sc *scenario) (res *scenResult) {
	c0102Setup()
	stepTimeout := c0102Deadline
	if sc.scale > 1 {
		stepTimeout = time.Duration(sc.scale) * c0102Deadline
	}
	res = &scenResult{reqs: map[int]*hReq{}, reqSub: map[int]int{}, stats: map[string]int{}, growOf: map[int]bool{}}
	env := &fakeEnv{scripted: true, doCalls: make(chan doCall), connects: make(chan chan error)}
	ms := newService(sc.Kind, env, int64(sc.MaxQueue), sc.SvcNum, time.Hour)
	if sc.HoldBefore {
		env.beforeInsert = make(chan chan struct{})
		ms.OnBeforeInsert = func() {
			rel := make(chan struct{})
			env.beforeInsert <- rel
			<-rel
		}
	}
	ms.Init()
	syncSubs, asyncSubs := ms.VerifSubServices()
	subs := append(append([]*service.InsertServiceV2{}, syncSubs...), asyncSubs...)
	nSync := len(syncSubs)
	var ops []string
	var evs []string
	type outstanding struct {
		id int
		p  *promise.Promise[uint32]
	}
	var open []outstanding
	inDo := make([]*doCall, len(subs))
	iterDone := make([]chan bool, len(subs))
	inBefore := make([]chan struct{}, len(subs)) // the flusher of sub i waits inside OnBeforeInsert
	iterPanic := make([]chan any, len(subs))
	crashed := false
	curStep := 0
	serial := uint64(0)
	nextID := 1

	poll := func() {
		var still []outstanding
		for _, o := range open {
			done, err := pollPromise(o.p)
			if done {
				evs = append(evs, fmt.Sprintf("r:%d:%s", o.id, okStr(err == nil)))
				res.events = append(res.events, sevent{Step: curStep, Kind: "resolved", ID: o.id, Ok: err == nil})
			} else {
				still = append(still, o)
			}
		}
		open = still
	}
	snapshot := func() []service.VerifState {
		st := make([]service.VerifState, len(subs))
		for i, s := range subs {
			st[i] = s.VerifState()
		}
		return st
	}
	same := func(a, b service.VerifState) bool {
		if a.Pending != b.Pending || a.Size != b.Size || a.ColsNil != b.ColsNil || len(a.ColRows) != len(b.ColRows) {
			return false
		}
		for i := range a.ColRows {
			if a.ColRows[i] != b.ColRows[i] {
				return false
			}
		}
		return true
	}
	// one attempt of Run's insertCtx branch for sub i
	stopped := make([]bool, len(subs))
	iterate := func(i int, connectOk bool) {
		if inDo[i] != nil || inBefore[i] != nil {
			return // the Run goroutine of this sub-service is inside Do (or inside OnBeforeInsert)
		}
		if stopped[i] {
			// Run has returned: no iteration can happen any more; the model must agree
			ops = append(ops, fmt.Sprintf("c:%d:%s", i, b01(connectOk)), fmt.Sprintf("w:%d", i))
			return
		}
		done := make(chan bool, 1)
		panicked := make(chan any, 1)
		go func() {
			defer func() {
				if e := recover(); e != nil {
					panicked <- e // in the service this goroutine is Run: nobody recovers, the process dies
				}
			}()
			done <- subs[i].VerifIterateIfDue()
		}()
		emittedConnect := false
		for {
			select {
			case reply := <-env.connects:
				ops = append(ops, fmt.Sprintf("c:%d:%s", i, b01(connectOk)))
				emittedConnect = true
				if connectOk {
					reply <- nil
				} else {
					reply <- fmt.Errorf("connection refused")
					res.stats["connect-fail"]++
				}
			case call := <-env.doCalls:
				ops = append(ops, fmt.Sprintf("w:%d", i))
				res.beginPos = append(res.beginPos, len(ops))
				c := call
				inDo[i] = &c
				iterDone[i] = done
				return
			case rel := <-env.beforeInsert:
				// buffers swapped, the flusher is between swapBuffers and its copy of the promises
				ops = append(ops, fmt.Sprintf("w:%d", i))
				inBefore[i] = rel
				iterDone[i] = done
				iterPanic[i] = panicked
				res.stats["held-before-insert"]++
				return
			case <-panicked:
				ops = append(ops, fmt.Sprintf("w:%d", i))
				evs = append(evs, "x")
				res.events = append(res.events, sevent{Step: curStep, Kind: "crash"})
				crashed = true
				return
			case due := <-done:
				if !due {
					// not due: Run would not have entered the iteration; the model must agree that
					// connect and swap are disabled
					ops = append(ops, fmt.Sprintf("c:%d:%s", i, b01(connectOk)), fmt.Sprintf("w:%d", i))
				} else if !(emittedConnect && !connectOk) {
					ops = append(ops, fmt.Sprintf("w:%d", i)) // silent iteration: nothing to send
					res.stats["silent-iteration"]++
				}
				return
			case <-time.After(stepTimeout):
				res.err = fmt.Errorf("iteration of sub-service %d neither asked for a connection, nor called Do, nor returned within %s", i, stepTimeout)
				res.timedOut = true
				return
			}
		}
	}
	// begin: the flusher leaves OnBeforeInsert and goes on into client.Do (no op of the atomic model: the swap is "w")
	begin := func(i int) {
		if inBefore[i] == nil {
			return
		}
		close(inBefore[i])
		inBefore[i] = nil
		select {
		case call := <-env.doCalls:
			c := call
			inDo[i] = &c
			res.beginPos = append(res.beginPos, len(ops))
		case <-iterPanic[i]:
			evs = append(evs, "x")
			res.events = append(res.events, sevent{Step: curStep, Kind: "crash"})
			crashed = true
		case <-iterDone[i]:
			res.err = fmt.Errorf("iteration of sub-service %d returned after OnBeforeInsert without calling Do", i)
		case <-time.After(stepTimeout):
			res.err = fmt.Errorf("iteration of sub-service %d did not call Do within %s after OnBeforeInsert returned", i, stepTimeout)
			res.timedOut = true
		}
	}
	doResult := func(i int, ok bool) {
		begin(i)
		if crashed || res.err != nil {
			return
		}
		ops = append(ops, fmt.Sprintf("d:%d:%s", i, b01(ok)))
		if inDo[i] == nil {
			return
		}
		if ok {
			inDo[i].reply <- nil
		} else {
			inDo[i].reply <- errScripted
		}
		select {
		case <-iterDone[i]:
		case <-time.After(stepTimeout):
			res.err = fmt.Errorf("fetchLoopIteration of sub-service %d did not return within %s after Do returned", i, stepTimeout)
			res.timedOut = true
			return
		}
		evs = append(evs, fmt.Sprintf("i:%s:%s", okStr(ok), inDo[i].blk.String()))
		res.events = append(res.events, sevent{Step: curStep, Kind: "insert", Ok: ok, Blk: inDo[i].blk, Sub: i})
		res.stats["do-"+okStr(ok)]++
		inDo[i] = nil
	}
	request := func(op mop) {
		lens := op.Lens
		r := buildReq(nextID, op.ReqKind, lens, op.Size, serial)
		serial++
		nextID++
		r.step = curStep
		res.reqs[r.id] = r
		before := snapshot()
		full := make([]bool, len(subs)) // svc.results has no room left: the append of this Request reallocates
		for i, sub := range subs {
			rv := reflect.ValueOf(sub).Elem().FieldByName("results")
			full[i] = rv.IsValid() && rv.Len() == rv.Cap()
		}
		lo, hi := 0, nSync
		if op.Mode == "async" {
			lo, hi = nSync, len(subs)
		}
		var cands []int
		for i := lo; i < hi; i++ {
			if inDo[i] != nil || inBefore[i] != nil {
				cands = append(cands, i)
			}
		}
		if len(cands) == 0 {
			for i := lo; i < hi; i++ {
				cands = append(cands, i)
			}
		}
		mode := map[string]int{"default": service.INSERT_MODE_DEFAULT, "sync": service.INSERT_MODE_SYNC, "async": service.INSERT_MODE_ASYNC}[op.Mode]
		var p *promise.Promise[uint32]
		type reqRet struct {
			p       *promise.Promise[uint32]
			crashed bool
		}
		retCh := make(chan reqRet, 1)
		go func() {
			var ret reqRet
			defer func() {
				if e := recover(); e != nil {
					ret.crashed = true
				}
				retCh <- ret
			}()
			ret.p = ms.Request(r.payload, mode)
		}()
		ret, returned := c0102Recv(retCh, stepTimeout)
		if !returned {
			res.err = fmt.Errorf("Request (request %d) did not return within %s", r.id, stepTimeout)
			res.timedOut = true
			return
		}
		p = ret.p
		if ret.crashed {
			crashed = true
		}
		after := snapshot()
		chosen := -1
		for i := range subs {
			if !same(before[i], after[i]) {
				chosen = i
			}
		}
		pick := 0
		if chosen >= 0 {
			pick = 99
			for ci, c := range cands {
				if c == chosen {
					pick = ci
				}
			}
			res.reqSub[r.id] = chosen
			res.growOf[r.id] = full[chosen]
		} else if crashed {
			// a panic before any visible change: attribute it to the only candidate, or give up the tie
			if len(cands) != 1 {
				res.stats["crash-unattributed"]++
				res.skip = true
			}
		}
		emit := func() {
			ops = append(ops, fmt.Sprintf("q:%s:%d:%d:%s:%d:%s:%s", op.Mode, pick, r.id, kindPType[r.kind], r.size, r.encArrays(), r.encScalars()))
		}
		if crashed {
			emit()
			evs = append(evs, "x")
			res.events = append(res.events, sevent{Step: curStep, Kind: "crash"})
			return
		}
		if chosen >= 0 && after[chosen].Pending > before[chosen].Pending {
			emit()
			open = append(open, outstanding{r.id, p})
			return
		}
		// not queued: the promise must be complete already
		// (a promise that Request neither queued nor completed is reported as a hang by the oracle, not waited for)
		answered, err := c0102Await(p, stepTimeout/2)
		if !answered {
			err = promise.GetContextTimeout
		}
		if chosen < 0 {
			// nothing changed anywhere: the sub-service that answered is one that answers like this without
			// touching its state — a stopped one for "service stopped", one with nil columns for a type
			// error, else any running one (all candidates of that class are indistinguishable)
			want := func(st service.VerifState) bool { return st.Running && !st.ColsNil }
			if err != nil && err != promise.GetContextTimeout {
				if strings.Contains(err.Error(), "stopped") {
					want = func(st service.VerifState) bool { return !st.Running }
				} else {
					want = func(st service.VerifState) bool { return st.Running && st.ColsNil }
				}
			}
			for ci, c := range cands {
				if want(after[c]) {
					pick = ci
					break
				}
			}
		}
		emit()
		if err == promise.GetContextTimeout {
			open = append(open, outstanding{r.id, p}) // neither queued nor completed: will show as hang
			return
		}
		evs = append(evs, fmt.Sprintf("r:%d:%s", r.id, okStr(err == nil)))
		res.events = append(res.events, sevent{Step: curStep, Kind: "resolved", ID: r.id, Ok: err == nil})
	}

	all := append([]mop{}, sc.Ops...)
	if sc.Final {
		for i := range subs {
			all = append(all, mop{Kind: "dores", Sub: i, Ok: true}, mop{Kind: "trigger", Sub: i}, mop{Kind: "iter", Sub: i, Ok: true},
				mop{Kind: "dores", Sub: i, Ok: true})
		}
	}
	for step, op := range all {
		if crashed || res.err != nil {
			break
		}
		curStep = step
		i := op.Sub
		if i >= len(subs) {
			i = i % len(subs)
		}
		switch op.Kind {
		case "req":
			request(op)
		case "trigger":
			subs[i].PlanFlush()
			ops = append(ops, fmt.Sprintf("t:%d", i))
		case "flush":
			ms.PlanFlush()
			ops = append(ops, "f")
		case "iter":
			iterate(i, op.Ok)
		case "dores":
			doResult(i, op.Ok)
		case "begin":
			begin(i)
		case "ping":
			// the watchdog branch of Run. Run is sequential: not while it is inside Do, not after it returned.
			if inDo[i] != nil || inBefore[i] != nil {
				continue
			}
			ops = append(ops, fmt.Sprintf("p:%d:%s", i, b01(op.Ok)))
			if !stopped[i] {
				env.mu.Lock()
				env.pingFail = !op.Ok
				before := env.nPing
				env.mu.Unlock()
				hadClient := subs[i].VerifState().Client
				subs[i].VerifPing(2 * time.Second)
				env.mu.Lock()
				pinged := env.nPing > before
				env.mu.Unlock()
				res.stats["ping"]++
				if pinged != hadClient {
					res.err = fmt.Errorf("watchdog ping of sub-service %d: client present %v but Ping called %v", i, hadClient, pinged)
				}
				if pinged && !op.Ok {
					res.stats["ping-fail"]++
				}
			}
		case "stop":
			st := subs[i].VerifState()
			if inDo[i] != nil || inBefore[i] != nil || st.FlushDue || !st.Running {
				continue // Run's select could as well take the insert branch: keep the run deterministic
			}
			subs[i].Stop()
			done := make(chan struct{})
			go func() { subs[i].Run(); close(done) }()
			select {
			case <-done:
				ops = append(ops, fmt.Sprintf("s:%d", i))
				res.stats["stop"]++
				stopped[i] = true
			case <-time.After(stepTimeout):
				res.err = fmt.Errorf("Run did not return within %s after Stop", stepTimeout)
				res.timedOut = true
			}
		}
		if !crashed {
			poll()
		}
	}
	for i := range subs {
		if inBefore[i] != nil && !crashed && res.err == nil {
			begin(i) // the state line below is compared with the model: let the flusher reach client.Do
		}
	}
	if sc.Final && !crashed && res.err == nil && len(open) > 0 {
		// bounded wait: every flush iteration completes its promises before it returns, so nothing is pending; a promise
		// still open after this grace (ONE budget for all of them) is reported by the oracles as never answered
		grace := 200 * time.Millisecond
		if sc.scale > 1 {
			grace *= time.Duration(sc.scale)
		}
		budget := c0102NewBudget(grace)
		curStep = len(all)
		var still []outstanding
		for _, o := range open {
			if done, err := budget.await(o.p); done {
				evs = append(evs, fmt.Sprintf("r:%d:%s", o.id, okStr(err == nil)))
				res.events = append(res.events, sevent{Step: curStep, Kind: "resolved", ID: o.id, Ok: err == nil})
				res.stats["late-completion"]++
			} else {
				still = append(still, o)
			}
		}
		open = still
	}
	state := "crashed"
	if !crashed {
		var parts []string
		for _, s := range subs {
			st := s.VerifState()
			rows := "nil"
			if !st.ColsNil {
				rs := make([]string, len(st.ColRows))
				for k, n := range st.ColRows {
					rs[k] = strconv.Itoa(n)
				}
				rows = strings.Join(rs, ".")
			}
			parts = append(parts, fmt.Sprintf("%d,%d,%s,%s,%s,%s,%s", st.Pending, st.Size, b01(st.Client), b01(st.Running), b01(st.FlushDue),
				b01(st.State == service.INSERT_STATE_INSERTING), rows))
		}
		state = strings.Join(parts, ";")
	}
	// release anything still blocked so that the goroutines end (not part of the compared trace)
	stillOpen := map[int]bool{}
	for _, o := range open {
		stillOpen[o.id] = true
	}
	for i := range subs {
		if inBefore[i] != nil {
			close(inBefore[i])
			inBefore[i] = nil
			if call, ok := c0102Recv(env.doCalls, stepTimeout); ok {
				c := call
				inDo[i] = &c
			}
		}
		if inDo[i] != nil {
			inDo[i].reply <- errScripted
			c0102Recv(iterDone[i], stepTimeout) // bounded: an iteration that never returns must not block the run
			inDo[i] = nil
		}
	}
	res.implOut = strings.Join(evs, ";") + "#" + state
	res.opsSoFar = ops
	res.modelOps = fmt.Sprintf("c01run %s %d %d %s", sc.Kind, sc.MaxQueue, sc.SvcNum, strings.Join(ops, ";"))
	if len(ops) == 0 {
		res.modelOps = fmt.Sprintf("c01run %s %d %d", sc.Kind, sc.MaxQueue, sc.SvcNum)
	}
	if sc.Final && !crashed {
		stopped := map[int]bool{}
		for i, s := range subs {
			if !s.VerifState().Running {
				stopped[i] = true
			}
		}
		for _, o := range open {
			if sub, ok := res.reqSub[o.id]; ok && stopped[sub] {
				continue // a stopped sub-service never flushes: outside the liveness claim
			}
			if res.reqs[o.id].size > 0 {
				res.hung = append(res.hung, o.id)
			} else {
				res.hungZero = append(res.hungZero, o.id)
			}
		}
	}
	return res
}

func okStr(b bool) string {
	if b {
		return "ok"
	}
	return "err"
}
func b01(b bool) string {
	if b {
		return "1"
	}
	return "0"
}

// ---------------------------------------------------------------- generators

func genLens(rng *h.Rng, kind string, n int, nonRect bool) map[string]int {
	lens := map[string]int{}
	for _, f := range kindFields[kind] {
		lens[f.name] = n
	}
	if kind == "profile" {
		lens["#scalars"] = 1
	}
	if nonRect {
		fs := kindFields[kind]
		f := fs[rng.Intn(len(fs))]
		switch rng.Intn(3) {
		case 0:
			lens[f.name] = n + 1 + rng.Intn(2)
		case 1:
			if n > 0 {
				lens[f.name] = n - 1
			} else {
				lens[f.name] = 1
			}
		default:
			lens[f.name] = 0
			if n == 0 {
				lens[f.name] = 2
			}
		}
	}
	return lens
}

func genScenario(rng *h.Rng, maxOps int, allowConnFail bool, big bool) *scenario {
	sc := &scenario{Kind: h.Pick(rng, kinds), SvcNum: 1, Final: rng.Chance(70)}
	if rng.Chance(30) {
		sc.SvcNum = 2 + rng.Intn(2)
	}
	switch rng.Intn(4) {
	case 0:
		sc.MaxQueue = 0
	case 1:
		sc.MaxQueue = 1
	case 2:
		sc.MaxQueue = 60 + rng.Intn(200)
	default:
		sc.MaxQueue = 100000
	}
	nsubs := 2 * sc.SvcNum
	nops := 5 + rng.Intn(maxOps-4)
	dirty := rng.Chance(12) // scenarios that may contain malformed requests
	usedBig := !rng.Chance(12)
	connFails := 0
	for len(sc.Ops) < nops {
		sub := rng.Intn(sc.SvcNum) // mostly the sync group, where doPush sends everything
		if rng.Chance(10) {
			sub = rng.Intn(nsubs)
		}
		switch x := rng.Intn(100); {
		case x < 45:
			burst := 1 + rng.Intn(4)
			for b := 0; b < burst; b++ {
				n := []int{0, 1, 1, 2, 3, 5, 8, 20, 50}[rng.Intn(9)]
				if sc.Kind == "profile" {
					n = 1
				}
				if big && !usedBig && rng.Chance(2) {
					n = 10000 // one very large request in about one sequence out of ten
					usedBig = true
				}
				op := mop{Kind: "req", Mode: "sync", ReqKind: sc.Kind}
				if rng.Chance(8) {
					op.Mode = h.Pick(rng, []string{"default", "async"})
				}
				nonRect := dirty && rng.Chance(25)
				if dirty && rng.Chance(8) {
					op.ReqKind = h.Pick(rng, kinds) // possibly the wrong payload type
				}
				if sc.Kind == "profile" && op.ReqKind == "profile" && dirty && rng.Chance(20) {
					n = rng.Intn(3) // 0 or 2 profiles in one ProfileData: not rectangular
					nonRect = false
				}
				op.Lens = genLens(rng, op.ReqKind, n, nonRect)
				if op.ReqKind == "profile" && n == 0 && rng.Bool() {
					op.Lens["#scalars"] = 0 // the empty ProfileData a parser would emit without any profile
				}
				op.Size = n*(14+rng.Intn(30)) + 1
				if n == 0 {
					op.Size = rng.Intn(2) * 16
				}
				if dirty && rng.Chance(10) {
					op.Size = 0 // rows without an accounted size
				}
				sc.Ops = append(sc.Ops, op)
			}
		case x < 55:
			sc.Ops = append(sc.Ops, mop{Kind: "trigger", Sub: sub})
		case x < 60:
			sc.Ops = append(sc.Ops, mop{Kind: "flush"})
		case x < 80:
			ok := true
			if allowConnFail && connFails < 1 && rng.Chance(6) {
				ok = false
				connFails++
			}
			sc.Ops = append(sc.Ops, mop{Kind: "iter", Sub: sub, Ok: ok})
		case x < 94:
			sc.Ops = append(sc.Ops, mop{Kind: "dores", Sub: sub, Ok: rng.Chance(65)})
		case x < 98:
			sc.Ops = append(sc.Ops, mop{Kind: "ping", Sub: sub, Ok: rng.Chance(55)})
		default:
			if rng.Chance(30) {
				sc.Ops = append(sc.Ops, mop{Kind: "stop", Sub: sub})
			}
		}
	}
	return sc
}

// scenario list used by replays and by the fixed corpus at the head of every run
func corpusScenarios() []*scenario {
	rect := func(kind string, n int) map[string]int { return genLens(h.NewRng(1), kind, n, false) }
	return []*scenario{
		// two requests, failed Do, retry, successful Do
		{Kind: "samples", SvcNum: 1, Final: true, Ops: []mop{
			{Kind: "req", Mode: "sync", ReqKind: "samples", Lens: rect("samples", 2), Size: 60},
			{Kind: "req", Mode: "sync", ReqKind: "samples", Lens: rect("samples", 1), Size: 30},
			{Kind: "trigger"}, {Kind: "iter", Ok: true}, {Kind: "req", Mode: "sync", ReqKind: "samples", Lens: rect("samples", 3), Size: 90},
			{Kind: "dores", Ok: false}, {Kind: "trigger"}, {Kind: "iter", Ok: true}, {Kind: "dores", Ok: true}}},
		// size trigger: MaxQueueSize 1
		{Kind: "tempoTags", SvcNum: 1, MaxQueue: 1, Final: true, Ops: []mop{
			{Kind: "req", Mode: "sync", ReqKind: "tempoTags", Lens: rect("tempoTags", 2), Size: 90}, {Kind: "iter", Ok: true}, {Kind: "dores", Ok: true}}},
		// silent iteration, then empty request, then stop and a request after stop
		{Kind: "timeSeries", SvcNum: 1, Final: true, Ops: []mop{{Kind: "trigger"}, {Kind: "iter", Ok: true},
			{Kind: "req", Mode: "sync", ReqKind: "timeSeries", Lens: rect("timeSeries", 0), Size: 0}, {Kind: "stop"},
			{Kind: "req", Mode: "sync", ReqKind: "timeSeries", Lens: rect("timeSeries", 1), Size: 20}}},
		// the empty ProfileData, then a real profile in the same batch
		{Kind: "profile", SvcNum: 1, Final: true, Ops: []mop{
			{Kind: "req", Mode: "sync", ReqKind: "profile", Lens: map[string]int{}, Size: 0},
			{Kind: "req", Mode: "sync", ReqKind: "profile", Lens: rect("profile", 1), Size: 40},
			{Kind: "trigger"}, {Kind: "iter", Ok: true}, {Kind: "dores", Ok: true}}},
		// wrong payload type nils the columns; the next good request faults
		{Kind: "samples", SvcNum: 1, Ops: []mop{
			{Kind: "req", Mode: "sync", ReqKind: "tempoTags", Lens: rect("tempoTags", 1), Size: 50},
			{Kind: "req", Mode: "sync", ReqKind: "samples", Lens: rect("samples", 1), Size: 30}}},
		// rows with accounted size 0 are never flushed
		{Kind: "metrics", SvcNum: 1, Final: true, Ops: []mop{
			{Kind: "req", Mode: "sync", ReqKind: "metrics", Lens: rect("metrics", 2), Size: 0}, {Kind: "trigger"}, {Kind: "iter", Ok: true}}},
		// a failed watchdog ping drops the client; the next iteration reconnects; a ping without client does nothing
		{Kind: "samples", SvcNum: 1, Final: true, Ops: []mop{
			{Kind: "ping", Ok: false},
			{Kind: "req", Mode: "sync", ReqKind: "samples", Lens: rect("samples", 1), Size: 30},
			{Kind: "trigger"}, {Kind: "iter", Ok: true}, {Kind: "dores", Ok: true}, {Kind: "ping", Ok: true}, {Kind: "ping", Ok: false},
			{Kind: "req", Mode: "sync", ReqKind: "samples", Lens: rect("samples", 2), Size: 60},
			{Kind: "trigger"}, {Kind: "iter", Ok: true}, {Kind: "dores", Ok: true}}},
		// two sub-services: requests go to the one that is inserting
		{Kind: "tempoSamples", SvcNum: 2, Final: true, Ops: []mop{
			{Kind: "req", Mode: "sync", ReqKind: "tempoSamples", Lens: rect("tempoSamples", 1), Size: 70}, {Kind: "flush"},
			{Kind: "iter", Sub: 0, Ok: true}, {Kind: "iter", Sub: 1, Ok: true},
			{Kind: "req", Mode: "sync", ReqKind: "tempoSamples", Lens: rect("tempoSamples", 2), Size: 140},
			{Kind: "req", Mode: "sync", ReqKind: "tempoSamples", Lens: rect("tempoSamples", 1), Size: 70},
			{Kind: "dores", Sub: 0, Ok: true}, {Kind: "dores", Sub: 1, Ok: false}}},
	}
}

func sortedKeys(m map[int]*hReq) []int {
	var ks []int
	for k := range m {
		ks = append(ks, k)
	}
	sort.Ints(ks)
	return ks
}
