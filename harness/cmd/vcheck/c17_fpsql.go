package main

import (
	"context"
	"encoding/json"
	"fmt"
	"strings"
	"time"

	"github.com/metrico/qryn/reader/logql/logql_transpiler_v2/shared"
	"github.com/metrico/qryn/reader/promql/transpiler"
	sql "github.com/metrico/qryn/reader/utils/sql_select"
	"github.com/prometheus/prometheus/model/labels"
	"github.com/prometheus/prometheus/storage"
	"verif/harness/h"
)

// ---------------------------------------------------------------------------------------------------
// Stream 3: matcher → SQL text. Real code: transpiler.TranspileLabelMatchers (fingerprintsQuery,
// StreamSelectPlanner.Process, SqlBitSetAnd, InitClickhousePlanner) rendered with sql_select; compared byte
// for byte (whitespace collapsed) with the model's rendering of the fp_sel sub-query and of the scan bounds.

type c17FpCase struct {
	Stream   string          `json:"stream"`
	Start    int64           `json:"start"`
	End      int64           `json:"end"`
	Matchers []c17E2EMatcher `json:"matchers"` // values hex-encoded here
	SQL      string          `json:"sql,omitempty"`
}

func c17Collapse(s string) string { return strings.Join(strings.Fields(s), " ") }

// c17WithBody returns the text inside "WITH <name> as ( … )" (balanced, string literals respected) and the rest.
func c17WithBody(q, name string) (string, string, error) {
	pre := "WITH " + name + " as ("
	i := strings.Index(q, pre)
	if i < 0 {
		return "", "", fmt.Errorf("no %q in %s", pre, q)
	}
	j := i + len(pre)
	depth := 1
	for k := j; k < len(q); k++ {
		switch q[k] {
		case '\'':
			for k++; k < len(q) && q[k] != '\''; k++ {
				if q[k] == '\\' {
					k++
				}
			}
		case '(':
			depth++
		case ')':
			depth--
			if depth == 0 {
				return q[j:k], q[k+1:], nil
			}
		}
	}
	return "", "", fmt.Errorf("unbalanced WITH body")
}

func c17TypeName(t labels.MatchType) string {
	switch t {
	case labels.MatchEqual:
		return "eq"
	case labels.MatchNotEqual:
		return "ne"
	case labels.MatchRegexp:
		return "re"
	}
	return "nre"
}

// c17MatcherArg is a matcher in the driver's notation: `eq|ne|re|nre:<hex name>:<hex value>[:e]`; `:e` tells the model that
// the regular expression of a =~ / !~ matcher matches the empty string (the regular-expression engine stays outside the
// model; fingerprintsQuery consults it through Matcher.Matches("")).
func c17MatcherArg(m *labels.Matcher) string {
	s := c17TypeName(m.Type) + ":" + h.Hex([]byte(m.Name)) + ":" + h.Hex([]byte(m.Value))
	if (m.Type == labels.MatchRegexp && m.Matches("")) || (m.Type == labels.MatchNotRegexp && !m.Matches("")) {
		s += ":e"
	}
	return s
}

func c17MatcherArgs(ms []*labels.Matcher) string {
	if len(ms) == 0 {
		return "-"
	}
	parts := make([]string, len(ms))
	for i, m := range ms {
		parts[i] = c17MatcherArg(m)
	}
	return strings.Join(parts, ",")
}

func c17RunFpSQL(r *h.Result, c *c17FpCase) (ops, impl []string, err error) {
	var ms []*labels.Matcher
	for i, m := range c.Matchers {
		name, val := string(h.UnHex(m.Name)), string(h.UnHex(m.Value))
		t := c17MatchType(m.Type)
		lm, err := labels.NewMatcher(t, name, val)
		if err != nil {
			// not a regular expression (the generator draws adversarial bytes): the same bytes under = / != — the PromQL
			// parser would have refused the selector, the planner never sees such a matcher
			if t == labels.MatchRegexp {
				t, c.Matchers[i].Type = labels.MatchEqual, "="
			} else {
				t, c.Matchers[i].Type = labels.MatchNotEqual, "!="
			}
			lm = labels.MustNewMatcher(t, name, val)
		}
		ms = append(ms, lm)
	}
	mparts := []string{c17MatcherArgs(ms)}
	ctx := shared.PlannerContext{
		From: time.Unix(0, c.Start*1000000), To: time.Unix(0, c.End*1000000), Ctx: context.Background(), Type: 2,
		TimeSeriesGinTableName: "time_series_gin", SamplesTableName: "samples_v3",
	}
	res, err := transpiler.TranspileLabelMatchers(&storage.SelectHints{Start: c.Start, End: c.End}, &ctx, ms...)
	if err != nil {
		return nil, nil, fmt.Errorf("TranspileLabelMatchers: %v", err)
	}
	text, err := res.Query.String(&sql.Ctx{Params: map[string]sql.SQLObject{}})
	if err != nil {
		return nil, nil, fmt.Errorf("render: %v", err)
	}
	c.SQL = text
	body, rest, err := c17WithBody(text, "fp_sel")
	if err != nil {
		// the statement no longer has the WITH fp_sel as ( … ) shape, or its parentheses / literals do not balance: that is
		// a finding about the statement (the model's text will differ), not a reason to stop the run — the oracles of the
		// other streams (taint, leaves) get their chance to turn it into a concrete failing input
		body, rest = "shape-not-recognised:"+err.Error()+":"+text, ""
	}
	date := time.Unix(0, c.Start*1000000).UTC().Add(-30 * time.Minute).Format("2006-01-02")
	ops = append(ops, fmt.Sprintf("c17fpsql time_series_gin %s 2 %s", h.Hex([]byte(date)), strings.Join(mparts, ",")))
	impl = append(impl, h.Hex([]byte(c17Collapse(body))))
	// main query: WHERE <scan bounds> and (type IN (2,0)) and (samples.fingerprint IN (fp_sel)) ORDER BY …
	rest = c17Collapse(rest)
	const tail = " and (type IN (2,0)) and (samples.fingerprint IN (fp_sel)) ORDER BY fingerprint asc, samples.timestamp_ns asc"
	const head = "SELECT samples.fingerprint as fingerprint, samples.value as value, intDiv(samples.timestamp_ns, 1000000) as timestamp_ms FROM samples_v3 as samples WHERE "
	scan := "shape-not-recognised:" + rest
	if strings.HasPrefix(rest, head) && strings.HasSuffix(rest, tail) {
		scan = h.Hex([]byte(rest[len(head) : len(rest)-len(tail)]))
	}
	ops = append(ops, fmt.Sprintf("c17scan %d %d", c.Start*1000000, c.End*1000000))
	impl = append(impl, scan)
	return ops, impl, nil
}

func c17FpSQL(r *h.Result, rng *h.Rng, n int) error {
	r.Stream("fpsql: transpiler.TranspileLabelMatchers rendered by sql_select vs Prom.FpQuery.render (fp_sel sub-query, byte-equal after collapsing blanks) and Prom.renderScan (bounds of the raw-sample scan)")
	var ops, impl []string
	var cases []any
	types := []string{"=", "!=", "=~", "!~"}
	for i := 0; i < n; i++ {
		c := c17FpCase{Stream: "fpsql", Start: c17Base + int64(rng.Intn(200000)) - 100000}
		if rng.Chance(10) {
			c.Start = int64(rng.Intn(4000000)) // around the epoch: date arithmetic of the from-date
		}
		c.End = c.Start + int64(rng.Intn(100000))
		nm := rng.Range(1, 5)
		if rng.Chance(15) {
			nm = rng.Range(6, 14)
		}
		if rng.Chance(3) {
			nm = 0 // no matcher at all: neither OR nor HAVING
		}
		for k := 0; k < nm; k++ {
			var name, val []byte
			if rng.Chance(60) {
				name = []byte(h.Pick(rng, c17Names))
			} else {
				name = rng.Bytes(8)
			}
			if rng.Chance(40) {
				val = []byte(h.Pick(rng, c17Regex))
			} else {
				val = rng.Bytes(12)
			}
			c.Matchers = append(c.Matchers, c17E2EMatcher{Type: h.Pick(rng, types), Name: h.Hex(name), Value: h.Hex(val)})
		}
		o, im, err := c17RunFpSQL(r, &c)
		if err != nil {
			return err
		}
		ops = append(ops, o...)
		impl = append(impl, im...)
		cases = append(cases, c, c)
		b, _ := json.Marshal(c.Matchers)
		special := false
		for _, m := range c.Matchers {
			if strings.ContainsAny(string(h.UnHex(m.Value))+string(h.UnHex(m.Name)), "'\\\x00\n") {
				special = true
			}
		}
		r.Case("fpsql:"+string(b), special || nm > 8)
		r.Count(fmt.Sprintf("fpsql:matchers=%d", nm))
		nopt := 0
		for _, m := range c.Matchers {
			if lm, err := labels.NewMatcher(c17MatchType(m.Type), string(h.UnHex(m.Name)), string(h.UnHex(m.Value))); err == nil && lm.Matches("") {
				nopt++
			}
		}
		switch {
		case nopt == 0:
			r.Count("fpsql:every matcher rejects the empty value (shared planner)")
		case nopt == nm:
			r.Count("fpsql:every matcher accepts the empty value (no OR, HAVING == 0)")
		default:
			r.Count("fpsql:some matchers accept the empty value (inverted, bit clear)")
		}
		if i%301 == 0 {
			r.Sample(c)
		}
	}
	return c17CompareText(r, "fpsql", ops, impl, cases)
}

// c17CompareText compares hex-encoded SQL texts after collapsing blanks on the model side too.
func c17CompareText(r *h.Result, stream string, ops, impl []string, cases []any) error {
	model, err := h.Model(ops)
	if err != nil {
		return err
	}
	for i := range ops {
		m := model[i]
		if m != "unsupported" && m != "bad-op" {
			m = h.Hex([]byte(c17Collapse(string(h.UnHex(m)))))
		}
		if m != impl[i] {
			im, mm := impl[i], m
			if !strings.HasPrefix(im, "shape") {
				im = string(h.UnHex(im))
			}
			if mm != "unsupported" && mm != "bad-op" {
				mm = string(h.UnHex(mm))
			}
			r.Disagree(stream, ops[i], im, mm, cases[i])
		}
	}
	return nil
}

func init() {
	c17Streams = append(c17Streams, func(r *h.Result, rng *h.Rng, tier string) error {
		n := 800
		if tier != "quick" {
			n = 30000
		}
		r.Rule += "; fpsql: 1..5 (15%: 6..14) matchers of the four types, names from the label pool or ≤8 adversarial bytes, values from a regex pool or ≤12 adversarial bytes (quotes, backslashes, NUL, newlines), windows around 2023-11-14 and around the epoch; 3 %: no matcher; matchers that accept the empty value (!=x, =\"\", =~.*, !~x) occur in most cases; non-trivial = an escaped byte in a name/value or more than 8 matchers"
		return c17FpSQL(r, rng, n)
	})
	c17ReplayMore["fpsql"] = func(r *h.Result, raw json.RawMessage) error {
		var c c17FpCase
		if err := json.Unmarshal(raw, &c); err != nil {
			return err
		}
		o, im, err := c17RunFpSQL(r, &c)
		if err != nil {
			return err
		}
		r.Case("replay", true)
		return c17CompareText(r, "fpsql", o, im, []any{c, c})
	}
}
