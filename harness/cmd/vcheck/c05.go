package main

// C05 — no request body can crash or wedge the ingest side.
//
// The real writer routes run in a CHILD process (c05_child.go). Two streams:
//   structured: documents of known shape per route (c05_gen.go); the HTTP status is compared with the Lean
//               model's `ingest` (driver op c05ingest) and judged by the liveness oracle;
//   raw:        byte-level mutations per content type and encoding (gzip, snappy, multipart, ndjson) — labelled
//               FUZZING: liveness oracle only, used for the search.
// Oracle (on the implementation alone): every request gets a status within the deadline, the child stays alive
// and exits 0, after every batch a well-formed push is still acknowledged, every block handed to the database
// client is rectangular, and the goroutine census returns to its baseline.

import (
	"bytes"
	"encoding/base64"
	"encoding/json"
	"errors"
	"fmt"
	"os"
	"sort"
	"strings"

	"github.com/golang/snappy"

	"verif/harness/h"
)

func init() { props["C05"] = c05 }

type c05Run struct {
	r        *h.Result
	p        *c05Proc
	deadline int
	batch    []c05Sent // requests since the last post-batch check
	nextPush int       // rotating route of the post-batch push
	pushRng  *h.Rng
	crashes  int
	hangs    int
	spawns   int
	// allocation oracle (c05_alloc.go): largest counted TotalAlloc delta per stream and the request it belongs to
	maxAlloc     map[string]uint64
	maxAllocWhat map[string]string
	lastAlloc    uint64
}

type c05Sent struct {
	Stream string     `json:"stream"`
	Route  string     `json:"route"`
	Shape  string     `json:"shape"`
	Req    c05ReplayQ `json:"request"`
}

type c05ReplayQ struct {
	Method  string            `json:"method"`
	Path    string            `json:"path"`
	Headers map[string]string `json:"headers"`
	BodyB64 string            `json:"body_b64"`
	BodyLen int               `json:"body_len"`
}

func c05Q(rq c05Request) c05ReplayQ {
	b := rq.Body
	// keep replay files small: bodies above 64 KiB are regenerated from the seed instead
	q := c05ReplayQ{Method: rq.Method, Path: rq.Path, Headers: rq.Headers, BodyLen: len(b)}
	if len(b) <= 1<<16 {
		q.BodyB64 = base64.StdEncoding.EncodeToString(b)
	}
	return q
}

// c05FirstShape: the part of a shape list used in a violation key ("short-id" wins: it is what kills)
func c05FirstShape(s string) string {
	parts := strings.Split(s, "+")
	for _, p := range parts {
		if p == "short-id" {
			return p
		}
	}
	return parts[0]
}

func c05HasViolation(r *h.Result, key string) bool {
	for _, v := range r.Violations {
		if v.Key == key {
			return true
		}
	}
	return false
}

// respawn: a fresh child, one well-formed push per route (first use of every path allocates its long-lived
// goroutines), then the census baseline.
func (c *c05Run) respawn() error {
	p, err := c05Spawn()
	if err != nil {
		return err
	}
	c.p = p
	c.spawns++
	for route := range c05RouteNames {
		vc := c05GenStructured(h.NewRng(uint64(route)+77), route, false)
		o, dead := c.p.Do(vc.Req, c.deadline)
		if o.Class != "2xx" {
			c.r.Violate("C05/valid-push-rejected/"+c05RouteNames[route], fmt.Sprintf("a well-formed %s push is answered %s %d %s", c05RouteNames[route], o.Class, o.Status, o.Detail),
				map[string]any{"stream": "warm-up", "route": c05RouteNames[route], "shape": vc.Shape, "request": c05Q(vc.Req), "outcome": o.Class, "panic": o.Detail})
		}
		if dead {
			// a WELL-FORMED push ends the process: every further child would die the same way
			if o.Class == "crash" {
				c.r.Violate("C05/crash/"+c05RouteNames[route]+"/valid-push",
					fmt.Sprintf("a well-formed %s push (%s %s, %d bytes) killed the writer process: %s at %s", c05RouteNames[route], vc.Req.Method, vc.Req.Path, len(vc.Req.Body), o.Detail, o.Frame),
					map[string]any{"stream": "warm-up", "route": c05RouteNames[route], "shape": vc.Shape, "request": c05Q(vc.Req), "outcome": "crash", "panic": o.Detail, "frame": o.Frame})
			}
			return fmt.Errorf("%w: the child died during the warm-up push of %s: %s", errC05Fatal, c05RouteNames[route], o.Detail)
		}
	}
	if _, err := c.p.Blocks(); err != nil {
		return err
	}
	_, err = c.p.Rebase()
	return err
}

// send one request and judge liveness. Returns the canonical outcome string ("s204", "crash", "hang", "abort").
func (c *c05Run) send(stream string, routeName, shape string, rq c05Request, model string) (string, error) {
	o, dead := c.p.Do(rq, c.deadline)
	if o.Class == "hang" {
		// a verdict that rests on a clock is reported only when the request ALONE, in a fresh child, with 10x the time,
		// is still not answered: a hung request stays hung, one that was slow because the machine is busy does not
		if dead {
			c.batch = nil
			if err := c.respawn(); err != nil {
				return "hang", err
			}
		}
		if o2, dead2 := c.p.Do(rq, 10*c.deadline); o2.Class != "hang" {
			c.r.Count("outcome:" + stream + ":deadline-missed-but-answered-alone-with-10x-time")
			o, dead = o2, dead2
		} else {
			dead = dead2
		}
	}
	if os.Getenv("C05_DEBUG") != "" {
		fmt.Fprintf(os.Stderr, "%s %s %s %s -> %s %d %dms\n", stream, routeName, shape, rq.Path, o.Class, o.Status, o.Elapsed)
	}
	sent := c05Sent{stream, routeName, shape, c05Q(rq)}
	c.batch = append(c.batch, sent)
	out := ""
	switch o.Class {
	case "crash":
		out = "crash"
		c.crashes++
		keyShape := c05FirstShape(shape)
		if stream == "raw" && o.Frame != "" {
			// fuzzed input has no shape of its own: identify the crash by the function that panicked
			keyShape = o.Frame[strings.LastIndex(o.Frame, "/")+1:]
		}
		c.r.Violate("C05/crash/"+routeName+"/"+keyShape,
			fmt.Sprintf("%s %s (%s, %d bytes) killed the writer process: %s at %s", rq.Method, rq.Path, shape, len(rq.Body), o.Detail, o.Frame),
			map[string]any{"stream": stream, "route": routeName, "shape": shape, "request": sent.Req, "outcome": "crash", "panic": o.Detail, "frame": o.Frame, "model": model})
	case "hang":
		out = "hang"
		c.hangs++
		c.r.Violate("C05/hang/"+routeName,
			fmt.Sprintf("%s %s (%s, %d bytes): no response within %d ms (%s)", rq.Method, rq.Path, shape, len(rq.Body), c.deadline, o.Detail),
			map[string]any{"stream": stream, "route": routeName, "shape": shape, "request": sent.Req, "outcome": "hang", "deadline_ms": c.deadline, "model": model})
	case "abort":
		out = "abort"
		c.r.Violate("C05/abort/"+routeName,
			fmt.Sprintf("%s %s (%s): the connection was closed without a response (a panic in the handler goroutine): %s", rq.Method, rq.Path, shape, o.Detail),
			map[string]any{"stream": stream, "route": routeName, "shape": shape, "request": sent.Req, "outcome": "abort", "model": model})
	default:
		out = fmt.Sprintf("s%d", o.Status)
	}
	c.r.Count("outcome:" + stream + ":" + o.Class)
	c.lastAlloc = 0
	if dead {
		c.batch = nil
		if err := c.respawn(); err != nil {
			return out, err
		}
	} else {
		a, err := c.judgeAlloc(stream, routeName, shape, rq, sent, o, model)
		if err != nil {
			return out, err
		}
		c.lastAlloc = a
	}
	return out, nil
}

// postBatch: a following well-formed push still succeeds, blocks rectangular, census back to baseline.
func (c *c05Run) postBatch() error {
	route := c.nextPush % len(c05RouteNames)
	c.nextPush++
	vc := c05GenStructured(c.pushRng, route, false)
	vc.Req.Headers = c05CloneHeaders(vc.Req.Headers)
	o, dead := c.p.Do(vc.Req, c.deadline)
	c.r.Count("post-batch-push:" + o.Class)
	if o.Class != "2xx" {
		c.r.Violate("C05/next-push-rejected/"+c05RouteNames[route],
			fmt.Sprintf("after a batch of %d requests a well-formed %s push is answered %s %d %s", len(c.batch), c05RouteNames[route], o.Class, o.Status, o.Detail),
			map[string]any{"stream": "post-batch", "route": c05RouteNames[route], "request": c05Q(vc.Req), "outcome": o.Class, "batch": c.batch})
	}
	if dead {
		c.batch = nil
		return c.respawn()
	}
	b, err := c.p.Blocks()
	if err != nil {
		return fmt.Errorf("child blocks: %v", err)
	}
	for _, nr := range b.NonRect {
		table := nr
		if i := strings.Index(nr, ":"); i > 0 {
			table = nr[:i]
		}
		c.r.Violate("C05/nonrect/"+table,
			"a block handed to the database client has columns of different lengths: "+nr,
			map[string]any{"stream": "post-batch", "block": nr, "batch": c.batch})
	}
	for _, rg := range b.Ragged {
		tp := rg
		if i := strings.Index(rg, ":"); i > 0 {
			tp = rg[:i]
		}
		// the oracle of parser_rect_*: a request object a real parser emitted, seen at the door of the insert service
		c.r.Violate("C05/ragged-request/"+tp,
			"a parser handed the insert service a request whose per-row arrays differ in length: "+rg,
			c.raggedReplay(rg))
	}
	c.r.CountN("requests-inspected", b.Requests)
	c.r.CountN("blocks-captured", b.Blocks)
	for t, n := range b.Rows {
		c.r.CountN("rows:"+t, n)
	}
	if c05HasViolation(c.r, "C05/goroutine-leak") {
		// already reported with its request; every further census would only wait for the same leak
		c.batch = nil
		return nil
	}
	cs, err := c.p.Census()
	if err != nil {
		return fmt.Errorf("child census: %v", err)
	}
	if os.Getenv("C05_DEBUG") != "" {
		fmt.Fprintf(os.Stderr, "post-batch: push %s, %d blocks, %d nonrect, census %d baseline %d\n", o.Class, b.Blocks, len(b.NonRect), cs.Goroutines, cs.Baseline)
	}
	if cs.Goroutines > cs.Baseline {
		// start from a clean process, then find the request of the batch that leaves goroutines behind
		c.p.Kill()
		if err := c.respawn(); err != nil {
			return err
		}
		batch := c.batch
		c.batch = nil
		rep := map[string]any{"stream": "post-batch", "goroutines": cs.Goroutines, "baseline": cs.Baseline}
		what := fmt.Sprintf("goroutine census %d stays above the baseline %d three seconds after a batch of %d requests", cs.Goroutines, cs.Baseline, len(batch))
		key := "C05/goroutine-leak"
		if !c05HasViolation(c.r, key) {
			for _, s := range batch {
				body, _ := base64.StdEncoding.DecodeString(s.Req.BodyB64)
				if s.Req.BodyLen > 0 && len(body) == 0 {
					continue
				}
				_, dead := c.p.Do(c05Request{s.Req.Method, s.Req.Path, s.Req.Headers, body}, c.deadline)
				if dead {
					if err := c.respawn(); err != nil {
						return err
					}
					continue
				}
				one, err := c.p.Census()
				if err != nil {
					return fmt.Errorf("child census: %v", err)
				}
				if one.Goroutines > one.Baseline {
					what = fmt.Sprintf("%s %s (%s %s) leaves %d goroutine(s) behind: census %d, baseline %d, three seconds after the response", s.Req.Method, s.Req.Path, s.Route, s.Shape, one.Goroutines-one.Baseline, one.Goroutines, one.Baseline)
					rep["route"], rep["shape"], rep["request"], rep["stream"] = s.Route, s.Shape, s.Req, s.Stream
					c.p.Kill()
					if err := c.respawn(); err != nil {
						return err
					}
					break
				}
			}
			if _, ok := rep["request"]; !ok {
				rep["batch"] = batch
			}
		}
		c.r.Violate(key, what, rep)
		return nil
	}
	c.r.Count("census-ok")
	c.batch = nil
	return nil
}

// raggedReplay: the request of the batch that produces the ragged request object, found by replaying the batch one
// request at a time in the running child (the fake database refuses a ragged block, nothing is stored)
func (c *c05Run) raggedReplay(what string) map[string]any {
	rep := map[string]any{"stream": "post-batch", "ragged": what}
	for _, s := range c.batch {
		body, _ := base64.StdEncoding.DecodeString(s.Req.BodyB64)
		if s.Req.BodyLen > 0 && len(body) == 0 {
			continue
		}
		if _, dead := c.p.Do(c05Request{s.Req.Method, s.Req.Path, s.Req.Headers, body}, c.deadline); dead {
			if err := c.respawn(); err != nil {
				break
			}
			continue
		}
		if b, err := c.p.Blocks(); err == nil && len(b.Ragged) > 0 {
			rep["route"], rep["shape"], rep["request"], rep["stream"] = s.Route, s.Shape, s.Req, s.Stream
			return rep
		}
	}
	rep["batch"] = c.batch
	return rep
}

// ---- raw byte/mutation stream (fuzzing): liveness only
var c05RawRoutes = []struct{ name, path, ct string }{
	{"loki-json", "/loki/api/v1/push", "application/json"},
	{"loki-proto", "/loki/api/v1/push", "application/x-protobuf"},
	{"influx", "/influx/api/v2/write", "text/plain"},
	{"otlp-logs", "/v1/logs", "application/x-protobuf"},
	{"prom-write", "/api/v1/prom/remote/write", "application/x-protobuf"},
	{"elastic-doc", "/idx/_doc", "application/json"},
	{"elastic-bulk", "/_bulk", "application/x-ndjson"},
	{"tempo-spans", "/tempo/spans", "application/json"},
	{"tempo-spans-ndjson", "/api/v2/spans", "ndjson"},
	{"otlp-traces", "/v1/traces", "application/x-protobuf"},
	{"ingest-profile", "/ingest", "binary/octet-stream"},
	{"datadog-logs", "/api/v2/logs", "application/json"},
	{"datadog-series", "/api/v2/series", "application/json"},
	{"datadog-cf", "/cf/v1/insert", "application/json"},
}

var c05DatadogBases = map[string]string{
	"datadog-logs":   `[{"ddsource":"nginx","ddtags":"env:prod,version:5.1","hostname":"i-1","message":"hello","service":"pay","timestamp":1700000000000}]`,
	"datadog-series": `{"series":[{"metric":"system.load.1","type":0,"points":[{"timestamp":1700000000,"value":0.7}],"resources":[{"name":"h","type":"host"}],"tags":["a:b"]}]}`,
	"datadog-cf":     `{"DispatchNamespace":"","Event":{"RayID":"1","Request":{"Method":"GET","URL":"https://x/"}},"EventTimestampMs":1700000000000,"EventType":"fetch","Logs":[{"Level":"log","Message":["x"],"TimestampMs":1700000000000}],"Outcome":"ok","ScriptName":"s"}` + "\n",
}

func c05MutateBytes(rng *h.Rng, b []byte) []byte {
	out := append([]byte{}, b...)
	n := 1 + rng.Intn(3)
	for i := 0; i < n; i++ {
		switch rng.Intn(7) {
		case 0: // truncate
			if len(out) > 0 {
				out = out[:rng.Intn(len(out))]
			}
		case 1: // flip bytes
			for k := 0; k < 1+rng.Intn(4) && len(out) > 0; k++ {
				out[rng.Intn(len(out))] ^= byte(1 << rng.Intn(8))
			}
		case 2: // insert adversarial bytes
			pos := rng.Intn(len(out) + 1)
			ins := rng.Bytes(12)
			out = append(out[:pos], append(ins, out[pos:]...)...)
		case 3: // delete a range
			if len(out) > 1 {
				a := rng.Intn(len(out))
				bnd := a + rng.Intn(len(out)-a)
				out = append(out[:a], out[bnd:]...)
			}
		case 4: // duplicate a range
			if len(out) > 1 {
				a := rng.Intn(len(out))
				bnd := a + rng.Intn(len(out)-a)
				dup := append([]byte{}, out[a:bnd]...)
				out = append(out[:bnd], append(dup, out[bnd:]...)...)
			}
		case 5: // replace by noise
			out = rng.Bytes(200)
		case 6: // swap a JSON/proto structural byte
			if len(out) > 0 {
				out[rng.Intn(len(out))] = h.Pick(rng, []byte{'{', '}', '[', ']', '"', ',', ':', 0, 0xff, '\n', 0x0a, 0x12, 0x1a})
			}
		}
	}
	return out
}

func (c *c05Run) genRaw(rng *h.Rng, bombs bool) (string, string, c05Request) {
	rr := h.Pick(rng, c05RawRoutes)
	var base c05Request
	if s, ok := c05DatadogBases[rr.name]; ok {
		base = c05Request{"POST", rr.path, map[string]string{"Content-Type": rr.ct}, []byte(s)}
		if rr.name == "datadog-logs" && rng.Bool() {
			base.Path += "?ddsource=" + h.Pick(rng, []string{"x", "", "%00", strings.Repeat("a", 300)})
		}
	} else {
		idx := 0
		for i, n := range c05RouteNames {
			if n == rr.name {
				idx = i
			}
		}
		base = c05GenStructured(rng, idx, rng.Chance(30)).Req
	}
	rq := c05Request{base.Method, base.Path, c05CloneHeaders(base.Headers), base.Body}
	shape := "mutated"
	wasGzip := rq.Headers["Content-Encoding"] == "gzip"
	switch rng.Intn(10) {
	case 0: // mutate inside a snappy block: decompress, mutate, recompress
		if dec, err := snappy.Decode(nil, rq.Body); err == nil && !wasGzip {
			rq.Body = snappy.Encode(nil, c05MutateBytes(rng, dec))
			shape = "mutated-inside-snappy"
		} else {
			rq.Body = c05MutateBytes(rng, rq.Body)
		}
	case 1: // wrap in gzip after mutation
		if !wasGzip {
			rq.Body = c05GzipBytes(c05MutateBytes(rng, rq.Body))
			rq.Headers["Content-Encoding"] = "gzip"
			shape = "mutated-then-gzip"
		}
	case 2: // corrupt a gzip stream
		if !wasGzip {
			g := c05GzipBytes(rq.Body)
			rq.Body = c05MutateBytes(rng, g)
			rq.Headers["Content-Encoding"] = "gzip"
			shape = "corrupt-gzip"
		}
	case 3: // snappy framing (Content-Encoding: snappy)
		var buf bytes.Buffer
		w := snappy.NewBufferedWriter(&buf)
		w.Write(c05MutateBytes(rng, rq.Body))
		w.Close()
		rq.Body = buf.Bytes()
		if rng.Chance(30) {
			rq.Body = c05MutateBytes(rng, rq.Body)
		}
		rq.Headers["Content-Encoding"] = "snappy"
		shape = "snappy-framed"
	case 4: // another content type
		rq.Headers["Content-Type"] = h.Pick(rng, []string{"", "application/json", "application/x-protobuf", "ndjson", "multipart/form-data", "multipart/form-data; boundary=", "binary/octet-stream", "text/plain", "*"})
		rq.Body = c05MutateBytes(rng, rq.Body)
		shape = "other-content-type"
	case 5: // query parameters
		if i := strings.Index(rq.Path, "?"); i > 0 {
			rq.Path = rq.Path[:i]
		}
		vals := []string{"0", "1", "-1", "18446744073709551615", "99999999999999999999", "", "abc", "1e3", "%7B", "a%7B", "a%7Bb%7D", "a%7B%3D%2C%7D", "ns", "s", "%00"}
		rq.Path += fmt.Sprintf("?from=%s&until=%s&name=%s&precision=%s&ddsource=%s", h.Pick(rng, vals), h.Pick(rng, vals), h.Pick(rng, vals), h.Pick(rng, vals), h.Pick(rng, vals))
		shape = "query-params"
	default:
		rq.Body = c05MutateBytes(rng, rq.Body)
	}
	if bombs && rng.Intn(1000) < 3 {
		// decompression bombs at the limits (memory exhaustion itself is outside the claim: sizes stay moderate)
		switch rng.Intn(3) {
		case 0:
			rq.Body = c05GzipBytes(bytes.Repeat([]byte{' '}, 24<<20))
			rq.Headers["Content-Encoding"] = "gzip"
			shape = "gzip-bomb-24MiB"
		case 1:
			rq.Body = snappy.Encode(nil, bytes.Repeat([]byte{0}, 10<<20+1)) // one byte above withUnsnappyRequest's limit
			delete(rq.Headers, "Content-Encoding")
			shape = "snappy-above-limit"
		case 2:
			rq.Body = snappy.Encode(nil, bytes.Repeat([]byte{0}, 10<<20))
			delete(rq.Headers, "Content-Encoding")
			shape = "snappy-at-limit"
		}
	}
	return rr.name, shape, rq
}

func c05Stale() (map[string]bool, []string, error) {
	ans, err := h.Model([]string{"c05stale"})
	if err != nil {
		return nil, nil, err
	}
	groups := map[string]bool{}
	var fns []string
	if ans[0] != "-" && ans[0] != "bad-op" {
		for _, e := range strings.Split(ans[0], ",") {
			kv := strings.SplitN(e, "|", 2)
			if len(kv) == 2 {
				fns = append(fns, kv[0])
				groups[kv[1]] = true
			}
		}
	}
	if ans[0] == "bad-op" {
		return nil, nil, fmt.Errorf("driver does not know c05stale")
	}
	return groups, fns, nil
}

func c05Replay(r *h.Result, path string, deadline int) error {
	raw, err := os.ReadFile(path)
	if err != nil {
		return err
	}
	var f struct {
		Replay struct {
			Stream  string     `json:"stream"`
			Route   string     `json:"route"`
			Shape   string     `json:"shape"`
			Request c05ReplayQ `json:"request"`
		} `json:"replay"`
	}
	if err := json.Unmarshal(raw, &f); err != nil {
		return err
	}
	q := f.Replay.Request
	if q.Method == "" {
		return fmt.Errorf("replay file has no request (a batch-level finding: re-run the check with the same seed)")
	}
	body, _ := base64.StdEncoding.DecodeString(q.BodyB64)
	if q.BodyLen > 0 && len(body) == 0 {
		return fmt.Errorf("the body (%d bytes) was too large to store: re-run the check with the same seed", q.BodyLen)
	}
	c := &c05Run{r: r, deadline: deadline, pushRng: h.NewRng(1)}
	if err := c.respawn(); err != nil {
		return err
	}
	r.Stream("replay of one stored request in a fresh child process")
	out, err := c.send("replay", f.Replay.Route, f.Replay.Shape, c05Request{q.Method, q.Path, q.Headers, body}, "")
	if err != nil {
		return err
	}
	r.Case("replay", true)
	r.Sample(map[string]string{"replay_outcome": out})
	if err := c.postBatch(); err != nil {
		return err
	}
	if code := c.p.Quit(); code != 0 {
		r.Violate("C05/child-exit", fmt.Sprintf("the child process exited with status %d", code), map[string]any{"exit": code})
	}
	return nil
}

// errC05Fatal: the run cannot go on (a well-formed push kills every child); the violation is recorded
var errC05Fatal = errors.New("C05 run ended early")

func c05(r *h.Result, rng *h.Rng, tier string, replay string) error {
	err := c05Main(r, rng, tier, replay)
	if errors.Is(err, errC05Fatal) && len(r.Violations) > 0 {
		r.Notes = append(r.Notes, "run ended early: "+err.Error())
		return nil
	}
	return err
}

func c05Main(r *h.Result, rng *h.Rng, tier string, replay string) error {
	deadline := 5000
	if replay != "" {
		return c05Replay(r, replay, deadline)
	}
	nStruct, nRaw, batchSize, bombs := 1100, 4000, 40, false
	nPre, nDecLen := 300, 3000
	nRect, nRectBig, nParamsCtx, nParamsHead := 520, 12, 400, 700
	oddPct := 65
	switch tier {
	case "thorough":
		nStruct, nRaw, bombs = 22000, 100000, true
		nPre, nDecLen = 6000, 100000
		nRect, nRectBig, nParamsCtx, nParamsHead = 13000, 120, 20000, 9000
	case "search":
		nStruct, nRaw, bombs = 11000, 30000, true
		nPre, nDecLen = 3000, 20000
		nRect, nRectBig, nParamsCtx, nParamsHead = 6500, 60, 5000, 4000
		oddPct = 90
	}
	// staleness of the hand-made fault placement (Gen.BodyHashes vs the recorded hashes)
	staleGroups, staleFns, err := c05Stale()
	if err != nil {
		return err
	}
	boost := func(route int) int {
		if staleGroups["common"] || staleGroups[c05RouteGroup[route]] || (staleGroups["tempo"] && (route == c05RZipkinJson || route == c05RZipkinNd || route == c05ROtlpTraces)) {
			return 5
		}
		return 1
	}
	if len(staleFns) > 0 {
		sort.Strings(staleFns)
		var gs []string
		for g := range staleGroups {
			gs = append(gs, g)
		}
		sort.Strings(gs)
		r.Notes = append(r.Notes, fmt.Sprintf("fault placement STALE: the body of %d function(s) differs from the one the fault sites were placed for (%s); the theorems still hold for the model, the structured quota of decoder group(s) %s is multiplied by 5. Re-read the functions, update lean/Qryn/Ingest/Faults.lean and re-pin with scripts/c05_repin.sh.",
			len(staleFns), strings.Join(staleFns, ", "), strings.Join(gs, ", ")))
		r.Count("stale-placements")
	} else {
		r.Notes = append(r.Notes, "fault placement current: every function body with hand-placed fault sites has the recorded hash")
	}
	r.Notes = append(r.Notes, "PARTIAL: the theorems are about the model (fault placement, goroutine of each site, tamePanic protocol, waiting logic); scheduler, memory exhaustion, loops inside third-party parsers and goroutine leaks of the real runtime are only explored by this child-process run (support, not an obligation)")
	r.Rule = "structured: per route documents with 65% ill-shaped variants (dropped field, changed JSON kind, emptied array, wrong id length, absent optional message, truncated, oversize, bad encoding), status compared with the model; non-trivial = not valid by construction; distinct by (route, shape, status). raw: byte mutations of route bodies under gzip/snappy/multipart/ndjson/query-parameter changes, liveness only (fuzzing)"

	r.Rule += "; rect: bodies exercising every decoder's row bookkeeping (oracle only: every request object handed to an insert service has per-row arrays of one length); params-ctx / params-head: header and query-parameter values around every case of the parsing code, compared with the model"
	r.Rule += "; " + c05AllocRule
	c := &c05Run{r: r, deadline: deadline, pushRng: rng.Fork()}
	if err := c.respawn(); err != nil {
		return err
	}
	if err := c.postBatch(); err != nil {
		return err
	}

	// ---- structured stream
	r.Stream("structured: documents of known shape per ingest route through the real handlers in a child process vs Ingest.ingest (status), liveness oracle")
	srng := rng.Fork()
	var ops, impl []string
	var cases []c05Case
	var schedule []int
	for i := 0; i < nStruct; i++ {
		route := i % len(c05RouteNames)
		for k := 0; k < boost(route); k++ {
			schedule = append(schedule, route)
		}
	}
	corpus := c05Corpus(srng.Fork())
	total := len(corpus) + len(schedule)
	for i := 0; i < total; i++ {
		var cs c05Case
		if i < len(corpus) {
			cs = corpus[i]
		} else {
			cs = c05GenStructured(srng, schedule[i-len(corpus)], srng.Chance(oddPct))
		}
		route := cs.Route
		out, err := c.send("structured", c05RouteNames[route], cs.Shape, cs.Req, "")
		if err != nil {
			return err
		}
		ops = append(ops, cs.op(1))
		impl = append(impl, out)
		cases = append(cases, cs)
		r.Case(fmt.Sprintf("structured:%s:%s:%s", c05RouteNames[route], cs.Shape, out), cs.Shape != "valid")
		r.Count("route:" + c05RouteNames[route])
		if cs.Shape == "valid" {
			r.Count("structured:valid")
		} else {
			r.Count("structured:ill-shaped")
		}
		if i%37 == 0 {
			r.Sample(map[string]any{"stream": "structured", "route": c05RouteNames[route], "shape": cs.Shape, "impl": out, "path": cs.Req.Path, "bytes": len(cs.Req.Body)})
		}
		if (i+1)%batchSize == 0 {
			if err := c.postBatch(); err != nil {
				return err
			}
		}
		if c.crashes > 25 || c.hangs > 5 {
			r.Notes = append(r.Notes, "structured stream cut short: every further case would only repeat the crash/hang classes already reported")
			break
		}
	}
	if err := c.postBatch(); err != nil {
		return err
	}
	model, err := h.Model(ops)
	if err != nil {
		return err
	}
	for i := range ops {
		m := strings.SplitN(model[i], " ", 2)[0]
		if m != impl[i] {
			cs := cases[i]
			r.Disagree("structured", c05RouteNames[cs.Route]+" "+cs.Shape+" "+ops[i], impl[i], model[i],
				map[string]any{"route": c05RouteNames[cs.Route], "shape": cs.Shape, "request": c05Q(cs.Req)})
		}
		if strings.HasSuffix(model[i], "r0") {
			r.Count("model:non-rectangular-after-request")
		}
	}

	// ---- pre-request chain (c05_pre.go)
	if err := c05DecLenStream(r, rng.Fork(), nDecLen); err != nil {
		return err
	}
	if err := c.preStream(rng.Fork(), nPre, bombs, batchSize); err != nil {
		return err
	}

	// ---- what the parsers emit: the oracle of parser_rect_* (c05_rect.go)
	if err := c.rectStream(rng.Fork(), nRect, nRectBig, batchSize); err != nil {
		return err
	}

	// ---- headers and query parameters (c05_params.go)
	if err := c05ParamsCtx(r, rng.Fork(), nParamsCtx); err != nil {
		return err
	}
	if err := c.paramsHeadStream(rng.Fork(), nParamsHead, batchSize); err != nil {
		return err
	}

	// ---- declared-size probes (c05_probe.go)
	if err := c.probeStream(batchSize); err != nil {
		return err
	}

	// ---- raw stream (fuzzing)
	r.Stream("raw (FUZZING, liveness only): byte mutations per content type and encoding — gzip, snappy block and framing, multipart, ndjson, query parameters; decompression bombs at the limits in the thorough tier")
	rrng := rng.Fork()
	for i := 0; i < nRaw; i++ {
		name, shape, rq := c.genRaw(rrng, bombs)
		out, err := c.send("raw", name, shape, rq, "")
		if err != nil {
			return err
		}
		r.Case(fmt.Sprintf("raw:%s:%s:%s", name, shape, out), true)
		if i%401 == 0 {
			r.Sample(map[string]any{"stream": "raw", "route": name, "shape": shape, "impl": out, "bytes": len(rq.Body)})
		}
		if (i+1)%batchSize == 0 {
			if err := c.postBatch(); err != nil {
				return err
			}
		}
		if c.crashes > 50 || c.hangs > 8 {
			r.Notes = append(r.Notes, "raw stream cut short: every further case would only repeat the crash/hang classes already reported")
			break
		}
	}
	if err := c.postBatch(); err != nil {
		return err
	}
	if code := c.p.Quit(); code != 0 {
		r.Violate("C05/child-exit", fmt.Sprintf("the child process exited with status %d", code), map[string]any{"exit": code})
	}
	r.CountN("child-spawns", c.spawns)
	c.allocNotes()
	return nil
}
