package main

import (
	"fmt"

	"verif/harness/h"
)

func init() { props["C05"] = c05 }

func c05(r *h.Result, rng *h.Rng, tier string, replay string) error {
	p, err := c05Spawn()
	if err != nil {
		return err
	}
	fmt.Println("baseline", p.Baseline)
	ws := []c05Request{
		{"POST", "/loki/api/v1/push", map[string]string{"Content-Type": "application/json"}, []byte(`{"streams":[{"stream":{"a":"b"},"values":[["1700000000000000000","x"]]}]}`)},
		{"POST", "/loki/api/v1/push", map[string]string{"Content-Type": "application/json"}, []byte(`{"streams":[{"stream":{"a":"b"},"values":[]}]}`)},
		{"POST", "/tempo/spans", map[string]string{"Content-Type": "application/json"}, []byte(`[{"name":"x","traceId":"0123456789abcdef0123456789abcdef","id":"0123456789abcdef"}]`)},
		{"POST", "/tempo/spans", map[string]string{"Content-Type": "application/json"}, []byte(`[{"name":"x"}]`)},
		{"POST", "/ingest?name=app{&from=1700000000&until=1700000010", map[string]string{"Content-Type": "binary/octet-stream"}, []byte(`x`)},
		{"POST", "/ingest?name=app&from=0&until=1700000010", map[string]string{"Content-Type": "binary/octet-stream"}, []byte(`x`)},
	}
	for _, w := range ws {
		o, dead := p.Do(w, 3000)
		fmt.Printf("%s %s -> %+v dead=%v\n", w.Path, w.Body, o, dead)
		if dead {
			p, err = c05Spawn()
			if err != nil {
				return err
			}
		}
	}
	c, _ := p.Census()
	b, _ := p.Blocks()
	fmt.Printf("census %+v blocks %+v\n", c, b)
	fmt.Println("exit", p.Quit())
	return nil
}
