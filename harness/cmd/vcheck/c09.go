package main

// C09 — a LogQL result does not depend on which engine ran each pipeline stage.
//
// Correspondence: logql_parser.Parse → logql_transpiler_v2.Plan (real GetBreakpoint/breakScript and
// internal_planner.Plan); the ClickHouse getter at the bottom of the chain is replaced by a scripted
// upstream processor that feeds generated batchings of entries; the output channel is drained and
// canonicalised (entries grouped by fingerprint in arrival order, groups sorted, fingerprint values dropped,
// labels sorted, values as float64 bits). The same case goes to the Lean driver twice: `model` (the stage
// functions on the same batching) and `spec` (the LogQL definition on the flat entry list).
// Oracle: implementation == spec for every batching; one fingerprint never carries two label sets.
// Cases run in a child process (a fault in a pipeline goroutine kills the process).

import (
	"bufio"
	"context"
	"encoding/json"
	"errors"
	"fmt"
	"io"
	"math"
	"os"
	"os/exec"
	"reflect"
	"regexp"
	"regexp/syntax"
	"sort"
	"strconv"
	"strings"
	"time"

	"github.com/go-faster/jx"
	"github.com/kr/logfmt"
	"github.com/metrico/qryn/reader/logql/logql_parser"
	lt "github.com/metrico/qryn/reader/logql/logql_transpiler_v2"
	"github.com/metrico/qryn/reader/logql/logql_transpiler_v2/shared"
	"verif/harness/h"
)

func init() {
	props["C09"] = c09
	props["C09child"] = c09child
}

// ---------------------------------------------------------------- cases

type c9Entry struct {
	Ts     int64             `json:"ts"`
	Fp     uint64            `json:"fp"`
	Labels map[string]string `json:"labels"` // nil for marker entries
	Msg    string            `json:"msg"`
	Err    string            `json:"err"` // "", "eof", "u<n>"
	Val    float64           `json:"val,omitempty"` // matrix entries (engines-metric stream)
}

type c9Case struct {
	Query    string        `json:"query"`
	From     int64         `json:"from"`
	To       int64         `json:"to"`
	Limit    int64         `json:"limit"`
	Step     int64         `json:"step,omitempty"`
	Asc      bool          `json:"asc,omitempty"` // ctx.OrderASC (direction=forward)
	Batches  [][]c9Entry   `json:"batches"`   // one batching
	Batching [][][]c9Entry `json:"batchings"` // all batchings of the same flat list (parent side only)
	Mode     string        `json:"mode,omitempty"` // "" = logql_transpiler_v2.Plan with the getter replaced; "internal" = internal_planner.Plan on the whole pipeline (engines stream)
}

type c9Out struct {
	Canon    string `json:"canon"`    // canonical observable output, or "" when the case did not run
	Skip     string `json:"skip"`     // reason the case is outside the checked fragment (plan error, …)
	Bp       int    `json:"bp"`       // GetBreakpoint
	Tags     string `json:"tags"`     // pipeline tags before the split
	Internal int    `json:"internal"` // pipeline elements left for the in-process engine (−1: no split)
	Plan     string `json:"plan"`     // serialised internal plan (5 fields)
	Fps      string `json:"fps"`      // oracle 2: "" or a description of one fingerprint with two label sets
}

// ---------------------------------------------------------------- scripted upstream

type c9Upstream struct{ batches [][]c9Entry }

func (u *c9Upstream) IsMatrix() bool { return false }
func (u *c9Upstream) Process(ctx *shared.PlannerContext, in chan []shared.LogEntry) (chan []shared.LogEntry, error) {
	out := make(chan []shared.LogEntry)
	go func() {
		defer close(out)
		for _, b := range u.batches {
			es := make([]shared.LogEntry, len(b))
			for i, e := range b {
				es[i] = shared.LogEntry{TimestampNS: e.Ts, Fingerprint: e.Fp, Message: e.Msg, Value: e.Val}
				if e.Labels != nil { // every entry owns its map, as with the real getter
					es[i].Labels = make(map[string]string, len(e.Labels))
					for k, v := range e.Labels {
						es[i].Labels[k] = v
					}
				}
				switch {
				case e.Err == "eof":
					es[i].Err = io.EOF
				case e.Err != "":
					es[i].Err = errors.New("upstream" + e.Err[1:])
				}
			}
			select {
			case out <- es:
			case <-time.After(20 * time.Second): // nobody reads any more (the pipeline gave up)
				return
			}
		}
	}()
	return out, nil
}

// replaceGetter walks the Main fields down to the ClickHouse getter and puts the scripted upstream there.
func replaceGetter(p shared.RequestProcessor, up shared.RequestProcessor) bool {
	for i := 0; i < 64; i++ {
		v := reflect.ValueOf(p)
		if v.Kind() != reflect.Ptr || v.Elem().Kind() != reflect.Struct {
			return false
		}
		f := v.Elem().FieldByName("Main")
		if !f.IsValid() || !f.CanSet() {
			return false
		}
		next, ok := f.Interface().(shared.RequestProcessor)
		if !ok {
			return false
		}
		if _, isGetter := next.(*shared.ClickhouseGetterPlanner); isGetter {
			f.Set(reflect.ValueOf(up))
			return true
		}
		p = next
	}
	return false
}

// ---------------------------------------------------------------- running the real code (child side)

func pipelineTags(ps []logql_parser.StrSelectorPipeline) []string {
	var tags []string
	for _, p := range ps {
		switch {
		case p.LineFilter != nil:
			tags = append(tags, "line")
		case p.LabelFilter != nil:
			tags = append(tags, "labelFilter")
		case p.Parser != nil:
			switch {
			case p.Parser.Fn == "json" && len(p.Parser.ParserParams) == 0:
				tags = append(tags, "jsonNoParams")
			case p.Parser.Fn == "json":
				tags = append(tags, "jsonParams")
			case p.Parser.Fn == "logfmt":
				tags = append(tags, "logfmt")
			default:
				tags = append(tags, "regexp")
			}
		case p.LineFormat != nil:
			tags = append(tags, "lineFormat")
		case p.LabelFormat != nil:
			tags = append(tags, "labelFormat")
		case p.Unwrap != nil:
			tags = append(tags, "unwrap")
		default:
			tags = append(tags, "drop")
		}
	}
	return tags
}

func c9ErrClass(err error) string {
	s := err.Error()
	switch {
	case strings.HasPrefix(s, "upstream"):
		return s
	case strings.HasPrefix(s, "Too many time-series"):
		return "too-many-series"
	case strings.HasPrefix(s, "panic"):
		return "panic"
	}
	return "other:" + s
}

func c9Labels(m map[string]string) string {
	if len(m) == 0 {
		return "-"
	}
	ks := make([]string, 0, len(m))
	for k := range m {
		ks = append(ks, k)
	}
	sort.Slice(ks, func(i, j int) bool { return bytesLess(ks[i], ks[j]) })
	parts := make([]string, len(ks))
	for i, k := range ks {
		parts[i] = hx(k) + "=" + hx(m[k])
	}
	return strings.Join(parts, "&")
}

// bytesLess: Lean's `<` on `List UInt8` (lexicographic on bytes) — Go's string order is the same
func bytesLess(a, b string) bool { return a < b }

func c9FloatText(v float64) string {
	if math.IsNaN(v) {
		return "nan"
	}
	if v == 0 {
		// the sign of a zero is not compared: min / max over series the aggregator visits in Go map order return
		// either zero when both occur (0 == -0), on correct code (Driver.C09.floatText does the same)
		v = 0
	}
	return strconv.FormatUint(math.Float64bits(v), 10)
}

// c9Canon: the observable of an output channel (see Driver.C09.canon)
func c9Canon(out [][]shared.LogEntry) (string, string) {
	type grp struct {
		fp    uint64
		items []string
	}
	var groups []*grp
	idx := map[uint64]*grp{}
	lblOf := map[uint64]string{}
	fps := ""
	for _, b := range out {
		for _, e := range b {
			if e.Err == io.EOF {
				continue
			}
			if e.Err != nil {
				return "ERR:" + c9ErrClass(e.Err), ""
			}
		}
	}
	for _, b := range out {
		for _, e := range b {
			if e.Err != nil {
				continue
			}
			g := idx[e.Fingerprint]
			if g == nil {
				g = &grp{fp: e.Fingerprint}
				idx[e.Fingerprint] = g
				groups = append(groups, g)
			}
			ls := c9Labels(e.Labels)
			if prev, ok := lblOf[e.Fingerprint]; ok && prev != ls && fps == "" {
				fps = fmt.Sprintf("fingerprint %d carries the label sets %s and %s", e.Fingerprint, prev, ls)
			}
			lblOf[e.Fingerprint] = ls
			g.items = append(g.items, fmt.Sprintf("%d:%s:%s:%s", e.TimestampNS, ls, hx(e.Message), c9FloatText(e.Value)))
		}
	}
	texts := make([]string, len(groups))
	for i, g := range groups {
		texts[i] = strings.Join(g.items, ",")
	}
	sort.Strings(texts)
	if len(texts) == 0 {
		return "-", fps
	}
	return strings.Join(texts, "|"), fps
}

func c9RunImpl(c c9Case) (res c9Out) {
	res.Internal = -1
	if c.Mode == "internal" {
		return c9RunInternal(c)
	}
	if c.Mode == "internal-post" || c.Mode == "post" {
		return c9RunPost(c)
	}
	script, err := logql_parser.Parse(c.Query)
	if err != nil {
		res.Skip = "parse: " + err.Error()
		return
	}
	sel := shared.GetStrSelector(script)
	if sel == nil {
		res.Skip = "no selector"
		return
	}
	res.Tags = strings.Join(pipelineTags(sel.Pipelines), ",")
	bp, err := lt.GetBreakpoint(script)
	if err != nil {
		res.Skip = "breakpoint: " + err.Error()
		return
	}
	res.Bp = bp
	if bp == lt.BreakpointNo {
		res.Skip = "no-split"
		return
	}
	chain, err := lt.Plan(script) // mutates script: only the in-process part of the pipeline is left in it
	if err != nil {
		res.Skip = "plan: " + err.Error()
		return
	}
	res.Internal = len(shared.GetStrSelector(script).Pipelines)
	plan, err := c9SerPlan(script)
	if err != nil {
		res.Skip = "outside-fragment: " + err.Error()
		return
	}
	res.Plan = plan
	top := chain[0]
	if fp, ok := top.(*lt.FixPeriodPlanner); ok { // matrix post-processing is outside C09
		ze, ok := fp.Main.(*lt.ZeroEaterPlanner)
		if !ok {
			res.Skip = "unexpected matrix post-processing chain"
			return
		}
		top = ze.Main
	}
	if _, whole := top.(*shared.ClickhouseGetterPlanner); whole {
		// clickhouse_planner.AnalyzeMetrics15sShortcut sent the whole script to ClickHouse (C08's business)
		res.Skip = "shortcut-15s"
		return
	}
	if !replaceGetter(top, &c9Upstream{c.Batches}) {
		res.Skip = "getter not found in the chain"
		return
	}
	ctx, cancel := context.WithCancel(context.Background())
	defer cancel()
	pc := &shared.PlannerContext{From: time.Unix(0, c.From), To: time.Unix(0, c.To), Limit: c.Limit, Ctx: ctx,
		CancelCtx: func() {}, Step: time.Second, OrderASC: c.Asc}
	ch, err := top.Process(pc, nil)
	if err != nil {
		res.Skip = "process: " + err.Error()
		return
	}
	var out [][]shared.LogEntry
	timeout := time.After(30 * time.Second)
loop:
	for {
		select {
		case b, ok := <-ch:
			if !ok {
				break loop
			}
			out = append(out, b)
		case <-timeout:
			res.Canon = "HANG"
			return
		}
	}
	res.Canon, res.Fps = c9Canon(out)
	return
}

// c09child: `vcheck C09child -replay <cases file>` — one JSON case per line in, one "OUT <json>" line per case out
func c09child(r *h.Result, rng *h.Rng, tier string, replay string) error {
	f, err := os.Open(replay)
	if err != nil {
		return err
	}
	defer f.Close()
	sc := bufio.NewScanner(f)
	sc.Buffer(make([]byte, 1<<20), 1<<28)
	w := bufio.NewWriter(os.Stdout)
	for sc.Scan() {
		var c c9Case
		if err := json.Unmarshal(sc.Bytes(), &c); err != nil {
			return err
		}
		out := c9RunImpl(c)
		b, _ := json.Marshal(out)
		fmt.Fprintf(w, "OUT %s\n", b)
		w.Flush()
	}
	return nil
}

// c9RunChild runs the cases in child processes; a case during which the child dies gets Canon "CRASH".
func c9RunChild(cases []c9Case) ([]c9Out, error) {
	outs := make([]c9Out, 0, len(cases))
	start := 0
	for start < len(cases) {
		tmp, err := os.CreateTemp("", "c09cases-*.jsonl")
		if err != nil {
			return nil, err
		}
		w := bufio.NewWriter(tmp)
		for _, c := range cases[start:] {
			c.Batching = nil
			b, _ := json.Marshal(c)
			w.Write(b)
			w.WriteByte('\n')
		}
		w.Flush()
		tmp.Close()
		cmd := exec.Command(os.Args[0], "C09child", "-replay", tmp.Name())
		cmd.Stderr = io.Discard
		stdout, err := cmd.StdoutPipe()
		if err != nil {
			return nil, err
		}
		if err := cmd.Start(); err != nil {
			return nil, err
		}
		sc := bufio.NewScanner(stdout)
		sc.Buffer(make([]byte, 1<<20), 1<<28)
		got := 0
		for sc.Scan() {
			line := sc.Text()
			if !strings.HasPrefix(line, "OUT ") {
				continue
			}
			var o c9Out
			if err := json.Unmarshal([]byte(line[4:]), &o); err != nil {
				return nil, err
			}
			outs = append(outs, o)
			got++
		}
		werr := cmd.Wait()
		os.Remove(tmp.Name())
		if start+got < len(cases) {
			// the child died while running case start+got
			_ = werr
			outs = append(outs, c9Out{Canon: "CRASH", Internal: -1})
			got++
		}
		start += got
	}
	return outs, nil
}

// ---------------------------------------------------------------- serialising the real AST

func c9Bw(bs ...*logql_parser.ByOrWithout) string {
	var b *logql_parser.ByOrWithout
	for _, x := range bs {
		if x != nil {
			b = x
		}
	}
	if b == nil {
		return "-"
	}
	names := make([]string, len(b.Labels))
	for i, l := range b.Labels {
		names[i] = hx(l.Name)
	}
	list := "_"
	if len(names) > 0 {
		list = strings.Join(names, ",")
	}
	if strings.ToLower(b.Fn) == "by" {
		return "by." + list
	}
	return "wo." + list
}

func c9Cmp(c *logql_parser.Comparison) (string, error) {
	if c == nil {
		return "-", nil
	}
	if _, err := strconv.ParseFloat(c.Val, 64); err != nil {
		return "", err
	}
	return cmpOps[c.Fn] + "." + hx(c.Val), nil
}

func c9SerStage(p *logql_parser.StrSelectorPipeline) (string, error) {
	switch {
	case p.LineFilter != nil:
		v, err := p.LineFilter.Val.Unquote()
		if err != nil {
			return "", err
		}
		return "L:" + lineOps[p.LineFilter.Fn] + ":" + hx(v), nil
	case p.LabelFilter != nil:
		e, err := serLabelFilter(p.LabelFilter)
		if err != nil {
			return "", err
		}
		return "F:" + e, nil
	case p.Parser != nil:
		if len(p.Parser.ParserParams) == 0 {
			if p.Parser.Fn == "json" || p.Parser.Fn == "logfmt" {
				return "P:" + p.Parser.Fn, nil
			}
			return "", fmt.Errorf("parser %s", p.Parser.Fn)
		}
		var parts []string
		for _, pp := range p.Parser.ParserParams {
			if pp.Label == nil {
				return "", fmt.Errorf("parameter without a label")
			}
			v, err := pp.Val.Unquote()
			if err != nil {
				return "", err
			}
			path, err := shared.JsonPathParamToTypedArray(v)
			if err != nil {
				return "", err
			}
			segs := make([]string, len(path))
			for i, s := range path {
				switch x := s.(type) {
				case string:
					segs[i] = "k" + hx(x)
				case int:
					segs[i] = "i" + strconv.Itoa(x)
				}
			}
			pth := "_"
			if len(segs) > 0 {
				pth = strings.Join(segs, "/")
			}
			parts = append(parts, hx(pp.Label.Name)+"="+pth+"="+hx(v))
		}
		// the parameters go to the model as the code gets them (names, typed paths, in source order); what
		// Process makes of them (aheads, logfmtFields) is the model's business (Read.planParser, paramFields)
		switch p.Parser.Fn {
		case "json":
			return "P:jsonp:" + strings.Join(parts, ","), nil
		case "logfmt":
			return "P:logfmtp:" + strings.Join(parts, ","), nil
		}
		return "", fmt.Errorf("parser %s", p.Parser.Fn)
	case p.LabelFormat != nil:
		var ops []string
		for _, op := range p.LabelFormat.LabelFormatOps {
			if op.ConstVal != nil {
				v, err := op.ConstVal.Unquote()
				if err != nil {
					return "", err
				}
				ops = append(ops, "c."+hx(op.Label.Name)+"."+hx(v))
			} else {
				ops = append(ops, "y."+hx(op.Label.Name)+"."+hx(op.LabelVal.Name))
			}
		}
		return "LF:" + strings.Join(ops, ","), nil
	case p.LineFormat != nil:
		v, err := p.LineFormat.Val.Unquote()
		if err != nil {
			return "", err
		}
		return "T:" + hx(v), nil
	case p.Unwrap != nil:
		return "U:" + hx(p.Unwrap.Label.Name), nil
	case p.Drop != nil:
		var ps []string
		for _, d := range p.Drop.Params {
			v := ""
			if d.Val != nil {
				var err error
				v, err = d.Val.Unquote()
				if err != nil {
					return "", err
				}
			}
			ps = append(ps, hx(d.Label.Name)+"="+hx(v))
		}
		if len(ps) == 0 {
			return "D:_", nil
		}
		return "D:" + strings.Join(ps, ","), nil
	}
	return "", fmt.Errorf("unknown stage")
}

// c9SerPlan: "<stages> <agg> <aggBy> <aggCmp> <vec>" of the script left for the in-process engine
func c9SerPlan(s *logql_parser.LogQLScript) (string, error) {
	sel := shared.GetStrSelector(s)
	if sel == nil || s.TopK != nil || s.QuantileOverTime != nil || s.Macros != nil {
		return "", fmt.Errorf("script kind")
	}
	var st []string
	for i := range sel.Pipelines {
		x, err := c9SerStage(&sel.Pipelines[i])
		if err != nil {
			return "", err
		}
		st = append(st, x)
	}
	stages := "-"
	if len(st) > 0 {
		stages = strings.Join(st, ";")
	}
	agg, aggBy, aggCmp, vec := "-", "-", "-", "-"
	var lra *logql_parser.LRAOrUnwrap
	if s.LRAOrUnwrap != nil {
		lra = s.LRAOrUnwrap
	}
	if s.AggOperator != nil {
		lra = &s.AggOperator.LRAOrUnwrap
	}
	if lra != nil {
		if lra.Fn == "absent_over_time" {
			return "", fmt.Errorf("absent_over_time")
		}
		d, err := time.ParseDuration(lra.Time + lra.TimeUnit)
		if err != nil {
			return "", err
		}
		if d <= 0 {
			return "", fmt.Errorf("zero duration")
		}
		kind := "R"
		if n := len(lra.StrSel.Pipelines); n > 0 && lra.StrSel.Pipelines[n-1].Unwrap != nil {
			kind = "W"
		}
		agg = fmt.Sprintf("%s.%s.%d", kind, lra.Fn, d.Nanoseconds())
		aggBy = c9Bw(lra.ByOrWithoutPrefix, lra.ByOrWithoutSuffix)
		if aggCmp, err = c9Cmp(lra.Comparison); err != nil {
			return "", err
		}
	}
	if s.AggOperator != nil {
		a := s.AggOperator
		if a.Fn == "stddev" || a.Fn == "stdvar" {
			return "", fmt.Errorf("stddev/stdvar")
		}
		c, err := c9Cmp(a.Comparison)
		if err != nil {
			return "", err
		}
		vec = a.Fn + "/" + c9Bw(a.ByOrWithoutPrefix, a.ByOrWithoutSuffix) + "/" + c
	}
	return strings.Join([]string{stages, agg, aggBy, aggCmp, vec}, " "), nil
}

// ---------------------------------------------------------------- the abstract functions, computed with the real libraries

// c9Regex: prefix form of the RE2 AST for the driver's matcher ("" = outside the matcher's subset)
func c9Regex(pat string) string {
	re, err := syntax.Parse(pat, syntax.Perl)
	if err != nil {
		return ""
	}
	re = re.Simplify()
	var toks []string
	ok := true
	var cat func(parts [][]string) []string
	cat = func(parts [][]string) []string {
		if len(parts) == 0 {
			return []string{"E"}
		}
		if len(parts) == 1 {
			return parts[0]
		}
		return append(append([]string{"."}, parts[0]...), cat(parts[1:])...)
	}
	var alt func(parts [][]string) []string
	alt = func(parts [][]string) []string {
		if len(parts) == 0 {
			return []string{"X"}
		}
		if len(parts) == 1 {
			return parts[0]
		}
		return append(append([]string{"|"}, parts[0]...), alt(parts[1:])...)
	}
	var walk func(r *syntax.Regexp) []string
	walk = func(r *syntax.Regexp) []string {
		switch r.Op {
		case syntax.OpLiteral:
			var parts [][]string
			for _, ru := range r.Rune {
				if ru > 127 {
					ok = false
					return nil
				}
				if r.Flags&syntax.FoldCase != 0 && ((ru >= 'a' && ru <= 'z') || (ru >= 'A' && ru <= 'Z')) {
					lo := ru | 0x20
					up := lo - 0x20
					parts = append(parts, []string{fmt.Sprintf("C%d-%d.%d-%d", up, up, lo, lo)})
				} else {
					parts = append(parts, []string{fmt.Sprintf("L%d", ru)})
				}
			}
			return cat(parts)
		case syntax.OpCharClass:
			var rs []string
			for i := 0; i+1 < len(r.Rune); i += 2 {
				lo, hi := r.Rune[i], r.Rune[i+1]
				if lo > 255 {
					continue
				}
				if hi > 255 {
					hi = 255
				}
				rs = append(rs, fmt.Sprintf("%d-%d", lo, hi))
			}
			return []string{"C" + strings.Join(rs, ".")}
		case syntax.OpAnyCharNotNL:
			return []string{"C0-9.11-255"}
		case syntax.OpAnyChar:
			return []string{"C0-255"}
		case syntax.OpBeginText:
			return []string{"^"}
		case syntax.OpEndText:
			return []string{"$"}
		case syntax.OpCapture:
			return walk(r.Sub[0])
		case syntax.OpStar:
			return append([]string{"*"}, walk(r.Sub[0])...)
		case syntax.OpPlus:
			return append([]string{"+"}, walk(r.Sub[0])...)
		case syntax.OpQuest:
			return append([]string{"?"}, walk(r.Sub[0])...)
		case syntax.OpConcat:
			var parts [][]string
			for _, s := range r.Sub {
				parts = append(parts, walk(s))
			}
			return cat(parts)
		case syntax.OpAlternate:
			var parts [][]string
			for _, s := range r.Sub {
				parts = append(parts, walk(s))
			}
			return alt(parts)
		case syntax.OpEmptyMatch:
			return []string{"E"}
		case syntax.OpNoMatch:
			return []string{"X"}
		}
		ok = false
		return nil
	}
	toks = walk(re)
	if !ok {
		return ""
	}
	return strings.Join(toks, ",")
}

// c9Json: the tree the jx decoder walks, cut at the point where it fails (Driver.C09.jdoc?)
func c9Json(msg string) string {
	var toks []string
	var val func(d *jx.Decoder) bool // false: failed inside
	val = func(d *jx.Decoder) bool {
		// the source text of an object / array, when it can be read to its end (`Decoder.Raw`)
		text := func() string {
			var raw jx.Raw
			if err := d.Capture(func(d *jx.Decoder) error {
				r, err := d.Raw()
				raw = append(jx.Raw(nil), r...)
				return err
			}); err != nil {
				return ""
			}
			return hx(string(raw))
		}
		switch d.Next() {
		case jx.Object:
			toks = append(toks, "O"+text())
			good := true
			err := d.Obj(func(d *jx.Decoder, key string) error {
				toks = append(toks, "k"+hx(key))
				if !val(d) {
					good = false
					return errors.New("stop")
				}
				return nil
			})
			if err != nil && good {
				toks = append(toks, "kff", "B") // the object itself is broken after these members
				good = false
			}
			toks = append(toks, "E")
			return good
		case jx.Array:
			toks = append(toks, "A"+text())
			good := true
			err := d.Arr(func(d *jx.Decoder) error {
				if !val(d) {
					good = false
					return errors.New("stop")
				}
				return nil
			})
			if err != nil && good {
				toks = append(toks, "B")
				good = false
			}
			toks = append(toks, "E")
			return good
		case jx.String:
			s, err := d.Str()
			if err != nil {
				toks = append(toks, "B")
				return false
			}
			toks = append(toks, "S"+hx(s))
			return true
		default:
			raw, err := d.Raw()
			if err != nil {
				toks = append(toks, "B")
				return false
			}
			toks = append(toks, "R"+hx(raw.String()))
			return true
		}
	}
	if jx.Valid([]byte(msg)) {
		toks = append(toks, "V1")
	} else {
		toks = append(toks, "V0")
	}
	val(jx.DecodeStr(msg))
	return strings.Join(toks, ",")
}

type c9LogfmtRec struct{ pairs []string }

func (r *c9LogfmtRec) HandleLogfmt(key, val []byte) error {
	r.pairs = append(r.pairs, hx(string(key))+":"+hx(string(val)))
	return nil
}

func c9Logfmt(msg string) string {
	rec := &c9LogfmtRec{}
	_ = logfmt.Unmarshal([]byte(msg), rec)
	if len(rec.pairs) == 0 {
		return "_"
	}
	return strings.Join(rec.pairs, ",")
}

// ---------------------------------------------------------------- generators

type c9Tpl struct {
	text string
	toks string
}

func c9GenTpl(r *h.Rng) c9Tpl {
	n := r.Range(1, 4)
	var text strings.Builder
	var toks []string
	for i := 0; i < n; i++ {
		switch r.Intn(7) {
		case 0, 1, 2:
			l := h.Pick(r, []string{"x", "v=", " ", "{\"a\":\"", "\"}", "msg:", "5", "k=", "-", "{\"v\":", "}", "=", "a"})
			text.WriteString(l)
			toks = append(toks, "l."+hx(l))
		case 3, 4, 5:
			f := h.Pick(r, []string{"a", "ab", "v", "lvl", "_entry", "_entry", "msg", "n", "x_y", "zz"})
			text.WriteString("{{." + f + "}}")
			toks = append(toks, "f."+hx(f))
		default:
			f := h.Pick(r, []string{"lvl", "a", "v", "msg"})
			val := h.Pick(r, []string{"boom", "b", "5", ""})
			text.WriteString("{{if eq ." + f + " " + q(val) + "}}{{index ." + f + " 99}}{{end}}")
			toks = append(toks, "e."+hx(f)+"."+hx(val))
		}
	}
	return c9Tpl{text.String(), strings.Join(toks, ",")}
}

var c9TplRe = regexp.MustCompile(`\{\{if eq \.(\w+) ("(?:[^"\\]|\\.)*")\}\}\{\{index \.(\w+) 99\}\}\{\{end\}\}|\{\{\.(\w+)\}\}`)

// c9TokeniseTpl: the token list of a template written by c9GenTpl
func c9TokeniseTpl(text string) (string, bool) {
	var toks []string
	pos := 0
	for _, m := range c9TplRe.FindAllStringSubmatchIndex(text, -1) {
		if m[0] > pos {
			toks = append(toks, "l."+hx(text[pos:m[0]]))
		}
		if m[2] >= 0 {
			var val string
			if err := json.Unmarshal([]byte(text[m[4]:m[5]]), &val); err != nil || text[m[2]:m[3]] != text[m[6]:m[7]] {
				return "", false
			}
			toks = append(toks, "e."+hx(text[m[2]:m[3]])+"."+hx(val))
		} else {
			toks = append(toks, "f."+hx(text[m[8]:m[9]]))
		}
		pos = m[1]
	}
	if pos < len(text) {
		toks = append(toks, "l."+hx(text[pos:]))
	}
	if strings.Contains(strings.Join(toks, ","), hx("{{")) {
		return "", false
	}
	return strings.Join(toks, ","), true
}

var c9Keys = []string{"a", "ab", "b", "abc", "v", "n", "msg", "lvl", "x", "y", "k_1", "k.1", "k 1", "K", "bc"}
var c9Strs = []string{"b", "c", "bc", "", "5", "3", "9", "0", "2.5", "-1", "x y", "boom", "abc", "info", "error", "7", "100", "0.5", "k=v", "{\"a\":\"b\"}"}
var c9Nums = []string{"5", "3", "9", "0", "2.5", "-1", "100", "0.25", "1e3", "-0", "12", "1.0"}

func c9GenJsonVal(r *h.Rng, depth int, sb *strings.Builder) {
	switch k := r.Intn(10); {
	case k < 4:
		sb.WriteString(q(h.Pick(r, c9Strs)))
	case k < 6:
		sb.WriteString(h.Pick(r, c9Nums))
	case k < 7:
		sb.WriteString(h.Pick(r, []string{"true", "false", "null"}))
	case k < 8 && depth > 0:
		sb.WriteString("[")
		n := r.Intn(3)
		for i := 0; i < n; i++ {
			if i > 0 {
				sb.WriteString(",")
			}
			c9GenJsonVal(r, depth-1, sb)
		}
		sb.WriteString("]")
	case depth > 0:
		c9GenJsonObj(r, depth-1, sb)
	default:
		sb.WriteString(q(h.Pick(r, c9Strs)))
	}
}

func c9GenJsonObj(r *h.Rng, depth int, sb *strings.Builder) {
	sb.WriteString("{")
	n := r.Range(0, 4)
	for i := 0; i < n; i++ {
		if i > 0 {
			sb.WriteString(",")
			if r.Chance(20) {
				sb.WriteString(" ")
			}
		}
		key := h.Pick(r, c9Keys)
		sb.WriteString(q(key))
		sb.WriteString(":")
		switch {
		case (key == "x" || key == "y") && depth > 0 && r.Chance(60): // the nested paths of the json parameters lead somewhere
			if key == "y" && r.Chance(50) {
				sb.WriteString("[")
				for j, m := 0, r.Range(1, 3); j < m; j++ {
					if j > 0 {
						sb.WriteString(",")
					}
					c9GenJsonObj(r, 0, sb)
				}
				sb.WriteString("]")
			} else {
				c9GenJsonObj(r, depth-1, sb)
			}
		case key == "b" && depth > 0 && r.Chance(50):
			sb.WriteString("[")
			for j, m := 0, r.Range(0, 3); j < m; j++ {
				if j > 0 {
					sb.WriteString(",")
				}
				c9GenJsonVal(r, 0, sb)
			}
			sb.WriteString("]")
		default:
			c9GenJsonVal(r, depth, sb)
		}
	}
	sb.WriteString("}")
}

func c9GenMsg(r *h.Rng, kind int) string {
	switch kind {
	case 0: // JSON
		var sb strings.Builder
		c9GenJsonObj(r, 2, &sb)
		s := sb.String()
		switch r.Intn(14) {
		case 0: // truncated
			if len(s) > 1 {
				s = s[:r.Range(1, len(s)-1)]
			}
		case 1: // a broken literal
			s = strings.Replace(s, "true", "tru", 1)
			s = strings.Replace(s, "null", "nul", 1)
		case 2: // not an object
			s = h.Pick(r, []string{"\"str\"", "123", "[1,2]", "null", "hello world", "", "{", "[{\"a\":\"b\"}]", "x=1 y=2"})
		case 3: // trailing text after the object
			s += h.Pick(r, []string{" tail", "}", ",{}", " 1"})
		}
		return s
	case 1: // logfmt
		n := r.Range(0, 4)
		var parts []string
		for i := 0; i < n; i++ {
			k := h.Pick(r, c9Keys[:12])
			k = strings.ReplaceAll(k, " ", "-")
			v := h.Pick(r, c9Strs[:18])
			switch r.Intn(8) {
			case 0:
				parts = append(parts, k) // no value
			case 1:
				parts = append(parts, k+"="+strconv.Quote(v))
			case 2:
				parts = append(parts, k+"=\""+v) // unterminated
			default:
				parts = append(parts, k+"="+strings.ReplaceAll(v, " ", "_"))
			}
		}
		return strings.Join(parts, " ")
	default:
		return h.Pick(r, []string{"hello", "GET /a 200", "error: boom", "", "5", "2.5", "x y z", "abc"})
	}
}

var c9Regexes = []string{"a.*", "^x", "(?i)abc", "abc", "b", "[0-9]+", "x|y", "^5$", "err", "a.c", "^$", "[^b]", "(in|er)"}

func c9GenLabelCond(r *h.Rng, depth int) string {
	if depth > 0 && r.Chance(30) {
		op := h.Pick(r, []string{"and", "or"})
		l := c9GenLabelCond(r, depth-1)
		if r.Chance(40) {
			l = "(" + c9GenLabelCond(r, depth-1) + ")"
		}
		return l + " " + op + " " + c9GenLabelCond(r, depth-1)
	}
	lbl := h.Pick(r, []string{"a", "ab", "v", "lvl", "n", "x_y", "msg", "zz", "b", "k_1"})
	if r.Chance(40) {
		op := h.Pick(r, []string{"==", ">", ">=", "<", "<=", "!="})
		num := h.Pick(r, []string{"5", "3", "0", "2.5", "9", "100", "4"})
		return lbl + " " + op + " " + num
	}
	op := h.Pick(r, []string{"=", "!=", "=~", "!~"})
	v := h.Pick(r, c9Strs[:16])
	if op == "=~" || op == "!~" {
		v = h.Pick(r, c9Regexes)
	}
	return lbl + " " + op + " " + q(v)
}

func c9GenStage(r *h.Rng, tpls *[]c9Tpl) string {
	switch r.Intn(15) {
	case 0, 1:
		op := h.Pick(r, []string{"|=", "!=", "|~", "!~"})
		v := h.Pick(r, []string{"b", "a", "5", "err", "\"", "x", "", "boom", "v="})
		if op == "|~" || op == "!~" {
			v = h.Pick(r, c9Regexes)
		}
		return op + " " + q(v)
	case 2, 3:
		return "| " + c9GenLabelCond(r, 2)
	case 4:
		return "| json"
	case 5, 12, 13:
		// any number of parameters; names may repeat (the engine sets them in document order), may be stream
		// labels ("a", "lvl", "v", "ab", "x" occur in the generated streams), paths may be prefixes of each other
		n := h.Pick(r, []int{1, 1, 2, 2, 3, 4, 5})
		var ps []string
		for i := 0; i < n; i++ {
			path := h.Pick(r, []string{"a", "v", "x.y", "x.z[0]", "ab", "msg", "[\"k 1\"]", "x", "n", "x.y.z", "b[1]", "K", "b", "lvl", "y", "x.a", "x.b", "b[0]", "[0]", "y.a", "x[\"k.1\"]", "y[1].a"})
			lbl := h.Pick(r, []string{"a", "p", "q", "v", "lvl", "p", "q", "ab", "x"})
			ps = append(ps, lbl+"="+q(path))
		}
		return "| json " + strings.Join(ps, ", ")
	case 6, 14:
		if r.Chance(55) {
			// logfmt with parameters: several may name the same key (the later wins), an index-first expression
			// names no key, a longer path counts by its first segment
			n := h.Pick(r, []int{1, 1, 2, 3, 4})
			var ps []string
			for i := 0; i < n; i++ {
				expr := h.Pick(r, []string{"a", "v", "msg", "lvl", "a", "v", "ab", "n", "x.y", "[0]", "[\"k-1\"]", "b[1]", "k_1"})
				ps = append(ps, h.Pick(r, []string{"a", "p", "lvl", "q", "p", "v"})+"="+q(expr))
			}
			return "| logfmt " + strings.Join(ps, ", ")
		}
		return "| logfmt"
	case 7:
		n := r.Range(1, 2)
		var ops []string
		for i := 0; i < n; i++ {
			dst := h.Pick(r, []string{"a", "z", "lvl", "v", "ab"})
			if r.Bool() {
				ops = append(ops, dst+"="+q(h.Pick(r, c9Strs[:10])))
			} else {
				ops = append(ops, dst+"="+h.Pick(r, []string{"a", "ab", "v", "msg", "zz", "lvl"}))
			}
		}
		return "| label_format " + strings.Join(ops, ", ")
	case 8, 9:
		t := c9GenTpl(r)
		*tpls = append(*tpls, t)
		return "| line_format " + q(t.text)
	default:
		n := r.Range(1, 2)
		var ps []string
		for i := 0; i < n; i++ {
			p := h.Pick(r, []string{"a", "ab", "v", "lvl", "n", "zz", "b"})
			if r.Chance(40) {
				p += "=" + q(h.Pick(r, c9Strs[:10]))
			}
			ps = append(ps, p)
		}
		return "| drop " + strings.Join(ps, ", ")
	}
}

type c9Gen struct {
	Case  c9Case
	Tpls  []c9Tpl
	Dur   int64
	Kind  string // log, range, unwrap, vector
	NFlat int
}

func c9GenBy(r *h.Rng) string {
	n := r.Range(1, 2)
	var ls []string
	for i := 0; i < n; i++ {
		ls = append(ls, h.Pick(r, []string{"a", "ab", "lvl", "v", "b", "zz"}))
	}
	return h.Pick(r, []string{"by", "without"}) + " (" + strings.Join(ls, ",") + ")"
}

func c9GenQuery(r *h.Rng, g *c9Gen, msgKind int) {
	var sb strings.Builder
	sb.WriteString(`{a="b"}`)
	if r.Chance(25) { // stages that stay in ClickHouse (not executed here: the upstream is scripted)
		if r.Bool() {
			sb.WriteString(" |= " + q(h.Pick(r, []string{"a", "x"})))
		} else {
			sb.WriteString(" | a=" + q("b"))
		}
	}
	switch {
	case msgKind == 0 && r.Chance(85):
		sb.WriteString(" | json")
	case msgKind == 1 && r.Chance(85):
		sb.WriteString(" | logfmt")
	default:
		switch r.Intn(4) {
		case 0:
			sb.WriteString(" | json")
		case 1:
			sb.WriteString(" | logfmt")
		default:
			t := c9GenTpl(r)
			g.Tpls = append(g.Tpls, t)
			sb.WriteString(" | line_format " + q(t.text))
		}
	}
	n := r.Intn(4)
	for i := 0; i < n; i++ {
		sb.WriteString(" " + c9GenStage(r, &g.Tpls))
	}
	body := sb.String()
	durs := []struct {
		txt string
		ns  int64
	}{{"1s", 1e9}, {"5s", 5e9}, {"1m", 60e9}, {"10ms", 1e7}, {"2s", 2e9}}
	d := durs[r.Intn(len(durs))]
	g.Dur = d.ns
	cmp := ""
	if r.Chance(25) {
		cmp = " " + h.Pick(r, []string{">", ">=", "<", "<=", "==", "!="}) + " " + h.Pick(r, []string{"1", "2", "0", "5", "2.5"})
	}
	switch k := r.Intn(10); {
	case k < 4:
		g.Kind = "log"
		g.Case.Query = body
	case k < 6:
		g.Kind = "range"
		fn := h.Pick(r, []string{"rate", "count_over_time", "bytes_rate", "bytes_over_time", "count_over_time"})
		g.Case.Query = fn + "(" + body + " [" + d.txt + "])" + cmp
	case k < 8:
		g.Kind = "unwrap"
		fn := h.Pick(r, []string{"rate", "sum_over_time", "avg_over_time", "max_over_time", "min_over_time", "first_over_time", "last_over_time", "min_over_time", "first_over_time"})
		uw := " | unwrap " + h.Pick(r, []string{"v", "v", "n", "a", "_entry", "x_y"})
		by := ""
		if r.Chance(50) {
			by = " " + c9GenBy(r)
		}
		if by != "" && r.Bool() {
			g.Case.Query = fn + by + " (" + body + uw + " [" + d.txt + "])" + cmp
		} else {
			g.Case.Query = fn + "(" + body + uw + " [" + d.txt + "])" + by + cmp
		}
	default:
		g.Kind = "vector"
		vfn := h.Pick(r, []string{"sum", "min", "max", "avg", "count"})
		var inner string
		// sums of series values are added in Go map order: only values that add exactly (counts, data values;
		// rate over 1 s or 2 s; averages only under min/max/count) keep the comparison deterministic
		exactSum := vfn == "min" || vfn == "max" || vfn == "count"
		if r.Bool() {
			fns := []string{"count_over_time", "bytes_over_time"}
			if exactSum || d.ns == 1e9 || d.ns == 2e9 {
				fns = append(fns, "rate")
			}
			inner = h.Pick(r, fns) + "(" + body + " [" + d.txt + "])"
		} else {
			fns := []string{"sum_over_time", "max_over_time", "min_over_time", "first_over_time", "last_over_time"}
			if exactSum {
				fns = append(fns, "avg_over_time")
			}
			inner = h.Pick(r, fns) +
				"(" + body + " | unwrap " + h.Pick(r, []string{"v", "n", "_entry"}) + " [" + d.txt + "])"
			if r.Chance(30) {
				inner += " " + c9GenBy(r)
			}
		}
		if r.Chance(20) {
			inner += " " + h.Pick(r, []string{">", "<=", "!="}) + " " + h.Pick(r, []string{"1", "2", "5"})
		}
		by := ""
		if r.Chance(70) {
			by = c9GenBy(r)
		}
		if r.Bool() {
			g.Case.Query = vfn + " " + by + " (" + inner + ")" + cmp
		} else {
			g.Case.Query = vfn + " (" + inner + ") " + by + cmp
		}
	}
}

// c9GenCase: one query, one flat list of upstream entries, several batchings of it
func c9GenCase(r *h.Rng, maxEntries, nBatchings int, big bool) *c9Gen {
	g := &c9Gen{}
	msgKind := r.Intn(5)
	if msgKind > 2 {
		msgKind = 0
	}
	c9GenQuery(r, g, msgKind)
	from := int64(1700000000)*1e9 + int64(r.Intn(1000))*1e9
	nb := int64(r.Range(0, 5))
	span := nb*g.Dur + h.Pick(r, []int64{0, 0, 1, g.Dur / 2, g.Dur - 1})
	g.Case.From, g.Case.To = from, from+span
	g.Case.Limit = h.Pick(r, []int64{0, 0, 1, 2, 3, 10, 100, 5000})
	g.Case.Asc = r.Bool() // first_over_time / last_over_time read the direction of the request
	// series
	ns := r.Range(1, 4)
	type series struct {
		fp     uint64
		labels map[string]string
	}
	var ss []series
	seen := map[string]bool{}
	for len(ss) < ns {
		m := map[string]string{"a": "b"}
		for i := r.Intn(3); i > 0; i-- {
			m[h.Pick(r, []string{"app", "ab", "lvl", "x", "v"})] = h.Pick(r, []string{"b", "c", "bc", "1", "2.5", "x"})
		}
		key := c9Labels(m)
		if seen[key] {
			if len(seen) > 40 {
				break
			}
			continue
		}
		seen[key] = true
		ss = append(ss, series{uint64(100 + len(ss)*7), m})
	}
	n := r.Range(0, maxEntries)
	if big {
		n = maxEntries
	}
	pool := make([]string, r.Range(1, 12))
	for i := range pool {
		pool[i] = c9GenMsg(r, msgKind)
	}
	var flat []c9Entry
	for i := 0; i < n; i++ {
		s := ss[r.Intn(len(ss))]
		var ts int64
		edge := g.Dur * nb
		switch r.Intn(10) {
		case 0:
			ts = from + h.Pick(r, []int64{0, g.Dur - 1, g.Dur, edge - 1, edge, span - 1, span, span + g.Dur, -1, -g.Dur, -g.Dur - 1, edge + 1})
		default:
			if span > 0 {
				ts = from + int64(r.Intn(int(span)))
			} else {
				ts = from
			}
		}
		msg := pool[r.Intn(len(pool))]
		if big && r.Chance(50) {
			msg = c9GenMsg(r, msgKind)
		}
		flat = append(flat, c9Entry{Ts: ts, Fp: s.fp, Labels: s.labels, Msg: msg})
	}
	if r.Chance(80) {
		sort.SliceStable(flat, func(i, j int) bool { return flat[i].Ts > flat[j].Ts })
	}
	switch k := r.Intn(20); {
	case k < 16:
		flat = append(flat, c9Entry{Err: "eof"})
	case k < 17:
		flat = append(flat, c9Entry{Err: "u" + strconv.Itoa(r.Intn(3))})
	}
	g.NFlat = len(flat)
	for b := 0; b < nBatchings; b++ {
		var bs [][]c9Entry
		switch {
		case b == 0:
			bs = [][]c9Entry{flat}
		case b == 1 && len(flat) <= 80:
			for _, e := range flat {
				bs = append(bs, []c9Entry{e})
			}
		default:
			k := r.Range(1, 6)
			cuts := make([]int, k-1)
			for i := range cuts {
				cuts[i] = r.Intn(len(flat) + 1)
			}
			sort.Ints(cuts)
			prev := 0
			for _, c := range cuts {
				bs = append(bs, flat[prev:c]) // may be empty
				prev = c
			}
			bs = append(bs, flat[prev:])
			if r.Chance(30) {
				bs = append(bs, nil)
			}
		}
		g.Case.Batching = append(g.Case.Batching, bs)
	}
	return g
}

// ---------------------------------------------------------------- protocol lines

func c9SerEntry(e c9Entry) string {
	ls := "-"
	if len(e.Labels) > 0 {
		ls = c9Labels(e.Labels)
	}
	er := "n"
	if e.Err != "" {
		er = e.Err
	}
	return fmt.Sprintf("%d:%d:%s:%s:%s:%s", e.Ts, e.Fp, ls, hx(e.Msg), hx("0"), er)
}

func c9SerBatches(bs [][]c9Entry) string {
	if len(bs) == 0 {
		return "-"
	}
	parts := make([]string, len(bs))
	for i, b := range bs {
		if len(b) == 0 {
			parts[i] = "_"
			continue
		}
		es := make([]string, len(b))
		for j, e := range b {
			es[j] = c9SerEntry(e)
		}
		parts[i] = strings.Join(es, ",")
	}
	return strings.Join(parts, "|")
}

type c9Tables struct {
	re, tpl, js, lf map[string]string
}

func c9Table(m map[string]string) string {
	if len(m) == 0 {
		return "-"
	}
	ks := make([]string, 0, len(m))
	for k := range m {
		ks = append(ks, k)
	}
	sort.Strings(ks)
	parts := make([]string, len(ks))
	for i, k := range ks {
		parts[i] = k + "=" + m[k]
	}
	return strings.Join(parts, ";")
}

// c9PlanRegexes collects the regex patterns of a serialised plan's source script
func c9CollectRegexes(s *logql_parser.LogQLScript, out map[string]string) bool {
	okAll := true
	add := func(p string) {
		t := c9Regex(p)
		if t == "" {
			okAll = false
			return
		}
		out[hx(p)] = t
	}
	var lf func(f *logql_parser.LabelFilter)
	lf = func(f *logql_parser.LabelFilter) {
		if f == nil {
			return
		}
		if f.Head.ComplexHead != nil {
			lf(f.Head.ComplexHead)
		} else if sh := f.Head.SimpleHead; sh != nil && (sh.Fn == "=~" || sh.Fn == "!~") && sh.StrVal != nil {
			if v, err := sh.StrVal.Unquote(); err == nil {
				add(v)
			}
		}
		lf(f.Tail)
	}
	sel := shared.GetStrSelector(s)
	for _, p := range sel.Pipelines {
		if p.LineFilter != nil && (p.LineFilter.Fn == "|~" || p.LineFilter.Fn == "!~") {
			if v, err := p.LineFilter.Val.Unquote(); err == nil {
				add(v)
			}
		}
		lf(p.LabelFilter)
	}
	return okAll
}

func (t *c9Tables) line(mode string, c c9Case, plan string, flushAt, maxSeries int, bs [][]c9Entry) string {
	return fmt.Sprintf("c09run %s %d %d %d %d %d %d %s %s %s %s %s %s", mode, c.From, c.To, c.Limit, flushAt, maxSeries, b2i(c.Asc), plan,
		c9Table(t.re), c9Table(t.tpl), c9Table(t.js), c9Table(t.lf), c9SerBatches(bs))
}

// c9Ask runs driver lines, answering NEED requests with the real decoders until none is left
func c9Ask(t *c9Tables, mk func() []string) ([]string, error) {
	for round := 0; round < 12; round++ {
		ans, err := h.Model(mk())
		if err != nil {
			return nil, err
		}
		need := false
		for _, a := range ans {
			if strings.HasPrefix(a, "NEED:") {
				need = true
				for _, m := range strings.Split(a[5:], ",") {
					raw := string(h.UnHex(m))
					t.js[m] = c9Json(raw)
					t.lf[m] = c9Logfmt(raw)
				}
			}
		}
		if !need {
			return ans, nil
		}
	}
	return nil, fmt.Errorf("decode tables do not converge")
}

// ---------------------------------------------------------------- the check

func c9Constants() (int, int) {
	// the thresholds the model is run with are read from the same Gen fact the theorems import
	flush, series := 3000, 2000
	if b, err := os.ReadFile("../lean/Qryn/Gen/InternalPlanner.lean"); err == nil {
		for _, l := range strings.Split(string(b), "\n") {
			var n, m int
			if k, _ := fmt.Sscanf(l, "def optimizerFlush : Nat := %d + %d", &n, &m); k >= 1 {
				flush = n + m
			}
			if _, err := fmt.Sscanf(l, "def maxSeries : Nat := %d", &n); err == nil {
				series = n
			}
		}
	}
	return flush, series
}

func c9Judge(r *h.Result, gens []*c9Gen) error {
	flushAt, maxSeries := c9Constants()
	// every (case, batching) is one run of the real code
	var runs []c9Case
	var owner []int
	for gi, g := range gens {
		for _, bs := range g.Case.Batching {
			c := g.Case
			c.Batches = bs
			runs = append(runs, c)
			owner = append(owner, gi)
		}
	}
	outs, err := c9RunChild(runs)
	if err != nil {
		return err
	}
	if len(outs) != len(runs) {
		return fmt.Errorf("child answered %d of %d cases", len(outs), len(runs))
	}
	// breakpoint stream
	var bpOps, bpImpl []string
	var bpCases []any
	doneBp := map[int]bool{}
	for i, o := range outs {
		gi := owner[i]
		if doneBp[gi] || o.Canon == "CRASH" || strings.HasPrefix(o.Skip, "parse") || o.Skip == "no selector" {
			continue
		}
		doneBp[gi] = true
		tags := o.Tags
		if tags == "" {
			tags = "-"
		}
		n := 0
		if o.Tags != "" {
			n = len(strings.Split(o.Tags, ","))
		}
		internal := "none"
		ch := n
		if o.Internal >= 0 {
			internal = strconv.Itoa(o.Internal)
			ch = n - o.Internal
		}
		if strings.HasPrefix(o.Skip, "plan:") || strings.HasPrefix(o.Skip, "breakpoint") || o.Skip == "shortcut-15s" {
			continue
		}
		bpOps = append(bpOps, "c09bp "+tags+" 0")
		bpImpl = append(bpImpl, fmt.Sprintf("%d|%d|%s", o.Bp, ch, internal))
		bpCases = append(bpCases, map[string]any{"query": gens[gi].Case.Query})
		if o.Plan != "" && o.Internal > 0 {
			// the stages left in the script after Plan: their tags as the model sees them (Read.StageK.tag) are the
			// tail of the tags GetBreakpoint saw, and splitting them again cuts at 0 (Read.splitPipeline)
			all := strings.Split(o.Tags, ",")
			bpOps = append(bpOps, "c09tags "+strings.SplitN(o.Plan, " ", 2)[0])
			bpImpl = append(bpImpl, fmt.Sprintf("%s|0|%d", strings.Join(all[len(all)-o.Internal:], ","), o.Internal))
			bpCases = append(bpCases, map[string]any{"query": gens[gi].Case.Query, "plan": o.Plan})
		}
	}
	if err := r.Compare("split", bpOps, bpImpl, bpCases); err != nil {
		return err
	}
	// model and spec
	type pending struct {
		run   int
		table *c9Tables
		plan  string
	}
	var pend []pending
	tablesOf := map[int]*c9Tables{}
	for i, o := range outs {
		gi := owner[i]
		g := gens[gi]
		key := fmt.Sprintf("%s|%d", g.Case.Query, i)
		if o.Canon == "CRASH" || o.Canon == "HANG" {
			r.Case(key, true)
			r.Violate("C09/"+strings.ToLower(o.Canon), fmt.Sprintf("the in-process pipeline %sed: %s", strings.ToLower(o.Canon), g.Case.Query), runs[i])
			continue
		}
		if o.Skip != "" {
			r.Count("skip:" + strings.SplitN(o.Skip, ":", 2)[0])
			continue
		}
		t := tablesOf[gi]
		if t == nil {
			t = &c9Tables{map[string]string{}, map[string]string{}, map[string]string{}, map[string]string{}}
			script, err := logql_parser.Parse(g.Case.Query)
			if err != nil {
				continue
			}
			if !c9CollectRegexes(script, t.re) {
				r.Count("skip:regex-outside-matcher")
				tablesOf[gi] = nil
				continue
			}
			for _, tp := range g.Tpls {
				toks := tp.toks
				if toks == "" {
					toks = "_"
				}
				t.tpl[hx(tp.text)] = toks
			}
			cutJson, cutLogfmt := false, false
			for _, b := range g.Case.Batching[0] {
				for _, e := range b {
					if e.Err == "" {
						t.js[hx(e.Msg)] = c9Json(e.Msg)
						t.lf[hx(e.Msg)] = c9Logfmt(e.Msg)
						// a line the decoder gives up on after it has already delivered scalars / pairs
						if js := t.js[hx(e.Msg)]; strings.Contains(js, ",B") && (strings.Contains(js, ",S") || strings.Contains(js, ",R")) {
							cutJson = true
						}
						if logfmt.Unmarshal([]byte(e.Msg), &c9LogfmtRec{}) != nil && t.lf[hx(e.Msg)] != "_" {
							cutLogfmt = true
						}
					}
				}
			}
			if cutJson {
				r.Count("input:json-line-fails-after-labels-were-extracted")
			}
			if cutLogfmt {
				r.Count("input:logfmt-line-fails-after-pairs-were-extracted")
			}
			tablesOf[gi] = t
		}
		pend = append(pend, pending{i, t, o.Plan})
	}
	// ask the driver: the model for every batching, the specification once per case (it sees the flat list only)
	const chunk = 40
	specOf := map[int]string{}
	for lo := 0; lo < len(pend); lo += chunk {
		hi := lo + chunk
		if hi > len(pend) {
			hi = len(pend)
		}
		part := pend[lo:hi]
		type lineRef struct {
			k    int
			spec bool
		}
		var refs []lineRef
		asked := map[int]bool{}
		for k, p := range part {
			refs = append(refs, lineRef{k, false})
			gi := owner[p.run]
			if _, ok := specOf[gi]; !ok && !asked[gi] {
				asked[gi] = true
				refs = append(refs, lineRef{k, true})
			}
		}
		mk := func() []string {
			lines := make([]string, len(refs))
			for i, rf := range refs {
				p := part[rf.k]
				c := runs[p.run]
				mode := "model"
				if rf.spec {
					mode = "spec"
				}
				lines[i] = p.table.line(mode, c, p.plan, flushAt, maxSeries, c.Batches)
			}
			return lines
		}
		var raw []string
		var err error
		for round := 0; ; round++ {
			raw, err = h.Model(mk())
			if err != nil {
				return err
			}
			need := false
			for i, a := range raw {
				if strings.HasPrefix(a, "NEED:") {
					need = true
					t := part[refs[i].k].table
					for _, m := range strings.Split(a[5:], ",") {
						msg := string(h.UnHex(m))
						t.js[m] = c9Json(msg)
						t.lf[m] = c9Logfmt(msg)
					}
				}
			}
			if !need {
				break
			}
			if round > 12 {
				return fmt.Errorf("decode tables do not converge")
			}
		}
		ans := make([]string, 2*len(part))
		for i, rf := range refs {
			if rf.spec {
				specOf[owner[part[rf.k].run]] = raw[i]
			} else {
				ans[2*rf.k] = raw[i]
			}
		}
		for k, p := range part {
			ans[2*k+1] = specOf[owner[p.run]]
		}
		for k, p := range part {
			o := outs[p.run]
			g := gens[owner[p.run]]
			c := runs[p.run]
			model, spec := ans[2*k], ans[2*k+1]
			key := fmt.Sprintf("%s|%d|%d|%d", c.Query, c.From, c.Limit, p.run)
			nontrivial := o.Canon != "-" && !strings.HasPrefix(o.Canon, "ERR")
			r.Case(key, nontrivial)
			r.Count("kind:" + g.Kind)
			r.Count(fmt.Sprintf("batches=%d", min(len(c.Batches), 7)))
			if strings.HasPrefix(o.Canon, "ERR") {
				r.Count("result:" + o.Canon)
			} else if o.Canon == "-" {
				r.Count("result:empty")
			} else {
				r.Count("result:data")
			}
			for _, tg := range strings.Split(p.plan, " ")[0:1] {
				for _, st := range strings.Split(tg, ";") {
					if f := strings.SplitN(st, ":", 3); len(f) == 3 && (f[1] == "jsonp" || f[1] == "logfmtp") {
						ps := strings.Split(f[2], ",")
						names, firsts := map[string]int{}, map[string]int{}
						for _, pr := range ps {
							nv := strings.SplitN(pr, "=", 2)
							names[nv[0]]++
							firsts[strings.SplitN(strings.SplitN(nv[1], "=", 2)[0], "/", 2)[0]]++
						}
						r.Count(fmt.Sprintf("params:%s:n=%d", f[1], min(len(ps), 4)))
						if len(names) < len(ps) && nontrivial {
							r.Count("params:" + f[1] + ":name-repeated")
						}
						if len(firsts) < len(ps) && nontrivial {
							r.Count("params:" + f[1] + ":first-segment-shared")
						}
						for nm := range names {
							if nontrivial && (nm == hx("a") || nm == hx("lvl") || nm == hx("v") || nm == hx("ab") || nm == hx("x")) {
								r.Count("params:" + f[1] + ":names-a-stream-label")
								break
							}
						}
					}
					r.Count("stage:" + strings.SplitN(st, ":", 3)[0] + func() string {
						if strings.HasPrefix(st, "P:") {
							return ":" + strings.SplitN(st, ":", 3)[1]
						}
						return ""
					}())
				}
			}
			if model == "bad-op" || spec == "bad-op" {
				r.Disagree("run", "c09run "+c.Query, o.Canon, model, c)
				continue
			}
			if o.Canon != model {
				r.Disagree("run", "c09run model "+c.Query+" plan="+p.plan, o.Canon, model, c)
			}
			if p.run%97 == 0 {
				r.Sample(map[string]any{"stream": "run", "query": c.Query, "from": c.From, "to": c.To, "limit": c.Limit,
					"batches": len(c.Batches), "entries": g.NFlat, "impl": o.Canon})
			}
			// ---- oracle
			if o.Fps != "" {
				r.Violate("C09/one-series-two-label-sets", "distinct label sets share one series: "+o.Fps+" — "+c.Query, c)
			}
			upstreamErr := false
			for _, b := range c.Batches {
				for _, e := range b {
					if strings.HasPrefix(e.Err, "u") {
						upstreamErr = true
					}
				}
			}
			if upstreamErr || strings.HasPrefix(o.Canon, "ERR:too-many-series") {
				continue // no LogQL-defined result: the query has to fail (C12); only the model tie applies
			}
			if o.Canon != spec {
				r.Violate(c9Key(g, o.Canon, spec), fmt.Sprintf("the in-process result differs from the LogQL definition for %s (limit %d): got %.300s want %.300s",
					c.Query, c.Limit, o.Canon, spec), c)
			}
		}
	}
	return nil
}

// c9Key: normalised identity of an oracle failure
func c9Key(g *c9Gen, got, want string) string {
	switch {
	case strings.HasPrefix(got, "ERR:panic"):
		return "C09/panic"
	case strings.HasPrefix(got, "ERR"):
		return "C09/error-instead-of-result"
	case got == "-" && want != "-":
		return "C09/" + g.Kind + "/nothing-returned"
	case strings.Count(got, "|") != strings.Count(want, "|"):
		return "C09/" + g.Kind + "/series-differ"
	case len(strings.Split(got, ",")) != len(strings.Split(want, ",")):
		return "C09/" + g.Kind + "/entries-differ"
	}
	return "C09/" + g.Kind + "/values-differ"
}

func c09(r *h.Result, rng *h.Rng, tier string, replay string) error {
	r.Rule = "grammar-directed LogQL scripts that force the in-process engine (| json, | logfmt or | line_format, then 0–3 further stages: " +
		"line/label filters, json with 1–5 path parameters (repeated names, names of stream labels, nested/prefix paths, indexes), logfmt with 0–4 parameters, label_format, line_format, drop; log queries with limits 0/1/2/3/10/100/5000, range, unwrap (by/without) " +
		"and vector aggregations with comparisons) over 1–4 series of JSON (valid, nested, arrays, truncated, broken literal, non-object, trailing text), " +
		"logfmt (bare keys, quoted, unterminated) or plain lines; timestamps biased to window and bucket edges (from, to, last bucket end, before from); " +
		"streams end with the getter's EOF marker (80 %), nothing, or an upstream error; each flat list is fed in several batchings incl. empty batches. " +
		"non-trivial = the result has at least one entry; distinct by (query, window, limit, batching)"
	r.Stream("split: logql_transpiler_v2.GetBreakpoint + breakScript (via Plan) vs Read.getBreakpoint/breakScript")
	r.Stream("run: logql_parser.Parse → logql_transpiler_v2.Plan → scripted upstream in place of the ClickHouse getter → Process → drained channel vs Read.runPlan on the same batching")
	if replay != "" {
		b, err := os.ReadFile(replay)
		if err != nil {
			return err
		}
		var kind struct {
			Replay struct {
				Stream  string      `json:"stream"`
				Engines *c9EngCase  `json:"engines"`
				Metric  *c9MetCase  `json:"metric"`
			} `json:"replay"`
		}
		if err := json.Unmarshal(b, &kind); err == nil && kind.Replay.Stream == "engines" && kind.Replay.Engines != nil {
			return c9Engines(r, rng.Fork(), 0, []*c9EngCase{kind.Replay.Engines})
		}
		if kind.Replay.Stream == "engines-metric" && kind.Replay.Metric != nil {
			return c9EnginesMetric(r, rng.Fork(), 0, []*c9MetCase{kind.Replay.Metric})
		}
		var rp struct {
			Replay c9Case `json:"replay"`
		}
		if err := json.Unmarshal(b, &rp); err != nil {
			return err
		}
		c := rp.Replay
		c.Batching = [][][]c9Entry{c.Batches}
		g := &c9Gen{Case: c, Kind: "replay"}
		// the templates of the query are tokenised again (they come from the generator's three-token sublanguage)
		if script, err := logql_parser.Parse(c.Query); err == nil {
			if sel := shared.GetStrSelector(script); sel != nil {
				for _, p := range sel.Pipelines {
					if p.LineFormat != nil {
						if text, err := p.LineFormat.Val.Unquote(); err == nil {
							if toks, ok := c9TokeniseTpl(text); ok {
								g.Tpls = append(g.Tpls, c9Tpl{text, toks})
							}
						}
					}
				}
			}
		}
		return c9Judge(r, []*c9Gen{g})
	}
	rng = h.NewRng(rng.U64() ^ 0xC09C09C09) // h.NewRng(s) and h.NewRng(s+1) are one step apart: re-seed from an output
	if err := c9PathStream(r, rng.Fork(), map[bool]int{true: 1500, false: 20000}[tier == "quick"]); err != nil {
		return err
	}
	if err := c9Engines(r, rng.Fork(), map[bool]int{true: 500, false: 6000}[tier == "quick"], nil); err != nil {
		return err
	}
	if err := c9Refusals(r); err != nil {
		return err
	}
	if err := c9EnginesMetric(r, rng.Fork(), map[bool]int{true: 400, false: 5000}[tier == "quick"], nil); err != nil {
		return err
	}
	if os.Getenv("VERIF_C09_ONLY") == "engines" { // development aid: one stream only
		return nil
	}
	nCases, nBatchings, maxEntries := 1200, 3, 60
	if tier != "quick" {
		nCases, nBatchings, maxEntries = 8000, 8, 60
	}
	var gens []*c9Gen
	for i := 0; i < nCases; i++ {
		gens = append(gens, c9GenCase(rng.Fork(), maxEntries, nBatchings, false))
	}
	// fixed regression corpus (the observed defects A18–A21 and the two found while building the check)
	gens = append(gens, c9Corpus()...)
	flushAt, _ := c9Constants()
	gens = append(gens, c9Big(rng.Fork(), flushAt+flushAt/30)) // crosses the optimizer's flush threshold
	if tier != "quick" {
		// the optimizer's flush threshold and the series cap
		for i := 0; i < 6; i++ {
			g := c9GenCase(rng.Fork(), 3500, 3, true)
			gens = append(gens, g)
		}
	}
	const part = 250
	for lo := 0; lo < len(gens); lo += part {
		hi := lo + part
		if hi > len(gens) {
			hi = len(gens)
		}
		if err := c9Judge(r, gens[lo:hi]); err != nil {
			return err
		}
	}
	return nil
}

// c9PathText: a parameter path from the grammar of shared/path_parser.go, with noise
func c9PathText(r *h.Rng) string {
	var sb strings.Builder
	n := h.Pick(r, []int{0, 1, 1, 2, 2, 3, 4, 6})
	for i := 0; i < n; i++ {
		if r.Chance(8) {
			sb.WriteString(h.Pick(r, []string{" ", "\t", "  "}))
		}
		switch k := r.Intn(20); {
		case k < 7:
			if i > 0 || r.Chance(20) {
				sb.WriteString(".")
			}
			sb.WriteString(h.Pick(r, []string{"a", "x", "y", "msg", "k_1", "_", "A9", "lvl", "b"}))
		case k < 9:
			sb.WriteString(h.Pick(r, []string{"a", "x", "zz"})) // an identifier without the dot (allowed: `Dot?`)
		case k < 13:
			sb.WriteString("[" + h.Pick(r, []string{"0", "1", "2", "10", "007", "99999", "123456789012345678", "1234567890123456789", "-1", "1.5", "0x1f", "1e3", "1a"}) + "]")
		case k < 16:
			sb.WriteString("[" + h.Pick(r, []string{`"k 1"`, `"a"`, `""`, "`k.1`", `"x.y"`, `"a\"b"`, `"tab\t"`, "`a\"b`", `"é"`, `"q"`}) + "]")
		case k < 17:
			sb.WriteString(h.Pick(r, []string{"[", "]", ".", "..", "[]", "[a]", "[\"a\"", "]]"}))
		case k < 18:
			sb.WriteString(h.Pick(r, []string{"-", "*", "$", "@", "#", "(", "=", ","}))
		default:
			sb.WriteString(h.Pick(r, []string{"//c", "/*c*/", "'c'", "a.1", ".5", "é", "\x01", "\n", "a/b"}))
		}
	}
	return sb.String()
}

// c9PathStream: shared.JsonPathParamToTypedArray vs Read.parsePath (driver op c09path); texts the model declares
// outside its fragment are counted, not compared
func c9PathStream(r *h.Result, rng *h.Rng, n int) error {
	r.Stream("path: shared.JsonPathParamToTypedArray on generated parameter texts (grammar of path_parser.go with noise) vs Read.parsePath")
	texts := []string{"a", "x.y", "x.z[0]", `["k 1"]`, "b[1]", "", ".", "a.", ".a", "a b", "[0]", "a[", "a..b", "[\"a\"][1].c", "`r`", "[`r`]"}
	for len(texts) < n {
		texts = append(texts, c9PathText(rng))
	}
	ops := make([]string, len(texts))
	for i, t := range texts {
		ops[i] = "c09path " + hx(t)
	}
	ans, err := h.Model(ops)
	if err != nil {
		return err
	}
	for i, t := range texts {
		impl := "err"
		if path, err := shared.JsonPathParamToTypedArray(t); err == nil {
			segs := make([]string, len(path))
			for j, s := range path {
				switch x := s.(type) {
				case string:
					segs[j] = "k" + hx(x)
				case int:
					segs[j] = "i" + strconv.Itoa(x)
				}
			}
			impl = "ok:_"
			if len(segs) > 0 {
				impl = "ok:" + strings.Join(segs, "/")
			}
		}
		if ans[i] == "outside" {
			r.Count("path:outside-fragment")
			continue
		}
		r.Case("path|"+t, strings.HasPrefix(impl, "ok"))
		r.Count("path:" + strings.SplitN(impl, ":", 2)[0])
		if impl != ans[i] {
			r.Disagree("path", ops[i], impl, ans[i], map[string]any{"text": t})
		}
	}
	return nil
}

func c9Fixed(query string, from, to, limit int64, flat []c9Entry, tpls ...c9Tpl) *c9Gen {
	g := &c9Gen{Kind: "corpus", Tpls: tpls, NFlat: len(flat)}
	g.Case = c9Case{Query: query, From: from, To: to, Limit: limit}
	var single [][]c9Entry
	for _, e := range flat {
		single = append(single, []c9Entry{e})
	}
	half := len(flat) / 2
	g.Case.Batching = [][][]c9Entry{{flat}, single, {nil, flat[:half], nil, flat[half:], nil}}
	return g
}

func c9Corpus() []*c9Gen {
	m := func(kv ...string) map[string]string {
		r := map[string]string{}
		for i := 0; i+1 < len(kv); i += 2 {
			r[kv[i]] = kv[i+1]
		}
		return r
	}
	eof := c9Entry{Err: "eof"}
	base := int64(1700000000) * 1e9
	x := m("x", "y")
	// every aggregation function over two windows with several different values per series and window
	vals := []c9Entry{
		{Ts: base + 10e9, Fp: 1, Labels: x, Msg: `{"v":"5","k":"a"}`}, {Ts: base + 20e9, Fp: 1, Labels: x, Msg: `{"v":"3","k":"b"}`},
		{Ts: base + 30e9, Fp: 1, Labels: x, Msg: `{"v":"9","k":"a"}`}, {Ts: base + 70e9, Fp: 1, Labels: x, Msg: `{"v":"2","k":"b"}`},
		{Ts: base + 80e9, Fp: 1, Labels: x, Msg: `{"v":"8","k":"a"}`}, {Ts: base + 90e9, Fp: 1, Labels: x, Msg: `{"v":"0.5","k":"b"}`},
		{Ts: base + 100e9, Fp: 1, Labels: x, Msg: `{"v":"x","k":"b"}`}, eof}
	var sys []*c9Gen
	for _, fn := range []string{"rate", "sum_over_time", "avg_over_time", "max_over_time", "min_over_time", "first_over_time", "last_over_time"} {
		sys = append(sys, c9Fixed(fn+`({x="y"} | json | unwrap v [1m]) by (x)`, base, base+120e9, 100, vals))
		sys = append(sys, c9Fixed(fn+`({x="y"} | json | unwrap v [1m]) without (v) >= 3`, base, base+120e9, 100, vals))
	}
	for _, fn := range []string{"rate", "count_over_time", "bytes_rate", "bytes_over_time"} {
		sys = append(sys, c9Fixed(fn+`({x="y"} | json | drop v [1m])`, base, base+120e9, 100, vals))
	}
	for _, fn := range []string{"sum", "min", "max", "avg", "count"} {
		sys = append(sys, c9Fixed(fn+` by (x) (sum_over_time({x="y"} | json | unwrap v [1m]) by (k))`, base, base+120e9, 100, vals))
		sys = append(sys, c9Fixed(fn+` without (k) (count_over_time({x="y"} | json | drop v [1m])) > 1`, base, base+120e9, 100, vals))
	}
	return append(sys, []*c9Gen{
		// A18
		c9Fixed(`{x="y"} | json`, base, base+100e9, 100, []c9Entry{{Ts: base + 2, Fp: 1, Labels: x, Msg: `{"ab":"c"}`}, {Ts: base + 1, Fp: 1, Labels: x, Msg: `{"a":"bc"}`}, eof}),
		// A19
		c9Fixed(`min_over_time({x="y"} | json | unwrap v [1m]) by (x)`, base, base+120e9, 100, []c9Entry{{Ts: base + 10, Fp: 1, Labels: x, Msg: `{"v":"5"}`}, {Ts: base + 20, Fp: 1, Labels: x, Msg: `{"v":"3"}`}, {Ts: base + 30, Fp: 1, Labels: x, Msg: `{"v":"9"}`}, eof}),
		c9Fixed(`first_over_time({x="y"} | json | unwrap v [1m]) by (x)`, base, base+120e9, 100, []c9Entry{{Ts: base + 10, Fp: 1, Labels: x, Msg: `{"v":"0"}`}, {Ts: base + 20, Fp: 1, Labels: x, Msg: `{"v":"3"}`}, {Ts: base + 30, Fp: 1, Labels: x, Msg: `{"v":"9"}`}, eof}),
		// A20
		c9Fixed(`{x="y"} | json`, base, base+100e9, 0, []c9Entry{{Ts: base + 3, Fp: 1, Labels: x, Msg: `{"a":"1"}`}, {Ts: base + 2, Fp: 1, Labels: x, Msg: `{"a":"2"}`}, {Ts: base + 1, Fp: 1, Labels: x, Msg: `{"a":"3"}`}, eof}),
		// A21: the window is not a multiple of the range; an entry in the tail after the last whole bucket
		c9Fixed(`count_over_time({x="y"} | json [1m])`, base, base+150e9, 100, []c9Entry{{Ts: base + 130e9, Fp: 1, Labels: x, Msg: `{"a":"1"}`}, {Ts: base + 1, Fp: 1, Labels: x, Msg: `{"a":"1"}`}, eof}),
		c9Fixed(`sum_over_time({x="y"} | json | unwrap v [1m])`, base, base+150e9, 100, []c9Entry{{Ts: base + 130e9, Fp: 1, Labels: x, Msg: `{"v":"1"}`}, {Ts: base + 1, Fp: 1, Labels: x, Msg: `{"v":"2"}`}, eof}),
		c9Fixed(`sum by (x) (count_over_time({x="y"} | json [1m]))`, base, base+120e9, 100, []c9Entry{{Ts: base + 120e9, Fp: 1, Labels: x, Msg: `{"a":"1"}`}, {Ts: base + 1, Fp: 1, Labels: x, Msg: `{"a":"1"}`}, eof}),
		// label_format on the end-of-stream marker
		c9Fixed(`{x="y"} | json | label_format z="k"`, base, base+100e9, 100, []c9Entry{{Ts: base + 1, Fp: 1, Labels: x, Msg: `{"a":"1"}`}, eof}),
		// one unparsable line among parsable ones
		c9Fixed(`{x="y"} | json`, base, base+100e9, 100, []c9Entry{{Ts: base + 3, Fp: 1, Labels: x, Msg: `{"a":"1"}`}, {Ts: base + 2, Fp: 1, Labels: x, Msg: `not json`}, {Ts: base + 1, Fp: 1, Labels: x, Msg: `{"q":"r","a":tru}`}, eof}),
		// equal label sets reached from different streams are one series
		c9Fixed(`count_over_time({x="y"} | json | label_format a="k" [1m])`, base, base+60e9, 100, []c9Entry{{Ts: base + 3, Fp: 1, Labels: x, Msg: `{"a":"1"}`}, {Ts: base + 2, Fp: 1, Labels: x, Msg: `{"a":"2"}`}, eof}),
		c9Fixed(`count_over_time({x="y"} | json | drop a [1m])`, base, base+60e9, 100, []c9Entry{{Ts: base + 3, Fp: 1, Labels: x, Msg: `{"a":"1"}`}, {Ts: base + 2, Fp: 1, Labels: x, Msg: `{}`}, eof}),
		// json with several parameters: one name twice (document order decides), a stream label overwritten, a path that
		// is a prefix of another, the same path under two names, an index, a key that occurs twice, a document cut in the middle
		c9Fixed(`{x="y"} | json | json p="a", p="b"`, base, base+100e9, 100, []c9Entry{{Ts: base + 3, Fp: 1, Labels: x, Msg: `{"b":"1","a":"2"}`}, {Ts: base + 2, Fp: 1, Labels: x, Msg: `{"a":"3","b":"4"}`}, {Ts: base + 1, Fp: 1, Labels: x, Msg: `{"a":"5"}`}, eof}),
		c9Fixed(`{x="y"} | json | json x="a", q="a", r="c.d", s="c.d[1]", t="c"`, base, base+100e9, 100, []c9Entry{{Ts: base + 3, Fp: 1, Labels: x, Msg: `{"a":"1","c":{"d":[7,8]},"a":"2"}`}, {Ts: base + 2, Fp: 1, Labels: x, Msg: `{"c":{"d":"s"},"c":"t"}`}, {Ts: base + 1, Fp: 1, Labels: x, Msg: `{"c":{"d":[7,8`}, eof}),
		c9Fixed(`count_over_time({x="y"} | json | json x="a", x="b" [1m])`, base, base+60e9, 100, []c9Entry{{Ts: base + 3, Fp: 1, Labels: x, Msg: `{"b":"1","a":"2"}`}, {Ts: base + 2, Fp: 1, Labels: x, Msg: `{"a":"2","b":"1"}`}, {Ts: base + 1, Fp: 1, Labels: x, Msg: `{"a":"2","b":tru`}, eof}),
		// label pairs longer than any fixed-size hashing buffer that differ only at their ends: distinct label sets stay
		// distinct series (seeded C09-4: the fingerprint hashed the first 120 bytes of a pair)
		c9Fixed(`count_over_time({x="y"} | json [1m])`, base, base+60e9, 100, []c9Entry{
			{Ts: base + 4, Fp: 1, Labels: x, Msg: `{"path":"/api/v1/` + strings.Repeat("segment/", 20) + `item/1"}`},
			{Ts: base + 3, Fp: 1, Labels: x, Msg: `{"path":"/api/v1/` + strings.Repeat("segment/", 20) + `item/2"}`},
			{Ts: base + 2, Fp: 1, Labels: x, Msg: `{"path":"/api/v1/` + strings.Repeat("segment/", 20) + `item/1"}`},
			{Ts: base + 1, Fp: 1, Labels: x, Msg: `{"` + strings.Repeat("k", 140) + `1":"v"}`},
			{Ts: base + 0, Fp: 1, Labels: x, Msg: `{"` + strings.Repeat("k", 140) + `2":"v"}`}, eof}),
		c9Fixed(`sum by (path) (count_over_time({x="y"} | json [1m]))`, base, base+60e9, 100, []c9Entry{
			{Ts: base + 4, Fp: 1, Labels: x, Msg: `{"path":"` + strings.Repeat("p", 300) + `a"}`},
			{Ts: base + 3, Fp: 1, Labels: x, Msg: `{"path":"` + strings.Repeat("p", 300) + `b"}`}, eof}),
		c9Fixed(`{x="y"} | json`, base, base+100e9, 100, []c9Entry{
			{Ts: base + 2, Fp: 1, Labels: x, Msg: `{"path":"` + strings.Repeat("p", 127) + `a"}`},
			{Ts: base + 1, Fp: 1, Labels: x, Msg: `{"path":"` + strings.Repeat("p", 127) + `b"}`}, eof}),
		// logfmt with several parameters: two names for one key (the later wins), an index-first expression, a longer path
		c9Fixed(`{x="y"} | logfmt p="a", q="a", r="[0]", s="b.c", x="d"`, base, base+100e9, 100, []c9Entry{{Ts: base + 3, Fp: 1, Labels: x, Msg: `a=1 b=2 d=3`}, {Ts: base + 2, Fp: 1, Labels: x, Msg: `b=5 a="6`}, eof}),
	}...)
}

// c9Big: more entries than the optimizer buffers before it flushes, in few series
func c9Big(r *h.Rng, n int) *c9Gen {
	base := int64(1700000000) * 1e9
	g := &c9Gen{Kind: "big", NFlat: n + 1}
	g.Case = c9Case{Query: `{a="b"} | json | lvl != "zz"`, From: base, To: base + 100e9, Limit: h.Pick(r, []int64{0, int64(n) - 7})}
	var flat []c9Entry
	for i := 0; i < n; i++ {
		s := r.Intn(3)
		flat = append(flat, c9Entry{Ts: base + int64(n-i), Fp: uint64(100 + s), Labels: map[string]string{"a": "b", "s": strconv.Itoa(s)},
			Msg: `{"lvl":"` + h.Pick(r, []string{"info", "warn"}) + `","i":` + strconv.Itoa(i%5) + `}`})
	}
	flat = append(flat, c9Entry{Err: "eof"})
	cut1, cut2 := r.Range(1, n-1), r.Range(1, n-1)
	if cut1 > cut2 {
		cut1, cut2 = cut2, cut1
	}
	g.Case.Batching = [][][]c9Entry{{flat}, {flat[:cut1], nil, flat[cut1:cut2], flat[cut2:]}}
	var hund [][]c9Entry // the getter's own batching: 100 rows per message
	for i := 0; i < len(flat); i += 100 {
		hund = append(hund, flat[i:min(i+100, len(flat))])
	}
	g.Case.Batching = append(g.Case.Batching, hund)
	return g
}
