package main

// C06: running the real code — span parsers, the two trace insert services' ProcessRequest (columns), and the
// trace read path (TempoService.Query → OutputQuery) over a scripted database/sql connection, the latter in a
// child process because OutputQuery decodes in a goroutine without recover.

import (
	"bufio"
	"bytes"
	"context"
	"database/sql/driver"
	"encoding/hex"
	"encoding/json"
	"fmt"
	"os"
	"os/exec"
	"sort"
	"strconv"
	"strings"
	"sync"

	chproto "github.com/ClickHouse/ch-go/proto"
	clconfig "github.com/metrico/cloki-config"
	rmodel "github.com/metrico/qryn/reader/model"
	rservice "github.com/metrico/qryn/reader/service"
	"github.com/metrico/qryn/writer/config"
	wmodel "github.com/metrico/qryn/writer/model"
	wservice "github.com/metrico/qryn/writer/service"
	"github.com/metrico/qryn/writer/service/impl"
	"github.com/metrico/qryn/writer/utils/unmarshal"
	"unicode/utf8"

	v11 "go.opentelemetry.io/proto/otlp/common/v1"
	trace "go.opentelemetry.io/proto/otlp/trace/v1"
	"google.golang.org/protobuf/proto"
	"verif/harness/fakes"
	"verif/harness/h"
)

type c06Row struct {
	Tid, Sid []byte
	Pid      []byte // parent_id column (a Go string in the writer; bytes here)
	Name     string
	Ts, Dur  int64
	Svc      string
	Ptype    int8
	Payload  []byte
}

type c06Tag struct {
	Tid, Sid      []byte
	Ts, Dur, Date int64
	Key, Val      string
}

type c06Written struct {
	Rej    bool
	Err    string
	Rows   []c06Row
	Tags   []c06Tag
	Chunks int
	Notes  []string // column ↔ array mismatches found while pushing the chunks through ProcessRequest
}

var c06Once sync.Once
var c06SamplesSvc, c06TagsSvc *wservice.InsertServiceV2Multimodal

func c06Init() {
	c06Once.Do(func() {
		config.Cloki = clconfig.New(clconfig.CLOKI_WRITER, nil, "", "")
		wservice.CreateColPools(0)
		c06SamplesSvc, _ = impl.NewTempoSamplesInsertService(wmodel.InsertServiceOpts{Node: &wmodel.DataDatabasesMap{}}).(*wservice.InsertServiceV2Multimodal)
		c06TagsSvc, _ = impl.NewTempoTagsInsertService(wmodel.InsertServiceOpts{Node: &wmodel.DataDatabasesMap{}}).(*wservice.InsertServiceV2Multimodal)
	})
}

// c06Process pushes one request through the service's ProcessRequest into freshly acquired columns and
// returns the columns by name. A panic (FixedString size check) is returned as an error.
func c06Process(svc *wservice.InsertServiceV2Multimodal, req any) (cols map[string]any, n int, err error) {
	defer func() {
		if p := recover(); p != nil {
			err = fmt.Errorf("panic: %v", p)
		}
	}()
	acq := svc.AcquireColumns()
	for _, c := range acq {
		c.Reset()
	}
	n, acq, err = svc.ProcessRequest(req, acq)
	if err != nil {
		return nil, 0, err
	}
	cols = map[string]any{}
	for _, c := range acq {
		in := c.Input()
		cols[in.Name] = in.Data
	}
	return cols, n, nil
}

func c06FixedRows(c any) ([][]byte, bool) {
	fs, ok := c.(*chproto.ColFixedStr)
	if !ok {
		return nil, false
	}
	out := make([][]byte, fs.Rows())
	for i := range out {
		out[i] = append([]byte{}, fs.Row(i)...)
	}
	return out, true
}

func c06StrRows(c any) ([]string, bool) {
	cs, ok := c.(*chproto.ColStr)
	if !ok {
		return nil, false
	}
	out := make([]string, cs.Rows())
	for i := range out {
		out[i] = cs.Row(i)
	}
	return out, true
}

// c06Write runs a span parser on a body; the rows are those of the columns ProcessRequest fills (checked
// against the arrays of the parser response).
func c06Write(parser unmarshal.ParsingFunction, body []byte) *c06Written {
	c06Init()
	w := &c06Written{}
	ch := parser(context.Background(), bytes.NewReader(body), nil)
	type chunk struct {
		s *wmodel.TempoSamples
		t *wmodel.TempoTag
	}
	var chunks []chunk
	for r := range ch {
		if r.Error != nil {
			w.Rej = true
			w.Err = r.Error.Error()
			continue
		}
		s, ok1 := r.SpansRequest.(*wmodel.TempoSamples)
		t, ok2 := r.SpansAttrsRequest.(*wmodel.TempoTag)
		if !ok1 || !ok2 {
			w.Notes = append(w.Notes, fmt.Sprintf("response without span requests: %T %T", r.SpansRequest, r.SpansAttrsRequest))
			continue
		}
		chunks = append(chunks, chunk{s, t})
	}
	w.Chunks = len(chunks)
	if w.Rej {
		return w
	}
	for _, c := range chunks {
		s, t := c.s, c.t
		n := len(s.MTraceId)
		if len(s.MSpanId) != n || len(s.MTimestampNs) != n || len(s.MDurationNs) != n || len(s.MParentId) != n || len(s.MName) != n ||
			len(s.MServiceName) != n || len(s.MPayloadType) != n || len(s.MPayload) != n {
			w.Notes = append(w.Notes, "TempoSamples arrays of unequal length")
			w.Rej = true
			return w
		}
		cols, cn, err := c06Process(c06SamplesSvc, s)
		if err != nil {
			// ids that do not fit FixedString(16)/(8): the request cannot be stored (A6, property C05)
			w.Rej = true
			w.Err = "insert: " + err.Error()
			return w
		}
		tid, ok1 := c06FixedRows(cols["trace_id"])
		sid, ok2 := c06FixedRows(cols["span_id"])
		pid, ok3 := c06StrRows(cols["parent_id"])
		name, ok4 := c06StrRows(cols["name"])
		ts, ok5 := cols["timestamp_ns"].(chproto.ColInt64)
		dur, ok6 := cols["duration_ns"].(chproto.ColInt64)
		svc, ok7 := c06StrRows(cols["service_name"])
		pt, ok8 := cols["payload_type"].(chproto.ColInt8)
		pl, ok9 := c06StrRows(cols["payload"])
		if !(ok1 && ok2 && ok3 && ok4 && ok5 && ok6 && ok7 && ok8 && ok9) {
			w.Notes = append(w.Notes, "tempo_traces columns missing or of an unexpected type")
			w.Rej = true
			return w
		}
		if cn != n || len(tid) != n || len(sid) != n || len(pid) != n || len(name) != n || len(ts) != n || len(dur) != n || len(svc) != n || len(pt) != n || len(pl) != n {
			w.Notes = append(w.Notes, fmt.Sprintf("tempo_traces columns not rectangular: %d rows pushed, columns %d %d %d %d %d %d %d %d %d", n,
				len(tid), len(sid), len(pid), len(name), len(ts), len(dur), len(svc), len(pt), len(pl)))
			w.Rej = true
			return w
		}
		for i := 0; i < n; i++ {
			if !bytes.Equal(tid[i], s.MTraceId[i]) || !bytes.Equal(sid[i], s.MSpanId[i]) || pid[i] != s.MParentId[i] || name[i] != s.MName[i] ||
				ts[i] != s.MTimestampNs[i] || dur[i] != s.MDurationNs[i] || svc[i] != s.MServiceName[i] || pt[i] != s.MPayloadType[i] || pl[i] != string(s.MPayload[i]) {
				w.Notes = append(w.Notes, fmt.Sprintf("tempo_traces column row %d differs from the parser's arrays", i))
			}
			w.Rows = append(w.Rows, c06Row{tid[i], sid[i], []byte(pid[i]), name[i], ts[i], dur[i], svc[i], pt[i], []byte(pl[i])})
		}
		m := len(t.MKey)
		if len(t.MTraceId) != m || len(t.MSpanId) != m || len(t.MTimestampNs) != m || len(t.MDurationNs) != m || len(t.MVal) != m || len(t.MDate) != m {
			w.Notes = append(w.Notes, "TempoTag arrays of unequal length")
			w.Rej = true
			return w
		}
		cols, cn, err = c06Process(c06TagsSvc, t)
		if err != nil {
			w.Rej = true
			w.Err = "insert: " + err.Error()
			return w
		}
		ttid, ok1 := c06FixedRows(cols["trace_id"])
		tsid, ok2 := c06FixedRows(cols["span_id"])
		key, ok3 := c06StrRows(cols["key"])
		val, ok4 := c06StrRows(cols["val"])
		tts, ok5 := cols["timestamp_ns"].(chproto.ColInt64)
		tdur, ok6 := cols["duration"].(chproto.ColInt64)
		date, ok7 := cols["date"].(chproto.ColDate)
		if !(ok1 && ok2 && ok3 && ok4 && ok5 && ok6 && ok7) {
			w.Notes = append(w.Notes, "tempo_traces_attrs_gin columns missing or of an unexpected type")
			w.Rej = true
			return w
		}
		if cn != m || len(ttid) != m || len(tsid) != m || len(key) != m || len(val) != m || len(tts) != m || len(tdur) != m || len(date) != m {
			w.Notes = append(w.Notes, "tempo_traces_attrs_gin columns not rectangular")
			w.Rej = true
			return w
		}
		for i := 0; i < m; i++ {
			if !bytes.Equal(ttid[i], t.MTraceId[i]) || !bytes.Equal(tsid[i], t.MSpanId[i]) || key[i] != t.MKey[i] || val[i] != t.MVal[i] ||
				tts[i] != t.MTimestampNs[i] || tdur[i] != t.MDurationNs[i] {
				w.Notes = append(w.Notes, fmt.Sprintf("tempo_traces_attrs_gin column row %d differs from the parser's arrays", i))
			}
			w.Tags = append(w.Tags, c06Tag{ttid[i], tsid[i], tts[i], tdur[i], t.MDate[i].Unix(), key[i], val[i]})
		}
	}
	return w
}

// ---------------------------------------------------------------- canonical text of written rows

// payloadName: how a payload is named in the canonical text (Zipkin: serial of the span text; OTLP: tokens)
func c06RowText(r c06Row, payloadName func([]byte) string) string {
	return strings.Join([]string{"T", h.Hex(r.Tid), h.Hex(r.Sid), h.Hex(r.Pid), c06hex(r.Name), strconv.FormatInt(r.Ts, 10),
		strconv.FormatInt(r.Dur, 10), c06hex(r.Svc), strconv.Itoa(int(r.Ptype)), payloadName(r.Payload)}, ":")
}

func c06TagText(t c06Tag) string {
	return strings.Join([]string{"G", h.Hex(t.Tid), h.Hex(t.Sid), strconv.FormatInt(t.Ts, 10), strconv.FormatInt(t.Dur, 10),
		strconv.FormatInt(t.Date, 10), c06hex(t.Key), c06hex(t.Val)}, ":")
}

func c06WrittenText(w *c06Written, sortTags bool, payloadName func([]byte) string) string {
	if w.Rej {
		return "rej"
	}
	out := []string{"ok"}
	for _, r := range w.Rows {
		out = append(out, c06RowText(r, payloadName))
	}
	var tags []string
	for _, t := range w.Tags {
		tags = append(tags, c06TagText(t))
	}
	if sortTags {
		sort.Strings(tags)
	}
	return strings.Join(append(out, tags...), "|")
}

func c06OtlpPayloadName(p []byte) string {
	if len(p) == 0 {
		return "E"
	}
	sp := &trace.Span{}
	if err := proto.Unmarshal(p, sp); err != nil {
		return "X" + hex.EncodeToString(p)
	}
	return "O" + strconv.Itoa(int(p[0])) + "," + strings.Join(c06SpanTokens(sp, nil), ",")
}

// ---------------------------------------------------------------- read path (child process)

type c06ReadJob struct {
	Rows []c06Row
	Sort bool // OTLP: attributes come out of a Go map, compare them sorted
	// trace-by-id parameters (empty Tid: the trace id of the first row, no time bounds)
	Tid        string
	Start, End int64
	View       bool // also render every returned span with SpanToJSONSpan
}

type c06ReadResult struct {
	Canon string   // done|stopped then one entry per response
	Spans [][]byte // proto.Marshal of each returned span (nil entry = nil span)
	Svcs  []string
	Err   string
	Views []string // canonical text of the JSON view of each response ("FAULT" when SpanToJSONSpan faults)
	JSON  []string // json.Marshal of the view (oracle: must be a JSON document)
}

func c06SpanText(sp *trace.Span, svc string, sortAttrs bool) string {
	if sp == nil {
		return "NIL"
	}
	var attrs []string
	for _, kv := range sp.Attributes {
		attrs = append(attrs, strings.Join(c06KVTokens(kv), ","))
	}
	if sortAttrs {
		sort.Strings(attrs)
	}
	code, msg := 0, ""
	if sp.Status != nil {
		code, msg = int(sp.Status.Code), sp.Status.Message
	}
	var events []string
	for _, e := range sp.Events {
		events = append(events, strconv.FormatUint(e.GetTimeUnixNano(), 10)+","+c06hex(e.GetName()))
	}
	return strings.Join([]string{"S", h.Hex(sp.TraceId), h.Hex(sp.SpanId), h.Hex(sp.ParentSpanId), c06hex(sp.Name), strconv.Itoa(int(sp.Kind)),
		strconv.FormatUint(sp.StartTimeUnixNano, 10), strconv.FormatUint(sp.EndTimeUnixNano, 10), strconv.Itoa(code), c06hex(msg), c06hex(svc),
		strings.Join(attrs, ";"), strings.Join(events, ";")}, ":")
}

// c06ReadRows replays the rows as the result set of the trace query and runs the real read path.
func c06ReadRows(job c06ReadJob) c06ReadResult {
	var res c06ReadResult
	script := &fakes.C06Script{Resp: func(q string) ([]string, [][]driver.Value, error) {
		cols := []string{"trace_id", "span_id", "parent_id", "timestamp_ns", "duration_ns", "payload_type", "payload"}
		var rows [][]driver.Value
		for _, r := range job.Rows {
			rows = append(rows, []driver.Value{string(r.Tid), string(r.Sid), string(r.Pid), r.Ts, r.Dur, int64(r.Ptype), string(r.Payload)})
		}
		return cols, rows, nil
	}}
	reg, err := fakes.C06NewRegistry(script)
	if err != nil {
		res.Err = err.Error()
		return res
	}
	svc := rservice.NewTempoService(rmodel.ServiceData{Session: reg})
	tid := job.Tid
	if tid == "" && len(job.Rows) > 0 {
		tid = hex.EncodeToString(job.Rows[0].Tid)
	}
	ch, err := svc.Query(context.Background(), job.Start, job.End, []byte(tid), false)
	if err != nil {
		res.Err = err.Error()
		return res
	}
	var texts []string
	for r := range ch {
		texts = append(texts, c06SpanText(r.Span, r.ServiceName, job.Sort))
		if r.Span == nil {
			res.Spans = append(res.Spans, nil)
		} else {
			res.Spans = append(res.Spans, c06EncodeSpan(r.Span))
		}
		res.Svcs = append(res.Svcs, c06EscStr(r.ServiceName))
		if job.View {
			v, js := c06JSONView(r.Span)
			res.Views = append(res.Views, v)
			res.JSON = append(res.JSON, js)
		}
	}
	end := "done"
	if len(texts) < len(job.Rows) {
		end = "stopped"
	}
	qs := script.Queries()
	if len(qs) != 1 || !strings.Contains(qs[0], "unhex('"+tid+"')") || !strings.Contains(qs[0], "tempo_traces") ||
		!strings.Contains(qs[0], "ORDER BY timestamp_ns") || !strings.Contains(qs[0], "LIMIT 2000") ||
		(job.Start != 0) != strings.Contains(qs[0], "(timestamp_ns) >= ("+strconv.FormatInt(job.Start, 10)+")") ||
		(job.End != 0) != strings.Contains(qs[0], "(timestamp_ns) < ("+strconv.FormatInt(job.End, 10)+")") ||
		(job.Start == 0 && strings.Contains(qs[0], ">=")) || (job.End == 0 && strings.Contains(qs[0], "(timestamp_ns) <")) {
		res.Err = fmt.Sprintf("unexpected trace query: %q", qs)
	}
	res.Canon = strings.Join(append([]string{end}, texts...), "|")
	return res
}

func init() { props["C06child"] = c06Child }

// c06Child: the child process. `replay` is a file with a JSON list of read jobs; one line `R <json>` per job.
func c06Child(r *h.Result, rng *h.Rng, tier string, replay string) error {
	b, err := os.ReadFile(replay)
	if err != nil {
		return err
	}
	var jobs []c06ReadJob
	if err := json.Unmarshal(b, &jobs); err != nil {
		return err
	}
	out := bufio.NewWriter(os.Stdout)
	for i, j := range jobs {
		res := c06ReadRows(j)
		jb, _ := json.Marshal(res)
		fmt.Fprintf(out, "\nR %d %s\n", i, jb)
		out.Flush()
	}
	return nil
}

// c06ReadAll runs the jobs in child processes. A job on which the child dies has result nil.
func c06ReadAll(jobs []c06ReadJob) ([]*c06ReadResult, error) {
	results := make([]*c06ReadResult, len(jobs))
	start := 0
	for start < len(jobs) {
		f, err := os.CreateTemp("", "c06jobs-*.json")
		if err != nil {
			return nil, err
		}
		jb, _ := json.Marshal(jobs[start:])
		f.Write(jb)
		f.Close()
		cmd := exec.Command(os.Args[0], "C06child", "-replay", f.Name())
		var stdout, stderr bytes.Buffer
		cmd.Stdout = &stdout
		cmd.Stderr = &stderr
		runErr := cmd.Run()
		os.Remove(f.Name())
		done := 0
		sc := bufio.NewScanner(&stdout)
		sc.Buffer(make([]byte, 1<<20), 1<<30)
		for sc.Scan() {
			line := sc.Text()
			if !strings.HasPrefix(line, "R ") {
				continue
			}
			parts := strings.SplitN(line, " ", 3)
			if len(parts) != 3 {
				continue
			}
			idx, err := strconv.Atoi(parts[1])
			if err != nil || idx != done {
				continue
			}
			var rr c06ReadResult
			if err := json.Unmarshal([]byte(parts[2]), &rr); err != nil {
				return nil, fmt.Errorf("child result: %v", err)
			}
			for k := range rr.Svcs {
				rr.Svcs[k] = c06UnescStr(rr.Svcs[k])
			}
			results[start+idx] = &rr
			done++
		}
		if os.Getenv("C06DEBUG") != "" {
			fmt.Fprintf(os.Stderr, "c06 child: start=%d jobs=%d done=%d err=%v stderr=%s\n", start, len(jobs)-start, done, runErr, c06Trunc(stderr.String(), 300))
		}
		if runErr == nil && done == len(jobs)-start {
			break
		}
		if runErr == nil {
			return nil, fmt.Errorf("read child answered %d of %d jobs without failing: %s", done, len(jobs)-start, stderr.String())
		}
		// the child died on job start+done: leave its result nil and go on after it
		results[start+done] = nil
		start += done + 1
	}
	return results, nil
}

// proto.Marshal refuses strings that are not UTF-8 (the Zipkin writer lets them through): such strings travel from the
// child process as "\x01RAW:" + hex and are restored by c06SpanOf.
const c06RawMark = "\x01RAW:"

func c06EscStr(s string) string {
	if utf8.ValidString(s) {
		return s
	}
	return c06RawMark + hex.EncodeToString([]byte(s))
}

func c06UnescStr(s string) string {
	if strings.HasPrefix(s, c06RawMark) {
		b, err := hex.DecodeString(s[len(c06RawMark):])
		if err == nil {
			return string(b)
		}
	}
	return s
}

func c06MapVal(v *v11.AnyValue, f func(string) string) {
	switch x := v.GetValue().(type) {
	case *v11.AnyValue_StringValue:
		x.StringValue = f(x.StringValue)
	case *v11.AnyValue_ArrayValue:
		for _, e := range x.ArrayValue.GetValues() {
			c06MapVal(e, f)
		}
	case *v11.AnyValue_KvlistValue:
		for _, kv := range x.KvlistValue.GetValues() {
			kv.Key = f(kv.Key)
			c06MapVal(kv.Value, f)
		}
	}
}

func c06MapSpan(sp *trace.Span, f func(string) string) {
	sp.Name = f(sp.Name)
	sp.TraceState = f(sp.TraceState)
	for _, kv := range sp.Attributes {
		kv.Key = f(kv.Key)
		c06MapVal(kv.Value, f)
	}
	for _, e := range sp.Events {
		e.Name = f(e.Name)
		for _, kv := range e.Attributes {
			kv.Key = f(kv.Key)
			c06MapVal(kv.Value, f)
		}
	}
	if sp.Status != nil {
		sp.Status.Message = f(sp.Status.Message)
	}
}

func c06EncodeSpan(sp *trace.Span) []byte {
	c := proto.Clone(sp).(*trace.Span)
	c06MapSpan(c, c06EscStr)
	b, err := proto.Marshal(c)
	if err != nil {
		return nil
	}
	if len(b) == 0 {
		return []byte{}
	}
	return b
}

// c06SpanOf: the span a child process returned (nil = nil span or undecodable)
func c06SpanOf(b []byte) *trace.Span {
	if b == nil {
		return nil
	}
	sp := &trace.Span{}
	if proto.Unmarshal(b, sp) != nil {
		return nil
	}
	c06MapSpan(sp, c06UnescStr)
	return sp
}
