package main

import (
	"context"
	"fmt"
	"regexp"
	"strconv"
	"strings"
	"time"

	"github.com/metrico/qryn/reader/logql/logql_transpiler_v2/shared"
	"github.com/metrico/qryn/reader/prof"
	profparser "github.com/metrico/qryn/reader/prof/parser"
	profshared "github.com/metrico/qryn/reader/prof/shared"
	v1 "github.com/metrico/qryn/reader/prof/types/v1"
	sql "github.com/metrico/qryn/reader/utils/sql_select"
	"github.com/metrico/qryn/reader/utils/tables"
	"verif/harness/h"
)

// prof-segs: the tie of the C10 segment views of the Pyroscope statements (Prof/PlannersSegs.lean — the objects the
// `plan_closed_prof_*` theorems are about) to the real planners: prof.PlanMergeProfiles / PlanMergeTraces / PlanSelectSeries /
// PlanSeries / PlanLabelNames / PlanLabelValues / PlanAnalyzeQuery → String vs renderSegs of the segment view, byte for byte,
// with hostile request strings in EVERY field: selector values (arbitrary bytes incl. invalid UTF-8, which the `String` detour
// of C13's `Sel` model cannot carry), regular expressions, the five parts of the type id, group_by and label_names entries,
// the label of LabelValues. Oracle on the real text: it lexes without an error token and has the token kinds of the same
// request with harmless strings.

func c10ProfHostile(rng *h.Rng) string {
	if rng.Chance(30) {
		return string(rng.Bytes(6))
	}
	return c10Hostile(rng, rng.Bool())
}

func c10ProfSegs(r *h.Result, rng *h.Rng, n int) error {
	r.Stream("prof-segs: prof.PlanMergeProfiles / PlanMergeTraces / PlanSelectSeries / PlanSeries (0, 1, ≥2 selector sets) / PlanLabelNames / PlanLabelValues (0, 1, 2 sets) / PlanAnalyzeQuery → String vs renderSegs of the C10 segment views Prof.*Segs (byte-equal), hostile bytes (incl. invalid UTF-8) in selector values, type-id parts, group_by / label_names entries, label; oracle: the real text lexes, same token kinds as the same request with harmless strings")
	var ops, impl []string
	var cases []any
	type judged struct {
		kind, text, plain string
		c                 map[string]any
	}
	var js []judged
	bg := context.Background()
	for i := 0; i < n; i++ {
		cluster := rng.Chance(40)
		gc := genCtx(rng)
		from, to := c13Window(rng, gc.From, gc.To)
		db := fakeDB(cluster)
		pc := tables.PopulateTableNames(&shared.PlannerContext{}, db)
		f, t := time.Unix(0, from).UTC(), time.Unix(0, to).UTC()
		ctxS := fmt.Sprintf("%d %d 0 %s %s %s %s %s", from, to, hx(pc.ProfilesSeriesGinTable), hx(pc.ProfilesSeriesGinDistTable), hx(pc.ProfilesSeriesTable),
			hx(pc.ProfilesSeriesDistTable), hx(pc.ProfilesDistTable))
		// one request, built twice: with hostile strings (plain = false) and with harmless ones of the same structure
		seed := rng.Fork()
		kindIdx := i % 10
		build := func(plain bool) (op, kind, text string, c map[string]any, err error) {
			g := *seed
			rng := &g
			str := func() string {
				v := c10ProfHostile(rng)
				if plain {
					return "abc"
				}
				return v
			}
			genSels := func(max int) ([]c13pSel, *profparser.Script) {
				var sels []c13pSel
				var psels []profparser.Selector
				for k, ns := 0, rng.Intn(max+1); k < ns; k++ {
					name := h.Pick(rng, c17Names)
					if rng.Chance(40) {
						name = h.Pick(rng, c17Pseudo)
					}
					opS := h.Pick(rng, []string{"=", "!=", "=~", "!~"})
					val := str()
					if val == "" {
						val = "v" // an empty value changes the selector's class (it accepts the empty value): keep both runs alike
					}
					if opS == "=~" || opS == "!~" {
						val = regexp.QuoteMeta(strings.ToValidUTF8(val, "?")) + h.Pick(rng, []string{"", ".*", "[0-9]+"})
					}
					s := c13pSel{name, opS, val}
					sels = append(sels, s)
					psels = append(psels, profparser.Selector{Name: s.Name, Op: s.Op, Val: profparser.Str{Str: strconv.Quote(s.Val)}})
				}
				return sels, &profparser.Script{Selectors: psels}
			}
			list := func(max int) []string {
				var ls []string
				for k, nl := 0, rng.Intn(max+1); k < nl; k++ {
					v := str()
					if v == "" {
						v = "'" // a list of one empty name cannot be told from the empty list in the driver's notation
					}
					ls = append(ls, v)
				}
				return ls
			}
			part := func() string { return strings.ReplaceAll(str(), ":", "") + "p" }
			sels, script := genSels(3)
			tidS := strings.Join([]string{part(), part(), part(), part(), part()}, ":")
			tid, _ := profshared.ParseTypeId(tidS)
			// transpiler.go wraps every part of the type id in back-quotes and parser.Str.Unquote trims back-quotes: a part loses
			// the back-quotes at its ends (by design; the type-unit text inside the closures is the untrimmed one)
			bt := func(x string) string { return strings.Trim(x, "`") }
			withType := append(append([]c13pSel{}, sels...), c13pSel{"__name__", "=", bt(tid.Tp)}, c13pSel{"__period_type__", "=", bt(tid.PeriodType)},
				c13pSel{"__period_unit__", "=", bt(tid.PeriodUnit)}, c13pSel{"__sample_type__", "=", bt(tid.SampleType)}, c13pSel{"__sample_unit__", "=", bt(tid.SampleUnit)})
			tu := tid.SampleType + ":" + tid.SampleUnit
			var sel sql.ISelect
			c = map[string]any{"stream": "prof-segs", "from": from, "to": to, "cluster": cluster, "selectors": sels, "type_id": tidS}
			switch kindIdx {
			case 0:
				kind = "merge-profiles"
				sel, err = prof.PlanMergeProfiles(bg, script, &tid, f, t, db)
				op = fmt.Sprintf("c10profsegs mergeprofiles %s %s %s", ctxS, c13pSer(sels), c13pSer(withType))
			case 1:
				kind = "merge-traces"
				sel, err = prof.PlanMergeTraces(bg, script, &tid, f, t, db)
				op = fmt.Sprintf("c10profsegs mergetraces %s %s %s %s", ctxS, hx(tu), c13pSer(withType), c13pSer(withType))
			case 2:
				kind = "select-series"
				gb := list(2)
				avg := rng.Bool()
				agg := v1.TimeSeriesAggregationType_TIME_SERIES_AGGREGATION_TYPE_SUM
				if avg {
					agg = v1.TimeSeriesAggregationType_TIME_SERIES_AGGREGATION_TYPE_AVERAGE
				}
				step := int64(h.Pick(rng, []int{1, 15, 60, 3600}))
				sel, err = prof.PlanSelectSeries(bg, script, &tid, gb, agg, step, f, t, db)
				op = fmt.Sprintf("c10profsegs selectseries %s %s %d %d %s %s %s", ctxS, hx(tu), b2i(avg), step, c10HexList(gb), c13pSer(sels), c13pSer(withType))
				c["group_by"] = gb
			case 3:
				kind = "series"
				ls := list(2)
				sel, err = prof.PlanSeries(bg, []*profparser.Script{script}, ls, f, t, db)
				sl := c13pSer(sels)
				if len(sels) == 0 {
					sl = "NOSEL"
				}
				op = fmt.Sprintf("c10profsegs series %s %s %s", ctxS, c10HexList(ls), sl)
				c["label_names"] = ls
			case 6, 7:
				kind = "labels-union"
				scripts := []*profparser.Script{script}
				sers := []string{c13pSer(sels)}
				if rng.Bool() {
					s2, sc2 := genSels(2)
					scripts = append(scripts, sc2)
					sers = append(sers, c13pSer(s2))
				}
				if kindIdx == 6 {
					sel, err = prof.PlanLabelNames(bg, scripts, f, t, db)
					op = fmt.Sprintf("c10profsegs labelsunion %s %s NONE %s", ctxS, hx("key"), strings.Join(sers, "|"))
				} else {
					l := str()
					sel, err = prof.PlanLabelValues(bg, scripts, l, f, t, db)
					op = fmt.Sprintf("c10profsegs labelsunion %s %s %s %s", ctxS, hx("val"), c10HexDot(l), strings.Join(sers, "|"))
					c["label"] = l
				}
			case 8:
				kind = "series-union"
				ls := list(2)
				scripts := []*profparser.Script{script}
				sers := []string{c13pSer(sels)}
				for k, ns := 0, rng.Range(1, 3); k < ns; k++ {
					s2, sc2 := genSels(2)
					scripts = append(scripts, sc2)
					sers = append(sers, c13pSer(s2))
				}
				sel, err = prof.PlanSeries(bg, scripts, ls, f, t, db)
				op = fmt.Sprintf("c10profsegs seriesunion %s %s %s", ctxS, c10HexList(ls), strings.Join(sers, "|"))
				total := 0
				for _, sc := range scripts {
					total += len(sc.Selectors)
				}
				if total == 0 {
					// PlanSeries: no selector in any set = the statement without selector (AllTimeSeriesSelectPlanner)
					kind = "series-union(no-selector)"
					op = fmt.Sprintf("c10profsegs series %s %s NOSEL", ctxS, c10HexList(ls))
				}
				c["label_names"] = ls
			case 9:
				kind = "analyze-query"
				sel, err = prof.PlanAnalyzeQuery(bg, script, f, t, db)
				op = fmt.Sprintf("c10profsegs analyze %s %s", ctxS, c13pSer(sels))
			case 4:
				kind = "label-names"
				sel, err = prof.PlanLabelNames(bg, nil, f, t, db)
				op = fmt.Sprintf("c10profsegs labelnames %s", ctxS)
			default:
				kind = "label-values"
				l := str()
				sel, err = prof.PlanLabelValues(bg, nil, l, f, t, db)
				op = fmt.Sprintf("c10profsegs labelvalues %s %s", ctxS, c10HexDot(l))
				c["label"] = l
			}
			if err != nil || sel == nil {
				return op, kind, "", c, fmt.Errorf("plan: %v", err)
			}
			text, err = sel.String(&sql.Ctx{Params: map[string]sql.SQLObject{}, Result: map[string]sql.SQLObject{}})
			return op, kind, text, c, err
		}
		op, kind, text, c, err := build(false)
		if err != nil {
			r.Count("prof-segs:impl-error:" + kind)
			continue
		}
		_, _, plainText, _, perr := build(true)
		c["kind"], c["sql"] = kind, text
		ops = append(ops, op)
		impl = append(impl, h.Hex([]byte(text)))
		cases = append(cases, c)
		r.Case(fmt.Sprintf("prof-segs:%s:%d:%d:%v", kind, from, to, c), true)
		r.Count("prof-segs:" + kind)
		if perr == nil {
			js = append(js, judged{kind, text, plainText, c})
		}
		if i < 6 {
			r.Sample(map[string]any{"stream": "prof-segs", "kind": kind, "sql": truncS(text, 600)})
		}
	}
	if err := r.Compare("prof-segs", ops, impl, cases); err != nil {
		return err
	}
	var kops []string
	for _, j := range js {
		kops = append(kops, "kinds "+h.Hex([]byte(j.text)), "kinds "+h.Hex([]byte(j.plain)))
	}
	kinds, err := h.Model(kops)
	if err != nil {
		return err
	}
	for i, j := range js {
		a, b := kinds[2*i], kinds[2*i+1]
		if strings.Contains(" "+a+" ", " E ") {
			r.Violate("C10/prof-segs/"+j.kind, "the Pyroscope statement does not lex: an error token", j.c)
			continue
		}
		if a != b {
			j.c["sql_plain"] = j.plain
			r.Violate("C10/prof-segs/"+j.kind, "the Pyroscope statement with hostile request strings has another token structure than the same request with harmless strings", j.c)
		} else {
			r.Count("prof-segs:structure-invariant")
		}
	}
	return nil
}

// c10HexList: comma list of hex strings for the driver's `bytesList?` (`-` = empty list)
func c10HexList(xs []string) string {
	if len(xs) == 0 {
		return "-"
	}
	var ps []string
	for _, x := range xs {
		ps = append(ps, hx(x))
	}
	return strings.Join(ps, ",")
}
