package main

// C16 — the caps of Tree.MergeTrie (2 000 000 nodes, 2 000 000 names), two sample types of one `type:unit` name.
//
// The real constants cannot be lowered from outside, and the Lean driver cannot merge 2 000 000 rows (its tree is a list).
// The tie therefore has two legs sharing one Go reference of the cut (`c16RefCap`: the capped merge = the plain merge of
// the row prefix that ends before the first row which would add node number cap+1 — the statement of the theorem
// `cap_is_prefix`):  (1) reference vs the Lean model `mergeTrieCap` at small caps on random rows (driver op
// `c16capflame`), (2) reference vs the REAL MergeTrie at the real cap on 2 020 101 generated rows. The oracle then
// judges what the cut does to the property on the real tree and reports it under its own key (a recorded finding).

import (
	"fmt"
	"sort"
	"strconv"
	"strings"

	"github.com/go-faster/city"
	rsvc "github.com/metrico/qryn/reader/service"
	"verif/harness/h"
)

// the rows of the prefix MergeTrie processes under the cap
func c16RefCapPrefix(cap int, rows []c16Flat) int {
	type pn struct{ p, n uint64 }
	seen := map[pn]bool{}
	for i, f := range rows {
		k := pn{f.Parent, f.Node}
		if seen[k] {
			continue
		}
		if len(seen) >= cap {
			return i
		}
		seen[k] = true
	}
	return len(rows)
}

// plain merge (no cap) in insertion order, as the canonical text c16TreeString gives for a real tree
func c16RefMerge(rows []c16Flat) (string, int64) {
	type pn struct{ p, n uint64 }
	idx := map[pn]int{}
	var out []c16Flat
	for _, f := range rows {
		k := pn{f.Parent, f.Node}
		if i, ok := idx[k]; ok {
			out[i].Self += f.Self
			out[i].Total += f.Total
			continue
		}
		idx[k] = len(out)
		out = append(out, f)
	}
	sort.SliceStable(out, func(i, j int) bool { return out[i].Parent < out[j].Parent })
	var ws []string
	var total int64
	for _, f := range out {
		ws = append(ws, fmt.Sprintf("%d,%d,%d,%d,%d", f.Parent, f.Fn, f.Node, f.Self, f.Total))
		if f.Parent == 0 {
			total += f.Total
		}
	}
	if len(ws) == 0 {
		return "-", 0
	}
	return strings.Join(ws, " "), total
}

// leg 1: the Lean model at small caps against the reference
func c16CapModelCases(r *h.Result, rng *h.Rng, n int, ops, impl *[]string, cases *[]any) {
	for i := 0; i < n; i++ {
		c := c16GenDiff(rng, false, i%4 == 3)
		rows := append(append([]c16Flat{}, c.Left.Rows...), c.Right.Rows...)
		if len(rows) == 0 {
			continue
		}
		cap := rng.Range(0, len(rows)+1)
		cut := c16RefCapPrefix(cap, rows)
		tree, total := c16RefMerge(rows[:cut])
		op := "c16capflame " + strconv.Itoa(cap) + " " + strings.Join(c16FlatWords(rows), " ")
		*ops = append(*ops, op)
		*impl = append(*impl, "ref:"+tree+";"+strconv.FormatInt(total, 10))
		*cases = append(*cases, map[string]any{"stream": "cap", "cap": cap, "rows": rows})
		r.Case(fmt.Sprintf("cap:%016x", city.CH64([]byte(op))), cut < len(rows))
		if cut < len(rows) {
			r.Count("cap:model-cut")
		} else {
			r.Count("cap:model-not-reached")
		}
	}
}

// the model answers `tree;levels;total`; the reference has no levels: compare tree and total
func c16CapModelAnswer(model string) string {
	parts := strings.Split(model, ";")
	if len(parts) != 3 {
		return model
	}
	return "ref:" + parts[0] + ";" + parts[2]
}

// leg 2 + oracle: the real MergeTrie at the real cap
func c16CapReal(r *h.Result) {
	const roots = 20001
	const kids = 100
	const capNodes = 2_000_000
	tr := rsvc.NewTree()
	tr.SampleTypes = []string{"a:b"}
	chunk := make([][]any, 0, 50000)
	flush := func() {
		tr.MergeTrie(chunk, nil, "a:b")
		chunk = chunk[:0]
	}
	add := func(p, f, n uint64, s, t int64) {
		chunk = append(chunk, []any{p, f, n, s, t})
		if len(chunk) == cap(chunk) {
			flush()
		}
	}
	// the root's children first, then the children of the root's LAST child, of the one before it, …: every node
	// conserves weight (total = self + children), all keys are distinct
	var inputTotal int64
	for i := uint64(1); i <= roots; i++ {
		add(0, 7, i, 0, kids)
		inputTotal += kids
	}
	wantKids := map[uint64]int{}
	room := capNodes - roots
	for i := uint64(roots); i >= 1; i-- {
		for j := uint64(0); j < kids; j++ {
			add(i, 8, 1_000_000+i*kids+j, 1, 1)
			if room > 0 { // the reference of the cut: the rows before the first one that would add node cap+1
				wantKids[i]++
				room--
			}
		}
	}
	flush()
	inputs := roots + roots*kids
	r.Case("cap:real-node-cap", true)
	r.Count("cap:real-2020101-rows")
	// leg 2: the real tree is the plain merge of the prefix the reference predicts (all keys distinct here: the first
	// capNodes rows). Checked structurally: per parent the number of children and their ids.
	kept := 0
	for p, cs := range tr.Nodes {
		if p != 0 && len(cs) != wantKids[p] {
			r.Disagree("cap", "real MergeTrie at the node cap", fmt.Sprintf("node %d has %d children", p, len(cs)), fmt.Sprintf("%d children", wantKids[p]), nil)
			return
		}
		for k, c := range cs {
			kept++
			var want uint64
			if p == 0 {
				want = uint64(k + 1)
			} else {
				want = 1_000_000 + p*kids + uint64(k)
			}
			if c.NodeID != want {
				r.Disagree("cap", "real MergeTrie at the node cap", fmt.Sprintf("child %d of %d is node %d", k, p, c.NodeID), fmt.Sprintf("node %d", want), nil)
				return
			}
		}
	}
	if kept != capNodes {
		r.Disagree("cap", "real MergeTrie at the node cap", fmt.Sprintf("%d nodes kept", kept), fmt.Sprintf("%d", capNodes), nil)
		return
	}
	// oracle: what the cut does to the property, on the real tree and its levels
	broken := 0
	var lost int64
	for _, c := range tr.Nodes[0] {
		sum := c.Self[0]
		for _, g := range tr.Nodes[c.NodeID] {
			sum += g.Total[0]
		}
		if sum != c.Total[0] {
			broken++
			lost += c.Total[0] - sum
		}
	}
	lv := tr.BFS("a:b")
	outside := 0
	if len(lv) >= 3 {
		// decode level 1 and level 2 like a client
		type span struct{ lo, hi int64 }
		var par []span
		x := int64(0)
		for i := 0; i+3 < len(lv[1].Values); i += 4 {
			lo := x + lv[1].Values[i]
			hi := lo + lv[1].Values[i+1]
			par = append(par, span{lo, hi})
			x = hi
		}
		x = 0
		i := 0
		for pi, c := range tr.Nodes[0] {
			for range tr.Nodes[c.NodeID] {
				lo := x + lv[2].Values[i]
				hi := lo + lv[2].Values[i+1]
				if lo < par[pi].lo || hi > par[pi].hi {
					outside++
				}
				x = hi
				i += 4
			}
		}
	}
	if kept < inputs {
		r.Violate("C16/node-cap-drops-weight",
			fmt.Sprintf("merging %d distinct nodes (root total %d, every input node conserving weight): MergeTrie keeps %d nodes and silently drops the other %d; %d kept nodes no longer have total = self + children (weight %d is in no child bar), %d bars of level 2 lie outside their parent's span",
				inputs, inputTotal, kept, inputs-kept, broken, lost, outside),
			map[string]any{"stream": "cap-real", "roots": roots, "kids": kids})
	}
	if got := tr.Total()[0]; got != inputTotal {
		// in this row order the root's children all fit; recorded for completeness
		r.Count("cap:real-root-total-short")
	}
	// the name cap: 2 000 003 distinct functions
	tr2 := rsvc.NewTree()
	tr2.SampleTypes = []string{"a:b"}
	fns := make([][]any, 0, capNodes+3)
	for i := uint64(1); i <= capNodes+3; i++ {
		fns = append(fns, []any{i, "f"})
	}
	tr2.MergeTrie([][]any{{uint64(0), uint64(capNodes + 2), uint64(5), int64(1), int64(1)}, {uint64(0), uint64(capNodes), uint64(6), int64(1), int64(1)}}, fns, "a:b")
	r.Case("cap:real-name-cap", true)
	l := tr2.BFS("a:b")
	// the model's statement (`nameTab_cap_prefix`): the first 2 000 000 distinct ids are named, a later id reads index 0
	if len(tr2.NamesMap) != capNodes || len(l) < 2 || len(l[1].Values) != 8 || l[1].Values[3] != 0 || l[1].Values[7] != capNodes+1 {
		var v []int64
		if len(l) >= 2 {
			v = l[1].Values
		}
		r.Disagree("cap", "real MergeTrie at the name cap", fmt.Sprintf("%d names, level 1 = %v", len(tr2.NamesMap), v),
			fmt.Sprintf("%d names; the bar of function %d names index 0, the bar of function %d index %d", capNodes, capNodes+2, capNodes, capNodes+1), nil)
	}
}

// two sample types with one `type:unit` name: the reader's `arrayFirst(y -> y.1 == name, …)` sees the first only
func c16DupTypes(r *h.Result, rng *h.Rng, n int, ops, impl *[]string, cases *[]any) {
	for i := 0; i < n; i++ {
		types := c16Types(rng)
		if len(types) < 2 {
			types = append(types, types[0])
		}
		first := len(types) - 2
		types[len(types)-1] = types[first] // [A, A] or [B, A, A]: the name A selects position `first`, never the last
		m := c16Merge{Type: first}
		k := rng.Range(1, 3)
		pool := c16FnPool(rng)
		for j := 0; j < k; j++ {
			m.Profiles = append(m.Profiles, c16GenProfile(rng, types, pool, 15, 6, 0, 6))
		}
		id := make([]int, k)
		for j := range id {
			id[j] = j
		}
		m.Orders = [][]int{id, c16Shuffle(rng, k)}
		m.RowSeeds = []uint64{0, rng.U64() | 1}
		m.Split = []bool{true, false}
		r.Count("dup-types:merges")
		// the model's account of which index a name selects
		var names []string
		for _, t := range types {
			names = append(names, hexName(t[0]+":"+t[1]))
		}
		*ops = append(*ops, "c16first "+hexName(types[first][0]+":"+types[first][1])+" "+strings.Join(names, ","))
		*impl = append(*impl, strconv.Itoa(c16FirstByName(types, types[first][0]+":"+types[first][1])))
		*cases = append(*cases, map[string]any{"stream": "dup-types", "types": types})
		c16RunMerge(r, rng, m, ops, impl, cases)
	}
}

func hexName(s string) string {
	const hexd = "0123456789abcdef"
	if s == "" {
		return "-"
	}
	b := make([]byte, 0, 2*len(s))
	for i := 0; i < len(s); i++ {
		b = append(b, hexd[s[i]>>4], hexd[s[i]&15])
	}
	return string(b)
}

// the position the reader's projection selects for a name: what c16TypeRows does with the emitted value names
func c16FirstByName(types [][2]string, name string) int {
	for i, t := range types {
		if t[0]+":"+t[1] == name {
			return i
		}
	}
	return len(types)
}
