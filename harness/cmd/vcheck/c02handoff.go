package main

// C02 — the hand-off from the parser's chunk buffers to svc.Request(obj).
// Streams (both on pushes whose parsed size crosses the 1 MiB chunk threshold with more streams/spans after the
// crossing; every row carries a unique tag in its timestamp, line text / span name, value and ids):
//   handoff-step     the real parsers (Loki JSON, Zipkin JSON array / newline-delimited) are consumed to the end, every
//                    request object they sent is kept, then the objects are submitted to the real insert services in a
//                    generated order (late first submissions, failed INSERTs, retries of the same object) with one
//                    synchronous flush per submission (verif hook) — vs Handoff.run with the regenerated reset facts:
//                    the rows every submission appended
//   handoff-handler  the real handlers (PushStreamV2, PushV2 → doParse/doPush/retry-go) over real services with Run loops
//                    and a fake ClickHouse client that delays and FAILS the first INSERTs, so that doPush re-submits old
//                    chunk objects after later chunks were parsed; oracle only
// Oracle (no model, decoded blocks only): every block is rectangular; every row of every block equals, in ALL
// columns, one row of the body; no row twice in one block; no row in two accepted blocks; when the push is
// acknowledged every row of the body is in exactly one accepted block.

import (
	"bytes"
	"context"
	"encoding/hex"
	"encoding/json"
	"fmt"
	"hash/fnv"
	"math"
	"net/http"
	"net/http/httptest"
	"os"
	"path/filepath"
	"sort"
	"strconv"
	"strings"
	"sync"
	"time"

	ch "github.com/ClickHouse/ch-go"
	"github.com/ClickHouse/ch-go/proto"
	"github.com/metrico/qryn/writer/ch_wrapper"
	"github.com/metrico/qryn/writer/config"
	controllerv1 "github.com/metrico/qryn/writer/controller"
	"github.com/metrico/qryn/writer/model"
	"github.com/metrico/qryn/writer/service"
	"github.com/metrico/qryn/writer/service/impl"
	"github.com/metrico/qryn/writer/service/registry"
	"github.com/metrico/qryn/writer/utils/helpers"
	"github.com/metrico/qryn/writer/utils/unmarshal"
	"verif/harness/h"
)

// ---------------------------------------------------------------- cells and blocks as text

func c02hStr(s string) string {
	if len(s) <= 40 {
		return "s:" + s
	}
	f := fnv.New64a()
	f.Write([]byte(s))
	return fmt.Sprintf("h:%d:%016x", len(s), f.Sum64())
}

type c02hBlock struct {
	Table string
	Body  string
	Cols  []string
	Data  map[string][]string
	Ok    bool
	Seq   int
}

func c02hDecodeCol(in proto.InputColumn) []string {
	n := in.Data.Rows()
	out := make([]string, 0, n)
	switch d := in.Data.(type) {
	case proto.ColUInt8:
		for _, v := range d {
			out = append(out, strconv.Itoa(int(v)))
		}
	case proto.ColInt8:
		for _, v := range d {
			out = append(out, strconv.Itoa(int(v)))
		}
	case proto.ColUInt64:
		for _, v := range d {
			out = append(out, strconv.FormatUint(v, 10))
		}
	case proto.ColInt64:
		for _, v := range d {
			out = append(out, strconv.FormatInt(v, 10))
		}
	case proto.ColFloat64:
		for _, v := range d {
			out = append(out, fmt.Sprintf("%016x", math.Float64bits(v)))
		}
	case proto.ColDate:
		for _, v := range d {
			out = append(out, strconv.Itoa(int(v)))
		}
	case *proto.ColStr:
		for i := 0; i < n; i++ {
			out = append(out, c02hStr(d.Row(i)))
		}
	case *proto.ColFixedStr:
		for i := 0; i < n; i++ {
			out = append(out, hex.EncodeToString(d.Row(i)))
		}
	default:
		for i := 0; i < n; i++ {
			out = append(out, fmt.Sprintf("?%T", in.Data))
		}
	}
	return out
}

func c02hDecode(table string, q ch.Query) *c02hBlock {
	b := &c02hBlock{Table: table, Body: q.Body, Data: map[string][]string{}}
	for _, in := range q.Input {
		b.Cols = append(b.Cols, in.Name)
		b.Data[in.Name] = c02hDecodeCol(in)
	}
	return b
}

// a row as column -> cell text
type c02hRow map[string]string

func c02hRowKey(cols []string, get func(c string) string) string {
	var sb strings.Builder
	for _, c := range cols {
		sb.WriteString(c)
		sb.WriteByte('=')
		sb.WriteString(get(c))
		sb.WriteByte(0x1f)
	}
	return sb.String()
}

// ---------------------------------------------------------------- fake ClickHouse

type c02hEnv struct {
	mu     sync.Mutex
	table  string
	script []bool          // outcome of the k-th Do (true = nil); beyond its end: nil
	delays []time.Duration // the k-th Do answers after this long
	next   *bool           // step mode: outcome of the next Do
	n      int
	seq    int
	blocks []*c02hBlock
}

type c02hClient struct {
	ch_wrapper.IChClient
	env *c02hEnv
}

func (c *c02hClient) Do(ctx context.Context, q ch.Query) error {
	e := c.env
	blk := c02hDecode(e.table, q) // the block as handed to the client
	e.mu.Lock()
	k := e.n
	e.n++
	ok := true
	if e.next != nil {
		ok = *e.next
	} else if k < len(e.script) {
		ok = e.script[k]
	}
	var d time.Duration
	if k < len(e.delays) {
		d = e.delays[k]
	}
	e.mu.Unlock()
	if d > 0 {
		time.Sleep(d)
	}
	e.mu.Lock()
	blk.Ok = ok
	blk.Seq = e.seq
	e.seq++
	e.blocks = append(e.blocks, blk)
	e.mu.Unlock()
	if !ok {
		return errScripted
	}
	return nil
}
func (c *c02hClient) Ping(ctx context.Context) error { return nil }
func (c *c02hClient) Close() error                   { return nil }

func (e *c02hEnv) snapshot() []*c02hBlock {
	e.mu.Lock()
	defer e.mu.Unlock()
	return append([]*c02hBlock{}, e.blocks...)
}

type c02hRig struct {
	envs map[string]*c02hEnv
	svcs map[string]*service.InsertServiceV2Multimodal
}

func c02hNewRig(attempts int, interval time.Duration, run bool, scripts map[string][]bool, delays map[string][]time.Duration) *c02hRig {
	c0102Setup()
	c03Setup()
	cfgOnce.Do(initWriterConfig)
	config.Cloki.Setting.SYSTEM_SETTINGS.RetryAttempts = attempts
	config.Cloki.Setting.SYSTEM_SETTINGS.RetryTimeoutS = 0
	rig := &c02hRig{envs: map[string]*c02hEnv{}, svcs: map[string]*service.InsertServiceV2Multimodal{}}
	maps := map[string]map[string]service.IInsertServiceV2{}
	for _, k := range kinds {
		env := &c02hEnv{table: k, script: scripts[k], delays: delays[k]}
		node := &model.DataDatabasesMap{}
		node.Node = "n1"
		node.WriteTimeout = 30
		e := env
		opts := model.InsertServiceOpts{Session: func() (ch_wrapper.IChClient, error) { return &c02hClient{env: e}, nil },
			Node: node, Interval: interval, MaxQueueSize: 0, ParallelNum: 1}
		var s service.IInsertServiceV2
		switch k {
		case "samples":
			s = impl.NewSamplesInsertService(opts)
		case "timeSeries":
			s = impl.NewTimeSeriesInsertService(opts)
		case "metrics":
			s = impl.NewMetricsInsertService(opts)
		case "tempoSamples":
			s = impl.NewTempoSamplesInsertService(opts)
		case "tempoTags":
			s = impl.NewTempoTagsInsertService(opts)
		case "profile":
			s = impl.NewProfileSamplesInsertService(opts)
		}
		ms := s.(*service.InsertServiceV2Multimodal)
		ms.Init()
		if run {
			go ms.Run()
		}
		rig.envs[k], rig.svcs[k] = env, ms
		maps[k] = map[string]service.IInsertServiceV2{"n1": ms}
	}
	controllerv1.Registry = registry.NewStaticServiceRegistry(maps["timeSeries"], maps["samples"], maps["metrics"],
		maps["tempoSamples"], maps["tempoTags"], maps["profile"])
	controllerv1.FPCache = fpCache()
	return rig
}

func (rig *c02hRig) stop() {
	for _, s := range rig.svcs {
		s.Stop()
	}
}

// ---------------------------------------------------------------- cases: body and the rows it submits

type c02hGroup struct {
	Rows     int `json:"rows"`      // loki: entries of the stream; zipkin: tags of the span
	Pad      int `json:"pad"`       // loki: bytes appended to every line; zipkin: bytes appended to every tag value
	ValEvery int `json:"val_every"` // loki: every n-th entry also carries a number (type 0 instead of 1); zipkin: every n-th span has a parent
}

type c02hSub struct {
	Table string `json:"table"`
	Chunk int    `json:"chunk"`
	Ok    bool   `json:"ok"`
}

type c02hCase struct {
	Stream   string           `json:"stream"`
	Proto    string           `json:"proto"` // loki | zipkin | zipkinnd
	Base     uint64           `json:"base"`
	Groups   []c02hGroup      `json:"groups"`
	Attempts int              `json:"attempts"`
	Sched    []c02hSub        `json:"sched,omitempty"`     // handoff-step
	Scripts  map[string][]bool `json:"scripts,omitempty"`  // handoff-handler: outcome of the k-th INSERT per table
	DelaysMs map[string][]int `json:"delays_ms,omitempty"` // handoff-handler: the k-th INSERT answers after …
}

var c02hTables = map[string][]string{"loki": {"timeSeries", "samples"}, "zipkin": {"tempoSamples", "tempoTags"}, "zipkinnd": {"tempoSamples", "tempoTags"}}
var c02hPType = map[string]string{"samples": "timeSamplesData", "timeSeries": "timeSeriesData", "tempoSamples": "tempoSamples", "tempoTags": "tempoTag"}

func c02hPad(tag uint64, n int) string { return strings.Repeat(string(rune('a'+tag%26)), n) }

func c02hJSONStr(s string) string {
	b, _ := json.Marshal(s)
	return string(b)
}

// c02hBuild: the request body, its content type, and per table the rows it submits, in the order the parser meets
// them — derived from the case description alone (not from anything the implementation returns).
func c02hBuild(c *c02hCase) ([]byte, string, map[string][]c02hRow) {
	exp := map[string][]c02hRow{}
	var body bytes.Buffer
	tag := c.Base
	switch c.Proto {
	case "loki":
		body.WriteString(`{"streams":[`)
		for i, g := range c.Groups {
			if i > 0 {
				body.WriteByte(',')
			}
			job := fmt.Sprintf("j%d_%d", c.Base, i)
			fp := strconv.FormatUint(c03RealFingerprint([]c03Label{{"job", job}}), 10)
			fmt.Fprintf(&body, `{"stream":{"job":%s},"values":[`, c02hJSONStr(job))
			types := map[int]bool{}
			day := ""
			for k := 0; k < g.Rows; k++ {
				tag++
				if k > 0 {
					body.WriteByte(',')
				}
				ts := int64(1700000000000000000) + int64(tag)
				line := fmt.Sprintf("s%d:", tag) + c02hPad(tag, g.Pad)
				tp, val := 1, float64(0)
				if g.ValEvery > 0 && k%g.ValEvery == 0 {
					tp, val = 0, float64(tag%1000)+0.5
					fmt.Fprintf(&body, `["%d",%s,%s]`, ts, c02hJSONStr(line), strconv.FormatFloat(val, 'f', -1, 64))
				} else {
					fmt.Fprintf(&body, `["%d",%s]`, ts, c02hJSONStr(line))
				}
				types[tp] = true
				day = strconv.FormatInt(ts/1000000000/86400, 10)
				exp["samples"] = append(exp["samples"], c02hRow{"type": strconv.Itoa(tp), "fingerprint": fp,
					"timestamp_ns": strconv.FormatInt(ts, 10), "string": c02hStr(line), "value": fmt.Sprintf("%016x", math.Float64bits(val))})
			}
			body.WriteString(`]}`)
			// one series row per (day, fingerprint, type) the request has not emitted yet: types in ascending order
			for _, tp := range []int{0, 1, 2} {
				if types[tp] {
					exp["timeSeries"] = append(exp["timeSeries"], c02hRow{"type": strconv.Itoa(tp), "date": day, "fingerprint": fp,
						"labels": c02hStr(`{"job":` + c02hJSONStr(job) + `}`)})
				}
			}
		}
		body.WriteString(`]}`)
		return body.Bytes(), "application/json", exp
	case "zipkin", "zipkinnd":
		nd := c.Proto == "zipkinnd"
		if !nd {
			body.WriteByte('[')
		}
		for i, g := range c.Groups {
			tag += 16
			if i > 0 {
				if nd {
					body.WriteByte('\n')
				} else {
					body.WriteByte(',')
				}
			}
			traceHex := fmt.Sprintf("%032x", tag)
			idHex := fmt.Sprintf("%016x", tag+7)
			name := fmt.Sprintf("n%d", tag)
			svc := fmt.Sprintf("svc%d", tag%7)
			tsUs := int64(1700000000000000) + int64(tag)
			durUs := int64(10 + tag%1000)
			var sp bytes.Buffer
			fmt.Fprintf(&sp, `{"traceId":"%s","id":"%s",`, traceHex, idHex)
			parent := ""
			if g.ValEvery > 0 && i%g.ValEvery == 0 {
				pHex := fmt.Sprintf("%016x", tag+9)
				fmt.Fprintf(&sp, `"parentId":"%s",`, pHex)
				raw, _ := hex.DecodeString(pHex)
				parent = string(raw)
			}
			fmt.Fprintf(&sp, `"name":%s,"timestamp":%d,"duration":%d,"localEndpoint":{"serviceName":%s},"tags":{`, c02hJSONStr(name), tsUs, durUs, c02hJSONStr(svc))
			type kv struct{ k, v string }
			tags := []kv{{"name", name}, {"local_endpoint_service_name", svc}}
			for j := 0; j < g.Rows; j++ {
				if j > 0 {
					sp.WriteByte(',')
				}
				k := fmt.Sprintf("k%d_%d", tag, j)
				v := fmt.Sprintf("v%d_%d:", tag, j) + c02hPad(tag+uint64(j), g.Pad)
				fmt.Fprintf(&sp, `%s:%s`, c02hJSONStr(k), c02hJSONStr(v))
				tags = append(tags, kv{k, v})
			}
			sp.WriteString(`}}`)
			tags = append(tags, kv{"service.name", svc})
			body.Write(sp.Bytes())
			tsNs := tsUs * 1000
			exp["tempoSamples"] = append(exp["tempoSamples"], c02hRow{"trace_id": traceHex, "span_id": idHex, "parent_id": c02hStr(parent),
				"name": c02hStr(name), "timestamp_ns": strconv.FormatInt(tsNs, 10), "duration_ns": strconv.FormatInt(durUs*1000, 10),
				"service_name": c02hStr(svc), "payload_type": "1", "payload": c02hStr(sp.String())})
			for _, t := range tags {
				exp["tempoTags"] = append(exp["tempoTags"], c02hRow{"date": strconv.FormatInt(tsNs/1000000000/86400, 10), "key": c02hStr(t.k), "val": c02hStr(t.v),
					"trace_id": traceHex, "span_id": idHex, "timestamp_ns": strconv.FormatInt(tsNs, 10), "duration": strconv.FormatInt(durUs*1000, 10)})
			}
		}
		if !nd {
			body.WriteByte(']')
			return body.Bytes(), "application/json", exp
		}
		return body.Bytes(), "ndjson", exp
	}
	panic("c02hBuild: protocol " + c.Proto)
}

// c02hGenCase: a body whose parsed size crosses 1 MiB at least once, with more streams/spans after the crossing
func c02hGenCase(rng *h.Rng, proto string, serial int) *c02hCase {
	c := &c02hCase{Proto: proto, Base: uint64(serial) << 22, Attempts: 2 + rng.Intn(2)}
	target := 1200*1024 + rng.Intn(1500*1024) // parsed bytes: 1.2–2.6 MiB, i.e. 1 or 2 crossings
	size := 0
	switch proto {
	case "loki":
		valEvery := h.Pick(rng, []int{0, 2, 3, 7})
		for size < target || len(c.Groups) < 4 {
			g := c02hGroup{Rows: 20 + rng.Intn(380), Pad: 300 + rng.Intn(1500), ValEvery: valEvery}
			if rng.Chance(15) {
				g.Rows = 1 + rng.Intn(3)
			}
			c.Groups = append(c.Groups, g)
			size += g.Rows * (26 + 12 + g.Pad)
		}
		// streams after the last crossing
		for k := 1 + rng.Intn(3); k > 0; k-- {
			c.Groups = append(c.Groups, c02hGroup{Rows: 5 + rng.Intn(200), Pad: 50 + rng.Intn(400), ValEvery: valEvery})
		}
	default:
		for size < target || len(c.Groups) < 6 {
			g := c02hGroup{Rows: 1 + rng.Intn(3), Pad: 15000 + rng.Intn(50000), ValEvery: h.Pick(rng, []int{0, 2, 3})}
			c.Groups = append(c.Groups, g)
			size += 2 * g.Rows * g.Pad
		}
		for k := 1 + rng.Intn(4); k > 0; k-- {
			c.Groups = append(c.Groups, c02hGroup{Rows: 1 + rng.Intn(3), Pad: 100 + rng.Intn(3000), ValEvery: 2})
		}
	}
	return c
}

// ---------------------------------------------------------------- the oracle

func c02hJudge(r *h.Result, stream, table string, blocks []*c02hBlock, exp []c02hRow, acked bool, replay any) {
	var cols []string
	for c := range oracleCols[table] {
		cols = append(cols, c)
	}
	sort.Strings(cols)
	expCount := map[string]int{}
	for _, row := range exp {
		expCount[c02hRowKey(cols, func(c string) string { return row[c] })]++
	}
	// for the message: which submitted rows carry a given value in a given column
	var byCol map[string]map[string]int
	source := func(c, v string) int {
		if byCol == nil {
			byCol = map[string]map[string]int{}
			for _, c := range cols {
				byCol[c] = map[string]int{}
			}
			for i := len(exp) - 1; i >= 0; i-- {
				for _, c := range cols {
					byCol[c][exp[i][c]] = i
				}
			}
		}
		if i, ok := byCol[c][v]; ok {
			return i
		}
		return -1
	}
	okCount := map[string]int{}
	for bi, b := range blocks {
		r.Count(stream + ":block-checked")
		if ic := insertColsOf(b.Body); strings.Join(ic, ",") != strings.Join(b.Cols, ",") {
			r.Violate("C02/insert-columns-mismatch", fmt.Sprintf("%s: %s INSERT lists (%s) but the Input columns are (%s)", stream, table,
				strings.Join(ic, ","), strings.Join(b.Cols, ",")), replay)
		}
		have := append([]string{}, b.Cols...)
		sort.Strings(have)
		if strings.Join(have, ",") != strings.Join(cols, ",") {
			r.Violate("C02/column-set", fmt.Sprintf("%s: %s block has columns %v, the table needs %v", stream, table, have, cols), replay)
			continue
		}
		n := len(b.Data[cols[0]])
		rect := true
		for _, c := range cols {
			if len(b.Data[c]) != n {
				rect = false
			}
		}
		if !rect {
			var ls []string
			for _, c := range b.Cols {
				ls = append(ls, fmt.Sprintf("%s=%d", c, len(b.Data[c])))
			}
			r.Violate("C02/non-rectangular-block", fmt.Sprintf("%s: %s block #%d with per-column row counts %s", stream, table, bi, strings.Join(ls, " ")), replay)
			continue
		}
		inBlock := map[string]int{}
		for i := 0; i < n; i++ {
			key := c02hRowKey(cols, func(c string) string { return b.Data[c][i] })
			if expCount[key] == 0 {
				// describe: which submitted rows do the cells come from?
				srcs := map[int][]string{}
				var unknown []string
				for _, c := range cols {
					if s := source(c, b.Data[c][i]); s >= 0 {
						srcs[s] = append(srcs[s], c)
					} else {
						unknown = append(unknown, c)
					}
				}
				var parts []string
				var ks []int
				for s := range srcs {
					ks = append(ks, s)
				}
				sort.Ints(ks)
				for _, s := range ks {
					parts = append(parts, fmt.Sprintf("%v of submitted row #%d", srcs[s], s))
				}
				if len(unknown) > 0 {
					parts = append(parts, fmt.Sprintf("%v of no submitted row", unknown))
				}
				r.Violate("C02/handoff/row-never-submitted",
					fmt.Sprintf("%s: row %d of %s block #%d (%d rows, INSERT %s) equals no submitted row in all columns: it has %s",
						stream, i, table, bi, n, okStr(b.Ok), strings.Join(parts, ", ")), replay)
				continue
			}
			inBlock[key]++
			if inBlock[key] > expCount[key] {
				r.Violate("C02/handoff/row-duplicated-in-block",
					fmt.Sprintf("%s: submitted row #%d occurs %d times in %s block #%d", stream, source(cols[0], b.Data[cols[0]][i]), inBlock[key], table, bi), replay)
			}
			if b.Ok {
				okCount[key]++
			}
		}
	}
	twice, missing, firstTwice, firstMissing := 0, 0, -1, -1
	for i, row := range exp {
		key := c02hRowKey(cols, func(c string) string { return row[c] })
		if okCount[key] > expCount[key] {
			twice++
			if firstTwice < 0 {
				firstTwice = i
			}
		}
		if acked && okCount[key] < expCount[key] {
			missing++
			if firstMissing < 0 {
				firstMissing = i
			}
		}
	}
	if twice > 0 {
		r.Violate("C02/handoff/row-in-two-accepted-blocks",
			fmt.Sprintf("%s: %d of the %d submitted %s rows are in more than one accepted block (first: row #%d)", stream, twice, len(exp), table, firstTwice), replay)
	}
	if missing > 0 {
		r.Violate("C02/handoff/acked-row-in-no-accepted-block",
			fmt.Sprintf("%s: the push was acknowledged but %d of its %d %s rows are in no accepted block (first: row #%d)", stream, missing, len(exp), table, firstMissing), replay)
	}
}

// ---------------------------------------------------------------- handoff-step

func c02hParser(proto string) unmarshal.ParsingFunction {
	switch proto {
	case "loki":
		return unmarshal.DecodePushRequestStringV2
	case "zipkin":
		return unmarshal.UnmarshalZipkinJSONV2
	case "zipkinnd":
		return unmarshal.UnmarshalZipkinNDJSONV2
	}
	panic("c02hParser: " + proto)
}

// rows the object's header says it holds (the length of the array the service counts by)
func c02hObjRows(o helpers.SizeGetter) int {
	switch v := o.(type) {
	case *model.TimeSamplesData:
		if v != nil {
			return len(v.MTimestampNS)
		}
	case *model.TimeSeriesData:
		if v != nil {
			return len(v.MDate)
		}
	case *model.TempoSamples:
		if v != nil {
			return len(v.MTraceId)
		}
	case *model.TempoTag:
		if v != nil {
			return len(v.MDate)
		}
	}
	return -1
}

type c02hStepSub struct {
	c02hSub
	blk *c02hBlock // nil: the request resolved without an INSERT (no rows)
	err string
}

type c02hCfgInfo struct {
	obj    string
	fields []string
}

var c02hCfgCache = map[string]*c02hCfgInfo{}

// the regenerated reset facts, as the compiled model holds them
func c02hCfg(ptype string) (*c02hCfgInfo, error) {
	if c, ok := c02hCfgCache[ptype]; ok {
		return c, nil
	}
	out, err := h.Model([]string{"c02handoffcfg " + ptype})
	if err != nil {
		return nil, err
	}
	f := strings.Fields(out[0])
	if len(f) != 2 {
		return nil, fmt.Errorf("c02handoffcfg %s: %q", ptype, out[0])
	}
	c := &c02hCfgInfo{obj: f[0]}
	for _, kv := range strings.Split(f[1], ",") {
		c.fields = append(c.fields, strings.SplitN(kv, "=", 2)[0])
	}
	c02hCfgCache[ptype] = c
	return c, nil
}

func c02hGenSched(rng *h.Rng, tables []string, nChunks map[string]int, attempts int) []c02hSub {
	// per push: the outcomes of its attempts
	type push struct {
		table string
		chunk int
		outs  []bool
	}
	var pushes []*push
	for _, t := range tables {
		for c := 0; c < nChunks[t]; c++ {
			var outs []bool
			switch x := rng.Intn(10); {
			case x < 3:
				outs = []bool{true}
			case x < 8:
				outs = []bool{false, true}
			case x < 9 && attempts >= 3:
				outs = []bool{false, false, true}
			default:
				for k := 0; k < attempts; k++ {
					outs = append(outs, false)
				}
			}
			pushes = append(pushes, &push{t, c, outs})
		}
	}
	var sched []c02hSub
	switch rng.Intn(3) {
	case 0: // as the handler does when nothing is late: first attempts in parse order, then the retries round by round
		for round := 0; round < attempts; round++ {
			for _, p := range pushes {
				if round < len(p.outs) {
					sched = append(sched, c02hSub{p.table, p.chunk, p.outs[round]})
				}
			}
		}
	case 1: // late: last chunk first
		for i := len(pushes) - 1; i >= 0; i-- {
			for _, o := range pushes[i].outs {
				sched = append(sched, c02hSub{pushes[i].table, pushes[i].chunk, o})
			}
		}
	default: // any interleaving that keeps each push's own order
		pos := make([]int, len(pushes))
		for {
			var live []int
			for i, p := range pushes {
				if pos[i] < len(p.outs) {
					live = append(live, i)
				}
			}
			if len(live) == 0 {
				break
			}
			i := live[rng.Intn(len(live))]
			sched = append(sched, c02hSub{pushes[i].table, pushes[i].chunk, pushes[i].outs[pos[i]]})
			pos[i]++
		}
	}
	return sched
}

func c02hRunStep(r *h.Result, rng *h.Rng, c *c02hCase, ops, impl *[]string, cases *[]any, filters *[]map[string]bool) error {
	c.Stream = "handoff-step"
	body, _, exp := c02hBuild(c)
	tables := c02hTables[c.Proto]
	rig := c02hNewRig(c.Attempts, time.Hour, false, nil, nil)
	ctx := context.WithValue(context.WithValue(context.Background(), "META", ""), "TTL_DAYS", uint16(0))
	out := c02hParser(c.Proto)(ctx, bytes.NewReader(body), c03FreshCache())
	// the parser runs to its end; the objects it sent are kept, untouched, for later
	objs := map[string][]helpers.SizeGetter{}
	lens := map[string][]int{}
	timeout := time.After(60 * time.Second)
recv:
	for {
		select {
		case resp, ok := <-out:
			if !ok {
				break recv
			}
			if resp.Error != nil {
				return fmt.Errorf("handoff-step: %s parser rejected the generated body: %v", c.Proto, resp.Error)
			}
			for _, t := range tables {
				var o helpers.SizeGetter
				switch t {
				case "timeSeries":
					o = resp.TimeSeriesRequest
				case "samples":
					o = resp.SamplesRequest
				case "tempoSamples":
					o = resp.SpansRequest
				case "tempoTags":
					o = resp.SpansAttrsRequest
				}
				n := c02hObjRows(o)
				if n < 0 {
					return fmt.Errorf("handoff-step: response without a %s object", t)
				}
				objs[t] = append(objs[t], o)
				lens[t] = append(lens[t], n)
			}
		case <-timeout:
			return fmt.Errorf("handoff-step: parser did not finish")
		}
	}
	nChunks := map[string]int{}
	for _, t := range tables {
		nChunks[t] = len(objs[t])
		total := 0
		for _, n := range lens[t] {
			total += n
		}
		if total != len(exp[t]) {
			// the chunks do not even hold as many rows as the body has: judged below through the blocks; the model line is skipped
			r.Count("handoff-step:row-count-differs")
		}
	}
	if len(c.Sched) == 0 {
		c.Sched = c02hGenSched(rng, tables, nChunks, c.Attempts)
	}
	replay := map[string]any{"stream": "handoff-step", "case": c}
	// ---- run the schedule: one Request + one synchronous flush per submission
	subsByTable := map[string][]c02hStepSub{}
	allOk := map[string]bool{}
	done := map[string]map[int]bool{}
	for _, t := range tables {
		allOk[t] = true
		done[t] = map[int]bool{}
	}
	for _, s := range c.Sched {
		if s.Chunk >= nChunks[s.Table] || done[s.Table][s.Chunk] {
			continue // a replay written for another chunking; doPush stops at the first success
		}
		env, ms := rig.envs[s.Table], rig.svcs[s.Table]
		syncSubs, _ := ms.VerifSubServices()
		okv := s.Ok
		env.mu.Lock()
		env.next = &okv
		before := len(env.blocks)
		env.mu.Unlock()
		p := ms.Request(objs[s.Table][s.Chunk], service.INSERT_MODE_SYNC)
		ms.PlanFlush()
		for _, sub := range syncSubs {
			sub.VerifIterateIfDue()
		}
		cctx, cancel := context.WithTimeout(context.Background(), 5*time.Second)
		_, err := p.GetCtx(cctx)
		cancel()
		st := c02hStepSub{c02hSub: s}
		if err != nil {
			st.err = err.Error()
		}
		blks := env.snapshot()
		if len(blks) > before {
			st.blk = blks[len(blks)-1]
		}
		if st.blk == nil && err == nil {
			okv = true // nothing was sent: the request had no rows and resolved at once
		}
		st.Ok = err == nil
		subsByTable[s.Table] = append(subsByTable[s.Table], st)
		if err == nil {
			done[s.Table][s.Chunk] = true
		}
	}
	for _, t := range tables {
		for ci := 0; ci < nChunks[t]; ci++ {
			if !done[t][ci] {
				allOk[t] = false
			}
		}
	}
	// ---- oracle
	for _, t := range tables {
		c02hJudge(r, "handoff-step/"+c.Proto, t, rig.envs[t].snapshot(), exp[t], allOk[t], replay)
	}
	// ---- the model: Handoff.run with the regenerated reset facts on the same schedule
	for _, t := range tables {
		total := 0
		for _, n := range lens[t] {
			total += n
		}
		if total != len(exp[t]) {
			continue
		}
		cfg, err := c02hCfg(c02hPType[t])
		if err != nil {
			return err
		}
		colOf := map[string]string{} // field -> column
		for col, f := range oracleCols[t] {
			colOf[f] = col
		}
		intern := map[string]int{}
		id := func(s string) string {
			if _, ok := intern[s]; !ok {
				intern[s] = len(intern) + 1
			}
			return strconv.Itoa(intern[s])
		}
		var mops []string
		keep := map[string]bool{}
		off := 0
		for _, n := range lens[t] {
			for _, f := range cfg.fields {
				col, ok := colOf[f]
				if !ok {
					continue
				}
				keep[f] = true
				if n == 0 {
					continue
				}
				cells := make([]string, n)
				for i := 0; i < n; i++ {
					cells[i] = id(f + "\x00" + exp[t][off+i][col])
				}
				mops = append(mops, "a:"+f+":0:"+strings.Join(cells, ","))
			}
			off += n
			mops = append(mops, "f", "r")
		}
		var implSubs []string
		for k, s := range subsByTable[t] {
			mops = append(mops, fmt.Sprintf("s:%d", s.Chunk), fmt.Sprintf("d:%d:%s", s.Chunk, b01(s.Ok)))
			var fs []string
			for _, f := range cfg.fields {
				col, ok := colOf[f]
				if !ok {
					continue
				}
				cells := "-"
				if s.blk != nil && len(s.blk.Data[col]) > 0 {
					cs := make([]string, len(s.blk.Data[col]))
					for i, v := range s.blk.Data[col] {
						cs[i] = id(f + "\x00" + v)
					}
					cells = strings.Join(cs, ",")
				}
				fs = append(fs, f+"="+cells)
			}
			implSubs = append(implSubs, fmt.Sprintf("%d/%d/%s", k, s.Chunk, strings.Join(fs, "|")))
		}
		*ops = append(*ops, fmt.Sprintf("c02handoff %s %d %s", c02hPType[t], c.Attempts, strings.Join(mops, ";")))
		*impl = append(*impl, strings.Join(implSubs, ";"))
		*cases = append(*cases, map[string]any{"table": t, "case": c})
		*filters = append(*filters, keep)
	}
	late, retries := 0, 0
	seen := map[string]int{}
	for _, s := range c.Sched {
		k := fmt.Sprintf("%s/%d", s.Table, s.Chunk)
		if seen[k] > 0 {
			retries++
		}
		seen[k]++
	}
	for _, t := range tables {
		if len(subsByTable[t]) > 0 && subsByTable[t][0].Chunk != 0 {
			late++
		}
	}
	maxChunks := 0
	for _, t := range tables {
		if nChunks[t] > maxChunks {
			maxChunks = nChunks[t]
		}
	}
	r.Case(fmt.Sprintf("handoff-step:%s:%d:%v", c.Proto, c.Base, c.Sched), maxChunks >= 3 && retries > 0)
	r.Count(fmt.Sprintf("handoff-step:%s:chunks=%d", c.Proto, maxChunks))
	r.CountN("handoff-step:submissions", len(c.Sched))
	r.CountN("handoff-step:retries", retries)
	if late > 0 {
		r.Count("handoff-step:first-submission-is-a-later-chunk")
	}
	return nil
}

// the model answers with every field of the object; the comparison is on the fields the table stores
func c02hFilterModel(ans string, keep map[string]bool) string {
	parts := strings.SplitN(ans, "#", 2)
	if parts[0] == "" {
		return ""
	}
	var subs []string
	for _, s := range strings.Split(parts[0], ";") {
		f := strings.SplitN(s, "/", 3)
		if len(f) != 3 {
			return ans
		}
		var fs []string
		for _, kv := range strings.Split(f[2], "|") {
			if keep[strings.SplitN(kv, "=", 2)[0]] {
				fs = append(fs, kv)
			}
		}
		subs = append(subs, f[0]+"/"+f[1]+"/"+strings.Join(fs, "|"))
	}
	return strings.Join(subs, ";")
}

func c02HandoffStep(r *h.Result, rng *h.Rng, protos []string, n int, fixed []*c02hCase) error {
	r.Stream("handoff-step: real parsers (Loki JSON, Zipkin array / newline-delimited) on bodies crossing the 1 MiB chunk threshold once or twice with more streams/spans after the crossing; every request object sent is submitted later to the real insert services in a generated order (late first submissions, failed INSERTs, retries of the same object), one synchronous flush per submission — vs Handoff.run with Gen.ChunkReset: the rows every submission appended; oracle on the decoded blocks")
	var ops, impl []string
	var cases []any
	var filters []map[string]bool
	serial := 0
	for _, c := range fixed {
		if err := c02hRunStep(r, rng, c, &ops, &impl, &cases, &filters); err != nil {
			return err
		}
	}
	for i := 0; i < n && fixed == nil; i++ {
		serial++
		c := c02hGenCase(rng, protos[i%len(protos)], serial)
		if err := c02hRunStep(r, rng.Fork(), c, &ops, &impl, &cases, &filters); err != nil {
			return err
		}
		if i < 2 {
			r.Sample(map[string]any{"stream": "handoff-step", "proto": c.Proto, "groups": len(c.Groups), "attempts": c.Attempts, "schedule": c.Sched})
		}
	}
	if len(ops) == 0 {
		return nil
	}
	ans, err := h.Model(ops)
	if err != nil {
		return err
	}
	for i := range ops {
		if m := c02hFilterModel(ans[i], filters[i]); m != impl[i] {
			r.Disagree("handoff-step", trunc(ops[i], 300), trunc(impl[i], 300), trunc(m, 300), cases[i])
		}
	}
	return nil
}

// ---------------------------------------------------------------- handoff-handler

// handler cases that ended without an answer in this run: after two of them the stream has given its verdict and the
// remaining cases are skipped (each would cost its deadline again)
var c02hNoAnswer int

func c02hRunHandler(r *h.Result, c *c02hCase) {
	c.Stream = "handoff-handler"
	if c02hNoAnswer >= 2 {
		r.Count("handoff-handler:skipped-after-two-unanswered-pushes")
		return
	}
	body, ctype, exp := c02hBuild(c)
	tables := c02hTables[c.Proto]
	delays := map[string][]time.Duration{}
	for t, ds := range c.DelaysMs {
		for _, d := range ds {
			delays[t] = append(delays[t], time.Duration(d)*time.Millisecond)
		}
	}
	rig := c02hNewRig(c.Attempts, time.Millisecond, true, c.Scripts, delays)
	cfg := controllerv1.NewMiddlewareConfig(controllerv1.WithOverallContextMiddleware)
	var handler func(w http.ResponseWriter, r *http.Request)
	path := "/loki/api/v1/push"
	if c.Proto == "loki" {
		handler = controllerv1.PushStreamV2(cfg)
	} else {
		handler = controllerv1.PushV2(cfg)
		path = "/tempo/spans"
	}
	done := make(chan int, 1)
	go func() {
		req := httptest.NewRequest("POST", path, bytes.NewReader(body))
		req.Header.Set("Content-Type", ctype)
		w := httptest.NewRecorder()
		handler(w, req)
		done <- w.Code
	}()
	var allSubs []*service.InsertServiceV2
	for _, t := range tables {
		ss, as := rig.svcs[t].VerifSubServices()
		allSubs = append(append(allSubs, ss...), as...)
	}
	code, _, quiescent := c0102AwaitAnswer(done, 90*time.Second, allSubs, func() int {
		n := 0
		for _, t := range tables {
			rig.envs[t].mu.Lock()
			n += rig.envs[t].n
			rig.envs[t].mu.Unlock()
		}
		return n
	})
	// doPush goroutines of other chunks may still be retrying after an error answer: let them finish
	quiet := 0
	last := -1
	for i := 0; i < 400 && quiet < 6; i++ {
		time.Sleep(5 * time.Millisecond)
		n := 0
		for _, t := range tables {
			rig.envs[t].mu.Lock()
			n += rig.envs[t].n
			rig.envs[t].mu.Unlock()
		}
		if n == last {
			quiet++
		} else {
			quiet, last = 0, n
		}
	}
	rig.stop()
	replay := map[string]any{"stream": "handoff-handler", "case": c, "status": code}
	acked := code >= 200 && code < 300
	nDo, nFail := 0, 0
	for _, t := range tables {
		blocks := rig.envs[t].snapshot()
		for _, b := range blocks {
			nDo++
			if !b.Ok {
				nFail++
			}
		}
		c02hJudge(r, "handoff-handler/"+c.Proto, t, blocks, exp[t], acked, replay)
	}
	if code < 0 {
		c02hNoAnswer++
		r.Violate("C01/no-answer/multi-chunk", fmt.Sprintf("handoff-handler: %s push of %d groups got no answer: %s", c.Proto, len(c.Groups),
			map[bool]string{true: "the handler still waits although every insert service is idle (nothing queued, no INSERT in flight, no INSERT made for 2 s): nothing is left that could complete the promise it waits for",
				false: "none within 90 s"}[quiescent]), replay)
	}
	r.Case(fmt.Sprintf("handoff-handler:%s:%d:%v:%v", c.Proto, c.Base, c.Scripts, c.DelaysMs), nFail > 0 && acked)
	r.Count(fmt.Sprintf("handoff-handler:%s:status=%d", c.Proto, code))
	r.CountN("handoff-handler:inserts", nDo)
	r.CountN("handoff-handler:inserts-failed", nFail)
}

func c02HandoffHandler(r *h.Result, rng *h.Rng, protos []string, n int) {
	r.Stream("handoff-handler: real PushStreamV2 / PushV2 handlers (doParse, doPush goroutines, retry-go) with multi-chunk bodies, real services with Run loops (1 ms flush), a fake ClickHouse client that delays the first INSERTs of every table by 5–60 ms and fails the first 1–3 of them, so that retries re-submit old chunk objects after later chunks were parsed; oracle on the decoded blocks and the status")
	for i := 0; i < n; i++ {
		c := c02hGenCase(rng, protos[i%len(protos)], 500+i)
		c.Attempts = 3 + rng.Intn(2)
		c.Scripts, c.DelaysMs = map[string][]bool{}, map[string][]int{}
		for _, t := range c02hTables[c.Proto] {
			nf := 1 + rng.Intn(2)
			if rng.Chance(15) {
				nf = c.Attempts + 1 // the first push runs out of attempts: error answer
			}
			for k := 0; k < nf; k++ {
				c.Scripts[t] = append(c.Scripts[t], false)
				c.DelaysMs[t] = append(c.DelaysMs[t], 5+rng.Intn(56))
			}
			if rng.Chance(50) {
				c.Scripts[t] = append(c.Scripts[t], true, false)
				c.DelaysMs[t] = append(c.DelaysMs[t], rng.Intn(20), rng.Intn(20))
			}
		}
		c02hRunHandler(r, c)
		if i == 0 {
			r.Sample(map[string]any{"stream": "handoff-handler", "proto": c.Proto, "groups": len(c.Groups), "attempts": c.Attempts, "scripts": c.Scripts, "delays_ms": c.DelaysMs})
		}
	}
}

// ---------------------------------------------------------------- entry points

func c02hLoadReplay(path string) *c02hCase {
	b, err := os.ReadFile(path)
	if err != nil {
		b, err = os.ReadFile(filepath.Join("..", path))
	}
	if err != nil {
		return nil
	}
	var doc struct {
		Replay struct {
			Stream string    `json:"stream"`
			Case   *c02hCase `json:"case"`
		} `json:"replay"`
	}
	if json.Unmarshal(b, &doc) != nil || doc.Replay.Case == nil || !strings.HasPrefix(doc.Replay.Stream, "handoff-") {
		return nil
	}
	doc.Replay.Case.Stream = doc.Replay.Stream
	return doc.Replay.Case
}

// c02Handoff runs both streams; with a replay file of one of them, only that case (reports handled = true).
func c02Handoff(r *h.Result, rng *h.Rng, tier string, replay string) (bool, error) {
	if replay != "" {
		c := c02hLoadReplay(replay)
		if c == nil {
			return false, nil
		}
		if c.Stream == "handoff-handler" {
			c02hRunHandler(r, c)
			return true, nil
		}
		return true, c02HandoffStep(r, rng, nil, 0, []*c02hCase{c})
	}
	protos := []string{"loki", "zipkin", "loki", "zipkinnd", "loki"}
	nStep, nHandler := 10, 8
	switch tier {
	case "thorough":
		nStep, nHandler = 120, 80
	case "search":
		nStep, nHandler = 40, 40
	}
	if err := c02HandoffStep(r, rng.Fork(), protos, nStep, nil); err != nil {
		return true, err
	}
	c02HandoffHandler(r, rng.Fork(), protos, nHandler)
	return true, nil
}
